package main

// C19: tie of the model's resolved call graph (lean/Martian/RefactorGraph.lean,
// `deepGraph`: deep inlining of sub-pipeline inputs up to stage outputs and
// literals, declared-type narrowing of struct values, wildcard expansion) to
// the real `Ast.MakeCallGraph`.
//
// The real graph is walked through its Go objects (CallGraphNode /
// ResolvedBinding / Exp) and printed in the encoding of the driver's
// `C19.graph` reply; both node lists are sorted by fqid and compared as text.
//
//   node  := ( N fqid callable S|P ( ( name rexp )* ) rexp ( rexp* ) )
//   rexp  := ( L hex ) | ( R fqid callable path* ) | ( A rexp* ) | ( M ( hexkey rexp )* )
//          | ( T ( key rexp )* ) | ( X rexp )
//   types := ( S name ( member base adim mdim )* )* | ( C name ( ( in base a m )* ) ( ( out base a m )* ) )*
//
// Fragment of the model: no map calls / split expressions and no `disabled`
// modifier anywhere in the program (the real resolution wraps expressions in
// split / merge / disabled nodes there).

import (
	"fmt"
	"path/filepath"
	"sort"
	"strings"

	"github.com/martian-lang/martian/martian/syntax"
)

func c19TypeTok(e *c19Enc, id string, t syntax.TypeId) {
	e.tok("(")
	e.tok(id)
	e.tok(t.Tname)
	e.tok(fmt.Sprint(t.ArrayDim))
	e.tok(fmt.Sprint(t.MapDim))
	e.tok(")")
}

// c19EncodeTypes: struct definitions and the typed signatures of all callables.
func c19EncodeTypes(ast *syntax.Ast) string {
	var e c19Enc
	for _, s := range ast.StructTypes {
		e.tok("(")
		e.tok("S")
		e.tok(s.Id)
		for _, m := range s.Members {
			c19TypeTok(&e, m.Id, m.Tname)
		}
		e.tok(")")
	}
	e.tok("|")
	for _, c := range ast.Callables.List {
		e.tok("(")
		e.tok("C")
		e.tok(c.GetId())
		e.tok("(")
		if ps := c.GetInParams(); ps != nil {
			for _, p := range ps.List {
				c19TypeTok(&e, p.Id, p.Tname)
			}
		}
		e.tok(")")
		e.tok("(")
		if ps := c.GetOutParams(); ps != nil {
			for _, p := range ps.List {
				c19TypeTok(&e, p.Id, p.Tname)
			}
		}
		e.tok(")")
		e.tok(")")
	}
	return e.sb.String()
}

// c19GraphFragment reports why the program is outside the model's fragment
// ("" = inside).
func c19GraphFragment(ast *syntax.Ast) string {
	var hasSplit func(x syntax.Exp) bool
	hasSplit = func(x syntax.Exp) bool {
		switch x := x.(type) {
		case *syntax.SplitExp:
			return true
		case *syntax.ArrayExp:
			for _, v := range x.Value {
				if hasSplit(v) {
					return true
				}
			}
		case *syntax.MapExp:
			for _, v := range x.Value {
				if hasSplit(v) {
					return true
				}
			}
		}
		return false
	}
	checkCall := func(c *syntax.CallStm) string {
		if c.CallMode() != syntax.ModeSingleCall {
			return "map-call"
		}
		if c.Bindings != nil {
			for _, b := range c.Bindings.List {
				if hasSplit(b.Exp) {
					return "map-call"
				}
			}
		}
		if c.Modifiers != nil && c.Modifiers.Bindings != nil {
			for _, b := range c.Modifiers.Bindings.List {
				if b.Id == "disabled" {
					return "disabled"
				}
			}
		}
		return ""
	}
	for _, c := range ast.Callables.List {
		if p, ok := c.(*syntax.Pipeline); ok {
			for _, call := range p.Calls {
				if why := checkCall(call); why != "" {
					return why
				}
			}
		}
	}
	if ast.Call != nil {
		return checkCall(ast.Call)
	}
	return ""
}

type c19GraphPrinter struct {
	callableOf map[string]string // fqid -> callable name
	odd        string            // an expression kind outside the fragment
}

func (gp *c19GraphPrinter) exp(e *c19Enc, x syntax.Exp) {
	switch x := x.(type) {
	case *syntax.RefExp:
		e.tok("(")
		e.tok("R")
		e.tok(x.Id)
		e.tok(gp.callableOf[x.Id])
		if x.OutputId != "" {
			for _, p := range strings.Split(x.OutputId, ".") {
				e.tok(p)
			}
		}
		e.tok(")")
		if x.Kind != syntax.KindCall {
			gp.odd = "self-reference in a resolved expression"
		}
	case *syntax.ArrayExp:
		e.tok("(")
		e.tok("A")
		for _, v := range x.Value {
			gp.exp(e, v)
		}
		e.tok(")")
	case *syntax.MapExp:
		e.tok("(")
		type ent struct{ k, v string }
		var ents []ent
		for k, v := range x.Value {
			var sub c19Enc
			gp.exp(&sub, v)
			key := hx(k)
			if x.Kind == syntax.KindStruct {
				key = k
				if key == "" {
					key = "-"
				}
			}
			ents = append(ents, ent{key, sub.sb.String()})
		}
		if x.Kind == syntax.KindStruct {
			e.tok("T")
		} else {
			e.tok("M")
		}
		sort.Slice(ents, func(i, j int) bool { return ents[i].k < ents[j].k })
		for _, en := range ents {
			e.tok("(")
			e.tok(en.k)
			e.tok(en.v)
			e.tok(")")
		}
		e.tok(")")
	case *syntax.SplitExp:
		gp.odd = "split"
		e.tok("(")
		e.tok("X")
		gp.exp(e, x.Value)
		e.tok(")")
	case *syntax.MergeExp:
		gp.odd = "merge"
		e.tok("?merge")
	case *syntax.DisabledExp:
		gp.odd = "disabled"
		e.tok("?disabled")
	case nil:
		e.tok("?nil")
	default:
		e.tok("(")
		e.tok("L")
		e.tok(hx(syntax.FormatExp(x, "")))
		e.tok(")")
	}
}

// c19GraphLines prints the real graph, one line per node, sorted.
func c19GraphLines(g syntax.CallGraphNode) (lines []string, odd string, err error) {
	defer func() {
		if p := recover(); p != nil {
			err = fmt.Errorf("PANIC while printing the call graph: %v", p)
		}
	}()
	gp := &c19GraphPrinter{callableOf: map[string]string{}}
	var all []syntax.CallGraphNode
	var walk func(n syntax.CallGraphNode)
	walk = func(n syntax.CallGraphNode) {
		all = append(all, n)
		gp.callableOf[n.GetFqid()] = n.Callable().GetId()
		for _, c := range n.GetChildren() {
			walk(c)
		}
	}
	walk(g)
	for _, n := range all {
		var e c19Enc
		e.tok("(")
		e.tok("N")
		e.tok(n.GetFqid())
		e.tok(n.Callable().GetId())
		if n.Kind() == syntax.KindPipeline {
			e.tok("P")
		} else {
			e.tok("S")
		}
		ins := n.ResolvedInputs()
		keys := make([]string, 0, len(ins))
		for k := range ins {
			keys = append(keys, k)
		}
		sort.Strings(keys)
		e.tok("(")
		for _, k := range keys {
			e.tok("(")
			e.tok(k)
			if ins[k] == nil {
				e.tok("?nil")
			} else {
				gp.exp(&e, ins[k].Exp)
			}
			e.tok(")")
		}
		e.tok(")")
		if out := n.ResolvedOutputs(); out != nil {
			gp.exp(&e, out.Exp)
		} else {
			// a stage without outputs has no resolved output binding
			e.tok("( L " + hx("null") + " )")
		}
		e.tok("(")
		if n.Kind() == syntax.KindPipeline {
			for _, r := range n.Retained() {
				gp.exp(&e, r)
			}
		}
		e.tok(")")
		e.tok(")")
		if len(n.Disabled()) > 0 {
			gp.odd = "disabled"
		}
		if len(n.ForkRoots()) > 0 {
			gp.odd = "forks"
		}
		lines = append(lines, e.sb.String())
	}
	sort.Strings(lines)
	return lines, gp.odd, nil
}

func c19ModelGraphLines(rep string) []string {
	if rep == "-" {
		return nil
	}
	lines := strings.Split(rep, " ; ")
	sort.Strings(lines)
	return lines
}

// c19GraphTie compares the model's deepGraph of the (uncompiled) program with
// the real call graph of its compiled form.  Returns "" when equal, "skip:<why>"
// when the program is outside the fragment, else a description of the first
// difference.
func c19GraphTie(c *Ctx, plain, compiled *syntax.Ast, g syntax.CallGraphNode) (verdict string, real, model []string) {
	if c.Drv == nil || g == nil {
		return "skip:no-driver-or-graph", nil, nil
	}
	if why := c19GraphFragment(compiled); why != "" {
		return "skip:" + why, nil, nil
	}
	real, odd, err := c19GraphLines(g)
	if err != nil {
		return "skip:" + err.Error(), nil, nil
	}
	if odd != "" {
		return "skip:resolved-" + odd, real, nil
	}
	rep := c.Drv.Ask("C19.graph", c19Encode(plain), c19EncodeTypes(compiled))
	if rep == "bad-op" {
		return "driver could not evaluate C19.graph", real, nil
	}
	model = c19ModelGraphLines(rep)
	if len(real) != len(model) {
		return fmt.Sprintf("node count: real %d, model %d", len(real), len(model)), real, model
	}
	for i := range real {
		if real[i] != model[i] {
			return fmt.Sprintf("node %d differs:\n  real : %s\n  model: %s", i, real[i], model[i]), real, model
		}
	}
	return "", real, model
}

var c19GraphReported = 0
var c19GraphSeen = 0

// c19GraphTieCase runs the tie on one program and records the outcome.
func c19GraphTieCase(c *Ctx, cs *c19Case, plain *syntax.Ast, base *c19Compiled) {
	r := c.Res
	if base.Graph == nil {
		return
	}
	verdict, real, model := c19GraphTie(c, plain, base.Ast, base.Graph)
	switch {
	case verdict == "":
		r.hist("graph-tie:equal")
		r.count("graph\x00"+cs.Src, len(real) > 1)
		c19GraphSeen++
		// thorough tier: the graph tie on every program, the theorem instances and real edits on every third
		if !c.Thorough || c19GraphSeen%3 == 0 {
			c19GraphTheorems(c, cs, plain, base)
		}
	case strings.HasPrefix(verdict, "skip:"):
		r.hist("graph-tie:" + c19FirstLine(verdict))
	default:
		r.hist("graph-tie:DIFFERENT")
		c19GraphReported++
		if c19GraphReported <= 2 {
			r.violate(Violation{Kind: "correspondence", Key: "C19:deepgraph-model-differs",
				What:   "the model's resolved call graph (Martian.Refactor.deepGraph) differs from Ast.MakeCallGraph: " + verdict,
				Input:  c19Replay{Program: cs.Src, Note: "found in " + cs.Name},
				Impl:   strings.Join(real, "\n"),
				Model:  strings.Join(model, "\n"),
				Broken: "correspondence Martian.Refactor.deepGraph ~ syntax.Ast.MakeCallGraph"})
		}
	}
}

// c19GraphExtra: additional generated programs used only for the graph tie
// (the main stream has many programs with map calls / disabled modifiers,
// which are outside the fragment of the graph model).
func c19GraphExtra(c *Ctx, want int) {
	r := c.Res
	path := filepath.Join(c.Scratch, "graph.mro")
	made := 0
	for tries := 0; made < want && tries < 40*want; tries++ {
		p := c19Gen(c.Rng)
		if p == nil || p.Features["map-call"] || p.Features["disabled"] {
			continue
		}
		src, err := c19Format(p.Src, path)
		if err != nil {
			continue
		}
		base, err := c19Compile(src, path)
		if err != nil || base.Graph == nil {
			continue
		}
		var parser syntax.Parser
		plain, err := parser.UncheckedParse([]byte(src), path)
		if err != nil {
			continue
		}
		made++
		r.hist("graph-extra:" + c19FeatureKey(p.Features))
		c19GraphTieCase(c, &c19Case{Name: fmt.Sprintf("graph-extra-%d-%d", c.Seed, made), Src: src, Path: path}, plain, base)
	}
}

// c19GraphTheorems: instances of the call-graph theorems on one program of the
// fragment.  For PRNG-chosen inputs (renameInput to a fresh name, removeInput),
// outputs (renameOutput to a fresh name) and callables (renameCallable to a
// fresh name): the driver evaluates the decidable
// hypothesis and the conclusion on the model; when the hypothesis holds, the
// REAL edit is run (Refactor -> Apply -> Format -> recompile -> MakeCallGraph)
// and the real graph after the edit must equal the graph the theorem predicts
// from the model's graph before the edit (`C19.gpred`).
func c19GraphTheorems(c *Ctx, cs *c19Case, plain *syntax.Ast, base *c19Compiled) {
	r := c.Res
	enc, types := c19Encode(plain), c19EncodeTypes(base.Ast)
	type cand struct{ op, callable, param string }
	var ins, outs, cals []cand
	for _, cl := range base.Ast.Callables.List {
		cals = append(cals, cand{"renameCallable", cl.GetId(), ""})
		if ps := cl.GetInParams(); ps != nil {
			for _, p := range ps.List {
				ins = append(ins, cand{"renameInput", cl.GetId(), p.Id})
			}
		}
		if ps := cl.GetOutParams(); ps != nil {
			for _, p := range ps.List {
				outs = append(outs, cand{"renameOutput", cl.GetId(), p.Id})
			}
		}
	}
	pick := func(cs []cand, n int) []cand {
		c.Rng.Shuffle(len(cs), func(i, j int) { cs[i], cs[j] = cs[j], cs[i] })
		if len(cs) > n {
			cs = cs[:n]
		}
		return cs
	}
	n := 2
	if c.Thorough {
		n = 3
	}
	var rems []cand
	for _, cd := range ins {
		rems = append(rems, cand{"removeInput", cd.callable, cd.param})
	}
	all := append(append(pick(ins, n), pick(outs, n)...), pick(cals, 1)...)
	all = append(all, pick(rems, n)...)
	for _, cd := range all {
		newName := "zz_fresh"
		if cd.op == "renameCallable" {
			newName = "ZZ_FRESH"
		}
		a := cd.param
		if a == "" {
			a = "-"
		}
		rep := c.Drv.Ask("C19.gthm", enc, types, cd.op, cd.callable, a, newName)
		f := map[string]string{}
		for _, kv := range strings.Fields(rep) {
			if j := strings.IndexByte(kv, '='); j > 0 {
				f[kv[:j]] = kv[j+1:]
			}
		}
		r.hist("graph-theorem:" + cd.op + " hyp=" + f["hyp"])
		e := c19Edit{Op: cd.op, Callable: cd.callable, Param: cd.param, NewName: newName}
		if rep == "bad-op" || (f["hyp"] == "true" && f["same"] != "true") {
			r.violate(Violation{Kind: "correspondence", Key: "C19:graph-theorem-instance",
				What:   "an instance of the call-graph theorem for " + cd.op + " evaluates to false in the model (or could not be evaluated): " + rep,
				Input:  c19Replay{Program: cs.Src, Edit: e, Note: "found in " + cs.Name},
				Broken: "Props.C19.rename_input_graph / rename_output_graph / rename_callable_graph"})
			continue
		}
		r.count("graph-thm\x00"+cs.Src+"\x00"+e.String(), f["hyp"] == "true")
		if f["hyp"] != "true" || cd.op == "renameCallable" {
			continue
		}
		// the theorem's prediction against the real edit and the real graph
		out, _, _, _, err := c19Apply(cs.Src, cs.Path, e)
		if err != nil {
			r.hist("graph-theorem:real-edit-failed")
			continue
		}
		after, err := c19Compile(out, cs.Path)
		if (err != nil || after.Graph == nil) && cd.op == "removeInput" {
			// removals that do not compile are the known findings KF4/KF5, handled by the main edit loop
			r.hist("graph-theorem:removeInput:real-result-does-not-compile")
			continue
		}
		if err != nil || after.Graph == nil {
			r.violate(Violation{Kind: "property", Key: "C19:graph-theorem:edited-program-does-not-compile",
				What:  fmt.Sprintf("the hypothesis of the call-graph theorem for %s holds but the really edited program does not compile: %v", cd.op, err),
				Input: c19Replay{Program: cs.Src, Edit: e, Note: "found in " + cs.Name}, Impl: out})
			continue
		}
		real, odd, err := c19GraphLines(after.Graph)
		if err != nil || odd != "" {
			continue
		}
		pred := c19ModelGraphLines(c.Drv.Ask("C19.gpred", enc, types, cd.op, cd.callable, a, newName))
		if strings.Join(real, "\n") != strings.Join(pred, "\n") {
			r.hist("graph-theorem:prediction-DIFFERENT")
			r.violate(Violation{Kind: "property", Key: "C19:graph-theorem:real-graph-differs-from-prediction",
				What:   "after the real edit " + e.String() + " the real call graph is not the graph before with the parameter renamed (the conclusion of rename_input_graph / rename_output_graph, whose hypothesis holds for this program)",
				Input:  c19Replay{Program: cs.Src, Edit: e, Note: "found in " + cs.Name},
				Impl:   strings.Join(real, "\n"),
				Model:  strings.Join(pred, "\n"),
				Broken: "Props.C19.rename_input_graph / rename_output_graph on the real code"})
		} else {
			r.hist("graph-theorem:" + cd.op + ":prediction-equals-real-graph")
		}
	}
}
