package main

// C19: tie of the model's resolved call graph (lean/Martian/RefactorGraph.lean,
// `deepGraph`: deep inlining of sub-pipeline inputs up to stage outputs and
// literals, declared-type narrowing of struct values, wildcard expansion) to
// the real `Ast.MakeCallGraph`.
//
// The real graph is walked through its Go objects (CallGraphNode /
// ResolvedBinding / Exp) and printed in the encoding of the driver's
// `C19.graph` reply; both node lists are sorted by fqid and compared as text.
//
//   node  := ( N fqid callable S|P ( ( name rexp )* ) rexp ( rexp* ) )
//   rexp  := ( L hex ) | ( R fqid callable path* ) | ( A rexp* ) | ( M ( hexkey rexp )* )
//          | ( T ( key rexp )* ) | ( X rexp )
//   types := ( S name ( member base adim mdim )* )* | ( C name ( ( in base a m )* ) ( ( out base a m )* ) )*
//
// Fragment of the model: no map calls / split expressions and no `disabled`
// modifier anywhere in the program (the real resolution wraps expressions in
// split / merge / disabled nodes there).

import (
	"fmt"
	"os"
	"path/filepath"
	"sort"
	"strings"

	"github.com/martian-lang/martian/martian/syntax"
)

func c19TypeTok(e *c19Enc, id string, t syntax.TypeId) {
	e.tok("(")
	e.tok(id)
	e.tok(t.Tname)
	e.tok(fmt.Sprint(t.ArrayDim))
	e.tok(fmt.Sprint(t.MapDim))
	e.tok(")")
}

// c19EncodeTypes: struct definitions and the typed signatures of all callables.
func c19EncodeTypes(ast *syntax.Ast) string {
	var e c19Enc
	for _, s := range ast.StructTypes {
		e.tok("(")
		e.tok("S")
		e.tok(s.Id)
		for _, m := range s.Members {
			c19TypeTok(&e, m.Id, m.Tname)
		}
		e.tok(")")
	}
	e.tok("|")
	for _, c := range ast.Callables.List {
		e.tok("(")
		e.tok("C")
		e.tok(c.GetId())
		e.tok("(")
		if ps := c.GetInParams(); ps != nil {
			for _, p := range ps.List {
				c19TypeTok(&e, p.Id, p.Tname)
			}
		}
		e.tok(")")
		e.tok("(")
		if ps := c.GetOutParams(); ps != nil {
			for _, p := range ps.List {
				c19TypeTok(&e, p.Id, p.Tname)
			}
		}
		e.tok(")")
		e.tok(")")
	}
	return e.sb.String()
}

// c19GraphFragment reports why the program is outside the model's fragment
// ("" = inside).
func c19GraphFragment(ast *syntax.Ast) string {
	var hasSplit func(x syntax.Exp) bool
	hasSplit = func(x syntax.Exp) bool {
		switch x := x.(type) {
		case *syntax.SplitExp:
			return true
		case *syntax.ArrayExp:
			for _, v := range x.Value {
				if hasSplit(v) {
					return true
				}
			}
		case *syntax.MapExp:
			for _, v := range x.Value {
				if hasSplit(v) {
					return true
				}
			}
		}
		return false
	}
	checkCall := func(c *syntax.CallStm) string {
		if c.CallMode() != syntax.ModeSingleCall {
			return "map-call"
		}
		if c.Bindings != nil {
			for _, b := range c.Bindings.List {
				if hasSplit(b.Exp) {
					return "map-call"
				}
			}
		}
		if c.Modifiers != nil && c.Modifiers.Bindings != nil {
			for _, b := range c.Modifiers.Bindings.List {
				if b.Id == "disabled" {
					return "disabled"
				}
			}
		}
		return ""
	}
	for _, c := range ast.Callables.List {
		if p, ok := c.(*syntax.Pipeline); ok {
			for _, call := range p.Calls {
				if why := checkCall(call); why != "" {
					return why
				}
			}
		}
	}
	if ast.Call != nil {
		return checkCall(ast.Call)
	}
	return ""
}

type c19GraphPrinter struct {
	callableOf map[string]string // fqid -> callable name
	odd        string            // an expression kind outside the fragment
	withDis    bool              // print DisabledExp as ( D control value ) instead of flagging it
}

func (gp *c19GraphPrinter) exp(e *c19Enc, x syntax.Exp) {
	switch x := x.(type) {
	case *syntax.RefExp:
		e.tok("(")
		e.tok("R")
		e.tok(x.Id)
		e.tok(gp.callableOf[x.Id])
		if x.OutputId != "" {
			for _, p := range strings.Split(x.OutputId, ".") {
				e.tok(p)
			}
		}
		e.tok(")")
		if x.Kind != syntax.KindCall {
			gp.odd = "self-reference in a resolved expression"
		}
	case *syntax.ArrayExp:
		e.tok("(")
		e.tok("A")
		for _, v := range x.Value {
			gp.exp(e, v)
		}
		e.tok(")")
	case *syntax.MapExp:
		e.tok("(")
		type ent struct{ k, v string }
		var ents []ent
		for k, v := range x.Value {
			var sub c19Enc
			gp.exp(&sub, v)
			key := hx(k)
			if x.Kind == syntax.KindStruct {
				key = k
				if key == "" {
					key = "-"
				}
			}
			ents = append(ents, ent{key, sub.sb.String()})
		}
		if x.Kind == syntax.KindStruct {
			e.tok("T")
		} else {
			e.tok("M")
		}
		sort.Slice(ents, func(i, j int) bool { return ents[i].k < ents[j].k })
		for _, en := range ents {
			e.tok("(")
			e.tok(en.k)
			e.tok(en.v)
			e.tok(")")
		}
		e.tok(")")
	case *syntax.SplitExp:
		gp.odd = "split"
		e.tok("(")
		e.tok("X")
		gp.exp(e, x.Value)
		e.tok(")")
	case *syntax.MergeExp:
		gp.odd = "merge"
		e.tok("?merge")
	case *syntax.DisabledExp:
		if gp.withDis {
			e.tok("(")
			e.tok("D")
			gp.exp(e, x.Disabled)
			gp.exp(e, x.Value)
			e.tok(")")
		} else {
			gp.odd = "disabled"
			e.tok("?disabled")
		}
	case nil:
		e.tok("?nil")
	default:
		e.tok("(")
		e.tok("L")
		e.tok(hx(syntax.FormatExp(x, "")))
		e.tok(")")
	}
}

type c19GNode struct {
	Fqid, Callable, Kind string
	Keys                 []string          // input names, sorted
	Ins                  map[string]string // input name -> printed resolved expression
	Out, Ret             string
	Dis                  string // with disabled modifiers: the node's disable list
	withDis              bool
}

func (n *c19GNode) line() string {
	var e c19Enc
	e.tok("(")
	e.tok("N")
	e.tok(n.Fqid)
	e.tok(n.Callable)
	e.tok(n.Kind)
	e.tok("(")
	for _, k := range n.Keys {
		e.tok("(")
		e.tok(k)
		e.tok(n.Ins[k])
		e.tok(")")
	}
	e.tok(")")
	e.tok(n.Out)
	e.tok("(")
	if n.Ret != "" {
		e.tok(n.Ret)
	}
	e.tok(")")
	if n.withDis {
		e.tok("(")
		if n.Dis != "" {
			e.tok(n.Dis)
		}
		e.tok(")")
	}
	e.tok(")")
	return e.sb.String()
}

// c19GraphNodes walks the real graph.
func c19GraphNodes(g syntax.CallGraphNode) (nodes []*c19GNode, odd string, err error) {
	return c19GraphNodesD(g, false)
}

// c19GraphNodesD: withDis = the encoding of C19.graphd (DisabledExp printed, disable list per node).
func c19GraphNodesD(g syntax.CallGraphNode, withDis bool) (nodes []*c19GNode, odd string, err error) {
	defer func() {
		if p := recover(); p != nil {
			err = fmt.Errorf("PANIC while printing the call graph: %v", p)
		}
	}()
	gp := &c19GraphPrinter{callableOf: map[string]string{}, withDis: withDis}
	var all []syntax.CallGraphNode
	var walk func(n syntax.CallGraphNode)
	walk = func(n syntax.CallGraphNode) {
		all = append(all, n)
		gp.callableOf[n.GetFqid()] = n.Callable().GetId()
		for _, c := range n.GetChildren() {
			walk(c)
		}
	}
	walk(g)
	for _, n := range all {
		gn := &c19GNode{Fqid: n.GetFqid(), Callable: n.Callable().GetId(), Kind: "S", Ins: map[string]string{}, withDis: withDis}
		if n.Kind() == syntax.KindPipeline {
			gn.Kind = "P"
		}
		ins := n.ResolvedInputs()
		for k := range ins {
			gn.Keys = append(gn.Keys, k)
		}
		sort.Strings(gn.Keys)
		for _, k := range gn.Keys {
			if ins[k] == nil {
				gn.Ins[k] = "?nil"
			} else {
				var e c19Enc
				gp.exp(&e, ins[k].Exp)
				gn.Ins[k] = e.sb.String()
			}
		}
		if out := n.ResolvedOutputs(); out != nil {
			var e c19Enc
			gp.exp(&e, out.Exp)
			gn.Out = e.sb.String()
		} else {
			// a stage without outputs has no resolved output binding
			gn.Out = "( L " + hx("null") + " )"
		}
		if n.Kind() == syntax.KindPipeline {
			var e c19Enc
			for _, r := range n.Retained() {
				gp.exp(&e, r)
			}
			gn.Ret = e.sb.String()
		}
		if len(n.Disabled()) > 0 {
			if withDis {
				var e c19Enc
				for _, d := range n.Disabled() {
					gp.exp(&e, d)
				}
				gn.Dis = e.sb.String()
			} else {
				gp.odd = "disabled"
			}
		}
		if len(n.ForkRoots()) > 0 {
			gp.odd = "forks"
		}
		nodes = append(nodes, gn)
	}
	return nodes, gp.odd, nil
}

// c19GraphLines prints the real graph, one line per node, sorted.
func c19GraphLines(g syntax.CallGraphNode) (lines []string, odd string, err error) {
	nodes, odd, err := c19GraphNodes(g)
	if err != nil {
		return nil, odd, err
	}
	for _, n := range nodes {
		lines = append(lines, n.line())
	}
	sort.Strings(lines)
	return lines, odd, nil
}

// c19GraphLe: every node of `after` is a node of `before` with the same callable, kind, resolved
// outputs and retained references, and every resolved input of it is an input of the original
// node with the same resolved value (the upper bound remove_unused_calls_loop_graph_upper_bound_partial; the exact statement is checked through C19.gpred).
func c19GraphLe(after, before []*c19GNode) string {
	idx := map[string]*c19GNode{}
	for _, n := range before {
		idx[n.Fqid] = n
	}
	for _, n := range after {
		m := idx[n.Fqid]
		if m == nil {
			return "node " + n.Fqid + " does not exist before the edit"
		}
		if m.Callable != n.Callable || m.Kind != n.Kind {
			return "node " + n.Fqid + ": callable / kind changed"
		}
		if m.Out != n.Out {
			return "node " + n.Fqid + ": resolved outputs changed: " + m.Out + " -> " + n.Out
		}
		if m.Ret != n.Ret {
			return "node " + n.Fqid + ": retained references changed"
		}
		for _, k := range n.Keys {
			if v, ok := m.Ins[k]; !ok || v != n.Ins[k] {
				return "node " + n.Fqid + ": resolved input " + k + " changed: " + v + " -> " + n.Ins[k]
			}
		}
	}
	return ""
}

func c19ModelGraphLines(rep string) []string {
	if rep == "-" {
		return nil
	}
	lines := strings.Split(rep, " ; ")
	sort.Strings(lines)
	return lines
}

// c19GraphTieD: the model with `disabled` modifiers (deepGraphD, C19.graphd) against the real graph.
// expectSame: the program has no disabled modifier, deepGraphD must be the embedding of deepGraph.
func c19GraphTieD(c *Ctx, plain, compiled *syntax.Ast, g syntax.CallGraphNode, expectSame bool) (verdict string, real, model []string) {
	if c19HasMapCall(compiled) {
		return "skip:map-call", nil, nil
	}
	nodes, odd, err := c19GraphNodesD(g, true)
	if err != nil {
		return "skip:" + err.Error(), nil, nil
	}
	if odd != "" {
		return "skip:resolved-" + odd, nil, nil
	}
	for _, n := range nodes {
		real = append(real, n.line())
	}
	sort.Strings(real)
	rep := c.Drv.Ask("C19.graphd", c19Encode(plain), c19EncodeTypes(compiled))
	if rep == "bad-op" || !strings.HasPrefix(rep, "same=") {
		return "driver could not evaluate C19.graphd", real, nil
	}
	sp := strings.IndexByte(rep, ' ')
	same, rest := rep[:sp], rep[sp+1:]
	if expectSame && same != "same=true" {
		return "deepGraphD is not the embedding of deepGraph on a program without disabled modifiers", real, nil
	}
	model = c19ModelGraphLines(rest)
	if len(real) != len(model) {
		return fmt.Sprintf("(with disabled) node count: real %d, model %d", len(real), len(model)), real, model
	}
	for i := range real {
		if real[i] != model[i] {
			// resolveDisableExp merges a control with an inherited one only when both are the SAME RefExp
			// object (`e == r`): that is the case when the value reached the call unchanged through pipeline
			// inputs (`self.flag` bound from `self.flag`), and not when the same source expression was resolved
			// twice.  The model has no object identity (deepGraphD never merges).  Counted fallback: the two
			// graphs are compared with duplicate controls merged and the disable wrappers of the outputs removed.
			cr, cm := c19CanonDisabled(real), c19CanonDisabled(model)
			if cr != nil && cm != nil && strings.Join(cr, "\n") == strings.Join(cm, "\n") {
				return "equal-with-disabled-modulo-control-object-identity", real, model
			}
			return fmt.Sprintf("(with disabled) node %d differs:\n  real : %s\n  model: %s", i, real[i], model[i]), real, model
		}
	}
	return "equal-with-disabled", real, model
}

// c19SX: an s-expression of the graph printer (atom or list).
type c19SX struct {
	atom string
	list []*c19SX
	leaf bool
}

func c19ParseSX(toks []string, i int) (*c19SX, int) {
	if i >= len(toks) {
		return nil, -1
	}
	if toks[i] != "(" {
		if toks[i] == ")" {
			return nil, -1
		}
		return &c19SX{atom: toks[i], leaf: true}, i + 1
	}
	n := &c19SX{}
	i++
	for i < len(toks) && toks[i] != ")" {
		c, j := c19ParseSX(toks, i)
		if j < 0 {
			return nil, -1
		}
		n.list = append(n.list, c)
		i = j
	}
	if i >= len(toks) {
		return nil, -1
	}
	return n, i + 1
}

func (x *c19SX) String() string {
	if x.leaf {
		return x.atom
	}
	parts := []string{"("}
	for _, c := range x.list {
		parts = append(parts, c.String())
	}
	return strings.Join(append(parts, ")"), " ")
}

func (x *c19SX) isD() bool {
	return !x.leaf && len(x.list) == 3 && x.list[0].leaf && x.list[0].atom == "D"
}

// inside the scope of a wrapper `( D c ... )` every further wrapper on the same control is dropped
func (x *c19SX) collapseD(active map[string]bool) *c19SX {
	if x.leaf {
		return x
	}
	if x.isD() {
		k := x.list[1].String()
		if active[k] {
			return x.list[2].collapseD(active)
		}
		active[k] = true
		x.list[2] = x.list[2].collapseD(active)
		delete(active, k)
		return x
	}
	for i, c := range x.list {
		x.list[i] = c.collapseD(active)
	}
	return x
}

// c19CanonDisabled: the node lines `( N fqid callable kind ( inputs ) OUT RET ( DIS ) )` with the disable list
// de-duplicated (first occurrences kept), wrappers nested (at any depth) inside a wrapper on the same control
// dropped, and the `( D control inner )` wrappers at the top of OUT removed.  nil when a line does
// not have that shape.
func c19CanonDisabled(lines []string) []string {
	var out []string
	for _, ln := range lines {
		toks := strings.Fields(ln)
		x, j := c19ParseSX(toks, 0)
		if x == nil || j != len(toks) || x.leaf || len(x.list) != 8 || x.list[7].leaf {
			return nil
		}
		x = x.collapseD(map[string]bool{})
		for x.list[5].isD() {
			x.list[5] = x.list[5].list[2]
		}
		seen := map[string]bool{}
		var dis []*c19SX
		for _, e := range x.list[7].list {
			if k := e.String(); !seen[k] {
				seen[k] = true
				dis = append(dis, e)
			}
		}
		x.list[7].list = dis
		out = append(out, x.String())
	}
	sort.Strings(out)
	return out
}

// c19HasMapCall: a map call / split anywhere in the program.
func c19HasMapCall(ast *syntax.Ast) bool {
	var hasSplit func(x syntax.Exp) bool
	hasSplit = func(x syntax.Exp) bool {
		switch x := x.(type) {
		case *syntax.SplitExp:
			return true
		case *syntax.ArrayExp:
			for _, v := range x.Value {
				if hasSplit(v) {
					return true
				}
			}
		case *syntax.MapExp:
			for _, v := range x.Value {
				if hasSplit(v) {
					return true
				}
			}
		}
		return false
	}
	check := func(c *syntax.CallStm) bool {
		if c.CallMode() != syntax.ModeSingleCall {
			return true
		}
		if c.Bindings != nil {
			for _, b := range c.Bindings.List {
				if hasSplit(b.Exp) {
					return true
				}
			}
		}
		return false
	}
	for _, cl := range ast.Callables.List {
		if p, ok := cl.(*syntax.Pipeline); ok {
			for _, call := range p.Calls {
				if check(call) {
					return true
				}
			}
		}
	}
	return ast.Call != nil && check(ast.Call)
}

// c19GraphTie compares the model's deepGraph of the (uncompiled) program with
// the real call graph of its compiled form.  Returns "" when equal, "skip:<why>"
// when the program is outside the fragment, else a description of the first
// difference.
func c19GraphTie(c *Ctx, plain, compiled *syntax.Ast, g syntax.CallGraphNode) (verdict string, real, model []string) {
	if c.Drv == nil || g == nil {
		return "skip:no-driver-or-graph", nil, nil
	}
	if why := c19GraphFragment(compiled); why == "disabled" {
		return c19GraphTieD(c, plain, compiled, g, false)
	} else if why != "" {
		return "skip:" + why, nil, nil
	}
	real, odd, err := c19GraphLines(g)
	if err != nil {
		return "skip:" + err.Error(), nil, nil
	}
	if odd != "" {
		return "skip:resolved-" + odd, real, nil
	}
	rep := c.Drv.Ask("C19.graph", c19Encode(plain), c19EncodeTypes(compiled))
	if rep == "bad-op" {
		return "driver could not evaluate C19.graph", real, nil
	}
	model = c19ModelGraphLines(rep)
	if len(real) != len(model) {
		return fmt.Sprintf("node count: real %d, model %d", len(real), len(model)), real, model
	}
	for i := range real {
		if real[i] != model[i] {
			return fmt.Sprintf("node %d differs:\n  real : %s\n  model: %s", i, real[i], model[i]), real, model
		}
	}
	return "", real, model
}

var c19GraphReported = 0
var c19GraphSeen = 0

// c19GraphTieCase runs the tie on one program and records the outcome.
func c19GraphTieCase(c *Ctx, cs *c19Case, plain *syntax.Ast, base *c19Compiled) {
	r := c.Res
	if base.Graph == nil {
		return
	}
	// the encoding itself: the driver's parser and printer are inverse on it
	if enc := c19Encode(plain); c.Drv != nil {
		if rep := c.Drv.Ask("C19.roundtrip", enc); rep != enc {
			r.violate(Violation{Kind: "correspondence", Key: "C19:encoding-roundtrip",
				What: "the driver's parser/printer do not round-trip the encoded program", Input: c19Replay{Program: cs.Src, Note: "found in " + cs.Name},
				Impl: enc, Model: rep, Broken: "correspondence C19 (program encoding)"})
		}
	}
	// the fuel of the graph model is adequate for this program (hypothesis of graph_fuel_adequate),
	// and, without disabled modifiers, deepGraphD is deepGraph (hypothesis of deepGraphD_embeds_deepGraph)
	if c.Drv != nil && !c19HasMapCall(base.Ast) {
		rep := c.Drv.Ask("C19.gfuel", c19Encode(plain), c19EncodeTypes(base.Ast))
		f := map[string]string{}
		for _, kv := range strings.Fields(rep) {
			if j := strings.IndexByte(kv, '='); j > 0 {
				f[kv[:j]] = kv[j+1:]
			}
		}
		r.hist("graph-fuel:ok=" + f["fuel_ok"] + ":no-disabled-mods=" + f["nodis"])
		if f["fuel_ok"] != "true" || f["agrees"] != "true" {
			r.violate(Violation{Kind: "correspondence", Key: "C19:graph-fuel-inadequate",
				What:  "the explicit-exhaustion run of the graph model does not succeed at graphFuel (or disagrees with deepGraph): " + rep,
				Input: c19Replay{Program: cs.Src, Note: "found in " + cs.Name}, Broken: "hypothesis of Props.C19.graph_fuel_adequate"})
		}
	}
	verdict, real, model := c19GraphTie(c, plain, base.Ast, base.Graph)
	switch {
	case verdict == "equal-with-disabled":
		r.hist("graph-tie:equal(with-disabled-modifiers)")
		r.count("graphd\x00"+cs.Src, len(real) > 1)
	case verdict == "equal-with-disabled-modulo-control-object-identity":
		// counted skip of the strict comparison: the code merges equal controls by object identity (see c19GraphTieD)
		r.hist("graph-tie:equal-modulo-control-object-identity(with-disabled-modifiers; strict comparison skipped)")
		r.count("graphd-modulo\x00"+cs.Src, len(real) > 1)
	case verdict == "":
		r.hist("graph-tie:equal")
		r.count("graph\x00"+cs.Src, len(real) > 1)
		c19GraphSeen++
		if c19GraphSeen%3 == 1 {
			// deepGraphD (the model with disabled modifiers) must be the embedding of deepGraph here, and equal the real graph
			if v, rl, ml := c19GraphTieD(c, plain, base.Ast, base.Graph, true); v != "equal-with-disabled" && !strings.HasPrefix(v, "skip:") {
				r.violate(Violation{Kind: "correspondence", Key: "C19:deepgraphD-model-differs",
					What:  "on a program without disabled modifiers: " + v,
					Input: c19Replay{Program: cs.Src, Note: "found in " + cs.Name}, Impl: strings.Join(rl, "\n"), Model: strings.Join(ml, "\n"),
					Broken: "correspondence Martian.Refactor.deepGraphD ~ deepGraph ~ syntax.Ast.MakeCallGraph"})
			} else {
				r.hist("graph-tie:deepGraphD=embedding-of-deepGraph")
			}
		}
		// thorough tier: the graph tie on every program, the theorem instances and real edits on every fifth
		if !c.Thorough || c19GraphSeen%5 == 0 {
			c19GraphTheorems(c, cs, plain, base)
		}
	case strings.HasPrefix(verdict, "skip:"):
		r.hist("graph-tie:" + c19FirstLine(verdict))
		if verdict == "skip:map-call" {
			c19MapCallTie(c, cs)
		}
	default:
		r.hist("graph-tie:DIFFERENT")
		c19GraphReported++
		if c19GraphReported <= 2 {
			r.violate(Violation{Kind: "correspondence", Key: "C19:deepgraph-model-differs",
				What:   "the model's resolved call graph (Martian.Refactor.deepGraph) differs from Ast.MakeCallGraph: " + verdict,
				Input:  c19Replay{Program: cs.Src, Note: "found in " + cs.Name},
				Impl:   strings.Join(real, "\n"),
				Model:  strings.Join(model, "\n"),
				Broken: "correspondence Martian.Refactor.deepGraph ~ syntax.Ast.MakeCallGraph"})
		}
	}
}

// c19GraphExtra: additional generated programs used only for the graph tie
// (the main stream has many programs with map calls / disabled modifiers,
// which are outside the fragment of the graph model).
func c19GraphExtra(c *Ctx, want int) {
	r := c.Res
	path := filepath.Join(c.Scratch, "graph.mro")
	made := 0
	for tries := 0; made < want && tries < 40*want; tries++ {
		p := c19Gen(c.Rng)
		if p == nil || p.Features["map-call"] {
			continue
		}
		src, err := c19Format(p.Src, path)
		if err != nil {
			continue
		}
		base, err := c19Compile(src, path)
		if err != nil || base.Graph == nil {
			continue
		}
		var parser syntax.Parser
		plain, err := parser.UncheckedParse([]byte(src), path)
		if err != nil {
			continue
		}
		made++
		r.hist("graph-extra:" + c19FeatureKey(p.Features))
		c19GraphTieCase(c, &c19Case{Name: fmt.Sprintf("graph-extra-%d-%d", c.Seed, made), Src: src, Path: path}, plain, base)
	}
}

// c19GraphTheorems: instances of the call-graph theorems on one program of the
// fragment.  For PRNG-chosen inputs (renameInput to a fresh name, removeInput),
// outputs (renameOutput to a fresh name) and callables (renameCallable to a
// fresh name): the driver evaluates the decidable
// hypothesis and the conclusion on the model; when the hypothesis holds, the
// REAL edit is run (Refactor -> Apply -> Format -> recompile -> MakeCallGraph)
// and the real graph after the edit must equal the graph the theorem predicts
// from the model's graph before the edit (`C19.gpred`).
func c19GraphTheorems(c *Ctx, cs *c19Case, plain *syntax.Ast, base *c19Compiled) {
	r := c.Res
	enc, types := c19Encode(plain), c19EncodeTypes(base.Ast)
	type cand struct{ op, callable, param string }
	var ins, outs, cals []cand
	for _, cl := range base.Ast.Callables.List {
		cals = append(cals, cand{"renameCallable", cl.GetId(), ""})
		if ps := cl.GetInParams(); ps != nil {
			for _, p := range ps.List {
				ins = append(ins, cand{"renameInput", cl.GetId(), p.Id})
			}
		}
		if ps := cl.GetOutParams(); ps != nil {
			for _, p := range ps.List {
				outs = append(outs, cand{"renameOutput", cl.GetId(), p.Id})
			}
		}
	}
	pick := func(cs []cand, n int) []cand {
		c.Rng.Shuffle(len(cs), func(i, j int) { cs[i], cs[j] = cs[j], cs[i] })
		if len(cs) > n {
			cs = cs[:n]
		}
		return cs
	}
	n := 1
	var rems []cand
	for _, cd := range ins {
		rems = append(rems, cand{"removeInput", cd.callable, cd.param})
	}
	var remo []cand
	for _, cd := range outs {
		remo = append(remo, cand{"removeOutput", cd.callable, cd.param})
	}
	all := append(append(pick(ins, n), pick(outs, n)...), pick(cals, 1)...)
	all = append(all, pick(rems, n)...)
	all = append(all, pick(remo, n)...)
	all = append(all, cand{"removeCalls", "", ""})
	if base.Ast.Call != nil {
		all = append(all, cand{"removeOutputsPass", base.Ast.Call.DecId, ""})
	}
	for _, cd := range all {
		newName := "zz_fresh"
		if cd.op == "renameCallable" {
			newName = "ZZ_FRESH"
		}
		a := cd.param
		if a == "" {
			a = "-"
		}
		cname := cd.callable
		if cname == "" {
			cname = "-"
		}
		rep := c.Drv.Ask("C19.gthm", enc, types, cd.op, cname, a, newName)
		f := map[string]string{}
		for _, kv := range strings.Fields(rep) {
			if j := strings.IndexByte(kv, '='); j > 0 {
				f[kv[:j]] = kv[j+1:]
			}
		}
		r.hist("graph-theorem:" + cd.op + " hyp=" + f["hyp"])
		e := c19Edit{Op: cd.op, Callable: cd.callable, Param: cd.param, NewName: newName}
		if cd.op == "removeCalls" {
			e = c19Edit{Op: "removeUnused", Calls: true}
		}
		if cd.op == "removeOutputsPass" {
			// remove_unused_outputs_pass_graph_partial: which hypotheses hold, and whether the whole loop is this one pass
			e = c19Edit{Op: "removeUnused", Top: []string{cd.callable}}
			if f["exhausted"] == "true" {
				for _, h := range []string{"struct", "reach", "nonempty", "shape", "tstruct"} {
					if f[h] != "true" {
						r.hist("graph-theorem:removeOutputsPass hypothesis fails: " + h)
					}
				}
				if f["hyp"] == "true" {
					r.hist("graph-theorem:removeOutputsPass hyp=true outs=" + f["outs"] + " cascaded-ins=" + f["ins"] + " whole-loop-is-one-pass=" + f["onepass"])
				}
			} else {
				r.hist("graph-theorem:removeOutputsPass frontier walk ran out of fuel")
			}
		}
		if f["derived"] != "" {
			r.hist("graph-theorem:removeInput derived-hyp=" + f["derived"])
			if f["implies"] != "true" {
				r.violate(Violation{Kind: "correspondence", Key: "C19:graph-theorem-instance",
					What:   "StructOK and seedOK hold but RemInsOK of the closure does not (closure_remInsOK): " + rep,
					Input:  c19Replay{Program: cs.Src, Edit: e, Note: "found in " + cs.Name},
					Broken: "Props.C19.remove_input_closure_graph"})
			}
		}
		if rep == "bad-op" || (f["hyp"] == "true" && f["same"] != "true") {
			r.violate(Violation{Kind: "correspondence", Key: "C19:graph-theorem-instance",
				What:   "an instance of the call-graph theorem for " + cd.op + " evaluates to false in the model (or could not be evaluated): " + rep,
				Input:  c19Replay{Program: cs.Src, Edit: e, Note: "found in " + cs.Name},
				Broken: "Props.C19.rename_input_graph / rename_output_graph_partial / rename_callable_graph_partial"})
			continue
		}
		r.count("graph-thm\x00"+cs.Src+"\x00"+e.String(), f["hyp"] == "true")
		if f["hyp"] != "true" || cd.op == "renameCallable" || (cd.op == "removeOutputsPass" && f["onepass"] != "true") {
			continue
		}
		// the theorem's prediction against the real edit and the real graph
		out, _, _, _, err := c19Apply(cs.Src, cs.Path, e)
		if err != nil {
			r.hist("graph-theorem:real-edit-failed")
			continue
		}
		after, err := c19Compile(out, cs.Path)
		if (err != nil || after.Graph == nil) && strings.HasPrefix(cd.op, "remove") {
			// removals that do not compile are the known findings KF4/KF5, handled by the main edit loop
			r.hist("graph-theorem:" + cd.op + ":real-result-does-not-compile")
			continue
		}
		if cd.op == "removeCalls" {
			// the upper bound remove_unused_calls_loop_graph_upper_bound_partial on the REAL graphs before / after the real edit
			bn, odd1, err1 := c19GraphNodes(base.Graph)
			an, odd2, err2 := c19GraphNodes(after.Graph)
			if err1 != nil || err2 != nil || odd1 != "" || odd2 != "" {
				continue
			}
			if d := c19GraphLe(an, bn); d != "" {
				r.violate(Violation{Kind: "property", Key: "C19:graph-theorem:remove-unused-calls-changed-a-remaining-node",
					What:   "after the real `remove unused calls` edit a remaining node of the resolved call graph differs from the node before (StructOK holds, so remove_unused_calls_loop_graph_exact_partial applies): " + d,
					Input:  c19Replay{Program: cs.Src, Edit: e, Note: "found in " + cs.Name},
					Impl:   out,
					Broken: "Props.C19.remove_unused_calls_loop_graph_exact_partial on the real code"})
			} else {
				r.hist(fmt.Sprintf("graph-theorem:removeCalls:real-graph-le(removed-nodes=%d)", len(bn)-len(an)))
			}
			// the EXACT conclusion (remove_unused_calls_loop_graph_exact_partial): the real graph after the real edit is
			// the model's original graph restricted to the calls every pass keeps, minus the cascaded input keys
			if real, odd, err := c19GraphLines(after.Graph); err == nil && odd == "" {
				pred := c19ModelGraphLines(c.Drv.Ask("C19.gpred", enc, types, cd.op, "-", "-", "-"))
				if strings.Join(real, "\n") != strings.Join(pred, "\n") {
					r.hist("graph-theorem:removeCalls:exact-prediction-DIFFERENT")
					r.violate(Violation{Kind: "property", Key: "C19:graph-theorem:remove-unused-calls-real-graph-differs-from-exact-prediction",
						What:   "after the real `remove unused calls` edit the real call graph is not the original graph restricted to the calls the passes keep minus the cascaded inputs (the conclusion of remove_unused_calls_loop_graph_exact_partial, whose hypothesis StructOK holds for this program); " + f["passes"] + " pass(es)",
						Input:  c19Replay{Program: cs.Src, Edit: e, Note: "found in " + cs.Name},
						Impl:   strings.Join(real, "\n"),
						Model:  strings.Join(pred, "\n"),
						Broken: "Props.C19.remove_unused_calls_loop_graph_exact_partial on the real code"})
				} else {
					r.hist("graph-theorem:removeCalls:exact-prediction-equals-real-graph(passes=" + f["passes"] + ")")
				}
			}
			continue
		}
		if err != nil || after.Graph == nil {
			r.violate(Violation{Kind: "property", Key: "C19:graph-theorem:edited-program-does-not-compile",
				What:  fmt.Sprintf("the hypothesis of the call-graph theorem for %s holds but the really edited program does not compile: %v", cd.op, err),
				Input: c19Replay{Program: cs.Src, Edit: e, Note: "found in " + cs.Name}, Impl: out})
			continue
		}
		real, odd, err := c19GraphLines(after.Graph)
		if err != nil || odd != "" {
			continue
		}
		pred := c19ModelGraphLines(c.Drv.Ask("C19.gpred", enc, types, cd.op, cd.callable, a, newName))
		if strings.Join(real, "\n") != strings.Join(pred, "\n") {
			r.hist("graph-theorem:prediction-DIFFERENT")
			r.violate(Violation{Kind: "property", Key: "C19:graph-theorem:real-graph-differs-from-prediction",
				What:   "after the real edit " + e.String() + " the real call graph is not the graph that the call-graph theorem for " + cd.op + " predicts from the graph before (rename_input_graph_partial / rename_output_graph_partial / remove_*_graph_partial / remove_unused_outputs_pass_graph_partial; the hypothesis holds for this program)",
				Input:  c19Replay{Program: cs.Src, Edit: e, Note: "found in " + cs.Name},
				Impl:   strings.Join(real, "\n"),
				Model:  strings.Join(pred, "\n"),
				Broken: "Props.C19 call-graph theorem for " + cd.op + " on the real code"})
		} else {
			r.hist("graph-theorem:" + cd.op + ":prediction-equals-real-graph")
		}
	}
}

// c19MapCallTie: programs with map calls / split are outside `deepGraph`.  Their resolved call graph is
// the subject of C01's static-phase model (lean/Martian/ResolverStaticTree.lean: split / merge nodes,
// fork roots, `mkMerge` cancellation), which has its own encoder and comparator (harness/c01_static.go);
// the same comparison is made here on the C19 program stream, so that these programs are tied to the
// real MakeCallGraph through that model.
func c19MapCallTie(c *Ctx, cs *c19Case) {
	r := c.Res
	prog, cg, err := c01CompileStatic(cs.Src)
	if err != nil {
		r.hist("graph-tie:map-call:static-model:not-encodable")
		if os.Getenv("C19_DEBUG") != "" {
			r.note("map-call program not encodable for C01.static: %v", err)
		}
		return
	}
	rep := c01ParseStatic(c.Drv.Ask("C01.static", prog, "-"))
	switch {
	case rep.skip:
		r.hist("graph-tie:map-call:static-model:skip")
	case rep.bad != "":
		r.hist("graph-tie:map-call:static-model:bad-reply")
	case rep.static == cg:
		r.hist("graph-tie:map-call:static-model:equal")
		r.count("graph-mapcall\x00"+cs.Src, true)
	default:
		r.hist("graph-tie:map-call:static-model:DIFFERENT")
		if c19MapCallReported == 0 {
			c19MapCallReported++
			r.violate(Violation{Kind: "correspondence", Key: "C19:mapcall-static-model-differs",
				What:  "on a program with map calls the static-phase model of C01 (staticProgramT) differs from Ast.MakeCallGraph: " + c01StaticDiff(rep.static, cg),
				Input: c19Replay{Program: cs.Src, Note: "found in " + cs.Name},
				Impl:  cg, Model: rep.static,
				Broken: "correspondence Martian.staticProgramT ~ syntax.Ast.MakeCallGraph (C19 program stream)"})
		}
	}
}

var c19MapCallReported = 0
