package main

// C12, part 5: cluster mode, reconciliation with the scheduler's queue.
//
// The real Pipestance.queryQueue / RemoteJobManager.checkQueue /
// Metadata.failNotRunning / Node.refreshState -> Metadata.endRefresh are driven
// on a pipestance with one running stage (1..5 chunks submitted through the
// real execJob with a submit command) and a queue-query command — a shell
// script in <MARTIAN_BASE>/../jobmanagers whose output the harness controls
// and which blocks on a FIFO until the harness lets the answer through, so
// that progress / refresh / further query attempts can happen while a query is
// in flight.  Time does not pass by sleeping: before every event everything
// the reconciliation remembers (lastQueueCheck, notRunningSince) is made
// older by the scenario's time step (hook ShiftClock), in whole seconds.  The
// scenario's real duration must stay below one second (else it is re-run):
// then "a.Before(b - grace)" on the real clock is decided by the whole-second
// part and, at equality, by the order of the events — which is how the model
// is asked: time = 1024 * seconds + event index.
//
// After every event the real state (per chunk: state, age of the mark; age of
// lastQueueCheck; ids being queried, read from the command's stdin) is
// compared with Martian.SemaphoreQueue.step; two monitors check the property
// directly on the real code: a job omitted by a successful answer and silent
// since is failed by the first refresh later than the grace period; a job is
// only failed "not queued" if a successful answer omitted it at least the grace
// period before.

import (
	"encoding/hex"
	"fmt"
	"math/rand"
	"os"
	"path/filepath"
	"sort"
	"strconv"
	"strings"
	"syscall"
	"time"

	"github.com/martian-lang/martian/martian/core"
	"github.com/martian-lang/martian/martian/util"
)

const c12qK = 1024 // model time units per second (> events per scenario)

type c12qEvent struct {
	Kind   string // I (queryQueue), A (answer), R (refreshState), P (progress)
	Dt     int    // seconds that pass before the event
	Fail   bool   // A: the command fails
	Listed []int  // A: chunks the scheduler lists
	Style  int    // A: formatting of the answer
	Chunk  int    // P
	State  string // P: r d f
}

func (e c12qEvent) String() string {
	switch e.Kind {
	case "A":
		if e.Fail {
			return fmt.Sprintf("+%ds answer:command-fails", e.Dt)
		}
		return fmt.Sprintf("+%ds answer:lists%v/style%d", e.Dt, e.Listed, e.Style)
	case "P":
		return fmt.Sprintf("+%ds chunk%d-writes-%s", e.Dt, e.Chunk, e.State)
	case "I":
		return fmt.Sprintf("+%ds queryQueue", e.Dt)
	default:
		return fmt.Sprintf("+%ds refreshState", e.Dt)
	}
}

type c12qScenario struct {
	Grace  int
	HasId  []bool
	Events []c12qEvent
}

var c12qJobDir string // <base>/jobmanagers, "" = stream unavailable
var c12qWhyNot string

// c12QueueBaseInit must run before anything calls util.RelPath: it points the
// process's MARTIAN_BASE at a scratch tree (only for the duration of the first
// RelPath call, which caches it; child processes do not inherit it).
func c12QueueBaseInit(c *Ctx) {
	base := filepath.Join(c.Scratch, "qbase")
	bin := filepath.Join(base, "bin")
	jm := filepath.Join(base, "jobmanagers")
	if os.MkdirAll(bin, 0o755) != nil || os.MkdirAll(jm, 0o755) != nil {
		c12qWhyNot = "cannot create the scratch jobmanagers directory"
		return
	}
	old, had := os.LookupEnv("MARTIAN_BASE")
	os.Setenv("MARTIAN_BASE", bin)
	got := util.RelPath(filepath.Join("..", "jobmanagers"))
	if had {
		os.Setenv("MARTIAN_BASE", old)
	} else {
		os.Unsetenv("MARTIAN_BASE")
	}
	if filepath.Clean(got) != filepath.Clean(jm) {
		c12qWhyNot = "util.RelPath was already initialised (" + got + ")"
		return
	}
	script := "#!/bin/sh\n" +
		"# queue query of the C12 harness: the ids asked about are recorded, the answer\n" +
		"# is held back until the harness opens the gate\n" +
		"cat > stdin.tmp && mv stdin.tmp stdin.txt\n" +
		"if [ -p gate ]; then read x < gate; fi\n" +
		"if [ -e fail ]; then echo 'scheduler is down' >&2; exit 3; fi\n" +
		"cat answer.txt\n"
	if err := os.WriteFile(filepath.Join(jm, "c12query.sh"), []byte(script), 0o755); err != nil {
		c12qWhyNot = err.Error()
		return
	}
	c12qJobDir = jm
}

func c12qGen(rng *rand.Rand) c12qScenario {
	k := 1 + rng.Intn(4)
	if rng.Intn(6) == 0 {
		k = 1 // the lost job is the only job in flight
	}
	sc := c12qScenario{Grace: []int{1, 5, 40, 300, 3000, 3600}[rng.Intn(6)]}
	lost := make([]bool, k)
	disk := make([]string, k)
	for i := 0; i < k; i++ {
		sc.HasId = append(sc.HasId, rng.Intn(7) != 0)
		lost[i] = rng.Intn(5) < 2
		disk[i] = "q"
	}
	dt := func() int {
		g := sc.Grace
		switch rng.Intn(14) {
		case 0, 1, 2, 3, 4:
			return 0
		case 5:
			return 1
		case 6:
			return g - 1
		case 7:
			return g
		case 8:
			return g + 1
		case 9:
			return 299
		case 10:
			return 300
		case 11:
			return 301
		case 12:
			return rng.Intn(2*g + 2)
		default:
			return rng.Intn(700)
		}
	}
	n := 5 + rng.Intn(12)
	inflight := false
	for len(sc.Events) < n {
		e := c12qEvent{Dt: dt()}
		switch r := rng.Intn(100); {
		case r < 28:
			e.Kind = "I"
			inflight = true // (perhaps)
		case r < 55:
			if !inflight && rng.Intn(4) != 0 {
				continue
			}
			e.Kind = "A"
			inflight = false
			e.Fail = rng.Intn(9) == 0
			e.Style = rng.Intn(8)
			for i := 0; i < k; i++ {
				if !lost[i] && rng.Intn(10) != 0 {
					e.Listed = append(e.Listed, i)
				}
			}
			if rng.Intn(12) == 0 {
				e.Listed = nil // names none of the queried jobs
			}
		case r < 82:
			e.Kind = "R"
		default:
			i := rng.Intn(k)
			if disk[i] != "q" && disk[i] != "r" {
				continue
			}
			if lost[i] && rng.Intn(8) != 0 {
				continue
			}
			e.Kind, e.Chunk = "P", i
			e.State = []string{"r", "r", "d", "f"}[rng.Intn(4)]
			if disk[i] == "r" && e.State == "r" {
				e.State = "d"
			}
			disk[i] = e.State
		}
		sc.Events = append(sc.Events, e)
	}
	return sc
}

// the answer's bytes: what a queue-query script would print for the listed ids
func c12qAnswerBytes(e c12qEvent, ids []string) string {
	var lines []string
	for _, i := range e.Listed {
		if ids[i] != "" {
			lines = append(lines, ids[i])
		}
	}
	switch e.Style {
	case 0, 1, 2:
		// one id per line, trailing newline
		return strings.Join(lines, "\n") + "\n"
	case 3:
		// no trailing newline
		return strings.Join(lines, "\n")
	case 4:
		// ids the pipestance never heard of, and a blank line
		return "job0\n" + strings.Join(lines, "\n") + "\n\n424242\n"
	case 5:
		// reversed order
		sort.Sort(sort.Reverse(sort.StringSlice(lines)))
		return strings.Join(lines, "\n") + "\n"
	case 6:
		// trailing blanks after the ids (a line is compared exactly)
		return strings.Join(lines, " \n") + " \n"
	default:
		// a header line, as a scheduler's listing command would print
		return "JOBID\n" + strings.Join(lines, "\n") + "\n"
	}
}

type c12qRun struct {
	ids      []string // job id per chunk ("" = none)
	obs      []string // per event: last-age|ids in flight|st/mark-age,...
	evs      []string // per event: the driver's encoding
	monitors []string
	elapsed  time.Duration
	err      string
}

var c12qSeq int

func c12qWaitFor(cond func() bool) bool {
	dl := time.Now().Add(c12Wait)
	for !cond() {
		if time.Now().After(dl) {
			return false
		}
		time.Sleep(200 * time.Microsecond)
	}
	return true
}

// c12qExec runs the scenario on the real code.
func c12qExec(c *Ctx, sc c12qScenario) c12qRun {
	var run c12qRun
	c12qSeq++
	dir := filepath.Join(c.Scratch, fmt.Sprintf("queue%d", c12qSeq))
	os.MkdirAll(dir, 0o755)
	defer os.RemoveAll(dir)
	k := len(sc.HasId)
	fq := "ID.c12q.PIPE.STAGE"
	jm := core.VerifNewClusterJobManager(0, "/bin/sh", []string{"-c", "cat > /dev/null; echo job$$"})
	rig, err := core.VerifNewQueueRig(jm, "c12query.sh", time.Duration(sc.Grace)*time.Second, dir, fq, k)
	if err != nil {
		run.err = err.Error()
		return run
	}
	chunks := rig.Chunks()
	res := &core.JobResources{Threads: 1, MemGB: 1}
	run.ids = make([]string, k)
	for i := 0; i < k; i++ {
		cd := filepath.Join(dir, fmt.Sprintf("chnk%d", i))
		if sc.HasId[i] {
			if err := core.VerifQueueJob(jm, chunks[i], res, fmt.Sprintf("%s.fork0.chnk%d", fq, i)); err != nil {
				run.err = err.Error()
				return run
			}
			b, err := os.ReadFile(filepath.Join(cd, "_jobid"))
			if err != nil || len(b) == 0 {
				run.err = "the submit command left no _jobid"
				return run
			}
			run.ids[i] = string(b)
		} else {
			// queued inside mrp, the submission has not produced a job id (yet)
			os.WriteFile(filepath.Join(cd, "_jobinfo"), []byte("{}"), 0o644)
			core.VerifSetMetadataState(chunks[i], "queued")
		}
	}
	for _, f := range []string{"stdin.txt", "stdin.tmp", "answer.txt", "fail", "gate"} {
		os.Remove(filepath.Join(c12qJobDir, f))
	}
	gate := filepath.Join(c12qJobDir, "gate")
	if err := syscall.Mkfifo(gate, 0o600); err != nil {
		run.err = "mkfifo: " + err.Error()
		return run
	}
	defer os.Remove(gate)
	release := func(e c12qEvent) bool {
		if e.Fail {
			os.WriteFile(filepath.Join(c12qJobDir, "fail"), nil, 0o644)
		} else {
			os.WriteFile(filepath.Join(c12qJobDir, "answer.txt"), []byte(c12qAnswerBytes(e, run.ids)), 0o644)
		}
		g, err := os.OpenFile(gate, os.O_WRONLY, 0)
		if err != nil {
			return false
		}
		g.WriteString("go\n")
		g.Close()
		ok := c12qWaitFor(func() bool { return !rig.QueryActive() })
		os.Remove(filepath.Join(c12qJobDir, "fail"))
		return ok
	}
	fail := func(step int, name, f string, a ...interface{}) {
		run.monitors = append(run.monitors, fmt.Sprintf("%s@%d: %s", name, step, fmt.Sprintf(f, a...)))
	}
	now := 0                       // scenario seconds
	var pendingJournal [][2]string // chunk, file
	disk := make([]string, k)
	// second of the first successful answer that omitted the chunk while it was asked about
	// and in flight (-1 = none); spoke: the chunk has written something after that
	omittedAt := make([]int, k)
	spoke := make([]bool, k)
	for i := range disk {
		disk[i] = "q"
		omittedAt[i] = -1
	}
	var asked map[string]bool
	inflight := false
	reconFailed := make([]bool, k) // mrp wrote the "not queued or running" error (the job may overwrite _errors later)
	chunkState := func(i int) string {
		st, _ := core.VerifMetadataState(chunks[i])
		switch st {
		case "queued":
			return "q"
		case "running":
			return "r"
		case "complete":
			return "d"
		case "failed":
			b, _ := os.ReadFile(filepath.Join(dir, fmt.Sprintf("chnk%d", i), "_errors"))
			if strings.HasPrefix(string(b), "According to the job manager") {
				reconFailed[i] = true
			}
			if reconFailed[i] {
				return "n"
			}
			return "f"
		}
		return "?" + st
	}
	age := func(t time.Time) string {
		if t.IsZero() {
			return "-"
		}
		return strconv.Itoa(now - int(time.Since(t)/time.Second))
	}
	t0 := time.Now()
	for idx, e := range sc.Events {
		if e.Dt > 0 {
			rig.ShiftClock(time.Duration(e.Dt) * time.Second)
			now += e.Dt
		}
		mt := now*c12qK + idx
		queried := "-"
		before := make([]string, k)
		for i := range before {
			before[i] = chunkState(i)
		}
		switch e.Kind {
		case "I":
			run.evs = append(run.evs, fmt.Sprintf("I%d", mt))
			was := inflight
			os.Remove(filepath.Join(c12qJobDir, "stdin.txt"))
			active := rig.QueryQueue()
			if active && !was {
				if !c12qWaitFor(func() bool { return c12FileExists(filepath.Join(c12qJobDir, "stdin.txt")) }) {
					run.err = "the queue-query command did not start"
					return run
				}
				b, _ := os.ReadFile(filepath.Join(c12qJobDir, "stdin.txt"))
				ids := strings.Split(string(b), "\n")
				sort.Strings(ids)
				asked = map[string]bool{}
				for _, id := range ids {
					asked[id] = true
				}
				inflight = true
			}
		case "A":
			if e.Fail {
				run.evs = append(run.evs, fmt.Sprintf("A%d:!", mt))
			} else {
				h := hex.EncodeToString([]byte(c12qAnswerBytes(e, run.ids)))
				if h == "" {
					h = "-"
				}
				run.evs = append(run.evs, fmt.Sprintf("A%d:%s", mt, h))
			}
			if inflight {
				if !release(e) {
					run.err = "the query goroutine did not finish after the command was released"
					return run
				}
				inflight = false
				if !e.Fail {
					listed := map[string]bool{}
					for _, l := range strings.Split(c12qAnswerBytes(e, run.ids), "\n") {
						listed[l] = true
					}
					for i := 0; i < k; i++ {
						if run.ids[i] != "" && asked[run.ids[i]] && !listed[run.ids[i]] && omittedAt[i] < 0 &&
							(before[i] == "q" || before[i] == "r") && (disk[i] == "q" || disk[i] == "r") {
							omittedAt[i] = now
						}
					}
				}
			}
		case "R":
			run.evs = append(run.evs, fmt.Sprintf("R%d", mt))
			for _, p := range pendingJournal {
				ci, _ := strconv.Atoi(p[0])
				rig.JournalUpdate(ci, core.MetadataFileName(p[1]))
			}
			pendingJournal = nil
			rig.Refresh()
		case "P":
			id := run.ids[e.Chunk]
			if id == "" {
				id = fmt.Sprintf("noid%d", e.Chunk)
			}
			run.evs = append(run.evs, fmt.Sprintf("P%s:%s", id, e.State))
			cd := filepath.Join(dir, fmt.Sprintf("chnk%d", e.Chunk))
			ci := strconv.Itoa(e.Chunk)
			if disk[e.Chunk] == "q" || disk[e.Chunk] == "r" {
				switch e.State {
				case "r":
					os.WriteFile(filepath.Join(cd, "_log"), nil, 0o644)
					pendingJournal = append(pendingJournal, [2]string{ci, "log"})
				case "d":
					os.WriteFile(filepath.Join(cd, "_log"), nil, 0o644)
					os.WriteFile(filepath.Join(cd, "_complete"), nil, 0o644)
					pendingJournal = append(pendingJournal, [2]string{ci, "log"}, [2]string{ci, "complete"})
				case "f":
					os.WriteFile(filepath.Join(cd, "_log"), nil, 0o644)
					os.WriteFile(filepath.Join(cd, "_errors"), []byte("stage code failed"), 0o644)
					pendingJournal = append(pendingJournal, [2]string{ci, "log"}, [2]string{ci, "errors"})
				}
				disk[e.Chunk] = e.State
				if omittedAt[e.Chunk] >= 0 {
					spoke[e.Chunk] = true // no longer "silent since the omission"
				}
			}
		}
		if inflight {
			var ids []string
			for id := range asked {
				ids = append(ids, id)
			}
			sort.Strings(ids)
			queried = strings.Join(ids, "+")
		}
		var js []string
		for i := 0; i < k; i++ {
			st := chunkState(i)
			js = append(js, st+"/"+age(rig.NotRunningSince(i)))
			// ---- monitors on the real code ----
			if st == "n" && before[i] != "n" {
				if omittedAt[i] < 0 {
					fail(idx, "healthy-job-failed", "chunk %d (job %s) was failed as 'not queued or running' although no successful answer had omitted it", i, run.ids[i])
				} else if now-omittedAt[i] < sc.Grace {
					fail(idx, "healthy-job-failed", "chunk %d (job %s) was failed %d s after the first answer that omitted it; the grace period is %d s", i, run.ids[i], now-omittedAt[i], sc.Grace)
				}
			}
			if e.Kind == "R" && omittedAt[i] >= 0 && !spoke[i] && now-omittedAt[i] >= sc.Grace && st != "n" {
				fail(idx, "lost-job-not-failed", "chunk %d (job %s): a successful answer omitted it %d s ago (grace period %d s), it has written nothing since, and refreshState left it %q",
					i, run.ids[i], now-omittedAt[i], sc.Grace, st)
			}
		}
		run.obs = append(run.obs, age(rig.LastQueueCheck())+"|"+queried+"|"+strings.Join(js, ","))
	}
	run.elapsed = time.Since(t0)
	if inflight {
		release(c12qEvent{Fail: true})
	}
	return run
}

func (sc c12qScenario) jobsArg(ids []string) string {
	var js []string
	for i, h := range sc.HasId {
		if h {
			js = append(js, ids[i]+":1:q:q")
		} else {
			js = append(js, fmt.Sprintf("noid%d:0:q:q", i))
		}
	}
	return strings.Join(js, ";")
}

// the model's reply in the harness's units (seconds; ids sorted)
func c12qModelObs(rep string) []string {
	if rep == "" || rep == "bad-op" {
		return []string{rep}
	}
	sec := func(s string) string {
		if s == "-" {
			return s
		}
		n, err := strconv.Atoi(s)
		if err != nil {
			return "?" + s
		}
		return strconv.Itoa(n / c12qK)
	}
	var out []string
	for _, st := range strings.Split(rep, ";") {
		f := strings.Split(st, "|")
		if len(f) != 3 {
			out = append(out, "?"+st)
			continue
		}
		ids := f[1]
		if ids != "-" {
			l := strings.Split(ids, "+")
			sort.Strings(l)
			ids = strings.Join(l, "+")
		}
		var js []string
		for _, j := range strings.Split(f[2], ",") {
			p := strings.SplitN(j, "/", 2)
			if len(p) == 2 {
				js = append(js, p[0]+"/"+sec(p[1]))
			}
		}
		out = append(out, sec(f[0])+"|"+ids+"|"+strings.Join(js, ","))
	}
	return out
}

// c12qCheck: execute (re-running when the machine was too slow for the
// one-second rule), ask the model, judge.
func c12qCheck(c *Ctx, sc c12qScenario) (kind, what string, run c12qRun, model []string) {
	for try := 0; try < 3; try++ {
		run = c12qExec(c, sc)
		if run.err != "" || run.elapsed < 900*time.Millisecond {
			break
		}
	}
	if run.err != "" {
		return "skip", run.err, run, nil
	}
	if run.elapsed >= 900*time.Millisecond {
		return "skip", "slow", run, nil
	}
	evs := "."
	if len(run.evs) > 0 {
		evs = strings.Join(run.evs, ",")
	}
	rep := c.Drv.Ask("C12.queue", strconv.Itoa(sc.Grace*c12qK), strconv.Itoa(c12qLimitSecs*c12qK), sc.jobsArg(run.ids), evs)
	model = c12qModelObs(rep)
	if len(run.monitors) > 0 {
		return "property", run.monitors[0], run, model
	}
	if d := firstDiff(run.obs, model); d >= 0 {
		o, m := "<none>", "<none>"
		if d < len(run.obs) {
			o = run.obs[d]
		}
		if d < len(model) {
			m = model[d]
		}
		ev := "?"
		if d < len(sc.Events) {
			ev = sc.Events[d].String()
		}
		return "correspondence", fmt.Sprintf("event %d (%s): real %s, model %s", d, ev, o, m), run, model
	}
	return "", "", run, model
}

// QUEUE_CHECK_LIMIT in seconds: the regenerated fact Gen.queueCheckLimitSecs is
// pinned to 300 by Props.C12.query_issued_after_limit; the model is run with it.
const c12qLimitSecs = 300

func c12qShrink(c *Ctx, sc c12qScenario, kind, what string) c12qScenario {
	same := func(t c12qScenario) bool {
		k, w, _, _ := c12qCheck(c, t)
		if k != kind {
			return false
		}
		return kind != "property" || monitorName(w) == monitorName(what)
	}
	cur := sc
	trials := 0
	for changed := true; changed && trials < 60; {
		changed = false
		for i := 0; i < len(cur.Events) && trials < 60; i++ {
			t := cur
			t.Events = append(append([]c12qEvent{}, cur.Events[:i]...), cur.Events[i+1:]...)
			if i < len(cur.Events)-1 {
				// keep the clock: the removed event's time step goes to its successor
				t.Events[i].Dt += cur.Events[i].Dt
			}
			trials++
			if same(t) {
				cur = t
				changed = true
				i--
			}
		}
	}
	return cur
}

func c12qDescribe(sc c12qScenario) []string {
	var out []string
	for _, e := range sc.Events {
		out = append(out, e.String())
	}
	return out
}

func runC12Queue(c *Ctx) {
	r := c.Res
	if c12qJobDir == "" {
		r.note("queue-query stream not run: %s", c12qWhyNot)
		return
	}
	n, budget := 150, 8*time.Second
	if c.Thorough {
		n, budget = 1200, 60*time.Second
	}
	t0 := time.Now()
	reported := map[string]int{}
	for i := 0; i < n; i++ {
		if time.Since(t0) > budget {
			r.note("queue-query stream: time budget %v used up after %d of %d scenarios", budget, i, n)
			break
		}
		sc := c12qGen(c.Rng)
		kind, what, run, _ := c12qCheck(c, sc)
		if kind == "skip" {
			if what == "slow" {
				r.hist("queue_scenarios_dropped_too_slow_for_the_one_second_rule")
			} else {
				r.hist("queue_scenarios_not_run")
				r.note("queue-query scenario not run: %s", what)
			}
			continue
		}
		marks, fails, queries := 0, 0, 0
		for _, o := range run.obs {
			f := strings.Split(o, "|")
			if len(f) == 3 {
				if f[1] != "-" {
					queries++
				}
				for _, j := range strings.Split(f[2], ",") {
					if strings.HasPrefix(j, "n/") {
						fails++
					} else if !strings.HasSuffix(j, "/-") {
						marks++
					}
				}
			}
		}
		r.count(fmt.Sprintf("queue|%d|%v|%v", sc.Grace, sc.HasId, c12qDescribe(sc)), marks > 0)
		r.hist("queue_scenarios")
		r.Histogram["queue_events"] += len(sc.Events)
		if queries > 0 {
			r.hist("queue_scenarios_with_a_query_in_flight")
		}
		if marks > 0 {
			r.hist("queue_scenarios_with_a_marked_job")
		}
		if fails > 0 {
			r.hist("queue_scenarios_with_a_job_failed_by_reconciliation")
		}
		if len(sc.HasId) == 1 {
			r.hist("queue_scenarios_single_job")
		}
		if i%67 == 0 {
			r.sample(map[string]interface{}{"grace_s": sc.Grace, "has_job_id": sc.HasId, "events": c12qDescribe(sc), "real_after_each_event": run.obs})
		}
		if kind == "" {
			continue
		}
		name := "model-mismatch"
		if kind == "property" {
			name = monitorName(what)
		}
		key := "C12:queue:" + name
		if reported[key] >= 2 {
			continue
		}
		reported[key]++
		// alone, once more, before believing it
		k2, w2, _, _ := c12qCheck(c, sc)
		if k2 != kind {
			r.note("a queue-query %s disagreement (%s) did not reproduce when the scenario was re-executed alone; not reported", kind, what)
			continue
		}
		min := c12qShrink(c, sc, k2, w2)
		k3, w3, run3, mo3 := c12qCheck(c, min)
		if k3 != k2 {
			min = sc
			_, w3, run3, mo3 = c12qCheck(c, min)
		}
		v := Violation{Kind: kind, Key: key, What: "queue-query reconciliation: " + w3,
			Input: map[string]interface{}{"queue_query_grace_secs": min.Grace, "chunk_has_job_id": min.HasId, "job_ids": run3.ids,
				"events": c12qDescribe(min), "driver_events": run3.evs,
				"encoding": "+<seconds passing before the event>; after each event: age of lastQueueCheck|ids being asked about|per chunk state/second the mark was set (q r d f, n = failed 'not queued or running')"},
			Impl: run3.obs, Model: mo3}
		if kind == "correspondence" {
			v.Broken = "correspondence C12.queue (Martian.SemaphoreQueue.step vs Pipestance.queryQueue / Metadata.failNotRunning / endRefresh)"
		} else {
			v.Expect = "monitor " + monitorName(w3) + " (Props.C12.lost_job_eventually_failed / recon_fails_only_after_grace)"
		}
		r.violate(v)
	}

	// the negative witness of Props.C12.reported_again_still_failed on the real code
	w := c12qScenario{Grace: 40, HasId: []bool{true}, Events: []c12qEvent{
		{Kind: "I"}, {Kind: "A", Listed: nil, Style: 0},
		{Kind: "I", Dt: 300}, {Kind: "A", Listed: []int{0}, Style: 0}, {Kind: "R", Dt: 1},
		{Kind: "I", Dt: 299}, {Kind: "A", Listed: []int{0}, Style: 0}, {Kind: "R", Dt: 1}}}
	if kind, _, run, _ := c12qCheck(c, w); kind != "skip" && len(run.obs) == 8 {
		if strings.HasSuffix(run.obs[7], "|n/-") {
			r.note("negative witness reported_again_still_failed replays on the real code: a job omitted by ONE answer (e.g. a scheduler hiccup with exit status 0) and listed by every later answer is still failed 'not queued or running' after the grace period — nothing clears notRunningSince (documented limit: the reconciliation trusts a single omitting answer)")
		} else {
			r.note("negative witness reported_again_still_failed no longer replays on the real code: %v", run.obs)
		}
	}
}
