package main

// Directed schedules (TAOpts.SlowJobs): jobs whose key contains one of the
// given substrings finish LAST — only when no other job is pending and the
// scheduler has made no progress in two consecutive passes, i.e. when
// everything that can happen without them has happened.  Used by the program
// families of sched_families.go ("the producer of the value finishes before
// the producer of the condition").  All other choices come from r.Rng.

import "strings"

func (r *TARun) isSlow(job *TAJob) bool {
	for _, s := range strings.Split(r.Opts.SlowJobs, ",") {
		if s != "" && strings.Contains(job.Key, s) {
			return true
		}
	}
	return false
}

// slowStep performs one iteration of the run loop under SlowJobs; done = the run is over.
func (r *TARun) slowStep(idle *int) (done bool) {
	var fast []*TAJob
	for _, j := range r.Pending {
		if !r.isSlow(j) {
			fast = append(fast, j)
		}
	}
	if len(fast) > 0 && r.Rng.Float64() >= r.Opts.StepBias {
		r.finishJob(fast[r.Rng.Intn(len(fast))])
		r.slowQuiet = 0
		return false
	}
	d, progress := r.stepOnce()
	if d {
		if r.Final == "failed" {
			r.FailMsgs = append(r.FailMsgs, r.ErrMsg)
		}
		return true
	}
	if progress {
		r.slowQuiet = 0
		return false
	}
	r.ps.VerifStorageBarrier()
	r.slowQuiet++
	if len(fast) == 0 && r.slowQuiet >= 2 {
		for _, j := range r.Pending {
			if r.isSlow(j) {
				r.finishJob(j)
				break
			}
		}
		r.slowQuiet = 0
	}
	*idle = 0
	return false
}
