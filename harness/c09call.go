package main

// C09, call statements: the model Martian.FormatCall (fmtCall / parseCall /
// wfCall / normCall) against the real parser and formatter.
//
// The source text of every case is built BY THE MODEL (C09.fmtcall); on it
//   (a) Parser.UncheckedParse must accept and Ast.Call must dump to what the
//       model's parsecall returns (and, for a well-formed call, to normcall);
//   (b) FormatSrcBytes must return the text unchanged (fmtCall is
//       CallStm.format, the only thing printed for such a file).
// A respelling of the same call (other white space, no alignment, trailing
// commas in collections) goes through the real parser and formatter and is
// compared with parsecall / fmtcall of the model, and a list of near-miss
// texts checks accept/reject.

import (
	"fmt"
	"sort"
	"strconv"
	"strings"

	"github.com/martian-lang/martian/martian/syntax"
)

// ---- generated expressions ----

type c09cx struct {
	kind byte // n t f i F s [ { < r
	i    int64
	s    string // string value / float text
	xs   []*c09cx
	keys []string
	self bool
	id   string
	out  []string
}

func (e *c09cx) enc(w *[]string) {
	switch e.kind {
	case 'n', 't', 'f':
		*w = append(*w, string(e.kind))
	case 'i':
		*w = append(*w, "i"+strconv.FormatInt(e.i, 10))
	case 'F':
		*w = append(*w, "F"+hx(e.s))
	case 's':
		*w = append(*w, "s"+hx(e.s))
	case '[':
		*w = append(*w, "[")
		for _, x := range e.xs {
			x.enc(w)
		}
		*w = append(*w, "]")
	case '{', '<':
		*w = append(*w, string(e.kind))
		for i, x := range e.xs {
			*w = append(*w, hx(e.keys[i]))
			x.enc(w)
		}
		if e.kind == '{' {
			*w = append(*w, "}")
		} else {
			*w = append(*w, ">")
		}
	case 'r':
		k := "0"
		if e.self {
			k = "1"
		}
		*w = append(*w, "r"+k+":"+hx(e.id)+":"+hxList(e.out))
	}
}

func c09callQuote(s string) string {
	var b strings.Builder
	b.WriteByte('"')
	for i := 0; i < len(s); i++ {
		switch s[i] {
		case '"':
			b.WriteString(`\"`)
		case '\\':
			b.WriteString(`\\`)
		case '\n':
			b.WriteString(`\n`)
		case '\t':
			b.WriteString(`\t`)
		default:
			b.WriteByte(s[i])
		}
	}
	b.WriteByte('"')
	return b.String()
}

// spell writes a non-canonical spelling: random white space, optional trailing commas.
func (e *c09cx) spell(c *Ctx, b *strings.Builder) {
	ws := func() {
		switch c.Rng.Intn(6) {
		case 0:
			b.WriteByte(' ')
		case 1:
			b.WriteString("\n  ")
		case 2:
			b.WriteString("  ")
		}
	}
	switch e.kind {
	case 'n':
		b.WriteString("null")
	case 't':
		b.WriteString("true")
	case 'f':
		b.WriteString("false")
	case 'i':
		b.WriteString(strconv.FormatInt(e.i, 10))
	case 'F':
		b.WriteString(e.s)
	case 's':
		b.WriteString(c09callQuote(e.s))
	case '[', '{', '<':
		open, cl := "[", "]"
		if e.kind != '[' {
			open, cl = "{", "}"
		}
		b.WriteString(open)
		for i, x := range e.xs {
			ws()
			if e.kind == '{' {
				b.WriteString(c09callQuote(e.keys[i]))
				ws()
				b.WriteByte(':')
				ws()
			} else if e.kind == '<' {
				b.WriteString(e.keys[i])
				ws()
				b.WriteByte(':')
				ws()
			}
			x.spell(c, b)
			ws()
			if i+1 < len(e.xs) || c.Rng.Intn(2) == 0 {
				b.WriteByte(',')
			}
		}
		ws()
		b.WriteString(cl)
	case 'r':
		if e.self {
			b.WriteString("self.")
		}
		b.WriteString(e.id)
		for _, o := range e.out {
			b.WriteByte('.')
			b.WriteString(o)
		}
	}
}

var c09callIdKw = []string{"split", "struct", "local", "threads", "using", "comp", "exec", "mem_gb",
	"memgb", "vmem_gb", "disabled", "retain", "strict", "special", "volatile", "preflight", "filetype"}
var c09callBadKw = []string{"in", "map", "call", "self", "true", "int", "as", "null", "out", "default"}

func c09callId(c *Ctx, maxLen int) string {
	switch c.Rng.Intn(12) {
	case 0:
		return c09callIdKw[c.Rng.Intn(len(c09callIdKw))]
	case 1:
		if c.Rng.Intn(6) == 0 {
			return c09callBadKw[c.Rng.Intn(len(c09callBadKw))]
		}
	}
	const letters = "abcdefghijklmnopqrstuvwxyzABCDEFGHIJKLMNOPQRSTUVWXYZ"
	const word = letters + "0123456789_"
	n := 1 + c.Rng.Intn(6)
	if c.Rng.Intn(4) == 0 {
		n = 1 + c.Rng.Intn(maxLen)
	}
	if c.Rng.Intn(5) == 0 {
		n = 27 + c.Rng.Intn(6) // around the 30-byte alignment cut-off
	}
	var b strings.Builder
	if c.Rng.Intn(8) == 0 {
		b.WriteByte('_')
	}
	b.WriteByte(letters[c.Rng.Intn(len(letters))])
	for b.Len() < n {
		b.WriteByte(word[c.Rng.Intn(len(word))])
	}
	return b.String()
}

var c09callStrs = []string{"", "a", "x y", "a\"b", "back\\slash", "line\nbreak", "tab\t", "été", "split", "#no comment", "a,b]"}
var c09callFloats = []float64{1.5, -2.25, 1e21, 3e-7, 100, -4, 0.1, 6.02e23, 1e6, 12345678.5}

func c09callRef(c *Ctx) *c09cx {
	e := &c09cx{kind: 'r', id: c09callId(c, 12)}
	switch c.Rng.Intn(6) {
	case 0:
		e.self = true
		for k := c.Rng.Intn(3); k > 0; k-- {
			e.out = append(e.out, c09callId(c, 8))
		}
	case 1:
		e.out = []string{"default"}
	default:
		for k := c.Rng.Intn(3); k > 0; k-- {
			e.out = append(e.out, c09callId(c, 8))
		}
	}
	return e
}

func c09callKeys(c *Ctx, n int, ident bool) []string {
	seen := map[string]bool{}
	var ks []string
	for len(ks) < n {
		var k string
		if ident {
			k = c09callId(c, 10)
		} else {
			k = c09callStrs[c.Rng.Intn(len(c09callStrs))] + string(rune('a'+c.Rng.Intn(26)))
		}
		if !seen[k] {
			seen[k] = true
			ks = append(ks, k)
		}
	}
	sort.Strings(ks)
	return ks
}

func c09callExp(c *Ctx, depth int) *c09cx {
	k := c.Rng.Intn(12)
	if depth <= 0 && k >= 6 && k <= 8 {
		k = c.Rng.Intn(6)
	}
	switch k {
	case 0:
		return &c09cx{kind: 'n'}
	case 1:
		if c.Rng.Intn(2) == 0 {
			return &c09cx{kind: 't'}
		}
		return &c09cx{kind: 'f'}
	case 2, 3:
		v := int64(c.Rng.Intn(2000) - 1000)
		switch c.Rng.Intn(10) {
		case 0:
			v = -9223372036854775808
		case 1:
			v = 9223372036854775807
		}
		return &c09cx{kind: 'i', i: v}
	case 4:
		return &c09cx{kind: 'F', s: strconv.FormatFloat(c09callFloats[c.Rng.Intn(len(c09callFloats))], 'g', -1, 64)}
	case 5:
		return &c09cx{kind: 's', s: c09callStrs[c.Rng.Intn(len(c09callStrs))]}
	case 6:
		return c09callColl(c, depth, '[', c.Rng.Intn(4))
	case 7:
		return c09callColl(c, depth, '{', c.Rng.Intn(3))
	case 8:
		return c09callColl(c, depth, '<', c.Rng.Intn(4))
	default:
		return c09callRef(c)
	}
}

func c09callColl(c *Ctx, depth int, kind byte, n int) *c09cx {
	e := &c09cx{kind: kind}
	if kind != '[' {
		e.keys = c09callKeys(c, n, kind == '<')
	}
	for i := 0; i < n; i++ {
		e.xs = append(e.xs, c09callExp(c, depth-1))
	}
	return e
}

type c09callBind struct {
	id    string
	split bool
	exp   *c09cx
}

type c09callCase struct {
	decId, id string
	binds     []c09callBind
}

func (k *c09callCase) enc() string {
	w := []string{hx(k.decId), hx(k.id), strconv.Itoa(len(k.binds))}
	for _, b := range k.binds {
		sp := "0"
		if b.split {
			sp = "1"
		}
		w = append(w, hx(b.id), sp)
		b.exp.enc(&w)
	}
	return strings.Join(w, " ")
}

func (k *c09callCase) spell(c *Ctx) string {
	var b strings.Builder
	sp := func() {
		switch c.Rng.Intn(4) {
		case 0:
			b.WriteString("\n")
		case 1:
			b.WriteString("   ")
		case 2:
			b.WriteString("\t")
		default:
			b.WriteString(" ")
		}
	}
	opt := func() {
		if c.Rng.Intn(2) == 0 {
			sp()
		}
	}
	isMap := false
	for _, bd := range k.binds {
		isMap = isMap || bd.split
	}
	opt()
	if isMap {
		b.WriteString("map")
		sp()
	}
	b.WriteString("call")
	sp()
	b.WriteString(k.decId)
	if k.id != k.decId || c.Rng.Intn(8) == 0 {
		sp()
		b.WriteString("as")
		sp()
		b.WriteString(k.id)
	}
	opt()
	b.WriteByte('(')
	for _, bd := range k.binds {
		opt()
		b.WriteString(bd.id)
		opt()
		b.WriteByte('=')
		opt()
		if bd.split {
			b.WriteString("split")
			sp()
		}
		bd.exp.spell(c, &b)
		opt()
		b.WriteByte(',')
	}
	opt()
	b.WriteByte(')')
	opt()
	return b.String()
}

// ---- dump of the real AST in the driver's word format ----

func c09callEnc(e syntax.Exp) string {
	var w []string
	c09callEncW(e, &w)
	return strings.Join(w, " ")
}

func c09callEncW(e syntax.Exp, w *[]string) {
	switch x := e.(type) {
	case *syntax.NullExp:
		*w = append(*w, "n")
	case *syntax.BoolExp:
		if x.Value {
			*w = append(*w, "t")
		} else {
			*w = append(*w, "f")
		}
	case *syntax.IntExp:
		*w = append(*w, "i"+strconv.FormatInt(x.Value, 10))
	case *syntax.FloatExp:
		*w = append(*w, "F"+hx(strconv.FormatFloat(x.Value, 'g', -1, 64)))
	case *syntax.StringExp:
		*w = append(*w, "s"+hx(x.Value))
	case *syntax.ArrayExp:
		*w = append(*w, "[")
		for _, v := range x.Value {
			c09callEncW(v, w)
		}
		*w = append(*w, "]")
	case *syntax.MapExp:
		open, cl := "{", "}"
		if x.Kind == syntax.KindStruct {
			open, cl = "<", ">"
		}
		keys := make([]string, 0, len(x.Value))
		for k := range x.Value {
			keys = append(keys, k)
		}
		sort.Strings(keys)
		*w = append(*w, open)
		for _, k := range keys {
			*w = append(*w, hx(k))
			c09callEncW(x.Value[k], w)
		}
		*w = append(*w, cl)
	case *syntax.RefExp:
		k := "0"
		if x.Kind == syntax.KindSelf {
			k = "1"
		}
		var out []string
		if x.OutputId != "" {
			out = strings.Split(x.OutputId, ".")
		}
		*w = append(*w, "r"+k+":"+hx(x.Id)+":"+hxList(out))
	case *syntax.SplitExp:
		*w = append(*w, "SPLIT")
		c09callEncW(x.Value, w)
	default:
		*w = append(*w, fmt.Sprintf("?%T", e))
	}
}

// c09callDump parses with the real parser: "none", or "some <enc>" of Ast.Call
// ("other: …" when the file holds something else than one plain call).
func c09callDump(text string) string {
	ast, err, pan := c09Parse([]byte(text), "call.mro")
	if pan != "" {
		return "panic: " + pan
	}
	if err != nil || ast == nil {
		return "none"
	}
	if ast.Call == nil {
		return "none"
	}
	if (ast.Callables != nil && len(ast.Callables.List) > 0) || len(ast.UserTypes) > 0 || len(ast.StructTypes) > 0 || len(ast.Includes) > 0 {
		return "other: declarations"
	}
	cs := ast.Call
	if m := cs.Modifiers; m != nil && (m.Local || m.Preflight || m.Volatile || (m.Bindings != nil && len(m.Bindings.List) > 0)) {
		return "other: modifiers"
	}
	w := []string{hx(cs.DecId), hx(cs.Id)}
	n := 0
	if cs.Bindings != nil {
		n = len(cs.Bindings.List)
	}
	w = append(w, strconv.Itoa(n))
	if cs.Bindings != nil {
		for _, b := range cs.Bindings.List {
			sp := "0"
			e := b.Exp
			if s, ok := e.(*syntax.SplitExp); ok {
				sp = "1"
				e = s.Value
			}
			if b.Id == "*" {
				return "other: wildcard"
			}
			w = append(w, hx(b.Id), sp)
			c09callEncW(e, &w)
		}
	}
	return "some " + strings.Join(w, " ")
}

var c09callNearMisses = []string{
	"call X(a = split,)", "call X(a = split [],)", "map call X(a = 1,)", "call X(a = split [1],)",
	"map call X(a = split {a:1},)", "call X as Y()", "call X(a = 1)", "call X(a = 1,,)", "call in()",
	"map call X(a = split,)", "map call X(a = split [1],)", "map call X(a = split [],)", "map call X(a = split {},)",
	"map call X(a = split {\"k\": 1},)", "map call X(a = split Y,)", "map call X(a = split Y.b.c,)",
	"map call X(a = split self.p,)", "map call X(a = split self,)", "map call X(a = split.x, b = split [2],)",
	"map call X(a = split split,)", "map call X(a = split 1,)", "map call X(a = split \"s\",)", "map call X(a = split null,)",
	"map call X(a = 1, b = split [1], c = Y,)", "map call X()", "call X()", "call X as X()", "call X as (a = 1,)",
	"call split(split = split,)", "map call split as struct(struct = split split.default,)", "call X(a = Y.default,)",
	"call X(a = Y.default.z,)", "call X(a = self.p.q,)", "call X(a = self,)", "call X(a = [1,],)", "call X(a = [,],)",
	"call X(a = {},)", "call X(a = {a: 1, b: [2, 3,],},)", "call X(a = {\"a\": 1, a: 2},)", "call (a = 1,)", "call X(= 1,)",
	"call X(a 1,)", "call X(a = ,)", "call X(a = 1,", "call X a = 1,)", "X(a = 1,)", "map X(a = split [1],)", "call map()",
	"call X(in = 1,)", "call X(a = 1,) # c", "# c\ncall X(a = 1,)", "call X(a = -1, b = 1.5, c = 1e+21, d = \"q\\\"\",)",
	"call X(a = [[1]],)", "call X(a = [{\"k\": null}],)", "map call X(a = split [[1], [2]],)", "call\tX\n(\n)\n",
	"call X(a = split.default,)", "map call X(a = split.default,)", "map call X(a = split [1].x,)", "call X(*  = self,)",
	// bytes >= 0x80 outside string literals: Unicode white space, comments that stop before invalid UTF-8 / U+FFFD
	"call\xc2\xa0X(a\xe3\x80\x80=\xe2\x80\xa81,\xc2\x85)", "call X(a\xe2\x80\x8b = 1,)", "call X(a = 1,) # caf\xc3\xa9", "call X(a = 1,) #\xff", "#\xef\xbf\xbd\ncall X(a = 1,)",
	"# \xc3\xa9\ncall X(a = 1,\xe1\x9a\x80)", "call X(a = 1\xff,)", "call X\xc3\xa9(a = 1,)", "call X(a = 1,) # x\xe2\x80",
}

func c09Calls(c *Ctx) {
	r := c.Res
	n := 1500
	if c.Thorough {
		n = 30000
	}
	mismatch := func(key, what, broken string, in map[string]interface{}, impl, model string) {
		r.violate(Violation{Kind: "correspondence", Key: key, What: what, Input: in, Impl: impl, Model: model, Broken: broken})
	}
	const brokenParse = "correspondence C09.parsecall"
	const brokenFmt = "correspondence C09.fmtcall (Martian.FormatCall.fmtCall vs CallStm.format)"

	cases := make([]*c09callCase, n)
	encs := make([]string, n)
	var reqs [][]string
	for i := range cases {
		k := &c09callCase{decId: c09callId(c, 35)}
		k.id = k.decId
		if c.Rng.Intn(3) == 0 {
			k.id = c09callId(c, 35)
		}
		nb := c.Rng.Intn(6)
		wantSplit := c.Rng.Intn(2) == 0
		for j := 0; j < nb; j++ {
			b := c09callBind{id: c09callId(c, 35)}
			if wantSplit && c.Rng.Intn(2) == 0 {
				b.split = true
				switch c.Rng.Intn(8) {
				case 0, 1, 2:
					b.exp = c09callColl(c, 2, '[', 1+c.Rng.Intn(3))
				case 3, 4:
					b.exp = c09callColl(c, 2, '{', 1+c.Rng.Intn(2))
				case 5, 6:
					b.exp = c09callRef(c)
				default: // mostly outside the grammar: empty collection, struct, scalar
					b.exp = c09callExp(c, 1)
				}
			} else {
				b.exp = c09callExp(c, 2)
			}
			k.binds = append(k.binds, b)
		}
		cases[i] = k
		encs[i] = k.enc()
		reqs = append(reqs, []string{"C09.fmtcall", encs[i]}, []string{"C09.wfcall", encs[i]}, []string{"C09.normcall", encs[i]})
	}
	reps := c.Drv.AskBatch(reqs)

	// second round: the model's reading of the printed and of the respelled text
	texts := make([]string, n)
	respelled := make([]string, n)
	var reqs2 [][]string
	for i := range cases {
		texts[i] = unhx(reps[3*i])
		respelled[i] = cases[i].spell(c)
		reqs2 = append(reqs2, []string{"C09.parsecall", hx(texts[i])}, []string{"C09.parsecall", hx(respelled[i])})
	}
	reps2 := c.Drv.AskBatch(reqs2)

	// third round: the model's print of what the real parser read from the respelled text
	realRe := make([]string, n)
	var reqs3 [][]string
	var idx3 []int
	for i := range cases {
		realRe[i] = c09callDump(respelled[i])
		if strings.HasPrefix(realRe[i], "some ") {
			reqs3 = append(reqs3, []string{"C09.fmtcall", strings.TrimPrefix(realRe[i], "some ")})
			idx3 = append(idx3, i)
		}
	}
	reps3 := c.Drv.AskBatch(reqs3)
	fmtOfRe := map[int]string{}
	for j, i := range idx3 {
		fmtOfRe[i] = unhx(reps3[j])
	}

	for i, k := range cases {
		text, wf, norm := texts[i], reps[3*i+1] == "wf=true", reps[3*i+2]
		mp, mpRe := reps2[2*i], reps2[2*i+1]
		in := map[string]interface{}{"call": encs[i], "text": text}
		isMap := false
		for _, b := range k.binds {
			isMap = isMap || b.split
		}
		r.hist(fmt.Sprintf("call:wf=%v,map=%v", wf, isMap))
		r.count("call:"+encs[i], len(k.binds) > 0)

		// (a) the real parser on the model's text
		rp := c09callDump(text)
		if rp != mp {
			mismatch("C09:call-parse-mismatch", "Ast.Call read from the printed call differs from the model's parseCall", brokenParse, in, rp, mp)
		}
		if wf {
			if mp != "some "+norm {
				mismatch("C09:call-roundtrip-model", "the model's parseCall (fmtCall c) is not normCall c for a well-formed call (theorem parse_format_call evaluated)", "Props.C09.parse_format_call", in, "", mp+" / expected some "+norm)
			}
			// (b) the real formatter on the model's text
			out, err, pan := c09Format([]byte(text), "call.mro")
			if pan != "" || err != nil || out != text {
				impl := out
				if pan != "" {
					impl = "panic: " + pan
				} else if err != nil {
					impl = "error: " + err.Error()
				}
				mismatch("C09:call-format-mismatch", "the real formatter does not reproduce the model's text of a well-formed call", brokenFmt, in, impl, text)
			}
		} else {
			r.hist("call:not-wf:real=" + strings.SplitN(rp, " ", 2)[0])
		}

		// respelling
		inRe := map[string]interface{}{"call": encs[i], "text": respelled[i]}
		if realRe[i] != mpRe {
			mismatch("C09:call-parse-mismatch", "Ast.Call read from a respelled call differs from the model's parseCall", brokenParse, inRe, realRe[i], mpRe)
		}
		if wf && realRe[i] != "some "+norm {
			mismatch("C09:call-parse-mismatch", "a respelling of a well-formed call does not read as its normal form", brokenParse, inRe, realRe[i], "some "+norm)
		}
		if want, ok := fmtOfRe[i]; ok {
			out, err, pan := c09Format([]byte(respelled[i]), "call.mro")
			if pan != "" || err != nil || out != want {
				impl := out
				if pan != "" {
					impl = "panic: " + pan
				} else if err != nil {
					impl = "error: " + err.Error()
				}
				mismatch("C09:call-format-mismatch", "the real formatter on a respelled call differs from the model's fmtCall of the call it read", brokenFmt, inRe, impl, want)
			}
			if wf && want != text {
				mismatch("C09:call-format-mismatch", "fmtCall of the respelled call differs from fmtCall of the call (format_call_idem evaluated)", "Props.C09.format_call_idem", inRe, want, text)
			}
		}
	}

	// near misses: accept/reject and the AST
	var reqs4 [][]string
	for _, t := range c09callNearMisses {
		reqs4 = append(reqs4, []string{"C09.parsecall", hx(t)})
	}
	reps4 := c.Drv.AskBatch(reqs4)
	for i, t := range c09callNearMisses {
		rp := c09callDump(t)
		r.hist("call:near-miss:real=" + strings.SplitN(rp, " ", 2)[0])
		r.count("callnm:"+t, true)
		if strings.HasPrefix(rp, "other:") {
			continue // outside the modelled slice
		}
		if rp != reps4[i] {
			mismatch("C09:call-parse-mismatch", "near-miss text: real parser and model's parseCall disagree", brokenParse,
				map[string]interface{}{"text": t}, rp, reps4[i])
		}
	}
}
