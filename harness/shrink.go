package main

import "strings"

// shrinkLines is ddmin over the lines of a source text: it removes contiguous
// blocks of lines (halving the block size) while pred keeps holding.  pred
// must itself reject texts that no longer compile.
func shrinkLines(src string, pred func(string) bool, budget int) string {
	lines := strings.Split(src, "\n")
	tries := 0
	for size := len(lines) / 2; size >= 1; {
		removed := false
		for start := 0; start+size <= len(lines) && tries < budget; {
			cand := append(append([]string{}, lines[:start]...), lines[start+size:]...)
			tries++
			if pred(strings.Join(cand, "\n")) {
				lines = cand
				removed = true
			} else {
				start += size
			}
		}
		if tries >= budget {
			break
		}
		if !removed || size > len(lines) {
			size /= 2
		} else if size > len(lines)/2 {
			size = len(lines) / 2
		}
	}
	return strings.Join(lines, "\n")
}
