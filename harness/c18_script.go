package main

// C18, job-script level: render real cluster job scripts (every template
// shipped in jobmanagers/) through RemoteJobManager.jobScript and EXECUTE them
// with real shells; a recorder program (this binary in `-record` mode) reports
// the working directory, argument vector and environment it was started with.
// The property: they are exactly the strings mrp was given.

import (
	"bytes"
	"encoding/json"
	"fmt"
	"os"
	"os/exec"
	"path/filepath"
	"runtime"
	"sort"
	"strconv"
	"strings"
	"sync"
	"syscall"
	"time"
	"unicode/utf8"

	"github.com/martian-lang/martian/martian/core"
)

type recordOut struct {
	Cwd  string            `json:"cwd"`
	Args []string          `json:"args"`
	Env  map[string]string `json:"env"`
}

// recordMain: `<binary> -record args…` writes what it sees to $VERIF_REC_OUT.
func recordMain(args []string) {
	cwd, _ := os.Getwd()
	out := recordOut{Cwd: cwd, Args: args, Env: map[string]string{}}
	for _, k := range strings.Split(os.Getenv("VERIF_REC_KEYS"), ",") {
		if k != "" {
			if v, ok := os.LookupEnv(k); ok {
				out.Env[k] = v
			}
		}
	}
	b, _ := json.Marshal(out)
	// atomically: a reader that sees the file sees all of it (the fake_remote template starts
	// the command in the background, the harness may look while it is being written)
	dst := os.Getenv("VERIF_REC_OUT")
	if os.WriteFile(dst+".tmp", b, 0o644) == nil {
		os.Rename(dst+".tmp", dst)
	}
}

var c18Tokens = []string{"__MRO_MEM_GB__", "__MRO_ACCOUNT__", "__MRO_THREADS__", "__MRO_CMD__", "__MRO_RESOURCES__",
	"__MRO_JOB_NAME__", "__MRO_MEM_MB__", "__MRO_VMEM_GB__", "__MRO_STDOUT__", "__MRO_MEM_GB_PER_THREAD__"}

// a path component: valid UTF-8, no NUL, no '/', not empty, not "." / ".."
func c18PathComponent(c *Ctx) string {
	for {
		s := c18GenValid(c)
		s = strings.ReplaceAll(s, "/", "_")
		s = strings.ReplaceAll(s, "\x00", "")
		if len(s) > 60 {
			s = s[:40]
		}
		if strings.Contains(s, "\n") && c.Rng.Intn(4) != 0 {
			s = strings.ReplaceAll(s, "\n", "n")
		}
		// now and then the component holds one of the names the runtime itself appends to paths
		// or looks for in them (a directory called like a metadata file, a fork, the files dir)
		if c.Rng.Intn(6) == 0 {
			mark := []string{"_stdout", "_stderr", "_stdout_stdout", "files", "_outs", "fork0", "chnk0", "_jobinfo", "_stdout.bak", "x_stderr"}[c.Rng.Intn(10)]
			cut := 0
			if len(s) > 0 {
				cut = c.Rng.Intn(len(s) + 1)
				for cut < len(s) && !utf8.RuneStart(s[cut]) {
					cut++
				}
			}
			s = s[:cut] + mark + s[cut:]
		}
		if !strings.HasPrefix(s, ".") && s != "" && strings.ToValidUTF8(s, "") == s {
			return s
		}
	}
}

func c18Arg(c *Ctx) string {
	if c.Rng.Intn(6) == 0 {
		return c18Tokens[c.Rng.Intn(len(c18Tokens))]
	}
	if c.Rng.Intn(8) == 0 {
		return "x" + c18Tokens[c.Rng.Intn(len(c18Tokens))] + "y"
	}
	if c.Rng.Intn(10) == 0 {
		return c18GenLong(c)
	}
	if c.Rng.Intn(10) == 0 {
		return c18GenLines(c)
	}
	return c18GenValid(c)
}

// c18TemplateWords: the distinct words of the shipped templates' command lines (here-document
// delimiters without their quotes and `<<`, operators, command names): a value LINE equal to
// one of them must still be data.
var c18TemplateWords []string

func c18LoadTemplateWords(repo string) {
	if c18TemplateWords != nil {
		return
	}
	seen := map[string]bool{}
	add := func(w string) {
		w = strings.Trim(strings.TrimLeft(w, "<-"), "'\"")
		if w != "" && !seen[w] && !strings.Contains(w, "__MRO_") && len(c18TemplateWords) < 60 {
			seen[w] = true
			c18TemplateWords = append(c18TemplateWords, w)
		}
	}
	for _, w := range []string{"EOF", "EOT", "END", "done", "fi", "}", "esac", ".", "'", "\"", "exit"} {
		add(w)
	}
	files, _ := filepath.Glob(filepath.Join(repo, "jobmanagers", "*.template*"))
	sort.Strings(files)
	for _, f := range files {
		b, _ := os.ReadFile(f)
		for _, l := range strings.Split(string(b), "\n") {
			if strings.HasPrefix(strings.TrimSpace(l), "#") {
				continue
			}
			for _, w := range strings.Fields(l) {
				add(w)
			}
		}
	}
}

// c18GenLines: a value of several lines, one of which is exactly a word of the templates (or a
// common here-document / block terminator); the line after it would be a command if the value
// were ever read line by line
func c18GenLines(c *Ctx) string {
	w := "EOF"
	if len(c18TemplateWords) > 0 {
		w = c18TemplateWords[c.Rng.Intn(len(c18TemplateWords))]
	}
	pre := strings.ReplaceAll(c18GenValid(c), "\x00", "")
	post := []string{"echo C18-LINE-INJECTED", "echo C18-LINE-INJECTED #", "x", "\"", ""}[c.Rng.Intn(5)]
	switch c.Rng.Intn(3) {
	case 0:
		return pre + "\n" + w + "\n" + post
	case 1:
		return w + "\n" + post + "\n" + pre
	default:
		return pre + "\n" + w + "\n" + post + "\n" + w + "\n"
	}
}

// directiveHasPath: the template puts the stdout/stderr path on a `#` line.
func directiveHasPath(t string) bool {
	for _, l := range strings.Split(t, "\n") {
		if strings.HasPrefix(strings.TrimSpace(l), "#") && (strings.Contains(l, "__MRO_STDOUT__") || strings.Contains(l, "__MRO_STDERR__")) {
			return true
		}
	}
	return false
}

func runC18Scripts(c *Ctx) {
	r := c.Res
	c18LoadTemplateWords(c.RepoDir)
	tdir := filepath.Join(c.RepoDir, "jobmanagers")
	files, _ := filepath.Glob(filepath.Join(tdir, "*.template*"))
	sort.Strings(files)
	type tmpl struct{ name, text string }
	var templates []tmpl
	for _, f := range files {
		if b, err := os.ReadFile(f); err == nil && strings.Contains(string(b), "__MRO_CMD__") {
			templates = append(templates, tmpl{filepath.Base(f), string(b)})
		}
	}
	if len(templates) == 0 {
		r.note("no job templates with __MRO_CMD__ found under %s", tdir)
		return
	}
	self, _ := os.Executable()
	n := 60
	if c.Thorough {
		n = 1500
	}
	shells := [][]string{{"/bin/sh"}}
	if p, err := exec.LookPath("bash"); err == nil {
		shells = append(shells, []string{p})
	}
	for i := 0; i < n; i++ {
		t := templates[i%len(templates)]
		root := filepath.Join(c.Scratch, fmt.Sprintf("js%d", i))
		metaComp := c18PathComponent(c)
		// pipestance directories whose name holds a newline: often for templates that keep the
		// path off the `#` lines (there it must be harmless), now and then for the others (F31)
		if nl := c.Rng.Intn(8); nl == 0 || (nl < 4 && !directiveHasPath(t.text)) {
			metaComp = strings.ReplaceAll(c18PathComponent(c), "\n", "") + "\n" + strings.ReplaceAll(c18PathComponent(c), "\n", "")
		}
		work := filepath.Join(root, metaComp, "files")
		meta := filepath.Dir(work)
		if err := os.MkdirAll(work, 0o755); err != nil {
			continue // e.g. name too long for the file system
		}
		// the program path itself contains metacharacters
		progComp := c18PathComponent(c)
		if strings.Contains(t.text, "/usr/bin/env __MRO_CMD__") {
			// env(1) itself reads a leading word containing '=' as an assignment: not the shell's doing
			progComp = strings.ReplaceAll(progComp, "=", "_")
		}
		progDir := filepath.Join(root, progComp)
		if os.MkdirAll(progDir, 0o755) != nil {
			continue
		}
		prog := filepath.Join(progDir, "rec")
		if os.Symlink(self, prog) != nil {
			continue
		}
		argv := []string{"-record"}
		for j, na := 0, c.Rng.Intn(4); j < na; j++ {
			argv = append(argv, c18Arg(c))
		}
		envs := map[string]string{}
		var keys []string
		for j, ne := 0, c.Rng.Intn(3); j < ne; j++ {
			k := fmt.Sprintf("VREC_%c%d", 'A'+c.Rng.Intn(26), j)
			envs[k] = c18Arg(c)
			keys = append(keys, k)
		}
		jm := core.VerifNewRemoteJobManager(t.text, []string{"MRO_THREADS_X"})
		script := jm.VerifJobScript(prog, argv, envs, meta, work, "ID.ps.TOP.ST.fork0", "main", 2, 3)
		nontriv := c18Nontrivial(strings.Join(argv, "")+work+prog) || strings.Contains(strings.Join(argv, ""), "__MRO_")
		r.count("script:"+t.name+"|"+script, nontriv)
		r.hist("jobscript_" + t.name)
		spath := filepath.Join(root, "job.sh")
		os.WriteFile(spath, []byte(script), 0o755)
		// a newline in the path of a template that carries it on a `#` line: whatever goes wrong
		// then (command not run, run with other arguments / environment, stray output) is the
		// known finding F31, not a new one
		f31 := strings.Contains(meta, "\n") && directiveHasPath(t.text)
		viol := func(v Violation) {
			if f31 {
				v.Impl = map[string]interface{}{"observed_as": v.Key, "detail": v.Impl}
				v.Key = "C18:jobscript:newline-in-directive-path"
				v.What = "a newline in the pipestance path ends the scheduler-directive comment line that carries the stdout/stderr path; the shell executes the rest of the path as code"
			}
			r.violate(v)
		}
		for _, sh := range shells {
			outp := filepath.Join(root, "rec.json")
			os.Remove(outp)
			cmd := exec.Command(sh[0], spath)
			cmd.Dir = root
			cmd.Env = []string{"PATH=/nonexistent", "HOME=/nonexistent", "VERIF_REC_OUT=" + outp,
				"VERIF_REC_KEYS=" + strings.Join(keys, ",")}
			var outBuf, errBuf bytes.Buffer
			cmd.Stdout, cmd.Stderr = &outBuf, &errBuf
			runErr := cmd.Run()
			stdout := outBuf.Bytes()
			var got recordOut
			b, err := os.ReadFile(outp)
			if err != nil && strings.Contains(t.text, "&") {
				// templates that start the command in the background and print its pid: wait for
				// that process to end (however loaded the machine is), then for the file
				pid := 0
				if f := strings.Fields(string(stdout)); len(f) > 0 {
					pid, _ = strconv.Atoi(f[len(f)-1])
				}
				for w := 0; w < 1200; w++ {
					if b, err = os.ReadFile(outp); err == nil && len(b) > 0 {
						break
					}
					if pid > 0 && w > 40 && syscall.Kill(pid, 0) != nil {
						// the process is gone: one last look
						b, err = os.ReadFile(outp)
						break
					}
					if pid == 0 && w > 100 {
						break
					}
					time.Sleep(50 * time.Millisecond)
				}
			}
			if err == nil {
				err = json.Unmarshal(b, &got)
			}
			input := map[string]interface{}{"template": t.name, "shell": sh[0], "program": prog, "argv": argv, "envs": envs,
				"workdir": work, "script": script}
			if err != nil && strings.Contains(meta, "\n") && directiveHasPath(t.text) {
				viol(Violation{Kind: "property", Key: "C18:jobscript:newline-in-directive-path",
					What:  "a newline in the pipestance path ends the scheduler-directive comment line that carries the stdout/stderr path; the shell executes the rest of the path as code",
					Input: input})
				continue
			}
			if err != nil {
				viol(Violation{Kind: "property", Key: "C18:jobscript:command-not-run:" + t.name,
					What:  "executing the rendered job script did not run the command (the recorder was never started)",
					Input: input})
				continue
			}
			wantCwd, _ := filepath.EvalSymlinks(work)
			gotCwd, _ := filepath.EvalSymlinks(got.Cwd)
			if gotCwd != wantCwd && strings.Contains(t.text, "__MRO_JOB_WORKDIR__") {
				viol(Violation{Kind: "property", Key: "C18:jobscript:workdir",
					What: "the job did not run in the job's files directory", Input: input, Impl: got.Cwd, Expect: work})
			}
			if !equalStrs(got.Args, argv) {
				viol(Violation{Kind: "property", Key: "C18:jobscript:argv",
					What:  "the shell did not reproduce the argument vector from the job script",
					Input: input, Impl: fmt.Sprintf("%q", got.Args), Expect: fmt.Sprintf("%q", argv)})
			}
			for k, v := range envs {
				if got.Env[k] != v {
					viol(Violation{Kind: "property", Key: "C18:jobscript:env",
						What:  "the shell did not reproduce an environment value from the job script",
						Input: input, Impl: fmt.Sprintf("%q", got.Env[k]), Expect: fmt.Sprintf("%q", v)})
				}
			}
			// ... and nothing else happened: exit status 0, nothing on stderr, on stdout only the
			// pid the fake_remote template prints, no file or directory that the job did not ask for
			var stray []string
			background := strings.Contains(t.text, "& echo $!")
			if runErr != nil {
				stray = append(stray, "exit status: "+runErr.Error())
			}
			if errBuf.Len() > 0 {
				stray = append(stray, "stderr: "+errBuf.String())
			}
			so := strings.TrimSpace(string(stdout))
			if background {
				if _, err := strconv.Atoi(so); err != nil {
					stray = append(stray, "stdout is not one pid: "+string(stdout))
				}
			} else if so != "" {
				stray = append(stray, "stdout: "+string(stdout))
			}
			rel := func(p string) string { // first path component below root
				p = strings.TrimPrefix(p, root+"/")
				if i := strings.IndexByte(p, '/'); i >= 0 {
					p = p[:i]
				}
				return p
			}
			allowed := map[string]bool{"job.sh": true, "rec.json": true, rel(work): true, rel(prog): true}
			if ents, err := os.ReadDir(root); err == nil {
				for _, e := range ents {
					if !allowed[e.Name()] {
						stray = append(stray, "unexpected entry in the job's root directory: "+fmt.Sprintf("%q", e.Name()))
					}
				}
			}
			if ents, err := os.ReadDir(meta); err == nil {
				for _, e := range ents {
					n := e.Name()
					if n == "files" || (background && (n == "_stdout" || n == "_stderr")) {
						if n != "files" {
							if b, _ := os.ReadFile(filepath.Join(meta, n)); len(b) > 0 {
								stray = append(stray, "the job wrote to "+n+": "+string(b))
							}
						}
						continue
					}
					stray = append(stray, "unexpected entry in the metadata directory: "+fmt.Sprintf("%q", n))
				}
			}
			if len(stray) > 0 {
				key, what := "C18:jobscript:side-effects:"+t.name, "executing the rendered job script did more than run the command with its arguments and environment"
				if strings.Contains(meta, "\n") && directiveHasPath(t.text) {
					key = "C18:jobscript:newline-in-directive-path"
					what = "a newline in the pipestance path ends the scheduler-directive comment line that carries the stdout/stderr path; the shell executes the rest of the path as code"
				}
				viol(Violation{Kind: "property", Key: key, What: what, Input: input, Impl: stray,
					Expect: "exit status 0, empty stderr, no output but the pid of a background job, no stray files"})
			}
		}
		if len(r.Samples) < 10 && i < 2 {
			r.sample(map[string]interface{}{"template": t.name, "script": script})
		}
		os.RemoveAll(root)
	}
}

// runC18Concurrent runs LAST: the number of rounds depends on timing, so the random choices
// it consumes must not shift those of the other streams.
func runC18Concurrent(c *Ctx) {
	r := c.Res
	files, _ := filepath.Glob(filepath.Join(c.RepoDir, "jobmanagers", "*.template*"))
	sort.Strings(files)
	type tmpl struct{ name, text string }
	var templates []tmpl
	for _, f := range files {
		if b, err := os.ReadFile(f); err == nil && strings.Contains(string(b), "__MRO_CMD__") {
			templates = append(templates, tmpl{filepath.Base(f), string(b)})
		}
	}
	if len(templates) == 0 {
		return
	}
	// rendering must be a pure function of its inputs, also when jobs are rendered concurrently
	// by one job manager (sendJob renders before it takes the submission lock; with maxjobs > 0
	// there is one goroutine per job): G goroutines start together behind a barrier and each
	// renders several DIFFERENT jobs with long argument lists (a render then takes long enough
	// to overlap with the others'); every result is compared with the same job rendered alone.
	// Rounds are repeated until enough pairs of renders were observed to overlap in time.
	const G, perG = 16, 6
	wantOverlaps, maxRounds := 3000, 150
	if c.Thorough {
		wantOverlaps, maxRounds = 60000, 3000
	}
	jm := core.VerifNewRemoteJobManager(templates[0].text, []string{"MRO_THREADS_X"})
	type job struct {
		prog string
		argv []string
		envs map[string]string
		dir  string
		want string
	}
	type span struct{ a, b time.Time }
	overlaps, rounds := 0, 0
	for ; rounds < maxRounds && overlaps < wantOverlaps; rounds++ {
		jobs := make([]job, G*perG)
		for j := range jobs {
			jobs[j] = job{prog: "/p/" + c18PathComponent(c), argv: []string{c18Arg(c), c18GenLong(c), c18Arg(c), c18GenLong(c)},
				envs: map[string]string{"K": c18Arg(c), "L": c18GenLong(c)}, dir: "/w/" + c18PathComponent(c)}
			jobs[j].want = core.VerifNewRemoteJobManager(templates[0].text, []string{"MRO_THREADS_X"}).VerifJobScript(
				jobs[j].prog, jobs[j].argv, jobs[j].envs, jobs[j].dir, jobs[j].dir+"/files", "ID.ps.T.S.fork0", "main", 1, 1)
		}
		got := make([]string, len(jobs))
		spans := make([]span, len(jobs))
		var wg sync.WaitGroup
		start := make(chan struct{})
		for g := 0; g < G; g++ {
			wg.Add(1)
			go func(g int) {
				defer wg.Done()
				<-start
				for k := 0; k < perG; k++ {
					j := g*perG + k
					t0 := time.Now()
					got[j] = jm.VerifJobScript(jobs[j].prog, jobs[j].argv, jobs[j].envs, jobs[j].dir, jobs[j].dir+"/files",
						"ID.ps.T.S.fork0", "main", 1, 1)
					spans[j] = span{t0, time.Now()}
				}
			}(g)
		}
		close(start)
		wg.Wait()
		r.hist("jobscript_concurrent_rounds")
		for x := range spans {
			for y := x + 1; y < len(spans); y++ {
				if x/perG != y/perG && spans[x].a.Before(spans[y].b) && spans[y].a.Before(spans[x].b) {
					overlaps++
				}
			}
		}
		for j := range jobs {
			if got[j] != jobs[j].want {
				r.violate(Violation{Kind: "property", Key: "C18:jobscript:concurrent-render",
					What:  "a job script rendered while other jobs were being rendered differs from the same script rendered alone (another job's strings leaked in)",
					Input: map[string]interface{}{"argv": jobs[j].argv, "envs": jobs[j].envs, "dir": jobs[j].dir},
					Impl:  got[j], Expect: jobs[j].want})
				return
			}
		}
	}
	if r.Histogram == nil {
		r.Histogram = map[string]int{}
	}
	r.Histogram["jobscript_concurrent_overlapping_render_pairs"] += overlaps
	if overlaps < wantOverlaps {
		r.note("concurrent rendering: only %d overlapping pairs of renders observed in %d rounds (wanted %d; GOMAXPROCS=%d)", overlaps, rounds, wantOverlaps, runtime.GOMAXPROCS(0))
	}
}
