package main

// Tier-B (real mrp + mrjob + stage processes) parts of C05, C06, C12, C02.

import (
	"fmt"
	"path/filepath"
	"sort"
	"strings"
	"sync"
	"time"
)

const tbResourceProgram = `
stage WORK(
    in  int x,
    out int y,
    src comp "fake",
) using (
    threads = 2,
    mem_gb  = 2,
)

stage LIGHT(
    in  int x,
    out int y,
    src comp "fake",
)

stage BIG(
    in  int[] xs,
    out int   total,
    src comp  "fake",
) split (
    in  int i,
    out int part,
) using (
    threads = 3,
    mem_gb  = 1,
)

pipeline TOP(
    in  int[] xs,
    out int[] ys,
    out int[] zs,
    out int   total,
)
{
    map call WORK(
        x = split self.xs,
    )

    map call LIGHT(
        x = split self.xs,
    )

    call BIG(
        xs = WORK.y,
    )

    return (
        ys    = WORK.y,
        zs    = LIGHT.y,
        total = BIG.total,
    )
}

call TOP(
    xs = [1, 2, 3, 4, 5, 6, 7, 8],
)
`

func tbPrograms(c *Ctx, n int) []*rtProgram {
	var out []*rtProgram
	if p, err := compileProgram("tb:resources", tbResourceProgram, nil); err == nil {
		out = append(out, p)
	}
	for i := 0; len(out) < n && i < 20*n; i++ {
		src, _ := GenProgram(c.Rng, GenOpts{MaxCalls: 3, MaxDepth: 1})
		p, err := compileProgram(fmt.Sprintf("tbgen%d", i), src, nil)
		if err != nil {
			continue
		}
		// keep programs the in-process runtime completes (known runtime findings are judged elsewhere)
		rs := RunSpecs([]*TASpec{{Name: p.Name, Src: p.Src, Seed: 1, StepBias: 0.4, TimeoutS: 20}}, 1)
		if rs[0].Final != "complete" {
			continue
		}
		out = append(out, p)
	}
	return out
}

func tbParallel(env *TBEnv, c *Ctx, specs []*TBSpec, par int) []*TBResult {
	res := make([]*TBResult, len(specs))
	var wg sync.WaitGroup
	sem := make(chan struct{}, par)
	for i := range specs {
		wg.Add(1)
		go func(i int) {
			defer wg.Done()
			sem <- struct{}{}
			defer func() { <-sem }()
			res[i] = env.Run(specs[i], nil)
		}(i)
	}
	wg.Wait()
	// a run that hit its wall-clock deadline is repeated ALONE, with three times the deadline, before
	// anybody judges it (on a loaded machine a healthy mrp can simply be slow)
	for i := range specs {
		if res[i] != nil && res[i].Final == "timeout" {
			c.Res.hist("tierB_rerun_alone_timeout")
			s := *specs[i]
			if s.Timeout == 0 {
				s.Timeout = 90 * time.Second
			}
			s.Timeout *= 3
			res[i] = env.Run(&s, nil)
		}
	}
	return res
}

// overlapViolations: at every instant the summed reservations of running jobs must fit.
func overlapViolations(ivs []tbInterval, cores, memGB float64) []string {
	type ev struct {
		t  int64
		d  int
		iv *tbInterval
	}
	var evs []ev
	for i := range ivs {
		if ivs[i].End == 0 {
			continue
		}
		evs = append(evs, ev{ivs[i].Start, +1, &ivs[i]}, ev{ivs[i].End, -1, &ivs[i]})
	}
	sort.Slice(evs, func(i, j int) bool {
		if evs[i].t != evs[j].t {
			return evs[i].t < evs[j].t
		}
		return evs[i].d < evs[j].d
	})
	var bad []string
	thr, mem := 0.0, 0.0
	running := map[string]bool{}
	for _, e := range evs {
		thr += float64(e.d) * e.iv.Threads
		mem += float64(e.d) * e.iv.MemGB
		if e.d > 0 {
			running[e.iv.Job] = true
		} else {
			delete(running, e.iv.Job)
		}
		if thr > cores+1e-9 || mem > memGB+1e-9 {
			var js []string
			for j := range running {
				js = append(js, j)
			}
			sort.Strings(js)
			bad = append(bad, fmt.Sprintf("threads=%g/%g mem=%g/%g with %v running", thr, cores, mem, memGB, js))
		}
	}
	return bad
}

// tbC12: resource limits respected by the real local job manager.
func tbC12(c *Ctx, env *TBEnv, nruns int) {
	r := c.Res
	p, err := compileProgram("tb:resources", tbResourceProgram, nil)
	if err != nil {
		r.note("tier B resource program does not compile: %v", err)
		return
	}
	var specs []*TBSpec
	limits := [][2]int{{4, 4}, {3, 8}, {8, 3}, {2, 2}}
	for i := 0; i < nruns; i++ {
		l := limits[i%len(limits)]
		s := &TBSpec{Name: fmt.Sprintf("res%d", i), Src: p.Src, Cores: l[0], MemGB: l[1], Strict: "error"}
		s.Control.SleepMs = [2]int{30, 150}
		specs = append(specs, s)
	}
	for i, res := range tbParallel(env, c, specs, 4) {
		r.hist("tierB_final_" + res.Final)
		ivs := tbIntervals(res.Log)
		r.count(fmt.Sprintf("tb-res-%d-%d", specs[i].Cores, specs[i].MemGB), len(ivs) > 4)
		if res.Final != "complete" {
			r.violate(Violation{Kind: "property", Key: "C12:tierB-not-complete",
				What:  "a pipestance whose jobs each fit (after clamping) the local limits did not finish: " + res.Final,
				Input: map[string]interface{}{"cores": specs[i].Cores, "mem": specs[i].MemGB, "output": res.Incs[len(res.Incs)-1].Output}})
			continue
		}
		// requests above a limit are clamped to it: the recorded reservation must not exceed the limit
		for _, iv := range ivs {
			if iv.Threads > float64(specs[i].Cores)+1e-9 || iv.MemGB > float64(specs[i].MemGB)+1e-9 {
				r.violate(Violation{Kind: "property", Key: "C12:tierB-not-clamped",
					What:  fmt.Sprintf("job %s ran with reservation threads=%g mem=%g above the limits %d/%d", iv.Job, iv.Threads, iv.MemGB, specs[i].Cores, specs[i].MemGB),
					Input: map[string]interface{}{"cores": specs[i].Cores, "mem": specs[i].MemGB}})
			}
		}
		if bad := overlapViolations(ivs, float64(specs[i].Cores), float64(specs[i].MemGB)); len(bad) > 0 {
			r.violate(Violation{Kind: "property", Key: "C12:tierB-overcommit",
				What:  "concurrently running local jobs exceeded the configured limits: " + bad[0],
				Input: map[string]interface{}{"cores": specs[i].Cores, "mem": specs[i].MemGB, "all": bad, "program": p.Src}})
		}
		if len(r.Samples) < 6 {
			r.sample(map[string]interface{}{"tierB": specs[i].Name, "limits": limits[i%len(limits)], "jobs": len(ivs)})
		}
	}
}

// tbC05: real signals.
func tbC05(c *Ctx, env *TBEnv, nprogs int) {
	r := c.Res
	progs := tbPrograms(c, nprogs)
	var specs []*TBSpec
	var refIx []int
	for _, p := range progs {
		base := TBSpec{Src: p.Src, Cores: 4, MemGB: 4, Strict: "error"}
		base.Control.SleepMs = [2]int{40, 200}
		ref := base
		ref.Name = p.Name + "#ref"
		refIx = append(refIx, len(specs))
		specs = append(specs, &ref)
		for _, sig := range [][]TBSignal{
			{{AfterMs: 150 + c.Rng.Intn(900), Sig: "INT"}},
			{{AfterMs: 150 + c.Rng.Intn(900), Sig: "TERM"}},
			{{AfterMs: 150 + c.Rng.Intn(900), Sig: "KILL"}},
			{{AfterMs: 150 + c.Rng.Intn(500), Sig: "KILL"}, {AfterMs: 150 + c.Rng.Intn(500), Sig: "INT"}},
			// at the instant a job's completion has been recorded (its process may not have been reaped yet)
			{{OnComplete: 1 + c.Rng.Intn(3), Sig: "KILL"}},
			{{OnComplete: 1 + c.Rng.Intn(2), Sig: "TERM"}},
			// a handled signal delivered to the whole process group at the instant a completion is recorded:
			// the job monitor is inside its own completion handling
			{{OnComplete: 1, Sig: "TERM", Group: true}},
			{{OnComplete: 2, Sig: "INT", Group: true}},
			{{OnComplete: 3, Sig: "TERM", Group: true}},
			// mrp frozen while jobs complete, then killed
			{{AfterMs: 100 + c.Rng.Intn(400), Sig: "STOPKILL"}},
			{{AfterMs: 300 + c.Rng.Intn(900), Sig: "STOPKILL"}},
		} {
			s := base
			s.Name = fmt.Sprintf("%s#%v", p.Name, sig)
			s.Signals = sig
			specs = append(specs, &s)
		}
		// --zip: killed while the finished pipestance's metadata is being archived and removed
		for _, sig := range [][]TBSignal{
			{{OnFile: "_metadata.zip.tmp", Sig: "KILL"}},
			{{OnFile: "_metadata.zip", Sig: "KILL"}},
			{{OnFile: "_metadata.zip", Sig: "TERM"}},
		} {
			s := base
			s.Zip = true
			s.Name = fmt.Sprintf("%s#zip%v", p.Name, sig)
			s.Signals = sig
			specs = append(specs, &s)
		}
	}
	results := tbParallel(env, c, specs, 4)
	for k, ri := range refIx {
		ref := results[ri]
		r.hist("tierB_ref_" + ref.Final)
		if ref.Final != "complete" {
			continue
		}
		end := len(specs)
		if k+1 < len(refIx) {
			end = refIx[k+1]
		}
		for i := ri + 1; i < end; i++ {
			res := results[i]
			r.hist("tierB_final_" + res.Final)
			interrupted := false
			for _, inc := range res.Incs[:len(res.Incs)-1] {
				if inc.ExitCode != 0 || inc.Signal != "" {
					interrupted = true
				}
			}
			r.count(specs[i].Name, interrupted)
			input := map[string]interface{}{"program": specs[i].Src, "signals": specs[i].Signals}
			for j, inc := range res.Incs {
				if (inc.Signal == "INT" || inc.Signal == "TERM") && inc.LockLeft {
					r.violate(Violation{Kind: "property", Key: "C05:tierB-lock-left-after-" + inc.Signal,
						What:  fmt.Sprintf("mrp incarnation %d was terminated by SIG%s (a handled signal) but left the pipestance locked", j, inc.Signal),
						Input: input, Impl: inc.Output})
				}
			}
			if res.Final != "complete" && strings.Contains(res.Incs[len(res.Incs)-1].Output, "is not a pipestance directory") {
				// mrp was killed while it was still creating the pipestance directory (before _invocation existed)
				r.violate(Violation{Kind: "property", Key: "C05:tierB-killed-during-pipestance-creation",
					What:  "mrp was killed while creating the pipestance directory; the restarted mrp refuses the half-created directory ('is not a pipestance directory') and cannot create it anew either",
					Input: input, Impl: res.Incs[len(res.Incs)-1].Output})
				continue
			}
			if res.Final != "complete" {
				class := res.Final
				r.violate(Violation{Kind: "property", Key: "C05:tierB-not-completed:" + class,
					What:  "after interruption and restart the real mrp did not complete the pipestance",
					Input: input, Impl: res.Incs[len(res.Incs)-1].Output + "\n--- unfinished job objects ---\n" + res.Stuck})
				continue
			}
			if !jsonEqual(res.TopOuts, ref.TopOuts) {
				r.violate(Violation{Kind: "property", Key: "C05:tierB-outputs-differ",
					What: "final outputs after interruption differ from the uninterrupted run", Input: input,
					Impl: string(res.TopOuts), Expect: string(ref.TopOuts)})
			}
			// a job whose completion was on disk when mrp was interrupted must not be executed again:
			// its directory must still be the (only) attempt of that job in the final tree
			for j, inc := range res.Incs {
				for _, d := range inc.CompleteAtSignal {
					r.hist("tierB_jobs_complete_at_signal")
					if _, ok := res.Tree[filepath.Join(d, "_complete")]; !ok {
						r.violate(Violation{Kind: "property", Key: "C05:tierB-completed-job-reset",
							What:  fmt.Sprintf("job %s had recorded its completion when mrp incarnation %d was sent SIG%s, but its completion marker is gone after the restart (the job was reset)", d, j, inc.Signal),
							Input: input})
						continue
					}
					base := filepath.Base(d)
					stem := base
					if k := strings.Index(base, "-u"); k >= 0 {
						stem = base[:k]
					}
					for p, te := range res.Tree {
						if te.Kind == "dir" && filepath.Dir(p) == filepath.Dir(d) && p != d {
							b := filepath.Base(p)
							if b == stem || strings.HasPrefix(b, stem+"-u") {
								r.violate(Violation{Kind: "property", Key: "C05:tierB-completed-job-rerun",
									What:  fmt.Sprintf("job %s had recorded its completion when mrp incarnation %d was sent SIG%s, but the restarted mrp executed it again (%s)", d, j, inc.Signal, p),
									Input: input})
							}
						}
					}
				}
			}
			// a job that ended ok well before an interruption must not run again
			ivs := tbIntervals(res.Log)
			count := map[string]int{}
			for _, iv := range ivs {
				if iv.Outcome == "ok" {
					count[iv.Job]++
				}
			}
			for j, n := range count {
				if n > 1 {
					r.hist("tierB_job_completed_twice")
					_ = j
				}
			}
		}
	}
}

// tbC06: real exit codes, signals and error pipes through mrjob and the local job manager.
func tbC06(c *Ctx, env *TBEnv, nprogs int) {
	r := c.Res
	progs := tbPrograms(c, nprogs)
	var specs []*TBSpec
	type meta struct {
		prog *rtProgram
		job  string
		kind string
		ref  int
	}
	var metas []meta
	for _, p := range progs {
		base := TBSpec{Src: p.Src, Cores: 4, MemGB: 4, Strict: "error"}
		base.Control.SleepMs = [2]int{10, 60}
		ref := base
		ref.Name = p.Name + "#ref"
		refI := len(specs)
		specs = append(specs, &ref)
		metas = append(metas, meta{prog: p, ref: -1})
		// the job list comes from an in-process run
		rs := RunSpecs([]*TASpec{{Name: p.Name, Src: p.Src, Seed: 1, StepBias: 0.4, TimeoutS: 20}}, 1)
		var jobs []string
		for k := range rs[0].Launches {
			jobs = append(jobs, strings.TrimPrefix(k, "ID.ps."))
		}
		sort.Strings(jobs)
		if len(jobs) == 0 {
			continue
		}
		for _, kind := range []string{"exit", "signal", "errors", "assert", []string{"segv", "abrt", "bus"}[c.Rng.Intn(3)]} {
			j := jobs[c.Rng.Intn(len(jobs))]
			s := base
			s.Name = fmt.Sprintf("%s#%s:%s", p.Name, j, kind)
			s.Control.Faults = map[string]tbFault{j: {Kind: kind, Once: true}}
			// first incarnation fails; the second (fault gone) must complete
			s.Signals = []TBSignal{{AfterMs: 60000, Sig: "INT"}}
			specs = append(specs, &s)
			metas = append(metas, meta{prog: p, job: j, kind: kind, ref: refI})
		}
		// bounded auto retry: a job that dies EVERY time with a transient-classified failure (killed by
		// SIGKILL: "signal: killed" matches retry_on) under --autoretry=N runs at most 1+N times, then mrp
		// exits non-zero naming the stage
		for _, n := range []int{1, 2} {
			// every job is affected, so that whichever job runs first is hit (which jobs run depends on
			// run-time flags); the job judged is the one executed most often
			j := "*"
			s := base
			s.Name = fmt.Sprintf("%s#always-killed:autoretry=%d", p.Name, n)
			s.Control.Faults = map[string]tbFault{}
			for _, jj := range jobs {
				s.Control.Faults[jj] = tbFault{Kind: "signal", Once: false}
			}
			s.Retries = n
			s.Timeout = 30 * time.Second
			specs = append(specs, &s)
			metas = append(metas, meta{prog: p, job: j, kind: fmt.Sprintf("retry%d", n), ref: refI})
		}
	}
	pyFirst := len(specs)
	for _, mode := range tbPyModes {
		s := TBSpec{Name: "py:" + mode, Src: strings.ReplaceAll(tbPySrc, "__MODE__", mode), Cores: 4, MemGB: 4, Strict: "error",
			Files: map[string]string{"stages/check/__init__.py": tbPyStage}, Timeout: 60 * time.Second}
		specs = append(specs, &s)
	}
	results := tbParallel(env, c, specs, 4)
	tbJudgePy(c, specs[pyFirst:], results[pyFirst:])
	for i, m := range metas {
		if m.ref >= 0 && strings.HasPrefix(m.kind, "retry") {
			ref, res := results[m.ref], results[i]
			if ref.Final != "complete" {
				continue
			}
			n := specs[i].Retries
			runs := 0
			perJob := map[string]int{}
			for _, l := range res.Log {
				if l.Ev == "end" && l.Outcome == "sigkill" {
					perJob[l.Job]++
					if perJob[l.Job] > runs {
						runs = perJob[l.Job]
						m.job = l.Job
					}
				}
			}
			r.count(specs[i].Name, runs > 1)
			r.hist("tierB_autoretry_runs")
			if runs == 0 {
				r.hist("tierB_fault_not_reached")
				continue
			}
			input := map[string]interface{}{"program": m.prog.Src, "fault_job": m.job, "fault": "killed by SIGKILL at every execution", "autoretry": n, "executions": runs}
			last := res.Incs[len(res.Incs)-1]
			stage := m.job
			if k := strings.Index(stage, ".fork"); k >= 0 {
				stage = stage[:k]
			}
			stage = stage[strings.LastIndex(stage, ".")+1:]
			switch {
			case runs > 1+n:
				r.violate(Violation{Kind: "property", Key: "C06:tierB-autoretry-unbounded",
					What:  fmt.Sprintf("with --autoretry=%d job %s, which fails the same transient way every time, was executed %d times (bound: %d)", n, m.job, runs, 1+n),
					Input: input, Impl: last.Output})
			case last.TimedOut || last.ExitCode == 0:
				r.violate(Violation{Kind: "property", Key: "C06:tierB-autoretry-no-failure",
					What:  fmt.Sprintf("with --autoretry=%d and a job that always fails, mrp did not end with a non-zero exit status (timed out: %v, exit %d)", n, last.TimedOut, last.ExitCode),
					Input: input, Impl: last.Output})
			case !strings.Contains(last.Output, stage):
				r.violate(Violation{Kind: "property", Key: "C06:tierB-error-does-not-name-stage:autoretry",
					What:  fmt.Sprintf("mrp's failure report after exhausting the retries does not name the failing stage %s", stage),
					Input: input, Impl: last.Output})
			}
			continue
		}
		if m.ref < 0 {
			r.hist("tierB_ref_" + results[i].Final)
			continue
		}
		ref, res := results[m.ref], results[i]
		if ref.Final != "complete" {
			continue
		}
		r.count(specs[i].Name, true)
		r.hist("tierB_fault_" + m.kind)
		input := map[string]interface{}{"program": m.prog.Src, "fault_job": m.job, "fault_kind": m.kind}
		first := res.Incs[0]
		fired := false
		for _, l := range res.Log {
			if l.Job == m.job && l.Ev == "end" && l.Outcome != "ok" {
				fired = true
			}
		}
		if !fired {
			r.hist("tierB_fault_not_reached")
			continue
		}
		if first.ExitCode == 0 {
			r.violate(Violation{Kind: "property", Key: "C06:tierB-exit-zero:" + m.kind,
				What:  fmt.Sprintf("job %s failed (%s) but mrp exited with status 0", m.job, m.kind),
				Input: input, Impl: first.Output})
			continue
		}
		stage := m.job
		if k := strings.Index(stage, ".fork"); k >= 0 {
			stage = stage[:k]
		}
		stage = stage[strings.LastIndex(stage, ".")+1:]
		if !strings.Contains(first.Output, stage) {
			r.violate(Violation{Kind: "property", Key: "C06:tierB-error-does-not-name-stage:" + m.kind,
				What:  fmt.Sprintf("mrp's failure report does not name the failing stage %s", stage),
				Input: input, Impl: first.Output})
		}
		if first.LockLeft {
			r.violate(Violation{Kind: "property", Key: "C06:tierB-lock-left-after-failure",
				What: "mrp exited after a failure but left the pipestance locked", Input: input})
		}
		if res.Final != "complete" {
			r.violate(Violation{Kind: "property", Key: "C06:tierB-restart-not-complete:" + m.kind,
				What:  "after the fault was removed, restarting mrp did not complete the pipestance",
				Input: input, Impl: res.Incs[len(res.Incs)-1].Output})
		} else if !jsonEqual(res.TopOuts, ref.TopOuts) {
			r.violate(Violation{Kind: "property", Key: "C06:tierB-restart-outputs-differ:" + m.kind,
				What: "outputs after fault+restart differ from the fault-free run", Input: input,
				Impl: string(res.TopOuts), Expect: string(ref.TopOuts)})
		}
	}
}

// ---- python adapter: every way python stage code can fail, through the real mrjob ----

var tbPyModes = []string{"ok", "exit_main", "exit_thread", "throw", "raise", "raise_thread_exit", "os_exit", "segv", "abrt"}

const tbPySrc = `stage CHECK(
    in  int    x,
    in  string mode,
    out int    y,
    src py     "stages/check",
)

stage AFTER(
    in  int  x,
    out int  y,
    src comp "fake",
)

pipeline TOP(
    out int y,
)
{
    call CHECK(
        x    = 1,
        mode = "__MODE__",
    )

    call AFTER(
        x = CHECK.y,
    )

    return (
        y = AFTER.y,
    )
}

call TOP()
`

const tbPyStage = `import os
import signal
import threading

import martian


def _worker_exit():
    martian.exit("bad input found by a worker thread")


def main(args, outs):
    mode = args.mode
    if mode == "exit_main":
        martian.exit("bad input found on the main thread")
    elif mode == "exit_thread":
        t = threading.Thread(target=_worker_exit)
        t.start()
        t.join()
    elif mode == "throw":
        martian.throw("stage code gave up")
    elif mode == "raise":
        raise ValueError("boom")
    elif mode == "raise_thread_exit":
        # a second report after the first one: the first message must survive
        try:
            martian.exit("first failure")
        finally:
            pass
    elif mode == "os_exit":
        os._exit(3)
    elif mode == "segv":
        os.kill(os.getpid(), signal.SIGSEGV)
    elif mode == "abrt":
        os.abort()
    outs.y = args.x + 1
`

// tbJudgePy: mode "ok" must complete; every other mode must end failed (non-zero exit), the report must name
// the stage CHECK, and the dependent stage AFTER must never have started.
func tbJudgePy(c *Ctx, specs []*TBSpec, results []*TBResult) {
	r := c.Res
	for i, res := range results {
		mode := strings.TrimPrefix(specs[i].Name, "py:")
		if res == nil || len(res.Incs) == 0 {
			continue
		}
		last := res.Incs[len(res.Incs)-1]
		r.hist("tierB_python_" + mode)
		r.count("tierB-python:"+mode, mode != "ok")
		input := map[string]interface{}{"stage_code": "python (adapters/python/martian_shell.py under the real mrjob)", "manifestation": mode, "program": specs[i].Src}
		if strings.Contains(last.Output, "No module named") || strings.Contains(last.Output, "python: not found") {
			r.note("python adapter unavailable: %s", firstLine(last.Output))
			return
		}
		afterRan := false
		for _, l := range res.Log {
			if strings.Contains(l.Job, "AFTER") {
				afterRan = true
			}
		}
		if mode == "ok" {
			if res.Final != "complete" {
				r.violate(Violation{Kind: "property", Key: "C06:tierB-python-ok-not-complete",
					What: "a python stage that succeeds did not complete the pipestance", Input: input, Impl: last.Output})
			}
			continue
		}
		switch {
		case last.ExitCode == 0 || res.Final == "complete":
			r.violate(Violation{Kind: "property", Key: "C06:tierB-python-not-failed:" + mode,
				What:  "python stage code failed (" + mode + ") but mrp reported success (exit status 0 / pipestance complete)",
				Input: input, Impl: last.Output})
		case afterRan:
			r.violate(Violation{Kind: "property", Key: "C06:tierB-python-dependent-started:" + mode,
				What: "the stage depending on the failed python stage was started", Input: input, Impl: last.Output})
		case !strings.Contains(last.Output, "CHECK"):
			r.violate(Violation{Kind: "property", Key: "C06:tierB-python-error-does-not-name-stage:" + mode,
				What: "mrp's failure report does not name the failing stage CHECK", Input: input, Impl: last.Output})
		}
	}
}
