package main

// C07 compile-time half, part 5: whole pipelines.  Generated pipelines with
// wildcard bindings (`* = self`, `* = CALL`, `* = REF.member`), modifiers
// (local / preflight / volatile keywords and `using (...)` lists, `disabled`),
// return bindings (explicit and wildcard), retain lists and calls of a nested
// pipeline (singly and mapped) are judged by the model's checkPipeline
// (Martian/TypingPipeline.lean, driver op C07.pipe) and by the real compiler:
// accept / reject, the region the error is located in (call k, return, retain),
// the error classes reported for that region, and for accepted programs the
// call mode and static split shape of every call; every program accepted by
// both is invoked (MakePipelineCallGraph).  Stage retain lists are a stream of
// their own (C07.sretain).

import (
	"fmt"
	"os"
	"path/filepath"
	"regexp"
	"sort"
	"strings"

	"github.com/martian-lang/martian/martian/syntax"
)

type c07Wild struct {
	self bool
	e    *c07Exp
}

func (w *c07Wild) enc() string {
	if w == nil {
		return "w-"
	}
	if w.self {
		return "wself"
	}
	return "wref " + w.e.enc()
}

func (w *c07Wild) mro() string {
	if w.self {
		return "self"
	}
	return w.e.mro()
}

type c07ModItem struct {
	tag byte // L local, R preflight, V volatile, D disabled
	b   bool
	e   *c07Exp
}

type c07Mods struct {
	kwL, kwP, kwV bool
	using         []c07ModItem
}

func c07b01(b bool) string {
	if b {
		return "1"
	}
	return "0"
}

func (m *c07Mods) enc() string {
	var sb strings.Builder
	fmt.Fprintf(&sb, "%s %s %s %d", c07b01(m.kwL), c07b01(m.kwP), c07b01(m.kwV), len(m.using))
	for _, u := range m.using {
		if u.tag == 'D' {
			sb.WriteString(" D " + u.e.enc())
		} else {
			fmt.Fprintf(&sb, " %c %s", u.tag, map[bool]string{true: "t", false: "f"}[u.b])
		}
	}
	return sb.String()
}

type c07PCallee struct {
	name    string
	isStage bool
	params  []c17Field
	outs    []c17Field
}

type c07PStm struct {
	id     string
	callee *c07PCallee
	binds  []c07NamedBind
	wild   *c07Wild
	mods   c07Mods
	// by construction (used for the environment of later calls while generating)
	mode byte   // s a m
	src  string // driver encoding of the split shape
	// filled by emit
	first, last int
}

type c07Pipe struct {
	name    string
	ins     []c17Field
	outs    []c17Field
	calls   []*c07PStm
	ret     []c07NamedBind
	retWild *c07Wild
	retain  []*c07Exp
	extra   []*c07PCallee // callees to declare (stages; pipelines are declared by their own text)
	inner   *c07Pipe

	retFirst, retLast       int
	retainFirst, retainLast int
	hdrFirst, hdrLast       int
	features                []string
}

// chain: the pipelines of the program in source order (innermost first)
func (p *c07Pipe) chain() []*c07Pipe {
	var out []*c07Pipe
	for q := p; q != nil; q = q.inner {
		out = append([]*c07Pipe{q}, out...)
	}
	return out
}

func c07FieldsEnc(fs []c17Field) string {
	var sb strings.Builder
	fmt.Fprintf(&sb, "%d", len(fs))
	for _, f := range fs {
		sb.WriteString(" " + hx(f.id) + " " + f.t.enc())
	}
	return sb.String()
}

func c07BindsEnc(bs []c07NamedBind) string {
	var sb strings.Builder
	fmt.Fprintf(&sb, "%d", len(bs))
	for _, b := range bs {
		sb.WriteString(" " + hx(b.id) + " " + b.b.enc())
	}
	return sb.String()
}

func (s *c07PStm) enc() string {
	k := "p"
	if s.callee.isStage {
		k = "s"
	}
	return strings.Join([]string{hx(s.id), hx(s.callee.name), k, c07FieldsEnc(s.callee.params), c07FieldsEnc(s.callee.outs),
		c07BindsEnc(s.binds), s.wild.enc(), s.mods.enc()}, " ")
}

func (p *c07Pipe) enc() string {
	parts := []string{hx(p.name), c07FieldsEnc(p.ins), c07FieldsEnc(p.outs), fmt.Sprint(len(p.calls))}
	for _, s := range p.calls {
		parts = append(parts, s.enc())
	}
	parts = append(parts, c07BindsEnc(p.ret), p.retWild.enc(), fmt.Sprint(len(p.retain)))
	for _, e := range p.retain {
		parts = append(parts, e.enc())
	}
	return strings.Join(parts, " ")
}

// environment encoding (Driver/C07.lean parseEnv) of the pipeline's inputs and its first n calls
func (p *c07Pipe) envEnc(n int) string {
	var sb strings.Builder
	sb.WriteString(c07FieldsEnc(p.ins))
	fmt.Fprintf(&sb, " %d", n)
	for _, s := range p.calls[:n] {
		fmt.Fprintf(&sb, " %s %s %c %s %s", hx(s.id), hx(s.callee.name), s.mode, s.src, c07FieldsEnc(s.callee.outs))
	}
	return sb.String()
}

func c07StageText(sb *strings.Builder, st *c07PCallee, retain []string) {
	fmt.Fprintf(sb, "stage %s(\n", st.name)
	for _, p := range st.params {
		fmt.Fprintf(sb, "    in  %s %s,\n", p.t.mro(), p.id)
	}
	for _, o := range st.outs {
		fmt.Fprintf(sb, "    out %s %s,\n", o.t.mro(), o.id)
	}
	sb.WriteString("    src comp \"fake\",\n)")
	if retain != nil {
		sb.WriteString(" retain (\n")
		for _, r := range retain {
			fmt.Fprintf(sb, "    %s,\n", r)
		}
		sb.WriteString(")")
	}
	sb.WriteString("\n\n")
}

func (p *c07Pipe) text(sb *strings.Builder) {
	line := func() int { return strings.Count(sb.String(), "\n") + 1 }
	p.hdrFirst = line()
	fmt.Fprintf(sb, "pipeline %s(\n", p.name)
	for _, f := range p.ins {
		fmt.Fprintf(sb, "    in  %s %s,\n", f.t.mro(), f.id)
	}
	for _, f := range p.outs {
		fmt.Fprintf(sb, "    out %s %s,\n", f.t.mro(), f.id)
	}
	p.hdrLast = line()
	sb.WriteString(")\n{\n")
	for _, s := range p.calls {
		s.first = line()
		mapped := false
		for _, b := range s.binds {
			if b.b.split {
				mapped = true
			}
		}
		kw := ""
		if s.mods.kwL {
			kw += " local"
		}
		if s.mods.kwP {
			kw += " preflight"
		}
		if s.mods.kwV {
			kw += " volatile"
		}
		if mapped {
			sb.WriteString("    map")
		} else {
			sb.WriteString("   ")
		}
		fmt.Fprintf(sb, " call%s %s", kw, s.callee.name)
		if s.id != s.callee.name {
			fmt.Fprintf(sb, " as %s", s.id)
		}
		sb.WriteString("(\n")
		for _, b := range s.binds {
			fmt.Fprintf(sb, "        %s = %s,\n", b.id, b.b.mro())
		}
		if s.wild != nil {
			fmt.Fprintf(sb, "        * = %s,\n", s.wild.mro())
		}
		sb.WriteString("    )")
		if len(s.mods.using) > 0 {
			sb.WriteString(" using (\n")
			for _, u := range s.mods.using {
				switch u.tag {
				case 'L':
					fmt.Fprintf(sb, "        local = %v,\n", u.b)
				case 'R':
					fmt.Fprintf(sb, "        preflight = %v,\n", u.b)
				case 'V':
					fmt.Fprintf(sb, "        volatile = %v,\n", u.b)
				case 'D':
					fmt.Fprintf(sb, "        disabled = %s,\n", u.e.mro())
				}
			}
			sb.WriteString("    )")
		}
		s.last = line()
		sb.WriteString("\n")
	}
	p.retFirst = line()
	sb.WriteString("    return (\n")
	for _, b := range p.ret {
		fmt.Fprintf(sb, "        %s = %s,\n", b.id, b.b.mro())
	}
	if p.retWild != nil {
		fmt.Fprintf(sb, "        * = %s,\n", p.retWild.mro())
	}
	p.retLast = line()
	sb.WriteString("    )\n")
	if len(p.retain) > 0 {
		p.retainFirst = line()
		sb.WriteString("    retain (\n")
		for _, e := range p.retain {
			fmt.Fprintf(sb, "        %s,\n", e.mro())
		}
		p.retainLast = line()
		sb.WriteString("    )\n")
	}
	sb.WriteString("}\n\n")
}

func (p *c07Pipe) program() string {
	var sb strings.Builder
	sb.WriteString(c07Decls)
	for _, st := range p.extra {
		c07StageText(&sb, st, nil)
	}
	for _, q := range p.chain() {
		q.text(&sb)
	}
	return sb.String()
}

// programSplit: the same program with the types, the stages and the nested
// pipelines in an include file (written to dir) and only P in the main file.
func (p *c07Pipe) programSplit(dir, incName string) (string, error) {
	var inc strings.Builder
	inc.WriteString(c07Decls)
	for _, st := range p.extra {
		c07StageText(&inc, st, nil)
	}
	ch := p.chain()
	for _, q := range ch[:len(ch)-1] {
		q.text(&inc)
	}
	if err := os.WriteFile(filepath.Join(dir, incName), []byte(inc.String()), 0o644); err != nil {
		return "", err
	}
	var sb strings.Builder
	fmt.Fprintf(&sb, "@include %q\n\n", incName)
	p.text(&sb)
	return sb.String(), nil
}

func (p *c07Pipe) topCall() string {
	var sb strings.Builder
	fmt.Fprintf(&sb, "call %s(\n", p.name)
	for _, s := range p.ins {
		fmt.Fprintf(&sb, "    %s = %s,\n", s.id, c07Witness(s.t).mro())
	}
	sb.WriteString(")\n")
	return sb.String()
}

// ---- generation ----

type c07PGen struct {
	c *Ctx
	p *c07Pipe
}

// reference candidates into the inputs and the first n calls, with the model's types
func (g *c07PGen) cands(n int) []c07Cand {
	p := g.p
	var es []*c07Exp
	for _, s := range p.ins {
		for _, path := range c07Paths(s.t, 0) {
			es = append(es, c07Ref('r', s.id, path...))
		}
	}
	for _, s := range p.calls[:n] {
		if len(s.callee.outs) == 0 {
			continue
		}
		es = append(es, c07Ref('c', s.id))
		for _, o := range s.callee.outs {
			for _, path := range c07Paths(o.t, 0) {
				es = append(es, c07Ref('c', s.id, append([]string{o.id}, path...)...))
			}
		}
	}
	return g.typed(n, es)
}

func (g *c07PGen) typed(n int, es []*c07Exp) []c07Cand {
	if len(es) == 0 {
		return nil
	}
	ee := g.p.envEnc(n)
	reqs := make([][]string, len(es))
	for i, e := range es {
		reqs[i] = []string{"C07.exp", ee, "int", e.enc()}
	}
	var out []c07Cand
	for i, rep := range g.c.Drv.AskBatch(reqs) {
		f := strings.SplitN(rep, " ", 3)
		cd := c07Cand{e: es[i]}
		if len(f) == 3 && f[2] != "-" {
			cd.t, _ = c07ParseTyEnc(strings.Split(f[2], " "))
		}
		out = append(out, cd)
	}
	return out
}

func c07RefAppend(e *c07Exp, m string) *c07Exp {
	r := *e
	r.path = append(append([]string{}, e.path...), m)
	return &r
}

func c07Strip(t *c17Ty) *c17Ty {
	for t.kind == 'a' || t.kind == 'm' {
		t = t.elem
	}
	return t
}

// c07GenPipe: one pipeline P: [SINK] PROD [INNER] S [PRE], return, retain.
func c07GenPipe(c *Ctx) *c07Pipe {
	rng := c.Rng
	p := &c07Pipe{name: "P"}
	g := &c07PGen{c: c, p: p}
	feat := func(f string) { p.features = append(p.features, f) }
	miss := []int{0, 0, 0, 10, 6}[rng.Intn(5)]
	clean := miss == 0 // nothing ill-typed on purpose
	near := func() bool { return miss > 0 && rng.Intn(miss) == 0 }
	for i, n := 0, rng.Intn(4); i < n; i++ {
		p.ins = append(p.ins, c17Field{fmt.Sprintf("s%d", i), c07RandType(rng)})
	}
	// SINK: uses every input (no UnusedInputError); sometimes left out
	if len(p.ins) > 0 && !clean && rng.Intn(3) == 0 {
		feat("no_sink")
	} else if len(p.ins) > 0 {
		sink := &c07PCallee{name: "SINK", isStage: true, params: p.ins, outs: []c17Field{{"r", c07B("int")}}}
		p.extra = append(p.extra, sink)
		st := &c07PStm{id: "SINK", callee: sink, mode: 's', src: "-"}
		if rng.Intn(2) == 0 {
			st.wild = &c07Wild{self: true}
			feat("wild_self_all_inputs")
		} else {
			for _, s := range p.ins {
				st.binds = append(st.binds, c07NamedBind{s.id, c07Bind{e: c07Ref('r', s.id)}})
			}
		}
		p.calls = append(p.calls, st)
	}
	// PROD
	prod := &c07PCallee{name: "PROD", isStage: true, params: []c17Field{{"seed", c07B("int")}}}
	for i, n := 0, 1+rng.Intn(3); i < n; i++ {
		prod.outs = append(prod.outs, c17Field{fmt.Sprintf("o%d", i), c07RandType(rng)})
	}
	if rng.Intn(3) == 0 { // something to take a wildcard from / retain
		prod.outs = append(prod.outs, c17Field{"pr", []*c17Ty{c07Pair, c07Files, c07A(c07Pair), c07M(c07Files)}[rng.Intn(4)]})
	}
	p.extra = append(p.extra, prod)
	ps := &c07PStm{id: "PROD", callee: prod}
	switch rng.Intn(4) {
	case 0:
		ps.mode, ps.src = 'a', "A 2"
		ps.binds = []c07NamedBind{{"seed", c07Bind{split: true, e: c07Arr(c07Int(1), c07Int(2))}}}
	case 1:
		ps.mode, ps.src = 'm', "K "+hxList([]string{"ka", "kb"})
		ps.binds = []c07NamedBind{{"seed", c07Bind{split: true, e: &c07Exp{kind: 'm', keys: []string{"ka", "kb"}, elems: []*c07Exp{c07Int(1), c07Int(2)}}}}}
	default:
		ps.mode, ps.src = 's', "-"
		ps.binds = []c07NamedBind{{"seed", c07Bind{e: c07Int(1)}}}
	}
	if !clean && rng.Intn(10) == 0 {
		ps.mods.kwP = true // a stage with outputs cannot be preflight
		feat("mod_preflight_with_outputs")
	}
	if rng.Intn(8) == 0 {
		ps.mods.kwV = true
		feat("mod_volatile_stage")
	}
	p.calls = append(p.calls, ps)
	// INNER: a nested pipeline (valid by construction: `call IPROD(* = self)`, `return (* = IPROD)`)
	if rng.Intn(2) == 0 {
		in := &c07Pipe{name: "INNER"}
		for i, n := 0, rng.Intn(3); i < n; i++ {
			in.ins = append(in.ins, c17Field{fmt.Sprintf("a%d", i), c07RandType(rng)})
		}
		for i, n := 0, 1+rng.Intn(2); i < n; i++ {
			in.outs = append(in.outs, c17Field{fmt.Sprintf("y%d", i), c07RandType(rng)})
		}
		iprod := &c07PCallee{name: "IPROD", isStage: true, params: in.ins, outs: in.outs}
		p.extra = append(p.extra, iprod)
		ist := &c07PStm{id: "IPROD", callee: iprod, mode: 's', src: "-"}
		if len(in.ins) > 0 {
			ist.wild = &c07Wild{self: true}
		}
		in.calls = []*c07PStm{ist}
		in.retWild = &c07Wild{e: c07Ref('c', "IPROD")}
		// a second level: INNER calls INNER2 (singly, over an array, over a map) and hands
		// some of its outputs on, so that P sees them through two calls
		if rng.Intn(2) == 0 {
			l2 := &c07Pipe{name: "INNER2"}
			for i, n := 0, rng.Intn(3); i < n; i++ {
				l2.ins = append(l2.ins, c17Field{fmt.Sprintf("b%d", i), c07RandType(rng)})
			}
			for i, n := 0, 1+rng.Intn(2); i < n; i++ {
				l2.outs = append(l2.outs, c17Field{fmt.Sprintf("w%d", i), c07RandType(rng)})
			}
			iprod2 := &c07PCallee{name: "IPROD2", isStage: true, params: l2.ins, outs: l2.outs}
			p.extra = append(p.extra, iprod2)
			ist2 := &c07PStm{id: "IPROD2", callee: iprod2, mode: 's', src: "-"}
			if len(l2.ins) > 0 {
				ist2.wild = &c07Wild{self: true}
			}
			l2.calls = []*c07PStm{ist2}
			l2.retWild = &c07Wild{e: c07Ref('c', "IPROD2")}
			in.inner = l2
			c2 := &c07PStm{id: "INNER2", callee: &c07PCallee{name: "INNER2", isStage: false, params: l2.ins, outs: l2.outs}, mode: 's', src: "-"}
			how := rng.Intn(3)
			if len(l2.ins) == 0 {
				how = 0
			}
			for i, a := range l2.ins {
				w := c07Witness(a.t)
				switch {
				case i == 0 && how == 1:
					c2.mode, c2.src = 'a', "A 2"
					c2.binds = append(c2.binds, c07NamedBind{a.id, c07Bind{split: true, e: c07Arr(w, w)}})
				case i == 0 && how == 2:
					c2.mode, c2.src = 'm', "K "+hxList([]string{"ka", "kb"})
					c2.binds = append(c2.binds, c07NamedBind{a.id, c07Bind{split: true, e: &c07Exp{kind: 'm', keys: []string{"ka", "kb"}, elems: []*c07Exp{w, w}}}})
				default:
					c2.binds = append(c2.binds, c07NamedBind{a.id, c07Bind{e: w}})
				}
			}
			in.calls = append(in.calls, c2)
			for i, o := range l2.outs {
				t := o.t
				switch c2.mode {
				case 'a':
					t = c07A(t)
				case 'm':
					if t.isMapInside() {
						continue // map<map…> cannot be declared (and the reference is rejected)
					}
					t = c07M(t)
				}
				if near() && c2.mode != 's' {
					t = o.t // declared without the dimension of the map call
					feat("nested2_output_declared_unlifted")
				}
				z := c17Field{fmt.Sprintf("z%d", i), t}
				in.outs = append(in.outs, z)
				in.ret = append(in.ret, c07NamedBind{z.id, c07Bind{e: c07Ref('c', "INNER2", o.id)}})
			}
			feat("nested_pipeline_2_levels")
			if c2.mode != 's' {
				feat("nested_pipeline_2_levels_inner_mapped")
			}
		}
		p.inner = in
		callee := &c07PCallee{name: "INNER", isStage: false, params: in.ins, outs: in.outs}
		st := &c07PStm{id: "INNER", callee: callee, mode: 's', src: "-"}
		cands := g.cands(len(p.calls))
		eg := &c07Gen{rng: rng, env: &c07Env{cands: cands}, miss: miss, noBogus: clean}
		mapIt := len(in.ins) > 0 && rng.Intn(3) == 0
		for i, a := range in.ins {
			if mapIt && i == 0 {
				st.mode, st.src = 'a', "A 2"
				st.binds = append(st.binds, c07NamedBind{a.id, c07Bind{split: true, e: c07Arr(eg.exp(a.t, 1), eg.exp(a.t, 1))}})
				feat("nested_pipeline_mapped")
				continue
			}
			st.binds = append(st.binds, c07NamedBind{a.id, c07Bind{e: eg.exp(a.t, 0)}})
		}
		if near() {
			switch rng.Intn(3) {
			case 0:
				st.mods.kwL = true
			case 1:
				st.mods.kwV = true
			default:
				st.mods.using = append(st.mods.using, c07ModItem{tag: 'R', b: true})
			}
			feat("mod_on_pipeline_call")
		}
		feat("nested_pipeline")
		p.calls = append(p.calls, st)
	}
	// S: the call under test
	{
		n := len(p.calls)
		cands := g.cands(n)
		eg := &c07Gen{rng: rng, env: &c07Env{cands: cands}, miss: miss, noBogus: clean}
		callee := &c07PCallee{name: "S", isStage: true, outs: []c17Field{{"r", c07B("int")}}}
		st := &c07PStm{id: "S", callee: callee, mode: 's', src: "-"}
		// wildcard?
		if rng.Intn(5) < 3 {
			var srcs []*c07Wild
			if len(p.ins) > 0 {
				srcs = append(srcs, &c07Wild{self: true})
			}
			for _, cd := range cands {
				if cd.t != nil && c07Strip(cd.t).kind == 's' {
					srcs = append(srcs, &c07Wild{e: cd.e})
				}
			}
			if near() && len(cands) > 0 { // not a struct / does not resolve
				if rng.Intn(2) == 0 {
					srcs = []*c07Wild{{e: cands[rng.Intn(len(cands))].e}}
				} else {
					srcs = []*c07Wild{{e: c07Ref('c', "NOCALL")}}
				}
				feat("wild_near_miss_source")
			}
			if len(srcs) > 0 {
				w := srcs[rng.Intn(len(srcs))]
				st.wild = w
				// members as the model sees them
				var members []c17Field
				if w.self {
					members = p.ins
					feat("wild_self")
				} else {
					feat("wild_ref")
					var base *c17Ty
					for _, cd := range g.typed(n, []*c07Exp{w.e}) {
						if cd.t != nil {
							base = c07Strip(cd.t)
						}
					}
					if base != nil && base.kind == 's' {
						var es []*c07Exp
						for _, f := range base.fields {
							es = append(es, c07RefAppend(w.e, f.id))
						}
						for i, cd := range g.typed(n, es) {
							mt := cd.t
							if mt == nil {
								mt = base.fields[i].t // does not resolve (nested maps): whatever
							}
							members = append(members, c17Field{base.fields[i].id, mt})
						}
					}
				}
				// the callee takes some of the members
				for _, m := range members {
					if rng.Intn(3) == 0 || c07Undeclarable(m.t) {
						continue
					}
					t := m.t
					if near() {
						t = c07RandType(rng)
						feat("wild_member_other_type")
					}
					callee.params = append(callee.params, c17Field{m.id, t})
				}
				if len(callee.params) > 0 && near() { // bound explicitly as well
					m := callee.params[rng.Intn(len(callee.params))]
					st.binds = append(st.binds, c07NamedBind{m.id, c07Bind{e: eg.exp(m.t, 0)}})
					feat("wild_duplicates_explicit")
				}
			}
		}
		// explicit parameters
		wantMap := rng.Intn(5) == 0
		for i, np := 0, rng.Intn(3); i < np || len(callee.params) == 0; i++ {
			pp := c17Field{fmt.Sprintf("x%d", i), c07RandType(rng)}
			callee.params = append(callee.params, pp)
			if near() {
				feat("param_not_bound")
				continue
			}
			if wantMap && i == 0 {
				st.binds = append(st.binds, c07NamedBind{pp.id, c07Bind{split: true, e: c07Arr(eg.exp(pp.t, 1), eg.exp(pp.t, 1))}})
				st.mode, st.src = 'a', "A 2"
				continue
			}
			st.binds = append(st.binds, c07NamedBind{pp.id, c07Bind{e: eg.exp(pp.t, 0)}})
		}
		if near() {
			st.binds = append(st.binds, c07NamedBind{"nosuch", c07Bind{e: c07Int(1)}})
			feat("unknown_param")
		}
		// modifiers
		if rng.Intn(3) == 0 {
			switch rng.Intn(6) {
			case 0:
				st.mods.kwL = true
				if near() {
					st.mods.using = append(st.mods.using, c07ModItem{tag: 'L', b: rng.Intn(2) == 0})
					feat("mod_conflict")
				}
			case 1:
				st.mods.using = append(st.mods.using, c07ModItem{tag: 'V', b: rng.Intn(2) == 0})
				if near() {
					st.mods.using = append(st.mods.using, c07ModItem{tag: 'V', b: rng.Intn(2) == 0})
					feat("mod_dup")
				}
			case 2:
				st.mods.using = append(st.mods.using, c07ModItem{tag: 'L', b: true}, c07ModItem{tag: 'R', b: false})
			default:
				if e := eg.ref(c07B("bool")); e != nil {
					st.mods.using = append(st.mods.using, c07ModItem{tag: 'D', e: e})
					feat("mod_disabled")
				}
			}
		}
		p.extra = append(p.extra, callee)
		p.calls = append(p.calls, st)
	}
	// PRE: a preflight stage
	if rng.Intn(3) == 0 {
		n := len(p.calls)
		cands := g.cands(n)
		t := []*c17Ty{c07B("int"), c07A(c07B("int")), c07B("string"), c07Pair}[rng.Intn(4)]
		callee := &c07PCallee{name: "PRE", isStage: true, params: []c17Field{{"x", t}}}
		st := &c07PStm{id: "PRE", callee: callee, mode: 's', src: "-"}
		if rng.Intn(2) == 0 {
			st.mods.kwP = true
		} else {
			st.mods.using = append(st.mods.using, c07ModItem{tag: 'R', b: rng.Intn(4) != 0})
		}
		var e *c07Exp
		eg := &c07Gen{rng: rng, env: &c07Env{cands: cands}, miss: 0}
		pk := rng.Intn(4)
		if clean && pk == 0 {
			pk = 3
		}
		switch pk {
		case 0: // a reference to a call output: PreflightBindingError
			var good []*c07Exp
			for _, cd := range cands {
				if cd.t != nil && cd.e.kind == 'c' && c07Compat(t, cd.t) {
					good = append(good, cd.e)
				}
			}
			if len(good) > 0 {
				e = good[rng.Intn(len(good))]
				feat("preflight_bound_to_call")
			}
		case 1: // the same inside an array literal: accepted by the compiler (known finding, see c07PreflightWitness)
			if t.kind == 'a' {
				for _, cd := range cands {
					if cd.t != nil && cd.e.kind == 'c' && c07Compat(t.elem, cd.t) {
						e = c07Arr(cd.e)
						feat("preflight_bound_to_call_nested")
						break
					}
				}
			}
		}
		if e == nil {
			e = c07Witness(t)
			if rng.Intn(2) == 0 {
				for _, cd := range cands {
					if cd.t != nil && cd.e.kind == 'r' && c07Compat(t, cd.t) {
						e = cd.e
					}
				}
			}
		}
		_ = eg
		st.binds = []c07NamedBind{{"x", c07Bind{e: e}}}
		if rng.Intn(6) == 0 {
			if d := (&c07Gen{rng: rng, env: &c07Env{cands: cands}, miss: 0}).ref(c07B("bool")); d != nil {
				st.mods.using = append(st.mods.using, c07ModItem{tag: 'D', e: d})
				feat("preflight_disabled")
			}
		}
		feat("preflight")
		p.extra = append(p.extra, callee)
		p.calls = append(p.calls, st)
	}
	// return
	{
		n := len(p.calls)
		cands := g.cands(n)
		eg := &c07Gen{rng: rng, env: &c07Env{cands: cands}, miss: miss, noBogus: clean}
		if rng.Intn(3) == 0 { // wildcard return
			var srcs []c07Cand
			for _, cd := range cands {
				if cd.t != nil && c07Strip(cd.t).kind == 's' {
					srcs = append(srcs, cd)
				}
			}
			if len(srcs) > 0 {
				cd := srcs[rng.Intn(len(srcs))]
				base := c07Strip(cd.t)
				var es []*c07Exp
				for _, f := range base.fields {
					es = append(es, c07RefAppend(cd.e, f.id))
				}
				for i, m := range g.typed(n, es) {
					if m.t == nil || rng.Intn(3) == 0 || c07Undeclarable(m.t) {
						continue
					}
					t := m.t
					if near() {
						t = c07RandType(rng)
					}
					p.outs = append(p.outs, c17Field{base.fields[i].id, t})
				}
				if len(p.outs) > 0 {
					p.retWild = &c07Wild{e: cd.e}
					feat("return_wildcard")
				}
			}
		}
		for i, no := 0, 1+rng.Intn(2); i < no; i++ {
			o := c17Field{fmt.Sprintf("r%d", i), c07RandType(rng)}
			p.outs = append(p.outs, o)
			if near() {
				feat("return_missing")
				continue
			}
			p.ret = append(p.ret, c07NamedBind{o.id, c07Bind{e: eg.exp(o.t, 0)}})
		}
		if near() && len(p.ret) > 0 {
			p.ret = append(p.ret, p.ret[0])
			feat("return_duplicate")
		}
		if near() {
			p.ret = append(p.ret, c07NamedBind{"nosuch", c07Bind{e: c07Int(1)}})
			feat("return_unknown")
		}
		// retain
		if rng.Intn(3) == 0 && len(cands) > 0 {
			for i, k := 0, 1+rng.Intn(2); i < k; i++ {
				var filey []*c07Exp
				for _, cd := range cands {
					if cd.t != nil && c07MaybeFile(cd.t) {
						filey = append(filey, cd.e)
					}
				}
				if len(filey) > 0 && (clean || rng.Intn(4) != 0) {
					p.retain = append(p.retain, filey[rng.Intn(len(filey))])
				} else if clean {
					break
				} else if rng.Intn(4) == 0 {
					p.retain = append(p.retain, c07Ref('c', "PROD", "nosuch"))
				} else {
					p.retain = append(p.retain, cands[rng.Intn(len(cands))].e)
				}
			}
			feat("retain")
		}
	}
	return p
}

// the type cannot be written in MRO source (`map<map>`: an untyped map under a typed map, which only
// arises as the type of an output of a map-called stage)
func c07Undeclarable(t *c17Ty) bool {
	switch t.kind {
	case 'a':
		return c07Undeclarable(t.elem)
	case 'm':
		return t.elem.isMapInside() || c07Undeclarable(t.elem)
	case 's':
		for _, f := range t.fields {
			if c07Undeclarable(f.t) {
				return true
			}
		}
	}
	return false
}

// generator-side guess (the model decides): the type mentions a file / string / map type
func c07MaybeFile(t *c17Ty) bool {
	switch t.kind {
	case 'a', 'm':
		return c07MaybeFile(t.elem)
	case 'u':
		return true
	case 'b':
		return t.name == "file" || t.name == "path" || t.name == "string" || t.name == "map"
	case 's':
		for _, f := range t.fields {
			if c07MaybeFile(f.t) {
				return true
			}
		}
	}
	return false
}

// ---- the real compiler's error, by region and class ----

var c07ClassKeywords = []struct{ kw, class string }{
	{"DuplicateBinding", "dup"}, {"TypeMismatchError", "type"}, {"ArgumentError", "unknown"},
	{"ArgumentNotSuppliedError", "missing"}, {"wildcard binding", "wildcard"},
	{"ConflictingModifiers", "conflict"}, {"UnsupportedTagError", "unsupported"},
	{"PreflightBindingError", "preBinding"}, {"PreflightOutputError", "preOutput"},
	{"inconsistent split", "mapping"}, {"MapCallError", "mapping"}, {"SplitTypeMismatch", "mapping"},
	{"RetainParamError", "retain"}, {"DuplicateCallError", "dupcall"}, {"UnusedInputError", "unused"},
}

// a reference that does not resolve, reported on its own (not as the reason of a TypeMismatchError):
// the reference of a wildcard, of a retain list, or of a split (checkMappings)
var c07ResolveKeywords = []string{"ScopeNameError", "NoSuchOutputError", "could not evaluate", "MappedMapError"}

var c07AtRe = regexp.MustCompile(`^\s*at .*pipeline\.mro:(\d+)`)

// classes of the compiler's error text, attached to the line of the first
// `at file:line` that follows them
func c07ErrClasses(err error) map[int]map[string]bool {
	out := map[int]map[string]bool{}
	pending := map[string]bool{}
	for _, l := range strings.Split(err.Error(), "\n") {
		if m := c07AtRe.FindStringSubmatch(l); m != nil {
			var n int
			fmt.Sscan(m[1], &n)
			if out[n] == nil {
				out[n] = map[string]bool{}
			}
			for k := range pending {
				out[n][k] = true
			}
			pending = map[string]bool{}
			continue
		}
		for _, kc := range c07ClassKeywords {
			if strings.Contains(l, kc.kw) {
				pending[kc.class] = true
			}
		}
		if !strings.Contains(l, "TypeMismatchError") {
			for _, kw := range c07ResolveKeywords {
				if strings.Contains(l, kw) {
					pending["resolve"] = true
				}
			}
		}
	}
	return out
}

func c07SetStr(m map[string]bool) string {
	var ks []string
	for k := range m {
		ks = append(ks, k)
	}
	sort.Strings(ks)
	return strings.Join(ks, ",")
}

// ---- judging one pipeline ----

var c07IncCounter int

// programs accepted by model and compiler that call a nested pipeline: run in Tier A afterwards
var c07LastProgReq string

// did the last program asked about satisfy every hypothesis of program_sound_partial?
var c07LastProgOk bool

var c07NestedRun []string

// the C07.progrun request (model's checked run) of a program text queued in c07NestedRun
var c07NestedReq = map[string]string{}

func c07CompileWithPaths(src string, paths []string) (ast *syntax.Ast, err error) {
	defer func() {
		if p := recover(); p != nil {
			err = fmt.Errorf("PANIC: %v", p)
		}
	}()
	_, _, ast, err = syntax.ParseSourceBytes([]byte(src), "pipeline.mro", paths, false)
	return ast, err
}

func c07CallGraphPaths(src string, paths []string) (err error) {
	defer func() {
		if p := recover(); p != nil {
			err = fmt.Errorf("PANIC: %v", p)
		}
	}()
	_, _, ast, err := syntax.ParseSourceBytes([]byte(src), "pipeline.mro", paths, false)
	if err != nil {
		return fmt.Errorf("with the top-level call the program no longer compiles: %v", err)
	}
	_, err = ast.MakePipelineCallGraph("ID.ps.", ast.Call)
	return err
}

// c07CheckRegion: the compiler's error must be located in the statement of q
// the model rejects, with the same set of error classes.
func c07CheckRegion(c *Ctx, q *c07Pipe, mf []string, cerr error, in map[string]interface{}) {
	r := c.Res
	lo, hi := 0, 0
	want := map[string]bool{}
	region := mf[0]
	switch mf[0] {
	case "call":
		var k int
		fmt.Sscan(mf[1], &k)
		lo, hi = q.calls[k].first, q.calls[k].last
		region = "call:" + mf[2]
		if mf[2] == "dupcall" {
			want["dupcall"] = true
		} else if len(mf) > 3 {
			for _, cl := range strings.Split(mf[3], ",") {
				want[cl] = true
			}
		}
	case "unused":
		lo, hi = q.hdrFirst, q.hdrLast
		want["unused"] = true
	case "ret":
		lo, hi = q.retFirst, q.retLast
		if len(mf) > 1 {
			for _, cl := range strings.Split(mf[1], ",") {
				want[cl] = true
			}
		}
	case "retain":
		lo, hi = q.retainFirst, q.retainLast
	}
	r.hist("pipe_reject_" + region)
	got := map[string]bool{}
	hit := false
	for ln, cls := range c07ErrClasses(cerr) {
		if ln >= lo && ln <= hi {
			hit = true
			for k := range cls {
				got[k] = true
			}
		}
	}
	if !hit {
		r.violate(Violation{Kind: "property", Key: "C07:pipe:location:" + region,
			What:  "the compile error of a rejected pipeline is not located in the statement the model rejects",
			Input: in, Expect: fmt.Sprintf("pipeline %s lines %d-%d", q.name, lo, hi), Impl: firstLine(cerr.Error())})
		return
	}
	if mf[0] == "retain" {
		return // any error located in the retain list
	}
	if mf[0] == "unused" && len(mf) > 1 {
		// the compiler names the first unused input in declaration order
		first := unhx(strings.Split(mf[1], ",")[0])
		if !strings.Contains(cerr.Error(), "input parameter '"+first+"'") {
			r.violate(Violation{Kind: "correspondence", Key: "C07:pipe:unused-input-name", What: "the UnusedInputError does not name the first input the model finds unused",
				Input: in, Model: first, Impl: firstLine(cerr.Error()), Broken: "correspondence unusedInputs ~ compilePipelineArgs"})
		}
	}
	// a `mapping` error next to other errors is a consequence; a mods failure of class dup/type
	// ends Modifiers.compile, the bindings of the same call are still checked
	if len(want) > 1 || !want["mapping"] {
		delete(got, "mapping")
	}
	// a wildcard over a reference that does not resolve: the compiler reports the resolution error
	// (and, when the struct type is still known, goes on to the members)
	if want["wildcard"] && got["resolve"] {
		got["wildcard"] = true
	}
	delete(got, "resolve")
	missing := []string{}
	for k := range want {
		if !got[k] {
			missing = append(missing, k)
		}
	}
	extra := []string{}
	for k := range got {
		if !want[k] {
			extra = append(extra, k)
		}
	}
	sort.Strings(missing)
	sort.Strings(extra)
	if len(missing) > 0 {
		r.violate(Violation{Kind: "correspondence", Key: "C07:pipe:class-missing:" + region + ":" + strings.Join(missing, ","),
			What:  "an error class the model reports for the rejected statement is not in the compiler's error",
			Input: in, Model: c07SetStr(want), Impl: c07SetStr(got), Broken: "correspondence modErrs/callErrsW ~ error classes of Modifiers.compile/BindStms.compile"})
	} else if len(extra) > 0 && mf[0] == "call" && mf[2] == "mods" {
		// the bindings of a call whose modifiers are rejected are still checked by the compiler
		r.hist("pipe_mods_rejected_binds_also")
	} else if len(extra) > 0 {
		r.violate(Violation{Kind: "correspondence", Key: "C07:pipe:class-extra:" + region + ":" + strings.Join(extra, ","),
			What:  "the compiler reports an error class for the rejected statement that the model does not",
			Input: in, Model: c07SetStr(want), Impl: c07SetStr(got), Broken: "correspondence modErrs/callErrsW ~ error classes of Modifiers.compile/BindStms.compile"})
	}
}

func c07JudgePipe(c *Ctx, p *c07Pipe, class string) {
	r := c.Res
	chain := p.chain()
	reqs := make([][]string, len(chain))
	for i, q := range chain {
		reqs[i] = []string{"C07.pipe", q.enc()}
	}
	verdicts := c.Drv.AskBatch(reqs)
	innerOk := true
	for _, v := range verdicts[:len(verdicts)-1] {
		if !strings.HasPrefix(v, "ok") {
			innerOk = false
		}
	}
	// every third program with nested pipelines keeps only P in the main file and
	// everything else in an include file (errors are then located in the main file only)
	var paths []string
	src := ""
	if innerOk && len(chain) > 1 && c.Rng.Intn(3) == 0 {
		c07IncCounter++
		name := fmt.Sprintf("c07inc_%d.mro", c07IncCounter)
		if m, err := p.programSplit(c.Scratch, name); err == nil {
			src, paths = m, []string{c.Scratch}
			defer os.Remove(filepath.Join(c.Scratch, name))
			r.hist("pipe_with_include_file")
		}
	}
	if src == "" {
		src = p.program()
	}
	ast, cerr := c07CompileWithPaths(src, paths)
	r.count(src, true)
	r.hist("pipe_" + class)
	for _, f := range p.features {
		r.hist("pipe_feature_" + f)
	}
	model := strings.Join(verdicts, " | ")
	in := map[string]interface{}{"program": src, "model": model, "features": strings.Join(p.features, ",")}
	if paths != nil {
		if b, err := os.ReadFile(filepath.Join(c.Scratch, fmt.Sprintf("c07inc_%d.mro", c07IncCounter))); err == nil {
			in["include_file"] = string(b)
		}
	}
	if cerr != nil {
		in["compiler_error"] = cerr.Error()
	}
	modelOk := true
	for _, v := range verdicts {
		if strings.HasPrefix(v, "bad-op") || strings.HasPrefix(v, "model-inconsistent") || v == "" {
			r.violate(Violation{Kind: "correspondence", Key: "C07:pipe:driver:" + firstWord(v), What: "the driver could not judge a generated pipeline: " + v,
				Input: in, Broken: "Driver.C07.diagPipe ~ validPipelineU"})
			return
		}
		if !strings.HasPrefix(v, "ok") {
			modelOk = false
		}
	}
	if cerr != nil && strings.HasPrefix(cerr.Error(), "PANIC") {
		r.violate(Violation{Kind: "property", Key: "C07:pipe:compiler-panic", What: "the compiler panics on a generated pipeline: " + firstLine(cerr.Error()), Input: in})
		return
	}
	r.hist(fmt.Sprintf("pipe_model=%v_impl=%v", modelOk, cerr == nil))
	if modelOk != (cerr == nil) {
		which := "ok"
		for _, v := range verdicts {
			if !strings.HasPrefix(v, "ok") {
				which = firstWord(v)
			}
		}
		r.violate(Violation{Kind: "correspondence", Key: fmt.Sprintf("C07:pipe:accept:model=%v,impl=%v:%s", modelOk, cerr == nil, which),
			What:  "the model's checkPipeline and the real compiler disagree on accepting a pipeline",
			Input: in, Model: model, Impl: fmt.Sprint(cerr), Broken: "correspondence checkPipelineU ~ Pipeline.compile/compilePipelineArgs"})
		if cerr == nil {
			if err := c07CallGraphPaths(src+p.topCall(), paths); err != nil {
				r.violate(Violation{Kind: "property", Key: "C07:pipe:ill-typed-accepted:callgraph-fails",
					What:  "the compiler accepts a pipeline the model rejects, and invoking it fails: " + firstLine(err.Error()),
					Input: map[string]interface{}{"program": src + p.topCall(), "model": model, "error": err.Error()}})
			}
		}
		return
	}
	if !modelOk {
		// the compiler checks the calls of ALL pipelines first (every failure is reported), and only
		// then, pipeline by pipeline in source order, unused inputs / return / retain (first failure)
		var callFails []int
		firstBad := -1
		for i, v := range verdicts {
			if strings.HasPrefix(v, "call ") {
				callFails = append(callFails, i)
			}
			if firstBad < 0 && !strings.HasPrefix(v, "ok") {
				firstBad = i
			}
		}
		if len(callFails) == 0 {
			callFails = []int{firstBad}
		}
		for _, i := range callFails {
			if i < len(chain)-1 {
				r.hist("pipe_reject_in_nested_pipeline")
			}
			c07CheckRegion(c, chain[i], strings.Fields(verdicts[i]), cerr, in)
		}
		return
	}
	// accepted by both: call modes and static split shapes, in every pipeline
	for qi, q := range chain {
		for _, f := range strings.Fields(verdicts[qi])[1:] {
			kv := strings.SplitN(f, ":", 2)
			if len(kv) != 2 {
				continue
			}
			id := unhx(kv[0])
			for _, pl := range ast.Pipelines {
				if pl.Id != q.name {
					continue
				}
				for _, call := range pl.Calls {
					if call.Id != id {
						continue
					}
					gotShape := "-"
					switch call.CallMode() {
					case syntax.ModeArrayCall:
						gotShape = "A?"
						if call.Mapping != nil && call.Mapping.KnownLength() {
							gotShape = fmt.Sprintf("A%d", call.Mapping.ArrayLength())
						}
					case syntax.ModeMapCall:
						gotShape = "K?"
						if call.Mapping != nil && call.Mapping.KnownLength() {
							var ks []string
							for k := range call.Mapping.Keys() {
								ks = append(ks, k)
							}
							sort.Strings(ks)
							gotShape = "K" + hxList(ks)
						}
					case syntax.ModeSingleCall:
					default:
						gotShape = "mode:" + call.CallMode().String()
					}
					wantShape := kv[1]
					if strings.HasPrefix(wantShape, "K") && wantShape != "K?" {
						ks := strings.Split(wantShape[1:], ",")
						for i := range ks {
							ks[i] = unhx(ks[i])
						}
						sort.Strings(ks)
						wantShape = "K" + hxList(ks)
					}
					r.hist("pipe_call_shape_checked")
					if gotShape != wantShape {
						r.violate(Violation{Kind: "correspondence", Key: "C07:pipe:call-shape", What: "call mode / static split shape of an accepted call differ between model and compiler",
							Input: in, Model: q.name + "." + id + ":" + wantShape, Impl: q.name + "." + id + ":" + gotShape, Broken: "correspondence checkCalls/modeOf ~ checkMappings/CallMode"})
					}
				}
			}
		}
	}
	// all hypotheses of Props.C07.program_sound_partial on the accepted program (its conclusion is what
	// the Tier-A runs of c07NestedRuntime and of the run-time half check on the real code)
	{
		top := &c07PStm{id: p.name, callee: &c07PCallee{name: p.name, isStage: false, params: p.ins, outs: p.outs}}
		for _, in := range p.ins {
			top.binds = append(top.binds, c07NamedBind{in.id, c07Bind{e: c07Witness(in.t)}})
		}
		parts := []string{fmt.Sprint(len(chain))}
		for _, q := range chain {
			parts = append(parts, q.enc())
		}
		parts = append(parts, top.enc(), fmt.Sprint(len(chain)+1))
		c07LastProgReq = strings.Join(parts, " ")
		rep := c.Drv.Ask("C07.prog", strings.Join(parts, " "))
		c07LastProgOk = strings.Contains(rep, "progOk=true")
		f := strings.Fields(rep)
		if len(f) < 3 {
			r.note("bad reply of C07.prog: %q", rep)
		} else {
			r.hist("prog_" + f[1])
			r.hist("prog_" + f[2])
			if f[1] == "progOk=true" && len(f) > 3 {
				r.hist("prog_progOk_" + f[3]) // nodisabled=true: program_sound_no_disabled_partial applies
			}
			if f[1] != "progOk=true" {
				r.hist("prog_hyp_fails_" + f[len(f)-1])
			}
			if f[0] != "accepted=true" {
				r.violate(Violation{Kind: "correspondence", Key: "C07:prog:accepted", What: "a program model and compiler accept pipeline by pipeline is not accepted as a whole program: " + rep,
					Input: in, Broken: "program_sound_partial (progOk)"})
			} else if f[2] != "fits=true" {
				r.violate(Violation{Kind: "correspondence", Key: "C07:prog:fits", What: "the nesting depth of a generated program exceeds the number of its pipelines + 1: " + rep,
					Input: in, Broken: "program_sound_partial (fits)"})
			}
		}
	}
	r.hist("pipe_callgraph_checked")
	if err := c07CallGraphPaths(src+p.topCall(), paths); err != nil {
		if strings.Contains(err.Error(), "cannot be bound inside an untyped map") || strings.Contains(err.Error(), "cannot be assinged to untyped map: contains reference") {
			r.hist("pipe_invoke_fails_pipeline_struct_into_untyped_map")
			// the hypothesis `umapPipe` of program_sound_partial stands in for the unmodelled composition of
			// bindings: it must exclude every program the real resolver refuses for this reason
			if c07LastProgOk {
				r.violate(Violation{Kind: "correspondence", Key: "C07:prog:umap-hypothesis-does-not-cover",
					What:  "a program the real resolver refuses (reference inside an untyped map) satisfies every hypothesis of program_sound_partial: " + firstLine(err.Error()),
					Input: map[string]interface{}{"program": src + p.topCall(), "error": err.Error()}, Broken: "Props.C07.program_sound_partial (umapPipe)"})
			} else {
				r.hist("pipe_invoke_fails_untyped_map_excluded_by_umapPipe")
			}
			r.violate(Violation{Kind: "property", Key: c07UntypedMapKey,
				What:  "a reference to struct-typed outputs of a nested pipeline bound to an untyped map parameter is accepted by the compiler, but the pipeline cannot be invoked: " + firstLine(err.Error()),
				Input: map[string]interface{}{"program": src + p.topCall(), "error": err.Error()}})
			return
		}
		r.violate(Violation{Kind: "property", Key: "C07:pipe:accepted-but-callgraph-fails",
			What:  "a pipeline the compiler accepts cannot be resolved when it is invoked: " + firstLine(err.Error()),
			Input: map[string]interface{}{"program": src + p.topCall(), "error": err.Error()}})
		return
	}
	if p.inner != nil && paths == nil && !strings.Contains(src, " local ") && !strings.Contains(src, "local = true") {
		// (stages marked local are run by the real local job manager, which Tier A does not provide)
		c07NestedRun = append(c07NestedRun, src+p.topCall())
		c07NestedReq[src+p.topCall()] = c07LastProgReq
	}
	if c.Rng.Intn(2) == 0 {
		c07JudgeTop(c, p, src, paths)
	}
}

func firstWord(s string) string {
	f := strings.Fields(s)
	if len(f) == 0 {
		return "empty"
	}
	return f[0]
}

// ---- the top-level call statement ----

// c07JudgeTop: a generated `call P(…)` after an accepted program: literal
// arguments (type-directed, with near-misses), sometimes a reference, a
// wildcard, a modifier or a `map call` over literals; model (C07.top =
// checkTop) vs the real compiler, error located in the statement, and an
// accepted call must resolve (MakePipelineCallGraph).
func c07JudgeTop(c *Ctx, p *c07Pipe, src string, paths []string) {
	r := c.Res
	rng := c.Rng
	miss := []int{0, 0, 8, 4}[rng.Intn(4)]
	near := func() bool { return miss > 0 && rng.Intn(miss) == 0 }
	g := &c07Gen{rng: rng, env: &c07Env{}, miss: miss, noBogus: true}
	st := &c07PStm{id: p.name, callee: &c07PCallee{name: p.name, isStage: false, params: p.ins, outs: p.outs}}
	var feats []string
	if rng.Intn(4) == 0 {
		// a stage without outputs, declared right before the call: local / volatile are legal here,
		// preflight and disabled are not
		st = &c07PStm{id: "TOPST", callee: &c07PCallee{name: "TOPST", isStage: true, params: []c17Field{{"x", c07B("int")}, {"y", c07A(c07B("string"))}}}}
		var sb strings.Builder
		c07StageText(&sb, st.callee, nil)
		src += sb.String()
		feats = append(feats, "stage")
		switch rng.Intn(6) {
		case 0:
			st.mods.kwP = true
			feats = append(feats, "stage_preflight")
		case 1:
			st.mods.using = append(st.mods.using, c07ModItem{tag: 'R', b: rng.Intn(3) != 0})
			feats = append(feats, "stage_preflight")
		case 2:
			st.mods.kwL = true
		case 3:
			st.mods.using = append(st.mods.using, c07ModItem{tag: 'V', b: true})
		}
	}
	ins := st.callee.params
	mapIt := len(ins) > 0 && rng.Intn(5) == 0
	for i, a := range ins {
		switch {
		case near() && rng.Intn(2) == 0:
			st.binds = append(st.binds, c07NamedBind{a.id, c07Bind{e: []*c07Exp{c07Ref('r', a.id), c07Ref('c', "PROD", "o0"), c07Arr(c07Ref('r', a.id))}[rng.Intn(3)]}})
			feats = append(feats, "reference")
		case near():
			feats = append(feats, "missing") // not bound
		case mapIt && i == 0:
			st.binds = append(st.binds, c07NamedBind{a.id, c07Bind{split: true, e: c07Arr(g.exp(a.t, 1), g.exp(a.t, 1))}})
			feats = append(feats, "map_call")
		default:
			st.binds = append(st.binds, c07NamedBind{a.id, c07Bind{e: g.exp(a.t, 0)}})
		}
	}
	if near() {
		st.binds = append(st.binds, c07NamedBind{"nosuch", c07Bind{e: c07Int(1)}})
		feats = append(feats, "unknown")
	}
	if near() && len(st.binds) > 0 {
		st.binds = append(st.binds, st.binds[0])
		feats = append(feats, "duplicate")
	}
	if near() {
		st.wild = &c07Wild{self: true}
		feats = append(feats, "wildcard")
	}
	if near() {
		switch rng.Intn(4) {
		case 0:
			st.mods.kwP = true
		case 1:
			st.mods.kwV = true
		case 2:
			st.mods.using = append(st.mods.using, c07ModItem{tag: 'L', b: true})
		default:
			st.mods.using = append(st.mods.using, c07ModItem{tag: 'D', e: c07Ref('r', "x")})
		}
		feats = append(feats, "modifier")
	}
	// the statement is written with the same printer as a call inside a pipeline
	wrapper := &c07Pipe{name: "ZZ", calls: []*c07PStm{st}}
	var tb strings.Builder
	wrapper.text(&tb)
	lines := strings.Split(tb.String(), "\n")
	// lines[0..2] = `pipeline ZZ(`, `)`, `{`; the call is lines[3 .. st.last-1]
	callText := strings.Join(lines[st.first-1:st.last], "\n") + "\n"
	base := strings.Count(src, "\n")
	lo, hi := base+1, base+(st.last-st.first)+1
	full := src + callText
	rep := c.Drv.Ask("C07.top", st.enc())
	_, cerr := c07CompileWithPaths(full, paths)
	r.count(full, true)
	r.hist("top_call")
	for _, f := range feats {
		r.hist("top_call_feature_" + f)
	}
	in := map[string]interface{}{"program": full, "model": rep}
	if cerr != nil {
		in["compiler_error"] = cerr.Error()
	}
	if !strings.HasPrefix(rep, "ok") && !strings.HasPrefix(rep, "bad ") {
		r.violate(Violation{Kind: "correspondence", Key: "C07:top:driver:" + firstWord(rep), What: "the driver could not judge a top-level call: " + rep, Input: in, Broken: "Driver.C07.diagTop ~ validTop"})
		return
	}
	modelOk := strings.HasPrefix(rep, "ok")
	r.hist(fmt.Sprintf("top_call_model=%v_impl=%v", modelOk, cerr == nil))
	if cerr != nil && strings.HasPrefix(cerr.Error(), "PANIC") {
		r.violate(Violation{Kind: "property", Key: "C07:top:compiler-panic", What: "the compiler panics on a top-level call: " + firstLine(cerr.Error()), Input: in})
		return
	}
	if modelOk != (cerr == nil) {
		r.violate(Violation{Kind: "correspondence", Key: fmt.Sprintf("C07:top:accept:model=%v,impl=%v", modelOk, cerr == nil),
			What: "the model's checkTop and the real compiler disagree on a top-level call statement", Input: in, Model: rep, Impl: fmt.Sprint(cerr),
			Broken: "correspondence checkTop ~ Ast.compileCall"})
		return
	}
	if !modelOk {
		hit := false
		for ln := range c07ErrClasses(cerr) {
			if ln >= lo && ln <= hi {
				hit = true
			}
		}
		if !hit {
			r.violate(Violation{Kind: "property", Key: "C07:top:location", What: "the compile error of a rejected top-level call is not located in the call statement",
				Input: in, Expect: fmt.Sprintf("lines %d-%d", lo, hi), Impl: firstLine(cerr.Error())})
		}
		return
	}
	if err := c07CallGraphPaths(full, paths); err != nil {
		if strings.Contains(err.Error(), "disabled cannot be bound to a null value") {
			// BY DESIGN (resolveDisableExp): a `disabled` modifier that is null when the program is invoked is
			// refused; null conforms to bool, so the compile-time rules accept it.  The checked semantics of the
			// model stops there too (Res.nullDisabled, Props.C07.disabled_null_witness; compared in c07DisabledRuntime).
			r.hist("top_static_null_disabled_refused_by_design")
			return
		}
		key := "C07:top:accepted-but-callgraph-fails"
		if strings.Contains(err.Error(), "cannot be bound inside an untyped map") || strings.Contains(err.Error(), "cannot be assinged to untyped map: contains reference") {
			key = c07UntypedMapKey
		}
		r.violate(Violation{Kind: "property", Key: key, What: "an accepted top-level call cannot be resolved: " + firstLine(err.Error()),
			Input: map[string]interface{}{"program": full, "error": err.Error()}})
	}
}

// ---- stage retain lists ----

func c07StageRetainStream(c *Ctx, n int) {
	r := c.Res
	rng := c.Rng
	type item struct {
		st  *c07PCallee
		ids []string
		src string
	}
	var items []item
	var reqs [][]string
	for i := 0; i < n; i++ {
		st := &c07PCallee{name: "RS", isStage: true, params: []c17Field{{"seed", c07B("int")}}}
		for j, k := 0, 1+rng.Intn(4); j < k; j++ {
			st.outs = append(st.outs, c17Field{fmt.Sprintf("o%d", j), c07RandType(rng)})
		}
		var ids []string
		for j, k := 0, 1+rng.Intn(3); j < k; j++ {
			switch {
			case rng.Intn(10) == 0:
				ids = append(ids, "nosuch")
			case rng.Intn(8) == 0 && len(ids) > 0:
				ids = append(ids, ids[0]) // repeated: accepted
			default:
				var filey []string
				for _, o := range st.outs {
					if c07MaybeFile(o.t) {
						filey = append(filey, o.id)
					}
				}
				if len(filey) > 0 && rng.Intn(4) != 0 {
					ids = append(ids, filey[rng.Intn(len(filey))])
				} else {
					ids = append(ids, st.outs[rng.Intn(len(st.outs))].id)
				}
			}
		}
		var sb strings.Builder
		sb.WriteString(c07Decls)
		c07StageText(&sb, st, ids)
		items = append(items, item{st, ids, sb.String()})
		reqs = append(reqs, []string{"C07.sretain", c07FieldsEnc(st.outs), hxList(ids)})
	}
	for i, rep := range c.Drv.AskBatch(reqs) {
		it := items[i]
		_, cerr := c07RealCompile(it.src)
		r.count(it.src, true)
		r.hist(fmt.Sprintf("stage_retain_model=%s_impl=%v", rep, cerr == nil))
		in := map[string]interface{}{"program": it.src, "model": rep}
		if cerr != nil {
			in["compiler_error"] = cerr.Error()
		}
		if (rep == "true") != (cerr == nil) {
			r.violate(Violation{Kind: "correspondence", Key: fmt.Sprintf("C07:stage-retain:model=%s,impl=%v", rep, cerr == nil),
				What: "the model's stageRetainOk and the real compiler disagree on a stage retain list", Input: in, Model: rep, Impl: fmt.Sprint(cerr),
				Broken: "correspondence stageRetainOk ~ RetainParams.compile"})
		} else if cerr != nil && !strings.Contains(cerr.Error(), "RetainParamError") {
			r.violate(Violation{Kind: "property", Key: "C07:stage-retain:error-class", What: "a rejected stage retain list is not reported as RetainParamError", Input: in})
		}
	}
}

// ---- the preflight rule only looks at the top of a binding (known finding) ----

const c07PreflightNestedSrc = `stage PROD(
    in  int seed,
    out int a,
    src comp "fake",
)

stage PRE(
    in  int[] xs,
    src comp "fake",
)

stage OTHER(
    in  int x,
    out int r,
    src comp "fake",
)

pipeline P(
    in  int a,
    out int r,
)
{
    call PROD(
        seed = self.a,
    )

    call preflight PRE(
        xs = [PROD.a],
    )

    call OTHER(
        x = self.a,
    )

    return (
        r = OTHER.r,
    )
}

call P(
    a = 1,
)
`

// c07PreflightWitness replays Props.C07.preflight_nested_ref_witness on the
// real code: a preflight stage whose input is bound to the output of another
// call INSIDE an array literal is accepted by the compiler (PreflightBindingError
// only looks at the kind of the whole binding; the pinned suite contains such a
// call).  Before repair 937256c every other stage, PROD included, waited for the
// preflight stage and mrp died with a stack overflow in Node.getState; now the
// stages a preflight stage depends on do not wait for it.  The program (with a
// third stage OTHER) is run in Tier A: it must complete, PRE must be launched
// after PROD has finished and OTHER after PRE has finished.
func c07PreflightWitness(c *Ctx) {
	r := c.Res
	r.hist("witness_preflight_nested_call_ref")
	r.count(c07PreflightNestedSrc, true)
	rep := c.Drv.Ask("C07.pipe", c07PreflightWitnessEnc())
	_, cerr := c07RealCompile(c07PreflightNestedSrc)
	if !strings.HasPrefix(rep, "ok") {
		r.violate(Violation{Kind: "correspondence", Key: "C07:pipe:preflight-witness-model", What: "the model no longer accepts the preflight witness: " + rep,
			Input: map[string]interface{}{"program": c07PreflightNestedSrc}, Broken: "Props.C07.preflight_nested_ref_witness"})
		return
	}
	if cerr != nil {
		if strings.Contains(cerr.Error(), "PreflightBindingError") {
			r.note("the preflight witness (nested call reference) is now rejected by the compiler: update Martian.Typing.isCallRef / Props.C07.preflight_nested_ref_witness")
		} else {
			r.violate(Violation{Kind: "correspondence", Key: "C07:pipe:preflight-witness-other-error", What: "the preflight witness is rejected, but not as PreflightBindingError: " + firstLine(cerr.Error()),
				Input: map[string]interface{}{"program": c07PreflightNestedSrc}})
		}
		return
	}
	p, err := compileProgram("preflight-witness", c07PreflightNestedSrc, nil)
	if err != nil {
		r.violate(Violation{Kind: "property", Key: "C07:preflight-nested-call-ref", What: "the accepted preflight witness cannot be invoked: " + firstLine(err.Error()),
			Input: map[string]interface{}{"program": c07PreflightNestedSrc}})
		return
	}
	taInit()
	for _, cs := range runCases(c, []*rtProgram{p}, 1, TASpec{}) {
		res := cs.res
		r.hist("witness_preflight_tiera_" + finalClass(res.Final))
		finished := map[string]int{}
		launched := map[string]int{}
		for _, e := range res.Events {
			for _, st := range []string{"PROD", "PRE", "OTHER"} {
				if strings.Contains(e.Job, ".P."+st+".") {
					if e.Kind == "launch" && launched[st] == 0 {
						launched[st] = e.Seq + 1
					}
					if e.Kind == "finish" {
						finished[st] = e.Seq + 1
					}
				}
			}
		}
		ordered := finished["PROD"] > 0 && launched["PRE"] > finished["PROD"] && finished["PRE"] > 0 && launched["OTHER"] > finished["PRE"]
		if res.Final != "complete" || !ordered {
			r.violate(Violation{Kind: "property", Key: "C07:preflight-nested-call-ref",
				What: "a preflight stage bound to the output of another call inside an array literal (`xs = [PROD.a]`) is accepted, but the pipestance does not run PROD, then PRE, then the rest to completion: final " +
					finalClass(res.Final) + " " + firstLine(res.ErrMsg),
				Input: map[string]interface{}{"program": c07PreflightNestedSrc, "launched": launched, "finished": finished, "error": res.ErrMsg, "history": excerpt(res.Events, 60)}})
		}
	}
}

func c07PreflightWitnessEnc() string {
	prod := &c07PCallee{name: "PROD", isStage: true, params: []c17Field{{"seed", c07B("int")}}, outs: []c17Field{{"a", c07B("int")}}}
	pre := &c07PCallee{name: "PRE", isStage: true, params: []c17Field{{"xs", c07A(c07B("int"))}}}
	p := &c07Pipe{name: "P", ins: []c17Field{{"a", c07B("int")}}, outs: []c17Field{{"r", c07B("int")}},
		calls: []*c07PStm{
			{id: "PROD", callee: prod, binds: []c07NamedBind{{"seed", c07Bind{e: c07Ref('r', "a")}}}},
			{id: "PRE", callee: pre, binds: []c07NamedBind{{"xs", c07Bind{e: c07Arr(c07Ref('c', "PROD", "a"))}}}, mods: c07Mods{kwP: true}},
			{id: "OTHER", callee: &c07PCallee{name: "OTHER", isStage: true, params: []c17Field{{"x", c07B("int")}}, outs: []c17Field{{"r", c07B("int")}}},
				binds: []c07NamedBind{{"x", c07Bind{e: c07Ref('r', "a")}}}},
		},
		ret: []c07NamedBind{{"r", c07Bind{e: c07Ref('c', "OTHER", "r")}}}}
	return p.enc()
}

const c07UntypedMapKey = "C07:invoke-fails:pipeline-struct-ref-into-untyped-map"

const c07UntypedMapSrc = `struct PAIR(
    int    a,
    string b,
)

stage IPROD(
    out int  y0,
    out PAIR p,
    src comp "fake",
)

stage S(
    in  map x0,
    out int r,
    src comp "fake",
)

pipeline INNER(
    out PAIR y0,
    out PAIR y1,
)
{
    call IPROD()

    return (
        y0 = {
            a: IPROD.y0,
            b: "x",
        },
        y1 = IPROD.p,
    )
}

pipeline P(
    out int r0,
)
{
    call INNER()

    call S(
        x0 = INNER.%s,
    )

    return (
        r0 = S.r,
    )
}

call P()
`

// c07UntypedMapWitness: `map x0 = INNER.y0` (y0 a struct output of a nested
// pipeline) is accepted by the compiler whatever INNER returns; whether the
// program can be invoked depends on INNER's return statement: a plain
// reference (y1 = IPROD.p) resolves, a struct literal containing a reference
// (y0 = {a: IPROD.y0, ...}) does not ("cannot be bound inside an untyped
// map").  Replayed on the real code each run.
func c07UntypedMapWitness(c *Ctx) {
	r := c.Res
	for _, o := range []string{"y1", "y0"} {
		src := fmt.Sprintf(c07UntypedMapSrc, o)
		r.count(src, true)
		r.hist("witness_untyped_map_from_pipeline_struct")
		_, cerr := c07RealCompile(src)
		if cerr != nil {
			r.note("the untyped-map witness (INNER.%s) is rejected by the compiler now: %s", o, firstLine(cerr.Error()))
			continue
		}
		err := c07CallGraph(src)
		switch {
		case o == "y1" && err != nil:
			r.violate(Violation{Kind: "property", Key: "C07:pipe:accepted-but-callgraph-fails", What: "the control program of the untyped-map witness cannot be invoked: " + firstLine(err.Error()),
				Input: map[string]interface{}{"program": src, "error": err.Error()}})
		case o == "y0" && err != nil:
			r.violate(Violation{Kind: "property", Key: c07UntypedMapKey,
				What:  "`map x0 = INNER.y0` (struct output of a nested pipeline whose return binding is a struct literal containing a reference) is accepted by the compiler, but the pipeline cannot be invoked: " + firstLine(err.Error()),
				Input: map[string]interface{}{"program": src, "error": err.Error()}})
		}
	}
}

// c07WildArityStream: wildcard calls, systematically: source `* = self` /
// `* = PROD` / `* = self.s` (struct input); the callee takes 1..3 of the members
// plus 0..2 parameters that are not members, of which 0..all are bound
// explicitly (so 0, 1 or 2 parameters stay unbound), with and without an
// explicit binding that duplicates a member.
func c07WildArityStream(c *Ctx) {
	members := []c17Field{{"a", c07B("int")}, {"b", c07B("string")}, {"c", c07B("float")}}
	lit := map[string]*c07Exp{"a": c07Int(1), "b": c07Str("x"), "c": c07Flo(c07Floats[0])}
	for src := 0; src < 3; src++ {
		for take := 1; take <= 3; take++ {
			for extra := 0; extra <= 2; extra++ {
				for bound := 0; bound <= extra; bound++ {
					for _, dup := range []bool{false, true} {
						p := &c07Pipe{name: "P", outs: []c17Field{{"r", c07B("int")}}}
						prod := &c07PCallee{name: "PROD", isStage: true, params: []c17Field{{"seed", c07B("int")}}, outs: members}
						callee := &c07PCallee{name: "S", isStage: true, outs: []c17Field{{"r", c07B("int")}}}
						st := &c07PStm{id: "S", callee: callee}
						switch src {
						case 0:
							p.ins = members
							st.wild = &c07Wild{self: true}
						case 1:
							st.wild = &c07Wild{e: c07Ref('c', "PROD")}
						case 2:
							p.ins = []c17Field{{"s", c07Wide}}
							st.wild = &c07Wild{e: c07Ref('r', "s")}
						}
						if len(p.ins) > 0 {
							sink := &c07PCallee{name: "SINK", isStage: true, params: p.ins, outs: []c17Field{{"r", c07B("int")}}}
							p.extra = append(p.extra, sink)
							ss := &c07PStm{id: "SINK", callee: sink}
							for _, f := range p.ins {
								ss.binds = append(ss.binds, c07NamedBind{f.id, c07Bind{e: c07Ref('r', f.id)}})
							}
							p.calls = append(p.calls, ss)
						}
						p.extra = append(p.extra, prod, callee)
						p.calls = append(p.calls, &c07PStm{id: "PROD", callee: prod, binds: []c07NamedBind{{"seed", c07Bind{e: c07Int(1)}}}})
						callee.params = append(callee.params, members[:take]...)
						for i := 0; i < extra; i++ {
							x := c17Field{fmt.Sprintf("x%d", i), c07B("int")}
							callee.params = append(callee.params, x)
							if i < bound {
								st.binds = append(st.binds, c07NamedBind{x.id, c07Bind{e: c07Int(int64(i))}})
							}
						}
						if dup {
							st.binds = append(st.binds, c07NamedBind{"a", c07Bind{e: lit["a"]}})
						}
						p.calls = append(p.calls, st)
						p.ret = []c07NamedBind{{"r", c07Bind{e: c07Ref('c', "S", "r")}}}
						p.features = []string{fmt.Sprintf("wild_arity_missing_%d", extra-bound)}
						c07JudgePipe(c, p, "wild_arity")
					}
				}
			}
		}
	}
}

// c07UnusedInputStream: one pipeline input `u`, used in exactly one place (or
// nowhere): deep inside a literal of a call binding, under split, as the
// `disabled` modifier, through `* = self`, through `* = self.u` (struct input),
// in a return binding (plain, nested in a literal, wildcard), only in the retain
// list (does not count), not at all.
func c07UnusedInputStream(c *Ctx) {
	for variant := 0; variant < 11; variant++ {
		ut := c07B("int")
		switch variant {
		case 2:
			ut = c07B("bool")
		case 4, 8:
			ut = c07Pair
		case 9:
			ut = c07B("file")
		}
		p := &c07Pipe{name: "P", ins: []c17Field{{"u", ut}}, outs: []c17Field{{"r", c07B("int")}}}
		callee := &c07PCallee{name: "S", isStage: true, params: []c17Field{{"x", c07A(c07B("int"))}}, outs: []c17Field{{"r", c07B("int")}, {"f", c07B("file")}}}
		st := &c07PStm{id: "S", callee: callee, binds: []c07NamedBind{{"x", c07Bind{e: c07Arr(c07Int(1))}}}}
		p.ret = []c07NamedBind{{"r", c07Bind{e: c07Ref('c', "S", "r")}}}
		u := c07Ref('r', "u")
		switch variant {
		case 0: // deep in a literal
			st.binds[0].b.e = c07Arr(c07Int(1), u)
		case 1: // under split
			callee.params[0].t = c07B("int")
			st.binds[0].b = c07Bind{split: true, e: c07Arr(u, c07Int(2))}
		case 2: // disabled modifier only
			st.mods.using = []c07ModItem{{tag: 'D', e: u}}
		case 3: // `* = self`
			callee.params = append(callee.params, c17Field{"u", ut})
			st.wild = &c07Wild{self: true}
		case 4: // `* = self.u` (struct PAIR: members a, b)
			callee.params = append(callee.params, c17Field{"a", c07B("int")})
			st.wild = &c07Wild{e: u}
		case 5: // return binding
			p.ret[0].b.e = u
		case 6: // nested in a return literal
			p.outs[0].t = c07A(c07B("int"))
			p.ret[0].b.e = c07Arr(c07Ref('c', "S", "r"), u)
		case 7: // return wildcard `* = self`
			p.outs = append(p.outs, c17Field{"u", ut})
			p.retWild = &c07Wild{self: true}
		case 8: // return wildcard `* = self.u`
			p.outs = append(p.outs, c17Field{"b", c07B("string")})
			p.retWild = &c07Wild{e: u}
		case 9: // only retained
			p.retain = []*c07Exp{u}
		case 10: // not at all
		}
		p.extra = []*c07PCallee{callee}
		p.calls = []*c07PStm{st}
		p.features = []string{fmt.Sprintf("unused_input_variant_%d", variant)}
		c07JudgePipe(c, p, "unused_input")
	}
}

// c07NestedRuntime: the delivered-value oracle for nested (mapped) pipelines:
// programs of the pipeline stream that model and compiler accept and that call
// a nested pipeline are run in Tier A at enforcement level error with
// type-conforming fake stage outputs; the run time validates every argument it
// delivers, so any final state other than complete is a violation.
func c07NestedRuntime(c *Ctx, max int) {
	r := c.Res
	var progs []*rtProgram
	for i, src := range c07NestedRun {
		if len(progs) >= max {
			break
		}
		p, err := compileProgram(fmt.Sprintf("pipe%d", i), src, nil)
		if err != nil {
			r.note("nested program no longer compiles for Tier A: %v", firstLine(err.Error()))
			continue
		}
		progs = append(progs, p)
	}
	c07NestedRun = nil
	if len(progs) == 0 {
		return
	}
	taInit()
	for _, cs := range runCases(c, progs, 1, TASpec{}) {
		res := cs.res
		r.hist("pipe_tiera_final_" + finalClass(res.Final))
		r.count(cs.prog.Src, true)
		if res.Final == "complete" {
			// the model's checked run (runProgram, stages returning null outputs) of the same program must not fail
			if req := c07NestedReq[cs.prog.Src]; req != "" {
				rep := c.Drv.Ask("C07.progrun", req)
				switch rep {
				case "run none":
					r.hist("pipe_tiera_complete_model_run_fails")
				case "run nullDisabled":
					r.hist("pipe_tiera_complete_model_run_nullDisabled") // the model's stages return null, also for `disabled` flags
				default:
					r.hist("pipe_tiera_complete_model_run_ok")
				}
				if rep == "run none" {
					r.violate(Violation{Kind: "correspondence", Key: "C07:progrun:model-fails", What: "the real run of an accepted nested program completes, but the model's checked run (runProgram with null stage outputs) fails",
						Input: map[string]interface{}{"program": cs.prog.Src}, Model: rep, Impl: "complete", Broken: "correspondence runProgram ~ Tier-A run"})
				}
			}
			continue
		}
		if res.Final == "compile-error" {
			r.violate(Violation{Kind: "property", Key: "C07:invoke-rejects-compiled:" + firstLine(res.Compile),
				What: "program compiles but cannot be invoked: " + firstLine(res.Compile), Input: map[string]interface{}{"program": cs.prog.Src}})
			continue
		}
		r.violate(Violation{Kind: "property", Key: "C07:runtime:" + classifyRuntimeError(res.Final, res.ErrMsg),
			What:  "a generated program with a nested pipeline, accepted by model and compiler, run with type-conforming stage outputs, ended " + finalClass(res.Final) + ": " + firstLine(res.ErrMsg),
			Input: map[string]interface{}{"program": cs.prog.Src, "spec": cs.spec.Name, "seed": cs.spec.Seed, "error": res.ErrMsg, "history": excerpt(res.Events, 120)}})
	}
}

// c07DisabledRuntime: the `disabled` modifier at run time, model (runProgram /
// disabledRT: a disabled call is not invoked and delivers null outputs; a null
// `disabled` value stops the run: Res.nullDisabled) against the real runtime under the
// Tier-A job manager. One program, three top-level calls (d = true / false /
// null): a MAP call with literal keys of a stage with a file output and a single
// call, both `using (disabled = self.d)`, a consumer of both, both returned.
// Compared: which stages were launched, which top-level outputs are null, and
// the keys of the map-call output.
func c07DisabledRuntime(c *Ctx) {
	r := c.Res
	f := &c07PCallee{name: "F", isStage: true, params: []c17Field{{"a", c07B("int")}}, outs: []c17Field{{"f", c07B("file")}}}
	g := &c07PCallee{name: "G", isStage: true, params: []c17Field{{"a", c07B("int")}}, outs: []c17Field{{"f", c07B("file")}}}
	sink := &c07PCallee{name: "SINK", isStage: true, params: []c17Field{{"m", c07M(c07B("file"))}, {"g", c07B("file")}}, outs: []c17Field{{"r", c07B("int")}}}
	dis := c07Mods{using: []c07ModItem{{tag: 'D', e: c07Ref('r', "d")}}}
	p := &c07Pipe{name: "P", ins: []c17Field{{"d", c07B("bool")}}, outs: []c17Field{{"r", c07M(c07B("file"))}, {"g", c07B("file")}},
		extra: []*c07PCallee{f, g, sink},
		calls: []*c07PStm{
			{id: "F", callee: f, binds: []c07NamedBind{{"a", c07Bind{split: true, e: &c07Exp{kind: 'm', keys: []string{"ka", "kb"}, elems: []*c07Exp{c07Int(1), c07Int(2)}}}}}, mods: dis},
			{id: "G", callee: g, binds: []c07NamedBind{{"a", c07Bind{e: c07Int(3)}}}, mods: dis},
			{id: "SINK", callee: sink, binds: []c07NamedBind{{"m", c07Bind{e: c07Ref('c', "F", "f")}}, {"g", c07Bind{e: c07Ref('c', "G", "f")}}}},
		},
		ret: []c07NamedBind{{"r", c07Bind{e: c07Ref('c', "F", "f")}}, {"g", c07Bind{e: c07Ref('c', "G", "f")}}}}
	src := p.program()
	if _, cerr := c07RealCompile(src); cerr != nil {
		r.violate(Violation{Kind: "correspondence", Key: "C07:disabled-runtime:rejected", What: "the disabled-modifier program is rejected by the compiler: " + firstLine(cerr.Error()),
			Input: map[string]interface{}{"program": src}})
		return
	}
	ds := []*c07Exp{c07Bool(true), c07Bool(false), c07Null()}
	var progs []*rtProgram
	var models []string
	for i, d := range ds {
		top := &c07PStm{id: "P", callee: &c07PCallee{name: "P", params: p.ins, outs: p.outs}, binds: []c07NamedBind{{"d", c07Bind{e: d}}}}
		rep := c.Drv.Ask("C07.progrun", strings.Join([]string{"1", p.enc(), top.enc(), "2"}, " "))
		full := src + "call P(\n    d = " + d.mro() + ",\n)\n"
		r.count(full, true)
		q, err := compileProgram(fmt.Sprintf("disabled%d", i), full, nil)
		if d.kind == 'n' {
			// a null known at invocation: refused by resolveDisableExp; the model's run stops (Res.nullDisabled)
			r.hist("disabled_runtime_static_null")
			if err == nil || !strings.Contains(err.Error(), "disabled cannot be bound to a null value") || rep != "run nullDisabled" {
				r.violate(Violation{Kind: "correspondence", Key: "C07:disabled-runtime:null", What: "`disabled` bound to a null top-level input: the real code must refuse the invocation (disabled cannot be bound to a null value) and the model's run must stop with nullDisabled",
					Input: map[string]interface{}{"program": full}, Model: rep, Impl: fmt.Sprint(err), Broken: "correspondence disabledRT ~ resolveDisableExp / Fork.disabled (Props.C07.disabled_null_witness)"})
			}
			continue
		}
		if err != nil {
			r.violate(Violation{Kind: "property", Key: "C07:disabled-runtime:invoke", What: "the accepted disabled-modifier program cannot be invoked: " + firstLine(err.Error()),
				Input: map[string]interface{}{"program": full, "error": err.Error()}})
			continue
		}
		progs = append(progs, q)
		models = append(models, rep)
	}
	if len(progs) == 0 {
		return
	}
	// skeleton of a top-level outputs object: per output null / keys of an object / "v"
	skel := func(t *c17J) string {
		if t == nil || t.kind != 'o' {
			return "?"
		}
		var parts []string
		for i, k := range t.keys {
			v := t.arr[i]
			switch {
			case v.kind == 'n':
				parts = append(parts, k+"=null")
			case v.kind == 'o':
				ks := append([]string{}, v.keys...)
				sort.Strings(ks)
				parts = append(parts, k+"={"+strings.Join(ks, ",")+"}")
			default:
				parts = append(parts, k+"=v")
			}
		}
		sort.Strings(parts)
		return strings.Join(parts, " ")
	}
	taInit()
	for i, cs := range runCases(c, progs, 1, TASpec{}) {
		res := cs.res
		r.hist("disabled_runtime_" + finalClass(res.Final))
		in := map[string]interface{}{"program": cs.prog.Src, "model": models[i]}
		if res.Final != "complete" {
			r.violate(Violation{Kind: "property", Key: "C07:disabled-runtime:" + classifyRuntimeError(res.Final, res.ErrMsg),
				What: "the disabled-modifier program ended " + finalClass(res.Final) + ": " + firstLine(res.ErrMsg), Input: in})
			continue
		}
		if !strings.HasPrefix(models[i], "run ") || models[i] == "run none" {
			r.violate(Violation{Kind: "correspondence", Key: "C07:disabled-runtime:model-fails", What: "the checked run of the model fails on a program the runtime completes: " + models[i],
				Input: in, Broken: "Props.C07.program_sound_partial (disabledRT)"})
			continue
		}
		mt, _, e1 := c17ParseEnc(strings.Split(strings.TrimPrefix(models[i], "run "), " "))
		it, e2 := c17ParseJSON(res.TopOuts)
		if e1 != nil || e2 != nil {
			r.note("disabled runtime: cannot parse outputs: %v %v (%s)", e1, e2, string(res.TopOuts))
			continue
		}
		launchedF, launchedG := 0, 0
		for k, n := range res.Launches {
			if strings.Contains(k, ".P.F.") {
				launchedF += n
			}
			if strings.Contains(k, ".P.G.") {
				launchedG += n
			}
		}
		ms, is := skel(mt), skel(it)
		// model: an output is null iff the call was disabled (the stages of the model's oracle return null
		// outputs, which a fork keeps as {"ka": null, "kb": null} and a single call as null: only `r` tells)
		modelDisabled := strings.Contains(ms, "r=null")
		implDisabled := launchedF == 0 && launchedG == 0
		in["model_skeleton"], in["impl_skeleton"], in["launched_F"], in["launched_G"] = ms, is, launchedF, launchedG
		r.hist(fmt.Sprintf("disabled_runtime_checked_disabled=%v", implDisabled))
		wantImpl := "g=v r={ka,kb}"
		if implDisabled {
			wantImpl = "g=null r=null"
		}
		wantModel := "g=null r={ka,kb}"
		if modelDisabled {
			wantModel = "g=null r=null"
		}
		if modelDisabled != implDisabled || is != wantImpl || ms != wantModel || (launchedF == 0) != (launchedG == 0) {
			r.violate(Violation{Kind: "correspondence", Key: "C07:disabled-runtime:differs", What: "model and runtime disagree on a call with a `disabled` modifier (invoked or not, null outputs, fork keys)",
				Input: in, Model: ms, Impl: is, Broken: "correspondence disabledRT / stepCall ~ runtime disabled"})
		}
	}
}

func c07Pipelines(c *Ctx) {
	c07PreflightWitness(c)
	c07DisabledRuntime(c)
	c07MergeUntypedMapStream(c)
	c07UntypedMapWitness(c)
	c07WildArityStream(c)
	c07UnusedInputStream(c)
	n := 600
	if c.Thorough {
		n = 4000
	}
	for i := 0; i < n; i++ {
		c07JudgePipe(c, c07GenPipe(c), "random")
	}
	m := 150
	if c.Thorough {
		m = 3000
	}
	c07StageRetainStream(c, m)
	k := 30
	if c.Thorough {
		k = 300
	}
	c07NestedRuntime(c, k)
}
