package main

// C01: translator from the compiled source-level AST (*syntax.Ast as produced
// by syntax.ParseSourceBytes: declarations, calls, binding expressions) to the
// textual program encoding parsed by lean/Driver/C01.lean.  It deliberately
// reads only the source-level AST — never the call graph / resolved bindings
// (that is what is being checked).

import (
	"bytes"
	"encoding/hex"
	"encoding/json"
	"fmt"
	"sort"
	"strconv"
	"strings"

	"github.com/martian-lang/martian/martian/syntax"
)

type c01Unsupported struct{ what string }

func (e *c01Unsupported) Error() string { return "unsupported: " + e.what }

func c01hx(s string) string { return "x" + hex.EncodeToString([]byte(s)) }

// canonical number text: integers as integers, everything else in Go's
// shortest float encoding
func c01Num(text string) string {
	if i, err := strconv.ParseInt(text, 10, 64); err == nil {
		return strconv.FormatInt(i, 10)
	}
	f, err := strconv.ParseFloat(text, 64)
	if err != nil {
		return text
	}
	if f == float64(int64(f)) && f > -1e15 && f < 1e15 {
		return strconv.FormatInt(int64(f), 10)
	}
	return strconv.FormatFloat(f, 'g', -1, 64)
}

func c01Str(s string) string {
	var buf bytes.Buffer
	enc := json.NewEncoder(&buf)
	enc.SetEscapeHTML(false)
	enc.Encode(s)
	return strings.TrimRight(buf.String(), "\n")
}

func c01Atom(text string) string { return "(a " + c01hx(text) + ")" }

// JSON value (decoded with UseNumber) -> JV
func c01JV(sb *strings.Builder, v interface{}) {
	switch t := v.(type) {
	case nil:
		sb.WriteString("n")
	case bool:
		if t {
			sb.WriteString(c01Atom("true"))
		} else {
			sb.WriteString(c01Atom("false"))
		}
	case json.Number:
		sb.WriteString(c01Atom(c01Num(string(t))))
	case float64:
		sb.WriteString(c01Atom(c01Num(strconv.FormatFloat(t, 'g', -1, 64))))
	case int:
		sb.WriteString(c01Atom(strconv.Itoa(t)))
	case string:
		sb.WriteString(c01Atom(c01Str(t)))
	case []interface{}:
		sb.WriteString("(l")
		for _, x := range t {
			sb.WriteByte(' ')
			c01JV(sb, x)
		}
		sb.WriteString(")")
	case map[string]interface{}:
		keys := make([]string, 0, len(t))
		for k := range t {
			keys = append(keys, k)
		}
		sort.Strings(keys)
		sb.WriteString("(o")
		for _, k := range keys {
			sb.WriteString(" (kv " + c01hx(k) + " ")
			c01JV(sb, t[k])
			sb.WriteString(")")
		}
		sb.WriteString(")")
	default:
		sb.WriteString("n")
	}
}

func c01DecodeJSON(raw []byte) (interface{}, error) {
	dec := json.NewDecoder(bytes.NewReader(raw))
	dec.UseNumber()
	var v interface{}
	if err := dec.Decode(&v); err != nil {
		return nil, err
	}
	return v, nil
}

func c01RawJV(raw []byte) (string, error) {
	v, err := c01DecodeJSON(raw)
	if err != nil {
		return "", err
	}
	var sb strings.Builder
	c01JV(&sb, v)
	return sb.String(), nil
}

func c01Param(id string, t syntax.TypeId) string {
	return fmt.Sprintf("(p %s %s %d %d)", id, t.Tname, t.MapDim, t.ArrayDim)
}

func c01Path(p string) string {
	if p == "" {
		return ""
	}
	return " " + strings.Join(strings.Split(p, "."), " ")
}

func c01Exp(sb *strings.Builder, e syntax.Exp) error {
	switch t := e.(type) {
	case nil:
		sb.WriteString("(lit n)")
	case *syntax.NullExp:
		sb.WriteString("(lit n)")
	case *syntax.StringExp:
		sb.WriteString("(lit " + c01Atom(c01Str(t.Value)) + ")")
	case *syntax.BoolExp:
		if t.Value {
			sb.WriteString("(lit " + c01Atom("true") + ")")
		} else {
			sb.WriteString("(lit " + c01Atom("false") + ")")
		}
	case *syntax.IntExp:
		sb.WriteString("(lit " + c01Atom(strconv.FormatInt(t.Value, 10)) + ")")
	case *syntax.FloatExp:
		sb.WriteString("(lit " + c01Atom(c01Num(strconv.FormatFloat(t.Value, 'g', -1, 64))) + ")")
	case *syntax.ArrayExp:
		sb.WriteString("(arr")
		for _, x := range t.Value {
			sb.WriteByte(' ')
			if err := c01Exp(sb, x); err != nil {
				return err
			}
		}
		sb.WriteString(")")
	case *syntax.MapExp:
		keys := make([]string, 0, len(t.Value))
		for k := range t.Value {
			keys = append(keys, k)
		}
		sort.Strings(keys)
		if t.Kind == syntax.KindStruct {
			sb.WriteString("(st")
		} else {
			sb.WriteString("(map")
		}
		for _, k := range keys {
			sb.WriteString(" (kv " + c01hx(k) + " ")
			if err := c01Exp(sb, t.Value[k]); err != nil {
				return err
			}
			sb.WriteString(")")
		}
		sb.WriteString(")")
	case *syntax.RefExp:
		if len(t.Forks) > 0 {
			return &c01Unsupported{"reference with fork indices in source AST"}
		}
		if t.Kind == syntax.KindSelf {
			if t.Id == "" {
				return &c01Unsupported{"bare self reference"}
			}
			sb.WriteString("(self " + t.Id + c01Path(t.OutputId) + ")")
		} else {
			sb.WriteString("(ref " + t.Id + c01Path(t.OutputId) + ")")
		}
	default:
		return &c01Unsupported{fmt.Sprintf("expression %T", e)}
	}
	return nil
}

func c01SplitExp(e syntax.Exp) (bool, syntax.Exp) {
	if s, ok := e.(*syntax.SplitExp); ok {
		return true, s.Value
	}
	return false, e
}

func c01Call(sb *strings.Builder, c *syntax.CallStm) error {
	mapped := c.Mapping != nil
	var binds strings.Builder
	if c.Bindings != nil {
		for _, b := range c.Bindings.List {
			if b.Id == "*" {
				continue // expanded by the compiler into the entries that follow
			}
			split, inner := c01SplitExp(b.Exp)
			mapped = mapped || split
			fmt.Fprintf(&binds, " (b %s %d ", b.Id, b2i(split))
			if err := c01Exp(&binds, inner); err != nil {
				return err
			}
			binds.WriteString(")")
		}
	}
	dis := "(dis)"
	if c.Modifiers != nil {
		if c.Modifiers.Preflight {
			return &c01Unsupported{"preflight call"}
		}
		if c.Modifiers.Bindings != nil {
			if d := c.Modifiers.Bindings.Table["disabled"]; d != nil {
				split, inner := c01SplitExp(d.Exp)
				mapped = mapped || split
				var ds strings.Builder
				if err := c01Exp(&ds, inner); err != nil {
					return err
				}
				dis = fmt.Sprintf("(dis %d %s)", b2i(split), ds.String())
			}
		}
	}
	fmt.Fprintf(sb, "(call %s %s %d (binds%s) %s)", c.Id, c.DecId, b2i(mapped), binds.String(), dis)
	return nil
}

func b2i(b bool) int {
	if b {
		return 1
	}
	return 0
}

// c01Program renders the whole compiled program.
func c01Program(ast *syntax.Ast) (string, error) {
	if ast.Call == nil {
		return "", &c01Unsupported{"no top-level call"}
	}
	var sb strings.Builder
	sb.WriteString("(prog (structs")
	for _, s := range ast.StructTypes {
		sb.WriteString(" (s " + s.Id)
		for _, m := range s.Members {
			sb.WriteString(" " + c01Param(m.Id, m.Tname))
		}
		sb.WriteString(")")
	}
	sb.WriteString(") (callables")
	for _, c := range ast.Callables.List {
		var ins, outs strings.Builder
		for _, p := range c.GetInParams().List {
			ins.WriteString(" " + c01Param(p.Id, p.Tname))
		}
		for _, p := range c.GetOutParams().List {
			outs.WriteString(" " + c01Param(p.Id, p.Tname))
		}
		switch t := c.(type) {
		case *syntax.Stage:
			fmt.Fprintf(&sb, " (stage %s (ins%s) (outs%s))", t.Id, ins.String(), outs.String())
		case *syntax.Pipeline:
			fmt.Fprintf(&sb, " (pipe %s (ins%s) (outs%s) (calls", t.Id, ins.String(), outs.String())
			for _, call := range t.Calls {
				sb.WriteByte(' ')
				if err := c01Call(&sb, call); err != nil {
					return "", err
				}
			}
			sb.WriteString(") (ret")
			if t.Ret != nil && t.Ret.Bindings != nil {
				for _, b := range t.Ret.Bindings.List {
					if b.Id == "*" {
						continue
					}
					sb.WriteString(" (r " + b.Id + " ")
					if err := c01Exp(&sb, b.Exp); err != nil {
						return "", err
					}
					sb.WriteString(")")
				}
			}
			sb.WriteString("))")
		}
	}
	sb.WriteString(") (top ")
	if ast.Call.Mapping != nil {
		return "", &c01Unsupported{"mapped top-level call"}
	}
	if err := c01Call(&sb, ast.Call); err != nil {
		return "", err
	}
	sb.WriteString("))")
	return sb.String(), nil
}
