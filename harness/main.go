// verif-harness: correspondence harness between martian-lang/martian (linked
// from the working tree with -tags verif) and the Lean model driver.
package main

import (
	"bufio"
	"crypto/sha256"
	"encoding/hex"
	"encoding/json"
	"flag"
	"fmt"
	"io"
	"math/rand"
	"os"
	"os/exec"
	"sort"
	"strings"
	"time"
)

// Result is what a property runner reports; ./check turns it into evidence,
// replay files and VIOLATION / KNOWN-FINDING lines.
type Result struct {
	Property   string                 `json:"property"`
	Tier       string                 `json:"tier"`
	Seed       int64                  `json:"seed"`
	Evals      int                    `json:"evaluations"`
	Distinct   int                    `json:"distinct_nontrivial"`
	Rule       string                 `json:"rule"`
	Samples    []interface{}          `json:"samples"`
	Histogram  map[string]int         `json:"histogram"`
	Violations []Violation            `json:"violations"`
	Notes      []string               `json:"notes"`
	Extra      map[string]interface{} `json:"extra,omitempty"`
	WallS      float64                `json:"wall_s"`

	seen map[string]bool
}

// Violation: either a disagreement between model and implementation
// (Kind="correspondence") or a direct failure of the property on the real
// code (Kind="property").  Key identifies the failing input class / call
// site for known-findings matching.
type Violation struct {
	Kind   string      `json:"kind"`
	Key    string      `json:"key"`
	What   string      `json:"what"`
	Input  interface{} `json:"input"`
	Impl   interface{} `json:"impl,omitempty"`
	Model  interface{} `json:"model,omitempty"`
	Expect interface{} `json:"expect,omitempty"`
	Broken string      `json:"broken,omitempty"` // theorem / correspondence that no longer checks
}

func (r *Result) hist(k string) {
	if r.Histogram == nil {
		r.Histogram = map[string]int{}
	}
	r.Histogram[k]++
}

// count registers one evaluated case; canon is its canonical form and
// nontrivial says whether it meets the property's non-triviality rule.
func (r *Result) count(canon string, nontrivial bool) {
	r.Evals++
	if !nontrivial {
		return
	}
	if r.seen == nil {
		r.seen = map[string]bool{}
	}
	h := sha256.Sum256([]byte(canon))
	k := string(h[:12])
	if !r.seen[k] {
		r.seen[k] = true
		r.Distinct++
	}
}

func (r *Result) sample(v interface{}) {
	if len(r.Samples) < 8 {
		r.Samples = append(r.Samples, v)
	}
}

func (r *Result) violate(v Violation) {
	// keep at most 5 per key, shortest inputs first is the runner's job
	n := 0
	for _, o := range r.Violations {
		if o.Key == v.Key {
			n++
		}
	}
	if n < 5 {
		r.Violations = append(r.Violations, v)
	}
}

func (r *Result) note(f string, a ...interface{}) {
	r.Notes = append(r.Notes, fmt.Sprintf(f, a...))
}

// ---- Lean driver client ----

type Driver struct {
	cmd *exec.Cmd
	in  *bufio.Writer
	out *bufio.Reader
	n   int
}

func startDriver(path string) (*Driver, error) {
	cmd := exec.Command(path)
	stdin, err := cmd.StdinPipe()
	if err != nil {
		return nil, err
	}
	stdout, err := cmd.StdoutPipe()
	if err != nil {
		return nil, err
	}
	cmd.Stderr = os.Stderr
	if err := cmd.Start(); err != nil {
		return nil, err
	}
	return &Driver{cmd: cmd, in: bufio.NewWriterSize(stdin, 1<<16),
		out: bufio.NewReaderSize(stdout, 1<<16)}, nil
}

// Ask sends one request and returns the one-line reply.
func (d *Driver) Ask(op string, args ...string) string {
	d.in.WriteString(op)
	for _, a := range args {
		d.in.WriteByte('\t')
		d.in.WriteString(a)
	}
	d.in.WriteByte('\n')
	d.in.Flush()
	line, err := d.out.ReadString('\n')
	if err != nil && err != io.EOF {
		fatal("driver read: %v", err)
	}
	if err == io.EOF && line == "" {
		fatal("driver died on op %s %v", op, args)
	}
	d.n++
	return strings.TrimRight(line, "\n")
}

// AskBatch pipelines many requests (much faster than Ask in a loop).
func (d *Driver) AskBatch(reqs [][]string) []string {
	res := make([]string, len(reqs))
	done := make(chan struct{})
	go func() {
		for i := range reqs {
			line, err := d.out.ReadString('\n')
			if err != nil {
				fatal("driver read: %v (request %v)", err, reqs[i])
			}
			res[i] = strings.TrimRight(line, "\n")
		}
		close(done)
	}()
	for _, r := range reqs {
		d.in.WriteString(strings.Join(r, "\t"))
		d.in.WriteByte('\n')
	}
	d.in.Flush()
	<-done
	d.n += len(reqs)
	return res
}

func (d *Driver) Close() {
	d.in.Flush()
	if c, ok := d.cmd.Stdin.(io.Closer); ok {
		c.Close()
	}
	d.cmd.Process.Kill()
	d.cmd.Wait()
}

func hx(s string) string {
	if s == "" {
		return "-"
	}
	return hex.EncodeToString([]byte(s))
}

func unhx(s string) string {
	if s == "-" {
		return ""
	}
	b, err := hex.DecodeString(s)
	if err != nil {
		return "<bad hex " + s + ">"
	}
	return string(b)
}

func hxList(xs []string) string {
	if len(xs) == 0 {
		return "."
	}
	o := make([]string, len(xs))
	for i, x := range xs {
		o[i] = hx(x)
	}
	return strings.Join(o, ",")
}

func fatal(f string, a ...interface{}) {
	fmt.Fprintf(os.Stderr, "harness: "+f+"\n", a...)
	os.Exit(3)
}

// ---- registry ----

type Ctx struct {
	Tier     string
	Seed     int64
	Rng      *rand.Rand
	Drv      *Driver
	Res      *Result
	Corpus   string // /verif/corpus/<id>
	Scratch  string // fresh temp dir, removed at exit
	RepoDir  string
	Thorough bool
}

type runner func(c *Ctx)

var registry = map[string]runner{}

func register(id string, f runner) { registry[id] = f }

func main() {
	if len(os.Args) > 1 && os.Args[1] == "-record" {
		recordMain(os.Args[1:])
		return
	}
	if len(os.Args) > 2 && os.Args[1] == "-stage" {
		stageMain(os.Args[2:])
		return
	}
	var (
		tier   = flag.String("tier", "quick", "quick|thorough")
		seed   = flag.Int64("seed", 1, "PRNG seed")
		driver = flag.String("driver", "", "path of the Lean driver executable")
		out    = flag.String("out", "", "result JSON path")
		corpus = flag.String("corpus", "", "corpus directory for this property")
		repo   = flag.String("repo", "/repo", "martian source tree (for data files)")
	)
	worker := flag.Bool("worker", false, "internal: Tier-A worker process")
	flag.Parse()
	if *worker {
		workerMain()
		return
	}
	if flag.NArg() != 1 {
		ids := []string{}
		for k := range registry {
			ids = append(ids, k)
		}
		sort.Strings(ids)
		fatal("usage: harness [flags] <property>; known: %v", ids)
	}
	id := flag.Arg(0)
	f, ok := registry[id]
	if !ok {
		fatal("unknown property %s", id)
	}
	start := time.Now()
	res := &Result{Property: id, Tier: *tier, Seed: *seed}
	c := &Ctx{Tier: *tier, Seed: *seed, Rng: rand.New(rand.NewSource(*seed)),
		Res: res, Corpus: *corpus, RepoDir: *repo, Thorough: *tier == "thorough"}
	if *driver != "" {
		d, err := startDriver(*driver)
		if err != nil {
			fatal("cannot start driver: %v", err)
		}
		c.Drv = d
		defer d.Close()
	}
	// a worker sub-command (C01W, C12W, …) may be killed by its parent or leave through os.Exit, and
	// then its deferred clean-up does not run: children create their scratch directory INSIDE the
	// parent's, which the parent removes
	scratch, err := os.MkdirTemp(os.Getenv("VERIF_PARENT_SCRATCH"), "verif-"+id+"-")
	if err != nil {
		fatal("%v", err)
	}
	os.Setenv("VERIF_PARENT_SCRATCH", scratch)
	c.Scratch = scratch
	func() {
		defer os.RemoveAll(scratch)
		f(c)
	}()
	res.WallS = time.Since(start).Seconds()
	if res.Samples == nil {
		res.Samples = []interface{}{}
	}
	if res.Violations == nil {
		res.Violations = []Violation{}
	}
	b, _ := json.MarshalIndent(res, "", " ")
	if *out == "" {
		os.Stdout.Write(b)
		fmt.Println()
	} else if err := os.WriteFile(*out, b, 0o644); err != nil {
		fatal("%v", err)
	}
}
