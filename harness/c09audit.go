package main

// C09 — audit of the canonical AST dump (c09Dump and friends in c09.go) against the Go AST
// structs of package syntax, run on every check:
//
//  1. static: reflect walks every struct type reachable from syntax.Ast through exported (and
//     embedded) fields; every field must be classified in c09DumpFields as covered by the dump,
//     a container whose own fields are classified, or excluded with a reason.  A field that is
//     in the Go struct but not in the table (e.g. one added to the AST later) fails the run.
//     Implementations of the Exp interface are read from the source of the working tree
//     (methods `getKind() ExpKind`) so that a new expression type cannot go unnoticed either.
//  2. dynamic: a fixed program setting every covered field to a non-default value is parsed;
//     every covered field is altered through reflect (bool flipped, number + 1, string extended,
//     pointer / interface cleared, slice / map shortened) and the dump must change; every field
//     excluded as "not set by the parser" must be zero in that AST.

import (
	"fmt"
	"os"
	"path/filepath"
	"reflect"
	"regexp"
	"sort"
	"strings"

	"github.com/martian-lang/martian/martian/syntax"
)

// classification of "Type.Field":
//
//	"dump"            the value is in the dump (struct-typed: through its own fields)
//	"dump:<how>"      the value is in the dump in the stated reduced form
//	"walk"            container only (AstNode): its fields are classified one by one
//	"skip:<reason>"   excluded, whatever its value
//	"zero:<reason>"   excluded because the parser never sets it (checked: zero after UncheckedParse)
var c09DumpFields = map[string]string{
	"Ast.UserTypes":   "dump",
	"Ast.StructTypes": "dump",
	"Ast.TypeTable":   "zero:type table, built by compile from UserTypes and StructTypes",
	"Ast.Files":       "skip:source file objects (names and paths of the files parsed), not part of the program",
	"Ast.Stages":      "dump",
	"Ast.Pipelines":   "dump",
	"Ast.Callables":   "dump",
	"Ast.Call":        "dump",
	"Ast.Errors":      "zero:diagnostics collected by compile",
	"Ast.Includes":    "dump",

	"Callables.List":  "dump:kind and id of each entry, in order (the declarations themselves are dumped from Ast.Stages / Ast.Pipelines, which hold the same pointers)",
	"Callables.Table": "zero:lookup table by id, populated by compile",

	"Include.Node":  "walk",
	"Include.Value": "dump",

	"AstNode.Loc":      "skip:source location (line, column, file pointer): layout, not program",
	"AstNode.Comments": "skip:comments are compared by the comment-multiset monitor (c09Comments), not by the dump",

	"UserType.Node": "walk",
	"UserType.Id":   "dump",

	"StructType.Node":    "walk",
	"StructType.Id":      "dump",
	"StructType.Members": "dump",
	"StructType.Table":   "zero:lookup table by member id, populated by compile",

	"StructMember.Node":    "walk",
	"StructMember.Tname":   "dump",
	"StructMember.Id":      "dump",
	"StructMember.OutName": "dump",
	"StructMember.Help":    "dump",

	"TypeId.Tname":    "dump",
	"TypeId.ArrayDim": "dump",
	"TypeId.MapDim":   "dump",

	"Stage.Node":      "walk",
	"Stage.Id":        "dump",
	"Stage.InParams":  "dump",
	"Stage.OutParams": "dump",
	"Stage.Retain":    "dump",
	"Stage.Src":       "dump",
	"Stage.ChunkIns":  "dump",
	"Stage.ChunkOuts": "dump",
	"Stage.Resources": "dump",
	"Stage.Split":     "dump",

	"InParams.List":   "dump",
	"InParams.Table":  "zero:lookup table by parameter id, populated by compile",
	"OutParams.List":  "dump",
	"OutParams.Table": "zero:lookup table by parameter id, populated by compile",

	"InParam.Node":   "walk",
	"InParam.Tname":  "dump",
	"InParam.Id":     "dump",
	"InParam.Help":   "dump",
	"InParam.Isfile": "zero:file kind of the parameter's type, derived by compile from the type table",

	"OutParam.StructMember": "dump",

	"SrcParam.Node": "walk",
	"SrcParam.Lang": "dump",
	"SrcParam.Type": "zero:StageCodeType, derived by compile from Lang",
	"SrcParam.Path": "dump",
	"SrcParam.Args": "dump",

	"Resources.Node":           "walk",
	"Resources.ThreadNode":     "dump:presence (the key was written)",
	"Resources.MemNode":        "dump:presence (the key was written)",
	"Resources.VMemNode":       "dump:presence (the key was written)",
	"Resources.SpecialNode":    "dump:presence (the key was written)",
	"Resources.VolatileNode":   "dump:presence (the key was written)",
	"Resources.Special":        "dump",
	"Resources.Threads":        "dump:exact float32",
	"Resources.MemGB":          "dump:exact float32",
	"Resources.VMemGB":         "dump:exact float32",
	"Resources.StrictVolatile": "dump",

	"RetainParams.Node":   "walk",
	"RetainParams.Params": "dump",
	"RetainParam.Node":    "walk",
	"RetainParam.Id":      "dump",

	"Pipeline.Node":      "walk",
	"Pipeline.Id":        "dump",
	"Pipeline.InParams":  "dump",
	"Pipeline.OutParams": "dump",
	"Pipeline.Calls":     "dump:as a multiset (the formatter sorts calls by dependency: c09Topo checks the order)",
	"Pipeline.Callables": "skip:the callables the pipeline calls, resolved by compile (the parser stores an empty set for a pipeline without calls, nothing otherwise)",
	"Pipeline.Ret":       "dump",
	"Pipeline.Retain":    "dump",

	"PipelineRetains.Node": "walk",
	"PipelineRetains.Refs": "dump",
	"ReturnStm.Node":       "walk",
	"ReturnStm.Bindings":   "dump",

	"CallStm.Node":      "walk",
	"CallStm.Modifiers": "dump",
	"CallStm.Id":        "dump",
	"CallStm.DecId":     "dump",
	"CallStm.Bindings":  "dump",
	"CallStm.Mapping":   "dump:presence (the parser stores one shared placeholder for `map call`; the source is the split binding, which is dumped)",

	"Modifiers.Bindings":  "dump:local/preflight/volatile bool bindings merged with the keywords (a binding wins), the rest sorted by id",
	"Modifiers.Local":     "dump:merged with a `local = ` binding",
	"Modifiers.Preflight": "dump:merged with a `preflight = ` binding",
	"Modifiers.Volatile":  "dump:merged with a `volatile = ` binding",

	"BindStms.Node":  "walk",
	"BindStms.List":  "dump",
	"BindStms.Table": "zero:lookup table by binding id, populated by compile",
	"BindStm.Node":   "walk",
	"BindStm.Id":     "dump",
	"BindStm.Exp":    "dump",
	"BindStm.Tname":  "zero:type of the bound parameter, filled in by compile",

	"valExp.Node":      "walk",
	"ArrayExp.valExp":  "walk",
	"ArrayExp.Value":   "dump",
	"MapExp.valExp":    "walk",
	"MapExp.Kind":      "dump",
	"MapExp.Value":     "dump:sorted by key",
	"StringExp.valExp": "walk",
	"StringExp.Value":  "dump",
	"BoolExp.valExp":   "walk",
	"BoolExp.Value":    "dump",
	"IntExp.valExp":    "walk",
	"IntExp.Value":     "dump",
	"FloatExp.valExp":  "walk",
	"FloatExp.Value":   "dump:exact bits, except that an integral value below 1e15 is dumped like the int it is printed as",
	"NullExp.valExp":   "walk",

	"RefExp.Node":     "walk",
	"RefExp.Kind":     "dump",
	"RefExp.Id":       "dump",
	"RefExp.OutputId": "dump",
	"RefExp.Forks":    "zero:fork indices, set only when a call graph is resolved (no mro syntax)",

	"SplitExp.valExp": "walk",
	"SplitExp.Value":  "dump",
	"SplitExp.Type":   "zero:type of the binding, filled in by compile",
	"SplitExp.Call":   "zero:the call split over, filled in by compile",
	"SplitExp.Source": "skip:dimension source: the parser stores the Value node itself for a literal collection and nothing for a reference; compile resolves it",
}

// Implementations of the interfaces met on the way.  Exp implementations are cross-checked with
// the source of the working tree.
var c09ExpImpls = map[string]reflect.Type{
	"ArrayExp":  reflect.TypeOf(syntax.ArrayExp{}),
	"MapExp":    reflect.TypeOf(syntax.MapExp{}),
	"StringExp": reflect.TypeOf(syntax.StringExp{}),
	"BoolExp":   reflect.TypeOf(syntax.BoolExp{}),
	"IntExp":    reflect.TypeOf(syntax.IntExp{}),
	"FloatExp":  reflect.TypeOf(syntax.FloatExp{}),
	"NullExp":   reflect.TypeOf(syntax.NullExp{}),
	"RefExp":    reflect.TypeOf(syntax.RefExp{}),
	"SplitExp":  reflect.TypeOf(syntax.SplitExp{}),
}

// expression types no grammar rule and no compile step builds
var c09ExpExcluded = map[string]string{
	"MergeExp":    "built only by call-graph resolution (merge of a mapped call's forks); no mro syntax; c09Exp dumps an unknown expression type as <type>, so one appearing would be seen",
	"DisabledExp": "built only by call-graph resolution (value of a conditionally disabled call); no mro syntax",
}

var c09IfaceImpls = map[string][]reflect.Type{
	"Callable":      {reflect.TypeOf(syntax.Stage{}), reflect.TypeOf(syntax.Pipeline{})},
	"MapCallSource": nil, // CallStm.Mapping: presence only, see the table
}

const c09SyntaxPkg = "github.com/martian-lang/martian/martian/syntax"

// c09AuditProgram sets every field the dump claims to cover to a non-default value.
const c09AuditProgram = `@include "lib/inc.mro"

filetype txt;
filetype json.gz;

struct PAIR(
    int          a "help a" "out_a",
    map<txt[]>[] b,
)

stage ST(
    in  int      x     "x help",
    in  map<int> m,
    out txt      o     "o help"  "o.txt",
    out int[],
    src comp     "bin/st -v --k=v",
) split (
    in  int      chunk "c help",
    out txt      part  "p help"  "p.txt",
) using (
    mem_gb   = -2.5,
    special  = "spe\"cial",
    threads  = 1.25,
    vmem_gb  = 0.75,
    volatile = strict,
) retain (
    o,
)

pipeline PI(
    in  int p "p help",
    out txt r "r help" "r.txt",
)
{
    call local preflight volatile ST as A(
        x = 1,
        m = {
            "j": [
                true,
                null,
                "s",
            ],
            "k": 2.5,
        },
        * = self,
    )

    map call ST as B(
        x = split [
            1,
            2,
        ],
        m = {
            f: A.o.x,
        },
    ) using (
        disabled = self.p,
    )

    return (
        r = B.o,
    )

    retain (
        A.o,
    )
}

call PI(
    p = 3,
)
`

var c09GetKindRe = regexp.MustCompile(`(?m)^func \((?:\w+ )?\*?(\w+)\) getKind\(\) ExpKind`)

func c09AuditDump(c *Ctx) {
	r := c.Res
	fail := func(key, what string) {
		r.violate(Violation{Kind: "correspondence", Key: "C09:dump-audit:" + key, What: what,
			Input: key, Broken: "C09 AST dump covers every declaration-level field"})
	}

	// ---- 0. the Exp implementations of the working tree ----
	files, _ := filepath.Glob(filepath.Join(c.RepoDir, "martian/syntax/*.go"))
	found := map[string]bool{}
	for _, f := range files {
		if strings.HasSuffix(f, "_test.go") {
			continue
		}
		b, err := os.ReadFile(f)
		if err != nil {
			continue
		}
		for _, m := range c09GetKindRe.FindAllSubmatch(b, -1) {
			found[string(m[1])] = true
		}
	}
	if len(found) == 0 {
		fail("Exp:source-scan", "no `getKind() ExpKind` method found in "+filepath.Join(c.RepoDir, "martian/syntax")+": the list of expression types cannot be checked")
	}
	for name := range found {
		if _, ok := c09ExpImpls[name]; ok {
			continue
		}
		if _, ok := c09ExpExcluded[name]; ok {
			continue
		}
		fail("Exp:"+name, "type "+name+" implements Exp (has getKind) but the dump audit does not know it: add it to c09Exp and c09ExpImpls, or to c09ExpExcluded with a reason")
	}
	for name := range c09ExpImpls {
		if !found[name] && len(found) > 0 {
			fail("Exp:"+name, "the audit lists "+name+" as an Exp implementation but the source of the working tree has no getKind method for it")
		}
	}

	// ---- 1. static walk over the struct types ----
	seenType := map[reflect.Type]bool{}
	used := map[string]bool{}
	var types []string
	var walkType func(t reflect.Type, via string)
	walkType = func(t reflect.Type, via string) {
		switch t.Kind() {
		case reflect.Ptr, reflect.Slice, reflect.Array:
			walkType(t.Elem(), via)
			return
		case reflect.Map:
			walkType(t.Key(), via)
			walkType(t.Elem(), via)
			return
		case reflect.Interface:
			if t.Name() == "Exp" && t.PkgPath() == c09SyntaxPkg {
				names := make([]string, 0, len(c09ExpImpls))
				for n := range c09ExpImpls {
					names = append(names, n)
				}
				sort.Strings(names)
				for _, n := range names {
					walkType(c09ExpImpls[n], via)
				}
				return
			}
			impls, ok := c09IfaceImpls[t.Name()]
			if !ok || t.PkgPath() != c09SyntaxPkg {
				fail("iface:"+via, fmt.Sprintf("field %s has interface type %s, whose implementations the audit does not know", via, t))
				return
			}
			for _, it := range impls {
				walkType(it, via)
			}
			return
		case reflect.Struct:
		default:
			return
		}
		if t.PkgPath() != c09SyntaxPkg || seenType[t] {
			return
		}
		seenType[t] = true
		types = append(types, t.Name())
		for i := 0; i < t.NumField(); i++ {
			sf := t.Field(i)
			if !sf.IsExported() && !sf.Anonymous {
				continue
			}
			key := t.Name() + "." + sf.Name
			cls, ok := c09DumpFields[key]
			if !ok {
				fail(key, fmt.Sprintf("exported field %s (%s) of the Go AST is neither covered by the C09 AST dump nor excluded with a reason: extend c09Dump and classify it in c09DumpFields", key, sf.Type))
				continue
			}
			used[key] = true
			if strings.HasPrefix(cls, "skip:") || strings.HasPrefix(cls, "zero:") {
				continue
			}
			walkType(sf.Type, key)
		}
	}
	walkType(reflect.TypeOf(syntax.Ast{}), "Ast")
	var stale []string
	for k := range c09DumpFields {
		if !used[k] {
			stale = append(stale, k)
		}
	}
	sort.Strings(stale)
	for _, k := range stale {
		fail("stale:"+k, "c09DumpFields classifies "+k+", which is not a field reachable from syntax.Ast any more")
	}

	// ---- 2. dynamic: mutation self-test on a fixed program ----
	ast, err, pan := c09Parse([]byte(c09AuditProgram), filepath.Join(c.Scratch, "audit.mro"))
	if pan != "" || err != nil || ast == nil {
		fail("fixed-program", fmt.Sprintf("the audit's fixed program does not parse: %v %s", err, pan))
		return
	}
	dump := func() (s string) {
		defer func() {
			if p := recover(); p != nil {
				s = "PANIC " + fmt.Sprint(p)
			}
		}()
		return strings.Join(c09Dump(ast, true), "\n")
	}
	base := dump()
	verified := map[string]bool{}  // altering an instance changed the dump
	exercised := map[string]bool{} // an alterable instance exists in the fixed program
	nonZero := map[string]bool{}   // a zero:-field that is not zero
	sawZeroField := map[string]bool{}
	type ptrKey struct {
		p uintptr
		t reflect.Type
	}
	seenPtr := map[ptrKey]bool{}
	var walk func(v reflect.Value)
	walk = func(v reflect.Value) {
		switch v.Kind() {
		case reflect.Ptr:
			if v.IsNil() {
				return
			}
			id := ptrKey{v.Pointer(), v.Type()}
			if seenPtr[id] {
				return
			}
			seenPtr[id] = true
			walk(v.Elem())
		case reflect.Interface:
			if !v.IsNil() {
				walk(v.Elem())
			}
		case reflect.Slice, reflect.Array:
			for i := 0; i < v.Len(); i++ {
				walk(v.Index(i))
			}
		case reflect.Map:
			for _, k := range v.MapKeys() {
				walk(v.MapIndex(k))
			}
		case reflect.Struct:
			t := v.Type()
			if t.PkgPath() != c09SyntaxPkg {
				return
			}
			for i := 0; i < t.NumField(); i++ {
				sf := t.Field(i)
				if !sf.IsExported() && !sf.Anonymous {
					continue
				}
				key := t.Name() + "." + sf.Name
				cls := c09DumpFields[key]
				fv := v.Field(i)
				switch {
				case strings.HasPrefix(cls, "zero:"):
					sawZeroField[key] = true
					if !fv.IsZero() {
						nonZero[key] = true
					}
					continue
				case cls == "" || strings.HasPrefix(cls, "skip:"):
					continue
				case cls == "walk":
					walk(fv)
					continue
				}
				// a covered field: alter, dump, restore
				if fv.CanSet() && !verified[key] {
					old := reflect.New(fv.Type()).Elem()
					old.Set(fv)
					altered := true
					switch fv.Kind() {
					case reflect.Bool:
						fv.SetBool(!fv.Bool())
					case reflect.Int, reflect.Int8, reflect.Int16, reflect.Int32, reflect.Int64:
						fv.SetInt(fv.Int() + 1)
					case reflect.Float32, reflect.Float64:
						fv.SetFloat(fv.Float() + 1)
					case reflect.String:
						fv.SetString(fv.String() + "~")
					case reflect.Ptr, reflect.Interface:
						if fv.IsNil() {
							altered = false
						} else {
							fv.Set(reflect.Zero(fv.Type()))
						}
					case reflect.Slice:
						if fv.Len() == 0 {
							altered = false
						} else {
							fv.Set(fv.Slice(0, fv.Len()-1))
						}
					case reflect.Map:
						if fv.Len() == 0 {
							altered = false
						} else {
							keys := fv.MapKeys()
							sort.Slice(keys, func(i, j int) bool { return keys[i].String() < keys[j].String() })
							m := reflect.MakeMap(fv.Type())
							for _, k := range keys[1:] {
								m.SetMapIndex(k, fv.MapIndex(k))
							}
							fv.Set(m)
						}
					default:
						altered = false // struct-typed: verified through its own fields
						if fv.Kind() == reflect.Struct {
							exercised[key], verified[key] = true, true
						}
					}
					if altered {
						exercised[key] = true
						if d := dump(); d != base {
							if strings.HasPrefix(d, "PANIC") {
								fail("dump-panics:"+key, "c09Dump panics when "+key+" is cleared: "+d)
							}
							verified[key] = true
						}
						fv.Set(old)
					}
				}
				walk(fv)
			}
		}
	}
	walk(reflect.ValueOf(ast))
	if d := dump(); d != base {
		fail("self-test-restore", "the mutation self-test did not restore the AST")
	}
	var covered, ver, excl, zero []string
	for k, cls := range c09DumpFields {
		switch {
		case strings.HasPrefix(cls, "skip:"):
			excl = append(excl, k+" ("+cls[5:]+")")
		case strings.HasPrefix(cls, "zero:"):
			zero = append(zero, k+" ("+cls[5:]+")")
			if nonZero[k] {
				fail("not-zero:"+k, k+" is excluded from the dump as `"+cls[5:]+"`, but UncheckedParse of the audit's fixed program sets it")
			} else if !sawZeroField[k] {
				fail("unexercised:"+k, "the audit's fixed program has no instance of "+k+" (excluded as not set by the parser: cannot be checked)")
			}
		case cls == "walk":
		default:
			covered = append(covered, k)
			switch {
			case verified[k]:
				ver = append(ver, k)
			case exercised[k]:
				fail("not-in-dump:"+k, "c09DumpFields says "+k+" is covered by the AST dump ("+cls+"), but altering it in the parsed fixed program does not change the dump")
			default:
				fail("unexercised:"+k, "the audit's fixed program has no alterable instance of the covered field "+k+": the claim that the dump covers it is not verified")
			}
		}
	}
	sort.Strings(covered)
	sort.Strings(ver)
	sort.Strings(excl)
	sort.Strings(zero)
	sort.Strings(types)
	r.note("dump audit: %d struct types reachable from syntax.Ast (%s) + Exp implementations from the source; %d fields covered by the dump, all %d verified by altering the field in a parsed fixed program and seeing the dump change",
		len(types), strings.Join(types, ", "), len(covered), len(ver))
	r.note("dump audit: excluded whatever the value: %s", strings.Join(excl, "; "))
	r.note("dump audit: excluded because the parser never sets them (each checked to be zero after UncheckedParse of the fixed program): %s", strings.Join(zero, "; "))
	var ee []string
	for k, v := range c09ExpExcluded {
		ee = append(ee, k+" ("+v+")")
	}
	sort.Strings(ee)
	r.note("dump audit: expression types excluded: %s", strings.Join(ee, "; "))
	r.note("dump audit: fields added to the dump by this audit (former blind spots): Ast.Callables / Callables.List (the order of stage and pipeline declarations relative to each other: the dump listed all stages, then all pipelines); resources are now dumped as exact float32 text (before: %%g of the float32, equivalent). Every other declaration-level field was already dumped: the gap that let a lost resource sign through was in the generator (only non-negative resource values from a short list)")
}
