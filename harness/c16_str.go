package main

// C16, string leaf at byte level.
//
// Ties the model functions of lean/Martian/InvocationStr.lean to the real
// code on every run:
//   jsonEncodeString html  ~  encoding/json (json.Marshal = HTML escaping on;
//                             Encoder.SetEscapeHTML(false) as cmd/mrg, cmd/mro do)
//   pyEncodeString         ~  python3 json.dumps (what a Python stage writes)
//   jsonDecodeString       ~  json.Unmarshal of a string token
//   Lexer.unquoteBytes     ~  syntax.unquoteBytes (hook of C08)
//   Format.quoteString     ~  syntax.quoteString  (hook of C09)
// and monitors the theorems of Props/C16 on the real code alone:
//   unquote_jsonEncode / string_leaf_json_to_mro_partial: ParseValExp of the token any
//     of the writers produced is a StringExp holding exactly the string;
//   jsonDecode_quoteString / string_leaf_mro_to_json: StringExp.MarshalJSON is
//     decoded by encoding/json to exactly the string;
//   unquote_of_jsonDecode: on every valid-UTF-8 token that encoding/json
//     accepts, unquoteBytes returns what encoding/json returns.

import (
	"bufio"
	"bytes"
	"encoding/hex"
	"encoding/json"
	"fmt"
	"os/exec"
	"strings"
	"unicode/utf8"

	"github.com/martian-lang/martian/martian/syntax"
)

func c16GoEnc(s string, html bool) string {
	var buf bytes.Buffer
	enc := json.NewEncoder(&buf)
	enc.SetEscapeHTML(html)
	if err := enc.Encode(s); err != nil {
		return "<error " + err.Error() + ">"
	}
	return strings.TrimSuffix(buf.String(), "\n")
}

func c16Try(f func() string) (out string, ok bool) {
	defer func() {
		if e := recover(); e != nil {
			out, ok = fmt.Sprint(e), false
		}
	}()
	return f(), true
}

var c16StrAscii = []byte{'<', '>', '&', '"', '\\', '/', '\'', 0x7f, 0, 1, 7, 8, 9, 10, 11, 12, 13, 0x1b, 0x1f, ' ', '~', 'u', 'U', 'x', '0'}
var c16BadSeqs = []string{"\x80", "\xbf", "\xc0\x80", "\xc1\xbf", "\xc2", "\xe0\x80\x80", "\xe0\xa0", "\xed\xa0\x80",
	"\xed\xbf\xbf", "\xf0\x80\x80\x80", "\xf0\x90\x80", "\xf4\x90\x80\x80", "\xf5\x80\x80\x80", "\xff", "\xfe", "\xe2\x80", "\xe2"}

// genStrBytes: a byte string; valid UTF-8 unless bad is set.
func (x *c16Runner) genStrBytes(g *c16Gen, bad bool) string {
	rng := x.c.Rng
	var sb strings.Builder
	n := rng.Intn(12)
	for i := 0; i < n; i++ {
		switch rng.Intn(5) {
		case 0:
			sb.WriteByte(c16StrAscii[rng.Intn(len(c16StrAscii))])
		case 1:
			sb.WriteByte(byte(rng.Intn(128)))
		case 2:
			if bad {
				if rng.Intn(2) == 0 {
					sb.WriteString(c16BadSeqs[rng.Intn(len(c16BadSeqs))])
				} else {
					sb.WriteByte(byte(0x80 + rng.Intn(128)))
				}
				continue
			}
			fallthrough
		default:
			sb.WriteString(string(g.genRunes(2)))
		}
	}
	return sb.String()
}

var c16NearMiss = []string{"\\ud800", "\\udc00", "\\ud800A", "\\ud800\\ud800", "\\udc00\\ud800", "\\ud83d\\ude00", "\\uD83D\\uDE00",
	"\\udbff\\udfff", "\\ud800\\udbff", "\\ud800x", "\\ud800\\n", "\\ud800\\\\", "\\u12", "\\u", "\\u12G4", "\\ud800\\u12", "\\ud800\\uZZZZ",
	"\\x41", "\\'", "\\a", "\\v", "\\101", "\\U0001F600", "\\/", "\\\"",
	"\x01", "\x1f", "\"", "\x80", "\xed\xa0\x80", "\\", "\\u0000", "\\uffff", "\\ufffe", "\\u2028", "\\u003c", "\\u007F",
	"\\uDBFF\\uDFFF", "\\ud83d", "\\ude00\\ud83d\\ude00"}

// mutate a token body
func (x *c16Runner) nearMissTok(tok string) string {
	rng := x.c.Rng
	body := tok[1 : len(tok)-1]
	k := 1 + rng.Intn(2)
	for i := 0; i < k; i++ {
		ins := c16NearMiss[rng.Intn(len(c16NearMiss))]
		pos := 0
		if len(body) > 0 {
			pos = rng.Intn(len(body) + 1)
		}
		body = body[:pos] + ins + body[pos:]
	}
	return `"` + body + `"`
}

// pyDumps runs python3 once over all strings (hex lines in, hex lines out).
func c16PyDumps(strs []string) ([]string, error) {
	script := "import sys,json,binascii\n" +
		"for l in sys.stdin:\n" +
		"    l=l.strip()\n" +
		"    s=binascii.unhexlify(l).decode('utf-8') if l!='-' else ''\n" +
		"    print(binascii.hexlify(json.dumps(s).encode('ascii')).decode('ascii'))\n"
	cmd := exec.Command("python3", "-c", script)
	var in bytes.Buffer
	for _, s := range strs {
		in.WriteString(hx(s))
		in.WriteByte('\n')
	}
	cmd.Stdin = &in
	out, err := cmd.Output()
	if err != nil {
		return nil, err
	}
	var res []string
	sc := bufio.NewScanner(bytes.NewReader(out))
	sc.Buffer(make([]byte, 1<<20), 1<<24)
	for sc.Scan() {
		b, err := hex.DecodeString(strings.TrimSpace(sc.Text()))
		if err != nil {
			return nil, err
		}
		res = append(res, string(b))
	}
	if len(res) != len(strs) {
		return nil, fmt.Errorf("python returned %d lines for %d strings", len(res), len(strs))
	}
	return res, nil
}

func (x *c16Runner) strViolate(kind, key, what, broken string, input map[string]interface{}, impl, model interface{}) {
	x.r.violate(Violation{Kind: kind, Key: key, What: what, Input: input, Impl: impl, Model: model, Broken: broken})
}

// checkToken: decoder correspondences + decoder agreement on one token.
func (x *c16Runner) checkToken(tok, origin string) {
	r := x.r
	r.count("tok:"+tok, strings.Contains(tok, `\`) || !utf8.ValidString(tok))
	r.hist("strtok_" + origin)
	var js string
	jerr := json.Unmarshal([]byte(tok), &js)
	jrep := "none"
	if jerr == nil {
		jrep = "some " + hx(js)
	}
	urep, uok := c16Try(func() string { return "some " + hx(string(syntax.VerifUnquoteBytes([]byte(tok)))) })
	if !uok {
		urep = "none"
	}
	in := map[string]interface{}{"token_hex": hx(tok), "token": tok, "origin": origin}
	x.ask([]string{"C16.jsondec", hx(tok)}, func(rep string) {
		if rep != jrep {
			x.strViolate("correspondence", "C16:str:jsondec", "Lean jsonDecodeString differs from json.Unmarshal on a string token",
				"jsonDecodeString~encoding/json", in, jrep, rep)
		}
	})
	x.ask([]string{"C16.unq", hx(tok)}, func(rep string) {
		if rep != urep {
			x.strViolate("correspondence", "C16:str:unq", "Lean unquoteBytes differs from syntax.unquoteBytes",
				"Lexer.unquoteBytes~syntax.unquoteBytes", in, urep, rep)
		}
	})
	// unquote_of_jsonDecode on the real code
	if jerr == nil && utf8.ValidString(tok) {
		r.hist("strtok_agree_checked")
		if urep != jrep {
			x.strViolate("property", "C16:str:decoders-disagree",
				"a valid-UTF-8 JSON string token is read differently by the MRO lexer path (unquoteBytes) and by encoding/json",
				"unquote_of_jsonDecode", in, urep, jrep)
		}
	}
}

func (x *c16Runner) strs(n int) {
	r := x.r
	g := &c16Gen{c: x.c, feats: map[string]bool{}}
	var valid []string
	var all []string
	for i := 0; i < n; i++ {
		bad := i%4 == 3
		s := x.genStrBytes(g, bad)
		all = append(all, s)
		if utf8.ValidString(s) {
			valid = append(valid, s)
		}
	}
	// fixed strings first: every ASCII byte, the separators, astral planes
	var every strings.Builder
	for b := 0; b < 128; b++ {
		every.WriteByte(byte(b))
	}
	fixed := []string{"", every.String(), "\u2028\u2029\u2027\u202a", "<>&\x7f", "\U0001F600\U00010000\U0010FFFF\uffff\ufffd\ud7ff",
		"\u00e9\u07ff\u0800", "a\xffb", "\xed\xa0\x80", "\xe2\x80", "\xf0\x9f\x98"}
	all = append(fixed, all...)
	for _, s := range fixed {
		if utf8.ValidString(s) {
			valid = append(valid, s)
		}
	}

	py, pyErr := c16PyDumps(valid)
	if pyErr != nil {
		r.note("python3 json.dumps not available (%v): pyEncodeString is compared with a Go re-implementation of ensure_ascii only", pyErr)
	}
	pyTok := map[string]string{}
	for i, s := range valid {
		if pyErr == nil {
			pyTok[s] = py[i]
		}
	}

	var parser syntax.Parser
	for i, s := range all {
		s := s
		isValid := utf8.ValidString(s)
		r.count("str:"+s, len(s) > 0)
		if isValid {
			r.hist("str_valid_utf8")
		} else {
			r.hist("str_invalid_utf8")
		}
		in := map[string]interface{}{"string_hex": hx(s), "string": s}
		goTok := [2]string{c16GoEnc(s, false), c16GoEnc(s, true)}
		for h := 0; h < 2; h++ {
			h := h
			x.ask([]string{"C16.jsonenc", fmt.Sprint(h), hx(s)}, func(rep string) {
				if unhx(rep) != goTok[h] {
					x.strViolate("correspondence", fmt.Sprintf("C16:str:jsonenc:html=%d", h),
						"Lean jsonEncodeString differs from encoding/json", "jsonEncodeString~encoding/json", in, goTok[h], unhx(rep))
				}
			})
		}
		mq := syntax.VerifQuoteString(s)
		x.ask([]string{"C16.mroquote", hx(s)}, func(rep string) {
			if unhx(rep) != mq {
				x.strViolate("correspondence", "C16:str:mroquote", "Lean quoteString differs from syntax.quoteString",
					"Format.quoteString~syntax.quoteString", in, mq, unhx(rep))
			}
		})
		// jsonEncode_false_eq on the real code: quoteString = encoding/json without HTML escaping
		if mq != goTok[0] {
			x.strViolate("property", "C16:str:quote-vs-json", "syntax.quoteString and encoding/json (escapeHTML off) write different text",
				"jsonEncode_false_eq", in, mq, goTok[0])
		}
		toks := []struct{ tok, origin string }{{goTok[0], "go_nohtml"}, {goTok[1], "go_html"}}
		if isValid {
			if t, ok := pyTok[s]; ok {
				x.ask([]string{"C16.pyenc", hx(s)}, func(rep string) {
					if unhx(rep) != t {
						x.strViolate("correspondence", "C16:str:pyenc", "Lean pyEncodeString differs from python3 json.dumps",
							"pyEncodeString~json.dumps", in, t, unhx(rep))
					}
				})
				toks = append(toks, struct{ tok, origin string }{t, "python"})
			}
			g.hazard = []string{"", "solidus-escape", "surrogate-escape"}[i%3]
			toks = append(toks, struct{ tok, origin string }{g.spellJSON([]rune(s)), "random_spelling"})
			// the string-leaf theorems on the real code, JSON -> MRO: every writer's
			// token, parsed as a value expression, is a StringExp holding s
			for _, t := range toks {
				t := t
				got, ok := c16Try(func() string {
					e, err := parser.ParseValExp([]byte(t.tok))
					if err != nil {
						return "<error " + err.Error() + ">"
					}
					se, isStr := e.(*syntax.StringExp)
					if !isStr {
						return fmt.Sprintf("<%T>", e)
					}
					return "some " + hx(se.Value)
				})
				if !ok || got != "some "+hx(s) {
					tin := map[string]interface{}{"string_hex": hx(s), "string": s, "token": t.tok, "writer": t.origin}
					x.strViolate("property", "C16:str:json-to-mro:"+t.origin,
						"a JSON string token of a valid UTF-8 string, read by the MRO parser as convertToExp does, is not that string",
						"unquote_jsonEncode", tin, got, "some "+hx(s))
				}
			}
			// json.Marshal of invocation data re-compacts the RawMessage arguments with HTML
			// escaping: the text quoteString wrote becomes exactly what the HTML-mode
			// encoder writes for the string (so string_leaf_json_to_mro_partial with html = true
			// is about that path)
			if rm, err := json.Marshal(json.RawMessage(mq)); err != nil || string(rm) != goTok[1] {
				x.strViolate("property", "C16:str:rawmessage-compaction",
					"json.Marshal of a RawMessage holding quoteString's text differs from json.Marshal of the string",
					"jsonEncodeString true~json.Marshal(RawMessage)", in, fmt.Sprintf("%q err=%v", string(rm), err), goTok[1])
			}
			// MRO -> JSON: MarshalJSON of the string expression is decoded to s
			se := &syntax.StringExp{Value: s}
			mj, err := se.MarshalJSON()
			var back string
			if err == nil {
				err = json.Unmarshal(mj, &back)
			}
			if err != nil || back != s {
				x.strViolate("property", "C16:str:mro-to-json", "StringExp.MarshalJSON is not decoded by encoding/json to the string",
					"jsonDecode_quoteString", in, fmt.Sprintf("%q err=%v", string(mj), err), s)
			}
			var buf bytes.Buffer
			if err := se.EncodeJSON(&buf); err != nil || (buf.String() != string(mj) && !(s == "" && buf.String() == `""`)) {
				x.strViolate("property", "C16:str:encode-vs-marshal", "StringExp.EncodeJSON and MarshalJSON differ", "jsonDecode_quoteString",
					in, buf.String(), string(mj))
			}
		}
		for _, t := range toks {
			x.checkToken(t.tok, t.origin)
		}
		// near-miss tokens: lone / mis-paired surrogates, truncated and MRO-only
		// escapes, raw control bytes, raw quotes, invalid UTF-8
		base := goTok[i%2]
		for k := 0; k < 2; k++ {
			x.checkToken(x.nearMissTok(base), "near_miss")
		}
		if i%256 == 255 {
			x.flush()
		}
	}
	for _, t := range c16NearMiss {
		x.checkToken(`"`+t+`"`, "near_miss_fixed")
		x.checkToken(`"a`+t+`b"`, "near_miss_fixed")
	}
	x.flush()
}
