package main

// C09, full call statements and the statements of a pipeline body: the model
// Martian.FormatCall2 (fmtCall2 / parseCall2 / wfCall2 / normCall2, fmtBody /
// parseBody / wfBody / normBody) against the real parser and formatter.
//
// A. top-level call files.  The text of every generated call (every modifier
//    spelling: keywords, `using` bindings, both, none; `disabled = X.y`;
//    wildcard bindings after 0-3 explicit ones; map calls; `as`) is built BY
//    THE MODEL (C09.fmtcall2 with prefix ""); on it
//      (a) Parser.UncheckedParse must accept and Ast.Call (DecId, Id, Mapping,
//          Bindings incl. `*`, Modifiers.{Local,Preflight,Volatile,Bindings})
//          must dump to what the model's parsecall2 returns, and for a
//          well-formed call to normcall2;
//      (b) FormatSrcBytes must return the text unchanged.
//    A respelling (keyword modifiers, unsorted `using` block, other white
//    space, sometimes a discarded first `using` block) goes through the real
//    parser and formatter: same AST as the model reads, output = fmtcall2 of
//    normcall2 of that AST (= the text of the case when it is well formed).
//    A hand-made AST with the wildcard binding moved off the last position is
//    printed by Ast.Format and compared with fmtcall2raw (BindStms.format
//    stops after `*`).
// B. pipeline bodies inside a minimal pipeline: calls with prefix INDENT (in
//    dependency order), `return (…)`, optional `retain (…)`: real formatter
//    byte for byte (C09:pipeline-stm-format-mismatch), real AST
//    (C09:pipeline-stm-parse-mismatch), on printed and respelled texts.
// C. near-miss texts for both: accept/reject and the AST.

import (
	"fmt"
	"strconv"
	"strings"

	"github.com/martian-lang/martian/martian/syntax"
)

type c09c2Mod struct {
	id  string
	exp *c09cx
}

type c09c2Call struct {
	decId, id string
	binds     []c09callBind
	wildcard  *c09cx
	local     bool
	preflight bool
	volatile  bool
	mods      []c09c2Mod
	spelling  string
}

func c09c2B(b bool) string {
	if b {
		return "1"
	}
	return "0"
}

func c09c2EncBinds(w *[]string, binds []c09callBind, wildcard *c09cx) {
	*w = append(*w, strconv.Itoa(len(binds)))
	for _, b := range binds {
		*w = append(*w, hx(b.id), c09c2B(b.split))
		b.exp.enc(w)
	}
	if wildcard != nil {
		*w = append(*w, "w")
		wildcard.enc(w)
	} else {
		*w = append(*w, "_")
	}
}

func (k *c09c2Call) encW(w *[]string) {
	*w = append(*w, hx(k.decId), hx(k.id))
	c09c2EncBinds(w, k.binds, k.wildcard)
	*w = append(*w, c09c2B(k.local), c09c2B(k.preflight), c09c2B(k.volatile), strconv.Itoa(len(k.mods)))
	for _, m := range k.mods {
		*w = append(*w, hx(m.id))
		m.exp.enc(w)
	}
}

func (k *c09c2Call) enc() string {
	var w []string
	k.encW(&w)
	return strings.Join(w, " ")
}

func (k *c09c2Call) isMap() bool {
	for _, b := range k.binds {
		if b.split {
			return true
		}
	}
	return false
}

// ---- generators ----

var c09c2ModIds = []string{"local", "preflight", "volatile", "disabled"}

func c09c2Binds(c *Ctx, nb int, allowSplit bool) []c09callBind {
	var binds []c09callBind
	for j := 0; j < nb; j++ {
		b := c09callBind{id: c09callId(c, 35)}
		if allowSplit && c.Rng.Intn(2) == 0 {
			b.split = true
			switch c.Rng.Intn(8) {
			case 0, 1, 2:
				b.exp = c09callColl(c, 2, '[', 1+c.Rng.Intn(3))
			case 3, 4:
				b.exp = c09callColl(c, 2, '{', 1+c.Rng.Intn(2))
			case 5, 6:
				b.exp = c09callRef(c)
			default: // mostly outside the grammar
				b.exp = c09callExp(c, 1)
			}
		} else {
			b.exp = c09callExp(c, 2)
		}
		binds = append(binds, b)
	}
	return binds
}

func c09c2Wild(c *Ctx) *c09cx {
	switch c.Rng.Intn(8) {
	case 0, 1, 2:
		return &c09cx{kind: 'r', self: true} // `self`
	case 3:
		if c.Rng.Intn(4) == 0 { // outside the grammar: not a reference
			return c09callExp(c, 1)
		}
		return c09callRef(c)
	default:
		return c09callRef(c)
	}
}

func c09c2GenCall(c *Ctx) *c09c2Call {
	k := &c09c2Call{decId: c09callId(c, 35)}
	if c.Rng.Intn(10) == 0 { // a callee named like a modifier keyword
		k.decId = c09c2ModIds[c.Rng.Intn(3)]
	}
	k.id = k.decId
	if c.Rng.Intn(3) == 0 {
		k.id = c09callId(c, 35)
	}
	k.binds = c09c2Binds(c, c.Rng.Intn(4), c.Rng.Intn(2) == 0)
	if c.Rng.Intn(5) < 2 {
		k.wildcard = c09c2Wild(c)
	}
	kw := func() {
		k.local = c.Rng.Intn(2) == 0
		k.preflight = c.Rng.Intn(2) == 0
		k.volatile = c.Rng.Intn(2) == 0
		if !k.local && !k.preflight && !k.volatile {
			switch c.Rng.Intn(3) {
			case 0:
				k.local = true
			case 1:
				k.preflight = true
			default:
				k.volatile = true
			}
		}
	}
	bd := func() {
		perm := c.Rng.Perm(4)
		n := 1 + c.Rng.Intn(4)
		for _, i := range perm[:n] {
			id := c09c2ModIds[i]
			var e *c09cx
			if id == "disabled" {
				e = c09callRef(c)
			} else if c.Rng.Intn(2) == 0 {
				e = &c09cx{kind: 't'}
			} else {
				e = &c09cx{kind: 'f'}
			}
			k.mods = append(k.mods, c09c2Mod{id, e})
		}
		switch c.Rng.Intn(25) { // outside wfCall2
		case 0: // a duplicate id
			m := k.mods[c.Rng.Intn(len(k.mods))]
			k.mods = append(k.mods, m)
		case 1: // a value of the wrong kind
			k.mods[c.Rng.Intn(len(k.mods))].exp = c09callExp(c, 1)
		case 2: // an id that is no modifier
			k.mods[c.Rng.Intn(len(k.mods))].id = c09callId(c, 10)
		}
	}
	switch c.Rng.Intn(4) {
	case 0:
		k.spelling = "none"
	case 1:
		k.spelling = "keywords"
		kw()
	case 2:
		k.spelling = "bindings"
		bd()
	default:
		k.spelling = "both"
		kw()
		bd()
	}
	return k
}

// ---- respelling ----

type c09c2Sp struct {
	c *Ctx
	b strings.Builder
}

func (s *c09c2Sp) sp() {
	switch s.c.Rng.Intn(4) {
	case 0:
		s.b.WriteString("\n")
	case 1:
		s.b.WriteString("   ")
	case 2:
		s.b.WriteString("\t")
	default:
		s.b.WriteString(" ")
	}
}

func (s *c09c2Sp) opt() {
	if s.c.Rng.Intn(2) == 0 {
		s.sp()
	}
}

func (s *c09c2Sp) binds(binds []c09callBind, wildcard *c09cx) {
	for _, bd := range binds {
		s.opt()
		s.b.WriteString(bd.id)
		s.opt()
		s.b.WriteByte('=')
		s.opt()
		if bd.split {
			s.b.WriteString("split")
			s.sp()
		}
		bd.exp.spell(s.c, &s.b)
		s.opt()
		s.b.WriteByte(',')
	}
	if wildcard != nil {
		s.opt()
		s.b.WriteByte('*')
		s.opt()
		s.b.WriteByte('=')
		s.opt()
		if wildcard.kind == 'r' && wildcard.self && wildcard.id == "" {
			s.b.WriteString("self")
		} else {
			wildcard.spell(s.c, &s.b)
		}
		s.opt()
		s.b.WriteByte(',')
	}
}

func (s *c09c2Sp) mods(mods []c09c2Mod) {
	s.opt()
	s.b.WriteString("using")
	s.opt()
	s.b.WriteByte('(')
	for _, m := range mods {
		s.opt()
		s.b.WriteString(m.id)
		s.opt()
		s.b.WriteByte('=')
		s.opt()
		m.exp.spell(s.c, &s.b)
		s.opt()
		s.b.WriteByte(',')
	}
	s.opt()
	s.b.WriteByte(')')
}

// call writes a non-canonical spelling of the call; decoy: a first `using`
// block (which the grammar lets the second one replace) was written.
func (s *c09c2Sp) call(k *c09c2Call) (decoy bool) {
	c := s.c
	if k.isMap() {
		s.b.WriteString("map")
		s.sp()
	}
	s.b.WriteString("call")
	s.sp()
	var kws []string
	if k.local {
		kws = append(kws, "local")
	}
	if k.preflight {
		kws = append(kws, "preflight")
	}
	if k.volatile {
		kws = append(kws, "volatile")
	}
	c.Rng.Shuffle(len(kws), func(i, j int) { kws[i], kws[j] = kws[j], kws[i] })
	if len(kws) > 0 && c.Rng.Intn(6) == 0 { // a repeated keyword is accepted
		kws = append(kws, kws[0])
	}
	for _, w := range kws {
		s.b.WriteString(w)
		s.sp()
	}
	s.b.WriteString(k.decId)
	if k.id != k.decId || c.Rng.Intn(8) == 0 {
		s.sp()
		s.b.WriteString("as")
		s.sp()
		s.b.WriteString(k.id)
	}
	s.opt()
	s.b.WriteByte('(')
	s.binds(k.binds, k.wildcard)
	s.opt()
	s.b.WriteByte(')')
	if c.Rng.Intn(12) == 0 {
		decoy = true
		s.mods([]c09c2Mod{{"volatile", &c09cx{kind: 'f'}}, {"local", &c09cx{kind: 't'}}})
	}
	if len(k.mods) > 0 || decoy || c.Rng.Intn(10) == 0 {
		s.mods(k.mods)
	}
	return decoy
}

// ---- dump of the real AST in the driver's word format ----

func c09c2DumpBinds(w *[]string, bs *syntax.BindStms) string {
	var list []*syntax.BindStm
	if bs != nil {
		list = bs.List
	}
	n := len(list)
	var wild syntax.Exp
	if n > 0 && list[n-1].Id == "*" {
		wild = list[n-1].Exp
		n--
	}
	*w = append(*w, strconv.Itoa(n))
	for _, b := range list[:n] {
		if b.Id == "*" {
			return "wildcard not last"
		}
		sp := "0"
		e := b.Exp
		if s, ok := e.(*syntax.SplitExp); ok {
			sp = "1"
			e = s.Value
		}
		*w = append(*w, hx(b.Id), sp)
		c09callEncW(e, w)
	}
	if wild != nil {
		*w = append(*w, "w")
		c09callEncW(wild, w)
	} else {
		*w = append(*w, "_")
	}
	return ""
}

func c09c2DumpCall(w *[]string, cs *syntax.CallStm) string {
	*w = append(*w, hx(cs.DecId), hx(cs.Id))
	mark := len(*w)
	if bad := c09c2DumpBinds(w, cs.Bindings); bad != "" {
		return bad
	}
	anySplit := false
	if cs.Bindings != nil {
		for _, b := range cs.Bindings.List {
			if _, ok := b.Exp.(*syntax.SplitExp); ok {
				anySplit = true
			}
		}
	}
	_ = mark
	if (cs.Mapping != nil) != anySplit {
		return fmt.Sprintf("Mapping != nil is %v but a split binding exists is %v", cs.Mapping != nil, anySplit)
	}
	m := cs.Modifiers
	if m == nil {
		return "Modifiers == nil"
	}
	var list []*syntax.BindStm
	if m.Bindings != nil {
		list = m.Bindings.List
	}
	*w = append(*w, c09c2B(m.Local), c09c2B(m.Preflight), c09c2B(m.Volatile), strconv.Itoa(len(list)))
	for _, b := range list {
		*w = append(*w, hx(b.Id))
		c09callEncW(b.Exp, w)
	}
	return ""
}

func c09c2OnlyCall(ast *syntax.Ast) bool {
	return !((ast.Callables != nil && len(ast.Callables.List) > 0) || len(ast.UserTypes) > 0 ||
		len(ast.StructTypes) > 0 || len(ast.Includes) > 0)
}

// c09c2Dump parses a top-level call file with the real parser: "none", or "some <enc>".
func c09c2Dump(text string) string {
	ast, err, pan := c09Parse([]byte(text), "call.mro")
	if pan != "" {
		return "panic: " + pan
	}
	if err != nil || ast == nil || ast.Call == nil {
		return "none"
	}
	if !c09c2OnlyCall(ast) {
		return "other: declarations"
	}
	var w []string
	if bad := c09c2DumpCall(&w, ast.Call); bad != "" {
		return "bad: " + bad
	}
	return "some " + strings.Join(w, " ")
}

const c09c2Header = "pipeline P(\n    in  int a,\n    out int r,\n)\n{"

// c09c2DumpBody parses header+body: "none" or "some <enc>" of Calls, Ret, Retain.
func c09c2DumpBody(body string) string {
	ast, err, pan := c09Parse([]byte(c09c2Header+body), "pipe.mro")
	if pan != "" {
		return "panic: " + pan
	}
	if err != nil || ast == nil {
		return "none"
	}
	if ast.Call != nil || ast.Callables == nil || len(ast.Callables.List) != 1 || len(ast.UserTypes) > 0 ||
		len(ast.StructTypes) > 0 || len(ast.Includes) > 0 {
		return "other: not one pipeline"
	}
	p, ok := ast.Callables.List[0].(*syntax.Pipeline)
	if !ok {
		return "other: not a pipeline"
	}
	w := []string{strconv.Itoa(len(p.Calls))}
	for _, cs := range p.Calls {
		if bad := c09c2DumpCall(&w, cs); bad != "" {
			return "bad: " + bad
		}
	}
	if p.Ret == nil {
		return "bad: Ret == nil"
	}
	if bad := c09c2DumpBinds(&w, p.Ret.Bindings); bad != "" {
		return "bad: " + bad
	}
	if p.Retain == nil {
		w = append(w, "_")
	} else {
		w = append(w, "R", strconv.Itoa(len(p.Retain.Refs)))
		for _, e := range p.Retain.Refs {
			c09callEncW(e, &w)
		}
	}
	return "some " + strings.Join(w, " ")
}

// c09c2FormatMoved parses text (one top-level call with a wildcard binding
// last), moves the wildcard binding to position k and prints with Ast.Format.
func c09c2FormatMoved(text string, k int) (out string, problem string) {
	defer func() {
		if p := recover(); p != nil {
			problem = "panic: " + fmt.Sprint(p)
		}
	}()
	var ps syntax.Parser
	ast, err := ps.UncheckedParse([]byte(text), "call.mro")
	if err != nil || ast == nil || ast.Call == nil || ast.Call.Bindings == nil {
		return "", "does not parse"
	}
	l := ast.Call.Bindings.List
	n := len(l)
	if n < 2 || l[n-1].Id != "*" || k >= n-1 {
		return "", "no wildcard to move"
	}
	moved := make([]*syntax.BindStm, 0, n)
	moved = append(moved, l[:k]...)
	moved = append(moved, l[n-1])
	moved = append(moved, l[k:n-1]...)
	ast.Call.Bindings.List = moved
	return ast.Format(), ""
}

var c09c2NearMisses = []string{
	"call X() using ()", "call local local X()", "call X() using (local = 1,)", "call X() using (disabled = true,)",
	"call X(* = self, a = 1,)", "call X(a = 1, * = self,)", "call X(* = self.x,)", "call X(* = self,)", "call X(* = Y,)",
	"call X(* = Y.z,)", "call X(* = Y.default,)", "call X(* = self)", "call X(* = 1,)", "call X(* = [Y],)", "call X(* = self, * = self,)",
	"call X(* = split Y,)", "map call X(* = self,)", "map call X(a = split [1], * = self,)", "map call X(a = 1, * = self,)",
	"map call X(* = self, a = split [1],)", "map call X(a = split Y, b = 2, * = Z.w,)", "call X(*= self,)", "call X(a = *,)",
	"call local X()", "call local()", "call local as Y()", "call local as local()", "call local local()", "call local preflight volatile X()",
	"call volatile preflight local volatile X as Y(a = 1,)", "call local as()", "call local X as preflight()", "call preflight volatile()",
	"call local, X()", "call disabled X()", "call using X()", "call local map()", "local call X()", "map call local X(a = split [1],)",
	"map local call X(a = split [1],)", "call X() using (local = true,)", "call X() using (local = true)", "call X() using (local = true,,)",
	"call X() using (local = true, preflight = false, volatile = true, disabled = Y.z,)", "call X() using (volatile = false, local = false,)",
	"call X() using (local = true, local = false,)", "call X() using (disabled = Y,)", "call X() using (disabled = self.x,)",
	"call X() using (disabled = self,)", "call X() using (disabled = Y.default,)", "call X() using (disabled = self.x.y,)",
	"call X() using (disabled = [Y],)", "call X() using (disabled = null,)", "call X() using (local = Y,)", "call X() using (local = null,)",
	"call X() using (foo = true,)", "call X() using (a = 1,)", "call X() using (* = self,)", "call X() using (using = true,)",
	"call X() using (local = true,) using (volatile = true,)", "call X() using (local = true,) using ()", "call X() using () using ()",
	"call X() using (local = true,) using", "call X() using", "call X() using local = true,", "call X() (local = true,)",
	"call local X() using (local = false,)", "call local preflight X(a = 1,) using (volatile = true, disabled = D.x,)",
	"call X using (local = true,)", "call X() USING (local = true,)", "call X() using(local=true,)", "call X()using(local=true,)",
	"call X(a = 1,)\nusing (\n    local = true,\n)\n", "call X(\n    a = 1,\n) using (\n    local = true,\n)\n", "call X() using (local = split true,)",
	"call X() as Y", "call X() using (local = true,) as Y", "call X() call Y()", "call X() return ()", "call X() using (local = true,) x",
	"call X(a = split.b, * = split,)", "call retain(* = retain,) using (disabled = disabled.disabled,)", "call X(split = 1, * = self,)",
	"call X(* = self,) using (local = true,)", "map call X(a = split self.b, * = self,) using (preflight = true,)",
	"call\xc2\xa0local\xe3\x80\x80X() using (local\xe2\x80\xa8= true,\xc2\x85)", "call X() using (local = true\xe2\x80\x8b,)", "call X() using\xff (local = true,)", // bytes >= 0x80 between tokens
}

var c09c2BodyNearMisses = []string{
	"\n    return ()\n}\n", "\n    return (\n    )\n}\n", "\n    return (r = self.a,)\n}\n", "\n    return (r = self.a)\n}\n",
	"\n    return (* = self,)\n}\n", "\n    return (r = 1, * = X,)\n}\n", "\n    return (* = self, r = 1,)\n}\n", "\n    return (r = split [1],)\n}\n",
	"\n    return (r = split,)\n}\n", "\n    return ()\n    retain (X)\n}\n", "\n    return ()\n    retain (X.y)\n}\n",
	"\n    return ()\n    retain (self.x,)\n}\n", "\n    return ()\n    retain (X,)\n}\n", "\n    return ()\n    retain (X.y,)\n}\n",
	"\n    return ()\n    retain (X.y.z, self.a.b, Q.default,)\n}\n", "\n    return ()\n    retain ()\n}\n", "\n    return ()\n    retain (self,)\n}\n",
	"\n    return ()\n    retain (1,)\n}\n", "\n    return ()\n    retain ([X],)\n}\n", "\n    return ()\n    retain (X,,)\n}\n",
	"\n    return ()\n    retain (X,) retain (Y,)\n}\n", "\n    retain (X,)\n    return ()\n}\n", "\n    return ()\n    retain\n}\n",
	"\n    return ()\n    return ()\n}\n", "\n}\n", "\n    call X()\n}\n", "\n    call X()\n    return ()\n}\n",
	"\n    call X()\n    call Y(a = X.o,)\n    return (r = Y.o,)\n}\n", "\n    return ()\n    call X()\n}\n",
	"\n    call X() using (local = true,)\n    return ()\n}\n", "\n    call X()\n    using (local = true,)\n    return ()\n}\n",
	"\n    call X() using\n    return ()\n}\n", "\n    call local X()\n    map call Y(a = split X.o,)\n    return ()\n    retain (Y.o,)\n}\n",
	"\n    call X() using (disabled = self.a,)\n    call Y(* = self,)\n    return (* = Y,)\n}\n", "\n    call X()\n    return ()\n    retain (X.o,)\n}",
	"\n    call X()\n    return ()\n    retain (X.o,)\n}\n# end\n", "\n    return ()\n    retain (retain,)\n}\n", "\n    return (retain = retain,)\n    retain (using.retain,)\n}\n",
	"\n    map call X(a = split self.a,) using (volatile = true,)\n    return (r = X,)\n}\n", "\n    call X(a = 1,) call Y() return () retain () }",
	"\n    return ()\n} }\n", "\n    return ()\n}\ncall P()\n", "\n    call return()\n    return ()\n}\n", "\n    call X as retain()\n    return ()\n    retain (retain.x,)\n}\n",
}

// ---- bodies ----

type c09c2Body struct {
	calls    []*c09c2Call
	ret      []c09callBind
	retWild  *c09cx
	retain   []*c09cx
	retained bool
}

func (b *c09c2Body) enc() string {
	w := []string{strconv.Itoa(len(b.calls))}
	for _, k := range b.calls {
		k.encW(&w)
	}
	c09c2EncBinds(&w, b.ret, b.retWild)
	if b.retained {
		w = append(w, "R", strconv.Itoa(len(b.retain)))
		for _, e := range b.retain {
			e.enc(&w)
		}
	} else {
		w = append(w, "_")
	}
	return strings.Join(w, " ")
}

func c09c2WalkRefs(e *c09cx, f func(*c09cx)) {
	if e == nil {
		return
	}
	if e.kind == 'r' {
		f(e)
	}
	for _, x := range e.xs {
		c09c2WalkRefs(x, f)
	}
}

func (k *c09c2Call) walkRefs(f func(*c09cx)) {
	for _, b := range k.binds {
		c09c2WalkRefs(b.exp, f)
	}
	c09c2WalkRefs(k.wildcard, f)
	for _, m := range k.mods {
		c09c2WalkRefs(m.exp, f)
	}
}

// c09c2GenBody: calls in dependency order (a reference names an earlier call
// or no call at all), so that Pipeline.topoSort leaves them where they are.
func c09c2GenBody(c *Ctx) *c09c2Body {
	b := &c09c2Body{}
	nc := c.Rng.Intn(4)
	ids := map[string]int{}
	for j := 0; j < nc; j++ {
		k := c09c2GenCall(c)
		if k.decId == "P" {
			k.decId = "PP"
			if k.id == "P" {
				k.id = "PP"
			}
		}
		for {
			if _, dup := ids[k.id]; !dup {
				break
			}
			k.id = k.id + "x"
		}
		ids[k.id] = j
		b.calls = append(b.calls, k)
	}
	for j, k := range b.calls {
		k.walkRefs(func(r *c09cx) {
			if r.self {
				return
			}
			if j > 0 && c.Rng.Intn(2) == 0 {
				r.id = b.calls[c.Rng.Intn(j)].id
			}
			for {
				if i, isCall := ids[r.id]; !isCall || i < j {
					break
				}
				r.id = "Q" + r.id
			}
		})
	}
	b.ret = c09c2Binds(c, c.Rng.Intn(4), c.Rng.Intn(12) == 0)
	if c.Rng.Intn(6) == 0 {
		b.retWild = c09c2Wild(c)
	}
	if c.Rng.Intn(2) == 0 {
		b.retained = true
		for n := c.Rng.Intn(4); n > 0; n-- {
			if c.Rng.Intn(15) == 0 {
				b.retain = append(b.retain, c09callExp(c, 1))
			} else {
				b.retain = append(b.retain, c09callRef(c))
			}
		}
	}
	return b
}

func (b *c09c2Body) spell(c *Ctx) (text string, decoy bool) {
	s := &c09c2Sp{c: c}
	for _, k := range b.calls {
		s.opt()
		if s.call(k) {
			decoy = true
		}
		s.sp()
	}
	s.opt()
	s.b.WriteString("return")
	s.opt()
	s.b.WriteByte('(')
	s.binds(b.ret, b.retWild)
	s.opt()
	s.b.WriteByte(')')
	if b.retained {
		s.opt()
		s.b.WriteString("retain")
		s.opt()
		s.b.WriteByte('(')
		for _, e := range b.retain {
			s.opt()
			e.spell(c, &s.b)
			s.opt()
			s.b.WriteByte(',')
		}
		s.opt()
		s.b.WriteByte(')')
	}
	s.opt()
	s.b.WriteString("}")
	s.opt()
	return s.b.String(), decoy
}

func c09c2Impl(out string, err error, pan string) string {
	if pan != "" {
		return "panic: " + pan
	}
	if err != nil {
		return "error: " + err.Error()
	}
	return out
}

func c09Call2(c *Ctx) {
	r := c.Res
	n, nb := 1500, 800
	if c.Thorough {
		n, nb = 12000, 6400
	}
	mismatch := func(key, what, broken string, in map[string]interface{}, impl, model string) {
		r.violate(Violation{Kind: "correspondence", Key: key, What: what, Input: in, Impl: impl, Model: model, Broken: broken})
	}
	const brokenParse = "correspondence C09.parsecall2 (Martian.FormatCall2.parseCall2 vs UncheckedParse)"
	const brokenFmt = "correspondence C09.fmtcall2 (Martian.FormatCall2.fmtCall2 vs CallStm.format)"
	const brokenBodyParse = "correspondence C09.parsebody (Martian.FormatCall2.parseBody vs UncheckedParse)"
	const brokenBodyFmt = "correspondence C09.fmtbody (Martian.FormatCall2.fmtBody vs Pipeline.format)"

	// ================= A. top-level call files =================
	cases := make([]*c09c2Call, n)
	encs := make([]string, n)
	var reqs [][]string
	for i := range cases {
		cases[i] = c09c2GenCall(c)
		encs[i] = cases[i].enc()
		reqs = append(reqs, []string{"C09.fmtcall2", "0", encs[i]}, []string{"C09.wfcall2", encs[i]}, []string{"C09.normcall2", encs[i]})
	}
	reps := c.Drv.AskBatch(reqs)

	texts := make([]string, n)
	respelled := make([]string, n)
	decoys := make([]bool, n)
	realRe := make([]string, n)
	var reqs2 [][]string
	for i, k := range cases {
		texts[i] = unhx(reps[3*i])
		s := &c09c2Sp{c: c}
		s.opt()
		decoys[i] = s.call(k)
		s.opt()
		respelled[i] = s.b.String()
		realRe[i] = c09c2Dump(respelled[i])
		norm := reps[3*i+2]
		reqs2 = append(reqs2, []string{"C09.parsecall2", hx(texts[i])}, []string{"C09.parsecall2", hx(respelled[i])},
			[]string{"C09.fmtcall2", "0", norm}, []string{"C09.wfcall2", norm}, []string{"C09.normcall2", norm})
	}
	reps2 := c.Drv.AskBatch(reqs2)

	// the model's print / normal form of what the real parser read from the respelled text
	var reqs3 [][]string
	var idx3 []int
	for i := range cases {
		if strings.HasPrefix(realRe[i], "some ") {
			e := strings.TrimPrefix(realRe[i], "some ")
			reqs3 = append(reqs3, []string{"C09.normcall2", e}, []string{"C09.fmtcall2", "0", e})
			idx3 = append(idx3, i)
		}
	}
	reps3 := c.Drv.AskBatch(reqs3)
	normOfRe, fmtOfRe := map[int]string{}, map[int]string{}
	var reqs4 [][]string
	for j, i := range idx3 {
		normOfRe[i] = reps3[2*j]
		fmtOfRe[i] = unhx(reps3[2*j+1])
		reqs4 = append(reqs4, []string{"C09.fmtcall2", "0", reps3[2*j]})
	}
	reps4 := c.Drv.AskBatch(reqs4)
	fmtNormOfRe := map[int]string{}
	for j, i := range idx3 {
		fmtNormOfRe[i] = unhx(reps4[j])
	}

	// wildcard moved off the last position (Ast.Format on a hand-made AST)
	type movedCase struct{ i, k int }
	var moved []movedCase
	var reqs5 [][]string
	for i, k := range cases {
		if reps[3*i+1] == "wf=true" && k.wildcard != nil && len(k.binds) > 0 {
			pos := c.Rng.Intn(len(k.binds))
			moved = append(moved, movedCase{i, pos})
			reqs5 = append(reqs5, []string{"C09.fmtcall2raw", "0", strconv.Itoa(pos), reps[3*i+2]})
		}
	}
	reps5 := c.Drv.AskBatch(reqs5)
	for j, m := range moved {
		want := unhx(reps5[j])
		out, problem := c09c2FormatMoved(texts[m.i], m.k)
		r.hist("call2:wildcard-moved")
		if problem != "" || out != want {
			impl := out
			if problem != "" {
				impl = problem
			}
			mismatch("C09:call2-format-mismatch", "Ast.Format of a call whose wildcard binding was moved to position k differs from the model (BindStms.format stops after `*`)",
				brokenFmt, map[string]interface{}{"call": reps[3*m.i+2], "text": texts[m.i], "k": m.k}, impl, want)
		}
	}

	for i, k := range cases {
		text, wf, norm := texts[i], reps[3*i+1] == "wf=true", reps[3*i+2]
		mp, mpRe := reps2[5*i], reps2[5*i+1]
		fmtNorm, wfNorm, normNorm := unhx(reps2[5*i+2]), reps2[5*i+3], reps2[5*i+4]
		in := map[string]interface{}{"call": encs[i], "text": text}
		r.hist(fmt.Sprintf("call2:wf=%v,map=%v,wild=%v,mods=%s", wf, k.isMap(), k.wildcard != nil, k.spelling))
		r.count("call2:"+encs[i], len(k.binds) > 0 || k.wildcard != nil || k.spelling != "none")
		for _, m := range k.mods {
			if (m.id == "local" && k.local) || (m.id == "preflight" && k.preflight) || (m.id == "volatile" && k.volatile) {
				// the compiler rejects the input (ConflictingModifiers); the formatter keeps the
				// binding and drops the keyword, so its output compiles (reported, not a violation
				// of the round trip: the model does the same, Props.C09.call2_near_misses (1))
				r.hist("call2:keyword-and-binding-with-the-same-id")
				break
			}
		}

		// (a) the real parser on the model's text
		rp := c09c2Dump(text)
		if rp != mp {
			mismatch("C09:call2-parse-mismatch", "Ast.Call read from the printed call differs from the model's parseCall2", brokenParse, in, rp, mp)
		}
		if wf {
			if mp != "some "+norm {
				mismatch("C09:call2-roundtrip-model", "the model's parseCall2 (fmtCall2 [] c) is not normCall2 c for a well-formed call (theorem parse_format_call2 evaluated)", "Props.C09.parse_format_call2", in, "", mp+" / expected some "+norm)
			}
			if fmtNorm != text {
				mismatch("C09:call2-roundtrip-model", "fmtCall2 (normCall2 c) differs from fmtCall2 c (format_call2_idem evaluated)", "Props.C09.format_call2_idem", in, "", fmtNorm+" / expected "+text)
			}
			if wfNorm != "wf=true" || normNorm != norm {
				mismatch("C09:call2-roundtrip-model", "normCall2 c is not well formed or not a fixed point of normCall2 (normCall2_stable evaluated)", "Props.C09.normCall2_stable", in, "", wfNorm+" "+normNorm)
			}
			// (b) the real formatter on the model's text (the text of the normal form)
			out, err, pan := c09Format([]byte(text), "call.mro")
			if pan != "" || err != nil || out != text {
				mismatch("C09:call2-format-mismatch", "the real formatter does not reproduce the model's text of a normal-form call", brokenFmt, in, c09c2Impl(out, err, pan), text)
			}
		} else {
			r.hist("call2:not-wf:real=" + strings.SplitN(rp, " ", 2)[0])
		}

		// respelling
		inRe := map[string]interface{}{"call": encs[i], "text": respelled[i]}
		if realRe[i] != mpRe {
			mismatch("C09:call2-parse-mismatch", "Ast.Call read from a respelled call differs from the model's parseCall2", brokenParse, inRe, realRe[i], mpRe)
		}
		if wf && !strings.HasPrefix(realRe[i], "some ") {
			mismatch("C09:call2-parse-mismatch", "a respelling of a well-formed call is rejected", brokenParse, inRe, realRe[i], "some …")
		}
		if _, ok := fmtOfRe[i]; ok {
			want := fmtNormOfRe[i]
			out, err, pan := c09Format([]byte(respelled[i]), "call.mro")
			if pan != "" || err != nil || out != want {
				mismatch("C09:call2-format-mismatch", "the real formatter on a respelled call differs from fmtCall2 of normCall2 of the call it read", brokenFmt, inRe, c09c2Impl(out, err, pan), want)
			}
			if wf && fmtOfRe[i] != want {
				mismatch("C09:call2-roundtrip-model", "fmtCall2 (normCall2 c') differs from fmtCall2 c' for the call read from a respelling (format_call2_idem evaluated)", "Props.C09.format_call2_idem", inRe, "", fmtOfRe[i]+" / expected "+want)
			}
			if wf && !decoys[i] {
				if normOfRe[i] != norm {
					mismatch("C09:call2-parse-mismatch", "a respelling of a well-formed call does not read as a call with the same normal form", brokenParse, inRe, normOfRe[i], norm)
				}
				if want != text {
					mismatch("C09:call2-format-mismatch", "the formatted respelling differs from the formatted call", brokenFmt, inRe, want, text)
				}
			}
		}
	}

	// near misses: accept/reject and the AST; round trip of every accepted text
	var reqsN [][]string
	for _, t := range c09c2NearMisses {
		reqsN = append(reqsN, []string{"C09.parsecall2", hx(t)})
	}
	repsN := c.Drv.AskBatch(reqsN)
	for i, t := range c09c2NearMisses {
		rp := c09c2Dump(t)
		r.hist("call2:near-miss:real=" + strings.SplitN(rp, " ", 2)[0])
		r.count("call2nm:"+t, true)
		if strings.HasPrefix(rp, "other:") {
			continue
		}
		if rp != repsN[i] {
			mismatch("C09:call2-parse-mismatch", "near-miss text: real parser and model's parseCall2 disagree", brokenParse,
				map[string]interface{}{"text": t}, rp, repsN[i])
		}
		if strings.HasPrefix(rp, "some ") {
			e := strings.TrimPrefix(rp, "some ")
			rr := c.Drv.AskBatch([][]string{{"C09.normcall2", e}})
			ff := c.Drv.AskBatch([][]string{{"C09.fmtcall2", "0", rr[0]}})
			want := unhx(ff[0])
			out, err, pan := c09Format([]byte(t), "call.mro")
			if pan != "" || err != nil || out != want {
				mismatch("C09:call2-format-mismatch", "near-miss text: the real formatter differs from fmtCall2 of normCall2 of the call read", brokenFmt,
					map[string]interface{}{"text": t}, c09c2Impl(out, err, pan), want)
			}
		}
	}

	// ================= B. pipeline bodies =================
	bodies := make([]*c09c2Body, nb)
	bencs := make([]string, nb)
	var breqs [][]string
	for i := range bodies {
		bodies[i] = c09c2GenBody(c)
		bencs[i] = bodies[i].enc()
		breqs = append(breqs, []string{"C09.fmtbody", bencs[i]}, []string{"C09.wfbody", bencs[i]}, []string{"C09.normbody", bencs[i]})
	}
	breps := c.Drv.AskBatch(breqs)
	btexts := make([]string, nb)
	bres := make([]string, nb)
	bdecoy := make([]bool, nb)
	brealRe := make([]string, nb)
	var breqs2 [][]string
	for i, b := range bodies {
		btexts[i] = unhx(breps[3*i])
		bres[i], bdecoy[i] = b.spell(c)
		brealRe[i] = c09c2DumpBody(bres[i])
		breqs2 = append(breqs2, []string{"C09.parsebody", hx(btexts[i])}, []string{"C09.parsebody", hx(bres[i])},
			[]string{"C09.fmtbody", breps[3*i+2]})
	}
	breps2 := c.Drv.AskBatch(breqs2)
	var breqs3 [][]string
	var bidx3 []int
	for i := range bodies {
		if strings.HasPrefix(brealRe[i], "some ") {
			breqs3 = append(breqs3, []string{"C09.normbody", strings.TrimPrefix(brealRe[i], "some ")})
			bidx3 = append(bidx3, i)
		}
	}
	breps3 := c.Drv.AskBatch(breqs3)
	var breqs4 [][]string
	for j := range bidx3 {
		breqs4 = append(breqs4, []string{"C09.fmtbody", breps3[j]})
	}
	breps4 := c.Drv.AskBatch(breqs4)
	bNormOfRe, bFmtOfRe := map[int]string{}, map[int]string{}
	for j, i := range bidx3 {
		bNormOfRe[i] = breps3[j]
		bFmtOfRe[i] = unhx(breps4[j])
	}
	for i, b := range bodies {
		text, wf, norm := btexts[i], breps[3*i+1] == "wf=true", breps[3*i+2]
		mp, mpRe, fmtNorm := breps2[3*i], breps2[3*i+1], unhx(breps2[3*i+2])
		full := c09c2Header + text
		in := map[string]interface{}{"body": bencs[i], "text": full}
		r.hist(fmt.Sprintf("body:wf=%v,calls=%d,retain=%v,retwild=%v", wf, len(b.calls), b.retained, b.retWild != nil))
		r.count("body:"+bencs[i], true)

		rp := c09c2DumpBody(text)
		if rp != mp {
			mismatch("C09:pipeline-stm-parse-mismatch", "calls/return/retain read from the printed pipeline body differ from the model's parseBody", brokenBodyParse, in, rp, mp)
		}
		if wf {
			if mp != "some "+norm {
				mismatch("C09:pipeline-stm-roundtrip-model", "the model's parseBody (fmtBody b) is not normBody b for a well-formed body (theorem parse_format_body evaluated)", "Props.C09.parse_format_body", in, "", mp+" / expected some "+norm)
			}
			if fmtNorm != text {
				mismatch("C09:pipeline-stm-roundtrip-model", "fmtBody (normBody b) differs from fmtBody b (format_body_idem evaluated)", "Props.C09.format_body_idem", in, "", fmtNorm+" / expected "+text)
			}
			out, err, pan := c09Format([]byte(full), "pipe.mro")
			if pan != "" || err != nil || out != full {
				mismatch("C09:pipeline-stm-format-mismatch", "the real formatter does not reproduce the model's text of a pipeline body in normal form", brokenBodyFmt, in, c09c2Impl(out, err, pan), full)
			}
		} else {
			r.hist("body:not-wf:real=" + strings.SplitN(rp, " ", 2)[0])
		}

		fullRe := c09c2Header + bres[i]
		inRe := map[string]interface{}{"body": bencs[i], "text": fullRe}
		if brealRe[i] != mpRe {
			mismatch("C09:pipeline-stm-parse-mismatch", "calls/return/retain read from a respelled pipeline body differ from the model's parseBody", brokenBodyParse, inRe, brealRe[i], mpRe)
		}
		if wf && !strings.HasPrefix(brealRe[i], "some ") {
			mismatch("C09:pipeline-stm-parse-mismatch", "a respelling of a well-formed pipeline body is rejected", brokenBodyParse, inRe, brealRe[i], "some …")
		}
		if want, ok := bFmtOfRe[i]; ok {
			out, err, pan := c09Format([]byte(fullRe), "pipe.mro")
			if pan != "" || err != nil || out != c09c2Header+want {
				mismatch("C09:pipeline-stm-format-mismatch", "the real formatter on a respelled pipeline body differs from fmtBody of normBody of what it read", brokenBodyFmt, inRe, c09c2Impl(out, err, pan), c09c2Header+want)
			}
			if wf && !bdecoy[i] {
				if bNormOfRe[i] != norm {
					mismatch("C09:pipeline-stm-parse-mismatch", "a respelling of a well-formed body does not read as a body with the same normal form", brokenBodyParse, inRe, bNormOfRe[i], norm)
				}
				if want != text {
					mismatch("C09:pipeline-stm-format-mismatch", "the formatted respelling differs from the formatted body", brokenBodyFmt, inRe, want, text)
				}
			}
		}
	}

	var reqsB [][]string
	for _, t := range c09c2BodyNearMisses {
		reqsB = append(reqsB, []string{"C09.parsebody", hx(t)})
	}
	repsB := c.Drv.AskBatch(reqsB)
	for i, t := range c09c2BodyNearMisses {
		rp := c09c2DumpBody(t)
		r.hist("body:near-miss:real=" + strings.SplitN(rp, " ", 2)[0])
		r.count("bodynm:"+t, true)
		if strings.HasPrefix(rp, "other:") {
			continue
		}
		if rp != repsB[i] {
			mismatch("C09:pipeline-stm-parse-mismatch", "near-miss text: real parser and model's parseBody disagree", brokenBodyParse,
				map[string]interface{}{"text": c09c2Header + t}, rp, repsB[i])
		}
	}

	// ================= C. accepted texts: the hypotheses of Props.C09 (AcceptedCallTexts) =================
	// evaluated on what the REAL parser returned for every accepted printed / respelled / near-miss text
	var hEncs, hTexts []string
	addAccepted := func(dump, text string, encs, texts *[]string) {
		if strings.HasPrefix(dump, "some ") {
			*encs = append(*encs, strings.TrimPrefix(dump, "some "))
			*texts = append(*texts, text)
		}
	}
	for i := range cases {
		addAccepted(c09c2Dump(texts[i]), texts[i], &hEncs, &hTexts)
		addAccepted(realRe[i], respelled[i], &hEncs, &hTexts)
	}
	for _, t := range c09c2NearMisses {
		addAccepted(c09c2Dump(t), t, &hEncs, &hTexts)
	}
	c09AcceptedHyps(c, "call2", "C09.call2hyps", hEncs, hTexts)
	var hbEncs, hbTexts []string
	for i := range bodies {
		addAccepted(c09c2DumpBody(btexts[i]), c09c2Header+btexts[i], &hbEncs, &hbTexts)
		addAccepted(brealRe[i], c09c2Header+bres[i], &hbEncs, &hbTexts)
	}
	for _, t := range c09c2BodyNearMisses {
		addAccepted(c09c2DumpBody(t), c09c2Header+t, &hbEncs, &hbTexts)
	}
	c09AcceptedHyps(c, "body", "C09.bodyhyps", hbEncs, hbTexts)
	c09CallTextProbes(c)
}
