package main

// The `fatal` trace line (C06 error_names_stage): what the real
// Node.getFatalError reported for the failed node — the metadata object
// (fork / split / join / chunk) and the file (errors | assert) — in the
// model's coordinates, so that lean/Driver/C02.lean can compare it with the
// model's `fatalError` at exactly this point of the history (the tracer has
// just observed the cache after RefreshState; nothing happens between that
// observation and GetFatalError).

import (
	"fmt"
	"strings"
)

// fatal emits `fatal <node> <fork> <role> <file>`; mdFqname is the fqname of
// the metadata object getFatalError returned (fork fqname, + ".split" /
// ".join" / ".chnk<i>"), file its MetadataFileName.  The line is only a
// comparison, not an event; an fqname that belongs to no fork's metadata gives
// a line the model cannot parse (it is rejected: getFatalError must name a
// metadata object of a fork).
func (t *SchedTracer) fatal(mdFqname, file string) {
	if mdFqname == "" || (file != "errors" && file != "assert") {
		return
	}
	role := "fork"
	fq := mdFqname
	switch {
	case strings.HasSuffix(fq, ".split"):
		role, fq = "split", strings.TrimSuffix(fq, ".split")
	case strings.HasSuffix(fq, ".join"):
		role, fq = "join", strings.TrimSuffix(fq, ".join")
	default:
		if i := strings.LastIndex(fq, ".chnk"); i >= 0 {
			var ch int
			if _, err := fmt.Sscanf(fq[i+5:], "%d", &ch); err == nil {
				role, fq = fmt.Sprintf("chunk:%d", ch), fq[:i]
			}
		}
	}
	for _, v := range t.run.ps.VerifNodes() {
		hits, at := 0, -1
		for pos, f := range v.Forks {
			if f.Fqname == fq {
				hits++
				at = pos
			}
		}
		if hits == 1 {
			pos := t.forkPos[v.Fqname]
			if at < len(pos) {
				t.emit("fatal %d %d %s %s", t.nodeIx[v.Fqname], pos[at], role, file)
			}
			return
		}
		if hits > 1 {
			// forks sharing a name (empty run-time forks): ambiguous, not compared
			return
		}
	}
	// what was reported is not the metadata of any fork of any node: the model rejects the line
	t.emit("fatal-names-no-fork-metadata %s %s", strings.ReplaceAll(mdFqname, " ", "_"), file)
}
