package main

// C08, lexer part 3: ties of the hand-written identifier recogniser and of the white-space set.

import (
	"fmt"
	"strconv"
	"strings"
	"unicode"

	"github.com/martian-lang/martian/martian/syntax"
)

func c08LexExtra(c *Ctx) {
	r := c.Res
	// 1. matchId (Lean, hand-written; Props.C08.id_rule_is_regex) vs the real tokIdRule
	n := 1500
	if c.Thorough {
		n = 45000
	}
	heads := make([]string, 0, n)
	for i := 0; i < n; i++ {
		h := c08GenIdent(c)
		if c.Rng.Intn(4) == 0 {
			h = []string{"_", "__", "_1", "1", "-", "é", "\xff", "", "_é"}[c.Rng.Intn(9)] + h
		}
		heads = append(heads, h)
	}
	reqs := make([][]string, len(heads))
	for i, h := range heads {
		reqs[i] = []string{"C08.id", hx(h)}
	}
	reps := c.Drv.AskBatch(reqs)
	for i, h := range heads {
		g := optHexGo(syntax.VerifTokId([]byte(h)))
		r.count("id:"+h, g != "none")
		if g != reps[i] {
			r.violate(Violation{Kind: "correspondence", Key: "C08:id-rule-mismatch",
				What:  "tokIdRule differs from the Lean recogniser matchId",
				Input: strconv.Quote(h), Impl: g, Model: reps[i], Broken: "correspondence C08.id (Martian.Lexer.matchId; Props.C08.id_rule_is_regex)"})
		}
	}
	// 2. the non-ASCII white-space set of the model (proved equal to the White_Space table re-read
	// from the toolchain's sources) against unicode.IsSpace itself, for every rune
	var gs []string
	for rn := rune(0x80); rn <= unicode.MaxRune; rn++ {
		if unicode.IsSpace(rn) {
			gs = append(gs, fmt.Sprintf("%x", rn))
		}
	}
	g := strings.Join(gs, " ")
	m := c.Drv.Ask("C08.unispaces")
	r.count("unispaces", true)
	if g != m {
		r.violate(Violation{Kind: "correspondence", Key: "C08:white-space-set-mismatch",
			What:  "the runes >= 0x80 for which unicode.IsSpace holds differ from the model's isUniSpace (checked for every rune up to U+10FFFF)",
			Input: "all runes", Impl: g, Model: m, Broken: "Props.C08.leading_space_set (fact Gen.unicodeWhiteSpace)"})
	}
}
