package main

// C08, lexer part 3: ties of the hand-written identifier recogniser and of the white-space set.

import (
	"fmt"
	"strconv"
	"strings"
	"unicode"

	"github.com/martian-lang/martian/martian/syntax"
)

func c08LexExtra(c *Ctx) {
	r := c.Res
	// 1. matchId (Lean, hand-written; Props.C08.id_rule_is_regex) vs the real tokIdRule
	n := 1500
	if c.Thorough {
		n = 45000
	}
	heads := make([]string, 0, n)
	for i := 0; i < n; i++ {
		h := c08GenIdent(c)
		if c.Rng.Intn(4) == 0 {
			h = []string{"_", "__", "_1", "1", "-", "é", "\xff", "", "_é"}[c.Rng.Intn(9)] + h
		}
		heads = append(heads, h)
	}
	reqs := make([][]string, len(heads))
	for i, h := range heads {
		reqs[i] = []string{"C08.id", hx(h)}
	}
	reps := c.Drv.AskBatch(reqs)
	for i, h := range heads {
		g := optHexGo(syntax.VerifTokId([]byte(h)))
		r.count("id:"+h, g != "none")
		if g != reps[i] {
			r.violate(Violation{Kind: "correspondence", Key: "C08:id-rule-mismatch",
				What:  "tokIdRule differs from the Lean recogniser matchId",
				Input: strconv.Quote(h), Impl: g, Model: reps[i], Broken: "correspondence C08.id (Martian.Lexer.matchId; Props.C08.id_rule_is_regex)"})
		}
	}
	// 2. the non-ASCII white-space set of the model (proved equal to the White_Space table re-read
	// from the toolchain's sources) against unicode.IsSpace itself, for every rune
	var gs []string
	for rn := rune(0x80); rn <= unicode.MaxRune; rn++ {
		if unicode.IsSpace(rn) {
			gs = append(gs, fmt.Sprintf("%x", rn))
		}
	}
	g := strings.Join(gs, " ")
	m := c.Drv.Ask("C08.unispaces")
	r.count("unispaces", true)
	if g != m {
		r.violate(Violation{Kind: "correspondence", Key: "C08:white-space-set-mismatch",
			What:  "the runes >= 0x80 for which unicode.IsSpace holds differ from the model's isUniSpace (checked for every rune up to U+10FFFF)",
			Input: "all runes", Impl: g, Model: m, Broken: "Props.C08.leading_space_set (fact Gen.unicodeWhiteSpace)"})
	}

	// 3. C09's reduced tokenizer model (Martian.FormatExp.lexAll, value expressions) against the full
	// tokenizer model (which the token-stream phase ties to the code): both in Lean, compared by the
	// driver.  The reduced model declares every byte >= 0x80 outside a string literal invalid (the code
	// accepts Unicode white space there) - disagreements on such sources are counted, not reported; a
	// disagreement on a source that is ASCII outside its string literals is a violation.
	nfx := 700
	if c.Thorough {
		nfx = 20000
	}
	srcs := []string{"#\xff\n1", "# \xef\xbf\xbd\n1", "# é\n[1, \"a\"]", "\u00a01", "@include", "true", "{a: [1.5e3, null]}", "self.x.y", "stagex stage _ __a"}
	for _, st := range c08GenStreams(c, nfx) {
		if st.kind == "pieces" {
			srcs = append(srcs, st.src)
		}
	}
	for i := 0; i < nfx; i++ {
		// ASCII-only concatenations of value-expression material
		var sb strings.Builder
		k := 1 + c.Rng.Intn(12)
		for j := 0; j < k; j++ {
			switch c.Rng.Intn(8) {
			case 0:
				sb.WriteString(c08GenNum(c))
			case 1:
				sb.WriteString(c08GenStr(c))
			case 2:
				sb.WriteString(c08GenIdent(c))
			case 3:
				sb.WriteString([]string{"true", "false", "null", "self", "default", "split", "stage", "in", "mem_gb", "_x", "truex"}[c.Rng.Intn(11)])
			case 4:
				sb.WriteString([]string{"# c\n", "#\n", "# \"x\" [\n", "#"}[c.Rng.Intn(4)])
			default:
				sb.WriteString([]string{"[", "]", "{", "}", ",", ":", ".", " ", "\n", "\t", "=", "*", "(", ")", "<", ">", ";", "\v\f\r"}[c.Rng.Intn(18)])
			}
			if c.Rng.Intn(3) == 0 {
				sb.WriteByte(' ')
			}
		}
		b := []byte(sb.String())
		for j := range b {
			if b[j] >= 0x80 {
				b[j] = '?'
			}
		}
		srcs = append(srcs, string(b))
	}
	freqs := make([][]string, len(srcs))
	for i, sx := range srcs {
		freqs[i] = []string{"C08.fxcmp", hx(sx)}
	}
	for i, rep := range c.Drv.AskBatch(freqs) {
		f := strings.Fields(rep)
		if len(f) != 4 {
			fatal("C08.fxcmp: bad reply %q", rep)
		}
		r.count("fxcmp:"+srcs[i], f[2] != "none")
		switch {
		case f[0] == "same":
			r.hist("fxcmp:same")
		case f[1] == "true":
			r.hist("fxcmp:differ:non-ascii-outside-strings")
			if f[2] != "none" && f[3] == "none" {
				r.hist("fxcmp:differ:reduced-model-accepts-what-the-code-rejects")
			}
		default:
			r.violate(Violation{Kind: "correspondence", Key: "C08:formatexp-lexer-mismatch",
				What:  "C09's reduced tokenizer model (Martian.FormatExp.lexAll) and the full tokenizer model (Martian.Tokenizer.lexAll, tied to the real scanner by the token-stream correspondence) disagree on a source that is ASCII outside its string literals",
				Input: strconv.Quote(srcs[i]), Impl: "full model: " + f[3] + " tokens", Model: "reduced model: " + f[2] + " tokens",
				Broken: "correspondence C08.fxcmp (Martian.FormatExp.nextLex / lexAll)"})
		}
	}

	// 4. the models of the UNREPAIRED code (numTokUnchecked, srcActionUnchecked: negative witnesses
	// F1, F2, F4 of Props/C08.lean) replayed: the model variants still say what the theorems say, and the
	// real code no longer does it (INVALID with the text instead of handing the token to a panicking
	// converter; a located error instead of an index panic).
	for _, w := range []struct{ op, in, model string }{
		{"C08.numtok0", "9223372036854775808", "int " + hx("9223372036854775808")},
		{"C08.numtok0", "1e999", "float " + hx("1e999")},
		{"C08.src0", "", "panic"},
		{"C08.src0", " ", "panic"},
	} {
		got := c.Drv.Ask(w.op, hx(w.in))
		r.count("witness0:"+w.op+w.in, true)
		if got != w.model {
			r.violate(Violation{Kind: "correspondence", Key: "C08:unrepaired-variant-model-changed",
				What:  "the model of the unrepaired code no longer yields what its negative-witness theorem states",
				Input: w.op + " " + strconv.Quote(w.in), Model: got, Expect: w.model, Broken: "Props.C08.int_tok_total_unchecked_false / float_tok_total_unchecked_false / src_action_unchecked_panics"})
		}
		if w.op == "C08.numtok0" {
			id, v, pn := c08NextTokenGuarded([]byte(w.in))
			if pn != "" || id != syntax.VerifTokINVALID || string(v) != w.in {
				r.violate(Violation{Kind: "property", Key: "C08:range-check-missing",
					What:  "the tokenizer hands an out-of-range numeral to the parser instead of INVALID carrying the text (the defect F1/F2 is back)",
					Input: strconv.Quote(w.in), Impl: fmt.Sprintf("token %d %q %s", id, v, pn), Expect: "INVALID with the text", Broken: "Props.C08.tokenizer_converter_contract"})
			}
		}
	}
}
