package main

// C11, batch stream: ONE Node.refreshState cycle over MANY journal entries.
//
// A node tree whose node names are prefix-related (X, X1, X10, X_x, X_x1, XX,
// X0, X_; the same names again below a nested pipeline; pipestance id equal
// to a pipeline name), fork tables with array forks 0..120 (crossing the
// decimal widths), map forks whose keys end in digits or look like "_x1", "x1",
// "1", "0", nested parts (zero-padded flat indices), several chunks per fork
// (crossing widths 9/10, 99/100).  A batch is a PRNG subset of
// (node, fork, split | join | chunk i | fork-level, metadata file), each
// written through the real job-side writer (Metadata.journalFile +
// NewMetadataRunWithJournalPath + UpdateJournal), plus stragglers of other
// attempts and raw near-miss names that no job produces; all of it sits in the
// journal directory together and is read by ONE refreshState.  Afterwards the
// metadata caches of EVERY node / fork / chunk of the tree are read: each
// notification must have reached exactly its owner, and nobody else may have
// received anything.  The same batch goes through the Lean model (routeBatch /
// deliver, entry by entry): per-entry target and the whole credit table must
// agree.  A failing batch is re-executed alone and shrunk (greedy removal of
// entries) before it is reported.

import (
	"fmt"
	"os"
	"path"
	"sort"
	"strconv"
	"strings"

	"github.com/martian-lang/martian/martian/core"
)

type c11bFork struct {
	parts   []c11Part
	names   core.VerifForkNames
	jname   string // what follows "<fqid>.fork" in the fork's fqname
	nchunks int
}

type c11bNode struct {
	fqid  string
	path  string // fqid without "ID.<psid>."
	forks []c11bFork
}

type c11bTree struct {
	name  string
	psid  string
	src   string
	w     *core.VerifWorld
	nodes []*c11bNode
	uniq  map[string]string // job key -> uniquifier ("" = none), decided lazily
	// confusable groups: (node, fork) pairs that some lossy keying of (path, fork name) identifies
	groups     [][][2]int
	groupKinds []string
}

type c11bEntry struct {
	node, fork int
	job        string // split | join | chunk | fork ; "" = raw near-miss name
	chunk      int
	file       string
	stale      bool
	name       string // journal file name
	uq         string // the uniquifier the name carries ("" = none)
}

func (e c11bEntry) String() string {
	if e.job == "" {
		return "raw:" + e.name
	}
	s := ""
	if e.stale {
		s = " (straggler of another attempt)"
	}
	return fmt.Sprintf("%s <- node#%d fork#%d %s chunk=%d file=%s%s", e.name, e.node, e.fork, e.job, e.chunk, e.file, s)
}

// ---------- the program ----------

func c11bProgram(stages []string, inner, outer string) string {
	var sb strings.Builder
	for _, s := range stages {
		fmt.Fprintf(&sb, "stage %s(\n    in  int x,\n    out int y,\n    src comp \"x\",\n) split (\n    in  int z,\n)\n\n", s)
	}
	body := func() {
		for _, s := range stages {
			fmt.Fprintf(&sb, "    call %s(\n        x = self.x,\n    )\n", s)
		}
	}
	fmt.Fprintf(&sb, "pipeline %s(\n    in  int x,\n    out int y,\n)\n{\n", inner)
	body()
	fmt.Fprintf(&sb, "    return (\n        y = %s.y,\n    )\n}\n\n", stages[0])
	fmt.Fprintf(&sb, "pipeline %s(\n    in  int x,\n    out int y,\n)\n{\n    call %s(\n        x = self.x,\n    )\n", outer, inner)
	body()
	fmt.Fprintf(&sb, "    return (\n        y = %s.y,\n    )\n}\n\ncall %s(\n    x = 1,\n)\n", inner, outer)
	return sb.String()
}

var c11bVariants = []string{"1", "10", "_x", "_x1", "0", "_", "@", "2", "_1"} // "@" = the base doubled

func c11bStageNames(c *Ctx, base string, all bool) []string {
	out := []string{base}
	idx := c.Rng.Perm(len(c11bVariants))
	n := 3 + c.Rng.Intn(4)
	if all {
		n = len(c11bVariants)
		sort.Ints(idx)
	}
	for _, i := range idx[:n] {
		v := c11bVariants[i]
		if v == "@" {
			out = append(out, base+base)
		} else {
			out = append(out, base+v)
		}
	}
	return out
}

var c11bKeyPool = []string{"x1", "_x1", "1", "0", "10", "x", "_", "1_0", "_x", "01", "x10", "1x", "a.b", "a/b", "%", "é", "fork1", "0/fork1", "00",
	"matched_normal", "normal", "a_b", "b", "xb", "0_1", "x_1", "_1", "b_"}

// one fork table: the part lists of the forks of one node, in list order
func c11bForkTable(c *Ctx, kind int) [][]c11Part {
	arr := func(i, n int, st bool) c11Part { return c11Part{Kind: "arr", Index: i, Len: n, Static: st} }
	key := func(k string, ks []string, st bool) c11Part {
		return c11Part{Kind: "map", Key: k, Keys: ks, Static: st}
	}
	var forks [][]c11Part
	switch kind {
	case 0: // no mapping: the single fork0
		forks = append(forks, nil)
	case 1: // array forks, single part
		n := []int{2, 3, 10, 11, 12, 21, 100, 101, 121}[c.Rng.Intn(9)]
		st := c.Rng.Intn(2) == 0
		for i := 0; i < n; i++ {
			forks = append(forks, []c11Part{arr(i, n, st)})
		}
	case 2: // map forks over keys that end in digits / look like name suffixes
		n := 3 + c.Rng.Intn(5)
		var ks []string
		for _, i := range c.Rng.Perm(len(c11bKeyPool))[:n] {
			ks = append(ks, c11bKeyPool[i])
		}
		// near-equal siblings of one base key (case, trimming, normal forms, escape hex case, leading zeros …)
		if c.Rng.Intn(3) == 0 {
			ks = c11NearSubset(c, c11NearBase(c), 7)
		}
		// one key a ("_"-)suffix of another one
		if c.Rng.Intn(2) == 0 {
			pairs := [][2]string{{"matched_normal", "normal"}, {"a_b", "b"}, {"xb", "b"}, {"0_1", "1"}, {"1_0", "0"}, {"x_1", "_1"}, {"x1", "1"}, {"b_", "_"}}
			p := pairs[c.Rng.Intn(len(pairs))]
			have := map[string]bool{}
			for _, k := range ks {
				have[k] = true
			}
			for _, k := range p {
				if !have[k] {
					ks = append(ks, k)
				}
			}
		}
		st := c.Rng.Intn(2) == 0
		if c.Rng.Intn(2) == 0 {
			sort.Strings(ks) // the order in which the runtime lists the forks of a map call
		}
		for _, k := range ks {
			forks = append(forks, []c11Part{key(k, ks, st)})
		}
	case 3: // nested arrays: zero-padded flat indices (static outer) or fork<o>_<ii> groups (run-time outer)
		no, ni := 2+c.Rng.Intn(3), []int{3, 10, 11, 12}[c.Rng.Intn(4)]
		dyn := c.Rng.Intn(2) == 0
		for o := 0; o < no; o++ {
			for i := 0; i < ni; i++ {
				forks = append(forks, []c11Part{arr(o, no, !dyn), arr(i, ni, true)})
			}
		}
	default: // a map call around an array call
		ks := []string{"x1", "1", "0"}
		n := 2 + c.Rng.Intn(11)
		for _, k := range ks {
			for i := 0; i < n; i++ {
				forks = append(forks, []c11Part{key(k, ks, true), arr(i, n, true)})
			}
		}
	}
	if c.Rng.Intn(3) == 0 {
		c.Rng.Shuffle(len(forks), func(a, b int) { forks[a], forks[b] = forks[b], forks[a] })
	}
	return forks
}

func c11bBuildTree(c *Ctx, ti int, systematic bool) *c11bTree {
	r := c.Res
	bases := []string{"X", "STEP", "P", "fork", "A1", "x"}
	base := bases[c.Rng.Intn(len(bases))]
	if systematic {
		base = bases[ti%len(bases)]
	}
	stages := c11bStageNames(c, base, systematic)
	pipes := [][2]string{{"Q1", "Q"}, {"TOP1", "TOP"}, {"PIPE_", "PIPE"}, {base + "S", base + "S1"}}
	pp := pipes[c.Rng.Intn(len(pipes))]
	inner, outer := pp[0], pp[1]
	psid := []string{"ps", outer, inner, "ID"}[c.Rng.Intn(4)]
	t := &c11bTree{name: fmt.Sprintf("tree%d-%s", ti, base), psid: psid, src: c11bProgram(stages, inner, outer), uniq: map[string]string{}}
	dir := path.Join(c.Scratch, fmt.Sprintf("batch%d", ti))
	os.MkdirAll(path.Join(dir, "journal"), 0o755)
	w, err := core.VerifNewWorld(t.src, psid, dir)
	if err != nil {
		r.note("batch tree %s: cannot build world: %v", t.name, err)
		return nil
	}
	t.w = w
	top := "ID." + psid
	isStage := map[string]bool{}
	for _, s := range stages {
		isStage[s] = true
	}
	for _, fq := range w.Fqids() {
		nd := &c11bNode{fqid: fq, path: strings.TrimPrefix(fq, top+".")}
		last := fq[strings.LastIndex(fq, ".")+1:]
		var table [][]c11Part
		nch := 0
		if isStage[last] {
			kind := c.Rng.Intn(5)
			if systematic {
				// the shortest name gets the long array; the others a mix
				if last == base {
					kind = 1
				}
			}
			table = c11bForkTable(c, kind)
			if systematic && last == base && !strings.Contains(nd.path, inner+".") {
				table = nil
				for i := 0; i < 121; i++ {
					table = append(table, []c11Part{{Kind: "arr", Index: i, Len: 121, Static: true}})
				}
			}
			if systematic && last == base && strings.Contains(nd.path, inner+".") {
				ks := []string{"x1", "_x1", "1", "0", "10", "x", "_", "1_0"}
				table = nil
				for _, k := range ks {
					table = append(table, []c11Part{{Kind: "map", Key: k, Keys: ks, Static: true}})
				}
			}
			nch = []int{1, 2, 3, 11, 12, 101}[c.Rng.Intn(6)]
			if len(table) > 30 && nch > 12 {
				nch = 11
			}
		} else {
			// pipeline nodes: forks without chunks
			table = c11bForkTable(c, c.Rng.Intn(3))
			if len(table) > 12 {
				table = table[:12]
			}
		}
		for _, ps := range table {
			names, err := w.AddFork(fq, ps, nch)
			if err != nil {
				r.note("batch tree %s: AddFork(%s, %s): %v", t.name, fq, c11ShowParts(ps), err)
				continue
			}
			nd.forks = append(nd.forks, c11bFork{parts: ps, names: names, jname: strings.TrimPrefix(names.Fqname, fq+".fork"), nchunks: nch})
		}
		t.nodes = append(t.nodes, nd)
	}
	t.findGroups()
	return t
}

func c11bAlnumLower(s string) string {
	var sb strings.Builder
	for i := 0; i < len(s); i++ {
		ch := s[i]
		switch {
		case ch >= 'A' && ch <= 'Z':
			sb.WriteByte(ch + 32)
		case (ch >= 'a' && ch <= 'z') || (ch >= '0' && ch <= '9'):
			sb.WriteByte(ch)
		}
	}
	return sb.String()
}

// findGroups: (node, fork) pairs of the tree which a lossy keying of (node path, fork name)
// maps to one key: plain concatenation, concatenation ignoring punctuation and case, last
// path component only.  These are the inputs on which a router that keys any table by
// something less than the exact pair goes wrong.
func (t *c11bTree) findGroups() {
	keyings := []struct {
		kind string
		f    func(p, fk string) string
	}{
		{"concat", func(p, fk string) string { return p + fk }},
		{"alnum-lower", func(p, fk string) string { return c11bAlnumLower(p + fk) }},
		{"last-component", func(p, fk string) string { return p[strings.LastIndex(p, ".")+1:] + "\x00" + fk }},
		{"numeric-fork", func(p, fk string) string {
			if n, err := strconv.Atoi(strings.TrimLeft(fk, "_")); err == nil {
				return p + "\x00" + strconv.Itoa(n)
			}
			return p + "\x00" + fk
		}},
	}
	seen := map[string]bool{}
	for _, k := range keyings {
		m := map[string][][2]int{}
		for ni, nd := range t.nodes {
			for fi, f := range nd.forks {
				key := k.f(nd.path, f.jname)
				m[key] = append(m[key], [2]int{ni, fi})
			}
		}
		var keys []string
		for key, g := range m {
			if len(g) >= 2 && len(g) <= 6 {
				keys = append(keys, key)
			}
		}
		sort.Strings(keys)
		for _, key := range keys {
			sig := fmt.Sprint(m[key])
			if !seen[sig] {
				seen[sig] = true
				t.groups = append(t.groups, m[key])
				t.groupKinds = append(t.groupKinds, k.kind)
			}
		}
	}
}

// ---------- entries ----------

var c11bFiles = []string{"complete", "errors", "progress", "log", "stdout", "stderr", "jobinfo", "perf", "assert", "outs", "stage_defs", "heartbeat", "vdrkill.partial"}

func (t *c11bTree) jobKey(n, f int, job string, chunk int) string {
	return fmt.Sprintf("%d/%d/%s/%d", n, f, job, chunk)
}

// uniquifier of a job: decided at first use (half of the jobs are on a retry)
func (t *c11bTree) uniqOf(c *Ctx, n, f int, job string, chunk int) string {
	k := t.jobKey(n, f, job, chunk)
	if u, ok := t.uniq[k]; ok {
		return u
	}
	u := ""
	if job != "fork" && c.Rng.Intn(2) == 0 {
		u = c11Uniq(c)
		t.w.SetUniquifier(t.nodes[n].fqid, f, job, chunk, u)
	}
	t.uniq[k] = u
	return u
}

// entryFor renders what the job writes, through the real job-side code path
// (the name only: the file is written by writeBatch).
func (t *c11bTree) entryFor(c *Ctx, n, f int, job string, chunk int, file string, stale bool) (c11bEntry, bool) {
	nd := t.nodes[n]
	e := c11bEntry{node: n, fork: f, job: job, chunk: chunk, file: file, stale: stale}
	u := t.uniqOf(c, n, f, job, chunk)
	var runFile string
	if job == "fork" {
		// the fork's own metadata object has no journal path; an entry for it is named like the
		// split job's without a uniquifier and without the split_ prefix
		runFile = t.w.RunFile(nd.fqid, f, "split", -1)
		if su := t.uniqOf(c, n, f, "split", -1); su != "" {
			runFile = strings.TrimSuffix(runFile, ".u"+su)
		}
	} else {
		runFile = t.w.RunFile(nd.fqid, f, job, chunk)
	}
	if runFile == "" {
		return e, false
	}
	e.uq = u
	if stale {
		if u != "" {
			runFile = strings.TrimSuffix(runFile, ".u"+u)
		}
		e.uq = c11Uniq(c)
		runFile += ".u" + e.uq
	}
	prefix := map[string]string{"split": "split_", "join": "join_"}[job]
	e.name = path.Base(runFile) + "." + prefix + file
	return e, true
}

func (t *c11bTree) randomEntry(c *Ctx, n, f int) (c11bEntry, bool) {
	nd := t.nodes[n]
	fk := nd.forks[f]
	job, chunk := "split", -1
	switch x := c.Rng.Intn(10); {
	case fk.nchunks > 0 && x < 6:
		job = "chunk"
		chunk = c.Rng.Intn(fk.nchunks)
		if c.Rng.Intn(3) == 0 { // width boundaries and the last one
			cands := []int{0, 8, 9, 10, 11, 64, 99, 100, fk.nchunks - 1}
			if v := cands[c.Rng.Intn(len(cands))]; v < fk.nchunks {
				chunk = v
			}
		}
	case x < 8:
		job = []string{"split", "join"}[c.Rng.Intn(2)]
	case x < 9:
		job = "fork"
	}
	file := c11bFiles[c.Rng.Intn(len(c11bFiles))]
	if job == "fork" && (strings.HasPrefix(file, "split_") || strings.HasPrefix(file, "join_")) {
		file = "complete"
	}
	return t.entryFor(c, n, f, job, chunk, file, c.Rng.Intn(8) == 0)
}

// nearMiss: a name that no job of the tree produces, derived from a true one
func (t *c11bTree) nearMiss(c *Ctx, good c11bEntry) c11bEntry {
	s := good.name
	fk := t.nodes[good.node].forks[good.fork]
	forkTok := ".fork" + fk.jname
	switch c.Rng.Intn(9) {
	case 0:
		s = s[1:]
	case 1:
		s = "X" + s
	case 2:
		s = strings.Replace(s, forkTok, ".fork0"+fk.jname, 1)
	case 3:
		s = strings.Replace(s, forkTok, ".fork+"+fk.jname, 1)
	case 4:
		s = strings.Replace(s, forkTok, forkTok+"0", 1)
	case 5:
		s = strings.Replace(s, forkTok, forkTok[:len(forkTok)-1], 1)
	case 6:
		if i := strings.Index(s, ".chnk"); i >= 0 {
			j := i + 5
			for j < len(s) && s[j] >= '0' && s[j] <= '9' {
				j++
			}
			s = s[:i] + fmt.Sprintf(".chnk%d", fk.nchunks+c.Rng.Intn(3)) + s[j:]
		} else {
			s = strings.Replace(s, forkTok, forkTok+".chnk0", 1)
		}
	case 7:
		s = "ID." + t.psid + s
	default:
		s = strings.Replace(s, forkTok, forkTok+forkTok, 1)
	}
	return c11bEntry{name: s}
}

func (t *c11bTree) genBatch(c *Ctx) []c11bEntry {
	var batch []c11bEntry
	have := map[string]bool{}
	add := func(e c11bEntry, ok bool) {
		if ok && e.name != "" && !have[e.name] && !strings.HasSuffix(e.name, ".tmp") && !strings.ContainsAny(e.name, "/\x00") && len(e.name) <= 255 {
			have[e.name] = true
			batch = append(batch, e)
		}
	}
	pick := func() (int, int) {
		for {
			n := c.Rng.Intn(len(t.nodes))
			if len(t.nodes[n].forks) > 0 {
				return n, c.Rng.Intn(len(t.nodes[n].forks))
			}
		}
	}
	// whole confusable groups
	if len(t.groups) > 0 {
		for k := c.Rng.Intn(3); k > 0; k-- {
			// a keying first, then one of its groups (the keyings have very different group counts)
			kinds := map[string][]int{}
			var knames []string
			for i, k := range t.groupKinds {
				if len(kinds[k]) == 0 {
					knames = append(knames, k)
				}
				kinds[k] = append(kinds[k], i)
			}
			sort.Strings(knames)
			ks := kinds[knames[c.Rng.Intn(len(knames))]]
			gi := ks[c.Rng.Intn(len(ks))]
			c.Res.hist("batch_group_" + t.groupKinds[gi])
			for _, nf := range t.groups[gi] {
				for m := 1 + c.Rng.Intn(2); m > 0; m-- {
					add(t.randomEntry(c, nf[0], nf[1]))
				}
			}
		}
	}
	// filler: bursts of one job, several chunks of one fork, unrelated jobs
	nfill := c.Rng.Intn(25)
	for len(batch) < nfill {
		n, f := pick()
		switch c.Rng.Intn(3) {
		case 0:
			add(t.randomEntry(c, n, f))
		case 1: // a burst of one job
			e, ok := t.randomEntry(c, n, f)
			add(e, ok)
			for m := c.Rng.Intn(4); ok && m > 0; m-- {
				add(t.entryFor(c, n, f, e.job, e.chunk, c11bFiles[c.Rng.Intn(len(c11bFiles))], e.stale))
			}
		default: // several chunks of one fork
			nc := t.nodes[n].forks[f].nchunks
			for m := c.Rng.Intn(5); nc > 0 && m > 0; m-- {
				add(t.entryFor(c, n, f, "chunk", c.Rng.Intn(nc), "complete", false))
			}
		}
	}
	if len(batch) == 0 {
		n, f := pick()
		add(t.randomEntry(c, n, f))
	}
	// near misses of entries of the batch
	for k := c.Rng.Intn(4); k > 0 && len(batch) > 0; k-- {
		g := batch[c.Rng.Intn(len(batch))]
		if g.job != "" {
			add(t.nearMiss(c, g), true)
		}
	}
	c.Rng.Shuffle(len(batch), func(a, b int) { batch[a], batch[b] = batch[b], batch[a] })
	return batch
}

// ---------- one cycle on the real code ----------

// runCycle: empty journal, write every entry (job entries through UpdateJournal), ONE
// refreshState, read every metadata cache of the tree.
func (t *c11bTree) runCycle(batch []c11bEntry) (seen []core.VerifSeen, listing []string, err error) {
	jp := t.w.JournalPath()
	if ents, e := os.ReadDir(jp); e == nil {
		for _, en := range ents {
			os.Remove(path.Join(jp, en.Name()))
		}
	}
	t.w.ClearSeen()
	for _, e := range batch {
		if e.job == "" {
			if werr := os.WriteFile(path.Join(jp, e.name), []byte("x"), 0o644); werr != nil {
				return nil, nil, fmt.Errorf("write %q: %v", e.name, werr)
			}
			continue
		}
		runType := map[string]string{"split": "split", "join": "join", "chunk": "main", "fork": "main"}[e.job]
		prefix := map[string]string{"split": "split_", "join": "join_"}[e.job]
		base := strings.TrimSuffix(e.name, "."+prefix+e.file)
		// mrjob main(): fqname := path.Base(args[3]); journalPath := path.Dir(args[3])
		md := core.NewMetadataRunWithJournalPath(base, "", "", jp, runType)
		if werr := md.UpdateJournal(core.MetadataFileName(e.file)); werr != nil {
			return nil, nil, fmt.Errorf("UpdateJournal %q: %v", e.name, werr)
		}
	}
	if ents, e := os.ReadDir(jp); e == nil {
		for _, en := range ents {
			listing = append(listing, en.Name())
		}
	}
	if rerr := t.w.Refresh(); rerr != nil {
		return nil, listing, rerr
	}
	return t.w.Seen(), listing, nil
}

func c11bSeenKey(s core.VerifSeen) string {
	return fmt.Sprintf("%s|%d|%s|%d|%s", s.Fqid, s.Fork, s.Job, s.Chunk, s.Name)
}

func c11bSeenStrings(ss []core.VerifSeen) []string {
	out := make([]string, len(ss))
	for i, s := range ss {
		out[i] = fmt.Sprintf("%s fork#%d %s chunk=%d : %s", s.Fqid, s.Fork, s.Job, s.Chunk, s.Name)
	}
	sort.Strings(out)
	return out
}

// what the writers of the batch must be credited with (raw entries: as the model says)
func (t *c11bTree) expected(batch []c11bEntry, modelRaw map[string]*core.VerifSeen) []core.VerifSeen {
	var exp []core.VerifSeen
	have := map[string]bool{}
	for _, e := range batch {
		var s core.VerifSeen
		if e.job == "" {
			m := modelRaw[e.name]
			if m == nil {
				continue
			}
			s = *m
		} else {
			if e.stale {
				continue
			}
			s = core.VerifSeen{Fqid: t.nodes[e.node].fqid, Fork: e.fork, Job: e.job, Chunk: e.chunk, Name: e.file}
		}
		if k := c11bSeenKey(s); !have[k] {
			have[k] = true
			exp = append(exp, s)
		}
	}
	return exp
}

func c11bSameSet(a, b []core.VerifSeen) bool {
	x, y := c11bSeenStrings(a), c11bSeenStrings(b)
	return strings.Join(x, "\n") == strings.Join(y, "\n")
}

// ---------- the model ----------

func (t *c11bTree) nodesEnc() string {
	enc := make([]string, len(t.nodes))
	for i, nd := range t.nodes {
		var fs, cs []string
		for _, f := range nd.forks {
			fs = append(fs, f.jname)
			cs = append(cs, strconv.Itoa(f.nchunks))
		}
		c := "."
		if len(cs) > 0 {
			c = strings.Join(cs, ",")
		}
		enc[i] = hx(nd.fqid) + ":" + hxList(fs) + ":" + c
	}
	return strings.Join(enc, ";")
}

type c11bModelRes struct {
	route   string // n,f,ch,uq,file | none | nl
	deliver string // n,f,slot,uq,name | none | nl
}

func (t *c11bTree) askModel(c *Ctx, enc string, batch []c11bEntry) []c11bModelRes {
	names := make([]string, len(batch))
	for i, e := range batch {
		names[i] = e.name
	}
	top := "ID." + t.psid
	reps := c.Drv.AskBatch([][]string{
		{"C11.routebatch", hx(top), enc, hxList(names)},
		{"C11.creditbatch", hx(top), enc, hxList(names)},
	})
	rr, dd := strings.Split(reps[0], ";"), strings.Split(reps[1], ";")
	out := make([]c11bModelRes, len(batch))
	for i := range batch {
		if i < len(rr) {
			out[i].route = rr[i]
		}
		if i < len(dd) {
			out[i].deliver = dd[i]
		}
	}
	return out
}

// model delivery -> the recorded notification (applying Metadata.cache's uniquifier test with
// the uniquifier the harness gave the owner); nil = recorded nowhere
func (t *c11bTree) modelSeen(c *Ctx, d string) *core.VerifSeen {
	f := strings.Split(d, ",")
	if len(f) != 5 {
		return nil
	}
	n, _ := strconv.Atoi(f[0])
	fk, _ := strconv.Atoi(f[1])
	if n >= len(t.nodes) || fk >= len(t.nodes[n].forks) {
		return nil
	}
	s := core.VerifSeen{Fqid: t.nodes[n].fqid, Fork: fk, Chunk: -1, Name: unhx(f[4])}
	switch {
	case f[2] == "o":
		s.Job = "fork"
	case f[2] == "s":
		s.Job = "split"
	case f[2] == "j":
		s.Job = "join"
	case strings.HasPrefix(f[2], "c"):
		s.Job = "chunk"
		s.Chunk, _ = strconv.Atoi(f[2][1:])
	default:
		return nil
	}
	if t.uniqOf(c, n, fk, s.Job, s.Chunk) != unhx(f[3]) {
		return nil
	}
	return &s
}

// ---------- driver of the stream ----------

func c11Batches(c *Ctx) {
	r := c.Res
	ntrees, nbatches := 5, 8
	if c.Thorough {
		ntrees, nbatches = 24, 30
	}
	for ti := 0; ti < ntrees; ti++ {
		t := c11bBuildTree(c, ti, ti == 0 || (c.Thorough && ti < 6))
		if t == nil {
			continue
		}
		r.hist("batch_trees")
		for _, k := range t.groupKinds {
			r.hist("batch_tree_confusable_groups_" + k)
		}
		enc := t.nodesEnc()
		for bi := 0; bi < nbatches; bi++ {
			batch := t.genBatch(c)
			c11bCheckBatch(c, t, enc, batch)
		}
		os.RemoveAll(path.Dir(t.w.JournalPath()))
	}
}

func c11bCheckBatch(c *Ctx, t *c11bTree, enc string, batch []c11bEntry) {
	r := c.Res
	r.hist("batch_cycles")
	model := t.askModel(c, enc, batch)
	// (a) model vs writer, entry by entry (routeBatch_roundtrip / deliver_roundtrip)
	modelRaw := map[string]*core.VerifSeen{}
	var modelTable []core.VerifSeen
	mhave := map[string]bool{}
	for i, e := range batch {
		r.hist("batch_entries")
		ms := t.modelSeen(c, model[i].deliver)
		if ms != nil {
			if k := c11bSeenKey(*ms); !mhave[k] {
				mhave[k] = true
				modelTable = append(modelTable, *ms)
			}
		}
		if e.job == "" {
			r.hist("batch_entries_near_miss")
			modelRaw[e.name] = ms
			r.count("batch-raw:"+t.name+":"+e.name, true)
			continue
		}
		if e.stale {
			r.hist("batch_entries_straggler")
		}
		r.count(fmt.Sprintf("batch:%s:%s", t.name, e.name), true)
		nd := t.nodes[e.node]
		fk := nd.forks[e.fork]
		// expected route: position of the node and fork, chunk digits as written, uniquifier, prefixed file
		slot := map[string]string{"fork": "o", "split": "s", "join": "j"}[e.job]
		if e.job == "chunk" {
			slot = "c" + strconv.Itoa(e.chunk)
		}
		df := strings.Split(model[i].deliver, ",")
		rf := strings.Split(model[i].route, ",")
		okD := len(df) == 5 && df[0] == strconv.Itoa(e.node) && df[1] == strconv.Itoa(e.fork) && df[2] == slot && unhx(df[4]) == e.file
		prefix := map[string]string{"split": "split_", "join": "join_"}[e.job]
		okR := len(rf) == 5 && rf[0] == strconv.Itoa(e.node) && rf[1] == strconv.Itoa(e.fork) && unhx(rf[4]) == prefix+e.file &&
			(rf[2] == "-") == (e.job != "chunk")
		if okR && e.job == "chunk" {
			if v, err := strconv.Atoi(unhx(rf[2])); err != nil || v != e.chunk {
				okR = false
			}
		}
		if !okD || !okR {
			r.violate(Violation{Kind: "correspondence", Key: "C11:batch-model-mismatch",
				What:  "the model's routeBatch / deliver of a journal name written by a job does not name the writing job",
				Input: map[string]interface{}{"tree": t.name, "entry": e.String(), "node": nd.fqid, "fork_name": fk.jname, "chunks": fk.nchunks},
				Model: map[string]string{"route": model[i].route, "deliver": model[i].deliver}, Broken: "routeBatch_roundtrip / deliver_roundtrip"})
		}
	}
	// (a') the hypotheses of the batch theorems (ValidJob of every record, distinct node ids), evaluated by the
	// driver on this real batch, and JobRec.name / JName.render against the name the real writer produced
	{
		var recs []string
		var jobs []c11bEntry
		var rreqs [][]string
		for _, e := range batch {
			if e.job == "" {
				continue
			}
			nd := t.nodes[e.node]
			fk := nd.forks[e.fork]
			slot := map[string]string{"fork": "o", "split": "s", "join": "j"}[e.job]
			ch := "-"
			w := core.WidthForChunks(fk.nchunks)
			if e.job == "chunk" {
				slot = "c" + strconv.Itoa(e.chunk)
				ch = hx(fmt.Sprintf("%0*d", w, e.chunk))
			}
			recs = append(recs, strings.Join([]string{strconv.Itoa(e.node), strconv.Itoa(e.fork), slot, hx(e.uq), hx(e.file), hx(nd.path), hx(fk.jname), strconv.Itoa(w)}, ","))
			jobs = append(jobs, e)
			prefix := map[string]string{"split": "split_", "join": "join_"}[e.job]
			rreqs = append(rreqs, []string{"C11.render", hx(nd.path), hx(fk.jname), ch, hx(e.uq), hx(prefix + e.file)})
		}
		if len(recs) > 0 {
			rep := strings.Split(c.Drv.Ask("C11.validbatch", hx("ID."+t.psid), enc, strings.Join(recs, ";")), ";")
			if len(rep) != len(recs)+1 {
				r.violate(Violation{Kind: "correspondence", Key: "C11:batch-validjob-reply", What: "driver did not evaluate the batch hypotheses", Input: recs, Model: rep})
			} else {
				if rep[0] == "1" {
					r.hist("batch_hyp_node_ids_nodup_holds")
				} else {
					r.hist("batch_hyp_node_ids_nodup_fails")
					r.violate(Violation{Kind: "correspondence", Key: "C11:batch-hypothesis-fails:node-ids", What: "the node ids of a real tree are not pairwise distinct: the batch theorems do not cover it",
						Input: map[string]interface{}{"tree": t.name, "program": t.src}, Broken: "hypothesis hnd of routeBatch_roundtrip / creditTable_exact"})
				}
				renders := c.Drv.AskBatch(rreqs)
				for i, e := range jobs {
					f := strings.SplitN(rep[i+1], ":", 2)
					if f[0] == "1" {
						r.hist("batch_hyp_validjob_holds")
					} else {
						r.hist("batch_hyp_validjob_fails")
						r.violate(Violation{Kind: "correspondence", Key: "C11:batch-hypothesis-fails:validjob",
							What:  "a journal entry written by a job of the tree is not a ValidJob record of the model: the batch theorems do not cover it",
							Input: map[string]interface{}{"tree": t.name, "entry": e.String(), "record": recs[i]}, Broken: "hypothesis hv of routeBatch_roundtrip / creditTable_exact"})
					}
					if len(f) != 2 || unhx(f[1]) != e.name || unhx(renders[i]) != e.name {
						r.violate(Violation{Kind: "correspondence", Key: "C11:batch-render-model-mismatch",
							What:  "the journal file name the real job-side writer produced differs from the model's JobRec.name / JName.render",
							Input: map[string]interface{}{"tree": t.name, "entry": e.String(), "record": recs[i]}, Impl: e.name,
							Model: map[string]string{"JobRec.name": unhx(f[len(f)-1]), "render": unhx(renders[i])}, Broken: "correspondence C11.render / JobRec.name"})
					}
				}
			}
		}
	}
	// (b) the real cycle
	exp := t.expected(batch, modelRaw)
	seen, listing, err := t.runCycle(batch)
	if err != nil {
		if strings.HasPrefix(err.Error(), "panic") {
			r.violate(Violation{Kind: "property", Key: "C11:refresh-panic", What: "Node.refreshState panicked: " + err.Error(), Input: listing})
		} else {
			r.note("batch cycle: %v", err)
		}
		return
	}
	if len(r.Samples) < 12 && c.Rng.Intn(25) == 0 {
		r.sample(map[string]interface{}{"stream": "batch", "tree": t.name, "journal_entries_in_one_cycle": len(batch), "credited": len(seen)})
	}
	if c11bSameSet(seen, exp) {
		if !c11bSameSet(seen, modelTable) {
			r.violate(Violation{Kind: "correspondence", Key: "C11:batch-credit-model-mismatch",
				What:  "the model's credit table of the batch differs from what the real refreshState recorded (which is what the writers expect)",
				Input: map[string]interface{}{"tree": t.name, "journal": listing}, Impl: c11bSeenStrings(seen), Model: c11bSeenStrings(modelTable),
				Broken: "creditTable_exact"})
		}
		return
	}
	// (c) a disagreement: re-execute alone, then shrink
	fails := func(b []c11bEntry) bool {
		s, _, err := t.runCycle(b)
		if err != nil {
			return false
		}
		return !c11bSameSet(s, t.expected(b, modelRaw))
	}
	if !fails(batch) {
		r.note("batch cycle: a disagreement did not reproduce when re-executed alone (tree %s, %d entries)", t.name, len(batch))
		return
	}
	small := append([]c11bEntry{}, batch...)
	for changed := true; changed && len(small) > 1; {
		changed = false
		for i := 0; i < len(small); i++ {
			cand := append(append([]c11bEntry{}, small[:i]...), small[i+1:]...)
			if len(cand) > 0 && fails(cand) {
				small = cand
				changed = true
				i--
			}
		}
	}
	seenS, listingS, _ := t.runCycle(small)
	expS := t.expected(small, modelRaw)
	modelTable = nil
	mhave = map[string]bool{}
	for _, m := range t.askModel(c, enc, small) {
		if ms := t.modelSeen(c, m.deliver); ms != nil && !mhave[c11bSeenKey(*ms)] {
			mhave[c11bSeenKey(*ms)] = true
			modelTable = append(modelTable, *ms)
		}
	}
	// classify: who got something that is not theirs?
	expKeys := map[string]core.VerifSeen{}
	for _, s := range expS {
		expKeys[c11bSeenKey(s)] = s
	}
	class := "lost"
	for _, s := range seenS {
		if _, ok := expKeys[c11bSeenKey(s)]; ok {
			continue
		}
		class = "foreign-owner"
		for _, w := range expS {
			switch {
			case w.Name != s.Name:
			case w.Fqid != s.Fqid:
				class = "cross-node"
			case w.Fork != s.Fork:
				class = "cross-fork"
			default:
				class = "cross-job"
			}
			if class != "foreign-owner" {
				break
			}
		}
		break
	}
	onlyRaw := true
	var ents []string
	for _, e := range small {
		ents = append(ents, e.String())
		if e.job != "" {
			onlyRaw = false
		}
	}
	kind, key, broken := "property", "C11:batch-misroute:"+class, "creditTable_exact / creditTable_nobody_else / routeBatch_stateless"
	what := "journal entries read in ONE refresh cycle were not credited to exactly the jobs that wrote them"
	if onlyRaw {
		kind, key = "correspondence", "C11:batch-near-miss-model-mismatch"
		what = "a journal name that no job produces is recorded differently by the real refreshState and by the model"
	}
	var forkTabs []string
	nodesIn := map[int]bool{}
	for _, e := range small {
		if e.job != "" && !nodesIn[e.node] {
			nodesIn[e.node] = true
			var fs []string
			for _, f := range t.nodes[e.node].forks {
				fs = append(fs, "fork"+f.jname)
			}
			if len(fs) > 14 {
				fs = append(fs[:14], fmt.Sprintf("… (%d forks)", len(t.nodes[e.node].forks)))
			}
			forkTabs = append(forkTabs, t.nodes[e.node].fqid+": "+strings.Join(fs, " "))
		}
	}
	r.violate(Violation{Kind: kind, Key: key, What: what,
		Input: map[string]interface{}{"tree": t.name, "pipestance": "ID." + t.psid, "program": t.src,
			"batch_shrunk_from": len(batch), "batch": ents, "journal_directory_in_one_cycle": listingS, "fork_tables": forkTabs},
		Impl: c11bSeenStrings(seenS), Expect: c11bSeenStrings(expS), Model: c11bSeenStrings(modelTable), Broken: broken})
}
