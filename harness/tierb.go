package main

// Tier B: real processes.  mrp and mrjob are built from the working tree; the
// stage code is this harness binary in `-stage` mode (same deterministic
// type-directed outputs as Tier A), so the glue Tier A bypasses is exercised:
// the local job manager and its semaphores, mrjob's conversion of exit
// status / error pipe into _errors/_assert/_complete, signal handling, locks.

import (
	"archive/zip"
	"bufio"
	"bytes"
	"encoding/json"
	"fmt"
	"io"
	"math/rand"
	"os"
	"os/exec"
	"path"
	"path/filepath"
	"regexp"
	"sort"
	"strings"
	"syscall"
	"time"

	"github.com/martian-lang/martian/martian/syntax"
)

// ---------- stage mode ----------

type tbFault struct {
	Kind string `json:"kind"` // exit signal errors assert badouts missingkey wrongtype badstagedefs
	Once bool   `json:"once"`
}

type tbControl struct {
	Faults  map[string]tbFault `json:"faults"`
	SleepMs [2]int             `json:"sleep_ms"`
	Files   bool               `json:"extra_files"`
}

type tbLogRec struct {
	Job     string   `json:"job"`
	Ev      string   `json:"ev"` // start end
	Pid     int      `json:"pid"`
	T       int64    `json:"t"` // unix nanos
	Threads float64  `json:"threads,omitempty"`
	MemGB   float64  `json:"mem_gb,omitempty"`
	Missing []string `json:"missing,omitempty"` // arg files absent at start
	Outcome string   `json:"outcome,omitempty"`
}

var reUniq = regexp.MustCompile(`\.u[0-9a-f]{10}$`)

func tbAppendLog(rec tbLogRec) {
	p := os.Getenv("VERIF_TB_LOG")
	if p == "" {
		return
	}
	b, _ := json.Marshal(rec)
	f, err := os.OpenFile(p, os.O_WRONLY|os.O_CREATE|os.O_APPEND, 0o644)
	if err != nil {
		return
	}
	f.Write(append(b, '\n'))
	f.Close()
}

// stageMain: `harness -stage NAME <split|main|join> <metadata> <files> <journal>`
func stageMain(args []string) {
	if len(args) >= 1 && args[0] == "__sighelper" {
		sigHelperMain(args[1:])
		return
	}
	if len(args) != 5 {
		fmt.Fprintln(os.Stderr, "stage mode: bad arguments", args)
		os.Exit(64)
	}
	name, runType, mdPath, filesPath, journal := args[0], args[1], args[2], args[3], args[4]
	fq := reUniq.ReplaceAllString(path.Base(journal), "")
	jobKey := jobKey(fq, runType)
	srcPath := os.Getenv("VERIF_TB_MRO")
	src, err := os.ReadFile(srcPath)
	if err != nil {
		fmt.Fprintln(os.Stderr, "stage mode: cannot read program:", err)
		os.Exit(65)
	}
	_, _, ast, err := syntax.ParseSourceBytes(src, srcPath, nil, false)
	if err != nil {
		fmt.Fprintln(os.Stderr, "stage mode: program does not compile:", err)
		os.Exit(66)
	}
	var ctl tbControl
	if b, err := os.ReadFile(os.Getenv("VERIF_TB_CTL")); err == nil {
		json.Unmarshal(b, &ctl)
	}
	rec := tbLogRec{Job: jobKey, Ev: "start", Pid: os.Getpid(), T: time.Now().UnixNano()}
	var ji struct {
		Threads float64 `json:"threads"`
		MemGB   float64 `json:"memGB"`
	}
	if b, err := os.ReadFile(path.Join(mdPath, "_jobinfo")); err == nil {
		json.Unmarshal(b, &ji)
		rec.Threads, rec.MemGB = ji.Threads, ji.MemGB
	}
	argsRaw, _ := os.ReadFile(path.Join(mdPath, "_args"))
	// C04 monitor: every pipestance file named in the arguments must exist now
	if root := os.Getenv("VERIF_TB_PSDIR"); root != "" {
		var v interface{}
		if json.Unmarshal(argsRaw, &v) == nil {
			var ss []string
			jsonStrings(v, &ss)
			for _, s := range ss {
				if strings.HasPrefix(s, root+"/") {
					if _, err := os.Stat(s); err != nil {
						rec.Missing = append(rec.Missing, strings.TrimPrefix(s, root+"/"))
					}
				}
			}
		}
	}
	tbAppendLog(rec)
	rng := rand.New(rand.NewSource(int64(hash64(jobKey, "sleep"))))
	if ctl.SleepMs[1] > 0 {
		time.Sleep(time.Duration(ctl.SleepMs[0]+rng.Intn(ctl.SleepMs[1]-ctl.SleepMs[0]+1)) * time.Millisecond)
	}
	fault := ""
	if f, ok := ctl.Faults[jobKey]; ok {
		marker := os.Getenv("VERIF_TB_CTL") + "." + fmt.Sprintf("%x", hash64(jobKey)) + ".done"
		if _, err := os.Stat(marker); !(f.Once && err == nil) {
			fault = f.Kind
			os.WriteFile(marker, []byte("x"), 0o644)
		}
	}
	end := func(outcome string) {
		tbAppendLog(tbLogRec{Job: jobKey, Ev: "end", Pid: os.Getpid(), T: time.Now().UnixNano(), Outcome: outcome})
	}
	errPipe := os.NewFile(4, "errors")
	switch fault {
	case "exit":
		end("exit3")
		os.Exit(3)
	case "signal":
		end("sigkill")
		syscall.Kill(os.Getpid(), syscall.SIGKILL)
		time.Sleep(time.Second)
	case "segv", "abrt", "bus":
		// the stage code crashes: it dies from its own SIGSEGV / SIGABRT / SIGBUS (a plain process, so that
		// no Go runtime handler is in the way)
		end("crash-" + fault)
		syscall.Exec("/bin/sh", []string{"sh", "-c", "kill -" + strings.ToUpper(fault) + " $$"}, os.Environ())
		time.Sleep(time.Second)
	case "errors":
		fmt.Fprintf(errPipe, "injected stage error in %s", jobKey)
		end("errors")
		os.Exit(0)
	case "assert":
		fmt.Fprintf(errPipe, "ASSERT:injected assertion in %s", jobKey)
		end("assert")
		os.Exit(0)
	}
	run := &TARun{Ast: ast, Written: map[string]string{}}
	run.Opts.ExtraFiles = ctl.Files
	job := &TAJob{Key: jobKey, StageName: name, Args: argsRaw}
	job.Fqname, job.ShellName, job.MetadataPath, job.FilesPath = fq, runType, mdPath, filesPath
	if _, err := run.runStage(job, fault); err != nil {
		fmt.Fprintf(errPipe, "fake stage failed: %v", err)
		end("stage-error")
		os.Exit(0)
	}
	end("ok")
	os.Exit(0)
}

// ---------- driver side ----------

type TBEnv struct {
	Root    string // scratch/tb
	Mrp     string
	Harness string
}

// tbSetup builds mrp and mrjob from the working tree.
func tbSetup(c *Ctx) (*TBEnv, error) {
	root := filepath.Join(c.Scratch, "tb")
	bin := filepath.Join(root, "bin")
	if err := os.MkdirAll(bin, 0o755); err != nil {
		return nil, err
	}
	cmd := exec.Command("go", "build", "-o", bin+"/", "./cmd/mrp", "./cmd/mrjob")
	cmd.Dir = c.RepoDir
	cmd.Env = append(os.Environ(), "GOFLAGS=-mod=readonly", "GOPROXY=off", "GOSUMDB=off", "GOTOOLCHAIN=local", "CGO_ENABLED=0")
	if out, err := cmd.CombinedOutput(); err != nil {
		return nil, fmt.Errorf("building mrp/mrjob: %v\n%s", err, out)
	}
	// mrp looks for ../jobmanagers relative to its own location
	if out, err := exec.Command("cp", "-r", filepath.Join(c.RepoDir, "jobmanagers"), root+"/").CombinedOutput(); err != nil {
		return nil, fmt.Errorf("copy jobmanagers: %v %s", err, out)
	}
	// ... and ../adapters (python stage code runs under adapters/python/martian_shell.py)
	if out, err := exec.Command("cp", "-r", filepath.Join(c.RepoDir, "adapters"), root+"/").CombinedOutput(); err != nil {
		return nil, fmt.Errorf("copy adapters: %v %s", err, out)
	}
	self, _ := os.Executable()
	return &TBEnv{Root: root, Mrp: filepath.Join(bin, "mrp"), Harness: self}, nil
}

var reStageDecl = regexp.MustCompile(`(?m)^stage (\w+)\(`)
var reFakeSrc = regexp.MustCompile(`src\s+comp\s+"fake"`)

// tbProgram rewrites every stage's `src comp "fake"` into this harness in stage mode.
func (e *TBEnv) tbProgram(src string) string {
	var out strings.Builder
	rest := src
	for {
		loc := reStageDecl.FindStringSubmatchIndex(rest)
		if loc == nil {
			out.WriteString(rest)
			break
		}
		name := rest[loc[2]:loc[3]]
		out.WriteString(rest[:loc[1]])
		rest = rest[loc[1]:]
		m := reFakeSrc.FindStringIndex(rest)
		if m == nil {
			continue
		}
		out.WriteString(rest[:m[0]])
		fmt.Fprintf(&out, `src comp "%s -stage %s"`, e.Harness, name)
		rest = rest[m[1]:]
	}
	return out.String()
}

type TBSignal struct {
	AfterMs int    `json:"after_ms"`
	Sig     string `json:"sig"` // INT TERM KILL
	// OnComplete > 0: instead of waiting AfterMs, send the signal at the moment the
	// OnComplete-th job (split, chunk or join) has recorded its completion on disk.
	OnComplete int `json:"on_complete,omitempty"`
	// OnFile != "": send the signal as soon as a file with this name exists anywhere in the pipestance
	OnFile string `json:"on_file,omitempty"`
	// Group: deliver INT/TERM to mrp's whole process group (as a terminal's ctrl-C or a scheduler
	// does), so that the job monitors receive it at the same instant
	Group bool `json:"group,omitempty"`
}

type TBSpec struct {
	Name    string
	Src     string
	Cores   int
	MemGB   int
	Vdr     string
	Control tbControl
	Signals []TBSignal // one mrp incarnation per entry, then a final uninterrupted one
	Strict  string
	Timeout time.Duration
	Retries int  // --autoretry
	Zip     bool // --zip
	// Files: extra files (path relative to the run directory -> content), e.g. python stage code
	Files map[string]string
}

type TBIncarnation struct {
	// job directories (relative to the pipestance) whose _complete marker was on disk when the signal was sent
	CompleteAtSignal []string `json:"complete_at_signal,omitempty"`
	ExitCode         int      `json:"exit"`
	Signal           string   `json:"signal,omitempty"`
	LockLeft         bool     `json:"lock_left"`
	Output           string   `json:"output"`
	TimedOut         bool     `json:"timed_out"`
}

type TBResult struct {
	Name    string
	PsDir   string
	Incs    []TBIncarnation
	Log     []tbLogRec
	TopOuts json.RawMessage
	Tree    map[string]TreeEntry
	Final   string // complete failed timeout
	Stuck   string // diagnosis of a timeout: unfinished job objects
}

func (e *TBEnv) Run(spec *TBSpec, rng *rand.Rand) *TBResult {
	dir, _ := os.MkdirTemp(e.Root, "run")
	res := &TBResult{Name: spec.Name, PsDir: filepath.Join(dir, "ps")}
	mro := filepath.Join(dir, "pipeline.mro")
	os.WriteFile(mro, []byte(e.tbProgram(spec.Src)), 0o644)
	for rel, content := range spec.Files {
		p := filepath.Join(dir, rel)
		os.MkdirAll(filepath.Dir(p), 0o755)
		os.WriteFile(p, []byte(content), 0o644)
	}
	ctlPath := filepath.Join(dir, "control.json")
	b, _ := json.Marshal(spec.Control)
	os.WriteFile(ctlPath, b, 0o644)
	logPath := filepath.Join(dir, "jobs.log")
	if spec.Timeout == 0 {
		spec.Timeout = 90 * time.Second
	}
	runOnce := func(sig *TBSignal) TBIncarnation {
		args := []string{mro, "ps", "--disable-ui", "--jobmode=local",
			fmt.Sprintf("--localcores=%d", spec.Cores), fmt.Sprintf("--localmem=%d", spec.MemGB)}
		if spec.Vdr != "" {
			args = append(args, "--vdrmode="+spec.Vdr)
		}
		if spec.Strict != "" {
			args = append(args, "--strict="+spec.Strict)
		}
		args = append(args, fmt.Sprintf("--autoretry=%d", spec.Retries))
		if spec.Zip {
			args = append(args, "--zip")
		}
		cmd := exec.Command(e.Mrp, args...)
		cmd.Dir = dir
		cmd.Env = append(os.Environ(), "VERIF_TB_MRO="+mro, "VERIF_TB_CTL="+ctlPath, "VERIF_TB_LOG="+logPath,
			"VERIF_TB_PSDIR="+res.PsDir, "MROPATH="+dir, "MRO_DISABLE_SYSTEMD_SCOPE=1")
		cmd.SysProcAttr = &syscall.SysProcAttr{Setpgid: true}
		var out bytes.Buffer
		cmd.Stdout, cmd.Stderr = &out, &out
		inc := TBIncarnation{}
		if err := cmd.Start(); err != nil {
			inc.Output = err.Error()
			inc.ExitCode = -1
			return inc
		}
		done := make(chan error, 1)
		go func() { done <- cmd.Wait() }()
		var sigTimer <-chan time.Time
		if sig != nil && sig.OnFile != "" {
			ch := make(chan time.Time, 1)
			sigTimer = ch
			stopWatch := make(chan struct{})
			defer close(stopWatch)
			go func() {
				for {
					select {
					case <-stopWatch:
						return
					default:
					}
					found := false
					filepath.WalkDir(res.PsDir, func(p string, d os.DirEntry, err error) error {
						if err == nil && !d.IsDir() && d.Name() == sig.OnFile {
							found = true
						}
						return nil
					})
					if found {
						ch <- time.Now()
						return
					}
					time.Sleep(500 * time.Microsecond)
				}
			}()
		} else if sig != nil && sig.OnComplete > 0 {
			ch := make(chan time.Time, 1)
			sigTimer = ch
			stopWatch := make(chan struct{})
			defer close(stopWatch)
			go func() {
				for {
					select {
					case <-stopWatch:
						return
					default:
					}
					if dirs := completedJobDirs(res.PsDir); len(dirs) >= sig.OnComplete {
						inc.CompleteAtSignal = dirs
						ch <- time.Now()
						return
					}
					time.Sleep(500 * time.Microsecond)
				}
			}()
		} else if sig != nil {
			sigTimer = time.After(time.Duration(sig.AfterMs) * time.Millisecond)
		}
		timeout := time.After(spec.Timeout)
	loop:
		for {
			select {
			case <-done:
				break loop
			case <-sigTimer:
				sigTimer = nil
				s := syscall.SIGINT
				switch sig.Sig {
				case "TERM":
					s = syscall.SIGTERM
				case "KILL":
					s = syscall.SIGKILL
				}
				inc.Signal = sig.Sig
				if sig.Sig == "STOPKILL" {
					// mrp stops being scheduled (as under memory pressure or a debugger) while its jobs go on
					// and record their completion; then it is killed: every job that completed meanwhile
					// has a completion marker mrp never got to see, and a process mrp never reaped
					before := len(completedJobDirs(res.PsDir))
					cmd.Process.Signal(syscall.SIGSTOP)
					for w := 0; w < 400; w++ {
						time.Sleep(10 * time.Millisecond)
						if len(completedJobDirs(res.PsDir)) > before && w > 30 {
							break
						}
					}
					inc.CompleteAtSignal = completedJobDirs(res.PsDir)
					inc.Signal = "KILL"
					syscall.Kill(-cmd.Process.Pid, syscall.SIGKILL)
				} else if sig.Sig == "KILL" {
					// kill outright: mrp and (as a terminal or scheduler would) its whole process group
					syscall.Kill(-cmd.Process.Pid, s)
				} else if sig.Group {
					syscall.Kill(-cmd.Process.Pid, s)
				} else {
					cmd.Process.Signal(s)
				}
			case <-timeout:
				inc.TimedOut = true
				syscall.Kill(-cmd.Process.Pid, syscall.SIGKILL)
				<-done
				break loop
			}
		}
		if cmd.ProcessState != nil {
			inc.ExitCode = cmd.ProcessState.ExitCode()
		}
		// jobs of a dead mrp die with it (pdeathsig); wait until its process group is empty so
		// that the next incarnation does not race with dying orphans
		pgid := cmd.Process.Pid
		for i := 0; i < 100; i++ {
			if err := syscall.Kill(-pgid, 0); err != nil {
				break
			}
			if i == 60 {
				syscall.Kill(-pgid, syscall.SIGKILL)
			}
			time.Sleep(50 * time.Millisecond)
		}
		o := out.String()
		if len(o) > 4000 {
			o = o[len(o)-4000:]
		}
		inc.Output = o
		_, err := os.Lstat(filepath.Join(res.PsDir, "_lock"))
		inc.LockLeft = err == nil
		return inc
	}
	for i := range spec.Signals {
		inc := runOnce(&spec.Signals[i])
		res.Incs = append(res.Incs, inc)
		if inc.Signal == "KILL" {
			os.Remove(filepath.Join(res.PsDir, "_lock")) // the documented operator action
		}
		// give orphaned jobs of the killed mrp a moment to die (pdeathsig)
		time.Sleep(50 * time.Millisecond)
	}
	last := runOnce(nil)
	res.Incs = append(res.Incs, last)
	switch {
	case last.TimedOut:
		res.Final = "timeout"
	case last.ExitCode == 0:
		res.Final = "complete"
	default:
		res.Final = "failed"
	}
	if f, err := os.Open(logPath); err == nil {
		sc := bufio.NewScanner(f)
		sc.Buffer(make([]byte, 1<<20), 1<<24)
		for sc.Scan() {
			var r tbLogRec
			if json.Unmarshal(sc.Bytes(), &r) == nil {
				res.Log = append(res.Log, r)
			}
		}
		f.Close()
	}
	top := topCallId(spec.Src)
	if b, err := os.ReadFile(filepath.Join(res.PsDir, top, "fork0", "_outs")); err == nil {
		res.TopOuts = compactJSON(b)
	} else if zr, err := zip.OpenReader(filepath.Join(res.PsDir, "_metadata.zip")); err == nil {
		// --zip: the metadata files of a finished pipestance live in the archive
		for _, f := range zr.File {
			if f.Name == filepath.Join(top, "fork0", "_outs") {
				if rc, err := f.Open(); err == nil {
					if b, err := io.ReadAll(rc); err == nil {
						res.TopOuts = compactJSON(b)
					}
					rc.Close()
				}
			}
		}
		zr.Close()
	}
	res.Tree = dirTree(res.PsDir)
	if res.Final == "timeout" {
		// diagnosis: job objects without a _complete marker, with what they contain
		var sb strings.Builder
		byDir := map[string][]string{}
		for p := range res.Tree {
			d, b := filepath.Split(p)
			if strings.HasPrefix(b, "_") {
				byDir[d] = append(byDir[d], b)
			}
		}
		var dirs []string
		for d := range byDir {
			dirs = append(dirs, d)
		}
		sort.Strings(dirs)
		for _, d := range dirs {
			fs := byDir[d]
			sort.Strings(fs)
			done := false
			for _, f := range fs {
				if f == "_complete" || f == "_disabled" {
					done = true
				}
			}
			if !done && strings.Contains(d, "fork") {
				fmt.Fprintf(&sb, "%s: %v\n", d, fs)
				if b, err := os.ReadFile(filepath.Join(res.PsDir, d, "_jobinfo")); err == nil && len(b) < 3000 {
					var ji map[string]interface{}
					if json.Unmarshal(b, &ji) == nil {
						fmt.Fprintf(&sb, "   pid=%v type=%v\n", ji["pid"], ji["type"])
					}
				}
				if b, err := os.ReadFile(filepath.Join(res.PsDir, d, "_errors")); err == nil {
					fmt.Fprintf(&sb, "   _errors: %.200s\n", string(b))
				}
			}
		}
		res.Stuck = sb.String()
	}
	return res
}

var reTopCall = regexp.MustCompile(`(?m)^call (\w+)\(`)

func topCallId(src string) string {
	if m := reTopCall.FindStringSubmatch(src); m != nil {
		return m[1]
	}
	return "TOP"
}

// tbIntervals pairs start/end records per (job, pid).
type tbInterval struct {
	Job        string
	Start, End int64
	Threads    float64
	MemGB      float64
	Outcome    string
}

func tbIntervals(log []tbLogRec) []tbInterval {
	open := map[string]*tbInterval{}
	var out []tbInterval
	for _, r := range log {
		k := fmt.Sprintf("%s|%d", r.Job, r.Pid)
		if r.Ev == "start" {
			open[k] = &tbInterval{Job: r.Job, Start: r.T, Threads: r.Threads, MemGB: r.MemGB}
		} else if iv := open[k]; iv != nil {
			iv.End = r.T
			iv.Outcome = r.Outcome
			out = append(out, *iv)
			delete(open, k)
		}
	}
	for _, iv := range open {
		out = append(out, *iv) // never ended (killed)
	}
	sort.Slice(out, func(i, j int) bool { return out[i].Start < out[j].Start })
	return out
}

// completedJobDirs: the job directories (split*, chnk*, join* below a fork directory) that
// contain a _complete marker, relative to the pipestance directory, sorted.
func completedJobDirs(psdir string) []string {
	var out []string
	filepath.WalkDir(psdir, func(p string, d os.DirEntry, err error) error {
		if err != nil {
			return nil
		}
		if !d.IsDir() && d.Name() == "_complete" {
			dir := filepath.Dir(p)
			b := filepath.Base(dir)
			if strings.HasPrefix(b, "chnk") || strings.HasPrefix(b, "split") || strings.HasPrefix(b, "join") {
				rel, _ := filepath.Rel(psdir, dir)
				out = append(out, rel)
			}
		}
		return nil
	})
	sort.Strings(out)
	return out
}
