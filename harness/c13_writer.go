package main

// C13, the record writer under an I/O fault: the REAL writeAtomic (verif hook
// VerifWriteAtomic: temp file + renameat, what Metadata.WriteAtomic calls) and
// os.WriteFile (what the in-place Metadata writers call) are run under
// RLIMIT_FSIZE = L on generated (old record, new record, L); the state of the
// record file and of its `.tmp` sibling is compared with the model's
// writeCut at the cut point the limit implies (open + L bytes, or all steps).
// Independent of the model: after writeAtomic the record file holds exactly
// the old or exactly the new bytes.

import (
	"bytes"
	"fmt"
	"os"
	"path/filepath"

	"github.com/martian-lang/martian/martian/core"
)

func c13EncOpt(b []byte, present bool) string {
	if !present {
		return "N"
	}
	return "S" + hx(string(b))
}

func c13ReadOpt(p string) ([]byte, bool) {
	b, err := os.ReadFile(p)
	if err != nil {
		return nil, false
	}
	return b, true
}

// c13WriterCut: the model's (record, tmp) after k units of progress.
func c13WriterCut(c *Ctx, w string, old []byte, hasOld bool, new []byte, k int) (string, string, bool) {
	reply := c.Drv.Ask("C13.wcut", w, c13EncOpt(old, hasOld), hx(string(new)), fmt.Sprint(k))
	for i := 0; i < len(reply); i++ {
		if reply[i] == '\t' {
			return reply[:i], reply[i+1:], true
		}
	}
	return reply, "", false
}

func c13WriterStream(c *Ctx, r *Result) {
	n := 160
	if c.Thorough {
		n = 3000
	}
	dir := filepath.Join(c13Scratch(c), "writer")
	os.MkdirAll(dir, 0o755)
	defer os.RemoveAll(dir)
	genRec := func() []byte {
		var b bytes.Buffer
		b.WriteString("{")
		for i, m := 0, c.Rng.Intn(12); i < m; i++ {
			if i > 0 {
				b.WriteString(",")
			}
			fmt.Fprintf(&b, "\n    \"k%d\": \"/ps/outs/%d\"", i, c.Rng.Intn(1000))
		}
		b.WriteString("\n}")
		if c.Rng.Intn(8) == 0 {
			return nil // empty record file
		}
		return b.Bytes()
	}
	for i := 0; i < n; i++ {
		target := filepath.Join(dir, fmt.Sprintf("_outs%d", i%7))
		tmp := target + ".tmp"
		os.Remove(target)
		os.Remove(tmp)
		old, new := genRec(), genRec()
		hasOld := c.Rng.Intn(10) != 0
		if hasOld {
			os.WriteFile(target, old, 0o644)
		}
		staleTmp := c.Rng.Intn(6) == 0
		if staleTmp {
			os.WriteFile(tmp, []byte("stale temp file of an earlier cut, longer than some records ....................."), 0o644)
		}
		var limit int
		switch c.Rng.Intn(6) {
		case 0:
			limit = 0
		case 1:
			limit = len(new)
		case 2:
			limit = len(new) + 1 + c.Rng.Intn(50)
		case 3:
			if len(new) > 0 {
				limit = len(new) - 1
			}
		default:
			limit = c.Rng.Intn(len(new) + 2)
		}
		inplace := i%4 == 3
		w := "a"
		if inplace {
			w = "i"
		}
		restore := c13LimitFileSize(limit)
		var err error
		if inplace {
			err = os.WriteFile(target, new, 0o644)
		} else {
			err = core.VerifWriteAtomic(target, new)
		}
		restore()
		rec, hasRec := c13ReadOpt(target)
		tb, hasTmp := c13ReadOpt(tmp)
		// the cut point the limit implies
		k := limit + 1
		if len(new) <= limit {
			k = len(new) + 2
			if inplace {
				k = len(new) + 1
			}
		}
		cut := "cut"
		if len(new) <= limit {
			cut = "complete"
		}
		r.hist("writer:" + w + ":" + cut)
		input := map[string]interface{}{"writer": map[string]string{"a": "writeAtomic", "i": "os.WriteFile"}[w], "old": string(old), "has_old": hasOld, "new": string(new),
			"rlimit_fsize": limit, "stale_tmp": staleTmp, "k": k, "err": fmt.Sprint(err)}
		r.count(fmt.Sprintf("writer:%s|%q|%v|%q|%d", w, old, hasOld, new, limit), true)
		if !inplace {
			okOld := hasOld && hasRec && bytes.Equal(rec, old) || !hasOld && !hasRec
			okNew := hasRec && bytes.Equal(rec, new)
			if !okOld && !okNew {
				r.violate(Violation{Kind: "property", Key: "C13:record-torn-under-fault",
					What:  "writeAtomic under RLIMIT_FSIZE left the record file holding neither the old nor the new record",
					Input: input, Impl: c13EncOpt(rec, hasRec), Expect: "exactly the old or exactly the new bytes"})
			}
			if (err == nil) != okNew && !(okNew && okOld) {
				r.violate(Violation{Kind: "property", Key: "C13:record-write-status",
					What: "writeAtomic's return value does not say which record the file holds", Input: input, Impl: c13EncOpt(rec, hasRec)})
			}
		}
		mrec, mtmp, ok := c13WriterCut(c, w, old, hasOld, new, k)
		if !ok {
			r.violate(Violation{Kind: "correspondence", Key: "C13:driver", What: "wcut reply: " + c13Short(mrec), Input: input, Broken: "driver"})
			continue
		}
		if staleTmp && inplace {
			hasTmp = false // not touched by the in-place writer; the model starts without one
		}
		if mrec != c13EncOpt(rec, hasRec) || mtmp != c13EncOpt(tb, hasTmp) {
			r.violate(Violation{Kind: "correspondence", Key: "C13:model-writer", Broken: "record_path_old_or_new / writeCut (steps of writeAtomicAt, os.WriteFile)",
				What:  "record file and .tmp sibling after a write cut by RLIMIT_FSIZE differ between the real writer and the model",
				Input: input, Impl: map[string]string{"record": c13EncOpt(rec, hasRec), "tmp": c13EncOpt(tb, hasTmp)}, Model: map[string]string{"record": mrec, "tmp": mtmp}})
		}
	}
}
