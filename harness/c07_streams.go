package main

// C07 compile-time half, part 4: targeted (systematic) streams of calls, each
// judged exactly like the random stream (model vs compiler, location,
// accepted => call-graph resolution succeeds).
//
//  depth   references between types of the SAME base type whose array / map
//          nesting differs (T, T[], T[][], map<T>, map<T[]>, map<T[][]>,
//          map<T>[], map<T[]>[]; all 64 ordered pairs), bound plainly, through
//          a call output, a struct member, an array element, a map value, and
//          split over an array / a typed map of the source type
//  splits  map calls with 2..4 split arguments in every order, drawn from: a
//          reference of unknown length, a reference into a mapped call (known
//          source), literals of the matching length / key set, of another
//          length, of another key set, of the other kind (array vs map)
//  untyped references at depth 1..3 inside literals bound to untyped `map`
//          parameters (directly, in arrays of maps, in struct members)

import (
	"fmt"
)

func c07Streams(c *Ctx) {
	c07DepthStream(c)
	c07SplitStream(c)
	c07UntypedStream(c)
	c07DefaultOutStream(c)
	c07OrderStream(c)
	c07ElementPositionStream(c)
}

// default   the legacy whole-stage shorthand `x = STAGE` (meaning
//
//	`x = STAGE.default` when the stage has an unnamed output
//	`out T,`) and the explicit `x = STAGE.default`, for every ordered
//	pair (parameter type, default output type) of 15 types incl. all
//	implicit conversions in both directions, with the stage called
//	singly and array-mapped, with and without further outputs
func c07DefaultOutStream(c *Ctx) {
	types := []*c17Ty{c07B("int"), c07B("float"), c07B("string"), c07B("path"), c07B("file"), c07U("txt"), c07B("bool"),
		c07A(c07B("int")), c07A(c07B("float")), c07A(c07B("string")), c07A(c07B("file")), c07A(c07A(c07B("int"))),
		c07M(c07B("int")), c07Pair, c07B("map")}
	for _, pt := range types {
		for _, dt := range types {
			for _, mode := range []byte{'s', 'a'} {
				for _, extra := range []bool{false, true} {
					if extra && mode == 'a' {
						continue
					}
					outs := []c17Field{{"default", dt}}
					if extra {
						outs = []c17Field{{"o0", c07B("int")}, {"default", dt}}
					}
					asym := pt.enc() != dt.enc()
					for _, e := range []*c07Exp{c07Ref('c', "PROD"), c07Ref('c', "PROD", "default")} {
						env := &c07Env{prodMode: mode, prodOuts: outs}
						p, nb := c07One("x0", pt, c07Bind{e: e})
						class := "default_out"
						if asym && len(e.path) == 0 {
							class = "default_out_shorthand_other_type"
						}
						c07JudgeCase(c, &c07Case{env: env, params: []c17Field{p}, binds: []c07NamedBind{nb}}, class)
					}
				}
			}
		}
	}
}

// order     the calls of the pipeline written in every textual order (the
//
//	compiler sorts them), with the `disabled` modifier bound to an
//	output of the producer (called singly / array-mapped / map-mapped;
//	output bool, bool[], int, map<bool>), the modifier being the ONLY
//	dependency on the producer or accompanied by an ordinary binding
func c07OrderStream(c *Ctx) {
	perms := [][]int{{0, 1, 2}, {0, 2, 1}, {1, 0, 2}, {1, 2, 0}, {2, 0, 1}, {2, 1, 0}}
	for _, mode := range []byte{'s', 'a', 'm'} {
		for _, ot := range []*c17Ty{c07B("bool"), c07A(c07B("bool")), c07B("int"), c07M(c07B("bool"))} {
			for _, ordinary := range []int{0, 1, 2} { // 0: modifier only; 1: also a well-typed binding; 2: split over the producer
				for _, perm := range perms {
					env := &c07Env{prodMode: mode, prodOuts: []c17Field{{"o0", ot}, {"o1", c07B("int")}}, selfs: []c17Field{{"s0", c07B("int")}}}
					cs := &c07Case{env: env, order: perm}
					lifted := c07B("int")
					switch mode {
					case 'a':
						lifted = c07A(lifted)
					case 'm':
						lifted = c07M(lifted)
					}
					switch ordinary {
					case 0:
						p, nb := c07One("x0", c07B("int"), c07Bind{e: c07Int(1)})
						cs.params, cs.binds = append(cs.params, p), append(cs.binds, nb)
					case 1:
						p, nb := c07One("x0", lifted, c07Bind{e: c07Ref('c', "PROD", "o1")})
						cs.params, cs.binds = append(cs.params, p), append(cs.binds, nb)
					case 2:
						if mode == 's' {
							continue
						}
						p, nb := c07One("x0", c07B("int"), c07Bind{split: true, e: c07Ref('c', "PROD", "o1")})
						cs.params, cs.binds = append(cs.params, p), append(cs.binds, nb)
						cs.mapped = true
					}
					cs.params = append(cs.params, c17Field{"disabled", c07B("bool")})
					cs.binds = append(cs.binds, c07NamedBind{"disabled", c07Bind{e: c07Ref('c', "PROD", "o0")}})
					class := "order"
					sBeforeProd := false
					for _, k := range perm {
						if k == 2 {
							sBeforeProd = true
						}
						if k == 0 {
							break
						}
					}
					if ordinary == 0 && sBeforeProd && mode != 's' {
						class = "order_modifier_only_dep_on_later_mapped_call"
					}
					c07JudgeCase(c, cs, class)
				}
			}
		}
	}
}

var c07Shapes = []func(*c17Ty) *c17Ty{
	func(t *c17Ty) *c17Ty { return t },
	func(t *c17Ty) *c17Ty { return c07A(t) },
	func(t *c17Ty) *c17Ty { return c07A(c07A(t)) },
	func(t *c17Ty) *c17Ty { return c07M(t) },
	func(t *c17Ty) *c17Ty { return c07M(c07A(t)) },
	func(t *c17Ty) *c17Ty { return c07M(c07A(c07A(t))) },
	func(t *c17Ty) *c17Ty { return c07A(c07M(t)) },
	func(t *c17Ty) *c17Ty { return c07A(c07M(c07A(t))) },
}

func c07One(id string, t *c17Ty, b c07Bind) (c17Field, c07NamedBind) {
	return c17Field{id, t}, c07NamedBind{id, b}
}

func c07DepthStream(c *Ctx) {
	bases := []*c17Ty{c07B("int"), c07B("string"), c07Pair, c07U("txt")}
	for _, base := range bases {
		for di, dsh := range c07Shapes {
			for si, ssh := range c07Shapes {
				dst, src := dsh(base), ssh(base)
				class := "depth"
				if di != si && (dst.kind == 'm' || dst.kind == 'a' && dst.elem.kind == 'm') &&
					(src.kind == 'm' || src.kind == 'a' && src.elem.kind == 'm') {
					class = "depth_typed_maps"
				}
				mk := func(env *c07Env, t *c17Ty, b c07Bind) {
					p, nb := c07One("x0", t, b)
					cs := &c07Case{env: env, params: []c17Field{p}, binds: []c07NamedBind{nb}, mapped: b.split}
					c07JudgeCase(c, cs, class)
				}
				// plain reference to a pipeline input
				mk(&c07Env{selfs: []c17Field{{"s0", src}}}, dst, c07Bind{e: c07Ref('r', "s0")})
				// reference to a call output
				mk(&c07Env{prodMode: 's', prodOuts: []c17Field{{"o0", src}}}, dst, c07Bind{e: c07Ref('c', "PROD", "o0")})
				// as an array element / a map value of a literal
				mk(&c07Env{selfs: []c17Field{{"s0", src}}}, c07A(dst), c07Bind{e: c07Arr(c07Ref('r', "s0"))})
				if !dst.isMapInside() {
					mk(&c07Env{selfs: []c17Field{{"s0", src}}}, c07M(dst),
						c07Bind{e: &c07Exp{kind: 'm', keys: []string{"k"}, elems: []*c07Exp{c07Ref('r', "s0")}}})
				}
				// split over an array / a typed map of the source type
				mk(&c07Env{selfs: []c17Field{{"s0", c07A(src)}}}, dst, c07Bind{split: true, e: c07Ref('r', "s0")})
				if !src.isMapInside() {
					mk(&c07Env{selfs: []c17Field{{"s0", c07M(src)}}}, dst, c07Bind{split: true, e: c07Ref('r', "s0")})
				}
				// the output of an array-mapped call, peeled again by split
				mk(&c07Env{prodMode: 'a', prodOuts: []c17Field{{"o0", src}}}, dst, c07Bind{split: true, e: c07Ref('c', "PROD", "o0")})
			}
		}
	}
	// struct members: OUTER.m : map<int>, OUTER.pam : map<PAIR[]>, OUTER.wm : map<WIDE>, OUTER.ys : int[]
	for _, m := range []struct {
		path string
		base *c17Ty
	}{{"m", c07B("int")}, {"pam", c07Pair}, {"wm", c07Wide}, {"ys", c07B("int")}} {
		for _, dsh := range c07Shapes {
			p, nb := c07One("x0", dsh(m.base), c07Bind{e: c07Ref('r', "s0", m.path)})
			c07JudgeCase(c, &c07Case{env: &c07Env{selfs: []c17Field{{"s0", c07Outer}}}, params: []c17Field{p}, binds: []c07NamedBind{nb}}, "depth_typed_maps")
			// through an array of structs: the member type is lifted
			p, nb = c07One("x0", dsh(m.base), c07Bind{e: c07Ref('r', "s0", m.path)})
			c07JudgeCase(c, &c07Case{env: &c07Env{selfs: []c17Field{{"s0", c07A(c07Outer)}}}, params: []c17Field{p}, binds: []c07NamedBind{nb}}, "depth")
		}
	}
}

// split sources
type c07Src struct {
	name string
	mk   func(mode byte) *c07Exp
	prod bool
}

func c07Lit(mode byte, n int, keys []string) *c07Exp {
	if mode == 'a' {
		e := c07Arr()
		for i := 0; i < n; i++ {
			e.elems = append(e.elems, c07Int(int64(i)))
		}
		return e
	}
	e := &c07Exp{kind: 'm'}
	for i, k := range keys {
		e.keys = append(e.keys, k)
		e.elems = append(e.elems, c07Int(int64(i)))
	}
	return e
}

var c07Srcs = []c07Src{
	{"R", func(mode byte) *c07Exp { return c07Ref('r', "s0") }, false},
	{"Q", func(mode byte) *c07Exp { return c07Ref('c', "PROD", "o0") }, true},
	{"L2", func(mode byte) *c07Exp { return c07Lit(mode, 2, []string{"ka", "kb"}) }, false},
	{"L3", func(mode byte) *c07Exp { return c07Lit(mode, 3, []string{"ka", "kb", "kc"}) }, false},
	{"K2", func(mode byte) *c07Exp { return c07Lit(mode, 2, []string{"ka", "kx"}) }, false}, // same size, other key (arrays: same as L2)
	{"X", func(mode byte) *c07Exp { return c07Lit('a'+'m'-mode, 2, []string{"ka", "kb"}) }, false},
}

func c07SplitStream(c *Ctx) {
	run := func(mode byte, seq []int) {
		env := &c07Env{}
		usesR, usesQ := false, false
		name := ""
		for _, i := range seq {
			name += c07Srcs[i].name
			usesR = usesR || c07Srcs[i].name == "R"
			usesQ = usesQ || c07Srcs[i].prod
		}
		if usesR {
			if mode == 'a' {
				env.selfs = []c17Field{{"s0", c07A(c07B("int"))}}
			} else {
				env.selfs = []c17Field{{"s0", c07M(c07B("int"))}}
			}
		}
		if usesQ {
			env.prodMode = mode
			env.prodOuts = []c17Field{{"o0", c07B("int")}}
		}
		cs := &c07Case{env: env, mapped: true}
		for j, i := range seq {
			p, nb := c07One(fmt.Sprintf("x%d", j), c07B("int"), c07Bind{split: true, e: c07Srcs[i].mk(mode)})
			cs.params = append(cs.params, p)
			cs.binds = append(cs.binds, nb)
		}
		class := "splits"
		// a reference of unknown length first, then two literals that disagree
		if len(seq) >= 3 && c07Srcs[seq[0]].name == "R" {
			class = "splits_ref_first"
		}
		c07JudgeCase(c, cs, class)
	}
	n := len(c07Srcs)
	for _, mode := range []byte{'a', 'm'} {
		for a := 0; a < n; a++ {
			for b := 0; b < n; b++ {
				run(mode, []int{a, b})
				for d := 0; d < n; d++ {
					run(mode, []int{a, b, d})
				}
			}
		}
		// length 4: every order that starts with a reference, plus a random sample
		for a := 0; a < 2; a++ {
			for b := 0; b < n; b++ {
				for d := 0; d < n; d++ {
					for e := 2; e < n; e++ {
						if c.Thorough || c.Rng.Intn(4) == 0 {
							run(mode, []int{a, b, d, e})
						}
					}
				}
			}
		}
	}
	// the source propagated through a second call: PROD mapped over a reference
	// is not expressible with the fixed PROD of the tiny programs (its split
	// source is a literal); covered by the mutation oracle on generated programs.
}

func c07UntypedStream(c *Ctx) {
	type place struct {
		name string
		t    *c17Ty
		wrap func(m *c07Exp) *c07Exp
	}
	mapLit := func(k string, v *c07Exp) *c07Exp { return &c07Exp{kind: 'm', keys: []string{k}, elems: []*c07Exp{v}} }
	places := []place{
		{"map", c07B("map"), func(m *c07Exp) *c07Exp { return m }},
		{"map[]", c07A(c07B("map")), func(m *c07Exp) *c07Exp { return c07Arr(m, c07Null()) }},
		{"map[][]", c07A(c07A(c07B("map"))), func(m *c07Exp) *c07Exp { return c07Arr(c07Arr(m)) }},
		{"MAPPY.m", c07Mappy, func(m *c07Exp) *c07Exp {
			return &c07Exp{kind: 'S', keys: []string{"m", "sm", "p"}, elems: []*c07Exp{m, mapLit("k", c07Str("v")), c07Str("/p")}}
		}},
		{"MAPPY[].m", c07A(c07Mappy), func(m *c07Exp) *c07Exp {
			return c07Arr(&c07Exp{kind: 'S', keys: []string{"m", "sm", "p"}, elems: []*c07Exp{m, c07Null(), c07Null()}})
		}},
		{"map<MAPPY>.m", c07M(c07Mappy), func(m *c07Exp) *c07Exp {
			return mapLit("q", &c07Exp{kind: 'S', keys: []string{"m", "sm", "p"}, elems: []*c07Exp{m, c07Null(), c07Null()}})
		}},
	}
	refs := []struct {
		name string
		env  func() *c07Env
		e    *c07Exp
	}{
		{"self", func() *c07Env { return &c07Env{selfs: []c17Field{{"s0", c07B("int")}}} }, c07Ref('r', "s0")},
		{"call", func() *c07Env { return &c07Env{prodMode: 's', prodOuts: []c17Field{{"o0", c07B("int")}}} }, c07Ref('c', "PROD", "o0")},
		{"mapped-call", func() *c07Env { return &c07Env{prodMode: 'a', prodOuts: []c17Field{{"o0", c07B("int")}}} }, c07Ref('c', "PROD", "o0")},
		{"none", func() *c07Env { return &c07Env{selfs: []c17Field{{"s0", c07B("int")}}} }, c07Int(5)},
	}
	shapes := []struct {
		name  string
		depth int
		mk    func(r *c07Exp) *c07Exp
	}{
		{"direct", 1, func(r *c07Exp) *c07Exp { return mapLit("k", r) }},
		{"in-array", 2, func(r *c07Exp) *c07Exp { return mapLit("thresholds", c07Arr(c07Int(1), r)) }},
		{"in-map", 2, func(r *c07Exp) *c07Exp { return mapLit("k", mapLit("j", r)) }},
		{"in-struct-literal", 2, func(r *c07Exp) *c07Exp {
			return mapLit("k", &c07Exp{kind: 'S', keys: []string{"j"}, elems: []*c07Exp{r}})
		}},
		{"in-array-in-array", 3, func(r *c07Exp) *c07Exp { return mapLit("k", c07Arr(c07Arr(r))) }},
		{"in-array-in-map", 3, func(r *c07Exp) *c07Exp { return mapLit("k", mapLit("j", c07Arr(c07Str("a"), r))) }},
		{"second-key", 2, func(r *c07Exp) *c07Exp {
			return &c07Exp{kind: 'm', keys: []string{"a", "b"}, elems: []*c07Exp{c07Int(1), c07Arr(r)}}
		}},
	}
	for _, pl := range places {
		for _, rf := range refs {
			for _, sh := range shapes {
				env := rf.env()
				cs := &c07Case{env: env}
				p, nb := c07One("x0", pl.t, c07Bind{e: pl.wrap(sh.mk(rf.e))})
				cs.params, cs.binds = []c17Field{p}, []c07NamedBind{nb}
				class := "untyped_map"
				if sh.depth >= 2 && rf.name != "none" {
					class = "untyped_map_nested_ref"
				}
				c07JudgeCase(c, cs, class)
			}
		}
	}
}

// elements  every element of a collection literal is checked on its own,
//
//	whatever stands before it: for 8 element types, arrays (and rows of
//	2-dim arrays, array values of typed maps, array members of structs,
//	split literals, map literals) are built from VALID elements of every
//	literal kind the type accepts (for `int`: integer, integral float in
//	three spellings, null) with one INVALID element (wrong kind, or - for
//	`int` - a fractional float, i.e. the SAME literal kind as a valid
//	neighbour) in every position after 0, 1 and 2 valid ones of every kind
func c07ElementPositionStream(c *Ctx) {
	flo := func(text string) *c07Exp {
		for _, f := range c07Floats {
			if f.text == text {
				return c07Flo(f)
			}
		}
		panic("no float literal " + text)
	}
	type elemSpec struct {
		t       *c17Ty
		valid   []*c07Exp
		invalid []*c07Exp
	}
	specs := []elemSpec{
		{c07B("int"), []*c07Exp{c07Int(1), flo("3.0"), flo("1e3"), flo("-2.0"), c07Null()}, []*c07Exp{flo("1.5"), flo("0.25"), flo("1e-3"), c07Str("s"), c07Bool(true)}},
		{c07B("float"), []*c07Exp{c07Int(1), flo("1.5"), c07Null()}, []*c07Exp{c07Str("s"), c07Bool(true)}},
		{c07B("string"), []*c07Exp{c07Str("a"), c07Null()}, []*c07Exp{c07Int(1), c07Bool(false), flo("1.5")}},
		{c07B("bool"), []*c07Exp{c07Bool(true), c07Null()}, []*c07Exp{c07Int(1), c07Str("true")}},
		{c07B("file"), []*c07Exp{c07Str("f.dat"), c07Null()}, []*c07Exp{c07Int(1), c07Bool(true)}},
		{c07U("txt"), []*c07Exp{c07Str("f.txt"), c07Null()}, []*c07Exp{c07Int(1), flo("3.0")}},
		{c07Pair, []*c07Exp{c07Witness(c07Pair), c07Null()}, []*c07Exp{c07Int(1), c07WrongNested(c07Pair), c07Arr(c07Witness(c07Pair))}},
		{c07A(c07B("int")), []*c07Exp{c07Arr(c07Int(1), flo("3.0")), c07Arr(), c07Null()}, []*c07Exp{c07Arr(flo("3.0"), flo("1.5")), c07Arr(c07Int(1), c07Str("s")), c07Int(1)}},
	}
	type wrap struct {
		name string
		t    func(e *c17Ty) *c17Ty
		lit  func(arr *c07Exp) c07Bind
		ok   func(e *c17Ty) bool
	}
	wraps := []wrap{
		{"array", func(e *c17Ty) *c17Ty { return c07A(e) }, func(a *c07Exp) c07Bind { return c07Bind{e: a} }, nil},
		{"row", func(e *c17Ty) *c17Ty { return c07A(c07A(e)) }, func(a *c07Exp) c07Bind { return c07Bind{e: c07Arr(c07Arr(), a)} }, nil},
		{"map_value", func(e *c17Ty) *c17Ty { return c07M(c07A(e)) }, func(a *c07Exp) c07Bind {
			return c07Bind{e: &c07Exp{kind: 'm', keys: []string{"k"}, elems: []*c07Exp{a}}}
		}, func(e *c17Ty) bool { return !e.isMapInside() }},
		{"split", func(e *c17Ty) *c17Ty { return e }, func(a *c07Exp) c07Bind { return c07Bind{split: true, e: a} }, nil},
		{"split_map", func(e *c17Ty) *c17Ty { return e }, func(a *c07Exp) c07Bind {
			m := &c07Exp{kind: 'm'}
			for i, x := range a.elems {
				m.keys = append(m.keys, fmt.Sprintf("k%d", i))
				m.elems = append(m.elems, x)
			}
			return c07Bind{split: true, e: m}
		}, nil},
		{"typed_map", func(e *c17Ty) *c17Ty { return c07M(e) }, func(a *c07Exp) c07Bind {
			m := &c07Exp{kind: 'm'}
			for i, x := range a.elems {
				m.keys = append(m.keys, fmt.Sprintf("k%d", i))
				m.elems = append(m.elems, x)
			}
			return c07Bind{e: m}
		}, func(e *c17Ty) bool { return !e.isMapInside() }},
	}
	judge := func(w wrap, sp elemSpec, elems []*c07Exp, class string) {
		if len(elems) == 0 && (w.name == "split" || w.name == "split_map") {
			return
		}
		b := w.lit(c07Arr(elems...))
		p, nb := c07One("x0", w.t(sp.t), b)
		c07JudgeCase(c, &c07Case{env: &c07Env{}, params: []c17Field{p}, binds: []c07NamedBind{nb}, mapped: b.split}, class)
	}
	for _, sp := range specs {
		for _, w := range wraps {
			if w.ok != nil && !w.ok(sp.t) {
				continue
			}
			// all valid, every kind next to every kind
			for _, a := range sp.valid {
				for _, b := range sp.valid {
					judge(w, sp, []*c07Exp{a, b}, "elements_valid")
				}
			}
			for _, bad := range sp.invalid {
				judge(w, sp, []*c07Exp{bad}, "elements_invalid_first")
				for _, a := range sp.valid {
					judge(w, sp, []*c07Exp{a, bad}, "elements_invalid_after_valid")
					judge(w, sp, []*c07Exp{a, bad, a}, "elements_invalid_between_valid")
					for _, b := range sp.valid {
						judge(w, sp, []*c07Exp{a, b, bad}, "elements_invalid_after_two_valid")
					}
				}
			}
		}
	}
	// an array member of a struct literal: WIDE(int a, string b, float c, int[] xs)
	for _, xs := range [][]*c07Exp{{flo("3.0"), flo("1.5")}, {c07Int(1), flo("1e3"), flo("0.25")}, {flo("3.0"), flo("1e3")}, {c07Int(1), c07Str("s")}} {
		w := c07Witness(c07Wide)
		w.elems[3] = c07Arr(xs...)
		p, nb := c07One("x0", c07Wide, c07Bind{e: w})
		c07JudgeCase(c, &c07Case{env: &c07Env{}, params: []c17Field{p}, binds: []c07NamedBind{nb}}, "elements_struct_member")
	}
}
