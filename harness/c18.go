package main

import (
	"bytes"
	"fmt"
	"os"
	"os/exec"
	"sort"
	"strings"
	"unicode/utf8"

	"github.com/martian-lang/martian/martian/core"
)

func init() { register("C18", runC18) }

var c18Special = []string{"\\", "\"", "$", "`", "\n", "'", " ", "\t", "*", "?", "[", "]", "~", "#",
	"!", ";", "&", "|", "(", ")", "<", ">", "{", "}", "=", "%", "\r", "\x01", "\x7f", "\a", "\b", "\v"}

var c18Words = []string{"a", "b", "x1", "$HOME", "${PATH}", "$(id)", "`id`", "\\n", "\\\\", "\\\"", "\\$", "\\`",
	"é", "☺", "日本", "\U0001F600", "�", "--flag=v", "/p/a th/", "\\\n", "$$", "$1", "\"\"", "''"}

func c18GenValid(c *Ctx) string {
	var sb strings.Builder
	n := c.Rng.Intn(8)
	if c.Rng.Intn(10) == 0 {
		n = c.Rng.Intn(40)
	}
	for i := 0; i < n; i++ {
		switch c.Rng.Intn(6) {
		case 0, 1:
			sb.WriteString(c18Special[c.Rng.Intn(len(c18Special))])
		case 2:
			sb.WriteString(c18Words[c.Rng.Intn(len(c18Words))])
		case 3:
			sb.WriteByte(byte(1 + c.Rng.Intn(127)))
		case 4:
			// random rune from several planes
			var r rune
			switch c.Rng.Intn(4) {
			case 0:
				r = rune(0x80 + c.Rng.Intn(0x780))
			case 1:
				r = rune(0x800 + c.Rng.Intn(0xF800))
			case 2:
				r = rune(0x10000 + c.Rng.Intn(0x100000))
			default:
				r = rune(0x20 + c.Rng.Intn(0x5f))
			}
			if r >= 0xD800 && r <= 0xDFFF {
				r = 0xE000
			}
			sb.WriteRune(r)
		default:
			sb.WriteByte(byte('a' + c.Rng.Intn(26)))
		}
	}
	return sb.String()
}

// c18GenLong: a LONG valid value (1-5 kB): a short unit of shell-special characters repeated,
// behind a prefix of 0-7 ordinary bytes, so that over the cases every special character sits at
// every offset modulo a small window (line-length, buffer-boundary and look-behind logic in the
// code under test sees backslash runs, `$`, backtick, quote and newline at its break points)
func c18GenLong(c *Ctx) string {
	units := []string{"\\", "\\\\$X", "\\$", "$X\\", "`id`\\", "\"\\", "a\\", "\\\n", "$(id)", "é\\", "\\\\\\a", "ab", "☺$\\"}
	var unit string
	if c.Rng.Intn(3) == 0 {
		for i, n := 0, 1+c.Rng.Intn(6); i < n; i++ {
			unit += []string{"\\", "\\", "$", "`", "\"", "a", "\n", "X", " "}[c.Rng.Intn(9)]
		}
	} else {
		unit = units[c.Rng.Intn(len(units))]
	}
	want := 1000 + c.Rng.Intn(4000)
	var sb strings.Builder
	sb.WriteString("abcdefg"[:c.Rng.Intn(8)])
	for sb.Len() < want {
		sb.WriteString(unit)
	}
	return sb.String()
}

// arbitrary bytes without NUL (the "extension" domain)
func c18GenBytes(c *Ctx) string {
	s := []byte(c18GenValid(c))
	k := 1 + c.Rng.Intn(3)
	for i := 0; i < k; i++ {
		pos := 0
		if len(s) > 0 {
			pos = c.Rng.Intn(len(s) + 1)
		}
		b := byte(0x80 + c.Rng.Intn(0x80))
		s = append(s[:pos], append([]byte{b}, s[pos:]...)...)
	}
	return string(s)
}

func c18GenValidOrLong(c *Ctx) string {
	if c.Rng.Intn(8) == 0 {
		return c18GenLong(c)
	}
	return c18GenValid(c)
}

func c18Nontrivial(s string) bool {
	for i := 0; i < len(s); i++ {
		switch b := s[i]; {
		case b == '\\' || b == '"' || b == '$' || b == '`' || b == '\n' || b >= 0x80:
			return true
		}
	}
	return false
}

// shEvalWords runs a real shell on a batch of command-line fragments: each
// fragment is placed after `printf '%s\0' ` on its own; the shell's output
// for each fragment is the list of words it saw.  Fragments are separated by
// a record marker so a syntax error in one fragment is localised by
// re-running fragments alone.
func shEvalWords(shell []string, frags []string) ([][]string, []bool) {
	out := make([][]string, len(frags))
	ok := make([]bool, len(frags))
	const marker = "\x00\x01REC\x00"
	var script bytes.Buffer
	for _, f := range frags {
		script.WriteString("printf '%s\\0' ")
		script.WriteString(f)
		script.WriteString("\nprintf '\\0\\001REC\\0'\n")
	}
	res, err := shRun(shell, script.Bytes())
	parts := bytes.Split(res, []byte(marker))
	if err == nil && len(parts) == len(frags)+1 {
		for i := range frags {
			out[i], ok[i] = splitNul(parts[i]), true
		}
		return out, ok
	}
	if len(frags) == 1 {
		// single fragment: report whatever came out, flagged not-ok if the shell failed
		out[0] = splitNul(bytes.TrimSuffix(res, []byte(marker)))
		ok[0] = err == nil && len(parts) == 2
		return out, ok
	}
	// a fragment broke the script: bisect
	mid := len(frags) / 2
	o1, k1 := shEvalWords(shell, frags[:mid])
	o2, k2 := shEvalWords(shell, frags[mid:])
	return append(o1, o2...), append(k1, k2...)
}

func splitNul(b []byte) []string {
	if len(b) == 0 {
		return nil
	}
	if b[len(b)-1] == 0 {
		b = b[:len(b)-1]
	}
	ps := bytes.Split(b, []byte{0})
	o := make([]string, len(ps))
	for i, p := range ps {
		o[i] = string(p)
	}
	return o
}

var shScratch = os.TempDir()

func shRun(shell []string, script []byte) ([]byte, error) {
	cmd := exec.Command(shell[0], shell[1:]...)
	cmd.Stdin = bytes.NewReader(script)
	// a quoting defect turns test strings into commands: no external programs, scratch cwd
	cmd.Env = []string{"PATH=/nonexistent", "HOME=/nonexistent", "LC_ALL=C"}
	cmd.Dir = shScratch
	var ob bytes.Buffer
	cmd.Stdout = &ob
	err := cmd.Run()
	return ob.Bytes(), err
}

func c18Shells() [][]string {
	var shells [][]string
	if _, err := exec.LookPath("/bin/sh"); err == nil {
		shells = append(shells, []string{"/bin/sh"})
	}
	if p, err := exec.LookPath("bash"); err == nil {
		shells = append(shells, []string{p, "--posix", "--norc", "--noprofile"})
	}
	return shells
}

// octalForm is what the quoter is known to do with invalid bytes (F13).
func c18OctalExpected(s string) string {
	var sb strings.Builder
	for len(s) > 0 {
		r, w := utf8.DecodeRuneInString(s)
		if r == utf8.RuneError && w == 1 {
			fmt.Fprintf(&sb, "\\%o%o%o", s[0]>>6, (s[0]>>3)&7, s[0]&7)
		} else {
			sb.WriteString(s[:w])
		}
		s = s[w:]
	}
	return sb.String()
}

var c18Extra []func(c *Ctx)

func runC18(c *Ctx) {
	defer func() {
		for _, f := range c18Extra {
			f(c)
		}
	}()
	r := c.Res
	r.Rule = "strings: corpus + all single bytes 1..255 in 3 contexts + all (backslash,byte) pairs + PRNG mix of shell metacharacters, expansions, escapes, ASCII and non-ASCII runes (valid stream) and the same with invalid bytes inserted (extension stream); non-trivial = contains \\ \" $ ` newline or a byte >= 0x80; distinct = distinct input string. Each case: Go quoter vs Lean quote (byte equality), utf8.ValidString vs Lean validUtf8, /bin/sh and bash --posix on the Go-quoted word vs the original (property oracle) and vs Lean dqEval (shell-model validation); formatArgs cases: Go vs Lean formatArgs and real shells' word lists vs Lean shWords vs expected; job scripts: every shipped template x generated jobs (metacharacters in command, arguments, environment, paths, fork keys, account, resources mapping) and mutated templates: real jobScript vs Lean jobScript vs Lean renderScript byte for byte, Lean shToks of the real script vs the tokens of theorem jobScript_tokens; shell lines: generated command lines (Go-quoted / single-quoted / escaped / bare words, continuations, comments, > and N> redirections), metacharacter soup and x<byte>x for every byte: generator intent vs Lean shToks vs dash and bash; negative witnesses replayed on the real code and shells"
	shells := c18Shells()
	shScratch = c.Scratch
	if len(shells) == 0 {
		r.note("no POSIX shell found; shell-model validation skipped")
	}

	// ---- case list ----
	var valid, ext []string
	for _, s := range readCorpusLines(c.Corpus) {
		if strings.IndexByte(s, 0) >= 0 {
			continue
		}
		if utf8.ValidString(s) {
			valid = append(valid, s)
		} else {
			ext = append(ext, s)
		}
	}
	for b := 1; b < 256; b++ {
		for _, ctx := range [][2]string{{"", ""}, {"a", "b"}, {"\\", "\\"}} {
			s := ctx[0] + string([]byte{byte(b)}) + ctx[1]
			if utf8.ValidString(s) {
				valid = append(valid, s)
			} else {
				ext = append(ext, s)
			}
		}
	}
	n := 3000
	if c.Thorough {
		n = 150000
	}
	for i := 0; i < n; i++ {
		valid = append(valid, c18GenValid(c))
	}
	for i := 0; i < 20+n/100; i++ {
		valid = append(valid, c18GenLong(c))
	}
	for i := 0; i < n/5; i++ {
		ext = append(ext, c18GenBytes(c))
	}
	r.Histogram = map[string]int{"valid_stream": len(valid), "extension_stream": len(ext)}

	// ---- 1. Go quoter vs Lean model; validity vs model ----
	all := append(append([]string{}, valid...), ext...)
	quoted := make([]string, len(all))
	reqs := make([][]string, 0, 2*len(all))
	for i, s := range all {
		quoted[i] = core.VerifShellSafeQuote(s)
		reqs = append(reqs, []string{"C18.quote", hx(s)}, []string{"C18.valid", hx(s)})
	}
	reps := c.Drv.AskBatch(reqs)
	for i, s := range all {
		r.count(s, c18Nontrivial(s))
		if i%997 == 0 {
			r.sample(map[string]string{"input": s, "go_quoted": quoted[i]})
		}
		if m := unhx(reps[2*i]); m != quoted[i] {
			r.violate(Violation{Kind: "correspondence", Key: "C18:quote-model-mismatch",
				What:  "appendShellSafeQuote differs from Lean model quote",
				Input: fmt.Sprintf("%q", s), Impl: fmt.Sprintf("%q", quoted[i]), Model: fmt.Sprintf("%q", m),
				Broken: "correspondence C18.quote (Martian.ShellQuote.quote Gen.shellEscapes)"})
		}
		gv := fmt.Sprint(utf8.ValidString(s))
		if reps[2*i+1] != gv {
			r.violate(Violation{Kind: "correspondence", Key: "C18:utf8-valid-model-mismatch",
				What:  "utf8.ValidString differs from Lean validUtf8",
				Input: fmt.Sprintf("%q", s), Impl: gv, Model: reps[2*i+1],
				Broken: "correspondence C18.valid"})
		}
		for j := 0; j < len(s); j++ {
			if s[j] >= 0x80 {
				r.hist("has_non_ascii")
				break
			}
		}
		if strings.ContainsAny(s, "\\\"$`") {
			r.hist("has_dq_special")
		}
	}

	// ---- 2. real shells on the quoted words: property oracle + model validation ----
	dreqs := make([][]string, len(all))
	for i := range all {
		dreqs[i] = []string{"C18.dqeval", hx(quoted[i])}
	}
	dq := c.Drv.AskBatch(dreqs)
	shrinks := 0
	for _, sh := range shells {
		name := sh[0]
		const batch = 400
		for lo := 0; lo < len(all); lo += batch {
			hi := lo + batch
			if hi > len(all) {
				hi = len(all)
			}
			outs, oks := shEvalWords(sh, quoted[lo:hi])
			for k := range outs {
				i := lo + k
				s := all[i]
				got := "<shell error>"
				if oks[k] && len(outs[k]) == 1 {
					got = outs[k][0]
				} else if oks[k] {
					got = fmt.Sprintf("<%d words> %q", len(outs[k]), outs[k])
				}
				r.hist("shell_evals")
				isValid := i < len(valid)
				// model validation: whenever the model says `some v`, the shell must agree
				if strings.HasPrefix(dq[i], "some ") {
					mv := unhx(strings.TrimPrefix(dq[i], "some "))
					if mv != got {
						r.violate(Violation{Kind: "correspondence", Key: "C18:shell-model-mismatch:" + name,
							What:  "Lean dqEval disagrees with the real shell on a quoted word",
							Input: fmt.Sprintf("%q", quoted[i]), Impl: fmt.Sprintf("%q", got), Model: fmt.Sprintf("%q", mv),
							Broken: "correspondence C18.dqeval (POSIX double-quote model)"})
					}
				}
				if got == s {
					continue
				}
				// property failure on the real code + real shell
				var key, what string
				if !isValid && got == c18OctalExpected(s) {
					key = "C18:invalid-utf8-octal"
					what = "invalid UTF-8 byte is emitted as \\ooo which sh keeps literally (extension domain)"
				} else {
					min := s
					key = "C18:roundtrip:unshrunk"
					if shrinks < 12 {
						shrinks++
						min = c18Shrink(sh, s)
						key = "C18:roundtrip:" + hx(min)
					}
					if !isValid {
						key = strings.Replace(key, "roundtrip:", "roundtrip-ext:", 1)
					}
					what = fmt.Sprintf("%s does not reproduce %q from its quoted form (minimal failing input %q)", name, s, min)
				}
				r.violate(Violation{Kind: "property", Key: key, What: what,
					Input: map[string]string{"string": fmt.Sprintf("%q", s), "hex": hx(s), "shell": name},
					Impl:  fmt.Sprintf("%q", got), Expect: fmt.Sprintf("%q", s)})
			}
		}
	}

	// ---- 3. formatArgs ----
	m := 300
	if c.Thorough {
		m = 20000
	}
	type faCase struct {
		envs    map[string]string
		cmd     string
		argv    []string
		goOut   string
		expect  []string
		nontriv bool
	}
	var cases []faCase
	for i := 0; i < m; i++ {
		fc := faCase{envs: map[string]string{}}
		ne := c.Rng.Intn(4)
		for j := 0; j < ne; j++ {
			k := fmt.Sprintf("%c%c_%d", 'A'+c.Rng.Intn(26), 'a'+c.Rng.Intn(26), c.Rng.Intn(3))
			fc.envs[k] = c18GenValidOrLong(c)
		}
		fc.cmd = c18GenValidOrLong(c)
		na := c.Rng.Intn(4)
		for j := 0; j < na; j++ {
			fc.argv = append(fc.argv, c18GenValidOrLong(c))
		}
		fc.goOut = core.VerifFormatArgs(fc.envs, fc.cmd, fc.argv)
		var es []string
		for k, v := range fc.envs {
			es = append(es, k+"="+core.VerifShellSafeQuote(v))
			fc.nontriv = fc.nontriv || c18Nontrivial(v)
		}
		sort.Strings(es)
		// expected words: assignments in the order of the sorted rendered strings
		for _, e := range es {
			k := e[:strings.IndexByte(e, '=')]
			fc.expect = append(fc.expect, k+"="+fc.envs[k])
		}
		fc.expect = append(fc.expect, fc.cmd)
		fc.expect = append(fc.expect, fc.argv...)
		fc.nontriv = fc.nontriv || c18Nontrivial(fc.cmd) || c18Nontrivial(strings.Join(fc.argv, ""))
		cases = append(cases, fc)
	}
	freqs := make([][]string, 0, 2*len(cases))
	for _, fc := range cases {
		var kv []string
		keys := make([]string, 0, len(fc.envs))
		for k := range fc.envs {
			keys = append(keys, k)
		}
		sort.Strings(keys)
		// hand the model the pairs in *reverse* key order: its own sort must fix it
		for i := len(keys) - 1; i >= 0; i-- {
			kv = append(kv, hx(keys[i])+"="+hx(fc.envs[keys[i]]))
		}
		envArg := "."
		if len(kv) > 0 {
			envArg = strings.Join(kv, ",")
		}
		freqs = append(freqs, []string{"C18.formatargs", envArg, hx(fc.cmd), hxList(fc.argv)},
			[]string{"C18.words", hx(fc.goOut)})
	}
	freps := c.Drv.AskBatch(freqs)
	frags := make([]string, len(cases))
	for i, fc := range cases {
		frags[i] = fc.goOut
		canon := fc.goOut
		r.count("fa:"+canon, fc.nontriv)
		if i%97 == 0 {
			r.sample(map[string]interface{}{"formatArgs": fc.goOut, "expect_words": fc.expect})
		}
		if mo := unhx(freps[2*i]); mo != fc.goOut {
			r.violate(Violation{Kind: "correspondence", Key: "C18:formatargs-model-mismatch",
				What:  "formatArgs differs from Lean model",
				Input: map[string]interface{}{"envs": fc.envs, "cmd": fc.cmd, "argv": fc.argv},
				Impl:  fmt.Sprintf("%q", fc.goOut), Model: fmt.Sprintf("%q", mo),
				Broken: "correspondence C18.formatargs"})
		}
		want := "some " + hxList(fc.expect)
		if freps[2*i+1] != want {
			r.violate(Violation{Kind: "correspondence", Key: "C18:formatargs-words-model",
				What:  "Lean shWords of the real formatArgs output is not the expected word list",
				Input: fmt.Sprintf("%q", fc.goOut), Model: freps[2*i+1], Expect: want,
				Broken: "theorem Props.C18.formatArgs_words (instance)"})
		}
	}
	for _, sh := range shells {
		const batch = 100
		for lo := 0; lo < len(cases); lo += batch {
			hi := lo + batch
			if hi > len(cases) {
				hi = len(cases)
			}
			outs, oks := shEvalWords(sh, frags[lo:hi])
			for k := range outs {
				fc := cases[lo+k]
				r.hist("shell_formatargs_evals")
				if oks[k] && equalStrs(outs[k], fc.expect) {
					continue
				}
				r.violate(Violation{Kind: "property", Key: "C18:formatargs-words",
					What:  sh[0] + " does not recover env/cmd/argv from formatArgs output",
					Input: map[string]interface{}{"envs": fc.envs, "cmd": fc.cmd, "argv": fc.argv, "script": fc.goOut},
					Impl:  fmt.Sprintf("%q", outs[k]), Expect: fmt.Sprintf("%q", fc.expect)})
			}
		}
	}
}

func init() { c18Extra = append(c18Extra, runC18Scripts) }

func equalStrs(a, b []string) bool {
	if len(a) != len(b) {
		return false
	}
	for i := range a {
		if a[i] != b[i] {
			return false
		}
	}
	return true
}

// c18Shrink deletes bytes/runes while the shell still fails to reproduce.
func c18Shrink(sh []string, s string) string {
	fails := func(t string) bool {
		if t == "" {
			return false
		}
		outs, oks := shEvalWords(sh, []string{core.VerifShellSafeQuote(t)})
		return !(oks[0] && len(outs[0]) == 1 && outs[0][0] == t)
	}
	cur := s
	for changed := true; changed; {
		changed = false
		for i := 0; i < len(cur); {
			_, w := utf8.DecodeRuneInString(cur[i:])
			t := cur[:i] + cur[i+w:]
			if fails(t) {
				cur = t
				changed = true
			} else {
				i += w
			}
		}
	}
	return cur
}
