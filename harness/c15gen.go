package main

// Program generator shared by C15 and C10: small structured MRO programs
// (stages, nested pipelines, aliased calls, map calls, disabled conditions,
// modifiers, file types) rendered to text in several styles / include layouts.

import (
	"encoding/json"
	"fmt"
	"math/rand"
	"sort"
	"strings"
)

type gParam struct {
	Type    string
	Name    string
	OutName string `json:",omitempty"`
	Help    string `json:",omitempty"`
}

type gStructDef struct {
	Name   string
	Fields []gParam
}

type gStage struct {
	Name      string
	Ins       []gParam
	Outs      []gParam
	Split     bool
	ChunkIns  []gParam `json:",omitempty"`
	ChunkOuts []gParam `json:",omitempty"`
	Lang      string
	Src       string
	MemGB     int      `json:",omitempty"`
	Retain    []string `json:",omitempty"`
}

type gBind struct {
	Id  string
	Exp string
}

type gCall struct {
	Callee    string
	Id        string // "" = not aliased
	Map       bool
	Local     bool
	Preflight bool
	Volatile  bool
	Binds     []gBind
	// wildcard binding `* = <Wild>` written after the explicit bindings ("" = none, "self", or a call id)
	Wild     string `json:",omitempty"`
	Disabled string `json:",omitempty"`
}

func (c *gCall) id() string {
	if c.Id != "" {
		return c.Id
	}
	return c.Callee
}

type gPipe struct {
	Name  string
	Ins   []gParam
	Outs  []gParam
	Calls []gCall
	Ret   []gBind
	// `retain (CALL.out, …)`
	Retain []string `json:",omitempty"`
}

type gDecl struct {
	Stage *gStage `json:",omitempty"`
	Pipe  *gPipe  `json:",omitempty"`
}

func (d *gDecl) name() string {
	if d.Stage != nil {
		return d.Stage.Name
	}
	return d.Pipe.Name
}
func (d *gDecl) ins() []gParam {
	if d.Stage != nil {
		return d.Stage.Ins
	}
	return d.Pipe.Ins
}
func (d *gDecl) outs() []gParam {
	if d.Stage != nil {
		return d.Stage.Outs
	}
	return d.Pipe.Outs
}

type gProg struct {
	Filetypes []string
	Structs   []gStructDef `json:",omitempty"`
	Decls     []gDecl      // callee before caller; the last one is the top pipeline
	Top       gCall
	// rendering options (cosmetic by construction)
	Style    int
	Comments bool
	Layout   int // 0: one library file; 1: types / stages / pipelines in separate include files; 2: one file per declaration
}

func (p *gProg) clone() *gProg {
	b, _ := json.Marshal(p)
	q := new(gProg)
	json.Unmarshal(b, q)
	return q
}

func (p *gProg) decl(name string) *gDecl {
	for i := range p.Decls {
		if p.Decls[i].name() == name {
			return &p.Decls[i]
		}
	}
	return nil
}

// ---- literals ----

var gScalarTypes = []string{"int", "float", "string", "bool"}

func gIsFiletype(p *gProg, t string) bool {
	for _, f := range p.Filetypes {
		if f == t {
			return true
		}
	}
	return t == "file" || t == "path"
}

func gLit(rng *rand.Rand, p *gProg, t string, wide bool) string {
	switch {
	case strings.HasSuffix(t, "[]"):
		n := rng.Intn(4)
		if wide {
			n = 3 + rng.Intn(6)
		}
		xs := make([]string, n)
		for i := range xs {
			xs[i] = gLit(rng, p, strings.TrimSuffix(t, "[]"), false)
		}
		if n == 0 {
			return "[]"
		}
		return "[" + strings.Join(xs, ", ") + "]"
	case strings.HasPrefix(t, "map<"):
		n := rng.Intn(4)
		if wide {
			n = 4 + rng.Intn(8)
		}
		inner := strings.TrimSuffix(strings.TrimPrefix(t, "map<"), ">")
		keys := map[string]bool{}
		var xs []string
		for len(xs) < n {
			k := fmt.Sprintf("%c%d", 'a'+rng.Intn(26), rng.Intn(30))
			if keys[k] {
				continue
			}
			keys[k] = true
			xs = append(xs, fmt.Sprintf("%q: %s", k, gLit(rng, p, inner, false)))
		}
		if n == 0 {
			return "{}"
		}
		return "{" + strings.Join(xs, ", ") + "}"
	}
	switch t {
	case "int":
		return fmt.Sprint(rng.Intn(2000) - 1000)
	case "float":
		return []string{"0.5", "1.25", "2.0", "-3.75", "1000.0", "0.1", "6.02e23", "1.5e-7", "17.0", "-1.0"}[rng.Intn(10)]
	case "string":
		return fmt.Sprintf("%q", []string{"", "a", "hello world", "x/y", "tab\\there", "ünï", "7"}[rng.Intn(7)]+fmt.Sprint(rng.Intn(50)))
	case "bool":
		return []string{"true", "false"}[rng.Intn(2)]
	}
	for _, st := range p.Structs {
		if st.Name == t {
			return "null" // (a literal would tie the program to the current definition)
		}
	}
	// file types
	if rng.Intn(3) == 0 {
		return "null"
	}
	return fmt.Sprintf("\"/data/f%d.%s\"", rng.Intn(50), t)
}

// ---- generation ----

type gSrc struct{ Exp, Type string }

func gSources(pipe *gPipe, p *gProg, upto int) []gSrc {
	var s []gSrc
	for _, in := range pipe.Ins {
		s = append(s, gSrc{"self." + in.Name, in.Type})
	}
	for i := 0; i < upto && i < len(pipe.Calls); i++ {
		c := &pipe.Calls[i]
		if c.Map || c.Preflight {
			continue
		}
		d := p.decl(c.Callee)
		for _, o := range d.outs() {
			s = append(s, gSrc{c.id() + "." + o.Name, o.Type})
		}
	}
	return s
}

// candidate disabling conditions: pipeline inputs and outputs of calls that are not themselves disabled
func gDisableSources(pipe *gPipe, p *gProg, upto int) []gSrc {
	var s []gSrc
	for _, x := range gSources(pipe, p, upto) {
		ok := true
		for i := 0; i < upto && i < len(pipe.Calls); i++ {
			c := &pipe.Calls[i]
			if strings.HasPrefix(x.Exp, c.id()+".") && (c.Disabled != "" || p.decl(c.Callee).Pipe != nil) {
				ok = false
			}
		}
		if ok {
			s = append(s, x)
		}
	}
	return s
}

func gPick(rng *rand.Rand, srcs []gSrc, t string) (string, bool) {
	var c []string
	for _, s := range srcs {
		if s.Type == t {
			c = append(c, s.Exp)
		}
	}
	if len(c) == 0 {
		return "", false
	}
	return c[rng.Intn(len(c))], true
}

func gGenProg(rng *rand.Rand, wide bool) *gProg {
	p := &gProg{Filetypes: []string{"txt", "json", "bam"}, Style: rng.Intn(3), Comments: rng.Intn(2) == 0, Layout: rng.Intn(3)}
	// txt / json are used in scalar positions only; bam also in arrays
	p.Structs = []gStructDef{{Name: "Pt", Fields: []gParam{{Type: "int", Name: "x"}, {Type: "string", Name: "label"}}}}
	types := []string{"int", "float", "string", "bool", "int[]", "string[]", "map<int>", "txt", "json", "bam", "bam[]", "float", "int", "Pt"}
	nst := 2 + rng.Intn(3)
	uniq := func(used map[string]bool, base string) string {
		for i := 0; ; i++ {
			n := base
			if i > 0 {
				n = fmt.Sprintf("%s%d", base, i)
			}
			if !used[n] {
				used[n] = true
				return n
			}
		}
	}
	names := []string{"alpha", "beta", "gamma", "delta", "eps", "zeta", "eta", "theta"}
	for i := 0; i < nst; i++ {
		st := &gStage{Name: fmt.Sprintf("STAGE_%c", 'A'+i), Lang: []string{"comp", "exec"}[rng.Intn(2)], Src: fmt.Sprintf("bin/st%d run", i)}
		used := map[string]bool{}
		for j, n := 0, 1+rng.Intn(4); j < n; j++ {
			st.Ins = append(st.Ins, gParam{Type: types[rng.Intn(len(types))], Name: uniq(used, names[rng.Intn(len(names))])})
		}
		usedO := map[string]bool{}
		for j, n := 0, 1+rng.Intn(3); j < n; j++ {
			st.Outs = append(st.Outs, gParam{Type: types[rng.Intn(len(types))], Name: uniq(usedO, names[rng.Intn(len(names))])})
		}
		if rng.Intn(2) == 0 {
			st.Outs = append(st.Outs, gParam{Type: "bool", Name: uniq(usedO, "flag")})
		}
		st.Split = rng.Intn(3) == 0
		if st.Split && rng.Intn(2) == 0 {
			st.ChunkIns = []gParam{{Type: "int", Name: "chunk_ix"}}
		}
		if rng.Intn(3) == 0 {
			st.MemGB = 1 + rng.Intn(8)
		}
		p.Decls = append(p.Decls, gDecl{Stage: st})
	}
	// every generated stage has a twin with the same parameters but the opposite split flag
	// (a different callee whose call sites look the same)
	for i := 0; i < nst; i++ {
		st := p.Decls[i].Stage
		alt := &gStage{Name: st.Name + "_ALT", Lang: st.Lang, Src: st.Src + "_alt", Split: !st.Split,
			Ins: append([]gParam{}, st.Ins...), Outs: append([]gParam{}, st.Outs...)}
		p.Decls = append(p.Decls, gDecl{Stage: alt})
	}
	// stages for wildcard bindings: `* = MAKE_A` / `* = MAKE_B` / `* = self` feed CONSUME.wa / CONSUME.wb
	for _, n := range []string{"MAKE_A", "MAKE_B"} {
		p.Decls = append(p.Decls, gDecl{Stage: &gStage{Name: n, Lang: "comp", Src: "bin/" + strings.ToLower(n),
			Ins: []gParam{{Type: "int", Name: "x"}}, Outs: []gParam{{Type: "int", Name: "wa"}, {Type: "int", Name: "wb"}}}})
	}
	p.Decls = append(p.Decls, gDecl{Stage: &gStage{Name: "CONSUME", Lang: "comp", Src: "bin/consume",
		Ins:  []gParam{{Type: "int", Name: "x"}, {Type: "int", Name: "wa"}, {Type: "int", Name: "wb"}},
		Outs: []gParam{{Type: "int", Name: "r"}}}})
	// a stage without outputs, usable as preflight
	pre := &gStage{Name: "PRE_CHECK", Lang: "comp", Src: "bin/pre", Ins: []gParam{{Type: "int", Name: "limit"}, {Type: "string", Name: "label"}}}
	p.Decls = append(p.Decls, gDecl{Stage: pre})
	// a stage consuming and producing booleans, so that pipelines have several candidate disabling conditions
	flags := &gStage{Name: "FLAGS", Lang: "comp", Src: "bin/flags", Ins: []gParam{{Type: "bool", Name: "f1"}, {Type: "bool", Name: "f2"}},
		Outs: []gParam{{Type: "bool", Name: "ok"}}}
	p.Decls = append(p.Decls, gDecl{Stage: flags})
	npipe := 1 + rng.Intn(3)
	for pi := 0; pi < npipe; pi++ {
		pipe := &gPipe{Name: fmt.Sprintf("PIPE_%d", pi)}
		if pi == npipe-1 {
			pipe.Name = "TOP"
		}
		used := map[string]bool{}
		pipe.Ins = append(pipe.Ins, gParam{Type: "bool", Name: uniq(used, "skip")}, gParam{Type: "int[]", Name: uniq(used, "items")})
		if rng.Intn(4) != 0 {
			pipe.Ins = append(pipe.Ins, gParam{Type: "bool", Name: uniq(used, "gate")})
			pipe.Calls = append(pipe.Calls, gCall{Callee: "FLAGS", Binds: []gBind{{"f1", "self.skip"}, {"f2", "self.gate"}}})
		}
		for j, n := 0, 1+rng.Intn(4); j < n; j++ {
			pipe.Ins = append(pipe.Ins, gParam{Type: types[rng.Intn(len(types))], Name: uniq(used, names[rng.Intn(len(names))])})
		}
		ncalls := 1 + rng.Intn(3)
		usedIds := map[string]bool{}
		for ci := 0; ci < ncalls; ci++ {
			// callee: any earlier declaration except PRE_CHECK
			var cands []string
			for _, d := range p.Decls {
				if n := d.name(); n != "PRE_CHECK" && n != "FLAGS" && n != "MAKE_A" && n != "MAKE_B" && n != "CONSUME" &&
					!strings.HasSuffix(n, "_ALT") {
					cands = append(cands, d.name())
				}
			}
			callee := cands[rng.Intn(len(cands))]
			d := p.decl(callee)
			c := gCall{Callee: callee}
			if usedIds[callee] || rng.Intn(4) == 0 {
				c.Id = uniq(usedIds, callee+"_X")
			} else {
				usedIds[callee] = true
			}
			srcs := gSources(pipe, p, len(pipe.Calls))
			mapped := false
			for _, in := range d.ins() {
				var e string
				if in.Type == "int" && !mapped && d.Stage != nil && rng.Intn(5) == 0 {
					// map call over an int parameter
					mapped = true
					if rng.Intn(2) == 0 {
						e = "split self.items"
					} else {
						e = "split " + gLit(rng, p, "int[]", false)
						if e == "split []" {
							e = "split [1, 2]"
						}
					}
				} else if rng.Intn(6) == 0 {
					e = "null" // null is assignable to every type (lets a later edit change the type alone)
				} else if r, ok := gPick(rng, srcs, in.Type); ok && rng.Intn(3) != 0 {
					e = r
				} else {
					e = gLit(rng, p, in.Type, wide)
				}
				c.Binds = append(c.Binds, gBind{in.Name, e})
			}
			c.Map = mapped
			if d.Stage != nil {
				c.Local = rng.Intn(5) == 0
				c.Volatile = rng.Intn(5) == 0
			}
			if !mapped && d.Stage != nil && rng.Intn(2) == 0 {
				// (the call-graph builder rejects a condition that is itself the output of a
				// conditionally disabled call, so conditions come from never-disabled calls)
				if r, ok := gPick(rng, gDisableSources(pipe, p, len(pipe.Calls)), "bool"); ok {
					c.Disabled = r
				}
			}
			pipe.Calls = append(pipe.Calls, c)
			// a second call of the same stage, or of its twin, under an alias
			if d.Stage != nil && !mapped && rng.Intn(3) == 0 {
				c2 := gCall{Callee: callee}
				if rng.Intn(2) == 0 {
					c2.Callee = callee + "_ALT"
				}
				c2.Id = uniq(usedIds, callee+"_Y")
				srcs2 := gSources(pipe, p, len(pipe.Calls))
				for _, in := range d.ins() {
					if r, ok := gPick(rng, srcs2, in.Type); ok && rng.Intn(2) == 0 {
						c2.Binds = append(c2.Binds, gBind{in.Name, r})
					} else {
						c2.Binds = append(c2.Binds, gBind{in.Name, gLit(rng, p, in.Type, wide)})
					}
				}
				pos := len(pipe.Calls)
				if rng.Intn(2) == 0 {
					pos-- // before the first one: the calls only refer to earlier calls' outputs, so re-pick literals
					for k := range c2.Binds {
						if !strings.HasPrefix(c2.Binds[k].Exp, "self.") {
							c2.Binds[k].Exp = gLit(rng, p, d.ins()[k].Type, wide)
						}
					}
				}
				pipe.Calls = append(pipe.Calls[:pos:pos], append([]gCall{c2}, pipe.Calls[pos:]...)...)
			}
		}
		if rng.Intn(2) == 0 {
			// wildcard bindings
			useSelf := rng.Intn(2) == 0
			xa, xb := gLit(rng, p, "int", false), gLit(rng, p, "int", false)
			if useSelf {
				pipe.Ins = append(pipe.Ins, gParam{Type: "int", Name: uniq(used, "wa")}, gParam{Type: "int", Name: uniq(used, "wb")})
				xa, xb = "self.wa", "self.wb"
			}
			wild := []string{"MAKE_A", "MAKE_B"}[rng.Intn(2)]
			if useSelf && rng.Intn(2) == 0 {
				wild = "self"
			}
			pipe.Calls = append(pipe.Calls,
				gCall{Callee: "MAKE_A", Binds: []gBind{{"x", xa}}},
				gCall{Callee: "MAKE_B", Binds: []gBind{{"x", xb}}},
				gCall{Callee: "CONSUME", Binds: []gBind{{"x", gLit(rng, p, "int", false)}}, Wild: wild})
		}
		if rng.Intn(2) == 0 {
			c := gCall{Callee: "PRE_CHECK", Preflight: rng.Intn(2) == 0, Local: rng.Intn(3) == 0,
				Binds: []gBind{{"limit", gLit(rng, p, "int", false)}, {"label", gLit(rng, p, "string", false)}}}
			pipe.Calls = append([]gCall{c}, pipe.Calls...)
		}
		// outputs
		srcs := gSources(pipe, p, len(pipe.Calls))
		usedO := map[string]bool{}
		rng.Shuffle(len(srcs), func(i, j int) { srcs[i], srcs[j] = srcs[j], srcs[i] })
		nout := 1 + rng.Intn(3)
		for _, s := range srcs {
			if len(pipe.Outs) >= nout {
				break
			}
			if strings.HasPrefix(s.Exp, "self.") && rng.Intn(3) != 0 {
				continue
			}
			n := uniq(usedO, "o_"+s.Exp[strings.Index(s.Exp, ".")+1:])
			op := gParam{Type: s.Type, Name: n}
			if (s.Type == "txt" || s.Type == "json" || s.Type == "bam") && rng.Intn(2) == 0 {
				op.OutName = n + "_file." + s.Type
			}
			pipe.Outs = append(pipe.Outs, op)
			pipe.Ret = append(pipe.Ret, gBind{n, s.Exp})
		}
		if len(pipe.Outs) == 0 {
			pipe.Outs = append(pipe.Outs, gParam{Type: "int", Name: "o_count"})
			pipe.Ret = append(pipe.Ret, gBind{"o_count", gLit(rng, p, "int", false)})
		}
		// the compiler rejects unused pipeline inputs: drop them
		usedIn := map[string]bool{}
		mark := func(e string) {
			e = strings.TrimPrefix(e, "split ")
			if strings.HasPrefix(e, "self.") {
				usedIn[strings.TrimPrefix(e, "self.")] = true
			}
		}
		for _, c := range pipe.Calls {
			for _, b := range c.Binds {
				mark(b.Exp)
			}
			mark(c.Disabled)
		}
		for _, b := range pipe.Ret {
			mark(b.Exp)
		}
		var kept []gParam
		for _, in := range pipe.Ins {
			if usedIn[in.Name] {
				kept = append(kept, in)
			}
		}
		pipe.Ins = kept
		p.Decls = append(p.Decls, gDecl{Pipe: pipe})
	}
	top := p.Decls[len(p.Decls)-1].Pipe
	p.Top = gCall{Callee: top.Name}
	for _, in := range top.Ins {
		p.Top.Binds = append(p.Top.Binds, gBind{in.Name, gLit(rng, p, in.Type, wide)})
	}
	return p
}

// ---- rendering ----

func gRenderParam(sb *strings.Builder, st int, mode string, pr gParam) {
	switch st {
	case 0:
		fmt.Fprintf(sb, "    %-3s %s %s", mode, pr.Type, pr.Name)
	case 1:
		fmt.Fprintf(sb, "  %s   %s\t%s", mode, pr.Type, pr.Name)
	default:
		fmt.Fprintf(sb, "\t%s %s %s", mode, pr.Type, pr.Name)
	}
	if pr.OutName != "" {
		fmt.Fprintf(sb, " %q %q", pr.Help, pr.OutName)
	} else if pr.Help != "" {
		fmt.Fprintf(sb, " %q", pr.Help)
	}
	sb.WriteString(",\n")
}

func gRenderCall(sb *strings.Builder, st int, comments bool, c *gCall, ind string) {
	if comments {
		fmt.Fprintf(sb, "%s# invoke %s\n", ind, c.Callee)
	}
	sb.WriteString(ind)
	if c.Map {
		sb.WriteString("map ")
	}
	sb.WriteString("call ")
	if c.Local {
		sb.WriteString("local ")
	}
	if c.Preflight {
		sb.WriteString("preflight ")
	}
	if c.Volatile {
		sb.WriteString("volatile ")
	}
	sb.WriteString(c.Callee)
	if c.Id != "" {
		sb.WriteString(" as " + c.Id)
	}
	sb.WriteString("(\n")
	for _, b := range c.Binds {
		switch st {
		case 0:
			fmt.Fprintf(sb, "%s    %s = %s,\n", ind, b.Id, b.Exp)
		case 1:
			fmt.Fprintf(sb, "%s  %s    =   %s,\n", ind, b.Id, b.Exp)
		default:
			if comments {
				fmt.Fprintf(sb, "%s\t# bind %s\n", ind, b.Id)
			}
			fmt.Fprintf(sb, "%s\t%s=%s,\n\n", ind, b.Id, b.Exp)
		}
	}
	if c.Wild != "" {
		fmt.Fprintf(sb, "%s    * = %s,\n", ind, c.Wild)
	}
	sb.WriteString(ind + ")")
	if c.Disabled != "" {
		fmt.Fprintf(sb, " using (\n%s    disabled = %s,\n%s)", ind, c.Disabled, ind)
	}
	sb.WriteString("\n")
}

func gRenderDecl(p *gProg, d *gDecl) string {
	var sb strings.Builder
	st := p.Style
	if p.Comments {
		fmt.Fprintf(&sb, "# declaration of %s\n# (second comment line)\n", d.name())
	}
	if s := d.Stage; s != nil {
		fmt.Fprintf(&sb, "stage %s(\n", s.Name)
		for _, pr := range s.Ins {
			if p.Comments && len(pr.Name)%2 == 0 {
				fmt.Fprintf(&sb, "    # input %s\n", pr.Name)
			}
			gRenderParam(&sb, st, "in", pr)
		}
		for _, pr := range s.Outs {
			gRenderParam(&sb, st, "out", pr)
		}
		fmt.Fprintf(&sb, "    src %s %q,\n)", s.Lang, s.Src)
		if s.Split {
			sb.WriteString(" split (\n")
			for _, pr := range s.ChunkIns {
				gRenderParam(&sb, st, "in", pr)
			}
			for _, pr := range s.ChunkOuts {
				gRenderParam(&sb, st, "out", pr)
			}
			sb.WriteString(")")
		}
		if s.MemGB > 0 {
			fmt.Fprintf(&sb, " using (\n    mem_gb = %d,\n)", s.MemGB)
		}
		if len(s.Retain) > 0 {
			sb.WriteString(" retain (\n")
			for _, r := range s.Retain {
				fmt.Fprintf(&sb, "    %s,\n", r)
			}
			sb.WriteString(")")
		}
		sb.WriteString("\n")
	} else {
		pp := d.Pipe
		fmt.Fprintf(&sb, "pipeline %s(\n", pp.Name)
		for _, pr := range pp.Ins {
			gRenderParam(&sb, st, "in", pr)
		}
		for _, pr := range pp.Outs {
			gRenderParam(&sb, st, "out", pr)
		}
		sb.WriteString(")\n{\n")
		for i := range pp.Calls {
			gRenderCall(&sb, st, p.Comments, &pp.Calls[i], "    ")
			if st != 1 {
				sb.WriteString("\n")
			}
		}
		sb.WriteString("    return (\n")
		for _, b := range pp.Ret {
			fmt.Fprintf(&sb, "        %s = %s,\n", b.Id, b.Exp)
		}
		sb.WriteString("    )\n")
		if len(pp.Retain) > 0 {
			sb.WriteString("\n    retain (\n")
			for _, x := range pp.Retain {
				fmt.Fprintf(&sb, "        %s,\n", x)
			}
			sb.WriteString("    )\n")
		}
		sb.WriteString("}\n")
	}
	if st == 2 {
		sb.WriteString("\n\n")
	}
	return sb.String()
}

// gRender returns the files of the library (name -> content; entry point
// "lib.mro") and the invocation text (which includes lib.mro).
func gRender(p *gProg) (files map[string]string, invocation string) {
	files = map[string]string{}
	var ft strings.Builder
	if p.Comments {
		ft.WriteString("# file types\n")
	}
	for _, f := range p.Filetypes {
		fmt.Fprintf(&ft, "filetype %s;\n", f)
	}
	ft.WriteString("\n")
	for _, st := range p.Structs {
		fmt.Fprintf(&ft, "struct %s(\n", st.Name)
		for _, f := range st.Fields {
			fmt.Fprintf(&ft, "    %s %s,\n", f.Type, f.Name)
		}
		ft.WriteString(")\n\n")
	}
	switch p.Layout {
	case 0:
		var sb strings.Builder
		sb.WriteString(ft.String())
		for i := range p.Decls {
			sb.WriteString(gRenderDecl(p, &p.Decls[i]))
			sb.WriteString("\n")
		}
		files["lib.mro"] = sb.String()
	case 1:
		files["types.mro"] = ft.String()
		var ss, ps strings.Builder
		ss.WriteString("@include \"types.mro\"\n\n")
		ps.WriteString("@include \"types.mro\"\n@include \"stages.mro\"\n\n")
		for i := range p.Decls {
			if p.Decls[i].Stage != nil {
				ss.WriteString(gRenderDecl(p, &p.Decls[i]) + "\n")
			} else {
				ps.WriteString(gRenderDecl(p, &p.Decls[i]) + "\n")
			}
		}
		files["stages.mro"] = ss.String()
		files["lib.mro"] = ps.String()
	default:
		files["sub/types.mro"] = ft.String()
		var lib strings.Builder
		var prev []string
		last := len(p.Decls) - 1
		for i := 0; i < last; i++ {
			fn := fmt.Sprintf("sub/d%02d_%s.mro", i, strings.ToLower(p.Decls[i].name()))
			var sb strings.Builder
			sb.WriteString("@include \"sub/types.mro\"\n")
			for _, pf := range prev {
				fmt.Fprintf(&sb, "@include %q\n", pf)
			}
			sb.WriteString("\n" + gRenderDecl(p, &p.Decls[i]))
			files[fn] = sb.String()
			prev = append(prev, fn)
		}
		// include in reverse order: include structure is not declaration order
		for i := len(prev) - 1; i >= 0; i-- {
			fmt.Fprintf(&lib, "@include %q\n", prev[i])
		}
		// (a file consisting of nothing but includes is a parse error) the top pipeline stays here
		lib.WriteString("\n" + gRenderDecl(p, &p.Decls[last]))
		files["lib.mro"] = lib.String()
	}
	var inv strings.Builder
	inv.WriteString("@include \"lib.mro\"\n\n")
	gRenderCall(&inv, 0, false, &p.Top, "")
	return files, inv.String()
}

func gSortedKeys(m map[string]string) []string {
	ks := make([]string, 0, len(m))
	for k := range m {
		ks = append(ks, k)
	}
	sort.Strings(ks)
	return ks
}
