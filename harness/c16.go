package main

// C16 — MRO call text and invocation JSON convert into each other without loss.
//
// Real code exercised: core.InvocationData.BuildCallSource / BuildCallAst,
// core.InvocationDataFromSource / BuildDataForAst, core.BuildCallSource with
// structured (resolver-shaped) arguments, convertToExp + fixExpressionTypes
// (through the verif hook), the MRO lexer/parser/formatter and MarshalJSON.
// Model: lean/Martian/Invocation.lean through the driver (ops C16.binding,
// C16.encode, C16.wt, C16.fltint).

import (
	"bytes"
	"encoding/json"
	"fmt"
	"math"
	"math/big"
	"os"
	"path/filepath"
	"sort"
	"strconv"
	"strings"
	"unicode/utf8"

	"github.com/martian-lang/martian/martian/core"
	"github.com/martian-lang/martian/martian/syntax"
)

func init() { register("C16", runC16) }

// ---------------------------------------------------------------- types

type c16Ty struct {
	Base   string
	AD, MD int
}

func (t c16Ty) String() string {
	if t.MD > 0 {
		return "map<" + t.Base + strings.Repeat("[]", t.MD-1) + ">" + strings.Repeat("[]", t.AD)
	}
	return t.Base + strings.Repeat("[]", t.AD)
}

type c16Field struct {
	Name string
	Ty   c16Ty
}

type c16Struct struct {
	Name   string
	Fields []c16Field
}

type c16Sig struct {
	Dir      string
	Structs  []c16Struct
	Params   []c16Field
	Decl     string
	Callable string
	// the same declarations in pieces, for the multi-file scenarios
	TypesText, StageText, PipeText string
}

var c16Scalars = []string{"int", "float", "string", "bool", "path", "file", "txt"}

func (s *c16Sig) structByName(n string) *c16Struct {
	for i := range s.Structs {
		if s.Structs[i].Name == n {
			return &s.Structs[i]
		}
	}
	return nil
}

func c16GenTy(c *Ctx, structs []c16Struct) c16Ty {
	var t c16Ty
	switch k := c.Rng.Intn(10); {
	case k < 5 || (len(structs) == 0 && k < 9):
		t.Base = c16Scalars[c.Rng.Intn(len(c16Scalars))]
	case k < 9:
		t.Base = structs[c.Rng.Intn(len(structs))].Name
	default:
		t.Base = "map"
	}
	switch k := c.Rng.Intn(20); {
	case k < 11:
	case k < 16:
		t.AD = 1
	case k < 19:
		t.AD = 2
	default:
		t.AD = 3
	}
	if t.Base != "map" && c.Rng.Intn(4) == 0 {
		t.MD = 1 + []int{0, 0, 0, 1, 1, 2}[c.Rng.Intn(6)]
		if t.AD > 1 {
			t.AD = 1
		}
	}
	return t
}

var c16FieldNames = []string{"a", "b", "name", "inner", "m", "grid", "f0", "f1", "x_y", "_p", "threads", "special", "Q9"}

func c16GenSig(c *Ctx, idx int) *c16Sig {
	s := &c16Sig{Callable: "ST"}
	ns := c.Rng.Intn(4)
	for i := 0; i < ns; i++ {
		st := c16Struct{Name: fmt.Sprintf("S%d", i)}
		nf := 1 + c.Rng.Intn(4)
		perm := c.Rng.Perm(len(c16FieldNames))
		for j := 0; j < nf; j++ {
			st.Fields = append(st.Fields, c16Field{c16FieldNames[perm[j]], c16GenTy(c, s.Structs)})
		}
		s.Structs = append(s.Structs, st)
	}
	np := 1 + c.Rng.Intn(6)
	for i := 0; i < np; i++ {
		s.Params = append(s.Params, c16Field{fmt.Sprintf("p%d", i), c16GenTy(c, s.Structs)})
	}
	var sb strings.Builder
	sb.WriteString("filetype txt;\n\n")
	for _, st := range s.Structs {
		fmt.Fprintf(&sb, "struct %s(\n", st.Name)
		for _, f := range st.Fields {
			fmt.Fprintf(&sb, "    %s %s,\n", f.Ty, f.Name)
		}
		sb.WriteString(")\n\n")
	}
	s.TypesText = sb.String()
	var st strings.Builder
	st.WriteString("stage ST(\n")
	for _, p := range s.Params {
		fmt.Fprintf(&st, "    in  %s %s,\n", p.Ty, p.Name)
	}
	st.WriteString("    out int o,\n    src comp \"x\",\n)\n")
	s.StageText = st.String()
	sb.WriteString(s.StageText)
	var pl strings.Builder
	pl.WriteString("pipeline PL(\n")
	for _, p := range s.Params {
		fmt.Fprintf(&pl, "    in  %s %s,\n", p.Ty, p.Name)
	}
	pl.WriteString("    out int o,\n)\n{\n    call ST(\n")
	for _, p := range s.Params {
		fmt.Fprintf(&pl, "        %s = self.%s,\n", p.Name, p.Name)
	}
	pl.WriteString("    )\n\n    return (\n        o = ST.o,\n    )\n}\n")
	s.PipeText = pl.String()
	if c.Rng.Intn(4) == 0 {
		// a pipeline with the same signature wrapping the stage
		s.Callable = "PL"
		sb.WriteString("\n" + s.PipeText)
	}
	s.Decl = sb.String()
	s.Dir = filepath.Join(c.Scratch, fmt.Sprintf("sig%d", idx))
	return s
}

func (s *c16Sig) write() error {
	if err := os.MkdirAll(s.Dir, 0o755); err != nil {
		return err
	}
	return os.WriteFile(filepath.Join(s.Dir, "decl.mro"), []byte(s.Decl), 0o644)
}

// ---------------------------------------------------------------- values

type c16Val struct {
	K      byte // n b i f s a o
	B      bool
	Num    string // JSON spelling of a number
	S      string // decoded string
	SJ     string // JSON spelling (with quotes)
	SM     string // MRO spelling (with quotes); may use MRO-only escapes
	A      []*c16Val
	Keys   []string
	KeysJ  []string
	KeysM  []string
	Vals   []*c16Val
	Struct bool
}

type c16Gen struct {
	c      *Ctx
	sig    *c16Sig
	hazard string
	feats  map[string]bool
}

func (g *c16Gen) feat(f string) { g.feats[f] = true }

var c16Runes = []rune{'a', 'b', 'Z', '0', ' ', '/', '\'', '`', '$', '{', '}', '[', ',', ':', '#', '@',
	'"', '\\', '\b', '\f', '\n', '\r', '\t', 0, 1, 0x1f, 0x7f, 'é', 'ß', 0x3b1, 0x65e5, 0x672c, 0x2028, 0x2029,
	0xfffd, 0xffff, 0x1F600, 0x10000, 0x10FFFF, 0x1D11E}

func (g *c16Gen) genRunes(max int) []rune {
	n := g.c.Rng.Intn(max + 1)
	out := make([]rune, 0, n)
	for i := 0; i < n; i++ {
		switch g.c.Rng.Intn(4) {
		case 0:
			out = append(out, rune('a'+g.c.Rng.Intn(26)))
		case 1, 2:
			out = append(out, c16Runes[g.c.Rng.Intn(len(c16Runes))])
		default:
			r := rune(g.c.Rng.Intn(0x11000))
			if g.c.Rng.Intn(3) == 0 {
				r = rune(0x10000 + g.c.Rng.Intn(0x100000))
			}
			if r >= 0xD800 && r <= 0xDFFF {
				r = 0xE000
			}
			out = append(out, r)
		}
	}
	return out
}

// spell renders a decoded string as a JSON string literal using every escape
// form JSON allows, chosen at random; `\/` and surrogate-pair escapes only
// when the case's hazard asks for them.
func (g *c16Gen) spellJSON(rs []rune) string {
	var sb strings.Builder
	sb.WriteByte('"')
	hexf := func(v rune) string {
		if g.c.Rng.Intn(2) == 0 {
			return fmt.Sprintf("\\u%04x", v)
		}
		return fmt.Sprintf("\\u%04X", v)
	}
	for _, r := range rs {
		must := r < 0x20 || r == '"' || r == '\\'
		choice := g.c.Rng.Intn(4)
		switch {
		case r == '/' && g.hazard == "solidus-escape":
			sb.WriteString(`\/`)
			g.feat("solidus-escape")
		case r >= 0x10000 && g.hazard == "surrogate-escape":
			r -= 0x10000
			sb.WriteString(hexf(0xD800 + (r >> 10)))
			sb.WriteString(hexf(0xDC00 + (r & 0x3ff)))
			g.feat("surrogate-escape")
		case r >= 0x10000:
			sb.WriteRune(r)
		case (must || choice == 0) && strings.ContainsRune("\"\\\b\f\n\r\t", r) && g.c.Rng.Intn(3) != 0:
			sb.WriteByte('\\')
			sb.WriteByte("\"\\bfnrt"[strings.IndexRune("\"\\\b\f\n\r\t", r)])
		case must || choice == 0:
			sb.WriteString(hexf(r))
		default:
			sb.WriteRune(r)
		}
	}
	sb.WriteByte('"')
	return sb.String()
}

// spellMRO: like spellJSON plus the escapes only the MRO lexer knows.
func (g *c16Gen) spellMRO(rs []rune) string {
	var sb strings.Builder
	sb.WriteByte('"')
	for _, r := range rs {
		must := r < 0x20 || r == '"' || r == '\\'
		choice := g.c.Rng.Intn(6)
		switch {
		case r >= 0x10000 && choice == 0:
			fmt.Fprintf(&sb, "\\U%08x", r)
		case r >= 0x10000:
			sb.WriteRune(r)
		case r < 0x80 && choice == 1:
			fmt.Fprintf(&sb, "\\x%02x", r)
		case r < 0x80 && choice == 2:
			fmt.Fprintf(&sb, "\\%03o", r)
		case (must || choice == 0) && strings.ContainsRune("\"\\\b\f\n\r\t\a\v", r):
			sb.WriteByte('\\')
			sb.WriteByte("\"\\bfnrtav"[strings.IndexRune("\"\\\b\f\n\r\t\a\v", r)])
		case must || choice == 0:
			fmt.Fprintf(&sb, "\\u%04x", r)
		default:
			sb.WriteRune(r)
		}
	}
	sb.WriteByte('"')
	return sb.String()
}

func (g *c16Gen) genString(max int) *c16Val {
	rs := g.genRunes(max)
	return &c16Val{K: 's', S: string(rs), SJ: g.spellJSON(rs), SM: g.spellMRO(rs)}
}

var c16EdgeInts = []string{"0", "-0", "1", "-1", "9007199254740991", "9007199254740992", "9007199254740993",
	"-9007199254740993", "9223372036854775807", "-9223372036854775808", "9223372036854775806",
	"1000000", "999999", "-1000000", "4294967296", "1234567890123456789"}

func (g *c16Gen) genInt() *c16Val {
	switch g.c.Rng.Intn(4) {
	case 0:
		return &c16Val{K: 'i', Num: c16EdgeInts[g.c.Rng.Intn(len(c16EdgeInts))]}
	case 1:
		return &c16Val{K: 'i', Num: strconv.FormatInt(int64(g.c.Rng.Uint64()), 10)}
	default:
		return &c16Val{K: 'i', Num: strconv.Itoa(g.c.Rng.Intn(2000) - 1000)}
	}
}

var c16EdgeFloats = []string{"1.0", "-0.0", "0.0", "1e5", "1E5", "1e+5", "100000.0", "999999.0", "1000000.0", "1e6",
	"1.5", "-2.5e-3", "1e21", "1E+21", "1e-7", "5e-324", "1.7976931348623157e308", "2.2250738585072014E-308",
	"0.1", "0.30000000000000004", "123456.789", "1234567.0", "9007199254740993.0", "1e22", "3.14159e0",
	"0.000001", "0.0001", "0.00001", "12345678901234567890.0", "9223372036854775808.0", "-9223372036854775808.0",
	"4611686018427387904.0", "1e18", "1e19", "9223372036854774784.0", "1234567.0", "1e6", "-1.0e0", "4.0E-2", "0.1000000000000000055511151231257827"}

func (g *c16Gen) genFloat() *c16Val {
	switch g.c.Rng.Intn(5) {
	case 0, 1:
		return &c16Val{K: 'f', Num: c16EdgeFloats[g.c.Rng.Intn(len(c16EdgeFloats))]}
	case 2:
		// an integer spelled as an integer in a float position
		return g.genInt()
	default:
		f := math.Float64frombits(g.c.Rng.Uint64())
		for math.IsInf(f, 0) || math.IsNaN(f) {
			f = math.Float64frombits(g.c.Rng.Uint64())
		}
		if g.c.Rng.Intn(2) == 0 {
			f = float64(g.c.Rng.Intn(2000000)-1000000) / []float64{1, 10, 1000, 0.001}[g.c.Rng.Intn(4)]
		}
		fm := []byte{'g', 'e', 'E', 'f'}[g.c.Rng.Intn(4)]
		if fm == 'f' && (math.Abs(f) > 1e30 || (f != 0 && math.Abs(f) < 1e-30)) {
			fm = 'e'
		}
		s := strconv.FormatFloat(f, fm, -1, 64)
		if !strings.ContainsAny(s, ".eE") {
			s += ".0"
		}
		return &c16Val{K: 'f', Num: s}
	}
}

var c16Keys = []string{"a", "k", "split", "a b", "a-b", "in", "", "0", "é", "x/y", "q\"uote", "new\nline", "fork_1", "😀"}

// genKeys: n distinct keys; fileSafe restricts them to legal file names
// (the compiler requires that of the keys of maps of file-like types).
func (g *c16Gen) genKeys(n int, fileSafe bool) []string {
	seen := map[string]bool{}
	var ks []string
	for len(ks) < n {
		var k string
		if g.c.Rng.Intn(3) == 0 {
			k = string(g.genRunes(4))
		} else {
			k = c16Keys[g.c.Rng.Intn(len(c16Keys))]
		}
		if fileSafe && (syntax.IsLegalUnixFilename(k) != nil) {
			continue
		}
		if !seen[k] {
			seen[k] = true
			ks = append(ks, k)
		}
	}
	return ks
}

func (g *c16Gen) obj(keys []string, vals []*c16Val, isStruct bool) *c16Val {
	v := &c16Val{K: 'o', Keys: keys, Vals: vals, Struct: isStruct}
	for _, k := range keys {
		rs := []rune(k)
		if isStruct {
			v.KeysJ = append(v.KeysJ, `"`+k+`"`)
			v.KeysM = append(v.KeysM, k)
		} else {
			v.KeysJ = append(v.KeysJ, g.spellJSON(rs))
			v.KeysM = append(v.KeysM, g.spellMRO(rs))
		}
	}
	return v
}

func (g *c16Gen) genAny(depth int) *c16Val {
	k := g.c.Rng.Intn(9)
	if depth <= 0 && k >= 6 {
		k = g.c.Rng.Intn(6)
	}
	switch k {
	case 0:
		return &c16Val{K: 'n'}
	case 1:
		return &c16Val{K: 'b', B: g.c.Rng.Intn(2) == 0}
	case 2:
		return g.genInt()
	case 3:
		return g.genFloat()
	case 4, 5:
		return g.genString(6)
	case 6, 7:
		n := g.c.Rng.Intn(4)
		v := &c16Val{K: 'a', A: []*c16Val{}}
		for i := 0; i < n; i++ {
			v.A = append(v.A, g.genAny(depth-1))
		}
		return v
	default:
		keys := g.genKeys(g.c.Rng.Intn(4), false)
		vals := make([]*c16Val, len(keys))
		for i := range keys {
			vals[i] = g.genAny(depth - 1)
		}
		return g.obj(keys, vals, false)
	}
}

// genTyped: a value valid at TypeId t.  forceLen >= 0 fixes the length of
// the outermost collection (and forbids null there); forceKeys likewise.
func (g *c16Gen) genTyped(t c16Ty, nullable bool, forceLen int, forceKeys []string) *c16Val {
	if nullable && g.c.Rng.Intn(8) == 0 {
		return &c16Val{K: 'n'}
	}
	if t.AD > 0 {
		n := g.c.Rng.Intn(4)
		if forceLen >= 0 {
			n = forceLen
		}
		v := &c16Val{K: 'a', A: []*c16Val{}}
		et := c16Ty{t.Base, t.AD - 1, t.MD}
		for i := 0; i < n; i++ {
			v.A = append(v.A, g.genTyped(et, true, -1, nil))
		}
		return v
	}
	if t.MD > 0 {
		keys := forceKeys
		if keys == nil {
			plain := t.Base == "int" || t.Base == "float" || t.Base == "string" || t.Base == "bool"
			keys = g.genKeys(g.c.Rng.Intn(4), !plain)
		}
		et := c16Ty{t.Base, t.MD - 1, 0}
		vals := make([]*c16Val, len(keys))
		for i := range keys {
			vals[i] = g.genTyped(et, true, -1, nil)
		}
		return g.obj(keys, vals, false)
	}
	switch t.Base {
	case "int":
		return g.genInt()
	case "float":
		return g.genFloat()
	case "bool":
		return &c16Val{K: 'b', B: g.c.Rng.Intn(2) == 0}
	case "string", "path", "file", "txt":
		return g.genString(8)
	case "map":
		keys := g.genKeys(g.c.Rng.Intn(4), false)
		vals := make([]*c16Val, len(keys))
		for i := range keys {
			vals[i] = g.genAny(2)
		}
		return g.obj(keys, vals, false)
	}
	st := g.sig.structByName(t.Base)
	keys := make([]string, len(st.Fields))
	vals := make([]*c16Val, len(st.Fields))
	for i, f := range st.Fields {
		keys[i] = f.Name
		vals[i] = g.genTyped(f.Ty, true, -1, nil)
	}
	return g.obj(keys, vals, true)
}

func (v *c16Val) json(sb *strings.Builder) {
	switch v.K {
	case 'n':
		sb.WriteString("null")
	case 'b':
		sb.WriteString(strconv.FormatBool(v.B))
	case 'i', 'f':
		sb.WriteString(v.Num)
	case 's':
		sb.WriteString(v.SJ)
	case 'a':
		sb.WriteByte('[')
		for i, e := range v.A {
			if i > 0 {
				sb.WriteString(", ")
			}
			e.json(sb)
		}
		sb.WriteByte(']')
	case 'o':
		sb.WriteByte('{')
		for i, e := range v.Vals {
			if i > 0 {
				sb.WriteByte(',')
			}
			sb.WriteString(v.KeysJ[i])
			sb.WriteString(": ")
			e.json(sb)
		}
		sb.WriteByte('}')
	}
}

func (v *c16Val) JSON() string {
	var sb strings.Builder
	v.json(&sb)
	return sb.String()
}

// mro renders the value as hand-written MRO text: struct literals with bare
// member names, trailing commas and line breaks at random.
func (v *c16Val) mro(c *Ctx, sb *strings.Builder) {
	sep := func() string {
		if c.Rng.Intn(3) == 0 {
			return "\n        "
		}
		return " "
	}
	switch v.K {
	case 's':
		sb.WriteString(v.SM)
	case 'a':
		sb.WriteByte('[')
		for i, e := range v.A {
			if i > 0 {
				sb.WriteString("," + sep())
			}
			e.mro(c, sb)
		}
		if len(v.A) > 0 && c.Rng.Intn(2) == 0 {
			sb.WriteByte(',')
		}
		sb.WriteByte(']')
	case 'o':
		sb.WriteByte('{')
		for i, e := range v.Vals {
			if i > 0 {
				sb.WriteString("," + sep())
			}
			sb.WriteString(v.KeysM[i])
			sb.WriteString(": ")
			e.mro(c, sb)
		}
		if len(v.Vals) > 0 && c.Rng.Intn(2) == 0 {
			sb.WriteByte(',')
		}
		sb.WriteByte('}')
	default:
		v.json(sb)
	}
}

func (v *c16Val) depth() int {
	d := 0
	for _, e := range v.A {
		if x := e.depth(); x > d {
			d = x
		}
	}
	for _, e := range v.Vals {
		if x := e.depth(); x > d {
			d = x
		}
	}
	if v.K == 'a' || v.K == 'o' {
		return d + 1
	}
	return 0
}

// ---------------------------------------------------------------- canonical trees

// c16FltTok: the exact value of a finite float64 as ± m·2^e with m odd
// (m = 0, e = 0 for ±0) — the model's Flt.
func c16FltTok(f float64) string {
	if math.IsInf(f, 0) || math.IsNaN(f) {
		return "dNaN"
	}
	neg := "0"
	if math.Signbit(f) {
		neg = "1"
	}
	bits := math.Float64bits(f)
	frac := bits & (1<<52 - 1)
	bexp := int((bits >> 52) & 0x7ff)
	var m uint64
	var e int
	if bexp == 0 {
		m, e = frac, -1074
	} else {
		m, e = frac|1<<52, bexp-1075
	}
	if m == 0 {
		return "d" + neg + ":0:0"
	}
	for m&1 == 0 {
		m >>= 1
		e++
	}
	return "d" + neg + ":" + strconv.FormatUint(m, 10) + ":" + strconv.Itoa(e)
}

// c16JSONAsInt restates (independently of the code under test) which floats
// the invocation JSON carries as integers: integral and within int64; the
// exact integer is returned.  The sign of zero is not represented.
func c16JSONAsInt(f float64) (string, bool) {
	if f != math.Trunc(f) || f < -9223372036854775808.0 || f >= 9223372036854775808.0 {
		return "", false
	}
	n, _ := new(big.Float).SetFloat64(f).Int(nil)
	return n.String(), true
}

func c16Canon(v interface{}, norm bool, sb *strings.Builder) {
	switch v := v.(type) {
	case nil:
		sb.WriteString("n ")
	case bool:
		if v {
			sb.WriteString("T ")
		} else {
			sb.WriteString("F ")
		}
	case json.Number:
		s := string(v)
		if !strings.ContainsAny(s, ".eE") {
			n, _ := new(big.Int).SetString(s, 10)
			sb.WriteString("i" + n.String() + " ")
			return
		}
		f, err := strconv.ParseFloat(s, 64)
		if err != nil {
			sb.WriteString("dNaN ")
			return
		}
		if norm {
			if is, ok := c16JSONAsInt(f); ok {
				sb.WriteString("i" + is + " ")
				return
			}
		}
		sb.WriteString(c16FltTok(f) + " ")
	case string:
		sb.WriteString("s" + hx(v) + " ")
	case []interface{}:
		sb.WriteString("[ ")
		for _, e := range v {
			c16Canon(e, norm, sb)
		}
		sb.WriteString("] ")
	case map[string]interface{}:
		keys := make([]string, 0, len(v))
		for k := range v {
			keys = append(keys, k)
		}
		sort.Strings(keys)
		sb.WriteString("{ ")
		for _, k := range keys {
			sb.WriteString("k" + hx(k) + " ")
			c16Canon(v[k], norm, sb)
		}
		sb.WriteString("} ")
	}
}

// c16CanonText parses JSON text into the token form shared with the driver.
func c16CanonText(text []byte, norm bool) (string, error) {
	dec := json.NewDecoder(bytes.NewReader(text))
	dec.UseNumber()
	var v interface{}
	if err := dec.Decode(&v); err != nil {
		return "", err
	}
	var sb strings.Builder
	c16Canon(v, norm, &sb)
	return strings.TrimSpace(sb.String()), nil
}

// c16ExpTok serialises a real expression tree.
func c16ExpTok(e syntax.Exp, sb *strings.Builder) {
	switch e := e.(type) {
	case nil:
		sb.WriteString("n ")
	case *syntax.NullExp:
		sb.WriteString("n ")
	case *syntax.BoolExp:
		if e.Value {
			sb.WriteString("T ")
		} else {
			sb.WriteString("F ")
		}
	case *syntax.IntExp:
		sb.WriteString("i" + strconv.FormatInt(e.Value, 10) + " ")
	case *syntax.FloatExp:
		sb.WriteString(c16FltTok(e.Value) + " ")
	case *syntax.StringExp:
		sb.WriteString("s" + hx(e.Value) + " ")
	case *syntax.ArrayExp:
		sb.WriteString("[ ")
		for _, x := range e.Value {
			c16ExpTok(x, sb)
		}
		sb.WriteString("] ")
	case *syntax.MapExp:
		if e.Kind == syntax.KindStruct {
			sb.WriteString("{s ")
		} else {
			sb.WriteString("{m ")
		}
		keys := make([]string, 0, len(e.Value))
		for k := range e.Value {
			keys = append(keys, k)
		}
		sort.Strings(keys)
		for _, k := range keys {
			sb.WriteString("k" + hx(k) + " ")
			c16ExpTok(e.Value[k], sb)
		}
		sb.WriteString("} ")
	case *syntax.SplitExp:
		sb.WriteString("SPLIT ")
		c16ExpTok(e.Value, sb)
	default:
		fmt.Fprintf(sb, "?%T ", e)
	}
}

func c16ArgTok(e syntax.Exp) string {
	var sb strings.Builder
	if s, ok := e.(*syntax.SplitExp); ok {
		sb.WriteString("S ")
		c16ExpTok(s.Value, &sb)
	} else {
		sb.WriteString("P ")
		c16ExpTok(e, &sb)
	}
	return strings.TrimSpace(sb.String())
}

// c16TyTok: the TypeId as the lookup the real code uses resolves it.
func c16TyTok(lookup *syntax.TypeLookup, tid syntax.TypeId, depth int) string {
	var base string
	var t syntax.Type
	if lookup != nil {
		t = lookup.Get(syntax.TypeId{Tname: tid.Tname})
	}
	switch t := t.(type) {
	case nil:
		base = "x"
	case *syntax.StructType:
		var sb strings.Builder
		sb.WriteString("( ")
		if depth < 12 {
			for _, m := range t.Members {
				sb.WriteString("f" + hx(m.Id) + " " + c16TyTok(lookup, m.Tname, depth+1) + " ")
			}
		}
		sb.WriteString(")")
		base = sb.String()
	case *syntax.BuiltinType:
		if t.Id == syntax.KindMap {
			base = "u"
		} else {
			base = "c"
		}
	default:
		base = "c"
	}
	return fmt.Sprintf("t%d:%d %s", tid.ArrayDim, tid.MapDim, base)
}

// ---------------------------------------------------------------- one case

type c16Case struct {
	Sig       *c16Sig
	Decl      string
	MroPaths  []string
	InvJSON   string // invocation data as JSON text (direction A input)
	Src       string // hand-written call text (direction B input), may be ""
	Feats     []string
	Expect    map[string]string // param -> canonical (normalised) tokens of the given value
	ExpSplit  []string
	Nontriv   bool
	FromCorps bool
}

func c16Recover(f func()) (panicked interface{}) {
	defer func() {
		if r := recover(); r != nil {
			panicked = r
		}
	}()
	f()
	return nil
}

func (k *c16Case) key(stage string) string {
	if len(k.Feats) > 0 {
		return "C16:" + strings.Join(k.Feats, "+") + ":" + stage
	}
	return "C16:" + stage
}

func (k *c16Case) input() map[string]interface{} {
	m := map[string]interface{}{"decl.mro": k.Decl, "features": k.Feats}
	if k.InvJSON != "" {
		m["invocation_json"] = k.InvJSON
	}
	if k.Src != "" {
		m["call_mro"] = k.Src
	}
	return m
}

// c16DataString renders invocation data for a report without relying on its MarshalJSON (an argument
// that is not valid JSON makes json.Marshal of the whole report fail).
func c16DataString(d *core.InvocationData) string {
	if d == nil {
		return "<nil>"
	}
	if b, err := json.Marshal(d); err == nil {
		return string(b)
	}
	var sb strings.Builder
	fmt.Fprintf(&sb, "call=%q mro_file=%q splitargs=%q args:", d.Call, d.Include, d.SplitArgs)
	keys := make([]string, 0, len(d.Args))
	for k := range d.Args {
		keys = append(keys, k)
	}
	sort.Strings(keys)
	for _, k := range keys {
		fmt.Fprintf(&sb, " %s=%q", k, string(d.Args[k]))
	}
	return sb.String()
}

func c16SortedCopy(xs []string) []string {
	o := append([]string{}, xs...)
	sort.Strings(o)
	return o
}

// compareData checks regenerated invocation data against expectations.
// expect: param -> canonical tokens ("n" for parameters that were not given);
// only parameters in `params` are required/allowed.
func c16CompareData(d *core.InvocationData, call string, params []string, expect map[string]string,
	expSplit []string, include string) string {
	if d == nil {
		return "no invocation data"
	}
	if d.Call != call {
		return fmt.Sprintf("call name %q, expected %q", d.Call, call)
	}
	if include != "" && d.Include != include {
		return fmt.Sprintf("include %q, expected %q", d.Include, include)
	}
	if got, want := c16SortedCopy(d.SplitArgs), c16SortedCopy(expSplit); strings.Join(got, ",") != strings.Join(want, ",") {
		return fmt.Sprintf("splitargs %v, expected %v", got, want)
	}
	for _, p := range params {
		raw, ok := d.Args[p]
		if !ok {
			return fmt.Sprintf("argument %s missing from regenerated data", p)
		}
		got, err := c16CanonText(raw, false)
		if err != nil {
			return fmt.Sprintf("argument %s: regenerated JSON does not parse: %v", p, err)
		}
		want, ok := expect[p]
		if !ok {
			want = "n"
		}
		if got != want {
			return fmt.Sprintf("argument %s changed: got %s want %s", p, got, want)
		}
	}
	if len(d.Args) != len(params) {
		return fmt.Sprintf("regenerated data has %d args, callable has %d params", len(d.Args), len(params))
	}
	return ""
}

type c16Runner struct {
	c *Ctx
	r *Result
	// batched model requests
	reqs  [][]string
	after []func(reply string)
}

func (x *c16Runner) ask(req []string, f func(string)) {
	x.reqs = append(x.reqs, req)
	x.after = append(x.after, f)
}

func (x *c16Runner) flush() {
	if len(x.reqs) == 0 {
		return
	}
	reps := x.c.Drv.AskBatch(x.reqs)
	for i, rep := range reps {
		x.after[i](rep)
	}
	x.reqs, x.after = nil, nil
}

// directionA: invocation JSON -> call text -> invocation JSON (+ fixed point,
// compile check, model correspondence per binding).
func (x *c16Runner) directionA(k *c16Case) {
	r := x.r
	var inv core.InvocationData
	if err := json.Unmarshal([]byte(k.InvJSON), &inv); err != nil {
		r.note("harness: invocation JSON does not decode: %v: %s", err, k.InvJSON)
		return
	}
	// the callable / lookup exactly as InvocationData.BuildCallAst selects them
	var callable syntax.Callable
	var lookup *syntax.TypeLookup
	var cerr error
	if inv.Include != "" {
		callable, lookup, cerr = core.GetCallableFrom(inv.Call, inv.Include, k.MroPaths)
	} else {
		callable, lookup, cerr = core.GetCallable(k.MroPaths, inv.Call, false)
	}
	if cerr != nil || callable == nil {
		r.violate(Violation{Kind: "property", Key: k.key("callable-lookup"),
			What: fmt.Sprintf("declared callable not found: %v", cerr), Input: k.input()})
		return
	}
	var params []string
	for _, p := range callable.GetInParams().List {
		params = append(params, p.GetId())
	}
	isSplit := map[string]bool{}
	for _, s := range inv.SplitArgs {
		isSplit[s] = true
	}

	// ---- model correspondence, binding by binding ----
	allPrintable := true
	modelOK := true
	for _, p := range callable.GetInParams().List {
		id := p.GetId()
		raw, ok := inv.Args[id]
		if !ok || raw == nil {
			continue
		}
		split := isSplit[id]
		x.jsonTree(k, id, raw)
		jt, err := c16CanonText(raw, false)
		if split {
			jt, err = c16CanonTopOrdered(raw)
		}
		if err != nil {
			continue
		}
		tt := c16TyTok(lookup, p.GetTname(), 0)
		var real syntax.ValExp
		var rerr error
		pan := c16Recover(func() {
			real, rerr = core.VerifConvertToExp(split, raw, p.GetTname(), lookup)
		})
		realTok, realJ := "none", ""
		if pan != nil {
			realTok = "panic"
		} else if rerr == nil && real != nil {
			var e syntax.Exp = real
			if _, isS := real.(*syntax.SplitExp); split && !isS {
				e = &syntax.SplitExp{Value: real} // what BuildCallAst does
			}
			realTok = c16ArgTok(e)
			if b, err := e.(json.Marshaler).MarshalJSON(); err == nil {
				realJ, _ = c16CanonText(b, false)
			}
			x.textLegExp(k, id, e)
		}
		sflag := "0"
		if split {
			sflag = "1"
		}
		kk, rawS, idS := k, string(raw), id
		// direct monitor: the converted expression marshals to the input value
		if realTok != "none" && realTok != "panic" {
			want := ""
			if !split {
				want, _ = c16CanonText(raw, true)
			} else {
				var w struct {
					Split json.RawMessage `json:"split"`
				}
				if json.Unmarshal(raw, &w) == nil && w.Split != nil {
					if inner, err := c16CanonText(w.Split, true); err == nil {
						want = "{ k" + hx("split") + " " + inner + " }"
					}
				}
			}
			if want != "" && realJ != want {
				r.violate(Violation{Kind: "property", Key: kk.key("convert-changes-value"),
					What:  "convertToExp yields an expression whose JSON differs from the argument it was given",
					Input: map[string]interface{}{"param": idS, "type": tt, "split": split, "json": rawS},
					Impl:  realJ, Expect: want})
				continue
			}
		}
		if !split {
			hazardInt := false
			for _, f := range k.Feats {
				hazardInt = hazardInt || strings.HasPrefix(f, "int-")
			}
			x.ask([]string{"C16.jwt", tt, jt}, func(rep string) {
				r.hist("A_model_jwt_" + strings.ReplaceAll(rep, " ", "_"))
				// type-directed generated values have the shape of their parameter's type: the hypothesis
				// of convert_wt must hold on them, and then the conversion is well-typed
				if !hazardInt && !k.FromCorps && rep != "true true true" {
					r.violate(Violation{Kind: "correspondence", Key: kk.key("A-hypothesis-jwt"),
						What:  "the typing hypothesis of convert_wt (jWt, jIntsOk) or its conclusion (wt of the conversion) is false on a type-directed generated argument: " + rep,
						Input: map[string]interface{}{"param": idS, "type": tt, "json": rawS}, Broken: "convert_wt"})
				}
			})
		}
		x.ask([]string{"C16.binding", sflag, tt, jt}, func(rep string) {
			parts := strings.Split(rep, " | ")
			model := parts[0]
			if model != "none" {
				model = strings.TrimPrefix(model, "some ")
			}
			if len(parts) == 3 && parts[2] == "false" {
				allPrintable = false
			}
			if model == "none" {
				modelOK = false
			}
			if realTok == "panic" {
				return // reported by the call-level monitor below
			}
			if model != realTok {
				r.violate(Violation{Kind: "correspondence", Key: kk.key("convert-model-mismatch"),
					What:  "convertToExp(+BuildCallAst split wrapping) differs from the Lean model's buildBinding",
					Input: map[string]interface{}{"param": idS, "type": tt, "split": split, "json": rawS, "case": kk.input()},
					Impl:  realTok, Model: model,
					Broken: "correspondence C16.binding (Martian.Invocation.buildBinding)"})
				return
			}
			if len(parts) == 3 && model != "none" {
				mj := strings.SplitN(parts[1], " ", 2)
				if len(mj) == 2 && mj[1] != realJ {
					r.violate(Violation{Kind: "correspondence", Key: kk.key("encode-model-mismatch"),
						What:  "MarshalJSON of the converted expression differs from the Lean model's encodeArg",
						Input: map[string]interface{}{"param": idS, "type": tt, "split": split, "json": rawS},
						Impl:  realJ, Model: mj[1],
						Broken: "correspondence C16.binding (Martian.Invocation.encodeArg)"})
				}
			}
		})
	}
	x.flush()

	// ---- the property on the real code ----
	var src string
	var err error
	if pan := c16Recover(func() { src, err = inv.BuildCallSource(k.MroPaths) }); pan != nil {
		r.violate(Violation{Kind: "property", Key: k.key("build-panic"),
			What: fmt.Sprintf("BuildCallSource panics: %v", pan), Input: k.input()})
		return
	}
	if err != nil {
		if !modelOK {
			r.hist("A_rejected_as_model_predicts")
			return // e.g. integer literal too large: an error is the expected outcome
		}
		r.violate(Violation{Kind: "property", Key: k.key("build-error"),
			What: "BuildCallSource rejects valid invocation data: " + err.Error(), Input: k.input()})
		return
	}
	var d2 *core.InvocationData
	if pan := c16Recover(func() { d2, err = core.InvocationDataFromSource([]byte(src), k.MroPaths) }); pan != nil {
		r.violate(Violation{Kind: "property", Key: k.key("reparse-panic"),
			What:  fmt.Sprintf("InvocationDataFromSource panics on generated source: %v", pan),
			Input: k.input(), Impl: src})
		return
	}
	if err != nil {
		if allPrintable {
			r.hist("A_unparsable_not_predicted")
		}
		r.violate(Violation{Kind: "property", Key: k.key("generated-source-does-not-parse"),
			What:  "the MRO text produced from the invocation data does not parse back: " + err.Error(),
			Input: k.input(), Impl: src})
		return
	}
	x.textLegCall(k, &inv, src)
	if !allPrintable {
		r.violate(Violation{Kind: "correspondence", Key: k.key("printable-model-mismatch"),
			What:  "model says a split binding is not expressible in MRO text, yet the generated source parsed",
			Input: k.input(), Impl: src, Broken: "correspondence Arg.printable"})
	}
	expSplit := []string{}
	for _, s := range inv.SplitArgs {
		if _, ok := inv.Args[s]; ok {
			expSplit = append(expSplit, s)
		}
	}
	expect := k.Expect
	if expect == nil {
		expect = map[string]string{}
		for id, raw := range inv.Args {
			if t, err := c16CanonText(raw, true); err == nil {
				expect[id] = t
			}
		}
	}
	if msg := c16CompareData(d2, inv.Call, params, expect, expSplit, inv.Include); msg != "" {
		b, _ := json.Marshal(d2)
		r.violate(Violation{Kind: "property", Key: k.key("json-roundtrip"),
			What:  "invocation JSON -> MRO -> invocation JSON is not the identity: " + msg,
			Input: k.input(), Impl: map[string]string{"source": src, "data": string(b)}})
		return
	}
	// fixed point (theorem roundtrip_stable): data' -> source' -> data'' gives
	// data'' = data' and regenerating text once more gives the same text.  (The
	// first text may differ from source' only where a float was normalised to
	// an integer: `-0` vs `0`.)  Same conditions: the regenerated data names
	// the include file it found, the input may not have.
	if inv.Include == "" {
		d2.Include = ""
	}
	var src2, src3 string
	var d3 *core.InvocationData
	if pan := c16Recover(func() {
		if src2, err = d2.BuildCallSource(k.MroPaths); err != nil {
			return
		}
		if d3, err = core.InvocationDataFromSource([]byte(src2), k.MroPaths); err != nil {
			return
		}
		if inv.Include == "" {
			d3.Include = ""
		}
		src3, err = d3.BuildCallSource(k.MroPaths)
	}); pan != nil || err != nil {
		r.violate(Violation{Kind: "property", Key: k.key("second-build"),
			What:  fmt.Sprintf("regenerated invocation data cannot be turned into source and back again: %v %v", pan, err),
			Input: k.input(), Impl: src})
		return
	}
	if msg := c16CompareData(d3, inv.Call, params, expect, expSplit, inv.Include); msg != "" {
		r.violate(Violation{Kind: "property", Key: k.key("second-roundtrip"),
			What: "data' -> source' -> data'' differs from data': " + msg, Input: k.input(), Impl: src2})
		return
	}
	if src3 != src2 {
		r.violate(Violation{Kind: "property", Key: k.key("source-fixpoint"),
			What: "source' -> data'' -> source'' is not the identity", Input: k.input(),
			Impl: src3, Expect: src2})
	}
	// the generated call compiles (values are valid at the declared types)
	if !k.FromCorps && inv.Include != "" {
		var cerr error
		pan := c16Recover(func() {
			_, _, _, cerr = syntax.ParseSourceBytes([]byte(src), "call.mro", k.MroPaths, false)
		})
		if pan != nil || cerr != nil {
			r.violate(Violation{Kind: "property", Key: k.key("generated-call-does-not-compile"),
				What: fmt.Sprintf("the generated call does not compile: %v %v", pan, cerr), Input: k.input(), Impl: src})
		}
	}
}

// directionB: hand-written call text -> data -> text' -> data'.
func (x *c16Runner) directionB(k *c16Case, params []c16Field, bound map[string]*c16Val) {
	r := x.r
	var d1 *core.InvocationData
	var err error
	if pan := c16Recover(func() { d1, err = core.InvocationDataFromSource([]byte(k.Src), k.MroPaths) }); pan != nil || err != nil {
		r.violate(Violation{Kind: "property", Key: k.key("B-parse"),
			What: fmt.Sprintf("valid call text rejected: %v %v", pan, err), Input: k.input()})
		return
	}
	var pnames []string
	for _, p := range params {
		if _, ok := bound[p.Name]; ok {
			pnames = append(pnames, p.Name)
		}
	}
	if msg := c16CompareData(d1, k.Sig.Callable, pnames, k.Expect, k.ExpSplit, "decl.mro"); msg != "" {
		b, _ := json.Marshal(d1)
		r.violate(Violation{Kind: "property", Key: k.key("B-text-to-json"),
			What: "MRO call text -> invocation JSON loses information: " + msg, Input: k.input(), Impl: string(b)})
		return
	}
	compiles := false
	c16Recover(func() {
		_, _, _, cerr := syntax.ParseSourceBytes([]byte(k.Src), "call.mro", k.MroPaths, false)
		compiles = cerr == nil
	})
	if compiles {
		r.hist("B_call_compiles")
	} else {
		r.hist("B_call_does_not_compile")
	}
	// model: encode on the expression the real parser built (struct flags included)
	if ast, perr := new(syntax.Parser).UncheckedParseIncludes([]byte(k.Src), "", k.MroPaths); perr == nil && ast.Call != nil {
		_, lookup, _ := core.GetCallableFrom(k.Sig.Callable, "decl.mro", k.MroPaths)
		callable, _, _ := core.GetCallableFrom(k.Sig.Callable, "decl.mro", k.MroPaths)
		for _, b := range ast.Call.Bindings.List {
			e := b.Exp
			if s, ok := e.(*syntax.SplitExp); ok {
				e = s.Value
			}
			var sb strings.Builder
			c16ExpTok(e, &sb)
			et := strings.TrimSpace(sb.String())
			mj, merr := e.(json.Marshaler).MarshalJSON()
			if merr != nil {
				continue
			}
			realJ, _ := c16CanonText(mj, false)
			kk, id := k, b.Id
			x.ask([]string{"C16.encode", et}, func(rep string) {
				if rep != realJ {
					r.violate(Violation{Kind: "correspondence", Key: kk.key("B-encode-model-mismatch"),
						What:  "MarshalJSON of a parsed expression differs from the Lean model's encode",
						Input: map[string]interface{}{"param": id, "exp": et, "case": kk.input()},
						Impl:  realJ, Model: rep, Broken: "correspondence C16.encode (Martian.Invocation.encode)"})
				}
			})
			// the hypothesis of convert_encode_partial / binding_roundtrip_partial (wt at the parameter's type for a plain
			// binding, splitOperandOk for a split one) must HOLD on every binding of a call the real
			// compiler accepts: otherwise the theorem does not cover an input the runs cover
			if callable != nil && compiles {
				for _, p := range callable.GetInParams().List {
					if p.GetId() != b.Id {
						continue
					}
					tt := c16TyTok(lookup, p.GetTname(), 0)
					at := c16ArgTok(b.Exp)
					pid := b.Id
					x.ask([]string{"C16.bindok", tt, at}, func(rep string) {
						r.hist("B_model_bindok_" + strings.ReplaceAll(rep, " ", "_"))
						if rep != "true true" {
							r.violate(Violation{Kind: "correspondence", Key: kk.key("B-hypothesis-wt"),
								What:   "the typing hypothesis of binding_roundtrip_partial (wt / splitOperandOk, intsOk) is false on a binding of a call the real compiler accepts: " + rep,
								Input:  map[string]interface{}{"param": pid, "type": tt, "binding": at, "case": kk.input()},
								Broken: "binding_roundtrip_partial / convert_encode_partial (hypothesis wt / splitOperandOk)"})
						}
					})
				}
			}
		}
		x.flush()
	}
	var src1 string
	if pan := c16Recover(func() { src1, err = d1.BuildCallSource(k.MroPaths) }); pan != nil || err != nil {
		r.violate(Violation{Kind: "property", Key: k.key("B-build"),
			What:  fmt.Sprintf("data obtained from valid call text cannot be turned back into text: %v %v", pan, err),
			Input: k.input()})
		return
	}
	var d2 *core.InvocationData
	if pan := c16Recover(func() { d2, err = core.InvocationDataFromSource([]byte(src1), k.MroPaths) }); pan != nil || err != nil {
		r.violate(Violation{Kind: "property", Key: k.key("B-regenerated-source-does-not-parse"),
			What: fmt.Sprintf("text -> data -> text' : text' does not parse: %v %v", pan, err), Input: k.input(), Impl: src1})
		return
	}
	var all []string
	for _, p := range params {
		all = append(all, p.Name)
	}
	if msg := c16CompareData(d2, k.Sig.Callable, all, k.Expect, k.ExpSplit, "decl.mro"); msg != "" {
		b, _ := json.Marshal(d2)
		r.violate(Violation{Kind: "property", Key: k.key("B-roundtrip"),
			What: "text -> data -> text' -> data' differs from the original call: " + msg, Input: k.input(),
			Impl: map[string]string{"source'": src1, "data'": string(b)}})
	}
}

// ---------------------------------------------------------------- case generation

var c16Hazards = []string{"", "", "", "", "", "", "", "", "surrogate-escape", "solidus-escape", "split-empty",
	"split-null", "int-2^63", "int-20-digits"}

func c16IsIdent(s string) bool {
	if s == "" {
		return false
	}
	for i, r := range s {
		if !(r == '_' || r >= 'a' && r <= 'z' || r >= 'A' && r <= 'Z' || (i > 0 && r >= '0' && r <= '9')) {
			return false
		}
	}
	switch s {
	case "in", "out", "map", "int", "self", "call", "true", "false", "null", "as", "bool", "float", "string",
		"path", "file", "py", "src", "stage", "pipeline", "return", "default", "mem_gb", "memgb":
		return false
	}
	return true
}

func (x *c16Runner) genCase(sig *c16Sig) (*c16Case, map[string]*c16Val) {
	c := x.c
	g := &c16Gen{c: c, sig: sig, feats: map[string]bool{}}
	g.hazard = c16Hazards[c.Rng.Intn(len(c16Hazards))]
	k := &c16Case{Sig: sig, Decl: sig.Decl, MroPaths: []string{sig.Dir}, Expect: map[string]string{}}
	withInclude := c.Rng.Intn(4) != 0
	// which params are given, which are split
	splitMode := c.Rng.Intn(3) // 0 none, 1 arrays, 2 maps
	n := 1 + c.Rng.Intn(3)
	keys := g.genKeys(n, true)
	bound := map[string]*c16Val{}
	var args, splits []string
	for _, p := range sig.Params {
		if c.Rng.Intn(6) == 0 {
			continue // not given
		}
		var v *c16Val
		split := false
		if splitMode == 1 && c.Rng.Intn(2) == 0 {
			split = true
			v = g.genTyped(c16Ty{p.Ty.Base, p.Ty.AD + 1, p.Ty.MD}, false, n, nil)
		} else if splitMode == 2 && p.Ty.MD == 0 && c.Rng.Intn(2) == 0 {
			split = true
			v = g.genTyped(c16Ty{p.Ty.Base, 0, p.Ty.AD + 1}, false, -1, keys)
			if sig.structByName(p.Ty.Base) != nil {
				x.r.hist("case_split_map_over_struct_param")
			}
		} else if splitMode == 2 && p.Ty.MD > 0 && c.Rng.Intn(2) == 0 {
			// a typed-map (or array-of-typed-map) parameter split over a map:
			// a map of maps, for which there is no type id (finding C16-N7)
			split = true
			vals := make([]*c16Val, len(keys))
			for i := range keys {
				vals[i] = g.genTyped(p.Ty, true, -1, nil)
			}
			v = g.obj(keys, vals, false)
			x.r.hist("case_split_map_over_typed_map_param")
			if sig.structByName(p.Ty.Base) != nil {
				x.r.hist("case_split_map_over_typed_map_of_struct_param")
			}
		} else {
			v = g.genTyped(p.Ty, true, -1, nil)
		}
		if split && g.hazard == "split-empty" {
			if v.K == 'a' {
				v.A = []*c16Val{}
			} else {
				v.Keys, v.KeysJ, v.KeysM, v.Vals = nil, nil, nil, nil
			}
			g.feat("split-empty")
		}
		if split && g.hazard == "split-null" {
			v = &c16Val{K: 'n'}
			g.feat("split-null")
		}
		if !split && p.Ty.Base == "int" && p.Ty.AD == 0 && p.Ty.MD == 0 && v.K == 'i' {
			if g.hazard == "int-2^63" {
				v.Num = []string{"9223372036854775808", "9999999999999999999", "-9223372036854775809"}[c.Rng.Intn(3)]
				g.feat("int-2^63")
			} else if g.hazard == "int-20-digits" {
				v.Num = "12345678901234567890"
				g.feat("int-20-digits")
			}
		}
		if !withInclude && p.Ty.Base == "map" && p.Ty.AD == 0 && p.Ty.MD == 0 && v.K == 'o' {
			for _, key := range v.Keys {
				if !c16IsIdent(key) {
					x.r.hist("case_no_include_untyped_map_nonident_key")
					break
				}
			}
		}
		bound[p.Name] = v
		js := v.JSON()
		written := ""
		if split {
			inner := js
			js = `{"split": ` + inner + `}`
			splits = append(splits, p.Name)
			// the key is matched the way encoding/json matches a struct field: case-folded
			// (incl. U+017F), and of several matching members the LAST one wins
			switch c.Rng.Intn(12) {
			case 0:
				written = `{"` + []string{"Split", "SPLIT", "sPlIt", "ſplit", "\u0073plit"}[c.Rng.Intn(5)] + `": ` + inner + `}`
				x.r.hist("case_split_key_folded")
			case 1:
				written = `{"split": ` + []string{"null", "[]", "3", `{"x": 1}`}[c.Rng.Intn(4)] + `, "` +
					[]string{"split", "Split", "SPLIT"}[c.Rng.Intn(3)] + `": ` + inner + `, "other": 1}`
				x.r.hist("case_split_key_duplicated")
			}
		}
		if written == "" {
			written = js
		}
		args = append(args, fmt.Sprintf("%q: %s", p.Name, written))
		if t, err := c16CanonText([]byte(js), true); err == nil {
			k.Expect[p.Name] = t
		} else {
			x.r.note("harness: generated JSON does not parse: %v: %s", err, js)
		}
		if v.depth() >= 2 || split || len(v.SJ) > len(v.S)+2 {
			k.Nontriv = true
		}
	}
	k.ExpSplit = splits
	var sb strings.Builder
	fmt.Fprintf(&sb, `{"call": %q, "args": {%s}`, sig.Callable, strings.Join(args, ", "))
	if withInclude {
		sb.WriteString(`, "mro_file": "decl.mro"`)
	}
	if len(splits) > 0 {
		perm := c.Rng.Perm(len(splits))
		q := make([]string, len(splits))
		for i, j := range perm {
			q[i] = strconv.Quote(splits[j])
		}
		fmt.Fprintf(&sb, `, "splitargs": [%s]`, strings.Join(q, ","))
	}
	sb.WriteString("}")
	k.InvJSON = sb.String()
	for f := range g.feats {
		k.Feats = append(k.Feats, f)
	}
	sort.Strings(k.Feats)

	// direction B text (only for hazard-free cases: hazards are JSON-side notions)
	if len(k.Feats) == 0 {
		var mb strings.Builder
		mb.WriteString("@include \"decl.mro\"\n\n")
		if len(splits) > 0 {
			mb.WriteString("map ")
		}
		fmt.Fprintf(&mb, "call %s(\n", sig.Callable)
		isSplit := map[string]bool{}
		for _, s := range splits {
			isSplit[s] = true
		}
		for _, p := range sig.Params {
			v, ok := bound[p.Name]
			if !ok {
				continue
			}
			fmt.Fprintf(&mb, "    %s = ", p.Name)
			if isSplit[p.Name] {
				mb.WriteString("split ")
			}
			v.mro(c, &mb)
			mb.WriteString(",\n")
		}
		mb.WriteString(")\n")
		k.Src = mb.String()
	}
	return k, bound
}

// ---------------------------------------------------------------- structured (resolver-shaped) arguments

// c16Structured turns a value tree into the dynamic types the runtime's
// argument resolver hands to BuildCallSource from Fork.writeInvocation.
func c16Structured(c *Ctx, v *c16Val, top bool) json.Marshaler {
	raw := func() json.Marshaler { return json.RawMessage(v.JSON()) }
	if !top && c.Rng.Intn(3) == 0 {
		return raw()
	}
	switch v.K {
	case 'a':
		elems := make([]json.Marshaler, len(v.A))
		for i, e := range v.A {
			elems[i] = c16Structured(c, e, false)
		}
		return core.VerifMarshalerArray(elems)
	case 'o':
		if c.Rng.Intn(2) == 0 {
			m := make(core.LazyArgumentMap, len(v.Keys))
			for i, k := range v.Keys {
				m[k] = json.RawMessage(v.Vals[i].JSON())
			}
			return m
		}
		m := make(core.MarshalerMap, len(v.Keys))
		for i, k := range v.Keys {
			m[k] = c16Structured(c, v.Vals[i], false)
		}
		return m
	case 'n':
		if c.Rng.Intn(2) == 0 {
			return nil
		}
		return raw()
	case 'b':
		if c.Rng.Intn(2) == 0 {
			return &syntax.BoolExp{Value: v.B}
		}
	case 'i':
		if n, err := strconv.ParseInt(v.Num, 10, 64); err == nil && c.Rng.Intn(2) == 0 {
			return &syntax.IntExp{Value: n}
		}
	case 's':
		if c.Rng.Intn(2) == 0 {
			return &syntax.StringExp{Value: v.S}
		}
	}
	return raw()
}

func c16HasNestedCollectionInStruct(v *c16Val, inStruct bool) bool {
	if v.K == 'o' {
		if inStruct {
			return true
		}
		for _, e := range v.Vals {
			if c16HasNestedCollectionInStruct(e, v.Struct) {
				return true
			}
		}
	}
	if v.K == 'a' {
		for _, e := range v.A {
			if c16HasNestedCollectionInStruct(e, inStruct) {
				return true
			}
		}
	}
	return false
}

// negZero: does the sign of a floating-point zero survive?  (-0.0 and 0 are
// the same real number; every other comparison in this harness identifies
// them, this probe is the one place that looks at the sign.)
func (x *c16Runner) negZero() {
	r := x.r
	dir := filepath.Join(x.c.Scratch, "negzero")
	os.MkdirAll(dir, 0o755)
	decl := "stage ST(\n    in  float   f,\n    in  float[] fs,\n    out int     o,\n    src comp    \"x\",\n)\n"
	os.WriteFile(filepath.Join(dir, "decl.mro"), []byte(decl), 0o644)
	src := "@include \"decl.mro\"\n\ncall ST(\n    f  = -0.0,\n    fs = [-0.0],\n)\n"
	neg := func(raw json.RawMessage) bool {
		t := strings.Trim(string(raw), "[] \n")
		f, err := strconv.ParseFloat(t, 64)
		return err == nil && f == 0 && math.Signbit(f)
	}
	obs := map[string]string{}
	lost := false
	r.count("negzero", true)
	if pan := c16Recover(func() {
		d, err := core.InvocationDataFromSource([]byte(src), []string{dir})
		if err != nil {
			obs["text->json"] = "error: " + err.Error()
			return
		}
		obs["text->json"] = fmt.Sprintf("f=%s fs=%s", d.Args["f"], d.Args["fs"])
		if !neg(d.Args["f"]) || !neg(d.Args["fs"]) {
			lost = true
		}
		inv := core.InvocationData{Call: "ST", Include: "decl.mro",
			Args: core.LazyArgumentMap{"f": json.RawMessage("-0.0"), "fs": json.RawMessage("[-0.0]")}}
		s2, err := inv.BuildCallSource([]string{dir})
		if err != nil {
			obs["json->text"] = "error: " + err.Error()
			return
		}
		obs["json->text"] = s2
		d2, err := core.InvocationDataFromSource([]byte(s2), []string{dir})
		if err != nil {
			obs["json->text->json"] = "error: " + err.Error()
			return
		}
		obs["json->text->json"] = fmt.Sprintf("f=%s fs=%s", d2.Args["f"], d2.Args["fs"])
		if !neg(d2.Args["f"]) || !neg(d2.Args["fs"]) {
			lost = true
		}
	}); pan != nil {
		r.violate(Violation{Kind: "property", Key: "C16:negative-zero:panic", What: fmt.Sprint(pan), Input: src})
		return
	}
	if lost {
		r.violate(Violation{Kind: "property", Key: "C16:negative-zero",
			What:  "the float argument -0.0 comes back as 0: the sign of zero does not survive MRO text <-> invocation JSON",
			Input: map[string]interface{}{"decl.mro": decl, "call_mro": src, "invocation_args": `{"f": -0.0, "fs": [-0.0]}`},
			Impl:  obs, Expect: "-0.0 (or any JSON number that decodes to negative zero)"})
	}
}

// fixedF: the minimal shape of finding C16-N4 (struct literal with one member
// bound to a reference, resolved for a fork): run first on every run.
func (x *c16Runner) fixedF() {
	r := x.r
	dir := filepath.Join(x.c.Scratch, "fixedF")
	os.MkdirAll(dir, 0o755)
	decl := "struct S(\n    string     name,\n    map<int[]> m,\n    map        u,\n)\n\nstage ST(\n    in  S   s,\n    out int o,\n    src comp \"x\",\n)\n"
	os.WriteFile(filepath.Join(dir, "decl.mro"), []byte(decl), 0o644)
	_, _, ast, err := syntax.ParseSourceBytes([]byte(decl), "decl.mro", []string{dir}, false)
	if err != nil {
		r.note("harness: fixedF declaration: %v", err)
		return
	}
	args := core.MarshalerMap{"s": core.MarshalerMap{
		"name": &syntax.StringExp{Value: "n"},
		"m":    json.RawMessage(`{"a b": [1, 2]}`),
		"u":    core.LazyArgumentMap{"x-y": json.RawMessage(`{"z": 1}`)},
	}}
	in := map[string]interface{}{"decl.mro": decl, "resolved_args": `{"s": {"name": "n", "m": {"a b": [1,2]}, "u": {"x-y": {"z": 1}}}}`}
	var src string
	pan := c16Recover(func() {
		src, err = core.BuildCallSource("ST", args, nil, ast.Callables.Table["ST"], &ast.TypeTable, []string{dir})
	})
	r.count("fixedF", true)
	if pan != nil || err != nil {
		r.violate(Violation{Kind: "property", Key: "C16:fn-fork-invocation-build", What: fmt.Sprintf("%v %v", pan, err), Input: in})
		return
	}
	if _, _, _, cerr := syntax.ParseSourceBytes([]byte(src), "call.mro", []string{dir}, false); cerr != nil {
		r.violate(Violation{Kind: "property", Key: "C16:fn-fork-invocation-does-not-compile",
			What: "the per-fork invocation text does not compile: " + cerr.Error(), Input: in, Impl: src})
		return
	}
	d, derr := core.InvocationDataFromSource([]byte(src), []string{dir})
	want, _ := c16CanonText([]byte(`{"name": "n", "m": {"a b": [1,2]}, "u": {"x-y": {"z": 1}}}`), true)
	if derr != nil {
		r.violate(Violation{Kind: "property", Key: "C16:fn-fork-invocation-does-not-parse", What: derr.Error(), Input: in, Impl: src})
	} else if msg := c16CompareData(d, "ST", []string{"s"}, map[string]string{"s": want}, nil, ""); msg != "" {
		r.violate(Violation{Kind: "property", Key: "C16:fn-fork-invocation-args", What: msg, Input: in, Impl: src})
	}
}

// directionF: the pure core of Fork.writeInvocation — BuildCallSource on
// resolved arguments with the compiled callable and type table.
func (x *c16Runner) directionF(sig *c16Sig, ast *syntax.Ast) {
	c, r := x.c, x.r
	g := &c16Gen{c: c, sig: sig, feats: map[string]bool{}}
	callable := ast.Callables.Table["ST"]
	if callable == nil {
		return
	}
	args := core.MarshalerMap{}
	expect := map[string]string{}
	texts := map[string]string{}
	var params []string
	structured := false
	// shape of the top-level pipeline's fork of a top-level `map call`: the
	// split arguments arrive as *syntax.SplitExp VALUES (resolveSplit returns
	// the unresolved expression), and splitargs is empty.
	byValue := c.Rng.Intn(3) == 0
	splitMode := 1 + c.Rng.Intn(2) // 1 arrays, 2 maps
	nsplit := 1 + c.Rng.Intn(3)
	skeys := g.genKeys(nsplit, true)
	var expSplit []string
	var vparser syntax.Parser
	for _, p := range sig.Params {
		params = append(params, p.Name)
		if byValue && c.Rng.Intn(2) == 0 && (splitMode == 1 || p.Ty.MD == 0) {
			var v *c16Val
			if splitMode == 1 {
				v = g.genTyped(c16Ty{p.Ty.Base, p.Ty.AD + 1, p.Ty.MD}, false, nsplit, nil)
			} else {
				v = g.genTyped(c16Ty{p.Ty.Base, 0, p.Ty.AD + 1}, false, -1, skeys)
			}
			var mb strings.Builder
			v.mro(c, &mb)
			if exp, perr := vparser.ParseValExp([]byte(mb.String())); perr == nil {
				src, _ := exp.(syntax.MapCallSource)
				args[p.Name] = &syntax.SplitExp{Value: exp, Source: src}
				texts[p.Name] = "split " + v.JSON()
				inner, _ := c16CanonText([]byte(v.JSON()), true)
				expect[p.Name] = "{ k" + hx("split") + " " + inner + " }"
				expSplit = append(expSplit, p.Name)
				continue
			}
		}
		v := g.genTyped(p.Ty, true, -1, nil)
		m := c16Structured(c, v, true)
		if _, isRaw := m.(json.RawMessage); !isRaw && m != nil && c16HasNestedCollectionInStruct(v, false) {
			structured = true
		}
		args[p.Name] = m
		texts[p.Name] = v.JSON()
		expect[p.Name], _ = c16CanonText([]byte(v.JSON()), true)
	}
	k := &c16Case{Sig: sig, Decl: sig.Decl, MroPaths: []string{sig.Dir}}
	if structured {
		r.hist("F_struct_member_collection_in_structured_args")
	}
	in := map[string]interface{}{"decl.mro": sig.Decl, "resolved_args": texts,
		"note": "arguments handed over as MarshalerMap / LazyArgumentMap / marshallerArray / ValExp / RawMessage trees"}
	var src string
	var err error
	if pan := c16Recover(func() {
		src, err = core.BuildCallSource("ST", args, nil, callable, &ast.TypeTable, []string{sig.Dir})
	}); pan != nil || err != nil {
		r.violate(Violation{Kind: "property", Key: k.key("fn-fork-invocation-build"),
			What: fmt.Sprintf("BuildCallSource on resolved fork arguments fails: %v %v", pan, err), Input: in})
		return
	}
	r.count("F:"+src, true)
	var cerr error
	pan := c16Recover(func() {
		_, _, _, cerr = syntax.ParseSourceBytes([]byte(src), "call.mro", []string{sig.Dir}, false)
	})
	if pan != nil || cerr != nil {
		r.violate(Violation{Kind: "property", Key: k.key("fn-fork-invocation-does-not-compile"),
			What: fmt.Sprintf("the per-fork invocation text does not compile: %v %v", pan, cerr), Input: in, Impl: src})
		return
	}
	d, derr := core.InvocationDataFromSource([]byte(src), []string{sig.Dir})
	if derr != nil {
		r.violate(Violation{Kind: "property", Key: k.key("fn-fork-invocation-does-not-parse"),
			What: "per-fork invocation text does not parse: " + derr.Error(), Input: in, Impl: src})
		return
	}
	if len(expSplit) > 0 {
		r.hist("F_split_by_value_not_in_splitargs")
	}
	if msg := c16CompareData(d, "ST", params, expect, expSplit, ""); msg != "" {
		r.violate(Violation{Kind: "property", Key: k.key("fn-fork-invocation-args"),
			What: "per-fork invocation does not carry the resolved arguments: " + msg, Input: in, Impl: src})
	}
}

// ---------------------------------------------------------------- several files

// multiFile: the declarations live in several files (types <- stage <- pipeline,
// plus an unrelated file); the call text names 1-3 includes in every order and
// calls something defined in the 1st / 2nd / 3rd / a transitively included
// file.  text -> data -> text' -> data': call, args, splitargs survive, the
// include of the data makes the regenerated text compile to a call of the same
// callable, and the second round is a fixed point.
func (x *c16Runner) multiFile(sig *c16Sig) {
	c, r := x.c, x.r
	dir := sig.Dir + "_mf"
	os.MkdirAll(dir, 0o755)
	defer os.RemoveAll(dir)
	// private (underscore) and public names, as in real MROPATHs
	tname, sname := "_types.mro", "_stages.mro"
	if c.Rng.Intn(2) == 0 {
		tname, sname = "types.mro", "lib/stages.mro"
		os.MkdirAll(filepath.Join(dir, "lib"), 0o755)
	}
	files := map[string]string{
		tname:          sig.TypesText,
		sname:          "@include \"" + tname + "\"\n\n" + sig.StageText,
		"pipeline.mro": "@include \"" + sname + "\"\n\n" + sig.PipeText,
		"extra.mro":    "stage OTHER(\n    in  int q,\n    out int o,\n    src comp \"y\",\n)\n",
	}
	for n, t := range files {
		os.WriteFile(filepath.Join(dir, n), []byte(t), 0o644)
	}
	mroPaths := []string{dir}
	// a hazard-free case for the argument text
	var k *c16Case
	for i := 0; i < 20 && (k == nil || k.Src == ""); i++ {
		k, _ = x.genCase(sig)
	}
	if k == nil || k.Src == "" {
		return
	}
	body := k.Src[strings.Index(k.Src, "\n\n")+2:] // `[map ]call <Callable>(...)`
	type scen struct {
		name     string
		includes []string
		callable string
	}
	scens := []scen{
		{"first-defines", []string{"pipeline.mro"}, "PL"},
		{"transitive", []string{"pipeline.mro"}, "ST"},
		{"second-defines", []string{"extra.mro", "pipeline.mro"}, "PL"},
		{"second-of-two-other-first", []string{"pipeline.mro", "extra.mro"}, "OTHER"},
		{"first-of-two", []string{"pipeline.mro", "extra.mro"}, "PL"},
		{"third-defines", []string{tname, "extra.mro", "pipeline.mro"}, "PL"},
		{"transitive-via-third", []string{"extra.mro", tname, "pipeline.mro"}, "ST"},
		{"types-first", []string{tname, "pipeline.mro"}, "PL"},
		{"direct-and-transitive", []string{sname, "pipeline.mro"}, "ST"},
		{"transitive-types-first", []string{tname, sname}, "ST"},
	}
	for _, sc := range scens {
		var sb strings.Builder
		for _, inc := range sc.includes {
			fmt.Fprintf(&sb, "@include %q\n", inc)
		}
		sb.WriteString("\n")
		expect, expSplit := k.Expect, k.ExpSplit
		var params []string
		if sc.callable == "OTHER" {
			sb.WriteString("call OTHER(\n    q = 7,\n)\n")
			expect, expSplit, params = map[string]string{"q": "i7"}, nil, []string{"q"}
		} else {
			sb.WriteString(strings.Replace(body, "call "+sig.Callable+"(", "call "+sc.callable+"(", 1))
			for _, p := range sig.Params {
				params = append(params, p.Name)
			}
		}
		src := sb.String()
		kk := &c16Case{Sig: sig, Decl: fmt.Sprintf("%v", files), MroPaths: mroPaths, Src: src}
		in := map[string]interface{}{"files": files, "call_mro": src, "scenario": sc.name}
		r.count("MF:"+sc.name+src, true)
		r.hist("MF_" + sc.name)
		// the text itself must be a valid call (else the scenario is wrong)
		// (parameters may be left unbound in hand-written text, so only parse it)
		if _, err := new(syntax.Parser).UncheckedParseIncludes([]byte(src), filepath.Join(dir, "call.mro"), mroPaths); err != nil {
			r.note("harness: multi-file scenario %s does not compile: %v", sc.name, err)
			continue
		}
		var d1, d2 *core.InvocationData
		var t1, t2 string
		var err error
		stage := ""
		pan := c16Recover(func() {
			stage = "text->data"
			if d1, err = core.InvocationDataFromSource([]byte(src), mroPaths); err != nil {
				return
			}
			stage = "data->text (mro_file " + d1.Include + ")"
			if t1, err = d1.BuildCallSource(mroPaths); err != nil {
				return
			}
			stage = "text'->data'"
			if d2, err = core.InvocationDataFromSource([]byte(t1), mroPaths); err != nil {
				return
			}
			stage = "data'->text''"
			t2, err = d2.BuildCallSource(mroPaths)
		})
		if pan != nil || err != nil {
			r.violate(Violation{Kind: "property", Key: "C16:include:" + strings.SplitN(stage, " ", 2)[0],
				What: fmt.Sprintf("call text with several/transitive includes does not survive text -> data -> text' -> data' (at %s): %v %v",
					stage, pan, err), Input: in, Impl: map[string]interface{}{"data": d1, "text'": t1}})
			continue
		}
		var bound []string
		for _, p := range params {
			if _, ok := d1.Args[p]; ok {
				bound = append(bound, p)
			}
		}
		if msg := c16CompareData(d1, sc.callable, bound, expect, expSplit, ""); msg != "" {
			r.violate(Violation{Kind: "property", Key: "C16:include:text-to-json", What: msg, Input: in, Impl: c16DataString(d1)})
			continue
		}
		// the regenerated text compiles to a call of the same callable
		_, _, ast, cerr := syntax.ParseSourceBytes([]byte(t1), filepath.Join(dir, "call2.mro"), mroPaths, false)
		if cerr != nil || ast == nil || ast.Call == nil || ast.Call.DecId != sc.callable {
			r.violate(Violation{Kind: "property", Key: "C16:include:regenerated-text-does-not-compile",
				What:  fmt.Sprintf("text -> data (mro_file %q) -> text': text' does not compile to a call of %s: %v", d1.Include, sc.callable, cerr),
				Input: in, Impl: t1})
			continue
		}
		if msg := c16CompareData(d2, sc.callable, params, expect, expSplit, d1.Include); msg != "" {
			r.violate(Violation{Kind: "property", Key: "C16:include:roundtrip", What: msg, Input: in,
				Impl: map[string]interface{}{"text'": t1, "data'": d2}})
			continue
		}
		if t2 != t1 {
			r.violate(Violation{Kind: "property", Key: "C16:include:source-fixpoint",
				What: "text' -> data' -> text'' is not the identity", Input: in, Impl: t2, Expect: t1})
		}
		// JSON direction with the include the data names: JSON -> text -> JSON
		b, _ := json.Marshal(d1)
		kk.InvJSON = string(b)
		kk.FromCorps = true
		x.directionA(kk)
	}
}

// ---------------------------------------------------------------- corpus

type c16CorpusEntry struct {
	Note       string          `json:"note"`
	Decl       string          `json:"decl"`
	Invocation json.RawMessage `json:"invocation"`
	Feats      []string        `json:"features"`
}

func (x *c16Runner) corpus() {
	files, _ := filepath.Glob(filepath.Join(x.c.Corpus, "*.json"))
	sort.Strings(files)
	for i, f := range files {
		b, err := os.ReadFile(f)
		if err != nil {
			continue
		}
		var e c16CorpusEntry
		if err := json.Unmarshal(b, &e); err != nil {
			x.r.note("corpus %s: %v", f, err)
			continue
		}
		dir := filepath.Join(x.c.Scratch, fmt.Sprintf("corpus%d", i))
		os.MkdirAll(dir, 0o755)
		os.WriteFile(filepath.Join(dir, "decl.mro"), []byte(e.Decl), 0o644)
		k := &c16Case{Decl: e.Decl, MroPaths: []string{dir}, InvJSON: string(e.Invocation), Feats: e.Feats, FromCorps: true}
		x.r.count("corpus:"+k.InvJSON, true)
		x.r.hist("corpus")
		x.directionA(k)
	}
}

// ---------------------------------------------------------------- float classification

func (x *c16Runner) floats(n int) {
	c, r := x.c, x.r
	var p syntax.Parser
	for i := 0; i < n; i++ {
		var f float64
		switch c.Rng.Intn(4) {
		case 0:
			f, _ = strconv.ParseFloat(c16EdgeFloats[c.Rng.Intn(len(c16EdgeFloats))], 64)
		case 1:
			f = float64(c.Rng.Intn(4000000)-2000000) / []float64{1, 1, 10, 100}[c.Rng.Intn(4)]
		case 2:
			if c.Rng.Intn(2) == 0 {
				// integral values around the int64 / 2^53 / 10^6 boundaries
				f = []float64{9223372036854775808.0, -9223372036854775808.0, 9223372036854774784.0,
					-9223372036854777856.0, 4611686018427387904.0, 9007199254740992.0, 9007199254740994.0,
					1e6, 999999, -1e6, 1e18, 1e19, 1e15, math.Copysign(0, -1), 0}[c.Rng.Intn(15)]
				if c.Rng.Intn(3) == 0 {
					f = math.Nextafter(f, math.Inf(1-2*c.Rng.Intn(2)))
				}
			} else {
				f = math.Pow(10, float64(c.Rng.Intn(40)-10)) * float64(1+c.Rng.Intn(99))
			}
		default:
			f = math.Float64frombits(c.Rng.Uint64())
		}
		if math.IsInf(f, 0) || math.IsNaN(f) {
			continue
		}
		// what the real code does, text leg: format the FloatExp, read the text back
		text := syntax.FormatExp(&syntax.FloatExp{Value: f}, "")
		back, err := p.ParseValExp([]byte(text))
		exact, _ := new(big.Float).SetFloat64(f).Int(nil)
		isInt := f == math.Trunc(f)
		impl := "text=error"
		if err == nil {
			switch b := back.(type) {
			case *syntax.IntExp:
				impl = "text=int " + strconv.FormatInt(b.Value, 10)
				if !isInt || big.NewInt(b.Value).Cmp(exact) != 0 {
					r.violate(Violation{Kind: "property", Key: "C16:float-text-roundtrip",
						What: "a float changes value through format -> parse", Input: text, Impl: b.Value, Expect: f})
				}
			case *syntax.FloatExp:
				impl = "text=float"
				if b.Value != f {
					r.violate(Violation{Kind: "property", Key: "C16:float-text-roundtrip",
						What: "a float changes value through format -> parse", Input: text, Impl: b.Value, Expect: f})
				}
			}
		}
		// JSON leg: MarshalJSON and EncodeJSON, token class by syntax, value exact
		mj, _ := (&syntax.FloatExp{Value: f}).MarshalJSON()
		var eb bytes.Buffer
		(&syntax.FloatExp{Value: f}).EncodeJSON(&eb)
		if !bytes.Equal(mj, eb.Bytes()) {
			r.violate(Violation{Kind: "property", Key: "C16:float-json-marshal-vs-encode",
				What: "FloatExp.MarshalJSON and EncodeJSON disagree", Input: f, Impl: string(mj), Expect: eb.String()})
		}
		if strings.ContainsAny(string(mj), ".eE") {
			impl += " json=float"
			if g, err := strconv.ParseFloat(string(mj), 64); err != nil || g != f {
				r.violate(Violation{Kind: "property", Key: "C16:float-json-value",
					What: "a float changes value through MarshalJSON", Input: f, Impl: string(mj)})
			}
		} else {
			n, ok := new(big.Int).SetString(string(mj), 10)
			impl += " json=int " + string(mj)
			if !ok || !isInt || n.Cmp(exact) != 0 {
				r.violate(Violation{Kind: "property", Key: "C16:float-json-value",
					What: "an integral float is marshalled as an integer of a different value", Input: f, Impl: string(mj),
					Expect: exact.String()})
			}
		}
		ff, tt := f, text
		x.ask([]string{"C16.fltint", strings.TrimPrefix(c16FltTok(f), "d")}, func(rep string) {
			r.count("flt:"+tt, true)
			if rep != impl {
				r.violate(Violation{Kind: "correspondence", Key: "C16:float-class-model-mismatch",
					What:  "token class / integer value of a printed float (MRO text and JSON) differs from the model's textAsInt / jsonAsInt / intVal",
					Input: map[string]interface{}{"float": ff, "formatted": tt, "json": string(mj)}, Impl: impl, Model: rep,
					Broken: "correspondence C16.fltint (Flt.textAsInt, Flt.jsonAsInt)"})
			}
		})
	}
	x.flush()
}

// ---------------------------------------------------------------- runner

func runC16(c *Ctx) {
	r := c.Res
	r.Rule = "cases: corpus, then per generated signature (random struct declarations; stage or pipeline with 1-6 " +
		"parameters over int/float/string/bool/path/file/user filetype/untyped map/structs, array dims 0-3, typed maps " +
		"map<T>, map<T[]>, map<T>[]) type-directed random argument values (nested structs, typed maps, multi-dim arrays, " +
		"nulls, ints at +-2^53 and +-2^63 edges, floats in every JSON spelling incl. integral and exponent forms, strings " +
		"with every JSON escape form, non-ASCII, non-BMP, empty collections, omitted arguments), any subset split over " +
		"arrays or maps, with/without mro_file. Per case: A) JSON->BuildCallSource->InvocationDataFromSource compared as " +
		"JSON trees (ints as big ints, floats as float64 values), text fixed point, generated call compiles, every binding " +
		"vs Lean buildBinding/encodeArg/printable; B) hand-written MRO text (struct literals, MRO-only escapes, trailing " +
		"commas)->data->text'->data' + Lean encode/wt on the real parser's expressions; F) BuildCallSource on " +
		"resolver-shaped argument trees (pure core of Fork.writeInvocation) compiles and carries the arguments; float " +
		"token class and exact value (MRO printer, JSON printer) vs Lean textAsInt/jsonAsInt/intVal; negative-zero probe; M) declarations over several files, 1-3 includes in every order, callable defined in the 1st/2nd/3rd/transitively included file; T) Tier A real pipestances (GenProgram + top-level array/keyed map calls): every <node>/<fork>/_invocation compiles, names the callable, round-trips and equals the delivered _args. non-trivial = value depth>=2 or split or escaped string; distinct = distinct input text"
	x := &c16Runner{c: c, r: r}
	x.corpus()
	x.fixedF()
	x.negZero()
	nta := 30
	if c.Thorough {
		nta = 300
	}
	x.tierA(nta)

	nsig, per := 160, 16
	nflt := 20000
	if c.Thorough {
		nsig, per, nflt = 3000, 24, 400000
	}
	x.floats(nflt)
	nstr := 1500
	if c.Thorough {
		nstr = 15000
	}
	x.strs(nstr)
	nbytes := 1500
	if c.Thorough {
		nbytes = 20000
	}
	x.bytesAll(nbytes)
	for i := 0; i < nsig; i++ {
		sig := c16GenSig(c, i)
		if err := sig.write(); err != nil {
			fatal("%v", err)
		}
		// the declaration itself must compile, otherwise the generator is wrong
		_, _, ast, err := syntax.ParseSourceBytes([]byte(sig.Decl), "decl.mro", []string{sig.Dir}, false)
		if err != nil {
			r.note("harness: generated declaration does not compile (case skipped): %v\n%s", err, sig.Decl)
			continue
		}
		r.hist(fmt.Sprintf("sig_params_%d", len(sig.Params)))
		r.hist("sig_callable_" + sig.Callable)
		for _, p := range sig.Params {
			switch {
			case p.Ty.MD > 0 && p.Ty.AD > 0:
				r.hist("param_array_of_typed_map")
			case p.Ty.MD > 1:
				r.hist("param_typed_map_of_array")
			case p.Ty.MD == 1:
				r.hist("param_typed_map")
			case p.Ty.AD > 1:
				r.hist("param_multi_dim_array")
			case p.Ty.AD == 1:
				r.hist("param_array")
			}
			if sig.structByName(p.Ty.Base) != nil {
				r.hist("param_struct_based")
			} else if p.Ty.Base == "map" {
				r.hist("param_untyped_map_based")
			}
		}
		for j := 0; j < per; j++ {
			k, bound := x.genCase(sig)
			r.count(k.InvJSON, k.Nontriv)
			if len(k.Feats) == 0 {
				r.hist("case_plain")
			}
			for _, f := range k.Feats {
				r.hist("case_" + f)
			}
			if len(k.ExpSplit) > 0 {
				r.hist("case_with_split")
			}
			if !strings.Contains(k.InvJSON, "mro_file") {
				r.hist("case_without_mro_file")
			}
			if (i*per+j)%211 == 0 {
				r.sample(map[string]interface{}{"invocation": k.InvJSON, "call_mro": k.Src, "features": k.Feats})
			}
			x.directionA(k)
			if k.Src != "" {
				r.count("B:"+k.Src, k.Nontriv)
				x.directionB(k, sig.Params, bound)
			}
		}
		for j := 0; j < per/3+1; j++ {
			x.directionF(sig, ast)
		}
		x.refsAliases(sig)
		if i%4 == 0 {
			x.multiFile(sig)
		}
		os.RemoveAll(sig.Dir)
	}
	_ = utf8.RuneError
}
