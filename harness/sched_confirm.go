package main

// Re-execution of a suspicious outcome ALONE before it is reported (DESIGN §7):
// a run that ended in a verdict the machinery itself can produce under load — a
// hang (watchdog), a worker death, an error while re-attaching — is run again by
// itself (one worker, a three times longer no-progress deadline); only the
// second outcome is judged.  Deterministic outcomes (failed / stall / complete
// with wrong outputs) are reproduced by the same seed, so nothing is lost.

import (
	"regexp"
	"strings"
)

var rePathInKey = regexp.MustCompile(`/[^ :,;]+`)

func suspectFinal(f string) bool {
	return f == "hang" || f == "process-exit" || strings.HasPrefix(f, "error:") || strings.HasPrefix(f, "panic:")
}

// confirmAlone returns res, or the result of re-running spec alone if res is suspect.
func confirmAlone(c *Ctx, spec *TASpec, res *TAResult) *TAResult {
	if res == nil || !suspectFinal(res.Final) {
		return res
	}
	c.Res.hist("rerun_alone_" + normKey(res.Final))
	s := *spec
	if s.TimeoutS == 0 {
		s.TimeoutS = 30
	}
	s.TimeoutS *= 3
	again := RunSpecs([]*TASpec{&s}, 1)[0]
	if !suspectFinal(again.Final) || normKey(again.Final) != normKey(res.Final) {
		c.Res.hist("rerun_alone_disagreed")
	}
	return again
}

// finalKey: the class of a final state for violation keys — no paths, no numbers.
func finalKey(f string) string {
	if i := strings.Index(f, " goroutine"); i >= 0 {
		f = f[:i]
	}
	return normKey(rePathInKey.ReplaceAllString(f, "PATH"))
}
