package main

import (
	"context"
	"encoding/hex"
	"errors"
	"fmt"
	"hash/fnv"
	"math"
	"math/rand"
	"os"
	"path/filepath"
	"sort"
	"strconv"
	"strings"
	"sync"

	"github.com/martian-lang/martian/martian/core"
	"github.com/martian-lang/martian/martian/syntax"
	"github.com/martian-lang/martian/martian/util"
)

func init() { register("C15", runC15) }

// ---------------------------------------------------------------------------
// compiled AST -> model encoding (see lean/Driver/C15.lean)

func c15Key(s string) string {
	if s == "" {
		return "-"
	}
	return hex.EncodeToString([]byte(s))
}

type c15Enc struct {
	sb  strings.Builder
	err error
}

func (e *c15Enc) tok(s ...string) {
	for _, t := range s {
		if e.sb.Len() > 0 {
			e.sb.WriteByte(' ')
		}
		e.sb.WriteString(t)
	}
}

func b01(b bool) string {
	if b {
		return "1"
	}
	return "0"
}

func (e *c15Enc) exp(x syntax.Exp) {
	switch x := x.(type) {
	case *syntax.NullExp:
		e.tok("n")
	case *syntax.StringExp:
		e.tok("s", c15Key(x.Value))
	case *syntax.BoolExp:
		e.tok("b", b01(x.Value))
	case *syntax.IntExp:
		e.tok("i", strconv.FormatInt(x.Value, 10))
	case *syntax.FloatExp:
		if x.Value == math.Trunc(x.Value) && math.Abs(x.Value) < (1<<49) {
			e.tok("fw", strconv.FormatInt(int64(x.Value), 10))
		} else {
			e.tok("fb", strconv.FormatUint(math.Float64bits(x.Value), 10))
		}
	case *syntax.RefExp:
		k := "1"
		if x.Kind == syntax.KindSelf {
			k = "0"
		}
		if len(x.Forks) != 0 {
			e.err = fmt.Errorf("resolved reference in a compiled AST")
		}
		e.tok("r", k, c15Key(x.Id), c15Key(x.OutputId))
	case *syntax.SplitExp:
		e.tok("sp")
		e.exp(x.Value)
	case *syntax.ArrayExp:
		e.tok("a", strconv.Itoa(len(x.Value)))
		for _, v := range x.Value {
			e.exp(v)
		}
	case *syntax.MapExp:
		e.tok("m", strconv.Itoa(len(x.Value)))
		for k, v := range x.Value { // Go's own (random) map order: the model must not care
			e.tok(c15Key(k))
			e.exp(v)
		}
	default:
		e.err = fmt.Errorf("unsupported expression %T", x)
		e.tok("n")
	}
}

func (e *c15Enc) binds(b *syntax.BindStms) {
	if b == nil {
		e.tok("0")
		return
	}
	// the compiled List: explicit bindings, the `*` entry, then one synthetic binding per expanded parameter
	e.tok(strconv.Itoa(len(b.List)))
	for _, s := range b.List {
		e.tok(c15Key(s.Id))
		e.exp(s.Exp)
	}
}

func (e *c15Enc) param(p syntax.Param) {
	t := p.GetTname()
	e.tok(c15Key(p.GetId()), c15Key(t.Tname), strconv.Itoa(int(t.ArrayDim)), strconv.Itoa(int(t.MapDim)),
		strconv.Itoa(int(p.IsFile())), c15Key(p.GetOutName()))
}

func (e *c15Enc) call(c *syntax.CallStm) {
	e.tok(c15Key(c.Id), c15Key(c.DecId))
	e.binds(c.Bindings)
	m := c.Modifiers
	if m == nil {
		e.err = fmt.Errorf("nil Modifiers")
		e.tok("0", "0", "0", "0", "0")
		return
	}
	hasTable := m.Bindings != nil && m.Bindings.Table != nil
	e.tok(b01(m.Local), b01(m.Preflight), b01(m.Volatile), b01(hasTable))
	if hasTable && m.Bindings.Table["disabled"] != nil {
		e.tok("1")
		e.exp(m.Bindings.Table["disabled"].Exp)
	} else {
		e.tok("0")
	}
}

func c15EncodeAst(ast *syntax.Ast) (string, error) {
	e := &c15Enc{}
	if ast.Callables == nil || ast.Call == nil {
		return "", fmt.Errorf("no callables / call")
	}
	e.tok(strconv.Itoa(len(ast.Callables.List)))
	for _, c := range ast.Callables.List {
		e.tok(c15Key(c.GetId()))
		switch c := c.(type) {
		case *syntax.Stage:
			e.tok("S", b01(c.Split))
			e.tok(strconv.Itoa(len(c.InParams.List)))
			for _, p := range c.InParams.List {
				e.param(p)
			}
			e.tok(strconv.Itoa(len(c.OutParams.List)))
			for _, p := range c.OutParams.List {
				e.param(p)
			}
		case *syntax.Pipeline:
			e.tok("P")
			e.tok(strconv.Itoa(len(c.InParams.List)))
			for _, p := range c.InParams.List {
				e.param(p)
			}
			e.tok(strconv.Itoa(len(c.OutParams.List)))
			for _, p := range c.OutParams.List {
				e.param(p)
			}
			e.tok(strconv.Itoa(len(c.Calls)))
			for _, cc := range c.Calls {
				e.call(cc)
			}
			if c.Ret == nil {
				e.err = fmt.Errorf("nil Ret")
				e.tok("0")
			} else {
				e.binds(c.Ret.Bindings)
			}
		default:
			e.err = fmt.Errorf("unknown callable %T", c)
		}
	}
	e.call(ast.Call)
	// what equivalence.go does not read: per callable src / resources / retain / chunk parameters / help, struct definitions
	e.tok("X", strconv.Itoa(len(ast.Callables.List)))
	keys := func(xs []string) {
		e.tok(strconv.Itoa(len(xs)))
		for _, x := range xs {
			e.tok(c15Key(x))
		}
	}
	for _, c := range ast.Callables.List {
		e.tok(c15Key(c.GetId()))
		var helps [][2]string
		switch c := c.(type) {
		case *syntax.Stage:
			src := ""
			if c.Src != nil {
				src = string(c.Src.Lang) + " " + c.Src.Path + " " + strings.Join(c.Src.Args, " ")
			}
			res := ""
			if r := c.Resources; r != nil {
				res = fmt.Sprintf("threads=%v mem=%v vmem=%v special=%q strict=%v", r.Threads, r.MemGB, r.VMemGB, r.Special, r.StrictVolatile)
			}
			e.tok(c15Key(src), c15Key(res))
			var ret []string
			if c.Retain != nil {
				for _, rp := range c.Retain.Params {
					ret = append(ret, rp.Id)
				}
			}
			keys(ret)
			if c.ChunkIns != nil {
				e.tok(strconv.Itoa(len(c.ChunkIns.List)))
				for _, p := range c.ChunkIns.List {
					e.param(p)
				}
			} else {
				e.tok("0")
			}
			if c.ChunkOuts != nil {
				e.tok(strconv.Itoa(len(c.ChunkOuts.List)))
				for _, p := range c.ChunkOuts.List {
					e.param(p)
				}
			} else {
				e.tok("0")
			}
			for _, p := range c.InParams.List {
				helps = append(helps, [2]string{"i:" + p.GetId(), p.GetHelp()})
			}
			for _, p := range c.OutParams.List {
				helps = append(helps, [2]string{"o:" + p.GetId(), p.GetHelp()})
			}
		case *syntax.Pipeline:
			e.tok("-", "-")
			var ret []string
			if c.Retain != nil {
				for _, ref := range c.Retain.Refs {
					ret = append(ret, ref.Id+"."+ref.OutputId)
				}
			}
			keys(ret)
			e.tok("0", "0")
			for _, p := range c.InParams.List {
				helps = append(helps, [2]string{"i:" + p.GetId(), p.GetHelp()})
			}
			for _, p := range c.OutParams.List {
				helps = append(helps, [2]string{"o:" + p.GetId(), p.GetHelp()})
			}
		}
		e.tok(strconv.Itoa(len(helps)))
		for _, h := range helps {
			e.tok(c15Key(h[0]), c15Key(h[1]))
		}
	}
	structs := c15StructTable(ast)
	e.tok("T", strconv.Itoa(len(structs)))
	for _, st := range structs {
		e.tok(c15Key(st.Id), strconv.Itoa(len(st.Members)))
		for _, m := range st.Members {
			t := m.Tname
			e.tok(c15Key(m.Id), c15Key(t.Tname), strconv.Itoa(int(t.ArrayDim)), strconv.Itoa(int(t.MapDim)),
				strconv.Itoa(int(m.IsFile())), c15Key(m.OutName))
		}
	}
	return e.sb.String(), e.err
}

// ---------------------------------------------------------------------------
// compiling a rendered program

type c15Compiled struct {
	dir  string
	inv  string
	ast  *syntax.Ast
	enc  string
	text string // all files, for replays
}

func c15Write(dir string, files map[string]string) error {
	for name, content := range files {
		fp := filepath.Join(dir, name)
		if err := os.MkdirAll(filepath.Dir(fp), 0o755); err != nil {
			return err
		}
		if err := os.WriteFile(fp, []byte(content), 0o644); err != nil {
			return err
		}
	}
	return nil
}

func c15Compile(dir string, p *gProg) (*c15Compiled, error) {
	files, inv := gRender(p)
	os.RemoveAll(dir)
	if err := c15Write(dir, files); err != nil {
		return nil, err
	}
	var text strings.Builder
	for _, k := range gSortedKeys(files) {
		fmt.Fprintf(&text, "==> %s <==\n%s\n", k, files[k])
	}
	fmt.Fprintf(&text, "==> invocation.mro <==\n%s", inv)
	c := &c15Compiled{dir: dir, inv: inv, text: text.String()}
	var ast *syntax.Ast
	var err error
	func() {
		defer func() {
			if r := recover(); r != nil {
				err = fmt.Errorf("panic: %v", r)
			}
		}()
		_, _, ast, err = syntax.ParseSourceBytes([]byte(inv), filepath.Join(dir, "invocation.mro"), []string{dir}, false)
	}()
	if err != nil {
		return c, err
	}
	c.ast = ast
	c.enc, err = c15EncodeAst(ast)
	return c, err
}

// ---------------------------------------------------------------------------
// edit catalogue with known ground truth

type c15Edit struct {
	name     string
	semantic bool // ground truth: does it change what would run?
	// which `Ignored` aspects of the model's full meaning must differ: "-" = none (purely textual
	// edit), a kind name = exactly that aspect (an edit the code ignores by design), "" = not checked
	kinds string
	// apply edits q in place; returns a description, whether the edit touched
	// the top-level invocation text, and whether it was applicable
	apply func(rng *rand.Rand, q *gProg) (string, bool, bool)
}

func c15AllCalls(q *gProg) []*gCall {
	var cs []*gCall
	for i := range q.Decls {
		if pp := q.Decls[i].Pipe; pp != nil {
			for j := range pp.Calls {
				cs = append(cs, &pp.Calls[j])
			}
		}
	}
	return cs
}

func c15Stages(q *gProg, reachableOnly bool) []*gStage {
	var ss []*gStage
	for i := range q.Decls {
		if s := q.Decls[i].Stage; s != nil {
			if reachableOnly && !c15Reachable(q)[s.Name] {
				continue
			}
			ss = append(ss, s)
		}
	}
	return ss
}

func c15Reachable(q *gProg) map[string]bool {
	seen := map[string]bool{}
	var visit func(n string)
	visit = func(n string) {
		if seen[n] {
			return
		}
		seen[n] = true
		if d := q.decl(n); d != nil && d.Pipe != nil {
			for _, c := range d.Pipe.Calls {
				visit(c.Callee)
			}
		}
	}
	visit(q.Top.Callee)
	return seen
}

func c15ReachablePipes(q *gProg) []*gPipe {
	r := c15Reachable(q)
	var ps []*gPipe
	for i := range q.Decls {
		if pp := q.Decls[i].Pipe; pp != nil && r[pp.Name] {
			ps = append(ps, pp)
		}
	}
	return ps
}

func c15ReachableCalls(q *gProg) []*gCall {
	var cs []*gCall
	for _, pp := range c15ReachablePipes(q) {
		for j := range pp.Calls {
			cs = append(cs, &pp.Calls[j])
		}
	}
	return cs
}

func c15ParamType(q *gProg, callee, id string) string {
	if d := q.decl(callee); d != nil {
		for _, p := range d.ins() {
			if p.Name == id {
				return p.Type
			}
		}
	}
	return ""
}

func c15IsLiteral(e string) bool {
	return !strings.HasPrefix(e, "self.") && !strings.HasPrefix(e, "split ") &&
		!(len(e) > 0 && e[0] >= 'A' && e[0] <= 'Z')
}

func c15Edits() []c15Edit {
	var E []c15Edit
	cos := func(name string, f func(rng *rand.Rand, q *gProg) (string, bool, bool)) {
		E = append(E, c15Edit{name, false, "", f})
	}
	sem := func(name string, f func(rng *rand.Rand, q *gProg) (string, bool, bool)) {
		E = append(E, c15Edit{name, true, "", f})
	}
	// ---------------- cosmetic ----------------
	cos("identity", func(rng *rand.Rand, q *gProg) (string, bool, bool) { return "no change", false, true })
	cos("whitespace", func(rng *rand.Rand, q *gProg) (string, bool, bool) {
		q.Style = (q.Style + 1 + rng.Intn(2)) % 3
		return fmt.Sprintf("layout style -> %d", q.Style), false, true
	})
	cos("comments", func(rng *rand.Rand, q *gProg) (string, bool, bool) {
		q.Comments = !q.Comments
		return fmt.Sprintf("comments -> %v", q.Comments), false, true
	})
	cos("include-structure", func(rng *rand.Rand, q *gProg) (string, bool, bool) {
		q.Layout = (q.Layout + 1 + rng.Intn(2)) % 3
		return fmt.Sprintf("include layout -> %d", q.Layout), false, true
	})
	cos("reorder-declarations", func(rng *rand.Rand, q *gProg) (string, bool, bool) {
		// swap two adjacent stage declarations (stages do not depend on each other)
		var idx []int
		for i := 0; i+1 < len(q.Decls); i++ {
			if q.Decls[i].Stage != nil && q.Decls[i+1].Stage != nil {
				idx = append(idx, i)
			}
		}
		if len(idx) == 0 {
			return "", false, false
		}
		i := idx[rng.Intn(len(idx))]
		q.Decls[i], q.Decls[i+1] = q.Decls[i+1], q.Decls[i]
		return "swap declarations " + q.Decls[i].name() + "," + q.Decls[i+1].name(), false, true
	})
	cos("reorder-parameters", func(rng *rand.Rand, q *gProg) (string, bool, bool) {
		d := &q.Decls[rng.Intn(len(q.Decls))]
		var ps []gParam
		if d.Stage != nil {
			ps = d.Stage.Ins
		} else {
			ps = d.Pipe.Ins
		}
		if len(ps) < 2 {
			return "", false, false
		}
		i := rng.Intn(len(ps) - 1)
		ps[i], ps[i+1] = ps[i+1], ps[i]
		return "swap in-parameters of " + d.name(), false, true
	})
	cos("reorder-bindings", func(rng *rand.Rand, q *gProg) (string, bool, bool) {
		cs := c15ReachableCalls(q)
		var c *gCall
		top := rng.Intn(len(cs)+1) == 0
		if top {
			c = &q.Top
		} else {
			c = cs[rng.Intn(len(cs))]
		}
		if len(c.Binds) < 2 {
			return "", false, false
		}
		i := rng.Intn(len(c.Binds) - 1)
		c.Binds[i], c.Binds[i+1] = c.Binds[i+1], c.Binds[i]
		return "swap bindings of call " + c.id(), top, true
	})
	cos("filetype-rename", func(rng *rand.Rand, q *gProg) (string, bool, bool) {
		// only file types used in scalar positions everywhere
		var cands []string
		reach := c15Reachable(q)
		for _, f := range q.Filetypes {
			ok, used := true, false
			for _, d := range q.Decls {
				for _, p := range append(append([]gParam{}, d.ins()...), d.outs()...) {
					if strings.Contains(p.Type, f) && p.Type != f {
						ok = false
					}
					if p.Type == f && reach[d.name()] {
						used = true
					}
				}
			}
			if ok && used {
				cands = append(cands, f)
			}
		}
		if len(cands) == 0 {
			return "", false, false
		}
		f := cands[rng.Intn(len(cands))]
		nf := f + "_v2"
		for i := range q.Filetypes {
			if q.Filetypes[i] == f {
				q.Filetypes[i] = nf
			}
		}
		n := 0
		fix := func(ps []gParam) {
			for i := range ps {
				if ps[i].Type == f {
					ps[i].Type = nf
					n++
				}
			}
		}
		for i := range q.Decls {
			if s := q.Decls[i].Stage; s != nil {
				fix(s.Ins)
				fix(s.Outs)
			} else {
				fix(q.Decls[i].Pipe.Ins)
				fix(q.Decls[i].Pipe.Outs)
			}
		}
		return fmt.Sprintf("rename file type %s -> %s (%d scalar uses)", f, nf, n), false, true
	})
	cos("volatile-flag", func(rng *rand.Rand, q *gProg) (string, bool, bool) {
		var cs []*gCall
		for _, c := range c15ReachableCalls(q) {
			if q.decl(c.Callee).Stage != nil {
				cs = append(cs, c)
			}
		}
		if len(cs) == 0 {
			return "", false, false
		}
		c := cs[rng.Intn(len(cs))]
		c.Volatile = !c.Volatile
		return "toggle volatile on call " + c.id(), false, true
	})
	cos("stage-src", func(rng *rand.Rand, q *gProg) (string, bool, bool) {
		ss := c15Stages(q, true)
		if len(ss) == 0 {
			return "", false, false
		}
		st := ss[rng.Intn(len(ss))]
		st.Src += "_v2"
		return "stage src of " + st.Name, false, true
	})
	cos("stage-resources", func(rng *rand.Rand, q *gProg) (string, bool, bool) {
		ss := c15Stages(q, true)
		if len(ss) == 0 {
			return "", false, false
		}
		st := ss[rng.Intn(len(ss))]
		st.MemGB += 3
		return "stage mem_gb of " + st.Name, false, true
	})
	cos("stage-retain", func(rng *rand.Rand, q *gProg) (string, bool, bool) {
		for _, st := range c15Stages(q, true) {
			for _, o := range st.Outs {
				if gIsFiletype(q, o.Type) {
					if len(st.Retain) == 0 {
						st.Retain = []string{o.Name}
					} else {
						st.Retain = nil
					}
					return "stage retain of " + st.Name, false, true
				}
			}
		}
		return "", false, false
	})
	cos("chunk-params", func(rng *rand.Rand, q *gProg) (string, bool, bool) {
		for _, st := range c15Stages(q, true) {
			if st.Split {
				if rng.Intn(2) == 0 {
					if len(st.ChunkIns) == 0 {
						st.ChunkIns = []gParam{{Type: "int", Name: "chunk_ix"}}
					} else {
						st.ChunkIns = append(st.ChunkIns, gParam{Type: "string", Name: "chunk_tag"})
					}
				} else {
					st.ChunkOuts = append(st.ChunkOuts, gParam{Type: "int", Name: "chunk_result"})
				}
				return "split in/out parameters of stage " + st.Name, false, true
			}
		}
		return "", false, false
	})
	cos("parameter-help", func(rng *rand.Rand, q *gProg) (string, bool, bool) {
		r := c15Reachable(q)
		var ds []*gDecl
		for i := range q.Decls {
			if r[q.Decls[i].name()] {
				ds = append(ds, &q.Decls[i])
			}
		}
		d := ds[rng.Intn(len(ds))]
		ps := d.ins()
		if rng.Intn(2) == 0 || len(ps) == 0 {
			ps = d.outs()
		}
		if len(ps) == 0 {
			return "", false, false
		}
		k := rng.Intn(len(ps))
		ps[k].Help += "what " + ps[k].Name + " is for"
		return "help text of " + d.name() + "." + ps[k].Name, false, true
	})
	cos("stage-output-filename", func(rng *rand.Rand, q *gProg) (string, bool, bool) {
		for _, st := range c15Stages(q, true) {
			for k := range st.Outs {
				if gIsFiletype(q, strings.TrimSuffix(st.Outs[k].Type, "[]")) {
					st.Outs[k].OutName = "custom_" + st.Outs[k].Name + ".dat"
					return "output file name of stage output " + st.Name + "." + st.Outs[k].Name, false, true
				}
			}
		}
		return "", false, false
	})
	cos("pipeline-retain", func(rng *rand.Rand, q *gProg) (string, bool, bool) {
		for _, pp := range c15ReachablePipes(q) {
			for _, src := range gSources(pp, q, len(pp.Calls)) {
				if !strings.HasPrefix(src.Exp, "self.") && gIsFiletype(q, strings.TrimSuffix(src.Type, "[]")) {
					if len(pp.Retain) == 0 {
						pp.Retain = []string{src.Exp}
					} else {
						pp.Retain = nil
					}
					return "pipeline retain of " + pp.Name + ": " + src.Exp, false, true
				}
			}
		}
		return "", false, false
	})
	cos("stage-renamed-call-aliased", func(rng *rand.Rand, q *gProg) (string, bool, bool) {
		ss := c15Stages(q, true)
		if len(ss) == 0 {
			return "", false, false
		}
		s := ss[rng.Intn(len(ss))]
		old := s.Name
		s.Name = old + "_RENAMED"
		for _, c := range c15AllCalls(q) {
			if c.Callee == old {
				if c.Id == "" {
					c.Id = old
				}
				c.Callee = s.Name
			}
		}
		return "stage " + old + " renamed, calls aliased back", false, true
	})
	cos("unused-callable", func(rng *rand.Rand, q *gProg) (string, bool, bool) {
		st := &gStage{Name: "UNUSED_EXTRA", Lang: "comp", Src: "bin/unused", Ins: []gParam{{Type: "int", Name: "x"}}, Outs: []gParam{{Type: "int", Name: "y"}}}
		q.Decls = append([]gDecl{{Stage: st}}, q.Decls...)
		return "declare an unused stage", false, true
	})
	cos("number-spelling", func(rng *rand.Rand, q *gProg) (string, bool, bool) {
		// an integral float literal written as an int literal (2.0 -> 2) for a float parameter
		type site struct {
			c   *gCall
			i   int
			top bool
		}
		var sites []site
		scan := func(c *gCall, top bool) {
			for i, b := range c.Binds {
				if c15ParamType(q, c.Callee, b.Id) == "float" && strings.HasSuffix(b.Exp, ".0") {
					sites = append(sites, site{c, i, top})
				}
			}
		}
		for _, c := range c15ReachableCalls(q) {
			scan(c, false)
		}
		scan(&q.Top, true)
		if len(sites) == 0 {
			return "", false, false
		}
		s := sites[rng.Intn(len(sites))]
		old := s.c.Binds[s.i].Exp
		s.c.Binds[s.i].Exp = strings.TrimSuffix(old, ".0")
		return fmt.Sprintf("float argument %s of %s written %s -> %s", s.c.Binds[s.i].Id, s.c.id(), old, s.c.Binds[s.i].Exp), s.top, true
	})
	// ---------------- semantic ----------------
	sem("call-name", func(rng *rand.Rand, q *gProg) (string, bool, bool) {
		ps := c15ReachablePipes(q)
		pp := ps[rng.Intn(len(ps))]
		ci := rng.Intn(len(pp.Calls))
		c := &pp.Calls[ci]
		old := c.id()
		c.Id = old + "_R"
		fix := func(e string) string {
			if strings.HasPrefix(e, old+".") {
				return c.Id + e[len(old):]
			}
			if strings.HasPrefix(e, "split "+old+".") {
				return "split " + c.Id + e[len("split "+old):]
			}
			return e
		}
		for j := range pp.Calls {
			for k := range pp.Calls[j].Binds {
				pp.Calls[j].Binds[k].Exp = fix(pp.Calls[j].Binds[k].Exp)
			}
			pp.Calls[j].Disabled = fix(pp.Calls[j].Disabled)
			if pp.Calls[j].Wild == old {
				pp.Calls[j].Wild = c.Id
			}
		}
		for k := range pp.Ret {
			pp.Ret[k].Exp = fix(pp.Ret[k].Exp)
		}
		return fmt.Sprintf("call %s of %s renamed to %s", old, pp.Name, c.Id), false, true
	})
	sem("argument-value", func(rng *rand.Rand, q *gProg) (string, bool, bool) {
		cs := c15ReachableCalls(q)
		var c *gCall
		top := rng.Intn(3) == 0
		if top {
			c = &q.Top
		} else {
			c = cs[rng.Intn(len(cs))]
		}
		if len(c.Binds) == 0 {
			return "", false, false
		}
		i := rng.Intn(len(c.Binds))
		t := c15ParamType(q, c.Callee, c.Binds[i].Id)
		old := c.Binds[i].Exp
		if strings.HasPrefix(old, "split ") || t == "" {
			return "", false, false
		}
		for try := 0; try < 20; try++ {
			nv := gLit(rng, q, t, false)
			if nv != old && !c15SameNumber(nv, old) {
				c.Binds[i].Exp = nv
				return fmt.Sprintf("argument %s of call %s: %s -> %s", c.Binds[i].Id, c.id(), old, nv), top, true
			}
		}
		return "", false, false
	})
	sem("parameter-added", func(rng *rand.Rand, q *gProg) (string, bool, bool) {
		r := c15Reachable(q)
		var ds []*gDecl
		for i := range q.Decls {
			if r[q.Decls[i].name()] {
				ds = append(ds, &q.Decls[i])
			}
		}
		d := ds[rng.Intn(len(ds))]
		if rng.Intn(2) == 0 && d.Stage != nil {
			d.Stage.Outs = append(d.Stage.Outs, gParam{Type: "int", Name: "extra_out"})
			return "out parameter added to stage " + d.name(), false, true
		}
		np := gParam{Type: "int", Name: "extra_in"}
		if d.Stage != nil {
			d.Stage.Ins = append(d.Stage.Ins, np)
		} else {
			d.Pipe.Outs = append(d.Pipe.Outs, gParam{Type: "int", Name: "extra_out"})
			d.Pipe.Ret = append(d.Pipe.Ret, gBind{"extra_out", "7"})
			return "out parameter added to pipeline " + d.name(), false, true
		}
		top := false
		for _, c := range c15AllCalls(q) {
			if c.Callee == d.name() {
				c.Binds = append(c.Binds, gBind{"extra_in", "7"})
			}
		}
		if q.Top.Callee == d.name() {
			q.Top.Binds = append(q.Top.Binds, gBind{"extra_in", "7"})
			top = true
		}
		return "in parameter added to " + d.name(), top, true
	})
	sem("parameter-removed", func(rng *rand.Rand, q *gProg) (string, bool, bool) {
		ss := c15Stages(q, true)
		if len(ss) == 0 {
			return "", false, false
		}
		s := ss[rng.Intn(len(ss))]
		if len(s.Ins) < 2 {
			return "", false, false
		}
		i := rng.Intn(len(s.Ins))
		name := s.Ins[i].Name
		s.Ins = append(s.Ins[:i:i], s.Ins[i+1:]...)
		for _, c := range c15AllCalls(q) {
			if c.Callee == s.Name {
				for k := range c.Binds {
					if c.Binds[k].Id == name {
						if strings.HasPrefix(c.Binds[k].Exp, "split ") {
							c.Map = false
						}
						c.Binds = append(c.Binds[:k:k], c.Binds[k+1:]...)
						break
					}
				}
			}
		}
		return fmt.Sprintf("in parameter %s removed from stage %s", name, s.Name), false, true
	})
	sem("parameter-retyped", func(rng *rand.Rand, q *gProg) (string, bool, bool) {
		ss := c15Stages(q, true)
		if len(ss) == 0 {
			return "", false, false
		}
		s := ss[rng.Intn(len(ss))]
		retype := map[string]string{"int": "float", "string": "int", "float": "string", "bool": "int", "int[]": "float[]",
			"txt": "string", "json": "int", "bam": "bam[]", "bam[]": "bam", "map<int>": "map<float>", "string[]": "string"}
		ps := s.Ins
		which := "in"
		if rng.Intn(2) == 0 {
			ps = s.Outs
			which = "out"
		}
		if len(ps) == 0 {
			return "", false, false
		}
		i := rng.Intn(len(ps))
		nt, ok := retype[ps[i].Type]
		if !ok {
			return "", false, false
		}
		old := ps[i].Type
		ps[i].Type = nt
		// literal bindings of that parameter are regenerated for the new type
		if which == "in" {
			for _, c := range c15AllCalls(q) {
				if c.Callee == s.Name {
					for k := range c.Binds {
						if c.Binds[k].Id == ps[i].Name && c15IsLiteral(c.Binds[k].Exp) {
							c.Binds[k].Exp = gLit(rng, q, nt, false)
						}
					}
				}
			}
		}
		return fmt.Sprintf("%s parameter %s of stage %s: %s -> %s", which, ps[i].Name, s.Name, old, nt), false, true
	})
	sem("split-flag", func(rng *rand.Rand, q *gProg) (string, bool, bool) {
		ss := c15Stages(q, true)
		if len(ss) == 0 {
			return "", false, false
		}
		s := ss[rng.Intn(len(ss))]
		s.Split = !s.Split
		if !s.Split {
			s.ChunkIns = nil
		}
		return fmt.Sprintf("stage %s split -> %v", s.Name, s.Split), false, true
	})
	sem("return-binding", func(rng *rand.Rand, q *gProg) (string, bool, bool) {
		ps := c15ReachablePipes(q)
		pp := ps[rng.Intn(len(ps))]
		i := rng.Intn(len(pp.Ret))
		var t string
		for _, o := range pp.Outs {
			if o.Name == pp.Ret[i].Id {
				t = o.Type
			}
		}
		old := pp.Ret[i].Exp
		srcs := gSources(pp, q, len(pp.Calls))
		for try := 0; try < 10; try++ {
			nv, ok := gPick(rng, srcs, t)
			if !ok || rng.Intn(3) == 0 {
				nv = gLit(rng, q, t, false)
			}
			if nv != old && !c15SameNumber(nv, old) {
				pp.Ret[i].Exp = nv
				return fmt.Sprintf("return %s of %s: %s -> %s", pp.Ret[i].Id, pp.Name, old, nv), false, true
			}
		}
		return "", false, false
	})
	sem("disabled-condition", func(rng *rand.Rand, q *gProg) (string, bool, bool) {
		ps := c15ReachablePipes(q)
		pp := ps[rng.Intn(len(ps))]
		ci := rng.Intn(len(pp.Calls))
		c := &pp.Calls[ci]
		if c.Map || c.Preflight {
			return "", false, false
		}
		old := c.Disabled
		srcs := gDisableSources(pp, q, ci)
		var cands []string
		for _, s := range srcs {
			if s.Type == "bool" && s.Exp != old {
				cands = append(cands, s.Exp)
			}
		}
		if old != "" {
			cands = append(cands, "")
		}
		if len(cands) == 0 {
			return "", false, false
		}
		c.Disabled = cands[rng.Intn(len(cands))]
		return fmt.Sprintf("disabled condition of call %s in %s: %q -> %q", c.id(), pp.Name, old, c.Disabled), false, true
	})
	sem("local-flag", func(rng *rand.Rand, q *gProg) (string, bool, bool) {
		var cs []*gCall
		for _, c := range c15ReachableCalls(q) {
			if q.decl(c.Callee).Stage != nil {
				cs = append(cs, c)
			}
		}
		if len(cs) == 0 {
			return "", false, false
		}
		c := cs[rng.Intn(len(cs))]
		c.Local = !c.Local
		return "toggle local on call " + c.id(), false, true
	})
	sem("preflight-flag", func(rng *rand.Rand, q *gProg) (string, bool, bool) {
		var cs []*gCall
		for _, c := range c15ReachableCalls(q) {
			if c.Callee == "PRE_CHECK" {
				cs = append(cs, c)
			}
		}
		if len(cs) == 0 {
			return "", false, false
		}
		c := cs[rng.Intn(len(cs))]
		c.Preflight = !c.Preflight
		return "toggle preflight on call " + c.id(), false, true
	})
	sem("pipeline-output-filename", func(rng *rand.Rand, q *gProg) (string, bool, bool) {
		for _, pp := range c15ReachablePipes(q) {
			for i := range pp.Outs {
				t := pp.Outs[i].Type
				if gIsFiletype(q, strings.TrimSuffix(t, "[]")) {
					old := pp.Outs[i].OutName
					pp.Outs[i].OutName = "renamed_" + pp.Outs[i].Name + ".dat"
					return fmt.Sprintf("output file name of %s.%s: %q -> %q", pp.Name, pp.Outs[i].Name, old, pp.Outs[i].OutName), false, true
				}
			}
		}
		return "", false, false
	})
	sem("wildcard-source", func(rng *rand.Rand, q *gProg) (string, bool, bool) {
		// `* = MAKE_A` -> `* = MAKE_B` / `* = self`: the expanded parameters are bound to another source
		type site struct {
			pp *gPipe
			c  *gCall
		}
		var sites []site
		for _, pp := range c15ReachablePipes(q) {
			for j := range pp.Calls {
				if pp.Calls[j].Wild != "" {
					sites = append(sites, site{pp, &pp.Calls[j]})
				}
			}
		}
		if len(sites) == 0 {
			return "", false, false
		}
		st := sites[rng.Intn(len(sites))]
		cands := []string{}
		for _, w := range []string{"MAKE_A", "MAKE_B"} {
			if w != st.c.Wild {
				cands = append(cands, w)
			}
		}
		hasSelf := 0
		for _, in := range st.pp.Ins {
			if in.Name == "wa" || in.Name == "wb" {
				hasSelf++
			}
		}
		if hasSelf == 2 && st.c.Wild != "self" {
			cands = append(cands, "self")
		}
		old := st.c.Wild
		st.c.Wild = cands[rng.Intn(len(cands))]
		return fmt.Sprintf("wildcard binding of call %s in %s: `* = %s` -> `* = %s`", st.c.id(), st.pp.Name, old, st.c.Wild), false, true
	})
	sem("callee-retargeted-under-alias", func(rng *rand.Rand, q *gProg) (string, bool, bool) {
		// `call X_ALT as N` -> `call X as N` (or the reverse): same call name and bindings, another callee
		// (same parameters, opposite split flag); preferably one that the pipeline already calls elsewhere
		type site struct {
			pp  *gPipe
			j   int
			dup bool
		}
		twin := func(n string) string {
			if strings.HasSuffix(n, "_ALT") {
				return strings.TrimSuffix(n, "_ALT")
			}
			return n + "_ALT"
		}
		var sites, dups []site
		for _, pp := range c15ReachablePipes(q) {
			for j := range pp.Calls {
				c := &pp.Calls[j]
				if d := q.decl(c.Callee); d == nil || d.Stage == nil || q.decl(twin(c.Callee)) == nil {
					continue
				}
				st := site{pp, j, false}
				for k := range pp.Calls {
					if k != j && pp.Calls[k].Callee == twin(c.Callee) {
						st.dup = true
					}
				}
				sites = append(sites, st)
				if st.dup {
					dups = append(dups, st)
				}
			}
		}
		if len(sites) == 0 {
			return "", false, false
		}
		st := sites[rng.Intn(len(sites))]
		if len(dups) > 0 && rng.Intn(4) != 0 {
			st = dups[rng.Intn(len(dups))]
		}
		c := &st.pp.Calls[st.j]
		old := c.Callee
		id := c.id()
		c.Callee = twin(old)
		c.Id = id
		if c.Id == c.Callee {
			c.Id = ""
		}
		return fmt.Sprintf("call %s of %s (position %d): callee %s -> %s (already called elsewhere in the pipeline: %v)",
			id, st.pp.Name, st.j, old, c.Callee, st.dup), false, true
	})
	// ---- type edits over the whole type language: base name, outer array dimension, typed-map
	// wrapper, array dimension inside a typed map, struct vs map, file kind.  Applied to a stage
	// parameter whose bindings stay valid for both types (an output nobody refers to, or an input
	// bound to null everywhere), so that the TYPE is the only thing that changes.
	for _, kind := range []string{"type-base-name", "type-array-dim", "type-map-wrap", "type-map-inner-array", "type-struct-vs-map", "type-file-kind"} {
		kind := kind
		sem(kind, func(rng *rand.Rand, q *gProg) (string, bool, bool) {
			type site struct {
				st  *gStage
				out bool
				i   int
				nt  string
			}
			var sites []site
			for _, st := range c15Stages(q, true) {
				for i, pr := range st.Outs {
					if !c15OutReferenced(q, st.Name, pr.Name) {
						for _, nt := range c15TypeVariants(q, pr.Type, kind) {
							sites = append(sites, site{st, true, i, nt})
						}
					}
				}
				for i, pr := range st.Ins {
					if c15InAlwaysNull(q, st.Name, pr.Name) {
						for _, nt := range c15TypeVariants(q, pr.Type, kind) {
							sites = append(sites, site{st, false, i, nt})
						}
					}
				}
			}
			if len(sites) == 0 {
				return "", false, false
			}
			x := sites[rng.Intn(len(sites))]
			ps, mode := x.st.Ins, "in"
			if x.out {
				ps, mode = x.st.Outs, "out"
			}
			old := ps[x.i].Type
			ps[x.i].Type = x.nt
			return fmt.Sprintf("%s parameter %s of stage %s: type %s -> %s (bindings unchanged)", mode, ps[x.i].Name, x.st.Name, old, x.nt), false, true
		})
	}
	sem("struct-definition", func(rng *rand.Rand, q *gProg) (string, bool, bool) {
		// a field is added to a struct type that a reachable parameter uses: the declared types change
		r := c15Reachable(q)
		used := false
		for _, d := range q.Decls {
			if !r[d.name()] {
				continue
			}
			for _, pr := range append(append([]gParam{}, d.ins()...), d.outs()...) {
				if strings.TrimSuffix(pr.Type, "[]") == "Pt" {
					used = true
				}
			}
		}
		if !used || len(q.Structs) == 0 {
			return "", false, false
		}
		q.Structs[0].Fields = append(q.Structs[0].Fields, gParam{Type: "float", Name: "weight"})
		return "field `float weight` added to struct Pt (used by a reachable parameter)", false, true
	})
	expect := map[string]string{"identity": "-", "whitespace": "-", "comments": "-", "include-structure": "-",
		"reorder-declarations": "-", "reorder-parameters": "-", "reorder-bindings": "-", "unused-callable": "-", "number-spelling": "-",
		"filetype-rename": "fileTypeName", "volatile-flag": "volatile", "stage-renamed-call-aliased": "calleeName",
		"stage-src": "stageSrc", "stage-resources": "resources", "stage-retain": "retain", "chunk-params": "chunkParams",
		"parameter-help": "help", "stage-output-filename": "outName", "pipeline-retain": "retain"}
	E = append(E, c15TypeCatalogueEdits()...)
	for i := range E {
		E[i].kinds = expect[E[i].name]
	}
	return E
}

// parameter types of the generator: base | base[]… | map<base[]…>[]…
type c15Ty struct {
	base         string
	isMap        bool
	inner, outer int
}

func c15ParseTy(t string) c15Ty {
	var r c15Ty
	for strings.HasSuffix(t, "[]") {
		t = strings.TrimSuffix(t, "[]")
		r.outer++
	}
	if strings.HasPrefix(t, "map<") && strings.HasSuffix(t, ">") {
		r.isMap = true
		t = strings.TrimSuffix(strings.TrimPrefix(t, "map<"), ">")
		for strings.HasSuffix(t, "[]") {
			t = strings.TrimSuffix(t, "[]")
			r.inner++
		}
	}
	r.base = t
	return r
}

func (t c15Ty) String() string {
	s := t.base
	if t.isMap {
		s = "map<" + t.base + strings.Repeat("[]", t.inner) + ">"
	}
	return s + strings.Repeat("[]", t.outer)
}

func c15TypeVariants(q *gProg, ts, kind string) []string {
	t := c15ParseTy(ts)
	isStruct := false
	for _, st := range q.Structs {
		isStruct = isStruct || st.Name == t.base
	}
	isFt := false
	for _, f := range q.Filetypes {
		isFt = isFt || f == t.base
	}
	var out []c15Ty
	switch kind {
	case "type-base-name":
		swap := map[string]string{"int": "float", "float": "int", "string": "int", "bool": "string"}
		if nb, ok := swap[t.base]; ok {
			n := t
			n.base = nb
			out = append(out, n)
		}
		if isFt && (t.outer > 0 || t.isMap) { // (a scalar file type's name is ignored by design)
			for _, f := range q.Filetypes {
				if f != t.base {
					n := t
					n.base = f
					out = append(out, n)
				}
			}
		}
	case "type-array-dim":
		n := t
		n.outer++
		out = append(out, n)
		if t.outer > 0 {
			m := t
			m.outer--
			out = append(out, m)
		}
	case "type-map-wrap":
		if t.base == "map" {
			break
		}
		if t.isMap {
			// unwrap: map<X[]…> -> X[]… (keeps the outer dimension)
			out = append(out, c15Ty{base: t.base, outer: t.outer + t.inner})
			if t.inner > 0 {
				out = append(out, c15Ty{base: t.base, outer: t.outer})
			}
		} else {
			// wrap keeping base name, outer array dimension and file kind
			out = append(out, c15Ty{base: t.base, isMap: true, outer: t.outer})
			if t.outer > 0 {
				out = append(out, c15Ty{base: t.base, isMap: true, inner: t.outer})
			}
		}
	case "type-map-inner-array":
		if t.isMap {
			n := t
			n.inner++
			out = append(out, n)
			if t.inner > 0 {
				m := t
				m.inner--
				out = append(out, m)
			}
		}
	case "type-struct-vs-map":
		if isStruct && !t.isMap {
			out = append(out, c15Ty{base: "map", outer: t.outer}, c15Ty{base: "int", isMap: true, outer: t.outer})
		}
		if t.base == "map" && len(q.Structs) > 0 {
			out = append(out, c15Ty{base: q.Structs[0].Name, outer: t.outer})
		}
		if t.isMap && len(q.Structs) > 0 {
			out = append(out, c15Ty{base: q.Structs[0].Name, outer: t.outer})
		}
	case "type-file-kind":
		if isFt {
			n := t
			n.base = "string"
			out = append(out, n)
		}
		if t.base == "string" && len(q.Filetypes) > 0 {
			n := t
			n.base = q.Filetypes[0]
			out = append(out, n)
		}
	}
	var res []string
	for _, o := range out {
		if s := o.String(); s != ts {
			res = append(res, s)
		}
	}
	return res
}

// is `<call of stage>.<out>` mentioned anywhere (bindings, returns, conditions, wildcards, retains)?
func c15OutReferenced(q *gProg, stage, out string) bool {
	for i := range q.Decls {
		pp := q.Decls[i].Pipe
		if pp == nil {
			continue
		}
		for j := range pp.Calls {
			c := &pp.Calls[j]
			if c.Callee != stage && c.Callee != stage+"_ALT" && c.Callee+"_ALT" != stage {
				continue
			}
			ref := c.id() + "." + out
			hit := func(e string) bool {
				e = strings.TrimPrefix(e, "split ")
				return e == ref || strings.HasPrefix(e, ref+".") || e == c.id()
			}
			for k := range pp.Calls {
				for _, b := range pp.Calls[k].Binds {
					if hit(b.Exp) {
						return true
					}
				}
				if hit(pp.Calls[k].Disabled) || pp.Calls[k].Wild == c.id() {
					return true
				}
			}
			for _, b := range pp.Ret {
				if hit(b.Exp) {
					return true
				}
			}
			for _, x := range pp.Retain {
				if hit(x) {
					return true
				}
			}
		}
	}
	return false
}

// is the stage called at least once and is this input bound to null in every call?
func c15InAlwaysNull(q *gProg, stage, in string) bool {
	n := 0
	for _, c := range c15AllCalls(q) {
		if c.Callee != stage {
			continue
		}
		for _, b := range c.Binds {
			if b.Id == in {
				if b.Exp != "null" {
					return false
				}
				n++
			}
		}
	}
	return n > 0
}

func c15SameNumber(a, b string) bool {
	x, e1 := strconv.ParseFloat(a, 64)
	y, e2 := strconv.ParseFloat(b, 64)
	return e1 == nil && e2 == nil && x == y
}

// float-ulp: a float argument changed by one unit in the last place.  Go's
// FloatExp.equal accepts a relative difference of 1e-15 (documented deviation
// of the model, reported under its own key).
func c15UlpEdit(rng *rand.Rand, q *gProg) (string, bool, bool) {
	type site struct {
		c   *gCall
		i   int
		top bool
	}
	var sites []site
	scan := func(c *gCall, top bool) {
		for i, b := range c.Binds {
			if c15ParamType(q, c.Callee, b.Id) == "float" && c15IsLiteral(b.Exp) {
				if v, err := strconv.ParseFloat(b.Exp, 64); err == nil && v != math.Trunc(v) {
					sites = append(sites, site{c, i, top})
				}
			}
		}
	}
	for _, c := range c15ReachableCalls(q) {
		scan(c, false)
	}
	scan(&q.Top, true)
	if len(sites) == 0 {
		return "", false, false
	}
	s := sites[rng.Intn(len(sites))]
	old := s.c.Binds[s.i].Exp
	v, _ := strconv.ParseFloat(old, 64)
	nv := math.Nextafter(v, math.Inf(1))
	s.c.Binds[s.i].Exp = strconv.FormatFloat(nv, 'g', -1, 64)
	if !strings.ContainsAny(s.c.Binds[s.i].Exp, ".e") {
		s.c.Binds[s.i].Exp += ".0"
	}
	return fmt.Sprintf("float argument %s of %s: %s -> %s (1 ulp)", s.c.Binds[s.i].Id, s.c.id(), old, s.c.Binds[s.i].Exp), s.top, true
}

// ---------------------------------------------------------------------------

type c15Pair struct {
	edit     string
	kinds    string
	semantic bool
	desc     string
	inTop    bool
	a, b     *c15Compiled
	pa, pb   *gProg
}

func c15Equivalent(a, b *syntax.Ast) (res bool, panicked interface{}) {
	defer func() {
		if r := recover(); r != nil {
			panicked = r
		}
	}()
	return a.EquivalentCall(b), nil
}

func runC15(c *Ctx) {
	r := c.Res
	util.SetPrintLogger(&c15DevNull{})
	util.LogTeeWriter(&c15DevNull{})
	r.Rule = "program pairs = generated well-typed MRO program (2-5 stages, 1-3 nested pipelines, aliased calls, map calls, " +
		"disabled conditions, local/preflight/volatile, file types, 3 text styles x 3 include layouts) + ONE edit from a catalogue " +
		"with known ground truth (cosmetic: identity, whitespace, comments, include structure, declaration/parameter/binding order, scalar " +
		"file-type rename, volatile, stage src/resources/retain, stage renamed with calls aliased back, unused callable, 2.0 vs 2; " +
		"semantic: call name, argument value, parameter added/removed/retyped, split flag, return binding, disabled condition, local, " +
		"preflight, pipeline output file name). Each pair: real Ast.EquivalentCall (both directions) vs Lean equivalentCall under the " +
		"regenerated fact (correspondence) vs ground truth (property monitor on the real code); Lean wf on every real compiled AST; " +
		"a sample of pairs end-to-end through Runtime.InvokePipeline / ReattachToPipestance incl. second attach while locked; random " +
		"lock/unlock/signal histories on a real pipestance vs the Lean lock model. non-trivial = pair whose two texts differ; " +
		"distinct = distinct (program text, edited text)"
	edits := c15Edits()
	nprog := 80
	e2eBudget := 45
	lockRuns := 20
	if c.Thorough {
		nprog = 1200
		e2eBudget = 300
		lockRuns = 60
	}
	selfCompare := c.Drv.Ask("C15.selfcompare")
	r.note("regenerated facts: c15SelfCompare = %s, c15RegisterFirst = %s", selfCompare, c.Drv.Ask("C15.registerfirst"))

	var pairs []*c15Pair
	dirN := 0
	newDir := func() string {
		dirN++
		return filepath.Join(c.Scratch, fmt.Sprintf("p%05d", dirN))
	}
	// corpus: hand-written pairs  corpus/C15/<name>/{a,b}/...  with file "truth" = cosmetic|semantic
	pairs = append(pairs, c15Corpus(c)...)
	for pi := 0; pi < nprog; pi++ {
		var p *gProg
		var ca *c15Compiled
		for try := 0; try < 20; try++ {
			p = gGenProg(c.Rng, false)
			var err error
			ca, err = c15Compile(newDir(), p)
			if err == nil {
				break
			}
			r.hist("generated-program-rejected")
			if try == 0 && len(r.Notes) < 6 {
				r.note("generator produced a program the compiler rejects: %v", strings.SplitN(err.Error(), "\n", 2)[0])
			}
			ca = nil
		}
		if ca == nil {
			continue
		}
		for ei := range edits {
			e := &edits[ei]
			for try := 0; try < 4; try++ {
				q := p.clone()
				desc, inTop, ok := e.apply(c.Rng, q)
				if !ok {
					r.hist("edit-not-applicable:" + e.name)
					break
				}
				cb, err := c15Compile(newDir(), q)
				if err != nil {
					r.hist("edited-program-rejected:" + e.name)
					continue
				}
				pairs = append(pairs, &c15Pair{e.name, e.kinds, e.semantic, desc, inTop, ca, cb, p, q})
				break
			}
		}
		// literal-shrinking / -growing classes (own original: harness/c15_lit.go)
		pairs = append(pairs, c15LiteralPairs(c, p, newDir)...)
		// numeric literals at the boundaries of the number representation changed to a nearby value
		pairs = append(pairs, c15NumberPairs(c, p, newDir)...)
		// struct definitions changing under an unchanged name (own original: harness/c15_types.go)
		pairs = append(pairs, c15StructPairs(c, p, newDir)...)
		// the tolerance class
		q := p.clone()
		if desc, inTop, ok := c15UlpEdit(c.Rng, q); ok {
			if cb, err := c15Compile(newDir(), q); err == nil {
				pairs = append(pairs, &c15Pair{"float-ulp", "", true, desc, inTop, ca, cb, p, q})
			}
		}
	}

	// ---- 1. EquivalentCall vs model vs ground truth ----
	reqs := make([][]string, len(pairs))
	for i, pr := range pairs {
		reqs[i] = []string{"C15.equiv", pr.a.enc, pr.b.enc}
	}
	reps := c.Drv.AskBatch(reqs)
	for i, pr := range pairs {
		canon := pr.a.text + "\x00" + pr.b.text
		r.count(canon, pr.a.text != pr.b.text)
		cls := "cosmetic:"
		if pr.semantic {
			cls = "semantic:"
		}
		r.hist(cls + pr.edit)
		gab, p1 := c15Equivalent(pr.a.ast, pr.b.ast)
		gba, p2 := c15Equivalent(pr.b.ast, pr.a.ast)
		if i%37 == 0 {
			r.sample(map[string]interface{}{"edit": pr.edit, "what": pr.desc, "ground_truth_semantic": pr.semantic,
				"go_equivalent": gab, "model": reps[i]})
		}
		input := map[string]interface{}{"edit": pr.edit, "what": pr.desc, "original": pr.a.text, "edited": pr.b.text}
		if p1 != nil || p2 != nil {
			r.violate(Violation{Kind: "property", Key: "C15:panic:" + pr.edit, What: fmt.Sprintf("EquivalentCall panics: %v %v", p1, p2), Input: input})
			continue
		}
		f := strings.Fields(reps[i])
		if len(f) != 7 {
			r.violate(Violation{Kind: "correspondence", Key: "C15:driver-parse", What: "driver could not parse the encoded AST: " + reps[i],
				Input: input, Broken: "correspondence C15.equiv (encoding)"})
			continue
		}
		if f[6] != "true" {
			r.violate(Violation{Kind: "correspondence", Key: "C15:fuel-inadequate", What: "the unfolding of a real compiled AST is cut off at Prog.fuel (semCallO = none)",
				Input: input, Model: reps[i], Broken: "hypothesis of Props.C15.sem_fuel_stable"})
		}
		if f[2] != "true" || f[3] != "true" {
			r.violate(Violation{Kind: "correspondence", Key: "C15:wf", What: "a real compiled AST does not satisfy the model's well-formedness hypothesis",
				Input: input, Model: reps[i], Broken: "hypothesis Prog.wf of Props.C15.equiv_iff_sem_eq"})
		}
		if pr.kinds != "" && f[4] != pr.kinds {
			r.violate(Violation{Kind: "correspondence", Key: "C15:ignored-aspect-mismatch:" + pr.edit,
				What:  fmt.Sprintf("the model's full meaning differs in the ignored aspects {%s}, the edit class changes {%s}: %s", f[4], pr.kinds, pr.desc),
				Input: input, Model: f[4], Expect: pr.kinds, Broken: "Martian.Equiv.meaning (ignored component) vs edit catalogue"})
		}
		if key, ok := c15StricterThanProperty[pr.edit]; ok {
			// cosmetic for the property, compared by the code: model = code, the refusal is a (known) finding
			if fmt.Sprint(gab) != f[0] || gab != gba {
				r.violate(Violation{Kind: "correspondence", Key: "C15:equiv-model-mismatch:" + pr.edit,
					What: "Ast.EquivalentCall differs from the Lean model (or is asymmetric): " + pr.desc, Input: input, Impl: []bool{gab, gba}, Model: f[0],
					Broken: "correspondence C15.equiv"})
			}
			if !gab || !gba {
				r.violate(Violation{Kind: "property", Key: key,
					What:  "an edit the property counts as cosmetic is refused: " + pr.desc,
					Input: input, Impl: []bool{gab, gba}, Expect: true})
			}
			continue
		}
		if pr.edit == "float-ulp" {
			// documented deviation: the model compares bits, Go allows 1e-15 relative
			if gab || gba {
				r.violate(Violation{Kind: "property", Key: "C15:float-tolerance",
					What:  "a float argument changed by one ulp is accepted as equivalent (FloatExp.equal tolerates a relative difference of 1e-15): " + pr.desc,
					Input: input, Impl: gab, Expect: false})
			}
			continue
		}
		if fmt.Sprint(gab) != f[0] {
			r.violate(Violation{Kind: "correspondence", Key: "C15:equiv-model-mismatch:" + pr.edit,
				What:  "Ast.EquivalentCall differs from the Lean model equivalentCall (under the regenerated fact): " + pr.desc,
				Input: input, Impl: gab, Model: f[0], Broken: "correspondence C15.equiv (Martian.Equiv.equivalentCall Gen.c15SelfCompare)"})
		}
		if gab != gba {
			r.violate(Violation{Kind: "property", Key: "C15:asymmetric:" + pr.edit,
				What:  fmt.Sprintf("EquivalentCall is not symmetric (a~b=%v, b~a=%v): %s", gab, gba, pr.desc),
				Input: input, Impl: []bool{gab, gba}, Broken: "theorem Props.C15.equiv_symm"})
		}
		if gab == pr.semantic || gba == pr.semantic {
			what := "a cosmetic edit is refused: "
			if pr.semantic {
				what = "a semantic edit is accepted as equivalent: "
			}
			dir := "original.EquivalentCall(edited)"
			if gab != pr.semantic {
				dir = "edited.EquivalentCall(original)"
			}
			r.violate(Violation{Kind: "property", Key: "C15:wrong-verdict:" + pr.edit, What: what + pr.desc + " [" + dir + "]",
				Input: input, Impl: []bool{gab, gba}, Expect: !pr.semantic, Model: "with the lookup fixed the model says " + f[1],
				Broken: "theorem Props.C15.equiv_iff_sem_eq"})
		}
		if fmt.Sprint(!pr.semantic) != f[1] {
			r.violate(Violation{Kind: "correspondence", Key: "C15:model-vs-ground-truth:" + pr.edit,
				What:  "the Lean model (lookup reading the other table) disagrees with the catalogue's ground truth: " + pr.desc,
				Input: input, Model: f[1], Expect: !pr.semantic, Broken: "specification sem vs edit catalogue"})
		}
	}

	// ---- 2. end to end: InvokePipeline, then ReattachToPipestance with the edited library ----
	rt, err := core.VerifNewLocalRuntime()
	if err != nil {
		r.note("cannot build a runtime: %v", err)
		return
	}
	order := c.Rng.Perm(len(pairs))
	done := 0
	for _, i := range order {
		if done >= e2eBudget {
			break
		}
		pr := pairs[i]
		if pr.inTop || pr.edit == "float-ulp" || c15StricterThanProperty[pr.edit] != "" || pr.pa == nil {
			continue // the top-level invocation text itself must be byte-identical (see below)
		}
		done++
		c15EndToEnd(c, rt, pr, done)
	}
	// creation interrupted after each prefix of the metadata files, then a semantic edit (harness/c15_crash.go)
	crashBudget := 8
	if c.Thorough {
		crashBudget = 60
	}
	crashed := 0
	for _, i := range order {
		if crashed >= crashBudget {
			break
		}
		pr := pairs[i]
		if pr.inTop || !pr.semantic || pr.edit == "float-ulp" || pr.pa == nil {
			continue
		}
		crashed++
		c15CrashDuringInvoke(c, rt, pr, crashed)
	}
	// the lock file cannot be created / two concurrent starts (harness/c15_lockerr.go)
	for _, pr := range pairs {
		if pr.pa != nil {
			nle, nsr := 2, 15
			if c.Thorough {
				nle, nsr = 10, 200
			}
			for k := 0; k < nle; k++ {
				c15LockCreateError(c, rt, pr, k)
			}
			c15StartRace(c, rt, pr, nsr)
			break
		}
	}
	// the invocation text itself: a cosmetic change there is refused by the byte comparison
	for _, pr := range pairs {
		if pr.inTop && !pr.semantic && pr.pa != nil {
			c15EndToEnd(c, rt, pr, 100000)
			break
		}
	}

	// ---- 3. lock histories on a real pipestance vs the model ----
	for k := 0; k < lockRuns && len(pairs) > 0; k++ {
		var pr *c15Pair
		for _, i := range c.Rng.Perm(len(pairs)) {
			if pairs[i].pa != nil {
				pr = pairs[i]
				break
			}
		}
		if pr == nil {
			break
		}
		c15LockHistory(c, rt, pr, k)
		if k == 0 {
			trials := 100
			if c.Thorough {
				trials = 600
			}
			c15LockRace(c, rt, pr, trials)
		}
	}
}

type c15DevNull struct{}

func (*c15DevNull) Write(b []byte) (int, error)       { return len(b), nil }
func (*c15DevNull) WriteString(s string) (int, error) { return len(s), nil }

func c15Attach(rt *core.Runtime, psdir string, pr *c15Compiled, readOnly bool) (*core.Pipestance, error) {
	return rt.ReattachToPipestance("ps", psdir, pr.inv, filepath.Join(pr.dir, "invocation.mro"),
		[]string{pr.dir}, "verif", nil, true, readOnly, context.Background())
}

func c15EndToEnd(c *Ctx, rt *core.Runtime, pr *c15Pair, n int) {
	r := c.Res
	psdir := filepath.Join(c.Scratch, fmt.Sprintf("ps%06d", n))
	defer os.RemoveAll(psdir)
	input := map[string]interface{}{"edit": pr.edit, "what": pr.desc, "original": pr.a.text, "edited": pr.b.text}
	ps, err := rt.InvokePipeline(pr.a.inv, filepath.Join(pr.a.dir, "invocation.mro"), "ps", psdir,
		[]string{pr.a.dir}, "verif", nil, nil)
	if err != nil {
		r.hist("e2e-invoke-rejected-by-call-graph-builder")
		return
	}
	r.hist("e2e-invoked")
	// the first mrp still holds the lock: a second attach for writing must fail, with either version
	before := c15RegistrySet()
	if p2, err := c15Attach(rt, psdir, pr.a, false); err == nil {
		r.violate(Violation{Kind: "property", Key: "C15:second-writer-attached",
			What: "ReattachToPipestance for writing succeeded while the invoking runtime holds _lock", Input: input})
		p2.Unlock()
	} else {
		var le *core.PipestanceLockedError
		if !errors.As(err, &le) {
			r.violate(Violation{Kind: "property", Key: "C15:locked-attach-other-error",
				What: "attach while locked failed with something else than PipestanceLockedError: " + err.Error(), Input: input})
		}
		if _, err := os.Stat(filepath.Join(psdir, "_lock")); err != nil {
			r.violate(Violation{Kind: "property", Key: "C15:failed-attach-removed-lock",
				What: "a refused attach removed the lock file of the live holder", Input: input})
		}
		// the refused mrp now dies the way cmd/mrp does (util.DieIf -> Suicide -> every handler it
		// registered runs); the holder's lock must survive and a third mrp must still be refused
		left := c15NewObjects(before)
		c15Die(left)
		_, lockErr := os.Stat(filepath.Join(psdir, "_lock"))
		p3, err3 := c15Attach(rt, psdir, pr.a, false)
		if lockErr != nil || err3 == nil {
			r.violate(Violation{Kind: "property", Key: "C15:refused-attacher-removed-lock",
				What: fmt.Sprintf("history: mrp#1 invokes and holds the lock; mrp#2's attach for writing is refused (PipestanceLockedError) and "+
					"mrp#2 exits through the signal-handler path (it had left %d object(s) registered with util.RegisterSignalHandler); "+
					"afterwards _lock exists = %v and mrp#3's attach for writing succeeded = %v while mrp#1 is still alive",
					len(left), lockErr == nil, err3 == nil),
				Input:  map[string]interface{}{"history": "L1,L2(refused),S2,L3", "program": pr.a.text},
				Impl:   map[string]interface{}{"lock_file_exists": lockErr == nil, "third_attach_succeeded": err3 == nil},
				Expect: "lock file kept, third attach refused", Broken: "theorem Props.C15.at_most_one_writer"})
			if err3 == nil {
				p3.Unlock()
			}
			ps.Lock() // restore the holder's lock for the rest of the scenario
		}
	}
	// read-only (inspect) attaches are allowed while locked and never change anything - whether they
	// are accepted (unchanged sources) or refused (edited sources): the holder's lock stays, every file
	// is as before, and a writer is still refused
	for _, ro := range []struct {
		who string
		pc  *c15Compiled
	}{{"unchanged", pr.a}, {"edited", pr.b}} {
		snap := c15Snapshot(psdir)
		_, roErr := c15Attach(rt, psdir, ro.pc, true)
		if roErr != nil && ro.who == "unchanged" {
			r.note("read-only attach while locked failed: %v", roErr)
		}
		r.hist(fmt.Sprintf("e2e-inspect-while-locked:%s:accepted=%v", ro.who, roErr == nil))
		_, lockErr := os.Stat(filepath.Join(psdir, "_lock"))
		d := c15SnapshotDiff(snap, c15Snapshot(psdir))
		pw, wErr := c15Attach(rt, psdir, pr.a, false)
		if lockErr != nil || d != "" || wErr == nil {
			r.violate(Violation{Kind: "property", Key: "C15:inspect-attach-changed-locked-pipestance",
				What: fmt.Sprintf("history: mrp#1 holds the pipestance; mrp#2 attaches READ-ONLY with the %s sources (accepted = %v); afterwards _lock exists = %v, "+
					"files changed: %q, and mrp#3's attach for writing succeeded = %v while mrp#1 is alive (%s)", ro.who, roErr == nil, lockErr == nil, d, wErr == nil, pr.desc),
				Input:  map[string]interface{}{"history": "L1,inspect2(" + ro.who + "),L3", "edit": pr.edit, "what": pr.desc, "original": pr.a.text, "edited": pr.b.text},
				Impl:   map[string]interface{}{"lock_file_exists": lockErr == nil, "third_attach_succeeded": wErr == nil, "files": d},
				Expect: "lock file kept, nothing changed, writer refused", Broken: "theorem Props.C15.lts_mutual_exclusion (a read-only attach is not an action)"})
			if wErr == nil {
				pw.Unlock()
			}
			ps.Lock() // restore the holder's lock for the rest of the scenario
		}
	}
	ps.Unlock() // first mrp exits
	// re-attach with the edited sources
	snapBefore := c15Snapshot(psdir)
	p3, err := c15Attach(rt, psdir, pr.b, false)
	accepted := err == nil
	if !accepted {
		// a refused attach changes nothing: the files of the pipestance are as before, the same
		// attempt is refused again, and the original sources still attach
		if d := c15SnapshotDiff(snapBefore, c15Snapshot(psdir)); d != "" {
			r.violate(Violation{Kind: "property", Key: "C15:refused-attach-modified-pipestance",
				What:  "a refused re-attach modified the pipestance directory: " + d + " (" + pr.desc + ")",
				Input: input, Broken: "theorem Props.C15.lts_refused_attach_changes_nothing (files)"})
		}
		var ie0 *core.PipestanceInvocationError
		if errors.As(err, &ie0) {
			for attempt := 2; attempt <= 3; attempt++ {
				if p4, err4 := c15Attach(rt, psdir, pr.b, false); err4 == nil {
					r.violate(Violation{Kind: "property", Key: "C15:refused-attach-accepted-on-retry",
						What:  fmt.Sprintf("the re-attach that was refused is ACCEPTED when the same command is run again (attempt %d): %s", attempt, pr.desc),
						Input: input, Impl: "accepted", Expect: "refused"})
					p4.Unlock()
					break
				}
			}
			if p5, err5 := c15Attach(rt, psdir, pr.a, false); err5 != nil {
				r.violate(Violation{Kind: "property", Key: "C15:original-refused-after-refused-attach",
					What:  "after a refused re-attach the ORIGINAL sources no longer attach: " + err5.Error(),
					Input: input, Impl: "refused", Expect: "accepted"})
			} else {
				p5.Unlock()
			}
			r.hist("e2e-refused-attach-retried")
		}
	}
	var ie *core.PipestanceInvocationError
	if err != nil && !errors.As(err, &ie) {
		r.hist("e2e-reattach-rejected-by-call-graph-builder")
		return
	}
	r.hist(fmt.Sprintf("e2e-reattach-accepted=%v", accepted))
	r.count("e2e\x00"+pr.a.text+"\x00"+pr.b.text, true)
	if pr.inTop && !pr.semantic {
		if !accepted {
			r.violate(Violation{Kind: "property", Key: "C15:invocation-text-bytewise",
				What:  "a cosmetic change of the top-level invocation text itself is refused: reattachToPipestance compares the supplied invocation byte-for-byte with _invocation before any AST comparison (" + pr.desc + ")",
				Input: input, Impl: "refused", Expect: "accepted"})
		}
	} else if accepted == pr.semantic {
		what := "ReattachToPipestance refuses a cosmetic edit: "
		if pr.semantic {
			what = "ReattachToPipestance accepts a semantic edit: "
		}
		r.violate(Violation{Kind: "property", Key: "C15:wrong-verdict:" + pr.edit, What: what + pr.desc, Input: input,
			Impl: accepted, Expect: !pr.semantic, Broken: "theorem Props.C15.equiv_iff_sem_eq (end to end)"})
	}
	_, lockErr := os.Stat(filepath.Join(psdir, "_lock"))
	if accepted {
		if lockErr != nil {
			r.violate(Violation{Kind: "property", Key: "C15:attached-without-lock", What: "successful attach for writing left no _lock", Input: input})
		}
		p3.Unlock()
	} else if lockErr == nil {
		r.violate(Violation{Kind: "property", Key: "C15:refused-attach-keeps-lock",
			What: "a re-attach refused for a changed invocation leaves the pipestance locked", Input: input})
		os.Remove(filepath.Join(psdir, "_lock"))
	}
}

// c15Snapshot: name -> size:content-hash of the regular files directly in the pipestance directory
// (the top-level metadata files), `_lock` excluded.
func c15Snapshot(dir string) map[string]string {
	out := map[string]string{}
	ents, err := os.ReadDir(dir)
	if err != nil {
		return out
	}
	for _, e := range ents {
		if e.IsDir() || e.Name() == "_lock" {
			continue
		}
		if b, err := os.ReadFile(filepath.Join(dir, e.Name())); err == nil {
			h := fnv.New64a()
			h.Write(b)
			out[e.Name()] = fmt.Sprintf("%d:%x", len(b), h.Sum64())
		}
	}
	return out
}

func c15SnapshotDiff(a, b map[string]string) string {
	var names []string
	for k := range a {
		names = append(names, k)
	}
	for k := range b {
		if _, ok := a[k]; !ok {
			names = append(names, k)
		}
	}
	sort.Strings(names)
	for _, k := range names {
		switch {
		case a[k] == "":
			return "file " + k + " appeared"
		case b[k] == "":
			return "file " + k + " disappeared"
		case a[k] != b[k]:
			return "file " + k + " was rewritten"
		}
	}
	return ""
}

func c15LockHistory(c *Ctx, rt *core.Runtime, pr *c15Pair, n int) {
	r := c.Res
	psdir := filepath.Join(c.Scratch, fmt.Sprintf("lk%06d", n))
	defer os.RemoveAll(psdir)
	before := c15RegistrySet()
	ps0, err := rt.InvokePipeline(pr.a.inv, filepath.Join(pr.a.dir, "invocation.mro"), "ps", psdir,
		[]string{pr.a.dir}, "verif", nil, nil)
	if err != nil {
		return
	}
	// simulated mrp processes 0..nproc-1; process 0 invoked and holds the lock.  objs[p] = what p has
	// registered with util.RegisterSignalHandler (also when its attach was refused).
	// Actions: L attach for writing (= LTS acquire, then register if it succeeded), U unlock, S die through the
	// handlers p registered, K die without any handler (SIGKILL), R an operator deletes _lock (only when
	// no simulated process owns the pipestance).
	nproc := 3 + c.Rng.Intn(4)
	held := map[int]*core.Pipestance{0: ps0}
	objs := map[int][]util.HandlerObject{0: c15NewObjects(before)}
	coarse, fine := []string{"L0"}, []string{"A0", "G0"}
	got, gotFine := []string{"1"}, []string{"1", "1"}
	usedKR := false
	lockExists := func() bool {
		_, err := os.Stat(filepath.Join(psdir, "_lock"))
		return err == nil
	}
	for step, m := 0, 8+c.Rng.Intn(14); step < m; step++ {
		p := c.Rng.Intn(nproc)
		h, holds := held[p]
		k := c.Rng.Intn(12)
		switch {
		case k == 0 && len(held) == 0:
			os.Remove(filepath.Join(psdir, "_lock"))
			usedKR = true
			fine = append(fine, "R")
			gotFine = append(gotFine, "1")
		case k == 1:
			// SIGKILL: p vanishes, nothing it registered runs
			for _, o := range objs[p] {
				util.UnregisterSignalHandler(o)
			}
			objs[p] = nil
			delete(held, p)
			usedKR = true
			fine = append(fine, fmt.Sprintf("K%d", p))
			gotFine = append(gotFine, "1")
		case holds && k < 6:
			h.Unlock()
			objs[p] = nil
			delete(held, p)
			coarse = append(coarse, fmt.Sprintf("U%d", p))
			fine = append(fine, fmt.Sprintf("U%d", p))
			got = append(got, "1")
			gotFine = append(gotFine, "1")
		case holds || k < 5:
			// p dies through the signal-handler path (owner or not, attached before or not)
			had := lockExists()
			c15Die(objs[p])
			objs[p] = nil
			delete(held, p)
			coarse = append(coarse, fmt.Sprintf("S%d", p))
			fine = append(fine, fmt.Sprintf("S%d", p))
			got = append(got, "1")
			gotFine = append(gotFine, "1")
			if !holds && had && !lockExists() {
				r.violate(Violation{Kind: "property", Key: "C15:refused-attacher-removed-lock",
					What:   fmt.Sprintf("process %d, which does not own the pipestance (its attach was refused), died through the signal-handler path and removed _lock", p),
					Input:  map[string]interface{}{"history": strings.Join(fine, ","), "program": pr.a.text},
					Broken: "theorem Props.C15.lts_death_of_bystander_changes_nothing"})
			}
		default:
			snap := c15RegistrySet()
			hadLock, hadHolders := lockExists(), len(held)
			np, err := c15Attach(rt, psdir, pr.a, false)
			objs[p] = append(objs[p], c15NewObjects(snap)...)
			coarse = append(coarse, fmt.Sprintf("L%d", p))
			fine = append(fine, fmt.Sprintf("A%d", p))
			if err == nil {
				held[p] = np
				got = append(got, "1")
				gotFine = append(gotFine, "1", "1")
				fine = append(fine, fmt.Sprintf("G%d", p))
			} else {
				got = append(got, "0")
				gotFine = append(gotFine, "0")
				if lockExists() != hadLock || len(held) != hadHolders {
					r.violate(Violation{Kind: "property", Key: "C15:refused-attach-changed-state",
						What:   "a refused attach changed the lock file",
						Input:  map[string]interface{}{"history": strings.Join(fine, ","), "program": pr.a.text},
						Broken: "theorem Props.C15.lts_refused_attach_changes_nothing"})
				}
			}
		}
		if len(held) > 1 {
			r.violate(Violation{Kind: "property", Key: "C15:two-writers", What: "two runtimes own the same pipestance for writing",
				Input:  map[string]interface{}{"history": strings.Join(fine, ","), "program": pr.a.text},
				Broken: "theorem Props.C15.lts_mutual_exclusion"})
			break
		}
		if len(held) == 1 && !lockExists() {
			r.violate(Violation{Kind: "property", Key: "C15:owner-without-lock-file", What: "a live owner exists but _lock does not",
				Input:  map[string]interface{}{"history": strings.Join(fine, ","), "program": pr.a.text},
				Broken: "theorem Props.C15.lts_mutual_exclusion"})
			break
		}
	}
	tail := []string{fmt.Sprint(lockExists()), fmt.Sprint(len(held))}
	r.count("lock\x00"+strings.Join(fine, ","), true)
	r.hist("lock-histories")
	r.hist(fmt.Sprintf("lock-history-actors=%d", nproc))
	if rep, want := c.Drv.Ask("C15.lts", strings.Join(fine, ",")), strings.Join(append(append(gotFine, tail...), fmt.Sprint(len(held))), " "); rep != want {
		r.violate(Violation{Kind: "correspondence", Key: "C15:lock-lts-mismatch", What: "attach/unlock/signal/kill/rm history on a real pipestance differs from the Lean lock LTS (under the regenerated fact c15RegisterFirst)",
			Input: strings.Join(fine, ","), Impl: want, Model: rep, Broken: "correspondence C15.lts (Martian.LockLTS.step)"})
	}
	if !usedKR {
		if rep, want := c.Drv.Ask("C15.lock", strings.Join(coarse, ",")), strings.Join(append(got, tail...), " "); rep != want {
			r.violate(Violation{Kind: "correspondence", Key: "C15:lock-model-mismatch", What: "Lock/Unlock/HandleSignal history differs from the atomic Lean lock model",
				Input: strings.Join(coarse, ","), Impl: want, Model: rep, Broken: "correspondence C15.lock (Martian.Equiv.lockStep)"})
		}
	}
	for p, h := range held {
		h.Unlock()
		objs[p] = nil
	}
	for _, os := range objs {
		for _, o := range os {
			util.UnregisterSignalHandler(o)
		}
	}
}

// c15LockRace: two overlapping Lock() calls on an unlocked pipestance (goroutines released
// together).  The lock file is created exclusively, so exactly one of them must win, every time.
func c15LockRace(c *Ctx, rt *core.Runtime, pr *c15Pair, trials int) {
	r := c.Res
	both, none := 0, 0
	for i := 0; i < trials; i++ {
		psdir := filepath.Join(c.Scratch, fmt.Sprintf("race%06d", i))
		ps, err := rt.InvokePipeline(pr.a.inv, filepath.Join(pr.a.dir, "invocation.mro"), "ps", psdir,
			[]string{pr.a.dir}, "verif", nil, nil)
		if err != nil {
			return
		}
		ps.Unlock()
		var wg sync.WaitGroup
		start := make(chan struct{})
		var got [2]*core.Pipestance
		var errs [2]error
		for k := 0; k < 2; k++ {
			wg.Add(1)
			go func(k int) {
				defer wg.Done()
				<-start
				got[k], errs[k] = c15Attach(rt, psdir, pr.a, false)
			}(k)
		}
		close(start)
		wg.Wait()
		winners := 0
		for k := range got {
			if errs[k] == nil {
				winners++
			} else {
				var le *core.PipestanceLockedError
				if !errors.As(errs[k], &le) {
					r.note("lock race: an attach failed with something else than PipestanceLockedError: %v", errs[k])
				}
			}
		}
		if winners == 2 {
			both++
		} else if winners == 0 {
			none++
		}
		_, lockErr := os.Stat(filepath.Join(psdir, "_lock"))
		if winners == 1 && lockErr != nil {
			none++
		}
		for k := range got {
			if errs[k] == nil {
				got[k].Unlock()
			}
		}
		os.RemoveAll(psdir)
		r.Evals++
	}
	r.hist(fmt.Sprintf("lock-race-trials=%d", trials))
	if both > 0 {
		r.violate(Violation{Kind: "property", Key: "C15:lock-race-two-winners",
			What:  fmt.Sprintf("two overlapping ReattachToPipestance calls for writing BOTH succeeded in %d of %d trials", both, trials),
			Input: map[string]interface{}{"history": "two Lock() calls released together on an unlocked pipestance", "program": pr.a.text}, Impl: both, Expect: 0,
			Broken: "theorem Props.C15.lts_mutual_exclusion (acquire is not atomic: see lock_file_created_exclusively / lts_check_then_write_race)"})
	}
	if none > 0 {
		r.violate(Violation{Kind: "property", Key: "C15:lock-race-no-winner",
			What:  fmt.Sprintf("of two overlapping attaches on an unlocked pipestance neither ended up owning it (or the winner has no _lock) in %d of %d trials", none, trials),
			Input: map[string]interface{}{"program": pr.a.text}, Impl: none, Expect: 0})
	}
}

// corpus pairs: corpus/C15/<name>/a/... , corpus/C15/<name>/b/... (each with lib.mro and invocation.mro)
// and corpus/C15/<name>/truth containing "cosmetic" or "semantic".
func c15Corpus(c *Ctx) []*c15Pair {
	var out []*c15Pair
	ents, _ := os.ReadDir(c.Corpus)
	for _, e := range ents {
		if !e.IsDir() {
			continue
		}
		base := filepath.Join(c.Corpus, e.Name())
		truth, err := os.ReadFile(filepath.Join(base, "truth"))
		if err != nil {
			continue
		}
		load := func(sub string) *c15Compiled {
			dir := filepath.Join(base, sub)
			inv, err := os.ReadFile(filepath.Join(dir, "invocation.mro"))
			if err != nil {
				return nil
			}
			lib, _ := os.ReadFile(filepath.Join(dir, "lib.mro"))
			cc := &c15Compiled{dir: dir, inv: string(inv), text: "==> lib.mro <==\n" + string(lib) + "\n==> invocation.mro <==\n" + string(inv)}
			_, _, ast, err := syntax.ParseSourceBytes(inv, filepath.Join(dir, "invocation.mro"), []string{dir}, false)
			if err != nil {
				c.Res.note("corpus %s/%s does not compile: %v", e.Name(), sub, err)
				return nil
			}
			cc.ast = ast
			cc.enc, err = c15EncodeAst(ast)
			if err != nil {
				c.Res.note("corpus %s/%s cannot be encoded: %v", e.Name(), sub, err)
				return nil
			}
			return cc
		}
		a, b := load("a"), load("b")
		if a == nil || b == nil {
			continue
		}
		out = append(out, &c15Pair{edit: "corpus-" + e.Name(), semantic: strings.TrimSpace(string(truth)) == "semantic",
			desc: "corpus pair " + e.Name(), a: a, b: b})
	}
	return out
}

// ---- playing "this process dies" for one simulated mrp ----

func c15RegistrySet() map[util.HandlerObject]bool {
	m := map[util.HandlerObject]bool{}
	for _, o := range util.VerifSignalHandlerObjects() {
		m[o] = true
	}
	return m
}

// objects registered since the snapshot (what the simulated process registered)
func c15NewObjects(before map[util.HandlerObject]bool) []util.HandlerObject {
	var out []util.HandlerObject
	for _, o := range util.VerifSignalHandlerObjects() {
		if !before[o] {
			out = append(out, o)
		}
	}
	return out
}

// what util.Suicide / the signal goroutine does for the objects of one process, then the process is gone
func c15Die(objs []util.HandlerObject) {
	for _, o := range objs {
		o.HandleSignal(os.Interrupt)
		util.UnregisterSignalHandler(o)
	}
}
