package main

// C15: re-attach to a pipestance whose creation was interrupted.
//
// Runtime.InvokePipeline writes the top-level metadata files one after another
// (_invocation, _jobmode, _mrosource, _versions, _tags, _uuid, _timestamp) and
// cleans up only on errors: an mrp that is killed in between leaves a PREFIX
// of them (and its _lock, which the operator removes).  For every such prefix:
// re-attach with semantically edited library sources and the byte-identical
// invocation.  Oracle (the property's safe direction): the attach is never
// ACCEPTED with a changed meaning; it may be refused for any reason.  With the
// unchanged sources the outcome is only recorded.

import (
	"fmt"
	"os"
	"path/filepath"

	"github.com/martian-lang/martian/martian/core"
)

// the files in the order InvokePipeline writes them
var c15InvokeFiles = []string{"_invocation", "_jobmode", "_mrosource", "_versions", "_tags", "_uuid", "_timestamp"}

func c15CrashDuringInvoke(c *Ctx, rt *core.Runtime, pr *c15Pair, n int) {
	r := c.Res
	input := map[string]interface{}{"edit": pr.edit, "what": pr.desc, "original": pr.a.text, "edited": pr.b.text}
	for keep := 0; keep < len(c15InvokeFiles); keep++ {
		psdir := filepath.Join(c.Scratch, fmt.Sprintf("cr%06d_%d", n, keep))
		ps, err := rt.InvokePipeline(pr.a.inv, filepath.Join(pr.a.dir, "invocation.mro"), "ps", psdir,
			[]string{pr.a.dir}, "verif", nil, nil)
		if err != nil {
			os.RemoveAll(psdir)
			r.hist("crash-invoke-rejected-by-call-graph-builder")
			return
		}
		// the killed mrp: its lock is removed by the operator, the files after the crash point were never written
		ps.Unlock()
		os.Remove(filepath.Join(psdir, "_lock"))
		missing := false
		for _, f := range c15InvokeFiles[keep:] {
			if err := os.Remove(filepath.Join(psdir, f)); err != nil && !os.IsNotExist(err) {
				missing = true
			}
		}
		if missing {
			r.note("crash-during-invoke: could not remove a metadata file in %s", psdir)
		}
		written := "nothing"
		if keep > 0 {
			written = c15InvokeFiles[keep-1]
		}
		p2, err := c15Attach(rt, psdir, pr.b, false)
		accepted := err == nil
		r.hist(fmt.Sprintf("crash-during-invoke:last-written=%s:semantic=%v:accepted=%v", written, pr.semantic, accepted))
		r.count(fmt.Sprintf("crash\x00%d\x00%s\x00%s", keep, pr.a.text, pr.b.text), true)
		if accepted && pr.semantic {
			r.violate(Violation{Kind: "property", Key: "C15:crash-during-invoke:semantic-edit-accepted",
				What: fmt.Sprintf("mrp was killed while creating the pipestance (last metadata file written: %s; _lock removed by the operator); "+
					"re-attach with the byte-identical invocation and a SEMANTICALLY edited library is accepted: %s", written, pr.desc),
				Input:  map[string]interface{}{"edit": pr.edit, "what": pr.desc, "original": pr.a.text, "edited": pr.b.text, "files_present": c15InvokeFiles[:keep]},
				Impl:   "accepted",
				Expect: "refused", Broken: "theorem Props.C15.equiv_iff_compared_meaning_eq (end to end, interrupted InvokePipeline)"})
		}
		if accepted {
			p2.Unlock()
		} else if _, lerr := os.Stat(filepath.Join(psdir, "_lock")); lerr == nil {
			r.violate(Violation{Kind: "property", Key: "C15:refused-attach-keeps-lock",
				What: "a re-attach refused on an interrupted pipestance leaves it locked (last file written: " + written + ")", Input: input})
		}
		os.RemoveAll(psdir)
	}
}
