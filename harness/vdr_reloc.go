package main

// C14 / C04: a directory ABOVE the stages — a sub-pipeline's directory — is a
// symbolic link to another volume.  The realistic sequence: mrp is interrupted
// (or dies), the operator moves a big sub-pipeline directory somewhere else
// and links it back, mrp is restarted.  Martian refuses to remove volatile
// data across a link (Node.vdrCheckSymlink looks at the node's directory and
// at every pipeline directory above it), so from then on nothing below the
// relocated directory may disappear: every file of the stages' files/ and
// tmp/ directories found there after the restart is watched like the other
// data outside the pipestance directory (after every scheduler step and after
// the final VDRKill).  What lies below the link is outside the pipestance
// directory: it is not part of the tree snapshots, and its forks are not
// judged by the reclaim monitors or replayed in the model.

import (
	"fmt"
	"os"
	"path"
	"path/filepath"
	"sort"
	"strings"

	"github.com/martian-lang/martian/martian/syntax"
)

// relocation state of a run
type vdrReloc struct {
	// what is judged as outside the pipestance: the relocated directory itself, or — when a
	// directory below a stage fork was relocated — the whole fork (VDR refuses the fork)
	ScopeRel string
	LinkRel  string // the relocated directory, relative to the pipestance directory
	Target  string // where its content lives now
	watched []string
	// the tree below the link (names as below the pipestance directory) right
	// after the restart and right after the final VDRKill
	treeAtRestart, treeAtKill map[string]vdrEnt
	// fork directories (relative) that had a kill report when mrp was restarted
	reported map[string]bool
}

// relocTree lists what lies below the relocated directory, named as mrp names it.
func (v *vdrRun) relocTree() map[string]vdrEnt {
	out := map[string]vdrEnt{}
	for rel, e := range lstatTree(v.reloc.Target) {
		out[v.reloc.LinkRel+"/"+rel] = e
	}
	return out
}

// relocReplay: the forks below the relocated directory in the model.  VDR
// refuses them (Node.vdrCheckSymlink), which the model expresses by a history
// without temp cleaning and kill passes (refused_fork_untouched): from the
// real bookkeeping and the entries found after the restart, with all that
// happened to the consumers, nothing is removed and nothing reported.
func (v *vdrRun) relocReplay() {
	if v.reloc == nil || v.reloc.treeAtRestart == nil || v.reloc.treeAtKill == nil || v.postKill == nil {
		return
	}
	var done []string
	for n, st := range v.postKill.Nodes {
		if st == "complete" || st == "disabled" {
			done = append(done, n)
		}
	}
	sort.Strings(done)
	for i := range v.postKill.RelocForks {
		f := &v.postKill.RelocForks[i]
		if f.Kind != "stage" {
			continue
		}
		dir := v.rel(f.Path)
		hadReport := v.reloc.reported[dir]
		for _, n := range []string{"_vdrkill", "_vdrkill.partial"} {
			if _, ok := v.reloc.treeAtRestart[dir+"/"+n]; ok {
				hadReport = true
			}
		}
		if hadReport {
			v.hist("reloc-replay-skipped-reported-before-relocation")
			continue
		}
		init, ok := v.initView[f.Node]
		if !ok {
			continue
		}
		disk := v.forkDisk(f, v.reloc.treeAtRestart, false)
		if disk == "." {
			continue
		}
		evs := []string{"e", "c"}
		for _, d := range done {
			evs = append(evs, "d"+hx(d))
		}
		var rep *vdrReport
		for _, n := range []string{"_vdrkill", "_vdrkill.partial"} {
			if b, err := os.ReadFile(path.Join(v.psdir, dir, n)); err == nil {
				rep, _ = parseVdrReport(n, b)
			}
		}
		var paths []string
		if rep != nil {
			paths = rep.Paths
		}
		req := []string{"C04.run", vdrFlags(f), ".", ".", vdrHexAssoc(init.FileArgs, true), vdrHexAssoc(init.FilePostNodes, false),
			"none", disk, ".", "0|0", ".", strings.Join(evs, ",")}
		v.res.Checks = append(v.res.Checks, VdrModelCheck{Name: "refused_fork_replay", Req: req, DiskOnly: true,
			Expect: v.expectState(f, v.goneUnder(f, v.reloc.treeAtRestart, v.reloc.treeAtKill), rep, paths),
			What:   "fork " + f.Fqname + " lies below a relocated (linked) pipeline directory: VDR must refuse it — nothing of what was there after the restart removed, nothing reported, not final"})
		v.hist("refused-fork-replayed")
	}
}

func (v *vdrRun) underReloc(rel string) bool {
	return v.reloc != nil && (rel == v.reloc.ScopeRel || strings.HasPrefix(rel, v.reloc.ScopeRel+"/"))
}

// stageDirCandidates: directories at or below the stage forks — the fork
// directory (level "fork"), a job's real directory chnkN-u… / split-u… /
// join-u… ("job") or its files directory ("files") — that hold stage files.
func (v *vdrRun) stageDirCandidates(level string) []string {
	set := map[string]bool{}
	filepath.Walk(v.psdir, func(p string, info os.FileInfo, err error) error {
		if err != nil || !info.Mode().IsRegular() {
			return nil
		}
		rel, e := filepath.Rel(v.psdir, p)
		if e != nil {
			return nil
		}
		jd, region, ok := stageRegion(rel)
		if !ok || region != "files" || !strings.Contains(path.Base(jd), "-u") {
			return nil
		}
		switch level {
		case "fork":
			set[path.Dir(jd)] = true
		case "job":
			set[jd] = true
		case "files":
			set[jd+"/files"] = true
		}
		return nil
	})
	var out []string
	for d := range set {
		if st, err := os.Lstat(path.Join(v.psdir, d)); err == nil && st.IsDir() {
			out = append(out, d)
		}
	}
	sort.Strings(out)
	return out
}

// subPipelineDirs: existing directories of sub-pipeline calls (any depth).
func (v *vdrRun) subPipelineDirs() []string {
	var out []string
	v.walkCalls(func(fq string, call *syntax.CallStm, callable syntax.Callable, parent *syntax.Pipeline, prefix string) {
		if _, ok := callable.(*syntax.Pipeline); !ok || parent == nil {
			return
		}
		// fq is ID.<psid>.TOP.SUB…: the directory is TOP/SUB/…
		parts := strings.Split(fq, ".")
		if len(parts) < 4 {
			return
		}
		rel := strings.Join(parts[2:], "/")
		if st, err := os.Lstat(path.Join(v.psdir, rel)); err == nil && st.IsDir() {
			out = append(out, rel)
		}
	})
	sort.Strings(out)
	return out
}

// relocCandidates: sub-pipeline directories below which stages have written files.
func (v *vdrRun) relocCandidates() []string {
	if l := v.spec.RelocLevel; l != "" {
		return v.stageDirCandidates(l)
	}
	var out []string
	for _, rel := range v.subPipelineDirs() {
		n := 0
		filepath.Walk(path.Join(v.psdir, rel), func(p string, info os.FileInfo, err error) error {
			if err == nil && info.Mode().IsRegular() {
				if r, e := filepath.Rel(v.psdir, p); e == nil {
					if _, _, ok := stageRegion(r); ok {
						n++
					}
				}
			}
			return nil
		})
		if n > 0 {
			out = append(out, rel)
		}
	}
	return out
}

// crashRelocateRestart is TARun.Crash with the operator's relocation between
// the death of mrp and its restart.
func (v *vdrRun) crashRelocateRestart() error {
	r := v.r
	cands := v.relocCandidates()
	if len(cands) == 0 || v.reloc != nil {
		return r.Crash()
	}
	r.log("crash", "", "")
	r.ps.VerifStorageBarrier()
	r.ps = nil
	r.rt = nil
	r.killPending(r.Opts.CrashSurvive)
	if r.Tracer != nil {
		r.Tracer.emit("crash")
	}
	os.Remove(path.Join(r.PsDir, "_lock"))
	rel := cands[r.Rng.Intn(len(cands))]
	src := path.Join(v.psdir, rel)
	dstDir := path.Join(filepath.Dir(v.psdir), "othervolume")
	os.MkdirAll(dstDir, 0o755)
	dst := path.Join(dstDir, strings.ReplaceAll(rel, "/", "_"))
	if err := os.Rename(src, dst); err == nil {
		if err := os.Symlink(dst, src); err != nil {
			os.Rename(dst, src)
		} else {
			v.reloc = &vdrReloc{LinkRel: rel, ScopeRel: rel, Target: dst}
			switch v.spec.RelocLevel {
			case "job":
				v.reloc.ScopeRel = path.Dir(rel)
			case "files":
				v.reloc.ScopeRel = path.Dir(path.Dir(rel))
			}
			r.log("relocate", "", rel+" -> "+dst)
			if v.spec.RelocLevel == "" {
				v.hist("sub-pipeline-directory-relocated")
			} else {
				v.hist("stage-directory-relocated-" + v.spec.RelocLevel)
			}
			// what is below the link is not part of the pipestance tree any more
			for e := range v.ever {
				if v.underReloc(e) {
					delete(v.ever, e)
				}
			}
		}
	}
	if err := r.Restart(); err != nil {
		return err
	}
	if v.reloc != nil {
		v.watchRelocated()
		v.reloc.treeAtRestart = v.relocTree()
		v.reloc.reported = map[string]bool{}
		filepath.Walk(path.Join(v.psdir, v.reloc.ScopeRel), func(p string, info os.FileInfo, err error) error {
			if err == nil && (info.Name() == "_vdrkill" || info.Name() == "_vdrkill.partial") {
				v.reloc.reported[v.rel(path.Dir(p))] = true
			}
			return nil
		})
	}
	return nil
}

// watchRelocated registers every file of the stages' files/ and tmp/
// directories below the relocated directory as data outside the pipestance.
func (v *vdrRun) watchRelocated() {
	n := 0
	filepath.Walk(v.reloc.Target, func(p string, info os.FileInfo, err error) error {
		if err != nil || !info.Mode().IsRegular() {
			return nil
		}
		rel, _ := filepath.Rel(v.reloc.Target, p)
		if _, _, ok := stageRegion(v.reloc.LinkRel + "/" + rel); !ok {
			return nil
		}
		if b, err := os.ReadFile(p); err == nil {
			v.outside[p] = string(b)
			v.reloc.watched = append(v.reloc.watched, p)
			n++
		}
		return nil
	})
	if n > 0 {
		v.hist("relocated-stage-files-watched")
	}
	v.res.Hist["relocated-files"] += n
}

// unwatchRelocated: post-processing may legitimately move final outputs out
// of the stages' directories.
func (v *vdrRun) unwatchRelocated() {
	if v.reloc == nil {
		return
	}
	for _, p := range v.reloc.watched {
		delete(v.outside, p)
	}
}

var _ = fmt.Sprint

// guardChecks: the model's guard (refusedBy over the links found on the chain of
// directories the code lstats) against the verdict of the real
// Fork.vdrAcrossSymlink, for the forks of a run (all of them after a relocation).
func (v *vdrRun) guardChecks() {
	if v.r == nil || v.r.ps == nil {
		return
	}
	n := 0
	for _, g := range v.r.ps.VerifVdrGuards() {
		if v.reloc == nil && n >= 4 {
			break
		}
		var ents []string
		seen := map[string]bool{}
		for _, p := range g.Chain {
			if seen[p] {
				continue
			}
			seen[p] = true
			st, err := os.Lstat(p)
			if err != nil {
				continue
			}
			link := "~"
			if st.Mode()&os.ModeSymlink != 0 {
				if t, err := os.Readlink(p); err == nil && t != "" {
					link = hx(t)
				}
			}
			ents = append(ents, hx(p)+":"+link)
		}
		fs := "."
		if len(ents) > 0 {
			fs = strings.Join(ents, ";")
		}
		chain := make([]string, 0, len(seen))
		for p := range seen {
			chain = append(chain, hx(p))
		}
		sort.Strings(chain)
		cl := "."
		if len(chain) > 0 {
			cl = strings.Join(chain, ",")
		}
		v.res.Checks = append(v.res.Checks, VdrModelCheck{Name: "guard", Req: []string{"C04.refused", fs, cl},
			Expect: fmt.Sprint(g.Refused),
			What:   "the symlink guard of fork " + g.Fqname + " (Fork.vdrAcrossSymlink) against the model's refusedBy over the directories it lstats"})
		n++
		if g.Refused {
			v.hist("guard-refuses-fork")
		} else {
			v.hist("guard-admits-fork")
		}
		if g.Refused != v.underReloc(v.rel(g.Path)) {
			v.violate("C14", "correspondence", "C14:model:guard-scope",
				fmt.Sprintf("fork %s: the guard says refused=%v but the harness judges the fork as %v (relocated: %v)", g.Fqname, g.Refused, v.underReloc(v.rel(g.Path)), v.reloc != nil), nil)
		}
	}
}

// hfsChecks: the hypotheses of removed_in_place_or_nothing_fork on REAL forks.  The
// chain of guarded directories is derived here from the directory naming alone (node
// directories from the pipestance directory down, the fork directory, every job
// directory with files/ and tmp/) — not taken from the code —, the links of the file
// system are found by an independent lstat walk of the node directory (and an lstat of
// the directories above it), the walk root is a job's files directory with its lstat'ed
// tree.  The driver must find the tree well-formed and `hfsB` true, and its `refusedBy`
// over this chain must be the verdict of the real Fork.vdrAcrossSymlink.
func (v *vdrRun) hfsChecks() {
	if v.r == nil || v.r.ps == nil {
		return
	}
	n := 0
	for _, g := range v.r.ps.VerifVdrGuards() {
		if (v.reloc == nil && n >= 3) || n >= 12 {
			break
		}
		forkDir := g.Path
		nodeDir := path.Dir(forkDir)
		if !strings.HasPrefix(nodeDir, v.psdir+"/") {
			continue
		}
		var nodeDirs []string
		for d := nodeDir; d != v.psdir && strings.HasPrefix(d, v.psdir+"/"); d = path.Dir(d) {
			nodeDirs = append(nodeDirs, d)
		}
		// job directories by name, from the listing of the fork directory (through a link, if the fork directory is one)
		var jobDirs []string
		if names, err := os.ReadDir(forkDir); err == nil {
			for _, de := range names {
				nm := de.Name()
				if !(strings.HasPrefix(nm, "chnk") || strings.HasPrefix(nm, "split") || strings.HasPrefix(nm, "join")) {
					continue
				}
				st, err := os.Lstat(path.Join(forkDir, nm))
				if err != nil {
					continue
				}
				if strings.Contains(nm, "-u") || (st.IsDir() && st.Mode()&os.ModeSymlink == 0) {
					jobDirs = append(jobDirs, path.Join(forkDir, nm))
				}
			}
		}
		sort.Strings(jobDirs)
		// the links of the file system: above the node directory, and everything below it (not following links)
		links := map[string]string{}
		note := func(p string) {
			if st, err := os.Lstat(p); err == nil && st.Mode()&os.ModeSymlink != 0 {
				t, _ := os.Readlink(p)
				if t == "" {
					t = "?"
				}
				links[p] = t
			}
		}
		for _, d := range nodeDirs {
			note(d)
		}
		filepath.Walk(nodeDir, func(p string, info os.FileInfo, err error) error {
			if err == nil && info.Mode()&os.ModeSymlink != 0 {
				note(p)
			}
			return nil
		})
		// a walk root: the files directory of the first job directory that has one (reached through links, if any)
		root := ""
		for _, j := range jobDirs {
			if st, err := os.Stat(path.Join(j, "files")); err == nil && st.IsDir() {
				root = path.Join(j, "files")
				break
			}
		}
		if root == "" {
			continue
		}
		flat := map[string]vdrEnt{}
		if st, err := os.Lstat(root); err == nil && st.Mode()&os.ModeSymlink == 0 {
			flat = lstatTree(root)
		}
		var ents []string
		var lp []string
		for p := range links {
			lp = append(lp, p)
		}
		sort.Strings(lp)
		for _, p := range lp {
			ents = append(ents, hx(p)+":"+hx(links[p]))
		}
		fs := "."
		if len(ents) > 0 {
			fs = strings.Join(ents, ";")
		}
		hexList := func(xs []string) string {
			if len(xs) == 0 {
				return "."
			}
			o := make([]string, len(xs))
			for i, x := range xs {
				o[i] = hx(x)
			}
			return strings.Join(o, ",")
		}
		v.res.Checks = append(v.res.Checks, VdrModelCheck{Name: "hfs_on_fork",
			Req:    []string{"C04.hfs", fs, hexList(nodeDirs), hx(forkDir), hexList(jobDirs), hx(root), vwEncode(vwFromFlat(flat, ""))},
			Expect: fmt.Sprintf("wf=true hfs=true refused=%v", g.Refused),
			What: "fork " + g.Fqname + ": the hypotheses of removed_in_place_or_nothing_fork (tree well-formed, hfsB over the chain derived from the directory naming) on the independently lstat'ed file system, and refusedBy over that chain against the real Fork.vdrAcrossSymlink"})
		n++
		v.hist("hfs-on-fork")
		if len(links) > 0 {
			v.hist("hfs-on-fork-with-links")
		}
		if g.Refused {
			v.hist("hfs-on-refused-fork")
		}
	}
}
