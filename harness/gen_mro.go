package main

// Random generator of well-typed MRO programs (shared by the runtime
// properties).  It is deliberately approximate about the type rules: every
// candidate is compiled with the real compiler and rejected programs are
// dropped (the rejection rate is reported in the evidence histogram).

import (
	"fmt"
	"math/rand"
	"sort"
	"strings"
)

// GTy: base[dims] or map<base[inner]>[dims]
type GTy struct {
	Base  string // int float string bool file txt map PAIR WIDE OUTER
	Dim   int    // outer array dims
	Map   bool
	Inner int // array dims inside the map
}

func (t GTy) String() string {
	s := t.Base
	if t.Map {
		s = "map<" + t.Base + strings.Repeat("[]", t.Inner) + ">"
	}
	return s + strings.Repeat("[]", t.Dim)
}

func (t GTy) elem() (GTy, bool) { // element of outermost collection
	if t.Dim > 0 {
		e := t
		e.Dim--
		return e, true
	}
	if t.Map {
		return GTy{Base: t.Base, Dim: t.Inner}, true
	}
	return t, false
}

func (t GTy) isScalar() bool { return t.Dim == 0 && !t.Map }

// lift for a call mapped over an array / a typed map
func (t GTy) liftArray() GTy { t.Dim++; return t }
func (t GTy) liftMap() (GTy, bool) {
	if t.Map || t.Base == "map" {
		return t, false
	}
	return GTy{Base: t.Base, Map: true, Inner: t.Dim}, true
}

type GParam struct {
	Name string
	Ty   GTy
}

type gStruct struct {
	Name   string
	Fields []GParam
}

var gStructs = []gStruct{
	{"PAIR", []GParam{{"a", GTy{Base: "int"}}, {"b", GTy{Base: "string"}}}},
	{"WIDE", []GParam{{"a", GTy{Base: "int"}}, {"b", GTy{Base: "string"}}, {"c", GTy{Base: "float"}}, {"xs", GTy{Base: "int", Dim: 1}}}},
	{"OUTER", []GParam{{"p", GTy{Base: "PAIR"}}, {"ys", GTy{Base: "int", Dim: 1}}, {"m", GTy{Base: "int", Map: true}}, {"ps", GTy{Base: "PAIR", Dim: 1}}}},
	{"FILES", []GParam{{"f", GTy{Base: "txt"}}, {"n", GTy{Base: "int"}}, {"fs", GTy{Base: "file", Dim: 1}}}},
}

func gStructByName(n string) *gStruct {
	for i := range gStructs {
		if gStructs[i].Name == n {
			return &gStructs[i]
		}
	}
	return nil
}

type GCallable struct {
	Name     string
	Ins      []GParam
	Outs     []GParam
	IsStage  bool
	Split    bool
	ChunkIn  []GParam
	ChunkOut []GParam
	Volatile bool
	Body     string // pipeline body text
	Depth    int
	KeyedMap bool // contains (transitively) a call mapped over a typed map
}

type GenOpts struct {
	Files       bool // allow file-typed params (VDR / post-process properties)
	MaxDepth    int
	MaxCalls    int
	NoDisable   bool
	NoMap       bool
	Preflight   bool
	Retain      bool
	NestedKeyed bool // allow a keyed map call around a pipeline that contains a keyed map call
}

type gen struct {
	rng    *rand.Rand
	opts   GenOpts
	stages []*GCallable
	pipes  []*GCallable
	n      int
	Stats  map[string]int
}

type gSource struct {
	Expr string
	Ty   GTy
	Dyn  bool // value only known at run time
}

func (g *gen) stat(k string) { g.Stats[k]++ }

func (g *gen) randScalarBase() string {
	bases := []string{"int", "int", "string", "float", "bool", "PAIR", "WIDE", "OUTER", "map"}
	if g.opts.Files {
		bases = append(bases, "file", "txt", "FILES", "txt", "file")
	}
	return bases[g.rng.Intn(len(bases))]
}

func (g *gen) randType() GTy {
	t := GTy{Base: g.randScalarBase()}
	switch g.rng.Intn(10) {
	case 0, 1, 2:
		t.Dim = 1
	case 3:
		t.Dim = 2
	case 4:
		if t.Base != "map" {
			t.Map = true
		}
	case 5:
		if t.Base != "map" {
			t.Map = true
			t.Inner = 1
		}
	}
	return t
}

func (g *gen) name(prefix string) string {
	g.n++
	return fmt.Sprintf("%s%d", prefix, g.n)
}

// newPreflightStage: preflight stages may not have outputs.
func (g *gen) newPreflightStage() *GCallable {
	st := &GCallable{Name: g.name("PRE"), IsStage: true}
	st.Ins = []GParam{{"i0", GTy{Base: []string{"int", "string", "bool"}[g.rng.Intn(3)]}}}
	if g.rng.Intn(2) == 0 {
		st.Ins = append(st.Ins, GParam{"i1", GTy{Base: "int", Dim: 1}})
	}
	g.stages = append(g.stages, st)
	return st
}

// newFlagsStage produces run-time boolean flags (disabled conditions, per-fork flags).
func (g *gen) newFlagsStage() *GCallable {
	st := &GCallable{Name: g.name("FLAGS"), IsStage: true}
	st.Ins = []GParam{{"i0", GTy{Base: "int"}}}
	st.Outs = []GParam{{"flag", GTy{Base: "bool"}}, {"flags", GTy{Base: "bool", Dim: 1}}, {"n", GTy{Base: "int", Dim: 1}}}
	g.stages = append(g.stages, st)
	return st
}

func (g *gen) newStage() *GCallable {
	st := &GCallable{Name: g.name("ST"), IsStage: true}
	nin := 1 + g.rng.Intn(3)
	for i := 0; i < nin; i++ {
		st.Ins = append(st.Ins, GParam{fmt.Sprintf("i%d", i), g.randType()})
	}
	nout := 1 + g.rng.Intn(3)
	for i := 0; i < nout; i++ {
		st.Outs = append(st.Outs, GParam{fmt.Sprintf("o%d", i), g.randType()})
	}
	if g.rng.Intn(8) == 0 {
		st.Outs = append(st.Outs, GParam{"flag", GTy{Base: "bool"}})
	}
	if g.rng.Intn(3) == 0 {
		st.Split = true
		st.ChunkIn = []GParam{{"ci", GTy{Base: "int"}}}
		if g.rng.Intn(2) == 0 {
			st.ChunkIn = append(st.ChunkIn, GParam{"cs", GTy{Base: "string", Dim: 1}})
		}
		st.ChunkOut = []GParam{{"co", g.randType()}}
	}
	st.Volatile = g.rng.Intn(3) == 0
	g.stages = append(g.stages, st)
	return st
}

func (st *GCallable) declText(g *gen) string {
	var sb strings.Builder
	if st.IsStage {
		fmt.Fprintf(&sb, "stage %s(\n", st.Name)
	} else {
		fmt.Fprintf(&sb, "pipeline %s(\n", st.Name)
	}
	for _, p := range st.Ins {
		fmt.Fprintf(&sb, "    in  %s %s,\n", p.Ty, p.Name)
	}
	for _, p := range st.Outs {
		fmt.Fprintf(&sb, "    out %s %s,\n", p.Ty, p.Name)
	}
	if st.IsStage {
		sb.WriteString("    src comp \"fake\",\n)")
		if st.Split {
			sb.WriteString(" split (\n")
			for _, p := range st.ChunkIn {
				fmt.Fprintf(&sb, "    in  %s %s,\n", p.Ty, p.Name)
			}
			for _, p := range st.ChunkOut {
				fmt.Fprintf(&sb, "    out %s %s,\n", p.Ty, p.Name)
			}
			sb.WriteString(")")
		}
		if st.Volatile {
			sb.WriteString(" using (\n    volatile = strict,\n)")
		}
		if g.opts.Retain && g.rng.Intn(4) == 0 {
			for _, p := range st.Outs {
				if isFileBase(p.Ty.Base) {
					fmt.Fprintf(&sb, " retain (\n    %s,\n)", p.Name)
					break
				}
			}
		}
		sb.WriteString("\n\n")
	} else {
		sb.WriteString(")\n{\n")
		sb.WriteString(st.Body)
		sb.WriteString("}\n\n")
	}
	return sb.String()
}

func isFileBase(b string) bool { return b == "file" || b == "txt" || b == "FILES" }

// ---- expressions ----

func (g *gen) literal(t GTy, depth int) string {
	if g.rng.Intn(12) == 0 {
		return "null"
	}
	if t.Dim > 0 {
		e, _ := t.elem()
		n := []int{0, 1, 2, 2, 3}[g.rng.Intn(5)]
		if depth > 1 && n > 2 {
			n = 2
		}
		parts := make([]string, n)
		for i := range parts {
			parts[i] = g.literal(e, depth+1)
		}
		return "[" + strings.Join(parts, ", ") + "]"
	}
	if t.Map {
		e, _ := t.elem()
		n := []int{1, 1, 2, 2, 3}[g.rng.Intn(5)] // MRO has no empty map literal
		keys := []string{"a", "b", "c", "k1"}
		g.rng.Shuffle(len(keys), func(i, j int) { keys[i], keys[j] = keys[j], keys[i] })
		ks := keys[:n]
		sort.Strings(ks)
		parts := make([]string, n)
		for i, k := range ks {
			parts[i] = fmt.Sprintf("%q: %s", k, g.literal(e, depth+1))
		}
		return "{" + strings.Join(parts, ", ") + "}"
	}
	switch t.Base {
	case "int":
		return fmt.Sprint(g.rng.Intn(20) - 3)
	case "float":
		return []string{"1.5", "2", "0.25", "-3.5", "1e3"}[g.rng.Intn(5)]
	case "string":
		return fmt.Sprintf("%q", []string{"x", "hello", "", "a b", "é"}[g.rng.Intn(5)])
	case "bool":
		return []string{"true", "false"}[g.rng.Intn(2)]
	case "map":
		return `{"k": 1, "j": "v"}`
	case "file", "txt":
		return "null"
	}
	if s := gStructByName(t.Base); s != nil {
		parts := make([]string, len(s.Fields))
		for i, f := range s.Fields {
			parts[i] = fmt.Sprintf("%s: %s", f.Name, g.literal(f.Ty, depth+1))
		}
		return "{" + strings.Join(parts, ", ") + "}"
	}
	return "null"
}

// assignable(dst, src): approximate
func gAssignable(dst, src GTy) bool {
	if dst.Dim != src.Dim || dst.Map != src.Map || dst.Inner != src.Inner {
		return false
	}
	if dst.Base == src.Base {
		return true
	}
	if dst.Base == "float" && src.Base == "int" {
		return true
	}
	if dst.Base == "PAIR" && src.Base == "WIDE" {
		return true
	}
	if (dst.Base == "file" || dst.Base == "string") && (src.Base == "txt" || src.Base == "file" || src.Base == "string") {
		return true
	}
	return false
}

// all typed expressions reachable from a source by projection
func (g *gen) projections(s gSource) []gSource {
	out := []gSource{s}
	st := gStructByName(s.Ty.Base)
	if st == nil {
		return out
	}
	for _, f := range st.Fields {
		ft := f.Ty
		// projecting through arrays / maps of the struct lifts the field type
		nt := ft
		ok := true
		if s.Ty.Map {
			// map<S[inner]> . f  => map<F[inner...]>
			if ft.Map || ft.Base == "map" {
				ok = false
			}
			nt = GTy{Base: ft.Base, Map: true, Inner: ft.Dim + s.Ty.Inner, Dim: s.Ty.Dim}
		} else {
			nt.Dim += s.Ty.Dim
		}
		if !ok {
			continue
		}
		out = append(out, g.projections(gSource{Expr: s.Expr + "." + f.Name, Ty: nt, Dyn: s.Dyn})...)
	}
	return out
}

func (g *gen) findExpr(t GTy, scope []gSource, depth int) (string, bool) {
	var cands []gSource
	for _, s := range scope {
		for _, p := range g.projections(s) {
			if gAssignable(t, p.Ty) {
				cands = append(cands, p)
			}
		}
	}
	roll := g.rng.Intn(10)
	if len(cands) > 0 && roll < 7 {
		c := cands[g.rng.Intn(len(cands))]
		g.stat("bind_ref")
		if strings.Count(c.Expr, ".") > 1 {
			g.stat("bind_projection")
		}
		return c.Expr, c.Dyn
	}
	// composite literal with embedded references
	if depth < 2 && roll < 9 {
		if t.Dim > 0 {
			e, _ := t.elem()
			n := 1 + g.rng.Intn(2)
			parts := make([]string, n)
			dyn := false
			for i := range parts {
				x, d := g.findExpr(e, scope, depth+1)
				parts[i] = x
				dyn = dyn || d
			}
			g.stat("bind_array_literal")
			return "[" + strings.Join(parts, ", ") + "]", dyn
		}
		if st := gStructByName(t.Base); st != nil && t.isScalar() {
			parts := make([]string, len(st.Fields))
			dyn := false
			for i, f := range st.Fields {
				x, d := g.findExpr(f.Ty, scope, depth+1)
				parts[i] = fmt.Sprintf("%s: %s", f.Name, x)
				dyn = dyn || d
			}
			g.stat("bind_struct_literal")
			return "{" + strings.Join(parts, ", ") + "}", dyn
		}
		if t.Map && t.Dim == 0 {
			e, _ := t.elem()
			x, d := g.findExpr(e, scope, depth+1)
			y, d2 := g.findExpr(e, scope, depth+1)
			g.stat("bind_map_literal")
			return fmt.Sprintf(`{"a": %s, "k1": %s}`, x, y), d || d2
		}
	}
	g.stat("bind_literal")
	return g.literal(t, depth), false
}

// ---- pipelines ----

func (g *gen) newPipeline(depth int, top bool) *GCallable {
	p := &GCallable{Name: g.name("PL"), Depth: depth}
	if top {
		p.Name = "TOP"
	}
	nin := 1 + g.rng.Intn(3)
	for i := 0; i < nin; i++ {
		t := g.randType()
		if isFileBase(t.Base) {
			t = GTy{Base: "int", Dim: t.Dim}
		}
		p.Ins = append(p.Ins, GParam{fmt.Sprintf("x%d", i), t})
	}
	if g.rng.Intn(3) == 0 {
		p.Ins = append(p.Ins, GParam{"enable", GTy{Base: "bool"}})
	}
	if g.rng.Intn(2) == 0 {
		p.Ins = append(p.Ins, GParam{"items", GTy{Base: []string{"int", "PAIR", "string"}[g.rng.Intn(3)], Dim: 1}})
	}
	var scope []gSource
	for _, in := range p.Ins {
		scope = append(scope, gSource{Expr: "self." + in.Name, Ty: in.Ty, Dyn: false})
	}
	var body strings.Builder
	ncalls := 1 + g.rng.Intn(g.opts.MaxCalls)
	used := map[string]int{}
	preDone := false
	for ci := 0; ci < ncalls; ci++ {
		var callee *GCallable
		if g.opts.Preflight && !preDone && (g.rng.Intn(5) == 0 || (top && g.rng.Intn(2) == 0)) {
			// a preflight call: inputs from literals / pipeline inputs only, no outputs
			preDone = true
			pre := g.newPreflightStage()
			var selfOnly []gSource
			for _, sc := range scope {
				if strings.HasPrefix(sc.Expr, "self.") {
					selfOnly = append(selfOnly, sc)
				}
			}
			fmt.Fprintf(&body, "    call %s(\n", pre.Name)
			for _, in := range pre.Ins {
				ex, _ := g.findExpr(in.Ty, selfOnly, 2)
				fmt.Fprintf(&body, "        %s = %s,\n", in.Name, ex)
			}
			body.WriteString("    ) using (\n        preflight = true,\n    )\n\n")
			g.stat("preflight")
			continue
		}
		if g.rng.Intn(9) == 0 {
			callee = g.newFlagsStage()
		} else if depth < g.opts.MaxDepth && (g.rng.Intn(3) == 0 || (preDone && g.rng.Intn(2) == 0)) {
			// (after a preflight call: prefer nested pipelines, whose stages the preflight must also hold back)
			callee = g.newPipeline(depth+1, false)
		} else if len(g.stages) > 0 && g.rng.Intn(3) == 0 {
			callee = g.stages[g.rng.Intn(len(g.stages))]
		} else {
			callee = g.newStage()
		}
		id := callee.Name
		alias := ""
		if used[callee.Name] > 0 || g.rng.Intn(6) == 0 {
			alias = fmt.Sprintf("%s_A%d", callee.Name, ci)
			id = alias
			g.stat("alias")
		}
		used[callee.Name]++
		if callee.KeyedMap {
			p.KeyedMap = true
		}
		// choose map-call split params
		mode := "" // "", "array", "map"
		splitParams := map[string]bool{}
		if !g.opts.NoMap && g.rng.Intn(3) == 0 {
			mode = "array"
			if g.rng.Intn(3) == 0 {
				mode = "map"
			}
			perm := g.rng.Perm(len(callee.Ins))
			ns := 1
			if g.rng.Intn(5) == 0 {
				ns = 2
			}
			for _, i := range perm {
				if len(splitParams) >= ns {
					break
				}
				pt := callee.Ins[i].Ty
				if mode == "map" && pt.Map {
					continue
				}
				splitParams[callee.Ins[i].Name] = true
			}
			if len(splitParams) == 0 {
				mode = ""
			}
			if mode == "map" && callee.KeyedMap && !g.opts.NestedKeyed {
				// map-over-map nesting: accepted by the compiler but crashes mrp (finding F18)
				mode = "array"
			}
			if mode == "map" {
				p.KeyedMap = true
			}
		}
		var binds []string
		forcedSplit := ""
		splitLen := -1
		var splitKeys []string
		firstSplitDyn := ""
		// a mapped sub-pipeline whose disabling flag is split per fork from a run-time collection
		if !g.opts.NoMap && !g.opts.NoDisable && !callee.IsStage && g.rng.Intn(2) == 0 {
			for _, in := range callee.Ins {
				if in.Name == "enable" && in.Ty == (GTy{Base: "bool"}) {
					var src string
					for _, sc := range scope {
						if sc.Dyn && sc.Ty == (GTy{Base: "bool", Dim: 1}) {
							src = sc.Expr
						}
					}
					if src == "" {
						fl := g.newFlagsStage()
						fmt.Fprintf(&body, "    call %s(\n        i0 = %d,\n    )\n\n", fl.Name, g.rng.Intn(9))
						for _, o := range fl.Outs {
							scope = append(scope, gSource{Expr: fl.Name + "." + o.Name, Ty: o.Ty, Dyn: true})
						}
						src = fl.Name + ".flags"
					}
					mode = "array"
					splitParams = map[string]bool{"enable": true}
					forcedSplit = src
					g.stat("split_enable_flag_dynamic")
				}
			}
		}
		for _, in := range callee.Ins {
			if splitParams[in.Name] {
				var ct GTy
				if mode == "array" {
					ct = in.Ty.liftArray()
				} else {
					ct, _ = in.Ty.liftMap()
				}
				// second split: must agree in length/keys with the first: use literals of equal shape,
				// or the same dynamic source
				var ex string
				var dyn bool
				if splitLen >= 0 || splitKeys != nil {
					ex = g.splitLiteral(in.Ty, mode, splitLen, splitKeys)
				} else if firstSplitDyn != "" {
					ex = g.splitLiteral(in.Ty, mode, 2, []string{"a", "b"})
					// cannot match a dynamic source statically: demote to a plain binding
					ex2, _ := g.findExpr(in.Ty, scope, 0)
					binds = append(binds, fmt.Sprintf("        %s = %s,\n", in.Name, ex2))
					_ = ex
					continue
				} else if forcedSplit != "" && in.Name == "enable" {
					ex, dyn = forcedSplit, true
					firstSplitDyn = ex
				} else {
					ex, dyn = g.findExpr(ct, scope, 1)
					if dyn {
						firstSplitDyn = ex
						g.stat("split_dynamic")
					} else if strings.HasPrefix(ex, "[") {
						splitLen = strings.Count(topLevelCommas(ex), ",") + 1
						if strings.TrimSpace(ex) == "[]" {
							splitLen = 0
						}
						g.stat("split_static")
					} else if strings.HasPrefix(ex, "{") {
						splitKeys = literalKeys(ex)
						g.stat("split_static")
					} else {
						g.stat("split_other")
					}
				}
				binds = append(binds, fmt.Sprintf("        %s = split %s,\n", in.Name, ex))
			} else {
				ex, _ := g.findExpr(in.Ty, scope, 0)
				binds = append(binds, fmt.Sprintf("        %s = %s,\n", in.Name, ex))
			}
		}
		callWord := "call"
		if mode != "" {
			callWord = "map call"
			g.stat("map_call_" + mode)
		}
		fmt.Fprintf(&body, "    %s %s", callWord, callee.Name)
		if alias != "" {
			fmt.Fprintf(&body, " as %s", alias)
		}
		body.WriteString("(\n")
		for _, b := range binds {
			body.WriteString(b)
		}
		body.WriteString("    )")
		var mods []string
		if !g.opts.NoDisable && g.rng.Intn(4) == 0 {
			var bools []gSource
			for _, s := range scope {
				for _, pr := range g.projections(s) {
					if pr.Ty == (GTy{Base: "bool"}) {
						bools = append(bools, pr)
					}
				}
			}
			if len(bools) > 0 {
				b := bools[g.rng.Intn(len(bools))]
				mods = append(mods, "        disabled = "+b.Expr+",\n")
				if b.Dyn {
					g.stat("disabled_dynamic")
				} else {
					g.stat("disabled_input")
				}
			}
		}
		if callee.IsStage && g.rng.Intn(8) == 0 {
			mods = append(mods, "        volatile = true,\n")
		}
		if len(mods) > 0 {
			body.WriteString(" using (\n")
			for _, m := range mods {
				body.WriteString(m)
			}
			body.WriteString("    )")
		}
		body.WriteString("\n\n")
		isPre := false
		for _, m := range mods {
			if strings.Contains(m, "preflight") {
				isPre = true
			}
		}
		if isPre {
			continue // outputs of a preflight call cannot be bound
		}
		// outputs enter the scope (lifted for mapped calls)
		for _, o := range callee.Outs {
			t := o.Ty
			ok := true
			if mode == "array" {
				t = t.liftArray()
			} else if mode == "map" {
				t, ok = t.liftMap()
			}
			if !ok {
				continue
			}
			scope = append(scope, gSource{Expr: id + "." + o.Name, Ty: t, Dyn: true})
		}
	}
	// outputs
	nout := 1 + g.rng.Intn(3)
	if !top && g.opts.Preflight && g.rng.Intn(6) == 0 {
		nout = 0 // a setup / validation pipeline: return ()
		g.stat("pipeline_without_outputs")
	}
	var ret strings.Builder
	ret.WriteString("    return (\n")
	// prefer dynamic sources
	var dynScope []gSource
	for _, s := range scope {
		if s.Dyn {
			dynScope = append(dynScope, s)
		}
	}
	for i := 0; i < nout; i++ {
		var t GTy
		var ex string
		if len(dynScope) > 0 && g.rng.Intn(5) != 0 {
			s := dynScope[g.rng.Intn(len(dynScope))]
			prs := g.projections(s)
			pr := prs[g.rng.Intn(len(prs))]
			t, ex = pr.Ty, pr.Expr
			if t.Base == "WIDE" && g.rng.Intn(2) == 0 {
				t.Base = "PAIR" // narrowing at the return binding
				g.stat("narrow_return")
			}
		} else {
			t = g.randType()
			if isFileBase(t.Base) && !g.opts.Files {
				t = GTy{Base: "int"}
			}
			ex, _ = g.findExpr(t, scope, 0)
		}
		name := fmt.Sprintf("r%d", i)
		p.Outs = append(p.Outs, GParam{name, t})
		fmt.Fprintf(&ret, "        %s = %s,\n", name, ex)
	}
	ret.WriteString("    )\n")
	p.Body = body.String() + ret.String()
	// the compiler rejects unused pipeline inputs: prune them
	var usedIns []GParam
	for _, in := range p.Ins {
		if containsIdent(p.Body, "self."+in.Name) {
			usedIns = append(usedIns, in)
		}
	}
	p.Ins = usedIns
	g.pipes = append(g.pipes, p)
	return p
}

func topLevelCommas(s string) string {
	depth := 0
	var sb strings.Builder
	inStr := false
	for i := 0; i < len(s); i++ {
		c := s[i]
		if inStr {
			if c == '\\' {
				i++
			} else if c == '"' {
				inStr = false
			}
			continue
		}
		switch c {
		case '"':
			inStr = true
		case '[', '{':
			depth++
		case ']', '}':
			depth--
		case ',':
			if depth == 1 {
				sb.WriteByte(',')
			}
		}
	}
	return sb.String()
}

func literalKeys(s string) []string {
	var keys []string
	depth := 0
	for i := 0; i < len(s); i++ {
		switch s[i] {
		case '{', '[':
			depth++
		case '}', ']':
			depth--
		case '"':
			j := i + 1
			for j < len(s) && s[j] != '"' {
				if s[j] == '\\' {
					j++
				}
				j++
			}
			if depth == 1 && j+1 < len(s) && s[j+1] == ':' {
				keys = append(keys, s[i+1:j])
			}
			i = j
		}
	}
	if keys == nil {
		keys = []string{}
	}
	return keys
}

func (g *gen) splitLiteral(elem GTy, mode string, n int, keys []string) string {
	if mode == "array" {
		if n < 0 {
			n = 2
		}
		parts := make([]string, n)
		for i := range parts {
			parts[i] = g.literal(elem, 2)
		}
		return "[" + strings.Join(parts, ", ") + "]"
	}
	parts := make([]string, len(keys))
	for i, k := range keys {
		parts[i] = fmt.Sprintf("%q: %s", k, g.literal(elem, 2))
	}
	return "{" + strings.Join(parts, ", ") + "}"
}

// GenProgram returns MRO source text with a top-level call.
func GenProgram(rng *rand.Rand, opts GenOpts) (string, map[string]int) {
	if opts.MaxDepth == 0 {
		opts.MaxDepth = 2
	}
	if opts.MaxCalls == 0 {
		opts.MaxCalls = 4
	}
	g := &gen{rng: rng, opts: opts, Stats: map[string]int{}}
	top := g.newPipeline(0, true)
	var sb strings.Builder
	sb.WriteString("filetype txt;\n\n")
	for _, s := range gStructs {
		if s.Name == "FILES" && !opts.Files {
			continue
		}
		fmt.Fprintf(&sb, "struct %s(\n", s.Name)
		for _, f := range s.Fields {
			fmt.Fprintf(&sb, "    %s %s,\n", f.Ty, f.Name)
		}
		sb.WriteString(")\n\n")
	}
	for _, st := range g.stages {
		sb.WriteString(st.declText(g))
	}
	for _, p := range g.pipes { // sub-pipelines are appended before their parents
		sb.WriteString(p.declText(g))
	}
	sb.WriteString("call TOP(\n")
	for _, in := range top.Ins {
		fmt.Fprintf(&sb, "    %s = %s,\n", in.Name, g.literal(in.Ty, 0))
	}
	sb.WriteString(")\n")
	g.Stats["stages"] += len(g.stages)
	g.Stats["pipelines"] += len(g.pipes)
	return sb.String(), g.Stats
}

func containsIdent(text, ident string) bool {
	for i := 0; ; {
		j := strings.Index(text[i:], ident)
		if j < 0 {
			return false
		}
		end := i + j + len(ident)
		if end >= len(text) || !(text[end] == '_' || text[end] >= '0' && text[end] <= '9' || text[end] >= 'a' && text[end] <= 'z' || text[end] >= 'A' && text[end] <= 'Z') {
			return true
		}
		i = end
	}
}
