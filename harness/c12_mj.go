package main

func runC12MaxJobs(c *Ctx) {}
