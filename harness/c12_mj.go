package main

// C12, part 2: MaxJobsSemaphore (cluster mode: number of simultaneously
// submitted jobs).  The real semaphore is driven with PRNG op sequences; a
// blocking Acquire runs in its own goroutine.  Quiescence is detected
// deterministically: every not-yet-returned Acquire goroutine must be parked
// in sync.Cond.Wait (read from the runtime's goroutine dump).  Each pass of a
// caller through Acquire is one `attempt` of the Lean model (MJ.attempt).

import (
	"bytes"
	"fmt"
	"runtime"
	"sort"
	"strconv"
	"strings"
	"time"

	"github.com/martian-lang/martian/martian/core"
)

type mjOp struct {
	Kind string // s setstate, a acquire, r release, f finddone, c clear
	Md   int
	St   string
	NB   bool
}

func (o mjOp) String() string {
	switch o.Kind {
	case "s":
		return fmt.Sprintf("s%d=%s", o.Md, o.St)
	case "a":
		if o.NB {
			return fmt.Sprintf("try%d", o.Md)
		}
		return fmt.Sprintf("acq%d", o.Md)
	case "r":
		return fmt.Sprintf("rel%d", o.Md)
	case "f":
		return "finddone"
	}
	return "clear"
}

func mjOpsString(ops []mjOp) string {
	p := make([]string, len(ops))
	for i, o := range ops {
		p[i] = o.String()
	}
	return strings.Join(p, " ")
}

func mjStChar(st string) string {
	switch st {
	case "":
		return "w"
	case "queued":
		return "q"
	case "running":
		return "r"
	}
	return "o"
}

func mjCancelled(st string) bool { return st != "" && st != "queued" }
func mjDone(st string) bool      { return st == "complete" || st == "failed" }

// mjParked counts goroutines parked in cond.Wait inside MaxJobsSemaphore.Acquire.
func mjParked() int {
	buf := make([]byte, 1<<16)
	for {
		n := runtime.Stack(buf, true)
		if n < len(buf) {
			buf = buf[:n]
			break
		}
		buf = make([]byte, 2*len(buf))
	}
	cnt := 0
	for _, g := range bytes.Split(buf, []byte("\n\n")) {
		if !bytes.Contains(g, []byte("(*MaxJobsSemaphore).Acquire")) {
			continue
		}
		nl := bytes.IndexByte(g, '\n')
		if nl < 0 {
			continue
		}
		hdr := g[:nl]
		if i := bytes.IndexByte(hdr, '['); i >= 0 && bytes.HasPrefix(hdr[i+1:], []byte("sync.Cond.Wait")) {
			cnt++
		}
	}
	return cnt
}

// mjDumpSignature: the states and top frames of the goroutines that are inside the
// MaxJobsSemaphore (two equal signatures some time apart = nobody moved)
func mjDumpSignature() string {
	buf := make([]byte, 1<<16)
	for {
		n := runtime.Stack(buf, true)
		if n < len(buf) {
			buf = buf[:n]
			break
		}
		buf = make([]byte, 2*len(buf))
	}
	var sig []string
	for _, g := range bytes.Split(buf, []byte("\n\n")) {
		if !bytes.Contains(g, []byte("MaxJobsSemaphore")) {
			continue
		}
		lines := bytes.SplitN(g, []byte("\n"), 4)
		if len(lines) >= 3 {
			hdr := string(lines[0])
			if i := strings.IndexByte(hdr, ','); i > 0 {
				hdr = hdr[:i] // without the "N minutes" annotation
			}
			sig = append(sig, hdr+"|"+string(lines[1])+"|"+string(bytes.TrimSpace(lines[2])))
		}
	}
	sort.Strings(sig)
	return strings.Join(sig, ";")
}

// mjAllParked: every goroutine with the MaxJobsSemaphore or the RemoteJobManager on its stack is
// blocked in sync.Cond.Wait (none is running, runnable, submitting a job or waiting for a lock).
func mjAllParked() bool {
	buf := make([]byte, 1<<16)
	for {
		n := runtime.Stack(buf, true)
		if n < len(buf) {
			buf = buf[:n]
			break
		}
		buf = make([]byte, 2*len(buf))
	}
	for _, g := range bytes.Split(buf, []byte("\n\n")) {
		if !bytes.Contains(g, []byte("MaxJobsSemaphore")) && !bytes.Contains(g, []byte("RemoteJobManager")) {
			continue
		}
		if bytes.Contains(g, []byte("main.mjAllParked")) {
			continue // the harness's own goroutine taking this dump
		}
		nl := bytes.IndexByte(g, '\n')
		if nl < 0 {
			return false
		}
		hdr := g[:nl]
		i := bytes.IndexByte(hdr, '[')
		if i < 0 || !bytes.HasPrefix(hdr[i+1:], []byte("sync.Cond.Wait")) {
			return false
		}
	}
	return true
}

var mjParkDetection = true

type mjExec struct {
	ModelOps []string // MJ ops for the driver
	Expect   []string // per model op: expected result char T/F/W/- and, after '|', Current() or * (not observed)
	StepOf   []int    // real op index of each model op
	Monitors []string
	// a call into the semaphore did not return / the callers never became quiescent: the rest of
	// the sequence was not executed and goroutines may have been left behind (possibly spinning)
	Abandoned bool
	// the same run for the model WITH callers (Martian.SemaphoreMJP, driver op C12.mjp):
	// per op the expected result (T/F/-, for Q: the parked callers, sorted, after '|' and Current())
	POps, PWant []string
	PStep       []int
}

type mjRes struct {
	wid int
	ok  bool
}

func execMJ(limit, nmd int, ops []mjOp) mjExec {
	var ex mjExec
	sem := core.NewMaxJobsSemaphore(limit)
	mds := make([]*core.Metadata, nmd)
	st := make([]string, nmd)
	for i := range mds {
		mds[i] = core.NewMetadata(fmt.Sprintf("ID.P.S%d", i), fmt.Sprintf("/nonexistent/c12/%d", i))
	}
	results := make(chan mjRes, len(ops)+4)
	blocked := map[int]int{} // wid -> md
	// callers of EARLIER sequences that a broken semaphore never released are still parked:
	// only the callers parked since now count
	step := 0
	parked0 := 0
	if mjParkDetection {
		parked0 = mjParked()
	}
	// call runs one call of the harness's own goroutine into the semaphore under a watchdog: a
	// call that spins or blocks for ever is a stall of mrp itself.  Progress-based: after the
	// load-scaled wait the goroutine dump must also have stopped changing.
	call := func(name string, f func()) bool {
		done := make(chan struct{})
		go func() { f(); close(done) }()
		deadline := time.NewTimer(c12Wait)
		defer deadline.Stop()
		last := ""
		for ext := 0; ; ext++ {
			select {
			case <-done:
				return true
			case <-deadline.C:
			}
			sig := mjDumpSignature()
			if sig == last || ext >= 3 {
				ex.Monitors = append(ex.Monitors, fmt.Sprintf("call-does-not-return@%d: %s has not returned after %v and no goroutine of the scenario moved meanwhile", step, name, c12Wait))
				ex.Abandoned = true
				return false
			}
			last = sig
			deadline.Reset(c12Wait / 4)
		}
	}
	nextW := 0
	cleared := false
	fail := func(name, f string, a ...interface{}) {
		ex.Monitors = append(ex.Monitors, fmt.Sprintf("%s@%d: %s", name, step, fmt.Sprintf(f, a...)))
	}
	pemit := func(op, want string) {
		ex.POps = append(ex.POps, op)
		ex.PWant = append(ex.PWant, want)
		ex.PStep = append(ex.PStep, step)
	}
	emit := func(op, want string) {
		ex.ModelOps = append(ex.ModelOps, op)
		ex.Expect = append(ex.Expect, want+"|*")
		ex.StepOf = append(ex.StepOf, step)
	}
	// settle waits until every launched, unreturned Acquire is parked; returns the returns seen
	settle := func(launched int) map[int]bool {
		got := map[int]bool{}
		deadline := time.Now().Add(c12Wait)
		for {
			for drained := false; !drained; {
				select {
				case r := <-results:
					got[r.wid] = r.ok
				default:
					drained = true
				}
			}
			unreturned := len(blocked) + launched
			for w := range got {
				if _, ok := blocked[w]; ok {
					unreturned--
				} else {
					unreturned-- // the newly launched one
				}
			}
			if mjParkDetection {
				if mjParked()-parked0 == unreturned {
					// one more drain: a goroutine may have returned between drain and dump
					select {
					case r := <-results:
						got[r.wid] = r.ok
						continue
					default:
					}
					return got
				}
			} else {
				time.Sleep(3 * time.Millisecond)
				select {
				case r := <-results:
					got[r.wid] = r.ok
					continue
				default:
					return got
				}
			}
			if time.Now().After(deadline) {
				fail("not-quiescent", "%d Acquire goroutines neither returned nor parked", unreturned-(mjParked()-parked0))
				ex.Abandoned = true
				return got
			}
			runtime.Gosched()
		}
	}
	tf := func(b bool) string {
		if b {
			return "T"
		}
		return "F"
	}
	for i, op := range ops {
		step = i
		launched := 0
		newW := -1
		switch op.Kind {
		case "s":
			st[op.Md] = op.St
			core.VerifSetMetadataState(mds[op.Md], op.St)
			continue
		case "a":
			if op.NB {
				var b bool
				if !call(fmt.Sprintf("Acquire(job %d, nonblocking)", op.Md), func() { b = sem.Acquire(mds[op.Md], true) }) {
					return ex
				}
				emit(fmt.Sprintf("t%d:%s:1", op.Md, mjStChar(st[op.Md])), tf(b))
				pemit(fmt.Sprintf("e%d:%d:%s:1", 100000+i, op.Md, mjStChar(st[op.Md])), tf(b))
			} else {
				newW = nextW
				nextW++
				launched = 1
				go func(w int, md *core.Metadata) {
					results <- mjRes{w, sem.Acquire(md, false)}
				}(newW, mds[op.Md])
			}
		case "r":
			if !call(fmt.Sprintf("Release(job %d)", op.Md), func() { sem.Release(mds[op.Md]) }) {
				return ex
			}
			emit(fmt.Sprintf("r%d", op.Md), "-")
			pemit(fmt.Sprintf("r%d", op.Md), "-")
		case "f":
			if !call("FindDone()", func() { sem.FindDone() }) {
				return ex
			}
			var fin []string
			for m := range mds {
				if mjDone(st[m]) {
					fin = append(fin, strconv.Itoa(m))
				}
			}
			emit("f"+strings.Join(fin, "."), "-")
			pemit("f"+strings.Join(fin, "."), "-")
		case "c":
			if !call("Clear()", func() { sem.Clear() }) {
				return ex
			}
			cleared = true
			emit("c", "-")
			pemit("c", "-")
		}
		got := settle(launched)
		if ex.Abandoned {
			return ex
		}
		if newW >= 0 {
			if b, ok := got[newW]; ok {
				emit(fmt.Sprintf("t%d:%s:0", op.Md, mjStChar(st[op.Md])), tf(b))
				pemit(fmt.Sprintf("e%d:%d:%s:0", newW, op.Md, mjStChar(st[op.Md])), tf(b))
				delete(got, newW)
			} else {
				emit(fmt.Sprintf("t%d:%s:0", op.Md, mjStChar(st[op.Md])), "W")
				pemit(fmt.Sprintf("e%d:%d:%s:0", newW, op.Md, mjStChar(st[op.Md])), "-")
				blocked[newW] = op.Md
			}
		}
		// previously blocked callers that returned during this op
		var ws []int
		for w := range got {
			ws = append(ws, w)
		}
		sort.Ints(ws)
		for _, w := range ws {
			md, ok := blocked[w]
			if !ok {
				fail("spurious-return", "unknown Acquire returned")
				continue
			}
			delete(blocked, w)
			emit(fmt.Sprintf("t%d:%s:0", md, mjStChar(st[md])), tf(got[w]))
			// a caller that was parked has returned: it must have been signalled
			pemit(fmt.Sprintf("u%d:%s", w, mjStChar(st[md])), tf(got[w]))
		}
		// callers still blocked: the model must agree that they keep waiting
		ws = ws[:0]
		for w := range blocked {
			ws = append(ws, w)
		}
		sort.Ints(ws)
		cur := sem.Current()
		for _, w := range ws {
			md := blocked[w]
			if mjCancelled(st[md]) {
				continue // would return false when woken; nobody has to wake it
			}
			// "P" = still parked: the model may answer W, or T through the
			// "this job already holds a slot" path (a duplicate caller that simply
			// has not been woken yet; it takes no slot when it is)
			emit(fmt.Sprintf("t%d:%s:0", md, mjStChar(st[md])), "P")
			if !cleared && cur < limit {
				fail("lost-wakeup", "a caller for job %d is parked in Acquire although %d of %d slots are in use", md, cur, limit)
			}
		}
		if cleared && len(ws) > 0 {
			fail("lost-wakeup", "%d callers still parked after Clear()", len(ws))
		}
		// quiescence in the model with callers: whoever else was signalled runs and parks
		// again; then exactly the callers still blocked here are parked there
		{
			var sts, pk []string
			for m := range mds {
				sts = append(sts, mjStChar(st[m]))
			}
			for _, w := range ws {
				pk = append(pk, strconv.Itoa(w))
			}
			pemit("Q"+strings.Join(sts, ""), fmt.Sprintf("-|%s|%d", strings.Join(pk, "."), cur))
		}
		if len(ex.Expect) > 0 && ex.StepOf[len(ex.StepOf)-1] == step {
			e := ex.Expect[len(ex.Expect)-1]
			ex.Expect[len(ex.Expect)-1] = e[:strings.IndexByte(e, '|')+1] + strconv.Itoa(cur)
		}
		if cur > limit {
			fail("over-limit", "Current()=%d exceeds the limit %d", cur, limit)
		}
	}
	// cleanup
	if len(blocked) > 0 {
		call("Clear()", func() { sem.Clear() })
		// wait for the callers to return; if they all sit in cond.Wait again after the Clear they
		// never will (a semaphore that does not let go: counted out by the next baseline)
		remaining := len(blocked)
		for dl := time.Now().Add(2 * time.Second); remaining > 0 && time.Now().Before(dl); {
			select {
			case <-results:
				remaining--
			default:
				if mjParkDetection && mjParked()-parked0 >= remaining {
					remaining = 0
				}
				runtime.Gosched()
			}
		}
	}
	return ex
}

func genMJOps(c *Ctx, nmd, n int) []mjOp {
	states := []string{"", "queued", "running", "complete", "failed", "", "queued"}
	var ops []mjOp
	for len(ops) < n {
		md := c.Rng.Intn(nmd)
		switch k := c.Rng.Intn(100); {
		case k < 20:
			ops = append(ops, mjOp{Kind: "s", Md: md, St: states[c.Rng.Intn(len(states))]})
		case k < 52:
			ops = append(ops, mjOp{Kind: "a", Md: md})
		case k < 62:
			ops = append(ops, mjOp{Kind: "a", Md: md, NB: true})
		case k < 84:
			ops = append(ops, mjOp{Kind: "r", Md: md})
		case k < 98:
			ops = append(ops, mjOp{Kind: "f"})
		default:
			if len(ops) > n/2 {
				ops = append(ops, mjOp{Kind: "c"})
			}
		}
	}
	return ops
}

// judgeMJ compares with the model reply.
func judgeMJ(ex mjExec, reply string) (string, string) {
	if len(ex.Monitors) > 0 {
		return "property", ex.Monitors[0]
	}
	if len(ex.ModelOps) == 0 {
		return "", ""
	}
	if reply == "bad-op" {
		return "correspondence", "driver rejected the encoding"
	}
	parts := strings.Split(reply, ";")
	if len(parts) != len(ex.ModelOps) {
		return "correspondence", fmt.Sprintf("model returned %d entries for %d ops", len(parts), len(ex.ModelOps))
	}
	for i, p := range parts {
		f := strings.Split(p, ":") // limit:len:ids:res
		if len(f) != 4 {
			return "correspondence", "unparsable model reply " + p
		}
		want := strings.SplitN(ex.Expect[i], "|", 2)
		if want[0] == "P" {
			ok := f[3] == "W"
			if f[3] == "T" && i > 0 {
				prev := strings.Split(parts[i-1], ":")
				md := strings.SplitN(strings.TrimPrefix(ex.ModelOps[i], "t"), ":", 2)[0]
				if len(prev) == 4 && prev[2] == f[2] {
					for _, id := range strings.Split(f[2], ".") {
						if id == md {
							ok = true
						}
					}
				}
			}
			if !ok {
				return "correspondence", fmt.Sprintf("model op %d (%s, real op %d): the caller is still parked in Acquire, model says it returns %s (model running=%s)",
					i, ex.ModelOps[i], ex.StepOf[i], f[3], f[2])
			}
		} else if f[3] != want[0] {
			return "correspondence", fmt.Sprintf("model op %d (%s, real op %d): real %s, model %s (model running=%s)",
				i, ex.ModelOps[i], ex.StepOf[i], want[0], f[3], f[2])
		}
		if want[1] != "*" && want[1] != f[1] {
			return "correspondence", fmt.Sprintf("after real op %d: Current()=%s, model |running|=%s (%s)", ex.StepOf[i], want[1], f[1], f[2])
		}
	}
	return "", ""
}

type mjCase struct {
	Limit, Nmd int
	Ops        []mjOp
}

// judgeMJP: the run against the model with callers.
func judgeMJP(ex mjExec, reply string) (string, string) {
	if len(ex.POps) == 0 || len(ex.Monitors) > 0 {
		return "", ""
	}
	if reply == "bad-op" || reply == "" {
		return "correspondence", "driver rejected the caller-level encoding: " + strings.Join(ex.POps, ",")
	}
	parts := strings.Split(reply, ";")
	if len(parts) != len(ex.POps) {
		return "correspondence", fmt.Sprintf("caller-level model returned %d entries for %d ops", len(parts), len(ex.POps))
	}
	for i, p := range parts {
		f := strings.Split(p, ":") // |running| : parked : woken : res
		if len(f) != 4 {
			return "correspondence", "unparsable caller-level model reply " + p
		}
		want := strings.Split(ex.PWant[i], "|")
		if f[3] != want[0] {
			what := fmt.Sprintf("real %s, model %s", want[0], f[3])
			switch {
			case f[3] == "!":
				what = "the caller returned from Acquire although, by the model, neither it nor anybody else had been signalled"
			case strings.HasPrefix(ex.POps[i], "Q"):
				what = "callers " + f[3] + " return in the model once every signalled caller has run; here they are still parked in cond.Wait()"
			}
			return "correspondence", fmt.Sprintf("callers (C12.mjp) op %d (%s, real op %d): %s (model parked=%s woken=%s)", i, ex.POps[i], ex.PStep[i], what, f[1], f[2])
		}
		if len(want) == 3 {
			pk := strings.Split(f[1], ".")
			if f[1] == "" {
				pk = nil
			}
			sort.Slice(pk, func(a, b int) bool { x, _ := strconv.Atoi(pk[a]); y, _ := strconv.Atoi(pk[b]); return x < y })
			if strings.Join(pk, ".") != want[1] || f[0] != want[2] {
				return "correspondence", fmt.Sprintf("callers (C12.mjp) after real op %d at quiescence: callers parked in cond.Wait() [%s], Current()=%s; model parked [%s], |running|=%s",
					ex.PStep[i], want[1], want[2], strings.Join(pk, "."), f[0])
			}
		}
	}
	return "", ""
}

func checkMJ(c *Ctx, mc mjCase) (string, string, mjExec, string) {
	ex := execMJ(mc.Limit, mc.Nmd, mc.Ops)
	reply := ""
	if len(ex.ModelOps) > 0 {
		reply = c.Drv.Ask("C12.mj", strconv.Itoa(mc.Limit), strings.Join(ex.ModelOps, ","))
	}
	k, w := judgeMJ(ex, reply)
	if k == "" && len(ex.POps) > 0 && mjParkDetection {
		preply := c.Drv.Ask("C12.mjp", strconv.Itoa(mc.Limit), strings.Join(ex.POps, ","))
		if k, w = judgeMJP(ex, preply); k != "" {
			reply = preply
		}
	}
	return k, w, ex, reply
}

func runC12MaxJobs(c *Ctx) {
	r := c.Res
	// self-test of the parked-goroutine detection
	{
		sem := core.NewMaxJobsSemaphore(1)
		a := core.NewMetadata("ID.a", "/nonexistent/a")
		b := core.NewMetadata("ID.b", "/nonexistent/b")
		sem.Acquire(a, false)
		done := make(chan bool, 1)
		go func() { done <- sem.Acquire(b, false) }()
		ok := false
		for dl := time.Now().Add(2 * time.Second); time.Now().Before(dl); {
			if mjParked() == 1 {
				ok = true
				break
			}
			runtime.Gosched()
		}
		sem.Clear()
		select {
		case <-done:
		case <-time.After(2 * time.Second):
		}
		if !ok {
			mjParkDetection = false
			r.note("goroutine-dump detection of callers parked in sync.Cond.Wait does not work with this Go runtime; falling back to bounded waiting (3 ms) for MaxJobsSemaphore quiescence")
		}
	}
	n := 2500
	if c.Thorough {
		n = 40000
	}
	reported := 0
	budget := 15 * time.Second
	if c.Thorough {
		budget = 240 * time.Second
	}
	t0 := time.Now()
	for i := 0; i < n; i++ {
		if time.Since(t0) > budget {
			r.note("MaxJobsSemaphore: time budget %v used up after %d of %d sequences", budget, i, n)
			break
		}
		mc := mjCase{Limit: 1 + c.Rng.Intn(3), Nmd: 3 + c.Rng.Intn(4)}
		mc.Ops = genMJOps(c, mc.Nmd, 6+c.Rng.Intn(30))
		kind, what, ex, _ := checkMJ(c, mc)
		waits, grants := 0, 0
		for _, e := range ex.Expect {
			switch e[0] {
			case 'W', 'P':
				waits++
			case 'T':
				grants++
			}
		}
		r.count(fmt.Sprintf("mj|%d|%d|%s", mc.Limit, mc.Nmd, mjOpsString(mc.Ops)), waits > 0)
		r.hist("mj_sequences")
		if waits > 0 {
			r.hist("mj_sequences_with_blocked_callers")
		}
		r.Histogram["mj_model_ops"] += len(ex.ModelOps)
		r.Histogram["mj_caller_level_model_ops"] += len(ex.POps)
		r.Histogram["mj_grants"] += grants
		if i%499 == 0 {
			r.sample(map[string]interface{}{"maxjobs_limit": mc.Limit, "ops": mjOpsString(mc.Ops), "model_ops": strings.Join(ex.ModelOps, ","), "real": strings.Join(ex.Expect, ",")})
		}
		if kind == "" {
			continue
		}
		if reported >= 3 {
			r.note("MaxJobsSemaphore stream stopped after three reported disagreements")
			break
		}
		// re-execute once alone
		k2, w2, ex2, rep2 := checkMJ(c, mc)
		if k2 == "" {
			r.note("a MaxJobsSemaphore %s disagreement (%s) did not reproduce on re-execution; not reported: limit=%d ops=%s", kind, what, mc.Limit, mjOpsString(mc.Ops))
			if ex.Abandoned {
				r.note("MaxJobsSemaphore stream stopped: a sequence had to be abandoned (goroutines may have been left behind)")
				break
			}
			continue
		}
		reported++
		kind, what = k2, w2
		if ex.Abandoned || ex2.Abandoned {
			// a semaphore call that does not return / callers that never settle: every further
			// execution leaves more goroutines behind (possibly spinning) — report the sequence as it
			// is, without shrinking, and end the stream
			r.violate(Violation{Kind: "property", Key: "C12:maxjobs:" + monitorName(w2), What: "MaxJobsSemaphore: " + w2,
				Input: map[string]interface{}{"limit": mc.Limit, "jobs": mc.Nmd, "ops": mjOpsString(mc.Ops),
					"encoding": "s<j>=<state> set job j's metadata state, acq<j> blocking Acquire in its own goroutine, try<j> non-blocking Acquire, rel<j> Release, finddone, clear"},
				Impl: map[string]interface{}{"model_ops": ex2.ModelOps, "real_result|Current": ex2.Expect}, Model: rep2,
				Expect: "every call into the semaphore returns and the callers settle (returned or parked in cond.Wait)"})
			r.note("MaxJobsSemaphore stream stopped after a call that did not return / callers that never settled")
			break
		}
		same := func(t mjCase) bool {
			k, w, _, _ := checkMJ(c, t)
			return k == kind && (kind != "property" || monitorName(w) == monitorName(what))
		}
		cur := mc
		for changed := true; changed; {
			changed = false
			for j := 0; j < len(cur.Ops); j++ {
				t := mjCase{cur.Limit, cur.Nmd, append(append([]mjOp{}, cur.Ops[:j]...), cur.Ops[j+1:]...)}
				if same(t) {
					cur = t
					changed = true
					j--
				}
			}
		}
		k3, w3, ex3, rep3 := checkMJ(c, cur)
		if k3 == "" {
			cur = mc
			_, w3, ex3, rep3 = checkMJ(c, cur)
		}
		name := "model-mismatch"
		if kind == "property" {
			name = monitorName(w3)
		}
		v := Violation{Kind: kind, Key: "C12:maxjobs:" + name, What: "MaxJobsSemaphore: " + w3,
			Input: map[string]interface{}{"limit": cur.Limit, "jobs": cur.Nmd, "ops": mjOpsString(cur.Ops),
				"encoding": "s<j>=<state> set job j's metadata state, acq<j> blocking Acquire in its own goroutine, try<j> non-blocking Acquire, rel<j> Release, finddone, clear"},
			Impl: map[string]interface{}{"model_ops": ex3.ModelOps, "real_result|Current": ex3.Expect,
				"caller_level_ops": ex3.POps, "caller_level_real_result|parked callers|Current": ex3.PWant}, Model: rep3}
		if kind == "correspondence" {
			v.Broken = "correspondence C12.mj / C12.mjp (Martian.Semaphore.MJ.step, MJP.step vs MaxJobsSemaphore)"
		}
		r.violate(v)
	}
}
