package main

// Tier A: the real scheduler, resolver, fork expander, VDR and post-processor
// of martian/core run in-process; jobs are not executed but handed to this
// harness (core.VerifJobManager), which completes them under PRNG control,
// writing exactly the files and journal entries the job monitor (mrjob) and a
// stage would write.  Every event is logged; the log is the history the Lean
// model replays and the monitors check.

import (
	"bytes"
	"context"
	"encoding/json"
	"fmt"
	"hash/fnv"
	"math/rand"
	"os"
	"path"
	"path/filepath"
	"runtime"
	"sort"
	"strings"
	"sync"
	"sync/atomic"
	"time"

	"github.com/martian-lang/martian/martian/core"
	"github.com/martian-lang/martian/martian/syntax"
	"github.com/martian-lang/martian/martian/util"
)

type devNullLogger struct{}

func (devNullLogger) Write(b []byte) (int, error)       { return len(b), nil }
func (devNullLogger) WriteString(s string) (int, error) { return len(s), nil }

// TAJob is one submitted job.
type TAJob struct {
	core.VerifJob
	Key         string // <fqname>.<shellName>  (identity of the job across attempts)
	Seq         int    // event number of the launch
	Incarnation int    // mrp incarnation that launched it
	Started     bool
	// the job's outputs are on disk and journaled, completion is not yet recorded
	OutputsWritten bool
	Done           bool
	Dead           bool // killed by a crash
	Args           json.RawMessage
	Outs           json.RawMessage // what the fake stage wrote (_outs or _stage_defs)
	Outcome        string
	StageName      string
	traceRef       string
}

// TAEvent is one entry of the history.
type TAEvent struct {
	Seq    int             `json:"seq"`
	Kind   string          `json:"kind"` // launch start finish fail step crash restart complete failed stall
	Job    string          `json:"job,omitempty"`
	Detail string          `json:"detail,omitempty"`
	Args   json.RawMessage `json:"args,omitempty"`
	Outs   json.RawMessage `json:"outs,omitempty"`
	Inc    int             `json:"inc"`
}

// Fault describes an injected failure.
type Fault struct {
	JobKey string // job to fail (first attempt only unless Repeat)
	Kind   string // errors assert exit badouts nullouts missingkey wrongtype badstagedefs
	Repeat bool
	used   int
}

type TAOpts struct {
	VdrMode       string
	MroPaths      []string
	SrcPath       string
	Psid          string
	CrashAt       map[int]bool // crash before the event with this sequence number
	CrashSurvive  float64      // probability an in-flight started job survives a crash
	Faults        []*Fault
	InlineFinish  float64 // probability a job finishes synchronously inside execJob
	StartSeparate float64 // probability that start (log) is a separate event from finish
	// EarlyOutputs: probability that a started job first records its outputs (the adapter writes
	// _stage_defs / _outs and their journal entries when the stage code returns) as an event of its
	// own, well before the monitor records _complete.  0 = same as StartSeparate.
	EarlyOutputs     float64
	StepBias         float64 // probability of stepping when jobs are pending
	MaxEvents        int
	Adversarial      bool                                          // prefer finishing the most recently launched job first
	OutsHook         func(job *TAJob, outs map[string]interface{}) // lets a property tweak stage outputs
	FileHook         func(job *TAJob, param string, p string)      // called for every file a stage writes
	ExtraFiles       bool                                          // stages also write files not named by outputs
	FullReset        bool
	PostProcessCrash int  // 1: crash after post-processing; 2: after the files were moved, before _outs was rewritten; 3: (--zip) after _metadata.zip was written, before any archived file was removed
	RestartAfterFail bool // after a failure: restart once (the injected fault is gone) and continue
	// SlowJobs: comma separated substrings of job keys; a matching job is finished only when no other
	// job is pending and the scheduler has nothing left to do without it (directed schedules: "the
	// producer of the condition finishes last").  "" = off (the PRNG schedule is unchanged).
	SlowJobs string
	// Cluster: the job manager has a queue query (cluster mode): every job gets a _jobid, mrp queries
	// the queue at every pass, and a job with fault kind "lost" vanishes without leaving any file
	// (killed in the scheduler's queue / node lost) — only the queue query can notice.
	Cluster bool
	// AgeHeartbeats: whenever no job is in flight, 61 simulated minutes pass before mrp checks heartbeats
	// (fault kind "hang": a job that started, sent a heartbeat and then died without a trace in LOCAL
	// mode is only ever noticed by the heartbeat timeout)
	AgeHeartbeats bool
}

type TARun struct {
	Opts               TAOpts
	Src                string
	Ast                *syntax.Ast
	PsDir              string
	Rng                *rand.Rand
	rt                 *core.Runtime
	jm                 *core.VerifJobManager
	ps                 *core.Pipestance
	Pending            []*TAJob
	Jobs               []*TAJob
	Events             []TAEvent
	Inc                int
	Final              string // complete | failed | stall | error:<msg>
	ErrMsg             string
	Launches           map[string]int
	Written            map[string]string // file path -> content, every file a stage wrote
	insideStep         bool
	Tracer             *SchedTracer
	callables          map[string]string
	LaunchHook         func(job *TAJob)
	FailMsgs           []string
	restartedAfterFail bool
	ppCrashed          bool
	stalls             int
	slowQuiet          int
	queueMu            sync.Mutex
	progress           int64 // events logged so far (read by the watchdog)
}

type stderrLogger struct{}

func (stderrLogger) Write(b []byte) (int, error)       { return os.Stderr.Write(b) }
func (stderrLogger) WriteString(s string) (int, error) { return os.Stderr.WriteString(s) }

func taInit() {
	if os.Getenv("TA_LOG") != "" {
		util.SetPrintLogger(stderrLogger{})
		util.LogTeeWriter(stderrLogger{})
		syntax.SetEnforcementLevel(syntax.EnforceError)
		return
	}
	util.SetPrintLogger(devNullLogger{})
	util.LogTeeWriter(devNullLogger{})
	syntax.SetEnforcementLevel(syntax.EnforceError)
}

func (r *TARun) log(kind, job, detail string) *TAEvent {
	atomic.AddInt64(&r.progress, 1)
	r.Events = append(r.Events, TAEvent{Seq: len(r.Events), Kind: kind, Job: job, Detail: detail, Inc: r.Inc})
	return &r.Events[len(r.Events)-1]
}

func (r *TARun) newRuntime() error {
	opts := core.DefaultRuntimeOptions()
	opts.VdrMode = core.VdrMode(r.Opts.VdrMode)
	if r.Opts.VdrMode == "" {
		opts.VdrMode = core.VdrDisable
	}
	opts.JobMode = "local"
	opts.FullStageReset = r.Opts.FullReset
	r.jm = &core.VerifJobManager{}
	r.jm.OnExec = r.onExec
	if r.Opts.Cluster {
		opts.JobMode = "verifcluster"
		qjm := &core.VerifQueueJobManager{VerifJobManager: r.jm, OnCheckQueue: r.checkQueue}
		rt, err := core.VerifNewQueueRuntime(&opts, qjm)
		if err != nil {
			return err
		}
		r.rt = rt
		return nil
	}
	rt, err := core.VerifNewRuntime(&opts, r.jm)
	if err != nil {
		return err
	}
	r.rt = rt
	return nil
}

// NewTARun compiles src and invokes a new pipestance in a fresh directory.
func NewTARun(src string, scratch string, seed int64, opts TAOpts) (*TARun, error) {
	taInit()
	r := &TARun{Opts: opts, Src: src, Rng: rand.New(rand.NewSource(seed)),
		Launches: map[string]int{}, Written: map[string]string{}}
	if r.Opts.Psid == "" {
		r.Opts.Psid = "ps"
	}
	if r.Opts.SrcPath == "" {
		r.Opts.SrcPath = "pipeline.mro"
	}
	if r.Opts.MaxEvents == 0 {
		r.Opts.MaxEvents = 4000
	}
	_, _, ast, err := syntax.ParseSourceBytes([]byte(src), r.Opts.SrcPath, r.Opts.MroPaths, false)
	if err != nil {
		return nil, fmt.Errorf("compile: %v", err)
	}
	r.Ast = ast
	dir, err := os.MkdirTemp(scratch, "ps")
	if err != nil {
		return nil, err
	}
	r.PsDir = filepath.Join(dir, "p")
	if err := r.newRuntime(); err != nil {
		return nil, err
	}
	ps, err := r.rt.InvokePipeline(src, r.Opts.SrcPath, r.Opts.Psid, r.PsDir, r.Opts.MroPaths, "verif", nil, nil)
	if err != nil {
		return nil, fmt.Errorf("invoke: %v", err)
	}
	r.ps = ps
	ps.LoadMetadata(context.Background())
	r.Tracer = &SchedTracer{run: r}
	r.Tracer.observe("W", nil)
	return r, nil
}

func (r *TARun) Close() {
	if r.ps != nil {
		r.ps.Unlock()
	}
	if os.Getenv("TA_KEEPDIR") != "" {
		fmt.Fprintln(os.Stderr, "kept:", r.PsDir)
		return
	}
	os.RemoveAll(filepath.Dir(r.PsDir))
}

func (r *TARun) onExec(j *core.VerifJob) {
	job := &TAJob{VerifJob: *j, Key: jobKey(j.Fqname, j.ShellName), Seq: len(r.Events), Incarnation: r.Inc}
	job.StageName = r.stageOf(j.Fqname)
	r.Launches[job.Key]++
	if b, err := os.ReadFile(path.Join(j.MetadataPath, "_args")); err == nil {
		job.Args = json.RawMessage(b)
	}
	ev := r.log("launch", job.Key, j.MetadataPath)
	ev.Args = compactJSON(job.Args)
	if t := r.Tracer; t != nil {
		n, fpos, role, ok := t.locate(job)
		var hold *deferKey
		if ok {
			hold = &deferKey{n: n, fpos: fpos, obj: role}
		}
		held := t.observe("W", hold)
		t.emit("launch %s", t.jobRef(job))
		for _, l := range held {
			t.emit("%s", l)
		}
	}
	if r.Opts.Cluster && j.Metadata != nil {
		// what RemoteJobManager does after a successful submission
		j.Metadata.WriteRaw(core.JobId, job.Key)
	}
	r.queueMu.Lock()
	r.Pending = append(r.Pending, job)
	r.queueMu.Unlock()
	r.Jobs = append(r.Jobs, job)
	if r.LaunchHook != nil {
		r.LaunchHook(job)
	}
	if r.Opts.InlineFinish > 0 && r.Rng.Float64() < r.Opts.InlineFinish {
		// a very fast job: finishes while the scheduler is still inside StepNodes
		r.finishJob(job)
	}
}

// journal name without the uniquifier: ID-relative fqname (+ .split/.join role)
func jobKey(fqname, shell string) string {
	return fqname + "." + shell
}

// stageOf maps a job's fqname to the name of the stage it runs (the call id
// in the fqname may be an alias).
func (r *TARun) stageOf(fq string) string {
	if r.callables == nil && r.ps != nil {
		r.callables = map[string]string{}
		for _, n := range r.ps.VerifNodes() {
			r.callables[n.Fqname] = n.Callable
		}
	}
	node := fq
	if i := strings.Index(fq, ".fork"); i >= 0 {
		node = fq[:i]
	}
	if c, ok := r.callables[node]; ok {
		return c
	}
	return stageOfFqname(fq)
}

func stageOfFqname(fq string) string {
	// ID.ps.TOP.SUB.STAGE.fork0[.chnk0] -> STAGE
	parts := strings.Split(fq, ".")
	for i, p := range parts {
		if strings.HasPrefix(p, "fork") && i > 0 {
			return parts[i-1]
		}
	}
	return ""
}

// canonicalJSON re-encodes a JSON text with sorted object keys (numbers kept verbatim).
func canonicalJSON(b []byte) json.RawMessage {
	dec := json.NewDecoder(bytes.NewReader(b))
	dec.UseNumber()
	var v interface{}
	if err := dec.Decode(&v); err != nil {
		return compactJSON(b)
	}
	out, err := json.Marshal(v)
	if err != nil {
		return compactJSON(b)
	}
	return out
}

func compactJSON(b []byte) json.RawMessage {
	if len(b) == 0 {
		return nil
	}
	var buf bytes.Buffer
	if err := json.Compact(&buf, b); err != nil {
		return json.RawMessage(fmt.Sprintf("%q", string(b)))
	}
	return buf.Bytes()
}

func (r *TARun) jobMeta(job *TAJob) *core.Metadata {
	runType := job.ShellName
	return core.NewMetadataRunWithJournalPath(path.Base(job.JournalFile), job.MetadataPath,
		job.FilesPath, path.Dir(job.JournalFile), runType)
}

// checkQueue: the fake scheduler's answer to a queue query — the ids of the jobs still in flight.
func (r *TARun) checkQueue(ids []string) []string {
	r.queueMu.Lock()
	defer r.queueMu.Unlock()
	alive := map[string]bool{}
	for _, p := range r.Pending {
		alive[p.Key] = true
	}
	var out []string
	for _, id := range ids {
		if alive[id] {
			out = append(out, id)
		}
	}
	return out
}

func (r *TARun) removePending(job *TAJob) {
	r.queueMu.Lock()
	defer r.queueMu.Unlock()
	for i, p := range r.Pending {
		if p == job {
			r.Pending = append(r.Pending[:i], r.Pending[i+1:]...)
			return
		}
	}
}

// startJob: what mrjob does first: _log exists, jobinfo gets a pid, journal entry for log.
func (r *TARun) startJob(job *TAJob) {
	if job.Started {
		return
	}
	job.Started = true
	md := r.jobMeta(job)
	// the job manager removes _queued_locally as soon as the process has started
	if job.Metadata != nil && job.Incarnation == r.Inc {
		job.Metadata.VerifRemove(core.QueuedLocally)
	} else {
		os.Remove(path.Join(job.MetadataPath, "_queued_locally"))
	}
	md.WriteRaw(core.LogFile, "fake job log\n")
	var ji map[string]interface{}
	if b, err := os.ReadFile(path.Join(job.MetadataPath, "_jobinfo")); err == nil {
		json.Unmarshal(b, &ji)
	}
	if ji == nil {
		ji = map[string]interface{}{}
	}
	ji["pid"] = os.Getpid() // alive while this incarnation's jobs are alive
	if b, err := json.Marshal(ji); err == nil {
		os.WriteFile(path.Join(job.MetadataPath, "_jobinfo"), b, 0o644)
	}
	md.UpdateJournal(core.LogFile)
	r.log("start", job.Key, "")
	if r.Tracer != nil {
		r.Tracer.emit("joblog %s", r.Tracer.jobRef(job))
	}
}

// writeOutputs: the stage code has returned and the adapter has written the job's outputs
// (_stage_defs of a split, _outs otherwise) and journaled them; the monitor has not yet
// recorded completion.  Jobs with an injected fault skip this phase.
func (r *TARun) writeOutputs(job *TAJob) {
	if job.OutputsWritten || job.Done {
		return
	}
	for _, f := range r.Opts.Faults {
		if f.JobKey == job.Key {
			return
		}
	}
	r.startJob(job)
	outs, err := r.runStage(job, "")
	if err != nil {
		return
	}
	job.OutputsWritten = true
	job.Outs = compactJSON(outs)
	md := r.jobMeta(job)
	if job.ShellName == "split" {
		md.UpdateJournal(core.StageDefsFile)
	} else {
		md.UpdateJournal(core.OutsFile)
	}
	r.log("outputs", job.Key, "")
}

func (r *TARun) faultFor(job *TAJob) *Fault {
	for _, f := range r.Opts.Faults {
		if f.JobKey == job.Key && (f.Repeat || f.used == 0) {
			f.used++
			return f
		}
	}
	return nil
}

// finishJob: the stage code runs to its end and mrjob records the outcome.
func (r *TARun) finishJob(job *TAJob) {
	if job.Done {
		return
	}
	lostQueued := false
	if !job.Started {
		for _, f := range r.Opts.Faults {
			// a job lost while still in the scheduler's queue never starts (no _log)
			if f.JobKey == job.Key && f.Kind == "lost" && (f.Repeat || f.used == 0) && len(job.Key)%2 == 0 {
				lostQueued = true
			}
		}
	}
	if !lostQueued {
		r.startJob(job)
	}
	job.Done = true
	r.removePending(job)
	md := r.jobMeta(job)
	fault := r.faultFor(job)
	kind := ""
	if fault != nil {
		kind = fault.Kind
	}
	switch kind {
	case "lost":
		// the job vanishes: no _errors, no journal entry, its process (if any) is gone
		job.Outcome = "fail:lost"
	case "hang":
		// the job sent one heartbeat, then died without a trace
		md.WriteTime(core.Heartbeat)
		md.UpdateJournal(core.Heartbeat)
		job.Outcome = "fail:hang"
	case "errors":
		md.WriteRaw(core.Errors, "injected failure in "+job.Key)
		md.UpdateJournal(core.Errors)
		job.Outcome = "fail:errors"
	case "assert":
		md.WriteRaw(core.Assert, "injected assertion in "+job.Key)
		md.UpdateJournal(core.Assert)
		job.Outcome = "fail:assert"
	case "exit":
		// process died without the monitor recording anything: the local job
		// manager itself writes _errors through mrp's own metadata object.
		if job.Metadata != nil {
			job.Metadata.WriteErrorString("exit status 1 (injected) " + job.Key)
		}
		job.Outcome = "fail:exit"
	default:
		var outs []byte
		var err error
		if job.OutputsWritten && kind == "" {
			outs = job.Outs
		} else {
			outs, err = r.runStage(job, kind)
		}
		if err != nil {
			md.WriteRaw(core.Errors, "fake stage error: "+err.Error())
			md.UpdateJournal(core.Errors)
			job.Outcome = "fail:stage:" + err.Error()
			break
		}
		job.Outs = compactJSON(outs)
		md.WriteTime(core.CompleteFile)
		md.UpdateJournal(core.CompleteFile)
		job.Outcome = "ok"
		if kind != "" {
			job.Outcome = "bad:" + kind
		}
	}
	ev := r.log("finish", job.Key, job.Outcome)
	ev.Outs = job.Outs
	if t := r.Tracer; t != nil {
		switch {
		case job.Outcome == "fail:lost" || job.Outcome == "fail:hang":
			t.emit("killed %s", t.jobRef(job))
		case job.Outcome == "fail:exit":
			t.emit("silentfail %s", t.jobRef(job))
			if !r.insideStep && r.ps != nil {
				t.observe("W", nil)
			}
		case strings.HasPrefix(job.Outcome, "fail:assert"):
			t.emit("jobend %s assert", t.jobRef(job))
		case strings.HasPrefix(job.Outcome, "fail:"):
			t.emit("jobend %s errors", t.jobRef(job))
		default:
			t.emit("jobend %s complete", t.jobRef(job))
		}
	}
}

func hash64(parts ...string) uint64 {
	h := fnv.New64a()
	for _, p := range parts {
		h.Write([]byte(p))
		h.Write([]byte{0})
	}
	return h.Sum64()
}

// runStage computes and writes what the stage code would write.
func (r *TARun) runStage(job *TAJob, fault string) ([]byte, error) {
	stage, _ := r.Ast.Callables.Table[job.StageName].(*syntax.Stage)
	if stage == nil {
		return nil, fmt.Errorf("unknown stage %q for %s", job.StageName, job.Fqname)
	}
	lookup := &r.Ast.TypeTable
	// canonical form (object keys sorted): mrp writes the keys of a filtered typed map in Go map
	// order, and the fake stage's outputs must not depend on the byte order of equal arguments
	argsCanon := string(canonicalJSON(job.Args))
	// outputs must not depend on where the pipestance lives or on attempt uniquifiers
	if root := r.PsDir; root != "" {
		argsCanon = strings.ReplaceAll(argsCanon, root, "$PS")
	} else if root := os.Getenv("VERIF_TB_PSDIR"); root != "" {
		argsCanon = strings.ReplaceAll(argsCanon, root, "$PS")
	}
	argsCanon = reUniqDir.ReplaceAllString(argsCanon, "-uX")
	// identity that is stable across attempts/incarnations (no uniquifier): fqname+role
	seedOf := func(param string) *rand.Rand {
		return rand.New(rand.NewSource(int64(hash64(job.Key, param, argsCanon))))
	}
	target := "_outs"
	out := map[string]interface{}{}
	// pre-populated _outs (file paths chosen by mrp)
	var pre map[string]json.RawMessage
	if b, err := os.ReadFile(path.Join(job.MetadataPath, "_outs")); err == nil {
		json.Unmarshal(b, &pre)
	}
	gen := func(params []*syntax.OutParam) {
		for _, p := range params {
			t := lookup.Get(p.Tname)
			if t == nil {
				continue
			}
			vg := &valGen{rng: seedOf(p.Id), run: r, job: job, param: p.Id, lookup: lookup}
			if raw, ok := pre[p.Id]; ok && len(raw) > 0 && raw[0] == '"' {
				json.Unmarshal(raw, &vg.prePath)
			}
			out[p.Id] = vg.value(t, p.Id)
		}
	}
	switch job.ShellName {
	case "split":
		target = "_stage_defs"
		rng := seedOf("__chunks")
		n := []int{0, 1, 1, 2, 2, 3, 10, 2, 1, 3, 0, 2}[rng.Intn(12)] // 10: directory-name width boundary
		chunks := make([]map[string]interface{}, n)
		for i := range chunks {
			c := map[string]interface{}{"__threads": 1, "__mem_gb": 1}
			if stage.ChunkIns != nil {
				for _, p := range stage.ChunkIns.List {
					t := lookup.Get(p.Tname)
					vg := &valGen{rng: rand.New(rand.NewSource(int64(hash64(job.Key, p.Id, fmt.Sprint(i), argsCanon)))),
						run: r, job: job, param: p.Id, lookup: lookup, noFiles: true}
					c[p.Id] = vg.value(t, p.Id)
				}
			}
			chunks[i] = c
		}
		out["chunks"] = chunks
		out["join"] = map[string]interface{}{"__threads": 1, "__mem_gb": 1}
		if fault == "badstagedefs" {
			b := []byte(`{"chunks": [{"__threads": "many"`)
			return b, os.WriteFile(path.Join(job.MetadataPath, target), b, 0o644)
		}
	case "main":
		if stage.Split {
			if stage.ChunkOuts != nil {
				gen(stage.ChunkOuts.List)
			}
			// chunks of a splitting stage may also fill stage outs; leave them null
			for _, p := range stage.OutParams.List {
				if _, ok := out[p.Id]; !ok {
					out[p.Id] = nil
				}
			}
		} else {
			gen(stage.OutParams.List)
		}
	case "join":
		gen(stage.OutParams.List)
	}
	if r.Opts.OutsHook != nil {
		r.Opts.OutsHook(job, out)
	}
	if r.Opts.ExtraFiles && job.ShellName != "split" {
		p := path.Join(job.FilesPath, "scratch_"+job.ShellName+".tmp")
		if os.WriteFile(p, []byte("scratch "+job.Key), 0o644) == nil {
			r.Written[p] = "scratch " + job.Key
			if r.Opts.FileHook != nil {
				r.Opts.FileHook(job, "", p)
			}
		}
	}
	// parameters the job is required to provide, sorted (deterministic fault site)
	var required []*syntax.OutParam
	switch {
	case job.ShellName == "main" && stage.Split:
		if stage.ChunkOuts != nil {
			required = append(required, stage.ChunkOuts.List...)
		}
	case job.ShellName != "split":
		required = append(required, stage.OutParams.List...)
	}
	sort.Slice(required, func(i, j int) bool { return required[i].Id < required[j].Id })
	switch fault {
	case "missingkey":
		if len(required) > 0 {
			delete(out, required[0].Id)
		}
	case "wrongtype":
		if len(required) > 0 {
			p := required[0]
			// a value that is ill-typed for the declared type
			var wrong interface{} = map[string]interface{}{"not": []interface{}{"the", "declared", 1.5}}
			if p.Tname.ArrayDim == 0 {
				switch t := lookup.Get(p.Tname).(type) {
				case *syntax.TypedMapType, *syntax.StructType, *syntax.UserType:
					wrong = 17
				case *syntax.BuiltinType:
					if t.Id == syntax.KindMap || t.Id == syntax.KindFile || t.Id == syntax.KindPath || t.Id == syntax.KindString {
						wrong = 17
					}
				}
			}
			out[p.Id] = wrong
		}
	}
	b, err := json.Marshal(out)
	if err != nil {
		return nil, err
	}
	if fault == "badouts" {
		b = b[:len(b)/2]
		if len(b) == 0 {
			b = []byte("{")
		}
	}
	if fault == "nullouts" {
		// valid JSON, but not an object: the stage code returned nothing
		b = []byte("null")
	}
	return b, os.WriteFile(path.Join(job.MetadataPath, target), b, 0o644)
}

// valGen: type-directed deterministic values; files are really written.
type valGen struct {
	rng     *rand.Rand
	run     *TARun
	job     *TAJob
	param   string
	lookup  *syntax.TypeLookup
	prePath string
	nfile   int
	noFiles bool
}

var taKeys = []string{"a", "b", "c", "k1"}

func (g *valGen) value(t syntax.Type, name string) interface{} {
	if g.rng.Intn(40) == 0 {
		return nil
	}
	switch tt := t.(type) {
	case *syntax.BuiltinType:
		switch tt.Id {
		case syntax.KindInt:
			return g.rng.Intn(10)
		case syntax.KindFloat:
			return float64(g.rng.Intn(8)) + 0.5
		case syntax.KindBool:
			return g.rng.Intn(2) == 0
		case syntax.KindString:
			return fmt.Sprintf("s%d", g.rng.Intn(10))
		case syntax.KindMap:
			return map[string]interface{}{"m": g.rng.Intn(10)}
		case syntax.KindFile, syntax.KindPath:
			return g.file(name, "", tt.Id == syntax.KindPath)
		}
		return nil
	case *syntax.UserType:
		return g.file(name, tt.Id, false)
	case *syntax.ArrayType:
		n := []int{0, 1, 2, 2, 3}[g.rng.Intn(5)]
		arr := make([]interface{}, n)
		var et syntax.Type = tt.Elem
		if tt.Dim > 1 {
			et = g.lookup.GetArray(tt.Elem, tt.Dim-1)
		}
		for i := range arr {
			arr[i] = g.value(et, fmt.Sprintf("%s_%d", name, i))
		}
		return arr
	case *syntax.TypedMapType:
		n := []int{0, 1, 2, 2, 3}[g.rng.Intn(5)]
		m := map[string]interface{}{}
		perm := g.rng.Perm(len(taKeys))
		for i := 0; i < n; i++ {
			k := taKeys[perm[i]]
			m[k] = g.value(tt.Elem, name+"_"+k)
		}
		return m
	case *syntax.StructType:
		m := map[string]interface{}{}
		for _, mem := range tt.Members {
			mt := g.lookup.Get(mem.Tname)
			m[mem.Id] = g.value(mt, name+"_"+mem.Id)
		}
		return m
	}
	return nil
}

func (g *valGen) file(name, ext string, dir bool) interface{} {
	if g.noFiles {
		return nil
	}
	g.nfile++
	p := g.prePath
	if p == "" || g.nfile > 1 || !strings.HasPrefix(p, g.job.FilesPath) {
		p = path.Join(g.job.FilesPath, name)
		if ext != "" {
			p += "." + ext
		}
	}
	content := "content of " + path.Base(p) + " by " + g.job.Key
	if dir {
		os.MkdirAll(p, 0o755)
		f := path.Join(p, "inner.txt")
		os.WriteFile(f, []byte(content), 0o644)
		g.run.Written[f] = content
		if g.run.Opts.FileHook != nil {
			g.run.Opts.FileHook(g.job, g.param, f)
		}
		return p
	}
	if err := os.WriteFile(p, []byte(content), 0o644); err != nil {
		return nil
	}
	g.run.Written[p] = content
	if g.run.Opts.FileHook != nil {
		g.run.Opts.FileHook(g.job, g.param, p)
	}
	return p
}

// ---- scheduler ----

// stepOnce is mrp's loopBody.
func (r *TARun) stepOnce() (done bool, progress bool) {
	ctx := context.Background()
	r.ps.RefreshState(ctx)
	if r.Tracer != nil {
		r.Tracer.emit("refresh")
		if r.Opts.Cluster {
			// in cluster mode RefreshState itself writes files (endRefresh: _errors for a job the queue
			// query no longer knows): what became visible is reported as `W` (found on disk or written by mrp)
			r.Tracer.observe("W", nil)
		} else {
			r.Tracer.observe("R", nil)
		}
	}
	state := r.ps.GetState(ctx)
	switch state {
	case core.Complete, core.DisabledState:
		r.log("complete", "", string(state))
		if r.Opts.VdrMode != "" && r.Opts.VdrMode != "disable" {
			r.ps.VDRKill()
		}
		outsPath := path.Join(r.PsDir, r.Ast.Call.Id, "fork0", "_outs")
		var savedOuts []byte
		if r.Opts.PostProcessCrash != 0 && !r.ppCrashed {
			savedOuts, _ = os.ReadFile(outsPath)
		}
		r.ps.PostProcess()
		if r.Opts.PostProcessCrash != 0 && !r.ppCrashed {
			// mrp dies during / right after post-processing and is restarted
			r.ppCrashed = true
			if r.Opts.PostProcessCrash == 3 {
				// mrp --zip killed right after it had written _metadata.zip: none of the archived files had
				// been removed yet (the restarted mrp unpacks the archive over the files that are still there)
				snap, _ := os.MkdirTemp(filepath.Dir(r.PsDir), "zipsnap")
				copyTree(r.PsDir, snap)
				r.rt.Config.Zip = true
				r.ps.ZipMetadata(path.Join(r.PsDir, "_metadata.zip"))
				copyTree(snap, r.PsDir)
				os.RemoveAll(snap)
			}
			if r.Opts.PostProcessCrash == 2 && savedOuts != nil {
				// ... after the files were moved but before _outs was rewritten
				os.WriteFile(outsPath, savedOuts, 0o644)
			}
			r.log("postprocess-crash", "", fmt.Sprint(r.Opts.PostProcessCrash))
			if err := r.Crash(); err != nil {
				r.Final = "error:" + err.Error()
				return true, false
			}
			return false, true
		}
		r.ps.Unlock()
		r.Final = "complete"
		return true, false
	case core.Failed:
		mdFq, _, _, logmsg, kind, errPaths := r.ps.GetFatalError()
		if r.Tracer != nil {
			r.Tracer.fatal(mdFq, string(kind))
		}
		r.ErrMsg = fmt.Sprintf("%s|%s|%s", kind, strings.Join(errPaths, ","), logmsg)
		r.log("failed", "", r.ErrMsg)
		r.ps.Unlock()
		r.Final = "failed"
		return true, false
	}
	if r.Opts.Cluster {
		r.ps.VerifAllowQueueCheck()
	}
	if r.Opts.AgeHeartbeats && len(r.Pending) == 0 {
		r.ps.VerifAgeHeartbeats(61 * time.Minute)
	}
	r.ps.CheckHeartbeats(ctx)
	if r.Opts.Cluster {
		// the query runs in a goroutine of its own: wait for its verdict (barrier, not a sleep)
		for i := 0; i < 2000 && !r.ps.VerifQueueCheckIdle(); i++ {
			time.Sleep(500 * time.Microsecond)
		}
	}
	r.insideStep = true
	p := r.ps.StepNodes(ctx)
	r.insideStep = false
	r.log("step", "", fmt.Sprint(p))
	if r.Tracer != nil {
		r.Tracer.observe("W", nil)
		r.Tracer.emit("stepend")
	}
	return false, p
}

// Crash: mrp dies (SIGKILL).  The operator removes the stale _lock and restarts.
func (r *TARun) Crash() error {
	r.log("crash", "", "")
	// storage goroutines of the dead process: let them finish before we drop it
	r.ps.VerifStorageBarrier()
	r.ps = nil
	r.rt = nil
	r.killPending(r.Opts.CrashSurvive)
	if r.Tracer != nil {
		r.Tracer.emit("crash")
	}
	os.Remove(path.Join(r.PsDir, "_lock"))
	return r.Restart()
}

// killPending: mrp is gone; in-flight jobs die with it unless they survive.
func (r *TARun) killPending(surviveProb float64) {
	deadPid := 0x7ffffff0
	var keep []*TAJob
	for _, j := range r.Pending {
		survive := j.Started && r.Rng.Float64() < surviveProb
		if survive {
			// a job that outlives mrp may have been computing quietly for hours: its `_log` is old (the
			// age of `_log` says nothing about liveness — heartbeats go through the journal)
			old := time.Now().Add(-3 * time.Hour)
			os.Chtimes(path.Join(j.MetadataPath, "_log"), old, old)
			keep = append(keep, j)
			continue
		}
		j.Dead = true
		if j.Started {
			// the job died with mrp: its recorded pid is no longer a live process
			var ji map[string]interface{}
			if b, err := os.ReadFile(path.Join(j.MetadataPath, "_jobinfo")); err == nil {
				json.Unmarshal(b, &ji)
			}
			if ji != nil {
				ji["pid"] = deadPid
				if r.Rng.Intn(5) == 0 {
					// the job monitor was killed after creating _log but before recording its pid
					delete(ji, "pid")
				}
				if b, err := json.Marshal(ji); err == nil {
					os.WriteFile(path.Join(j.MetadataPath, "_jobinfo"), b, 0o644)
				}
			}
		}
		r.log("killed", j.Key, "")
		if r.Tracer != nil {
			r.Tracer.emit("killed %s", r.Tracer.jobRef(j))
		}
	}
	r.Pending = keep
}

// Restart: what `mrp` does when started on an existing pipestance directory.
func (r *TARun) Restart() error {
	r.Inc++
	if err := r.newRuntime(); err != nil {
		return err
	}
	ctx := context.Background()
	ps, err := r.rt.ReattachToPipestance(r.Opts.Psid, r.PsDir, r.Src, r.Opts.SrcPath,
		r.Opts.MroPaths, "verif", nil, true, false, ctx)
	for try := 0; err != nil && try < 3 && r.Opts.FullReset &&
		(strings.Contains(err.Error(), "unlinkat") || strings.Contains(err.Error(), "directory not empty")); try++ {
		// In this in-process emulation the goroutines of the "dead" mrp (e.g. `go partialVdrKill()` started
		// when a join was submitted) are still running and may create a file in a directory the new
		// incarnation is removing (Node.reset, FullStageReset).  A dead process has no goroutines:
		// let them finish and re-attach again.
		os.Remove(path.Join(r.PsDir, "_lock"))
		time.Sleep(time.Duration(50*(try+1)) * time.Millisecond)
		if err2 := r.newRuntime(); err2 != nil {
			return err2
		}
		ps, err = r.rt.ReattachToPipestance(r.Opts.Psid, r.PsDir, r.Src, r.Opts.SrcPath,
			r.Opts.MroPaths, "verif", nil, true, false, ctx)
	}
	if err != nil {
		return fmt.Errorf("reattach: %v", err)
	}
	r.ps = ps
	if err := ps.Reset(); err != nil {
		return fmt.Errorf("reset: %v", err)
	}
	if err := ps.RestartLocalJobs("local"); err != nil {
		return fmt.Errorf("restart local: %v", err)
	}
	ps.LoadMetadata(ctx)
	r.log("restart", "", "")
	if r.Tracer != nil {
		r.Tracer.newIncarnation()
		r.Tracer.emit("restart")
		r.Tracer.observe("D", nil)
		r.Tracer.matchById = false // ids are only a stable identity across the restart itself
	}
	return nil
}

// Run drives the pipestance to completion/failure under the PRNG schedule.
func (r *TARun) Run() {
	defer func() {
		if e := recover(); e != nil {
			r.Final = fmt.Sprintf("panic:%v", e)
			buf := make([]byte, 4096)
			buf = buf[:runtime.Stack(buf, false)]
			r.ErrMsg = string(buf)
			r.log("panic", "", r.Final)
		}
	}()
	idle := 0
	for len(r.Events) < r.Opts.MaxEvents {
		if r.Opts.CrashAt != nil && r.Opts.CrashAt[len(r.Events)] {
			delete(r.Opts.CrashAt, len(r.Events))
			if err := r.Crash(); err != nil {
				r.Final = "error:" + err.Error()
				return
			}
			idle = 0
			continue
		}
		if r.Opts.SlowJobs != "" && len(r.Pending) > 0 {
			if done := r.slowStep(&idle); done {
				return
			}
			continue
		}
		doStep := len(r.Pending) == 0 || r.Rng.Float64() < r.Opts.StepBias
		if !doStep {
			var job *TAJob
			if r.Opts.Adversarial && r.Rng.Intn(3) != 0 {
				job = r.Pending[len(r.Pending)-1]
			} else {
				job = r.Pending[r.Rng.Intn(len(r.Pending))]
			}
			early := r.Opts.EarlyOutputs
			if early == 0 {
				early = r.Opts.StartSeparate
			}
			if !job.Started && r.Rng.Float64() < r.Opts.StartSeparate {
				r.startJob(job)
			} else if job.Started && !job.OutputsWritten && early > 0 && r.Rng.Float64() < early {
				r.writeOutputs(job)
			} else {
				r.finishJob(job)
			}
			idle = 0
			continue
		}
		done, progress := r.stepOnce()
		if done {
			if r.Final == "failed" {
				r.FailMsgs = append(r.FailMsgs, r.ErrMsg)
				if r.Opts.RestartAfterFail && !r.restartedAfterFail {
					r.restartedAfterFail = true
					// jobs still in flight belong to the dead mrp's process group
					r.killPending(0)
					if r.Tracer != nil {
						r.Tracer.emit("crash")
					}
					r.Final, r.ErrMsg = "", ""
					if err := r.Restart(); err != nil {
						r.Final = "error:" + err.Error()
						return
					}
					idle = 0
					continue
				}
			}
			return
		}
		if progress || len(r.Pending) > 0 {
			if progress {
				idle = 0
			}
		}
		if !progress && len(r.Pending) == 0 {
			idle++
			// asynchronous storage work may still be in flight
			r.ps.VerifStorageBarrier()
			if idle > 6 {
				r.log("stall", "", "")
				r.Final = "stall"
				r.ps.Unlock()
				return
			}
		}
	}
	r.Final = "error:event budget exhausted"
	if r.ps != nil {
		r.ps.Unlock()
	}
}

// TopOuts reads the top-level pipeline's recorded outputs.
func (r *TARun) TopOuts() (json.RawMessage, error) {
	top := r.Ast.Call.Id
	b, err := os.ReadFile(path.Join(r.PsDir, top, "fork0", "_outs"))
	return compactJSON(b), err
}

// RunTimed runs the pipestance with a watchdog; a run that does not return in
// time is reported as Final="hang" with a goroutine dump in ErrMsg (the run's
// goroutine is abandoned).
func (r *TARun) RunTimed(d time.Duration) {
	done := make(chan struct{})
	go func() {
		defer close(done)
		r.Run()
	}()
	// the deadline is about PROGRESS, not wall-clock: on a loaded machine a healthy run is slow, but it
	// keeps logging events (every scheduler pass is one); a hang is `d` without a single new event
	last, lastAt := int64(-1), time.Now()
	tick := time.NewTicker(250 * time.Millisecond)
	defer tick.Stop()
	for {
		select {
		case <-done:
			return
		case <-tick.C:
			if p := atomic.LoadInt64(&r.progress); p != last {
				last, lastAt = p, time.Now()
			} else if time.Since(lastAt) > d {
				buf := make([]byte, 1<<16)
				buf = buf[:runtime.Stack(buf, true)]
				r.Final = "hang"
				r.ErrMsg = string(buf)
				return
			}
		}
	}
}

// copyTree copies regular files and symlinks of src into dst (existing files are overwritten).
func copyTree(src, dst string) {
	filepath.Walk(src, func(p string, info os.FileInfo, err error) error {
		if err != nil {
			return nil
		}
		rel, _ := filepath.Rel(src, p)
		q := filepath.Join(dst, rel)
		switch {
		case info.IsDir():
			os.MkdirAll(q, 0o755)
		case info.Mode()&os.ModeSymlink != 0:
			if l, err := os.Readlink(p); err == nil {
				os.Remove(q)
				os.Symlink(l, q)
			}
		case info.Mode().IsRegular():
			if b, err := os.ReadFile(p); err == nil {
				os.WriteFile(q, b, info.Mode().Perm())
			}
		}
		return nil
	})
}
