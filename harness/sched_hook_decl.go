package main

// Temporary declaration: the Sched replay helper (harness/sched_replay.go)
// sets this hook in its init(); delete this file once that file declares it.
var schedReplayHook func(c *Ctx, lines []string) (bool, string)
