package main

// Merge expressions (the outputs of array- / map-called NESTED pipelines that are
// themselves the outputs of a mapped call) bound to UNTYPED map destinations:
// `map[] ← INNER.r`, `map ← split INNER.r` with `INNER.r : map<int>` merged over
// the forks of an inner map call, `INNER` itself array-called (audit pass 2, N1).
// The run time resolves such bindings with a second, type-directed resolver
// (TopNode.resolveMerge, MergeExp.filter, MergeExp.FindTypedRefs), not with
// LazyArgumentMap.Path.  Every shape is compiled, invoked and RUN under Tier A;
// typed destinations (`map<int>[]`, `map<int>`) are the control.

import (
	"fmt"
	"strings"
)

const c07MergeKey = "C07:merge-into-untyped-map"

type c07MergeShape struct {
	name    string
	dest    *c17Ty // parameter type of the consumer
	split   bool   // consumer is map-called over `split INNER.r`
	untyped bool
}

func c07MergeProgram(sh c07MergeShape, seed int64, literal bool) (*c07Pipe, *c07Pipe) {
	mi := c07M(c07B("int"))
	echo := &c07PCallee{name: "ECHOI", isStage: true, params: []c17Field{{"what", c07B("int")}}, outs: []c17Field{{"result", c07B("int")}}}
	gen := &c07PCallee{name: "GENMIA", isStage: true, params: []c17Field{{"seed", c07B("int")}}, outs: []c17Field{{"result", c07A(mi)}}}
	cons := &c07PCallee{name: "CONS", isStage: true, params: []c17Field{{"what", sh.dest}}, outs: []c17Field{{"n", c07B("int")}}}
	inner := &c07Pipe{name: "INNER", ins: []c17Field{{"xs", mi}}, outs: []c17Field{{"r", mi}},
		calls: []*c07PStm{{id: "ECHOI", callee: echo, binds: []c07NamedBind{{"what", c07Bind{split: true, e: c07Ref('r', "xs")}}}}},
		ret:   []c07NamedBind{{"r", c07Bind{e: c07Ref('c', "ECHOI", "result")}}}}
	var src *c07Exp = c07Ref('c', "GENMIA", "result")
	if literal {
		src = c07Arr(&c07Exp{kind: 'm', keys: []string{"k"}, elems: []*c07Exp{c07Int(1)}}, &c07Exp{kind: 'm', keys: []string{"l", "m"}, elems: []*c07Exp{c07Int(2), c07Int(3)}})
	}
	p := &c07Pipe{name: "P", outs: []c17Field{{"r", c07B("int")}}, extra: []*c07PCallee{echo, gen, cons}, inner: inner}
	p.calls = append(p.calls, &c07PStm{id: "GENMIA", callee: gen, binds: []c07NamedBind{{"seed", c07Bind{e: c07Int(seed)}}}})
	p.calls = append(p.calls, &c07PStm{id: "INNER", callee: &c07PCallee{name: "INNER", params: inner.ins, outs: inner.outs},
		binds: []c07NamedBind{{"xs", c07Bind{split: true, e: src}}}})
	p.calls = append(p.calls, &c07PStm{id: "CONS", callee: cons, binds: []c07NamedBind{{"what", c07Bind{split: sh.split, e: c07Ref('c', "INNER", "r")}}}})
	p.ret = []c07NamedBind{{"r", c07Bind{e: c07Ref('c', "GENMIA", "seed")}}}
	// the return only needs some int: the producer's input is not an output; use a literal
	p.ret = []c07NamedBind{{"r", c07Bind{e: c07Int(0)}}}
	return p, inner
}

func c07MergeUntypedMapStream(c *Ctx) {
	r := c.Res
	shapes := []c07MergeShape{
		{"map[]<-INNER.r", c07A(c07B("map")), false, true},
		{"map<-split INNER.r", c07B("map"), true, true},
		{"map<int>[]<-INNER.r", c07A(c07M(c07B("int"))), false, false},
		{"map<int><-split INNER.r", c07M(c07B("int")), true, false},
	}
	type cse struct {
		sh      c07MergeShape
		literal bool
		seed    int64
		src     string
	}
	var progs []*rtProgram
	var cases []cse
	for _, sh := range shapes {
		for _, literal := range []bool{true, false} {
			for seed := int64(1); seed <= 2; seed++ {
				if literal && seed > 1 {
					continue
				}
				p, _ := c07MergeProgram(sh, seed, literal)
				src := p.program()
				full := src + p.topCall()
				r.count(full, true)
				in := map[string]interface{}{"program": full, "shape": sh.name, "literal_source": literal}
				// model: every pipeline of the chain accepted?
				modelOk := true
				for _, q := range p.chain() {
					if rep := c.Drv.Ask("C07.pipe", q.enc()); !strings.HasPrefix(rep, "ok") {
						modelOk = false
						in["model"] = rep
					}
				}
				// all hypotheses of program_sound_partial on the program
				chain := p.chain()
				parts := []string{fmt.Sprint(len(chain))}
				for _, q := range chain {
					parts = append(parts, q.enc())
				}
				topStm := &c07PStm{id: p.name, callee: &c07PCallee{name: p.name, params: p.ins, outs: p.outs}}
				parts = append(parts, topStm.enc(), fmt.Sprint(len(chain)+1))
				progRep := c.Drv.Ask("C07.prog", strings.Join(parts, " "))
				progOk := strings.Contains(progRep, "progOk=true")
				in["model_prog"] = progRep
				r.hist(fmt.Sprintf("merge_untyped_%s_progOk=%v", map[bool]string{true: "untyped", false: "typed"}[sh.untyped], progOk))
				_, cerr := c07RealCompile(src)
				r.hist(fmt.Sprintf("merge_untyped_%s_compiler=%v_model=%v", map[bool]string{true: "untyped", false: "typed"}[sh.untyped], cerr == nil, modelOk))
				if (cerr == nil) != modelOk {
					r.violate(Violation{Kind: "correspondence", Key: "C07:merge-stream:verdict", What: "model and compiler disagree on a binding of a merged nested-pipeline output: " + sh.name,
						Input: in, Model: modelOk, Impl: fmt.Sprint(cerr), Broken: "correspondence checkPipeline ~ compiler"})
					continue
				}
				if cerr != nil {
					continue
				}
				q, err := compileProgram(fmt.Sprintf("merge-%s-%v-%d", sh.name, literal, seed), full, nil)
				if err != nil {
					in["error"] = err.Error()
					key := "C07:pipe:accepted-but-callgraph-fails"
					switch {
					case sh.untyped && strings.Contains(err.Error(), "unexpected merge expression for map"):
						key = c07MergeKey // repaired by 5969c07
					case sh.untyped && strings.Contains(err.Error(), "cannot be bound inside an untyped map"):
						key = c07UntypedMapKey // statically known forks: references inside an untyped map (known finding)
					case !sh.untyped && strings.Contains(err.Error(), "map call generates a nested map of"):
						key = "C07:invoke-fails:split-of-merged-nested-output" // known finding F-C07-SPLITMERGE
					}
					r.hist("merge_untyped_invoke_fails")
					if progOk && !sh.untyped {
						// F-C07-SPLITMERGE (known finding, typed destination): no hypothesis of program_sound_partial
						// excludes it – disclosed in the manifest as an open gap between the model and MakePipelineCallGraph
						r.hist("merge_typed_invoke_fails_but_progOk_true_known_gap")
					} else if progOk {
						r.violate(Violation{Kind: "correspondence", Key: "C07:prog:hypotheses-do-not-cover",
							What:  "a program that cannot be invoked satisfies every hypothesis of program_sound_partial: " + firstLine(err.Error()),
							Input: in, Broken: "Props.C07.program_sound_partial"})
					}
					r.violate(Violation{Kind: "property", Key: key,
						What:  "a merged output of a mapped nested pipeline bound to " + sh.dest.mro() + " is accepted by the compiler, but the pipeline cannot be invoked: " + firstLine(err.Error()),
						Input: in})
					continue
				}
				progs = append(progs, q)
				cases = append(cases, cse{sh, literal, seed, full})
			}
		}
	}
	if len(progs) == 0 {
		return
	}
	taInit()
	for i, cs := range runCases(c, progs, 1, TASpec{}) {
		res := cs.res
		k := cases[i]
		launched := 0
		for key, n := range res.Launches {
			if strings.Contains(key, ".P.CONS.") {
				launched += n
			}
		}
		cls := finalClass(res.Final)
		if res.Crashed {
			cls = "crashed"
		}
		r.hist(fmt.Sprintf("merge_untyped_run_%s_%s_consumer_launched=%v", map[bool]string{true: "untyped", false: "typed"}[k.sh.untyped], cls, launched > 0))
		if res.Final == "complete" && !res.Crashed {
			continue
		}
		in := map[string]interface{}{"program": k.src, "shape": k.sh.name, "literal_source": k.literal, "final": res.Final, "crashed": res.Crashed,
			"error": res.ErrMsg, "fail_msgs": res.FailMsgs, "history": excerpt(res.Events, 60)}
		key := "C07:runtime:" + classifyRuntimeError(res.Final, res.ErrMsg)
		if k.sh.untyped {
			key = c07MergeKey
		}
		r.violate(Violation{Kind: "property", Key: key,
			What:  "a merged output of a mapped nested pipeline bound to " + k.sh.dest.mro() + " (" + k.sh.name + "): accepted by model and compiler, invoked, run with conforming stage outputs, ended " + cls + ": " + firstLine(res.ErrMsg+" "+strings.Join(res.FailMsgs, " ")),
			Input: in, Broken: "Props.C07.program_sound_partial (resolveMerge is not Path)"})
	}
}
