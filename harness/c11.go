package main

// C11 — fork identities are unique; job notifications reach exactly their owner.
//
// Correspondence (real Go code, linked with -tags verif, vs the Lean model's
// executable definitions) and property monitors on the real code:
//   1. keys:        makeKeySafe vs pathEscape; url.PathUnescape round trip;
//                   encodeJournalName vs journalEnc; no '.' '/' in the result
//   2. fork ids:    ForkId.ForkIdString on generated part lists vs forkIdString
//   3. search:      exhaustive enumeration of key pairs / key tuples / nesting
//                   shapes on the REAL functions for directory and journal-name
//                   collisions (the failing-input search)
//   4. parser:      parseRunFilename (jobJournalRe) vs parseRun
//   5. end to end:  real NewFork/NewChunk naming, Metadata.journalFile, the
//                   mrjob-side Metadata.UpdateJournal, and the real
//                   Node.refreshState: every notification written for a job
//                   must be recorded for exactly that job; routing vs model.

import (
	"fmt"
	"net/url"
	"os"
	"path"
	"sort"
	"strconv"
	"strings"
	"time"

	"github.com/martian-lang/martian/martian/core"
	"github.com/martian-lang/martian/martian/util"
)

func init() { register("C11", runC11) }

type c11Part = core.VerifForkPart

// ---------- generators ----------

var c11Tokens = []string{"a", ".", "/", "%", "2", "E", "F", "_", "fork_", "b", "c", " ", "%2E", "%2F", "%25",
	"fork", "chnk0", ".chnk1", ".u0123456789", "..", "//", "é", "日本", "\U0001F600", "\xff", "\x00", "\n", "+", ",", ";", "?", "#",
	"~", "-", "$", "&", ":", "=", "@", "u", "0", "1", "10", "fork0", "fork1/fork_x", "split_", "join_", "complete", ".fork_a.", "\\", "\"", "'", "*"}

func c11GenKey(c *Ctx) string {
	var sb strings.Builder
	n := c.Rng.Intn(6)
	if c.Rng.Intn(12) == 0 {
		n = c.Rng.Intn(30)
	}
	for i := 0; i < n; i++ {
		switch c.Rng.Intn(8) {
		case 0, 1, 2, 3:
			sb.WriteString(c11Tokens[c.Rng.Intn(len(c11Tokens))])
		case 4:
			sb.WriteByte(byte(c.Rng.Intn(256)))
		case 5:
			var r rune
			switch c.Rng.Intn(3) {
			case 0:
				r = rune(0x80 + c.Rng.Intn(0x780))
			case 1:
				r = rune(0x800 + c.Rng.Intn(0xF800))
			default:
				r = rune(0x10000 + c.Rng.Intn(0x100000))
			}
			if r >= 0xD800 && r <= 0xDFFF {
				r = 0xE000
			}
			sb.WriteRune(r)
		default:
			sb.WriteByte(byte('a' + c.Rng.Intn(26)))
		}
	}
	return sb.String()
}

func c11KeyNontrivial(k string) bool {
	return url.PathEscape(k) != k || strings.ContainsAny(k, "./%")
}

var c11Lens = []int{1, 2, 3, 9, 10, 11, 99, 100, 101, 999, 1000, 1001, 12345, 100000, 1000000}

func c11GenLen(c *Ctx) int {
	if c.Rng.Intn(3) == 0 {
		return 1 + c.Rng.Intn(14)
	}
	return c11Lens[c.Rng.Intn(len(c11Lens))]
}

func c11GenIndex(c *Ctx, n int) int {
	switch c.Rng.Intn(5) {
	case 0:
		return 0
	case 1:
		return n - 1
	case 2:
		// just around a decimal boundary below n
		for _, b := range []int{9, 10, 99, 100, 999, 1000} {
			if b < n && c.Rng.Intn(3) == 0 {
				return b
			}
		}
	}
	return c.Rng.Intn(n)
}

func c11GenKeys(c *Ctx) []string {
	n := 1 + c.Rng.Intn(4)
	seen := map[string]bool{}
	var ks []string
	for len(ks) < n {
		k := c11GenKey(c)
		if !seen[k] {
			seen[k] = true
			ks = append(ks, k)
		}
	}
	return ks
}

func c11GenPart(c *Ctx, malformed bool) c11Part {
	switch r := c.Rng.Intn(20); {
	case r < 9:
		n := c11GenLen(c)
		p := c11Part{Kind: "arr", Len: n, Index: c11GenIndex(c, n), Static: c.Rng.Intn(2) == 0}
		if malformed && c.Rng.Intn(3) == 0 {
			p.Index = n + c.Rng.Intn(3)
		}
		if malformed && c.Rng.Intn(6) == 0 {
			p.Len, p.Index = 0, 0
		}
		return p
	case r < 18:
		ks := c11GenKeys(c)
		p := c11Part{Kind: "map", Keys: ks, Key: ks[c.Rng.Intn(len(ks))], Static: c.Rng.Intn(2) == 0}
		if malformed && c.Rng.Intn(3) == 0 {
			p.Key = p.Key + "x!"
		}
		return p
	case r < 19:
		if malformed {
			return c11Part{Kind: "empty"}
		}
		return c11Part{Kind: "undet"}
	default:
		return c11Part{Kind: "undet"}
	}
}

func c11EncodeParts(ps []c11Part) string {
	if len(ps) == 0 {
		return "."
	}
	o := make([]string, len(ps))
	for i, p := range ps {
		st := "0"
		if p.Static {
			st = "1"
		}
		switch p.Kind {
		case "arr":
			o[i] = fmt.Sprintf("a:%d:%d:%s", p.Index, p.Len, st)
		case "map":
			o[i] = fmt.Sprintf("k:%s:%s:%s", hx(p.Key), hxList(p.Keys), st)
		case "undet":
			o[i] = "u"
		case "empty":
			o[i] = "e"
		}
	}
	return strings.Join(o, ";")
}

func c11ShapeOf(ps []c11Part) string {
	var sb strings.Builder
	for _, p := range ps {
		switch p.Kind {
		case "arr":
			if p.Static {
				sb.WriteByte('A')
			} else {
				sb.WriteByte('a')
			}
		case "map":
			if p.Static {
				sb.WriteByte('M')
			} else {
				sb.WriteByte('m')
			}
		case "undet":
			sb.WriteByte('u')
		case "empty":
			sb.WriteByte('e')
		}
	}
	return sb.String()
}

func c11ShowParts(ps []c11Part) string {
	o := make([]string, len(ps))
	for i, p := range ps {
		switch p.Kind {
		case "arr":
			o[i] = fmt.Sprintf("arr[%d of %d static=%v]", p.Index, p.Len, p.Static)
		case "map":
			o[i] = fmt.Sprintf("map[key %q of %q static=%v]", p.Key, p.Keys, p.Static)
		default:
			o[i] = p.Kind
		}
	}
	return strings.Join(o, " / ")
}

// the fork id string from the real code; ok=false on error/panic
func c11ForkId(ps []c11Part) (string, bool, string) {
	s, e := core.VerifForkIdString(ps)
	return s, e == "", e
}

// ---------- main ----------

func runC11(c *Ctx) {
	r := c.Res
	util.ENABLE_LOGGING = false
	r.Rule = "keys: corpus + PRNG mix over an adversarial token set ('.', '/', '%', '%2E', 'fork_', spaces, controls, invalid UTF-8, non-ASCII) — " +
		"makeKeySafe vs pathEscape, PathUnescape round trip, encodeJournalName vs journalEnc; fork ids: generated part lists (static/run-time sized arrays with lengths around 9/10, 99/100, 999/1000, maps, unresolved parts, depth 1-4; plus a malformed stream) — ForkIdString vs forkIdString; " +
		"search: exhaustive key / key-pair / nesting-shape enumeration on the real functions for directory and journal-name collisions; parser: rendered and mutated journal names — parseRunFilename vs parseRun; " +
		"end to end: real NewFork/NewChunk/journalFile/UpdateJournal/refreshState on generated fork tables: each notification must be recorded for exactly the job that wrote it, and agree with the model's parse+getFork. " +
		"non-trivial = key set with >= 2 keys of which one needs escaping, or >= 2 fork parts, or a journal name with chunk/uniquifier; distinct = distinct canonical case"
	r.Histogram = map[string]int{}

	if only := os.Getenv("C11_ONLY"); only != "" { // debugging aid: run one stream
		switch only {
		case "batch":
			c11Batches(c)
		case "ta":
			c11KeyLens(c)
			c11LongKeys(c)
			c11TierA(c)
		}
		return
	}
	c11Keys(c)
	c11ForkIds(c)
	c11Search(c)
	c11Parser(c)
	c11Compiled(c)
	c11CompiledRagged(c)
	c11World(c)
	c11Find(c)
	c11Batches(c)
	c11KeyLens(c)
	c11LongKeys(c)
	c11NearKeys(c)
	c11TierA(c)
	c11Attempts(c)
	c11Resets(c)
}

// ---------- 1. keys ----------

func c11Keys(c *Ctx) {
	r := c.Res
	keys := append([]string{}, readCorpusLines(c.Corpus)...)
	keys = append(keys, "", ".", "..", "/", "%", "%2E", "%2e", "%2F", "%25", "%252E", "a.b", "a/b", "a%2Fb", "a%252Fb", "fork_a", "a/fork_b", "b/fork_c",
		" ", "a b", "é", "日本語", "\U0001F600", "\xff\xfe", "\x00", "\n", "+", "a+b", "~", "*", "fork0", "0", "10", "-1", "+1")
	for b := 0; b < 256; b++ {
		keys = append(keys, string([]byte{byte(b)}), "a"+string([]byte{byte(b)})+"b")
	}
	n := 4000
	if c.Thorough {
		n = 200000
	}
	for i := 0; i < n; i++ {
		keys = append(keys, c11GenKey(c))
	}
	reqs := make([][]string, 0, 3*len(keys))
	safe := make([]string, len(keys))
	jn := make([]string, len(keys))
	for i, k := range keys {
		safe[i] = core.VerifMakeKeySafe(k)
		jn[i] = core.VerifEncodeJournalName("fork_" + safe[i])
		reqs = append(reqs, []string{"C11.esc", hx(k)}, []string{"C11.jenc", hx("fork_" + safe[i])}, []string{"C11.unesc", hx(safe[i])})
	}
	reps := c.Drv.AskBatch(reqs)
	for i, k := range keys {
		r.count("key:"+k, c11KeyNontrivial(k))
		r.hist("keys")
		if i%1500 == 7 {
			r.sample(map[string]string{"key": k, "dir": "fork_" + safe[i], "journal_part": jn[i]})
		}
		if m := unhx(reps[3*i]); m != safe[i] {
			r.violate(Violation{Kind: "correspondence", Key: "C11:esc-model-mismatch", What: "makeKeySafe differs from Lean pathEscape",
				Input: fmt.Sprintf("%q", k), Impl: safe[i], Model: m, Broken: "correspondence C11.esc (Martian.ForkName.pathEscape)"})
		}
		if m := unhx(reps[3*i+1]); m != jn[i] {
			r.violate(Violation{Kind: "correspondence", Key: "C11:jenc-model-mismatch", What: "encodeJournalName differs from Lean journalEnc Gen.journalPairs",
				Input: fmt.Sprintf("%q", "fork_"+safe[i]), Impl: jn[i], Model: m, Broken: "correspondence C11.jenc (Martian.ForkName.journalEnc)"})
		}
		// property monitors on the real code
		back, err := url.PathUnescape(safe[i])
		if err != nil || back != k {
			r.violate(Violation{Kind: "property", Key: "C11:key-roundtrip", What: "url.PathUnescape(makeKeySafe(k)) != k: the safe key does not determine the key",
				Input: fmt.Sprintf("%q", k), Impl: fmt.Sprintf("%q (err %v)", back, err), Expect: fmt.Sprintf("%q", k), Broken: "pathEscape_roundtrip"})
		}
		if want := "some " + hx(k); reps[3*i+2] != want {
			r.violate(Violation{Kind: "correspondence", Key: "C11:unesc-model-mismatch", What: "Lean pathUnescape does not invert the real makeKeySafe",
				Input: fmt.Sprintf("%q", safe[i]), Impl: want, Model: reps[3*i+2], Broken: "correspondence C11.unesc"})
		}
		if strings.ContainsAny(jn[i], "./") || strings.Contains(safe[i], "/") {
			r.violate(Violation{Kind: "property", Key: "C11:component-not-clean", What: "a '.' or '/' survives in an encoded journal component (or a '/' in a safe key)",
				Input: fmt.Sprintf("%q", k), Impl: jn[i], Broken: "journal_component_clean"})
		}
	}
	// PathUnescape model on arbitrary (not necessarily escaped) text
	var ureqs [][]string
	var utexts []string
	for i := 0; i < n/4; i++ {
		s := c11GenKey(c)
		if c.Rng.Intn(2) == 0 {
			s = core.VerifMakeKeySafe(s)
			if len(s) > 0 && c.Rng.Intn(2) == 0 {
				p := c.Rng.Intn(len(s))
				s = s[:p] + c11Tokens[c.Rng.Intn(len(c11Tokens))] + s[p:]
			}
		}
		utexts = append(utexts, s)
		ureqs = append(ureqs, []string{"C11.unesc", hx(s)})
	}
	for i, rep := range c.Drv.AskBatch(ureqs) {
		r.count("unesc:"+utexts[i], false)
		got, err := url.PathUnescape(utexts[i])
		want := "none"
		if err == nil {
			want = "some " + hx(got)
		}
		if rep != want {
			r.violate(Violation{Kind: "correspondence", Key: "C11:unesc-model-mismatch", What: "url.PathUnescape differs from Lean pathUnescape",
				Input: fmt.Sprintf("%q", utexts[i]), Impl: want, Model: rep, Broken: "correspondence C11.unesc"})
		}
	}
	// decimal rendering at the width boundaries
	var dreqs [][]string
	var dwant []string
	for _, v := range []int{0, 1, 8, 9, 10, 11, 98, 99, 100, 101, 998, 999, 1000, 1001, 9999, 10000, 99999, 100000, 100001, 999999, 1000000, 123456789, 999999999999} {
		dreqs = append(dreqs, []string{"C11.width", strconv.Itoa(v)})
		dwant = append(dwant, strconv.Itoa(util.WidthForInt(v)))
		for _, w := range []int{0, 1, 2, 3, 7} {
			dreqs = append(dreqs, []string{"C11.pad", strconv.Itoa(w), strconv.Itoa(v)})
			dwant = append(dwant, hx(fmt.Sprintf("%0*d", w, v)))
		}
	}
	for i, rep := range c.Drv.AskBatch(dreqs) {
		r.count(strings.Join(dreqs[i], " "), false)
		if rep != dwant[i] {
			r.violate(Violation{Kind: "correspondence", Key: "C11:decimal-model-mismatch", What: "WidthForInt / %0*d differs from the Lean model",
				Input: strings.Join(dreqs[i], " "), Impl: dwant[i], Model: rep, Broken: "correspondence C11.width/pad"})
		}
	}
}

// ---------- 2. fork id strings ----------

func c11ForkIds(c *Ctx) {
	r := c.Res
	n := 3000
	if c.Thorough {
		n = 120000
	}
	var cases [][]c11Part
	// fixed regression shapes first
	ab := []string{"a", "b"}
	cases = append(cases,
		nil,
		[]c11Part{{Kind: "arr", Index: 0, Len: 1, Static: true}},
		[]c11Part{{Kind: "arr", Index: 10, Len: 11, Static: true}},
		[]c11Part{{Kind: "arr", Index: 1, Len: 3, Static: true}, {Kind: "map", Key: "a", Keys: ab, Static: true}},
		[]c11Part{{Kind: "arr", Index: 1, Len: 3, Static: true}, {Kind: "map", Key: "b", Keys: ab, Static: true}},
		[]c11Part{{Kind: "map", Key: "b", Keys: ab, Static: true}, {Kind: "arr", Index: 1, Len: 3, Static: true}},
		[]c11Part{{Kind: "arr", Index: 1, Len: 3}, {Kind: "arr", Index: 2, Len: 12}},
		[]c11Part{{Kind: "arr", Index: 0, Len: 3, Static: true}, {Kind: "arr", Index: 0, Len: 12, Static: true}},
		[]c11Part{{Kind: "arr", Index: 2, Len: 3, Static: true}, {Kind: "arr", Index: 11, Len: 12, Static: true}, {Kind: "arr", Index: 1, Len: 2, Static: true}},
		[]c11Part{{Kind: "map", Key: "a/fork_b", Keys: []string{"a/fork_b", "a"}, Static: true}, {Kind: "map", Key: "c", Keys: []string{"c", "b/fork_c"}, Static: true}},
		[]c11Part{{Kind: "undet"}, {Kind: "arr", Index: 1, Len: 3}},
		[]c11Part{{Kind: "arr", Index: 1, Len: 3}, {Kind: "empty"}},
	)
	for i := 0; i < n; i++ {
		depth := 1 + c.Rng.Intn(4)
		if c.Rng.Intn(4) == 0 {
			depth = 1
		}
		malformed := i%7 == 0
		ps := make([]c11Part, depth)
		prod := 1
		for j := range ps {
			ps[j] = c11GenPart(c, malformed)
			// util.WidthForInt goes through float64 log10 from 10^5 on and is only the digit
			// count (what the model says) below 10^15: keep the flat index space below that
			for ps[j].Kind == "arr" && ps[j].Len > 0 && prod*ps[j].Len >= 1e14 {
				ps[j] = c11GenPart(c, malformed)
			}
			if ps[j].Kind == "arr" && ps[j].Len > 0 {
				prod *= ps[j].Len
			}
		}
		cases = append(cases, ps)
	}
	reqs := make([][]string, len(cases))
	for i, ps := range cases {
		reqs[i] = []string{"C11.forkid", c11EncodeParts(ps)}
	}
	reps := c.Drv.AskBatch(reqs)
	for i, ps := range cases {
		s, ok, e := c11ForkId(ps)
		got := "none"
		if ok {
			got = "some " + hx(s)
		}
		r.count("forkid:"+reqs[i][1], len(ps) >= 2)
		r.hist("forkid_depth_" + strconv.Itoa(len(ps)))
		if !ok {
			r.hist("forkid_error")
		}
		if i%700 == 3 {
			r.sample(map[string]string{"parts": c11ShowParts(ps), "fork_id": s, "error": e})
		}
		if got != reps[i] {
			r.violate(Violation{Kind: "correspondence", Key: "C11:forkid-model-mismatch:" + c11ShapeOf(ps), What: "ForkId.ForkIdString differs from Lean forkIdString",
				Input: c11ShowParts(ps), Impl: got + " " + fmt.Sprintf("%q", s) + " " + e, Model: reps[i] + " " + fmt.Sprintf("%q", unhx(strings.TrimPrefix(reps[i], "some "))),
				Broken: "correspondence C11.forkid (Martian.ForkName.forkIdString Gen.forkIdReenters)"})
		}
	}
}

// ---------- 3. failing-input search: collisions on the real functions ----------

type c11Fork struct {
	parts []c11Part
	id    string
}

// c11CheckDistinct: the forks of one node must get pairwise distinct
// directories (ids) and pairwise distinct journal names.
func c11CheckDistinct(c *Ctx, forks []c11Fork, class string) {
	r := c.Res
	dirs := map[string]int{}
	jns := map[string]int{}
	for i, f := range forks {
		if j, dup := dirs[f.id]; dup {
			r.violate(Violation{Kind: "property", Key: "C11:dir-collision:" + class,
				What:  "two distinct forks of one call get the same directory",
				Input: map[string]string{"fork_a": c11ShowParts(forks[j].parts), "fork_b": c11ShowParts(f.parts)},
				Impl:  f.id, Expect: "distinct fork ids", Broken: "forkId_reenters_at_map_part / nested_fork_dirs_distinct_partial"})
			continue
		}
		dirs[f.id] = i
		jn := core.VerifEncodeJournalName(f.id)
		if j, dup := jns[jn]; dup {
			r.violate(Violation{Kind: "property", Key: "C11:journal-collision:" + class,
				What:  "two forks with distinct directories get the same journal name (fqname)",
				Input: map[string]string{"fork_a": c11ShowParts(forks[j].parts), "dir_a": forks[j].id, "fork_b": c11ShowParts(f.parts), "dir_b": f.id},
				Impl:  jn, Expect: "distinct journal names", Broken: "journal_table_percent_encoding / journal_name_injective"})
			continue
		}
		jns[jn] = i
	}
}

func c11EnumStrings(alpha []string, maxTok int) []string {
	var out []string
	level := []string{""}
	seen := map[string]bool{"": true}
	out = append(out, "")
	for l := 0; l < maxTok; l++ {
		var next []string
		for _, s := range level {
			for _, a := range alpha {
				t := s + a
				next = append(next, t)
				if !seen[t] {
					seen[t] = true
					out = append(out, t)
				}
			}
		}
		level = next
	}
	return out
}

func c11Search(c *Ctx) {
	r := c.Res
	alpha := []string{"a", ".", "/", "%", "2", "E", "F", "_", "fork_"}
	// (a) single map call: all keys over the alphabet
	l1 := 5
	if c.Thorough {
		l1 = 6
	}
	keys := c11EnumStrings(alpha, l1)
	forks := make([]c11Fork, 0, len(keys))
	for _, k := range keys {
		ps := []c11Part{{Kind: "map", Key: k, Keys: []string{k}, Static: false}}
		id, ok, _ := c11ForkId(ps)
		if !ok {
			r.violate(Violation{Kind: "property", Key: "C11:forkid-error", What: "ForkIdString fails for a legal key", Input: fmt.Sprintf("%q", k)})
			continue
		}
		forks = append(forks, c11Fork{ps, id})
		r.count("enum1:"+k, true)
	}
	r.hist("search_single_map_keys")
	r.Histogram["search_single_map_keys"] = len(keys)
	c11CheckDistinct(c, forks, "single-map")

	// (b) two nested map calls: all key pairs
	// all pairs of keys of <= 3 tokens; in the thorough tier also all (<= 4 tokens, <= 2 tokens) pairs both ways
	k2 := c11EnumStrings(alpha, 3)
	type kp struct{ a, b string }
	var pairs []kp
	for _, ka := range k2 {
		for _, kb := range k2 {
			pairs = append(pairs, kp{ka, kb})
		}
	}
	if c.Thorough {
		k4, k1 := c11EnumStrings(alpha, 4), c11EnumStrings(alpha, 2)
		for _, ka := range k4 {
			for _, kb := range k1 {
				pairs = append(pairs, kp{ka, kb}, kp{kb, ka})
			}
		}
	}
	forks = forks[:0]
	npairs := 0
	seenPair := map[kp]bool{}
	for _, p := range pairs {
		if seenPair[p] {
			continue
		}
		seenPair[p] = true
		ps := []c11Part{{Kind: "map", Key: p.a, Keys: []string{p.a}}, {Kind: "map", Key: p.b, Keys: []string{p.b}}}
		id, ok, _ := c11ForkId(ps)
		if !ok {
			continue
		}
		forks = append(forks, c11Fork{ps, id})
		npairs++
	}
	r.Evals += npairs
	r.Distinct += npairs
	r.Histogram["search_nested_map_key_pairs"] = npairs
	c11CheckDistinct(c, forks, "nested-maps")

	// (c) nesting shapes: every fork of a node whose fork roots have the given kinds
	type dim struct {
		kind   string
		n      int
		static bool
		keys   []string
	}
	dims := []dim{
		{"arr", 2, true, nil}, {"arr", 3, false, nil}, {"arr", 11, true, nil}, {"arr", 12, false, nil},
		{"map", 2, true, []string{"a", "b"}}, {"map", 3, false, []string{"a", "a/fork_b", "b/fork_a"}}, {"map", 2, true, []string{"fork0", "0"}},
	}
	maxDepth := 3
	var shapes [][]dim
	var rec func(cur []dim)
	rec = func(cur []dim) {
		if len(cur) > 0 {
			shapes = append(shapes, append([]dim{}, cur...))
		}
		if len(cur) == maxDepth {
			return
		}
		for _, d := range dims {
			rec(append(cur, d))
		}
	}
	rec(nil)
	nshape := 0
	for _, sh := range shapes {
		total := 1
		for _, d := range sh {
			total *= d.n
		}
		if total > 2000 {
			continue
		}
		forks = forks[:0]
		idx := make([]int, len(sh))
		bad := false
		for {
			ps := make([]c11Part, len(sh))
			for i, d := range sh {
				if d.kind == "arr" {
					ps[i] = c11Part{Kind: "arr", Index: idx[i], Len: d.n, Static: d.static}
				} else {
					ps[i] = c11Part{Kind: "map", Key: d.keys[idx[i]], Keys: d.keys, Static: d.static}
				}
			}
			id, ok, e := c11ForkId(ps)
			if !ok {
				if !bad {
					r.violate(Violation{Kind: "property", Key: "C11:forkid-error", What: "ForkIdString fails for a well-formed fork id: " + e, Input: c11ShowParts(ps)})
				}
				bad = true
			} else {
				forks = append(forks, c11Fork{ps, id})
			}
			// next index tuple
			j := 0
			for j < len(sh) {
				idx[j]++
				if idx[j] < sh[j].n {
					break
				}
				idx[j] = 0
				j++
			}
			if j == len(sh) {
				break
			}
		}
		class := ""
		for _, d := range sh {
			class += d.kind[:1]
		}
		// classes: which kinds follow each other (array-over-map is the interesting one)
		cls := "shape"
		if strings.Contains(class, "am") {
			cls = "array-over-map"
		} else if strings.Contains(class, "mm") {
			cls = "nested-maps"
		}
		c11CheckDistinct(c, forks, cls)
		r.Evals += len(forks)
		r.Distinct += len(forks)
		nshape++
	}
	r.Histogram["search_nesting_shapes"] = nshape

	// (d) dependent shapes: a run-time sized inner call whose length / key set differs from one
	// outer fork to the next (including empty), optionally around a third level: every fork of
	// the node, for every assignment of inner sources to outer forks
	type spec struct {
		n    int
		keys []string
	}
	outers := []dim{{"arr", 2, true, nil}, {"arr", 3, true, nil}, {"map", 2, true, []string{"a", "b"}}, {"arr", 3, false, nil}}
	inner := map[string][]spec{
		"arr": {{0, nil}, {1, nil}, {2, nil}, {3, nil}, {11, nil}},
		"map": {{0, nil}, {1, []string{"a"}}, {2, []string{"a", "b"}}, {2, []string{"a/fork_b", "b"}}, {2, []string{"fork0", "0"}}},
	}
	thirds := []*dim{nil, {"arr", 2, true, nil}, {"map", 2, true, []string{"x", "y"}}, {"arr", 2, false, nil}}
	ndep := 0
	mk := func(d dim, i int) c11Part {
		if d.kind == "arr" {
			return c11Part{Kind: "arr", Index: i, Len: d.n, Static: d.static}
		}
		return c11Part{Kind: "map", Key: d.keys[i], Keys: d.keys, Static: d.static}
	}
	for _, od := range outers {
		for _, ik := range []string{"arr", "map"} {
			specs := inner[ik]
			assign := make([]int, od.n)
			for {
				for _, th := range thirds {
					forks = forks[:0]
					for o := 0; o < od.n; o++ {
						sp := specs[assign[o]]
						var mids []c11Part
						if sp.n == 0 {
							mids = []c11Part{{Kind: "empty"}}
						} else {
							for j := 0; j < sp.n; j++ {
								mids = append(mids, mk(dim{ik, sp.n, false, sp.keys}, j))
							}
						}
						for _, m := range mids {
							if th == nil {
								forks = append(forks, c11Fork{parts: []c11Part{mk(od, o), m}})
								continue
							}
							for t := 0; t < th.n; t++ {
								forks = append(forks, c11Fork{parts: []c11Part{mk(od, o), m, mk(*th, t)}})
							}
						}
					}
					okAll := true
					for fi := range forks {
						id, ok, e := c11ForkId(forks[fi].parts)
						if !ok {
							r.violate(Violation{Kind: "property", Key: "C11:forkid-error", What: "ForkIdString fails for a well-formed fork id: " + e, Input: c11ShowParts(forks[fi].parts)})
							okAll = false
							break
						}
						forks[fi].id = id
					}
					if okAll {
						c11CheckDistinct(c, forks, "dependent-shapes")
						r.Evals += len(forks)
						r.Distinct += len(forks)
						ndep++
					}
				}
				j := 0
				for j < od.n {
					assign[j]++
					if assign[j] < len(specs) {
						break
					}
					assign[j] = 0
					j++
				}
				if j == od.n {
					break
				}
			}
		}
	}
	r.Histogram["search_dependent_shape_nodes"] = ndep
}

// ---------- 4. the journal regex as a parser ----------

var c11Files = []string{"complete", "errors", "progress", "log", "stdout", "stderr", "jobinfo", "perf.data", "profile.out", "vdrkill.partial",
	"metadata.zip", "assert", "heartbeat", "queued_locally", "stage_defs", "chunk_defs", "outs", "uiport", "uuid", "finalstate"}

func c11GenJournalName(c *Ctx) string {
	fq := []string{"P", "P.S", "TOP.INNER.ECHO", "fork1", "P.fork1.S", "P.chnk0", "A.fork_x.B", "Ü.S"}[c.Rng.Intn(8)]
	var fp string
	switch c.Rng.Intn(4) {
	case 0:
		fp = strconv.Itoa(c.Rng.Intn(1200))
	case 1:
		fp = fmt.Sprintf("%03d", c.Rng.Intn(1000))
	default:
		ks := c11GenKey(c)
		fp = strings.TrimPrefix(core.VerifEncodeJournalName("fork_"+core.VerifMakeKeySafe(ks)), "fork")
		if c.Rng.Intn(3) == 0 {
			fp += "%2Ffork_" + core.VerifMakeKeySafe(c11GenKey(c))
		}
	}
	s := fq + ".fork" + fp
	if c.Rng.Intn(2) == 0 {
		s += fmt.Sprintf(".chnk%0*d", 1+c.Rng.Intn(4), c.Rng.Intn(1200))
	}
	if c.Rng.Intn(2) == 0 {
		s += fmt.Sprintf(".u%04x%06x", c.Rng.Intn(65536), c.Rng.Intn(1<<24))
	}
	file := c11Files[c.Rng.Intn(len(c11Files))]
	switch c.Rng.Intn(4) {
	case 0:
		file = "split_" + file
	case 1:
		file = "join_" + file
	}
	return s + "." + file
}

func c11Mutate(c *Ctx, s string) string {
	if len(s) == 0 {
		return "."
	}
	muts := []string{".", ".fork", "fork", ".chnk", ".chnk1", ".u", ".u0123456789", "0", "a", "_", "%2E", ".forkX.", "..", "ABCDEF", "g"}
	p := c.Rng.Intn(len(s) + 1)
	switch c.Rng.Intn(3) {
	case 0:
		return s[:p] + muts[c.Rng.Intn(len(muts))] + s[p:]
	case 1:
		q := p + c.Rng.Intn(4)
		if q > len(s) {
			q = len(s)
		}
		return s[:p] + s[q:]
	default:
		return s[:p] + muts[c.Rng.Intn(len(muts))] + s[min(len(s), p+1):]
	}
}

func c11ParseGo(s string) string {
	fq, fp, ch, uq, file := core.VerifParseRunFilename(s)
	if fq == "" && fp == "" && ch == -1 && uq == "" && file == "" {
		return "none"
	}
	return fmt.Sprintf("fq=%q fork=%q chunk=%d uniq=%q file=%q", fq, fp, ch, uq, file)
}

func c11ParseModel(rep string) string {
	if rep == "none" || rep == "nl" {
		return rep
	}
	f := strings.Fields(rep)
	if len(f) != 6 || f[0] != "some" {
		return "bad-reply " + rep
	}
	ch := -1
	if f[3] != "-" {
		// strconv.Atoi semantics of parseRunFilename (error ignored: overflow saturates)
		v, _ := strconv.Atoi(unhx(f[3]))
		ch = v
	}
	return fmt.Sprintf("fq=%q fork=%q chunk=%d uniq=%q file=%q", unhx(f[1]), unhx(f[2]), ch, unhx(f[4]), unhx(f[5]))
}

func c11Parser(c *Ctx) {
	r := c.Res
	if re := core.VerifJobJournalRe(); re != `(.*)\.fork([^.]+)(?:\.chnk(\d+))?(?:\.u([a-f0-9]{10}))?\.(.*)$` {
		r.violate(Violation{Kind: "correspondence", Key: "C11:regex-changed", What: "jobJournalRe is not the pattern the Lean parser models", Impl: re,
			Broken: "journal_regex_is_the_modelled_one"})
	}
	n := 4000
	if c.Thorough {
		n = 150000
	}
	names := []string{"", ".", "a", ".fork", ".fork.", ".fork0", ".fork0.", "x.fork0.complete", ".fork0.complete", "x.fork.complete", "x.fork0..complete",
		"x.fork0.chnk1.complete", "x.fork0.chnk.complete", "x.fork0.chnk1x.complete", "x.fork0.chnk1.u0123456789.complete", "x.fork0.u0123456789.complete",
		"x.fork0.u012345678.complete", "x.fork0.u0123456789a.complete", "x.fork0.u012345678G.complete", "x.fork0.uABCDEF0123.complete",
		"x.fork0.chnk99999999999999999999.complete", "x.fork0.chnk1.chnk2.complete", "x.fork1.fork2.complete", "x.fork1.fork2", "x.fork1.y.fork2.z.w",
		"x.fork0.complete.fork", "x.fork0.a.forkb", "x.fork0.a.forkb.c", "x.forkfork.fork.x", "x.fork_a%2Ffork_b.complete", "x.fork0.chnk1", "x.fork0.chnk1.",
		"x.fork0.u0123456789", "x.fork0.u0123456789.", "x.fork٣.chnk٣.complete"}
	for i := 0; i < n; i++ {
		s := c11GenJournalName(c)
		names = append(names, s)
		if i%2 == 0 {
			m := c11Mutate(c, s)
			if c.Rng.Intn(3) == 0 {
				m = c11Mutate(c, m)
			}
			names = append(names, m)
		}
		if i%10 == 0 {
			names = append(names, c11GenKey(c)+".fork"+c11GenKey(c)+"."+c11GenKey(c))
		}
	}
	reqs := make([][]string, len(names))
	for i, s := range names {
		reqs[i] = []string{"C11.parse", hx(s)}
	}
	reps := c.Drv.AskBatch(reqs)
	for i, s := range names {
		g := c11ParseGo(s)
		m := c11ParseModel(reps[i])
		r.count("parse:"+s, strings.Contains(s, ".chnk") || strings.Contains(s, ".u"))
		if m == "nl" {
			r.hist("parse_newline_out_of_model")
			continue
		}
		if g == "none" {
			r.hist("parse_no_match")
		} else {
			r.hist("parse_match")
		}
		if g != m {
			r.violate(Violation{Kind: "correspondence", Key: "C11:parse-model-mismatch", What: "parseRunFilename (jobJournalRe) differs from Lean parseRun",
				Input: fmt.Sprintf("%q", s), Impl: g, Model: m, Broken: "correspondence C11.parse (Martian.ForkName.parseRun)"})
		}
	}
}

// ---------- 4b. fork ids of compiled programs (real MakeForkIds) ----------

const c11NestTemplate = `
stage ECHO(
    in  int what,
    in  int k,
    out int result,
    src comp "x",
)

pipeline INNER(
    in  int v,
    out %[1]s r,
)
{
    map call ECHO(
        what = split %[2]s,
        k    = self.v,
    )
    return (
        r = ECHO.result,
    )
}

pipeline TOP(
    out %[3]s r,
)
{
    map call INNER(
        v = split %[4]s,
    )
    return (
        r = INNER.r,
    )
}

call TOP()
`

func c11MroString(s string) string {
	var sb strings.Builder
	sb.WriteByte('"')
	for _, r := range s {
		switch {
		case r == '"' || r == '\\':
			sb.WriteByte('\\')
			sb.WriteRune(r)
		case r < 0x20 || r == 0x7f || r == 0xFFFD:
			sb.WriteByte('_')
		default:
			sb.WriteRune(r)
		}
	}
	sb.WriteByte('"')
	return sb.String()
}

// c11Compiled: statically mapped nestings are compiled by the real front end and
// expanded by the real ForkIdSet.MakeForkIds; every fork of the innermost
// stage must get its own directory and its own journal name.
func c11Compiled(c *Ctx) {
	r := c.Res
	lit := func(kind string, n int, keys []string) (string, string) {
		if kind == "arr" {
			xs := make([]string, n)
			for i := range xs {
				xs[i] = strconv.Itoa(i + 1)
			}
			return "[" + strings.Join(xs, ", ") + "]", "[]"
		}
		xs := make([]string, len(keys))
		for i, k := range keys {
			xs[i] = c11MroString(k) + ": " + strconv.Itoa(i+1)
		}
		return "{" + strings.Join(xs, ", ") + "}", "map"
	}
	type nest struct {
		okind string
		on    int
		okeys []string
		ikind string
		in    int
		ikeys []string
	}
	nests := []nest{
		{"arr", 3, nil, "map", 0, []string{"a", "b"}},
		{"map", 0, []string{"a", "b"}, "arr", 3, nil},
		{"map", 0, []string{"a/fork_b", "a"}, "map", 0, []string{"c", "b/fork_c"}},
		{"arr", 12, nil, "arr", 11, nil},
		{"arr", 2, nil, "map", 0, []string{".", "%2E", "/", "%2F", "fork0", " "}},
	}
	n := 6
	if c.Thorough {
		n = 120
	}
	for i := 0; i < n; i++ {
		nn := nest{okind: []string{"arr", "map"}[c.Rng.Intn(2)], ikind: []string{"arr", "map"}[c.Rng.Intn(2)],
			on: 1 + c.Rng.Intn(12), in: 1 + c.Rng.Intn(12)}
		clean := func(ks []string) []string {
			seen := map[string]bool{}
			var out []string
			for _, k := range ks {
				k = strings.ToValidUTF8(k, "?")
				k = strings.Map(func(r rune) rune {
					if r < 0x20 || r == 0x7f {
						return '_'
					}
					return r
				}, k)
				if !seen[k] {
					seen[k] = true
					out = append(out, k)
				}
			}
			return out
		}
		nn.okeys, nn.ikeys = clean(c11GenKeys(c)), clean(c11GenKeys(c))
		nests = append(nests, nn)
	}
	for _, nn := range nests {
		olit, oty := lit(nn.okind, nn.on, nn.okeys)
		ilit, ity := lit(nn.ikind, nn.in, nn.ikeys)
		// result types: int collected over inner, then over outer
		innerTy := "int[]"
		if ity == "map" {
			innerTy = "map<int>"
		}
		var outerTy string
		switch {
		case oty == "[]" && ity == "[]":
			outerTy = "int[][]"
		case oty == "[]" && ity == "map":
			outerTy = "map<int>[]"
		case oty == "map" && ity == "[]":
			outerTy = "map<int[]>"
		default:
			continue // map of map is not a legal MRO type: bind through a struct instead (not generated here)
		}
		src := fmt.Sprintf(c11NestTemplate, innerTy, ilit, outerTy, olit)
		ids, err := core.VerifCompiledForkIds(src, "TOP.INNER.ECHO")
		if err != nil {
			r.note("compiled nesting %s over %s: %v", nn.okind, nn.ikind, err)
			continue
		}
		r.hist("compiled_nestings")
		// the fork set as the model builds it (makeForkIds; forkSet_names_nodup): same id strings in the same order
		{
			enc := func(kind string, n int, keys []string) string {
				if kind == "arr" {
					return fmt.Sprintf("a:%d", n)
				}
				ks := append([]string{}, keys...)
				sort.Strings(ks)
				return "k:" + hxList(ks)
			}
			// ForkRoots of TOP.INNER.ECHO: the outer call's source first
			rep := c.Drv.Ask("C11.makeforkids", enc(nn.okind, nn.on, nn.okeys)+";"+enc(nn.ikind, nn.in, nn.ikeys))
			var mids []string
			for _, h := range strings.Split(rep, ";") {
				mids = append(mids, unhx(h))
			}
			r.hist("compiled_forksets_vs_model")
			if strings.Join(mids, "\x00") != strings.Join(ids, "\x00") {
				r.violate(Violation{Kind: "correspondence", Key: "C11:forkset-model-mismatch", What: "the fork set ForkIdSet.MakeForkIds builds for a compiled nesting differs from the model's makeForkIds (id strings, list order)",
					Input: map[string]interface{}{"mro": src, "stage": "TOP.INNER.ECHO"}, Impl: ids, Model: mids, Broken: "correspondence C11.makeforkids (forkSet_names_nodup)"})
			}
		}
		want := 1
		if nn.okind == "arr" {
			want *= nn.on
		} else {
			want *= len(nn.okeys)
		}
		if nn.ikind == "arr" {
			want *= nn.in
		} else {
			want *= len(nn.ikeys)
		}
		cls := "shape"
		if nn.okind == "arr" && nn.ikind == "map" {
			cls = "array-over-map"
		}
		dirs := map[string]bool{}
		jns := map[string]bool{}
		for _, id := range ids {
			r.count("compiled:"+src+":"+id, true)
			jn := core.VerifEncodeJournalName(id)
			if dirs[id] {
				r.violate(Violation{Kind: "property", Key: "C11:compiled-dir-collision:" + cls, What: "two forks of a compiled, statically mapped stage get the same directory (ForkIdSet.MakeForkIds + ForkIdString)",
					Input: map[string]interface{}{"mro": src, "stage": "TOP.INNER.ECHO"}, Impl: ids, Expect: fmt.Sprintf("%d distinct fork ids", want),
					Broken: "forkId_reenters_at_map_part"})
				break
			}
			if jns[jn] {
				r.violate(Violation{Kind: "property", Key: "C11:compiled-journal-collision:" + cls, What: "two forks of a compiled, statically mapped stage get the same journal name",
					Input: map[string]interface{}{"mro": src, "stage": "TOP.INNER.ECHO"}, Impl: ids, Broken: "journal_name_injective"})
				break
			}
			dirs[id], jns[jn] = true, true
		}
		if len(ids) != want {
			r.violate(Violation{Kind: "property", Key: "C11:fork-count:" + cls, What: "a statically mapped stage does not get one fork per index/key combination",
				Input: map[string]interface{}{"mro": src}, Impl: len(ids), Expect: want})
		}
	}
}

const c11RaggedTemplate = `
stage ECHO(
    in  int what,
    in  int k,
    out int result,
    src comp "x",
)

pipeline INNER(
    in  %[1]s items,
    out %[2]s r,
)
{
    map call ECHO(
        what = split self.items,
        k    = 1,
    )
    return (
        r = ECHO.result,
    )
}

pipeline TOP(
    out %[3]s r,
)
{
    map call INNER(
        items = split %[4]s,
    )
    return (
        r = INNER.r,
    )
}

call TOP()
`

// c11CompiledRagged: statically known inner sources whose length / key set differs from one outer
// fork to the next (including empty and null elements): the forks of the inner stage, as expanded by
// the real compiler + ForkIdSet.MakeForkIds, must all get their own directory and journal name.
func c11CompiledRagged(c *Ctx) {
	r := c.Res
	type prog struct {
		innerIn, innerOut, topOut, lit string
		want                           int
	}
	progs := []prog{
		{"int[]", "int[]", "int[][]", "[[1, 2, 3], [4], []]", -1},
		{"int[]", "int[]", "int[][]", "[[-1], null]", -1},
		{"int[]", "int[]", "int[][]", "[[], [], [1, 2]]", -1},
		{"int[]", "int[]", "int[][]", "[[1, 2, 3, 4, 5, 6, 7, 8, 9, 10, 11], [1], [1, 2]]", -1},
		{"map<int>", "map<int>", "map<int>[]", `[{"a": 1, "b": 2}, {}, {"a/fork_b": 1}, {"b": 3}]`, -1},
		{"int[]", "int[]", "map<int[]>", `{"x": [1, 2], "y": [], "x/fork0": [3]}`, -1},
	}
	for _, pg := range progs {
		src := fmt.Sprintf(c11RaggedTemplate, pg.innerIn, pg.innerOut, pg.topOut, pg.lit)
		ids, err := core.VerifCompiledForkIds(src, "TOP.INNER.ECHO")
		if err != nil {
			r.note("compiled ragged nesting %s: %v", pg.lit, err)
			continue
		}
		r.hist("compiled_ragged_nestings")
		seen := map[string]bool{}
		jseen := map[string]bool{}
		for _, id := range ids {
			r.count("compiled-ragged:"+pg.lit+":"+id, true)
			jn := core.VerifEncodeJournalName(id)
			if seen[id] || jseen[jn] {
				r.violate(Violation{Kind: "property", Key: "C11:compiled-dir-collision:dependent-shapes",
					What:  "two forks of a compiled stage under outer forks with different (static) inner sources get the same directory or journal name",
					Input: map[string]interface{}{"mro": src, "stage": "TOP.INNER.ECHO"}, Impl: ids, Expect: "pairwise distinct fork ids",
					Broken: "forkName_distinct_after_divergence"})
				break
			}
			seen[id], jseen[jn] = true, true
		}
		if len(r.Samples) < 8 {
			r.sample(map[string]interface{}{"source": pg.lit, "fork_ids_of_TOP.INNER.ECHO": ids})
		}
	}
}

// ---------- 5. end to end on the real naming + journal code ----------

const c11MroTemplate = `
stage %[1]s(
    in  int x,
    out int y,
    src comp "x",
)

stage %[2]s(
    in  int x,
    out int y,
    src comp "x",
) split (
    in  int z,
)

pipeline %[3]s(
    in  int x,
    out int y,
)
{
    call %[1]s(
        x = self.x,
    )
    call %[2]s(
        x = %[1]s.y,
    )
    return (
        y = %[2]s.y,
    )
}

pipeline TOP(
    in  int x,
    out int y,
)
{
    call %[3]s(
        x = self.x,
    )
    return (
        y = %[3]s.y,
    )
}

call TOP(
    x = 1,
)
`

type c11Job struct {
	fqid  string
	fork  int
	job   string // split | chunk | join
	chunk int
}

func (j c11Job) String() string {
	return fmt.Sprintf("%s fork#%d %s chunk=%d", j.fqid, j.fork, j.job, j.chunk)
}

type c11Scenario struct {
	name   string
	stage  string // plain stage name
	sstage string // split stage name
	pipe   string
	forks  [][]c11Part // the fork table of both stage nodes, in list order
	chunks int
}

func c11Uniq(c *Ctx) string {
	return fmt.Sprintf("%04x%06x", c.Rng.Intn(65536), c.Rng.Intn(1<<24))
}

func c11World(c *Ctx) {
	r := c.Res
	var scen []c11Scenario
	arr := func(i, n int, st bool) c11Part { return c11Part{Kind: "arr", Index: i, Len: n, Static: st} }
	key := func(k string, ks []string, st bool) c11Part {
		return c11Part{Kind: "map", Key: k, Keys: ks, Static: st}
	}
	// A.1 (F8): a run-time-sized outer map call around a statically mapped stage: list positions 0..5 carry fork0, fork2, fork4, fork1, fork3, fork5
	a1 := [][]c11Part{}
	for _, flat := range []int{0, 2, 4, 1, 3, 5} {
		a1 = append(a1, []c11Part{arr(flat%2, 2, false), arr(flat/2, 3, true)})
	}
	scen = append(scen, c11Scenario{name: "A1-dynamic-outer-static-inner", stage: "ECHO", sstage: "SPLIT", pipe: "INNER", forks: a1, chunks: 2})
	// A.2 (F7): nested map calls whose keys contain "/fork_"
	ko, ki := []string{"a/fork_b", "a"}, []string{"c", "b/fork_c"}
	a2 := [][]c11Part{}
	for _, o := range ko {
		for _, i := range ki {
			a2 = append(a2, []c11Part{key(o, ko, true), key(i, ki, true)})
		}
	}
	scen = append(scen, c11Scenario{name: "A2-nested-maps-slash-fork", stage: "ECHO", sstage: "SPLIT", pipe: "INNER", forks: a2, chunks: 1})
	// array call over a map call
	am := [][]c11Part{}
	for i := 0; i < 3; i++ {
		for _, k := range []string{"a", "b"} {
			am = append(am, []c11Part{arr(i, 3, true), key(k, []string{"a", "b"}, true)})
		}
	}
	scen = append(scen, c11Scenario{name: "array-over-map", stage: "ECHO", sstage: "SPLIT", pipe: "INNER", forks: am, chunks: 1})
	// adversarial names of stages/pipelines; arrays crossing 9/10 with shuffled list order; chunk counts crossing 9/10/100
	shuf := [][]c11Part{}
	for _, i := range c.Rng.Perm(12) {
		shuf = append(shuf, []c11Part{arr(i, 12, true)})
	}
	scen = append(scen, c11Scenario{name: "shuffled-array-12", stage: "fork1", sstage: "chnk0", pipe: "fork_2", forks: shuf, chunks: 11})
	scen = append(scen, c11Scenario{name: "map-looks-numeric", stage: "u0123456789", sstage: "fork", pipe: "P",
		forks: [][]c11Part{{key("1", []string{"1", "0", "+0", "-0"}, true)}, {key("0", []string{"1", "0", "+0", "-0"}, true)}, {key("+0", nil, false)}, {key("-0", nil, false)}}, chunks: 101})
	// near-equal sibling keys in ONE fork table: the lookup must be exact (no case folding, normalisation, trimming …)
	nnear := 3
	if c.Thorough {
		nnear = 40
	}
	for i := 0; i < nnear; i++ {
		base := c11NearBase(c)
		if i == 0 {
			base = c11NearBases[0]
		}
		ks := c11NearSubset(c, base, 9)
		if c.Rng.Intn(2) == 0 {
			sort.Strings(ks) // the order in which the runtime lists the forks of a map call
		}
		var forks [][]c11Part
		st := c.Rng.Intn(2) == 0
		for _, k := range ks {
			forks = append(forks, []c11Part{key(k, ks, st)})
		}
		scen = append(scen, c11Scenario{name: fmt.Sprintf("near-equal-keys-%d", i), stage: "ST", sstage: "SP", pipe: "PIPE", forks: forks, chunks: 2})
	}
	nrand := 6
	if c.Thorough {
		nrand = 150
	}
	for i := 0; i < nrand; i++ {
		var forks [][]c11Part
		switch c.Rng.Intn(3) {
		case 0: // one map call over an adversarial key set
			ks := c11GenKeys(c)
			for len(ks) < 3 {
				ks = append(ks, c11GenKey(c)+strconv.Itoa(len(ks)))
			}
			for _, k := range ks {
				forks = append(forks, []c11Part{key(k, ks, c.Rng.Intn(2) == 0)})
			}
		case 1: // nested maps
			ko, ki := c11GenKeys(c), c11GenKeys(c)
			for _, o := range ko {
				for _, in := range ki {
					forks = append(forks, []c11Part{key(o, ko, true), key(in, ki, c.Rng.Intn(2) == 0)})
				}
			}
		default: // nested arrays, run-time sized outer, list order as produced by expansion (inner first)
			no, ni := 1+c.Rng.Intn(4), 1+c.Rng.Intn(12)
			for o := 0; o < no; o++ {
				for in := 0; in < ni; in++ {
					forks = append(forks, []c11Part{arr(o, no, false), arr(in, ni, true)})
				}
			}
		}
		c.Rng.Shuffle(len(forks), func(a, b int) { forks[a], forks[b] = forks[b], forks[a] })
		scen = append(scen, c11Scenario{name: fmt.Sprintf("random-%d", i), stage: "ST", sstage: "SP", pipe: "PIPE", forks: forks,
			chunks: []int{1, 2, 9, 10, 11, 100}[c.Rng.Intn(6)]})
	}

	for si, sc := range scen {
		dir := path.Join(c.Scratch, fmt.Sprintf("w%d", si))
		os.MkdirAll(path.Join(dir, "journal"), 0o755)
		w, err := core.VerifNewWorld(fmt.Sprintf(c11MroTemplate, sc.stage, sc.sstage, sc.pipe), "ps", dir)
		if err != nil {
			r.note("scenario %s: cannot build world: %v", sc.name, err)
			continue
		}
		c11RunScenario(c, w, sc)
		os.RemoveAll(dir)
	}
}

func c11RunScenario(c *Ctx, w *core.VerifWorld, sc c11Scenario) {
	r := c.Res
	r.hist("world_scenarios")
	fqPlain := "ID.ps.TOP." + sc.pipe + "." + sc.stage
	fqSplit := "ID.ps.TOP." + sc.pipe + "." + sc.sstage
	trim := func(fq string) string { return strings.TrimPrefix(fq, "ID.ps.") }
	// build the fork tables
	tables := map[string][]c11ForkRec{}
	for _, fq := range []string{fqPlain, fqSplit} {
		nch := 1
		if fq == fqSplit {
			nch = sc.chunks
		}
		for _, ps := range sc.forks {
			names, err := w.AddFork(fq, ps, nch)
			if err != nil {
				r.note("scenario %s: AddFork(%s): %v", sc.name, c11ShowParts(ps), err)
				return
			}
			tables[fq] = append(tables[fq], c11ForkRec{names, ps})
		}
	}
	// (i) names: model vs real; distinctness of directories / fqnames / journal names / chunk names
	var reqs [][]string
	for _, fr := range tables[fqSplit] {
		reqs = append(reqs, []string{"C11.forkid", c11EncodeParts(fr.parts)}, []string{"C11.jenc", hx(fr.names.Id)})
	}
	reps := c.Drv.AskBatch(reqs)
	var flist []c11Fork
	for i, fr := range tables[fqSplit] {
		flist = append(flist, c11Fork{fr.parts, fr.names.Id})
		r.count("world-fork:"+sc.name+":"+fr.names.Fqname, len(fr.parts) >= 2 || c11KeyNontrivial(fr.names.Id))
		wantFq := fqSplit + "." + unhx(reps[2*i+1])
		if reps[2*i] != "some "+hx(fr.names.Id) || fr.names.Fqname != wantFq || fr.names.Path != path.Join(pathOfNode(w, fqSplit), fr.names.Id) ||
			fr.names.JournalPath != path.Join(w.JournalPath(), trim(wantFq)) {
			r.violate(Violation{Kind: "correspondence", Key: "C11:fork-names-model-mismatch", What: "Fork.updateId names differ from the model (id, fqname = fqid.journalEnc(id), path, journal path)",
				Input: c11ShowParts(fr.parts), Impl: fr.names, Model: map[string]string{"id": reps[2*i], "fqname": wantFq},
				Broken: "correspondence C11 fork naming"})
		}
		var creqs [][]string
		for ci := range fr.names.ChunkFqnames {
			creqs = append(creqs, []string{"C11.chunk", strconv.Itoa(len(fr.names.ChunkFqnames)), strconv.Itoa(ci)})
		}
		seen := map[string]bool{}
		for ci, rep := range c.Drv.AskBatch(creqs) {
			want := fr.names.Fqname + "." + unhx(rep)
			if fr.names.ChunkFqnames[ci] != want || fr.names.ChunkPaths[ci] != path.Join(fr.names.Path, unhx(rep)) {
				r.violate(Violation{Kind: "correspondence", Key: "C11:chunk-names-model-mismatch", What: "NewChunk names differ from the model",
					Input: fmt.Sprintf("%d chunks, index %d", len(fr.names.ChunkFqnames), ci), Impl: fr.names.ChunkFqnames[ci], Model: want, Broken: "correspondence C11.chunk"})
			}
			if seen[fr.names.ChunkFqnames[ci]] {
				r.violate(Violation{Kind: "property", Key: "C11:chunk-collision", What: "two chunks of one fork share a name", Input: fr.names.ChunkFqnames[ci], Broken: "chunk_names_distinct"})
			}
			seen[fr.names.ChunkFqnames[ci]] = true
		}
	}
	cls := "shape"
	if len(sc.forks) > 0 && len(sc.forks[0]) >= 2 {
		sh := c11ShapeOf(sc.forks[0])
		l := strings.ToLower(sh)
		if strings.Contains(l, "am") {
			cls = "array-over-map"
		} else if strings.Contains(l, "mm") {
			cls = "nested-maps"
		}
	} else if len(sc.forks) > 0 && sc.forks[0][0].Kind == "map" {
		cls = "single-map"
	}
	c11CheckDistinct(c, flist, cls)

	// (ii) notifications: each job writes each notification through the mrjob-side code; the real
	// refreshState must record it for exactly that job; the model must predict the same routing.
	var jobs []c11Job
	for fi := range tables[fqPlain] {
		jobs = append(jobs, c11Job{fqPlain, fi, "chunk", 0})
	}
	for fi, fr := range tables[fqSplit] {
		jobs = append(jobs, c11Job{fqSplit, fi, "split", -1}, c11Job{fqSplit, fi, "join", -1})
		for ci := range fr.names.ChunkFqnames {
			if ci < 3 || ci == len(fr.names.ChunkFqnames)-1 || ci == 9 || ci == 10 || c.Thorough {
				jobs = append(jobs, c11Job{fqSplit, fi, "chunk", ci})
			}
		}
	}
	// uniquifiers: some jobs are on a second attempt
	uniq := map[c11Job]string{}
	for _, j := range jobs {
		if c.Rng.Intn(2) == 0 {
			u := c11Uniq(c)
			uniq[j] = u
			w.SetUniquifier(j.fqid, j.fork, j.job, j.chunk, u)
		}
	}
	names := make(map[string][]string) // fqid -> fork name suffixes (after "fork") for the model's getFork
	for fq, tab := range tables {
		for _, fr := range tab {
			names[fq] = append(names[fq], strings.TrimPrefix(fr.names.Fqname, fq+".fork"))
		}
	}
	files := []string{"complete", "errors", "progress", "log", "stdout", "perf.data", "vdrkill.partial"}
	maxJobs := 60
	if c.Thorough {
		maxJobs = 400
	}
	if len(jobs) > maxJobs {
		c.Rng.Shuffle(len(jobs), func(a, b int) { jobs[a], jobs[b] = jobs[b], jobs[a] })
		jobs = jobs[:maxJobs]
	}
	for _, j := range jobs {
		file := files[c.Rng.Intn(len(files))]
		stale := c.Rng.Intn(6) == 0 // a notification from a previous attempt
		runFile := w.RunFile(j.fqid, j.fork, j.job, j.chunk)
		if stale {
			base := runFile
			if u, ok := uniq[j]; ok {
				base = strings.TrimSuffix(runFile, ".u"+u)
			}
			runFile = base + ".u" + c11Uniq(c)
		}
		runType := map[string]string{"split": "split", "join": "join", "chunk": "main"}[j.job]
		// mrjob main(): fqname := path.Base(args[3]); journalPath := path.Dir(args[3])
		md := core.NewMetadataRunWithJournalPath(path.Base(runFile), "", "", path.Dir(runFile), runType)
		if err := md.UpdateJournal(core.MetadataFileName(file)); err != nil {
			r.note("UpdateJournal(%s): %v", runFile, err)
			continue
		}
		ents, _ := os.ReadDir(w.JournalPath())
		written := []string{}
		for _, e := range ents {
			written = append(written, e.Name())
		}
		w.ClearSeen()
		if err := w.Refresh(); err != nil {
			r.violate(Violation{Kind: "property", Key: "C11:refresh-panic", What: "Node.refreshState panicked: " + err.Error(), Input: written})
			continue
		}
		seen := w.Seen()
		// expected: exactly this job's metadata object records `file`; a notification carrying another
		// attempt's uniquifier is ignored (Metadata.cache records only its own uniquifier)
		var expect []core.VerifSeen
		if !stale {
			expect = []core.VerifSeen{{Fqid: j.fqid, Fork: j.fork, Job: j.job, Chunk: j.chunk, Name: file}}
		} else {
			r.hist("world_stale_attempt_notifications")
		}
		canon := fmt.Sprintf("notify:%s:%v:%s:%v", sc.name, j, file, stale)
		r.count(canon, true)
		r.hist("world_notifications")
		if fmt.Sprint(seen) != fmt.Sprint(expect) {
			key := "C11:misroute:" + cls
			// classify: a numeric fork name applied to a list position
			fn := names[j.fqid][j.fork]
			if _, err := strconv.Atoi(fn); err == nil && len(seen) > 0 {
				key = "C11:misroute:numeric-position"
			}
			if len(seen) == 0 {
				key = "C11:notification-lost:" + cls
			}
			r.violate(Violation{Kind: "property", Key: key,
				What: "a notification written for one job is not recorded for exactly that job",
				Input: map[string]interface{}{"scenario": sc.name, "fork_table": forkTableStrings(tables[j.fqid]), "job": j.String(), "journal_file": written,
					"stale_attempt": stale},
				Impl: seen, Expect: expect, Broken: "getFork_routes / getFork_exact / notification_reaches_owner"})
		}
		if len(r.Samples) < 8 && c.Rng.Intn(20) == 0 {
			r.sample(map[string]interface{}{"scenario": sc.name, "job": j.String(), "journal_file": written, "recorded_for": seen})
		}
		// model: parse + getFork on the written file name
		for _, fn := range written {
			rep := c.Drv.Ask("C11.parse", hx(fn))
			f := strings.Fields(rep)
			if len(f) != 6 {
				r.violate(Violation{Kind: "correspondence", Key: "C11:world-parse-mismatch", What: "model cannot parse a journal file name the real code wrote", Input: fn, Model: rep,
					Broken: "parse_render"})
				continue
			}
			mfq := "ID.ps." + unhx(f[1])
			gf := c.Drv.Ask("C11.getfork", hxList(names[mfq]), f[2])
			wantFork := fmt.Sprintf("some %d", j.fork)
			mch := -1
			if f[3] != "-" {
				mch, _ = strconv.Atoi(unhx(f[3]))
			}
			wantCh := j.chunk
			mfile := unhx(f[5])
			wantFile := map[string]string{"split": "split_", "join": "join_", "chunk": ""}[j.job] + file
			if j.fqid == fqPlain {
				// the sole chunk of a non-split stage: chunk 0
				wantCh = 0
			}
			if mfq != j.fqid || gf != wantFork || mch != wantCh || mfile != wantFile {
				r.violate(Violation{Kind: "correspondence", Key: "C11:world-route-model-mismatch",
					What:   "the model's parse+getFork of the written journal name does not identify the writing job",
					Input:  map[string]interface{}{"journal_file": fn, "job": j.String(), "fork_names": names[j.fqid]},
					Model:  map[string]interface{}{"fqid": mfq, "fork": gf, "chunk": mch, "file": mfile},
					Expect: map[string]interface{}{"fqid": j.fqid, "fork": wantFork, "chunk": wantCh, "file": wantFile}, Broken: "notification_reaches_owner"})
			}
		}
	}
	// (iii) getFork on the fork names and on near-miss indices: real vs model
	for fq, ns := range names {
		probes := append([]string{}, ns...)
		for i := range ns {
			probes = append(probes, strconv.Itoa(i), "0"+strconv.Itoa(i), "+"+strconv.Itoa(i))
		}
		probes = append(probes, "", "-0", "-1", "x", strconv.Itoa(len(ns)), "99999999999999999999")
		for i, nm := range ns {
			if i < 12 {
				probes = append(probes, c11NearEqualFamily(nm)[1:]...)
			}
		}
		var greqs [][]string
		for _, p := range probes {
			greqs = append(greqs, []string{"C11.getfork", hxList(ns), hx(p)})
		}
		for i, rep := range c.Drv.AskBatch(greqs) {
			g := core.VerifGetFork(w, fq, probes[i])
			got := "none"
			if g >= 0 {
				got = fmt.Sprintf("some %d", g)
			}
			r.count("getfork:"+fq+":"+strings.Join(ns, ",")+":"+probes[i], true)
			if got != rep {
				r.violate(Violation{Kind: "correspondence", Key: "C11:getfork-model-mismatch", What: "Node.getFork differs from Lean getForkNew",
					Input: map[string]interface{}{"fork_names": ns, "index": probes[i]}, Impl: got, Model: rep, Broken: "correspondence C11.getfork (Martian.ForkName.getForkNew)"})
			}
			// property on the real code: the index names the fork that is returned
			if g >= 0 && ns[g] != probes[i] {
				gkey := "C11:getfork-inexact-match"
				if _, err := strconv.Atoi(probes[i]); err == nil {
					gkey = "C11:misroute:numeric-position"
				}
				r.violate(Violation{Kind: "property", Key: gkey, What: "Node.getFork returns a fork whose name is not the requested one",
					Input: map[string]interface{}{"fork_names": ns, "index": probes[i]}, Impl: fmt.Sprintf("position %d = fork%s", g, ns[g]), Expect: "the fork named fork" + probes[i] + " or none",
					Broken: "getFork_exact"})
			}
		}
	}
}

func pathOfNode(w *core.VerifWorld, fqid string) string {
	// <dir>/<call ids below the pipestance>: derived from the fqid
	parts := strings.Split(strings.TrimPrefix(fqid, "ID.ps."), ".")
	return path.Join(append([]string{path.Dir(w.JournalPath())}, parts...)...)
}

type c11ForkRec struct {
	names core.VerifForkNames
	parts []c11Part
}

func forkTableStrings(tab []c11ForkRec) []string {
	var out []string
	for i, fr := range tab {
		out = append(out, fmt.Sprintf("position %d: %s", i, fr.names.Id))
	}
	return out
}

// ---------- 6. Node.find on trees with overlapping names ----------

const c11FindTemplate = `
stage %[1]s(
    in  int x,
    out int y,
    src comp "x",
)

stage %[2]s(
    in  int x,
    out int y,
    src comp "x",
)

pipeline %[3]s(
    in  int x,
    out int y,
)
{
    call %[1]s(
        x = self.x,
    )
    call %[2]s(
        x = %[1]s.y,
    )
    return (
        y = %[2]s.y,
    )
}

pipeline %[4]s(
    in  int x,
    out int y,
)
{
    call %[3]s(
        x = self.x,
    )
    call %[1]s(
        x = %[3]s.y,
    )
    call %[2]s(
        x = %[1]s.y,
    )
    return (
        y = %[2]s.y,
    )
}

pipeline %[5]s(
    in  int x,
    out int y,
)
{
    call %[4]s(
        x = self.x,
    )
    call %[3]s(
        x = %[4]s.y,
    )
    call %[1]s(
        x = %[3]s.y,
    )
    call %[2]s(
        x = %[1]s.y,
    )
    return (
        y = %[2]s.y,
    )
}

call %[5]s(
    x = 1,
)
`

// c11Find: node trees in which one node's id overlaps another's as a suffix or
// prefix (TOP / SUBTOP / SUBSUBTOP, X / XX / XXX, stage ids repeated at every
// depth, a pipestance id equal to a pipeline name).  For EVERY node the
// journal name of the node (fqid without the ID.<pipestance>. prefix) and the
// full fqid must be found as exactly that node — repeated, because the
// children are visited in Go map order — and no proper suffix / prefix /
// infix of a name may be found at all.  Then one notification per stage is
// sent through the real journal and must be recorded for that stage only.
func c11Find(c *Ctx) {
	r := c.Res
	type names struct{ a, b, s2, s1, t, psid string }
	sets := []names{
		{"WORK_A", "A", "SUBSUBTOP", "SUBTOP", "TOP", "ps"},
		{"X_", "_X", "XXX", "XX", "X", "X"},
		{"fork0", "K", "OP", "P", "TOP", "TOP"},
		{"B", "AB", "PIPE_PIPE", "_PIPE", "PIPE", "ID"},
	}
	reps := 40
	if c.Thorough {
		reps = 400
	}
	for si, ns := range sets {
		dir := path.Join(c.Scratch, fmt.Sprintf("find%d", si))
		os.MkdirAll(path.Join(dir, "journal"), 0o755)
		w, err := core.VerifNewWorld(fmt.Sprintf(c11FindTemplate, ns.a, ns.b, ns.s2, ns.s1, ns.t), ns.psid, dir)
		if err != nil {
			r.note("find scenario %d: cannot build world: %v", si, err)
			continue
		}
		r.hist("find_trees")
		top := "ID." + ns.psid
		fqids := w.Fqids()
		trimmed := map[string]string{} // journal name -> fqid
		isNode := map[string]bool{}
		for _, fq := range fqids {
			trimmed[strings.TrimPrefix(fq, top+".")] = fq
			isNode[fq] = true
		}
		// probes: every node's journal name and full id (must be found, exactly), and every
		// proper substring cut of them (must not be found unless it is itself a node's name)
		probes := map[string]bool{}
		for _, fq := range fqids {
			n := strings.TrimPrefix(fq, top+".")
			for _, s := range []string{n, fq} {
				probes[s] = true
				for i := 1; i < len(s); i++ {
					probes[s[i:]] = true
					probes[s[:i]] = true
				}
			}
			probes[n+"."] = true
			probes["."+n] = true
			probes[top+n] = true
		}
		var plist []string
		for p := range probes {
			plist = append(plist, p)
		}
		sort.Strings(plist)
		var reqs [][]string
		for _, p := range plist {
			reqs = append(reqs, []string{"C11.find", hx(top), hxList(fqids), hx(p)})
		}
		mreps := c.Drv.AskBatch(reqs)
		for pi, p := range plist {
			want := ""
			if fq, ok := trimmed[p]; ok {
				want = fq
			} else if isNode[p] {
				want = p
			}
			r.count("find:"+top+":"+strings.Join(fqids, ",")+":"+p, want != "")
			n := 3
			if want != "" {
				n = reps
			}
			for k := 0; k < n; k++ {
				got := w.VerifFind(p)
				if got != want {
					exp := want
					if exp == "" {
						exp = "no node"
					}
					r.violate(Violation{Kind: "property", Key: "C11:find-wrong-node",
						What:  "Node.find(name) does not return exactly the node with that (journal) name",
						Input: map[string]interface{}{"pipestance": top, "nodes": fqids, "name": p},
						Impl:  got, Expect: exp, Broken: "find_routes / find_exact"})
					break
				}
			}
			m := "none"
			if want != "" {
				m = "some " + hx(want)
			}
			if mreps[pi] != m {
				r.violate(Violation{Kind: "correspondence", Key: "C11:find-model-mismatch", What: "Lean findNode differs from the expected exact-match node",
					Input: map[string]interface{}{"pipestance": top, "nodes": fqids, "name": p}, Model: mreps[pi], Expect: m, Broken: "correspondence C11.find"})
			}
		}
		// end to end: one fork per stage node, one notification per stage, repeated
		var stages []string
		for _, fq := range fqids {
			if strings.HasSuffix(fq, "."+ns.a) || strings.HasSuffix(fq, "."+ns.b) {
				if _, err := w.AddFork(fq, nil, 1); err == nil {
					stages = append(stages, fq)
				}
			}
		}
		rounds := 4
		if c.Thorough {
			rounds = 30
		}
		for k := 0; k < rounds; k++ {
			for _, fq := range stages {
				runFile := w.RunFile(fq, 0, "chunk", 0)
				md := core.NewMetadataRunWithJournalPath(path.Base(runFile), "", "", path.Dir(runFile), "main")
				if err := md.UpdateJournal(core.CompleteFile); err != nil {
					r.note("UpdateJournal(%s): %v", runFile, err)
					continue
				}
				w.ClearSeen()
				if err := w.Refresh(); err != nil {
					r.violate(Violation{Kind: "property", Key: "C11:refresh-panic", What: "Node.refreshState panicked: " + err.Error(), Input: runFile})
					continue
				}
				seen := w.Seen()
				expect := []core.VerifSeen{{Fqid: fq, Fork: 0, Job: "chunk", Chunk: 0, Name: "complete"}}
				r.count(fmt.Sprintf("find-notify:%d:%s", si, fq), true)
				r.hist("find_notifications")
				if fmt.Sprint(seen) != fmt.Sprint(expect) {
					r.violate(Violation{Kind: "property", Key: "C11:misroute:wrong-node",
						What:  "a notification written for a job of one node is not recorded for exactly that node's job",
						Input: map[string]interface{}{"pipestance": top, "nodes": fqids, "journal_file": path.Base(runFile) + ".complete"},
						Impl:  seen, Expect: expect, Broken: "find_routes / notification_reaches_owner"})
				}
			}
		}
		// routing as a whole: real refreshState vs the model's `route`, on the true journal names and on
		// near misses (cut / extended paths, padded or signed fork numbers, foreign forks, unknown chunks):
		// what the model routes nowhere must be recorded nowhere
		isStage := map[string]bool{}
		for _, fq := range stages {
			isStage[fq] = true
		}
		var nodeEnc []string
		for _, fq := range fqids {
			fs := []string{}
			if isStage[fq] {
				fs = []string{"0"}
			}
			nodeEnc = append(nodeEnc, hx(fq)+":"+hxList(fs))
		}
		var jnames []string
		for _, fq := range stages {
			good := path.Base(w.RunFile(fq, 0, "chunk", 0)) + ".complete"
			jnames = append(jnames, good, good[1:], good[2:], "X"+good, "."+good, top+"."+good, top+good,
				strings.Replace(good, ".fork0", ".fork00", 1), strings.Replace(good, ".fork0", ".fork+0", 1),
				strings.Replace(good, ".fork0", ".fork1", 1), strings.Replace(good, ".fork0", ".fork_0", 1),
				strings.Replace(good, ".chnk0", ".chnk1", 1), strings.Replace(good, ".chnk0", "", 1),
				strings.Replace(good, ".chnk0", ".chnk0.u0123456789", 1), strings.Replace(good, ".fork0", ".fork0.fork0", 1))
		}
		var rreqs [][]string
		for _, jn := range jnames {
			rreqs = append(rreqs, []string{"C11.route", hx(top), strings.Join(nodeEnc, ";"), hx(jn)})
		}
		for ji, rep := range c.Drv.AskBatch(rreqs) {
			jn := jnames[ji]
			if err := os.WriteFile(path.Join(w.JournalPath(), jn), []byte("x"), 0o644); err != nil {
				continue
			}
			w.ClearSeen()
			if err := w.Refresh(); err != nil {
				r.violate(Violation{Kind: "property", Key: "C11:refresh-panic", What: "Node.refreshState panicked: " + err.Error(), Input: jn})
				continue
			}
			seen := w.Seen()
			var expect []core.VerifSeen
			if f := strings.Fields(rep); len(f) == 6 && f[0] == "some" {
				fk, _ := strconv.Atoi(f[2])
				if f[4] == "-" { // a uniquified entry is ignored by these (never uniquified) jobs
					if f[3] == "-" {
						expect = []core.VerifSeen{{Fqid: unhx(f[1]), Fork: fk, Job: "fork", Chunk: -1, Name: unhx(f[5])}}
					} else if ci, _ := strconv.Atoi(unhx(f[3])); ci == 0 { // one chunk per fork here
						expect = []core.VerifSeen{{Fqid: unhx(f[1]), Fork: fk, Job: "chunk", Chunk: 0, Name: unhx(f[5])}}
					}
				}
				r.hist("route_probes_routed")
			} else {
				r.hist("route_probes_nowhere")
			}
			r.count("route:"+top+":"+jn, true)
			if fmt.Sprint(seen) != fmt.Sprint(expect) {
				r.violate(Violation{Kind: "property", Key: "C11:route-model-mismatch",
					What:  "Node.refreshState records a journal file differently from the model's route (a name no job produces must be recorded nowhere; a job's name for exactly that job)",
					Input: map[string]interface{}{"pipestance": top, "nodes": fqids, "journal_file": jn},
					Impl:  seen, Model: rep, Expect: expect, Broken: "route_roundtrip / route_exact / route_nowhere"})
			}
		}
		os.RemoveAll(dir)
	}
}

// ---------- 7. attempts: a reset job gets a new identity; stragglers of the old attempt are ignored ----------

func c11Notify(runFile, runType, file string) error {
	md := core.NewMetadataRunWithJournalPath(path.Base(runFile), "", "", path.Dir(runFile), runType)
	return md.UpdateJournal(core.MetadataFileName(file))
}

func c11Attempts(c *Ctx) {
	r := c.Res
	dir := path.Join(c.Scratch, "attempts")
	os.MkdirAll(path.Join(dir, "journal"), 0o755)
	defer os.RemoveAll(dir)
	w, err := core.VerifNewWorld(fmt.Sprintf(c11MroTemplate, "ST", "SP", "PIPE"), "ps", dir)
	if err != nil {
		r.note("attempts: cannot build world: %v", err)
		return
	}
	fqPlain, fqSplit := "ID.ps.TOP.PIPE.ST", "ID.ps.TOP.PIPE.SP"
	for _, fq := range []string{fqPlain, fqSplit} {
		nch := 1
		if fq == fqSplit {
			nch = 11
		}
		for i := 0; i < 2; i++ {
			if _, err := w.AddFork(fq, []c11Part{{Kind: "arr", Index: i, Len: 2, Static: true}}, nch); err != nil {
				r.note("attempts: AddFork: %v", err)
				return
			}
		}
	}
	runType := map[string]string{"split": "split", "join": "join", "chunk": "main"}
	jobs := []c11Job{{fqPlain, 0, "chunk", 0}, {fqSplit, 0, "split", -1}, {fqSplit, 0, "chunk", 0}, {fqSplit, 0, "chunk", 10}, {fqSplit, 0, "join", -1}}
	fail := func(j c11Job, a core.VerifAttempt) bool {
		if err := c11Notify(a.RunFile, runType[j.job], "errors"); err != nil {
			r.note("attempts: %v", err)
			return false
		}
		if err := w.Refresh(); err != nil {
			r.note("attempts: refresh: %v", err)
			return false
		}
		if st := w.JobState(j.fqid, j.fork, j.job, j.chunk); st != "failed" {
			r.note("attempts: job %v is %q after an errors notification", j, st)
			return false
		}
		return true
	}
	// (a) the retry happens within the same clock second in which the failed attempt was started
	//     (makeUniquifier alone is pid + unix seconds): the new attempt must still get a new identity
	{
		j := c11Job{fqSplit, 1, "chunk", 0}
		for time.Now().Nanosecond() > 600e6 { // leave room within the current second
			time.Sleep(20 * time.Millisecond)
		}
		sec := time.Now().Unix()
		a1, err := w.StartAttempt(j.fqid, j.fork, j.job, j.chunk)
		if err == nil && fail(j, a1) {
			if err := w.ResetFork(j.fqid, j.fork); err == nil {
				a2, _ := w.Attempt(j.fqid, j.fork, j.job, j.chunk)
				if time.Now().Unix() == sec {
					r.hist("attempt_resets_same_second")
					r.count(fmt.Sprintf("attempt-same-second:%v", j), true)
					if a2.Uniquifier == "" || a2.Uniquifier == a1.Uniquifier || a2.Path == a1.Path || a2.RunFile == a1.RunFile {
						r.violate(Violation{Kind: "property", Key: "C11:attempt-identity-reused:same-second",
							What:  "a job reset within the same clock second in which its failed attempt was started reuses that attempt's uniquifier (pid + unix seconds): same directory, same journal name; a straggler of the failed attempt is indistinguishable from the retry",
							Input: map[string]interface{}{"job": j.String(), "history": "StartAttempt; errors notification; refresh; Fork.resetPartial, all within one second"},
							Impl:  map[string]interface{}{"attempt1": a1, "attempt2": a2}, Expect: "a different uniquifier, directory and journal prefix", Broken: "attempt_exact (freshness of the uniquifier sequence)"})
					}
					w.ClearSeen()
					if err := c11Notify(a1.RunFile, "main", "complete"); err == nil {
						w.Refresh()
						if seen := w.Seen(); len(seen) != 0 {
							r.violate(Violation{Kind: "property", Key: "C11:stale-attempt-accepted:same-second",
								What:  "a completion written by the failed first attempt after a same-second reset is recorded as a completion of the retry",
								Input: map[string]interface{}{"job": j.String(), "attempt1": a1, "attempt2": a2}, Impl: seen, Expect: "ignored", Broken: "attempt_exact"})
						}
					}
				} else {
					r.hist("attempt_same_second_missed")
				}
			}
		}
	}
	// (b) the retry happens in a later clock second: the new attempt must have a new identity
	first := map[c11Job]core.VerifAttempt{}
	for _, j := range jobs {
		a, err := w.StartAttempt(j.fqid, j.fork, j.job, j.chunk)
		if err != nil || a.Uniquifier == "" {
			r.note("attempts: StartAttempt(%v): %v %+v", j, err, a)
			return
		}
		first[j] = a
	}
	sec := time.Now().Unix()
	for _, j := range jobs {
		if !fail(j, first[j]) {
			return
		}
	}
	for time.Now().Unix() == sec {
		time.Sleep(10 * time.Millisecond)
	}
	for _, fq := range []string{fqPlain, fqSplit} {
		if err := w.ResetFork(fq, 0); err != nil {
			r.violate(Violation{Kind: "property", Key: "C11:reset-failed", What: "Fork.resetPartial failed: " + err.Error(), Input: fq})
			return
		}
	}
	for _, j := range jobs {
		a1 := first[j]
		a2, _ := w.Attempt(j.fqid, j.fork, j.job, j.chunk)
		r.count(fmt.Sprintf("attempt:%v", j), true)
		r.hist("attempt_resets")
		if a2.Uniquifier == "" || a2.Uniquifier == a1.Uniquifier || a2.Path == a1.Path || a2.RunFile == a1.RunFile {
			r.violate(Violation{Kind: "property", Key: "C11:attempt-identity-reused",
				What:  "the retry of a failed job (Fork.resetPartial, started in a later clock second) reuses the failed attempt's uniquifier: same metadata directory and same journal name, so notifications cannot be attributed to the attempt that wrote them",
				Input: map[string]interface{}{"job": j.String(), "history": "StartAttempt; errors notification; refresh; (next second) Fork.resetPartial"},
				Impl:  map[string]interface{}{"attempt1": a1, "attempt2": a2}, Expect: "a different uniquifier, directory and journal prefix", Broken: "render_injective / stale_uniquifier_ignored"})
		}
		// a straggler of attempt 1 reports after the reset: must be ignored
		w.ClearSeen()
		if err := c11Notify(a1.RunFile, runType[j.job], "complete"); err != nil {
			r.note("attempts: %v", err)
			continue
		}
		if err := w.Refresh(); err != nil {
			r.note("attempts: refresh: %v", err)
			continue
		}
		if seen := w.Seen(); len(seen) != 0 {
			r.violate(Violation{Kind: "property", Key: "C11:stale-attempt-accepted",
				What: "a completion written by the failed first attempt of a job after the job was reset is recorded as a completion of the retry",
				Input: map[string]interface{}{"job": j.String(), "journal_file": path.Base(a1.RunFile) + "." + map[string]string{"split": "split_", "join": "join_", "chunk": ""}[j.job] + "complete",
					"attempt1": a1, "attempt2": a2},
				Impl: seen, Expect: "ignored (Metadata.cache: foreign uniquifier)", Broken: "stale_uniquifier_ignored"})
		}
		// the retry's own completion is recorded
		w.ClearSeen()
		if err := c11Notify(a2.RunFile, runType[j.job], "complete"); err == nil {
			w.Refresh()
			seen := w.Seen()
			expect := []core.VerifSeen{{Fqid: j.fqid, Fork: j.fork, Job: j.job, Chunk: j.chunk, Name: "complete"}}
			if fmt.Sprint(seen) != fmt.Sprint(expect) {
				r.violate(Violation{Kind: "property", Key: "C11:notification-lost:retry",
					What: "the completion of the retried attempt is not recorded for exactly that job", Input: map[string]interface{}{"job": j.String(), "attempt2": a2},
					Impl: seen, Expect: expect, Broken: "notification_reaches_owner"})
			}
		}
	}
}

// ---------- 8. resetting one job / node must not eat the pending notifications of another ----------

func c11Resets(c *Ctx) {
	r := c.Res
	dir := path.Join(c.Scratch, "resets")
	os.MkdirAll(path.Join(dir, "journal"), 0o755)
	defer os.RemoveAll(dir)
	// two stages whose relative ids are a prefix of one another without a component boundary
	w, err := core.VerifNewWorld(fmt.Sprintf(c11MroTemplate, "ST", "ST2", "PIPE"), "ps", dir)
	if err != nil {
		r.note("resets: cannot build world: %v", err)
		return
	}
	fqA, fqB := "ID.ps.TOP.PIPE.ST", "ID.ps.TOP.PIPE.ST2"
	for _, fq := range []string{fqA, fqB} {
		for i := 0; i < 12; i++ {
			names, err := w.AddFork(fq, []c11Part{{Kind: "arr", Index: i, Len: 12, Static: true}}, 2)
			if err != nil {
				r.note("resets: AddFork: %v", err)
				return
			}
			os.MkdirAll(names.Path, 0o755)
		}
	}
	check := func(key, what string, hist string, expect []core.VerifSeen) {
		w.ClearSeen()
		if err := w.Refresh(); err != nil {
			r.note("resets: refresh: %v", err)
			return
		}
		seen := w.Seen()
		r.count("reset:"+key, true)
		r.hist("reset_scenarios")
		if fmt.Sprint(seen) != fmt.Sprint(expect) {
			r.violate(Violation{Kind: "property", Key: key, What: what,
				Input: map[string]interface{}{"nodes": []string{fqA, fqB}, "history": hist},
				Impl:  seen, Expect: expect, Broken: "route_roundtrip (a notification of another job must survive the reset and be routed to its owner)"})
		}
	}
	// (a) chunk-granular reset of fork1's failed split job (not uniquified, as with MRO_UNIQUIFIED_DIRECTORIES=disable
	//     or before the first uniquify) while fork10 / fork11 of the same stage have notifications pending
	if err := c11Notify(w.RunFile(fqB, 1, "split", -1), "split", "errors"); err == nil {
		w.Refresh()
		if st := w.JobState(fqB, 1, "split", -1); st != "failed" {
			r.note("resets: split job is %q after errors", st)
		}
		c11Notify(w.RunFile(fqB, 10, "split", -1), "split", "complete")
		c11Notify(w.RunFile(fqB, 11, "join", -1), "join", "complete")
		if err := w.ResetFork(fqB, 1); err != nil {
			r.note("resets: ResetFork: %v", err)
		}
		check("C11:reset-deletes-foreign-journal:partial",
			"resetting a failed job deleted the pending journal entries of OTHER forks whose name merely starts with the reset fork's name (fork1 / fork10, fork11): their completions are lost",
			"fork1 split fails; fork10 split_complete and fork11 join_complete are written; Fork.resetPartial(fork1); refresh",
			[]core.VerifSeen{{Fqid: fqB, Fork: 10, Job: "split", Chunk: -1, Name: "complete"}, {Fqid: fqB, Fork: 11, Job: "join", Chunk: -1, Name: "complete"}})
	}
	// (b) full-stage reset (MRO_FULLSTAGERESET) of node ST while node ST2 has a notification pending
	c11Notify(w.RunFile(fqB, 0, "split", -1), "split", "complete")
	if err := w.ResetNode(fqA, true); err != nil {
		r.note("resets: Node.reset(full): %v", err)
		return
	}
	check("C11:reset-deletes-foreign-journal:full-stage",
		"a full-stage reset of one node deleted the pending journal entries of ANOTHER node whose id merely starts with the reset node's id (TOP.PIPE.ST / TOP.PIPE.ST2)",
		"ST2 fork0 split_complete is written; Node.reset(ST) with FullStageReset; refresh",
		[]core.VerifSeen{{Fqid: fqB, Fork: 0, Job: "split", Chunk: -1, Name: "complete"}})
}
