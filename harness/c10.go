package main

import (
	"context"
	"crypto/sha1"
	"crypto/sha256"
	"encoding/hex"
	"encoding/json"
	"fmt"
	"math/rand"
	"os"
	"os/exec"
	"path/filepath"
	"sort"
	"strings"

	"github.com/martian-lang/martian/martian/core"
	"github.com/martian-lang/martian/martian/syntax"
	"github.com/martian-lang/martian/martian/util"
)

func init() { register("C10", runC10) }

// ---------------------------------------------------------------------------
// programs

type c10Prog struct {
	class string // generated | wide-valid | <error class>
	dir   string
	inv   string
	text  string
	wide  bool
}

func c10Keys(rng *rand.Rand, n int) []string {
	seen := map[string]bool{}
	var ks []string
	for len(ks) < n {
		k := fmt.Sprintf("%c%c%d", 'a'+rng.Intn(26), 'a'+rng.Intn(26), rng.Intn(10))
		if !seen[k] {
			seen[k] = true
			ks = append(ks, k)
		}
	}
	return ks
}

const c10Stages = `filetype txt;

struct Pt(
    int    x,
    string label,
    float  w,
    int[]  ys,
    bool   on,
)

stage ONE(
    in  int      v,
    in  string   s,
    out int      r,
    out txt      f,
    src comp     "bin/one",
)

stage TAKES_MAP(
    in  map<int>    m,
    in  map<string> names,
    in  Pt          p,
    in  map<Pt>     pts,
    in  map         anything,
    out int         r,
    src comp        "bin/takes_map",
)
`

// error programs: several simultaneous errors whose messages mention map keys
func c10ErrorProgs(rng *rand.Rand) []struct{ class, lib, inv string } {
	var out []struct{ class, lib, inv string }
	add := func(class, pipe, call string) {
		out = append(out, struct{ class, lib, inv string }{class, c10Stages + "\n" + pipe, "@include \"lib.mro\"\n\n" + call})
	}
	ks := c10Keys(rng, 4+rng.Intn(5))
	kv := func(f func(i int, k string) string) string {
		var xs []string
		for i, k := range ks {
			xs = append(xs, f(i, k))
		}
		return strings.Join(xs, ", ")
	}
	pipeT := func(arg string) string {
		return `pipeline TOP(
    in  int x,
    out int r,
)
{
    call TAKES_MAP(
` + arg + `
    )

    return (
        r = TAKES_MAP.r,
    )
}
`
	}
	okArgs := map[string]string{
		"m": `{"a": 1}`, "names": `{"a": "b"}`, "p": `{x: self.x, label: "l", w: 1.5, ys: [1], on: true}`,
		"pts": `{}`, "anything": `{"q": 1}`,
	}
	with := func(over map[string]string) string {
		var lines []string
		for _, k := range []string{"m", "names", "p", "pts", "anything"} {
			v := okArgs[k]
			if o, ok := over[k]; ok {
				v = o
			}
			lines = append(lines, fmt.Sprintf("        %s = %s,", k, v))
		}
		return strings.Join(lines, "\n")
	}
	// F15: typed-map literal with several ill-typed entries bound to map<int>
	add("typed-map-literal-ill-typed-entries",
		pipeT(with(map[string]string{"m": "{" + kv(func(i int, k string) string { return fmt.Sprintf("%q: \"s%d\"", k, i) }) + "}"})),
		"call TOP(\n    x = 1,\n)\n")
	// struct literal with several ill-typed fields
	add("struct-literal-ill-typed-fields",
		pipeT(with(map[string]string{"p": `{x: "no", label: 3, w: "w", ys: "y", on: 7}`})),
		"call TOP(\n    x = 1,\n)\n")
	// map of structs, several bad structs
	add("typed-map-of-structs-ill-typed",
		pipeT(with(map[string]string{"pts": "{" + kv(func(i int, k string) string {
			return fmt.Sprintf("%q: {x: \"bad%d\", label: \"l\", w: 1.0, ys: [], on: true}", k, i)
		}) + "}"})),
		"call TOP(\n    x = 1,\n)\n")
	// references to unknown calls / inputs inside a map literal
	add("map-literal-unknown-references",
		pipeT(with(map[string]string{"anything": "{" + kv(func(i int, k string) string { return fmt.Sprintf("%q: NOPE_%d.out", k, i) }) + "}"})),
		"call TOP(\n    x = 1,\n)\n")
	add("map-literal-unknown-self-references",
		pipeT(with(map[string]string{"m": "{" + kv(func(i int, k string) string { return fmt.Sprintf("%q: self.missing_%d", k, i) }) + "}"})),
		"call TOP(\n    x = 1,\n)\n")
	// struct literal with missing and extra fields
	add("struct-literal-missing-and-extra-fields",
		pipeT(with(map[string]string{"p": "{x: 1, " + kv(func(i int, k string) string { return fmt.Sprintf("%s: %d", k, i) }) + "}"})),
		"call TOP(\n    x = 1,\n)\n")
	// top-level call: ill-typed map entries in the invocation
	add("top-call-typed-map-ill-typed",
		`pipeline TOP(
    in  map<int> m,
    out int      r,
)
{
    call ONE(
        v = 1,
        s = "a",
    )

    return (
        r = ONE.r,
    )
}
`, "call TOP(\n    m = {"+kv(func(i int, k string) string { return fmt.Sprintf("%q: \"v%d\"", k, i) })+"},\n)\n")
	// split over a typed map with ill-typed entries
	add("split-map-ill-typed-entries",
		`pipeline TOP(
    in  int x,
    out map<int> r,
)
{
    map call ONE(
        v = split {`+kv(func(i int, k string) string { return fmt.Sprintf("%q: \"s%d\"", k, i) })+`},
        s = "a",
    )

    return (
        r = ONE.r,
    )
}
`, "call TOP(\n    x = 1,\n)\n")
	// two split arguments with different key sets
	add("split-maps-key-mismatch",
		`pipeline TOP(
    in  int x,
    out map<int> r,
)
{
    map call ONE(
        v = split {`+kv(func(i int, k string) string { return fmt.Sprintf("%q: %d", k, i) })+`},
        s = split {`+kv(func(i int, k string) string { return fmt.Sprintf("%q: \"s\"", k+"_other") })+`},
    )

    return (
        r = ONE.r,
    )
}
`, "call TOP(\n    x = 1,\n)\n")
	return out
}

// valid programs with wide literals, several split arguments, nested map calls
func c10WideValid(rng *rand.Rand) (lib, inv string) {
	ks := c10Keys(rng, 4+rng.Intn(6))
	kv := func(f func(i int, k string) string) string {
		var xs []string
		for i, k := range ks {
			xs = append(xs, f(i, k))
		}
		return strings.Join(xs, ", ")
	}
	ks2 := c10Keys(rng, 2+rng.Intn(3))
	var inner []string
	for i, k := range ks2 {
		inner = append(inner, fmt.Sprintf("%q: %d", k, i*7))
	}
	lib = c10Stages + `
pipeline INNER(
    in  int      base,
    in  string   tag,
    out int      total,
    out txt      base_file,
)
{
    map call ONE(
        v = split {` + strings.Join(inner, ", ") + `},
        s = self.tag,
    )

    call ONE as BASE(
        v = self.base,
        s = "base",
    )

    return (
        total     = BASE.r,
        base_file = BASE.f,
    )
}

pipeline TOP(
    in  map<int>    m,
    in  map<string> names,
    in  Pt          p,
    in  map<Pt>     pts,
    out int         r,
    out map<INNER>  nested,
    out map<int>    direct,
)
{
    call TAKES_MAP(
        m        = self.m,
        names    = self.names,
        p        = self.p,
        pts      = self.pts,
        anything = {` + kv(func(i int, k string) string { return fmt.Sprintf("%q: [%d, \"x\", {\"z\": %d}]", k, i, i) }) + `},
    )

    map call INNER(
        base = split {` + kv(func(i int, k string) string { return fmt.Sprintf("%q: %d", k, i) }) + `},
        tag  = split {` + kv(func(i int, k string) string { return fmt.Sprintf("%q: \"t%d\"", k, i) }) + `},
    )

    map call ONE as DIRECT(
        v = split self.m,
        s = "d",
    )

    return (
        r      = TAKES_MAP.r,
        nested = INNER,
        direct = DIRECT.r,
    )
}
`
	inv = "@include \"lib.mro\"\n\ncall TOP(\n    m = {" + kv(func(i int, k string) string { return fmt.Sprintf("%q: %d", k, i*3) }) +
		"},\n    names = {" + kv(func(i int, k string) string { return fmt.Sprintf("%q: \"n%d\"", k, i) }) +
		"},\n    p = {x: 1, label: \"l\", w: 2.5, ys: [1, 2, 3], on: false},\n    pts = {" +
		kv(func(i int, k string) string {
			return fmt.Sprintf("%q: {x: %d, label: \"l%d\", w: 0.5, ys: [], on: true}", k, i, i)
		}) + "},\n)\n"
	return
}

// Targeted inputs: one program class per kind of emitter that walks a map, each with >= 8 keys so
// that Go's randomised iteration order shows within two or three repetitions.
func c10Targeted(rng *rand.Rand) []struct{ class, lib, inv string } {
	var out []struct{ class, lib, inv string }
	ks := c10Keys(rng, 8+rng.Intn(5))
	kv := func(f func(i int, k string) string) string {
		var xs []string
		for i, k := range ks {
			xs = append(xs, f(i, k))
		}
		return strings.Join(xs, ", ")
	}
	add := func(class, lib, call string) {
		out = append(out, struct{ class, lib, inv string }{class, lib, "@include \"lib.mro\"\n\n" + call})
	}
	// merge over a map call whose source is a literal map (MergeExp.MergeOver, encodeMapSourceJson,
	// findMergeForkNode), two split arguments (unifyMapSources / sortedSplitList)
	add("merge-over-literal-map", c10Stages+`
pipeline TOP(
    in  int      x,
    out map<int> rs,
    out map<txt> fs,
)
{
    map call ONE(
        v = split {`+kv(func(i int, k string) string { return fmt.Sprintf("%q: %d", k, i) })+`},
        s = split {`+kv(func(i int, k string) string { return fmt.Sprintf("%q: \"s%d\"", k, i) })+`},
    )

    return (
        rs = ONE.r,
        fs = ONE.f,
    )
}
`, "call TOP(\n    x = 1,\n)\n")
	// the same over run-time maps handed in by the top-level call
	add("merge-over-input-maps", c10Stages+`
pipeline TOP(
    in  map<int>    m1,
    in  map<string> m2,
    out map<int>    rs,
)
{
    map call ONE(
        v = split self.m1,
        s = split self.m2,
    )

    return (
        rs = ONE.r,
    )
}
`, "call TOP(\n    m1 = {"+kv(func(i int, k string) string { return fmt.Sprintf("%q: %d", k, i) })+"},\n    m2 = {"+
		kv(func(i int, k string) string { return fmt.Sprintf("%q: \"s%d\"", k, i) })+"},\n)\n")
	// …with different key sets: the call-graph error names a key
	add("split-input-maps-key-mismatch", c10Stages+`
pipeline TOP(
    in  map<int>    m1,
    in  map<string> m2,
    out map<int>    rs,
)
{
    map call ONE(
        v = split self.m1,
        s = split self.m2,
    )

    return (
        rs = ONE.r,
    )
}
`, "call TOP(\n    m1 = {"+kv(func(i int, k string) string { return fmt.Sprintf("%q: %d", k, i) })+"},\n    m2 = {"+
		kv(func(i int, k string) string { return fmt.Sprintf("%q: \"s%d\"", k+"_x", i) })+"},\n)\n")
	// a stage `retain` list with duplicates (RetainParams.compile rebuilds it from a map)
	var outs, rets []string
	for i := range ks {
		outs = append(outs, fmt.Sprintf("    out txt o%d,", i))
		rets = append(rets, fmt.Sprintf("    o%d,", (i*5)%len(ks)))
	}
	rets = append(rets, "    o0,", "    o1,")
	add("stage-retain-duplicates", `filetype txt;

stage MANY(
    in  int x,
`+strings.Join(outs, "\n")+`
    src comp "bin/many",
) retain (
`+strings.Join(rets, "\n")+`
)

pipeline TOP(
    in  int x,
    out txt o,
)
{
    call MANY(
        x = self.x,
    )

    return (
        o = MANY.o0,
    )
}
`, "call TOP(\n    x = 1,\n)\n")
	// many references inside map / struct literals (FindTypedRefs, prenodes, edges)
	var calls, refs []string
	for i, k := range ks {
		calls = append(calls, fmt.Sprintf("    call ONE as ONE_%d(\n        v = self.x,\n        s = \"%s\",\n    )\n", i, k))
		refs = append(refs, fmt.Sprintf("%q: ONE_%d.r", k, i))
	}
	for _, variant := range []string{"references-in-map-literal", "untyped-map-with-references"} {
		anything := `{"q": 1}`
		if variant == "untyped-map-with-references" {
			anything = "{" + strings.Join(refs, ", ") + "}"
		}
		add(variant, c10Stages+`
pipeline TOP(
    in  int x,
    out int r,
)
{
`+strings.Join(calls, "\n")+`
    call TAKES_MAP(
        m        = {`+strings.Join(refs, ", ")+`},
        names    = {},
        p        = {x: ONE_0.r, label: "l", w: 1.5, ys: [ONE_1.r, ONE_2.r], on: true},
        pts      = {},
        anything = `+anything+`,
    )

    return (
        r = TAKES_MAP.r,
    )
}
`, "call TOP(\n    x = 1,\n)\n")
	}
	return out
}

// which targeted classes exercise a function that contains a map-range site
// (used to aim the failing-input search when the regenerated site list reports that function)
var c10SiteGenerators = map[string][]string{
	"encodeMapSourceJson":            {"merge-over-literal-map"},
	"findMergeForkNode":              {"merge-over-literal-map", "merge-over-input-maps"},
	"findMergeForkExpNode":           {"merge-over-literal-map", "merge-over-input-maps"},
	"unifyMapSources":                {"merge-over-literal-map", "merge-over-input-maps", "split-input-maps-key-mismatch"},
	"MergeMapCallSources":            {"split-maps-key-mismatch", "split-input-maps-key-mismatch"},
	"SplitExp.BindingPath":           {"split-input-maps-key-mismatch", "merge-over-input-maps"},
	"RetainParams.compile":           {"stage-retain-duplicates"},
	"MapExp.FindTypedRefs":           {"references-in-map-literal"},
	"MapExp.FindRefs":                {"references-in-map-literal", "untyped-map-with-references"},
	"MapExp.resolveRefs":             {"references-in-map-literal", "map-literal-unknown-references"},
	"ResolvedBindingMap.EncodeJSON":  {"references-in-map-literal", "wide-valid"},
	"ResolvedBindingMap.MarshalJSON": {"references-in-map-literal", "wide-valid"},
	"TypedMapType.IsValidExpression": {"typed-map-literal-ill-typed-entries", "typed-map-of-structs-ill-typed"},
	"StructType.IsValidExpression":   {"struct-literal-ill-typed-fields", "struct-literal-missing-and-extra-fields"},
	"isValidSplit":                   {"split-map-ill-typed-entries"},
	"MapExp.sortedKeys":              {"typed-map-literal-ill-typed-entries", "split-map-ill-typed-entries"},
	"MapExp.format":                  {"wide-valid", "generated"},
	"MapExp.GoString":                {"typed-map-literal-ill-typed-entries"},
	"MapExp.EncodeJSON":              {"wide-valid", "references-in-map-literal"},
	"MapExp.MarshalJSON":             {"wide-valid"},
	"makeForkIdParts":                {"wide-valid", "merge-over-literal-map"},
	"ForkId.expandStaticForkPart":    {"wide-valid", "merge-over-literal-map"},
	"LazyArgumentMap.encodeJSON":     {"core-argument-maps"},
	"MarshalerMap.encodeJSON":        {"core-argument-maps", "wide-valid"},
	"Node.makeReturnBindings":        {"generated", "wide-valid"},
	"Node.makeDirectPrenodes":        {"generated", "references-in-map-literal"},
	"Node.allNodes":                  {"generated"},
}

// the functions named by the regenerated fact c10Unreviewed (new / changed map-range sites)
func c10ReportedFunctions(c *Ctx) []string {
	h := sha1.Sum([]byte(c.RepoDir))
	b, err := os.ReadFile(filepath.Join(".build", "facts-"+hex.EncodeToString(h[:])[:8]+".json"))
	if err != nil {
		return nil
	}
	var facts map[string]struct {
		Value json.RawMessage `json:"value"`
	}
	if json.Unmarshal(b, &facts) != nil {
		return nil
	}
	var v struct {
		Unreviewed []string `json:"unreviewed"`
	}
	json.Unmarshal(facts["c10Unreviewed"].Value, &v)
	var fns []string
	for _, u := range v.Unreviewed {
		// id = pkg/file.go:Func:range expr#n [note]
		parts := strings.SplitN(u, ":", 3)
		if len(parts) == 3 {
			fns = append(fns, parts[1])
		}
	}
	return fns
}

// ---------------------------------------------------------------------------
// observations

type c10Obs struct {
	Compile   string // "ERR:" + error text, or the formatted source
	CallGraph string
	State     string
}

func c10Observe(rt *core.Runtime, p *c10Prog, scratch string, withState bool, n int) (o c10Obs) {
	stage := &o.Compile
	defer func() {
		if r := recover(); r != nil {
			*stage += fmt.Sprintf("PANIC: %v", r)
		}
	}()
	clean := func(s string) string { return strings.ReplaceAll(s, p.dir, "$D") }
	post, _, ast, err := syntax.ParseSourceBytes([]byte(p.inv), filepath.Join(p.dir, "invocation.mro"), []string{p.dir}, false)
	if err != nil {
		o.Compile = "ERR:" + clean(err.Error())
		return
	}
	o.Compile = clean(post)
	stage = &o.CallGraph
	cg, err := ast.MakePipelineCallGraph("ID.ps.", ast.Call)
	if err != nil {
		o.CallGraph = "ERR:" + clean(err.Error())
		return
	}
	b, err := json.Marshal(cg)
	if err != nil {
		o.CallGraph = "MARSHAL-ERR:" + err.Error()
	} else {
		o.CallGraph = clean(string(b))
	}
	if withState && rt != nil {
		stage = &o.State
		psdir := filepath.Join(scratch, fmt.Sprintf("c10ps-%d-%d", os.Getpid(), n))
		defer os.RemoveAll(psdir)
		ps, err := rt.InvokePipeline(p.inv, filepath.Join(p.dir, "invocation.mro"), "ps", psdir, []string{p.dir}, "verif", nil, nil)
		if err != nil {
			o.State = "ERR:" + strings.ReplaceAll(clean(err.Error()), psdir, "$PS")
			return
		}
		st := ps.SerializeState(context.Background())
		sb, _ := json.Marshal(st)
		o.State = strings.ReplaceAll(clean(string(sb)), psdir, "$PS")
		ps.Unlock()
	}
	return
}

func c10Hash(s string) string {
	h := sha256.Sum256([]byte(s))
	return hex.EncodeToString(h[:8])
}

func c10FirstDiff(a, b string) (string, string) {
	i := 0
	for i < len(a) && i < len(b) && a[i] == b[i] {
		i++
	}
	lo := i - 60
	if lo < 0 {
		lo = 0
	}
	cut := func(s string) string {
		hi := i + 160
		if hi > len(s) {
			hi = len(s)
		}
		if lo > len(s) {
			return ""
		}
		return s[lo:hi]
	}
	return cut(a), cut(b)
}

// ---------------------------------------------------------------------------

type c10ChildOut struct {
	Hashes map[string][3]string `json:"hashes"`
}

func runC10(c *Ctx) {
	r := c.Res
	util.SetPrintLogger(&c15DevNull{})
	util.LogTeeWriter(&c15DevNull{})
	rt, err := core.VerifNewLocalRuntime()
	if err != nil {
		r.note("cannot build a runtime: %v", err)
	}
	if list := os.Getenv("VERIF_C10_CHILD"); list != "" {
		c10Child(c, rt, list)
		return
	}
	if list := os.Getenv("VERIF_C10_FORK_CHILD"); list != "" {
		c10ForkChild(c, rt, list)
		return
	}
	r.Rule = "programs: generated valid programs with wide map/array literals (C15 generator), hand-shaped valid programs with wide " +
		"typed-map / struct literals, two split arguments over the same keys, nested map calls and a map call over a run-time map, and " +
		"error programs with several simultaneous errors whose messages name map keys (ill-typed typed-map entries, ill-typed struct " +
		"fields, unknown references inside map literals, missing/extra struct fields, ill-typed / mismatching split maps). Each program: " +
		"compile (error text or formatted source), MakePipelineCallGraph JSON, and InvokePipeline+SerializeState JSON (fork ids, per-fork " +
		"argument bindings) repeated in one process and in fresh subprocesses; every output must be byte-identical to the first. Plus " +
		"MapExp.format / MapExp.MarshalJSON on random literals vs the Lean sort-then-emit model fed Go's own iteration order and its " +
		"reverse. non-trivial = program with a map/struct literal of >= 3 keys or >= 2 simultaneous errors; distinct = distinct program text"
	reps, stateReps, ngen, nshape, nchild, nlit := 200, 8, 10, 6, 2, 400
	if c.Thorough {
		reps, stateReps, ngen, nshape, nchild, nlit = 1000, 40, 60, 40, 4, 20000
	}
	var progs []*c10Prog
	n := 0
	addProg := func(class string, files map[string]string, inv string, wide bool) {
		n++
		dir := filepath.Join(c.Scratch, fmt.Sprintf("c10p%04d", n))
		if err := c15Write(dir, files); err != nil {
			fatal("%v", err)
		}
		var text strings.Builder
		for _, k := range gSortedKeys(files) {
			fmt.Fprintf(&text, "==> %s <==\n%s\n", k, files[k])
		}
		fmt.Fprintf(&text, "==> invocation.mro <==\n%s", inv)
		progs = append(progs, &c10Prog{class: class, dir: dir, inv: inv, text: text.String(), wide: wide})
	}
	// corpus: corpus/C10/<name>/{lib.mro,invocation.mro}
	if ents, err := os.ReadDir(c.Corpus); err == nil {
		for _, e := range ents {
			if !e.IsDir() {
				continue
			}
			lib, err1 := os.ReadFile(filepath.Join(c.Corpus, e.Name(), "lib.mro"))
			inv, err2 := os.ReadFile(filepath.Join(c.Corpus, e.Name(), "invocation.mro"))
			if err1 == nil && err2 == nil {
				addProg("corpus-"+e.Name(), map[string]string{"lib.mro": string(lib)}, string(inv), true)
			}
		}
	}
	// aim the search at the functions the regenerated site list reports as new / changed
	boost := map[string]bool{}
	for _, fn := range c10ReportedFunctions(c) {
		if classes, ok := c10SiteGenerators[fn]; ok {
			r.note("site list reports %s: failing-input search aimed at program classes %v (5x repetitions)", fn, classes)
			for _, cl := range classes {
				boost[cl] = true
			}
		} else {
			r.note("site list reports %s: no targeted generator is registered for it; only the general repetition applies", fn)
		}
	}
	for i := 0; i < (nshape+1)/2; i++ {
		for _, tp := range c10Targeted(c.Rng) {
			addProg(tp.class, map[string]string{"lib.mro": tp.lib}, tp.inv, true)
		}
	}
	for i := 0; i < nshape; i++ {
		for _, ep := range c10ErrorProgs(c.Rng) {
			addProg(ep.class, map[string]string{"lib.mro": ep.lib}, ep.inv, true)
		}
		lib, inv := c10WideValid(c.Rng)
		addProg("wide-valid", map[string]string{"lib.mro": lib}, inv, true)
	}
	for i := 0; i < ngen; i++ {
		p := gGenProg(c.Rng, true)
		files, inv := gRender(p)
		addProg("generated", files, inv, true)
	}

	// ---- repetition in this process ----
	first := make([]c10Obs, len(progs))
	for i, p := range progs {
		first[i] = c10Observe(rt, p, c.Scratch, true, 0)
		r.count(p.text, p.wide)
		r.hist("program:" + p.class)
		if strings.HasPrefix(first[i].Compile, "ERR:") {
			r.hist("outcome:compile-error")
			if p.class == "generated" || p.class == "wide-valid" {
				r.note("valid-shape program does not compile (%s): %s", p.class, strings.SplitN(first[i].Compile, "\n", 3)[0])
			}
		} else if strings.HasPrefix(first[i].CallGraph, "ERR:") {
			r.hist("outcome:call-graph-error")
		} else if strings.HasPrefix(first[i].State, "ERR:") {
			r.hist("outcome:invoke-error")
		} else if strings.Contains(first[i].Compile+first[i].CallGraph+first[i].State, "PANIC: ") {
			r.hist("outcome:panic")
			r.note("deterministic panic while observing a %s program (not a C10 matter): %s", p.class,
				head(first[i].Compile+first[i].CallGraph+first[i].State, 160))
		} else {
			r.hist("outcome:ok")
		}
		if i%11 == 0 {
			r.sample(map[string]interface{}{"class": p.class, "compile_or_format_head": head(first[i].Compile, 300),
				"callgraph_sha": c10Hash(first[i].CallGraph), "state_sha": c10Hash(first[i].State)})
		}
		reported := map[string]bool{}
		report := func(what, a, b string, rep int) {
			if reported[what] {
				return
			}
			reported[what] = true
			da, db := c10FirstDiff(a, b)
			r.violate(Violation{Kind: "property", Key: "C10:nondeterministic:" + what + ":" + p.class,
				What:  fmt.Sprintf("%s of the same sources differs between repetition 0 and repetition %d in one process", what, rep),
				Input: map[string]interface{}{"class": p.class, "program": p.text},
				Impl:  map[string]string{"first": da, "later": db}, Expect: "byte-identical output",
				Broken: "theorems Props.C10.*_order_independent (an emitter outside the reviewed sorted set)"})
		}
		nrep := reps
		if p.class != "generated" && p.class != "wide-valid" {
			nrep = reps / 4 // >= 8 keys: a difference shows within a few repetitions
		}
		if boost[p.class] {
			nrep = reps * 5
		}
		for k := 1; k < nrep; k++ {
			o := c10Observe(rt, p, c.Scratch, k <= stateReps, k)
			if o.Compile != first[i].Compile {
				what := "formatted-source"
				if strings.HasPrefix(o.Compile, "ERR:") || strings.HasPrefix(first[i].Compile, "ERR:") {
					what = "compile-error-text"
				}
				report(what, first[i].Compile, o.Compile, k)
			}
			if o.CallGraph != first[i].CallGraph {
				what := "call-graph-json"
				if strings.HasPrefix(o.CallGraph, "ERR:") {
					what = "call-graph-error-text"
				}
				report(what, first[i].CallGraph, o.CallGraph, k)
			}
			if k <= stateReps && o.State != first[i].State {
				report("fork-state-json", first[i].State, o.State, k)
			}
		}
		r.Evals += nrep - 1
	}

	// ---- fresh subprocesses ----
	listFile := filepath.Join(c.Scratch, "c10-children.txt")
	var sb strings.Builder
	for _, p := range progs {
		sb.WriteString(p.dir + "\n")
	}
	os.WriteFile(listFile, []byte(sb.String()), 0o644)
	for ch := 0; ch < nchild; ch++ {
		outFile := filepath.Join(c.Scratch, fmt.Sprintf("c10-child-%d.json", ch))
		cmd := exec.Command(os.Args[0], "-tier", c.Tier, "-seed", fmt.Sprint(c.Seed), "-out", outFile, "-repo", c.RepoDir, "C10")
		cmd.Env = append(os.Environ(), "VERIF_C10_CHILD="+listFile)
		if out, err := cmd.CombinedOutput(); err != nil {
			r.note("subprocess %d failed: %v %s", ch, err, head(string(out), 200))
			continue
		}
		var res struct {
			Extra c10ChildOut `json:"extra"`
		}
		b, _ := os.ReadFile(outFile)
		if err := json.Unmarshal(b, &res); err != nil {
			r.note("subprocess %d result unreadable: %v", ch, err)
			continue
		}
		r.hist("subprocess-runs")
		for i, p := range progs {
			h, ok := res.Extra.Hashes[p.dir]
			if !ok {
				continue
			}
			r.Evals++
			mine := [3]string{c10Hash(first[i].Compile), c10Hash(first[i].CallGraph), c10Hash(first[i].State)}
			names := [3]string{"compile-or-format", "call-graph-json", "fork-state-json"}
			for j := 0; j < 3; j++ {
				if h[j] != mine[j] {
					r.violate(Violation{Kind: "property", Key: "C10:nondeterministic-across-processes:" + names[j] + ":" + p.class,
						What:  names[j] + " of the same sources differs between two processes",
						Input: map[string]interface{}{"class": p.class, "program": p.text}, Impl: h[j], Expect: mine[j]})
				}
			}
		}
	}

	// ---- MapExp.format / MarshalJSON vs the model ----
	c10Literals(c, nlit)
	c10Nested(c, nlit/2)
	c10CoreMaps(c, boost["core-argument-maps"])
	// ---- accumulating loops (one contribution per entry) vs the model ----
	nsite, nconv := 40, 150
	if c.Thorough {
		nsite, nconv = 1500, 6000
	}
	c10SiteDifferential(c, nsite)
	c10ConvertDifferential(c, nconv)
	c10Site2Differentials(c)
	c10RunProvocations(c, boost)
	// ---- the ORDER of fork ids (static ragged nested map calls, run-time expansion) ----
	c10ForkOrder(c, rt)
	// ---- history independence of a reused Parser ----
	c10History(c)
}

func head(s string, n int) string {
	if len(s) > n {
		return s[:n]
	}
	return s
}

func c10Child(c *Ctx, rt *core.Runtime, list string) {
	b, err := os.ReadFile(list)
	if err != nil {
		fatal("%v", err)
	}
	out := c10ChildOut{Hashes: map[string][3]string{}}
	for i, dir := range strings.Fields(string(b)) {
		inv, err := os.ReadFile(filepath.Join(dir, "invocation.mro"))
		if err != nil {
			continue
		}
		o := c10Observe(rt, &c10Prog{dir: dir, inv: string(inv)}, c.Scratch, true, i)
		out.Hashes[dir] = [3]string{c10Hash(o.Compile), c10Hash(o.CallGraph), c10Hash(o.State)}
	}
	c.Res.Extra = map[string]interface{}{"hashes": out.Hashes}
}

// random literal expressions built directly from the repo's own types
func c10GenExp(rng *rand.Rand, depth int) syntax.Exp {
	k := rng.Intn(8)
	if depth <= 0 && k >= 5 {
		k = rng.Intn(5)
	}
	switch k {
	case 0:
		return &syntax.IntExp{Value: int64(rng.Intn(2000) - 1000)}
	case 1:
		return &syntax.StringExp{Value: []string{"", "a b", "q\"uote", "tab\t", "ü", "new\nline", "x"}[rng.Intn(7)]}
	case 2:
		return &syntax.BoolExp{Value: rng.Intn(2) == 0}
	case 3:
		return &syntax.NullExp{}
	case 4:
		return &syntax.FloatExp{Value: []float64{0.5, 1.25, -3.75, 1e21, 2}[rng.Intn(5)]}
	case 5:
		n := rng.Intn(4)
		a := &syntax.ArrayExp{Value: make([]syntax.Exp, n)}
		for i := range a.Value {
			a.Value[i] = c10GenExp(rng, depth-1)
		}
		return a
	default:
		return c10GenMap(rng, depth-1)
	}
}

func c10GenMap(rng *rand.Rand, depth int) *syntax.MapExp {
	m := &syntax.MapExp{Kind: syntax.KindMap, Value: map[string]syntax.Exp{}}
	n := rng.Intn(9)
	isStruct := rng.Intn(2) == 0
	if isStruct {
		m.Kind = syntax.KindStruct
	}
	for i := 0; i < n; i++ {
		var k string
		if isStruct {
			k = fmt.Sprintf("%c%s", []byte("abcABCxyzXYZ")[rng.Intn(12)], strings.Repeat([]string{"x", "X"}[rng.Intn(2)], rng.Intn(4)))
		} else {
			k = []string{"", "k", "K", "key two", "KEY TWO", "Key Two", "q\"", "ü", "Ü", "a\\b", "zz", "zZ", "ZZ", "zz "}[rng.Intn(14)] + fmt.Sprint(rng.Intn(12))
		}
		m.Value[k] = c10GenExp(rng, depth)
	}
	return m
}

// nested map literal -> the driver's tree encoding; objects in Go's own iteration order (or reversed)
func c10TreeEnc(e syntax.Exp, rev bool) string {
	m, ok := e.(*syntax.MapExp)
	if !ok || m.Value == nil {
		b, _ := e.MarshalJSON()
		return "L " + hx(string(b))
	}
	var ents []string
	for k, v := range m.Value {
		ents = append(ents, hx(k)+" "+hx(syntax.VerifQuoteString(k))+" "+c10TreeEnc(v, rev))
	}
	if rev {
		for a, b := 0, len(ents)-1; a < b; a, b = a+1, b-1 {
			ents[a], ents[b] = ents[b], ents[a]
		}
	}
	return strings.TrimSpace(fmt.Sprintf("O %d %s", len(ents), strings.Join(ents, " ")))
}

func c10Nested(c *Ctx, n int) {
	r := c.Res
	var reqs [][]string
	var want []string
	for i := 0; i < n; i++ {
		m := c10GenMap(c.Rng, 3)
		if len(m.Value) == 0 {
			continue
		}
		jb, err := m.MarshalJSON()
		if err != nil {
			continue
		}
		for _, rev := range []bool{false, true} {
			reqs = append(reqs, []string{"C10.nested", c10TreeEnc(m, rev)})
			want = append(want, string(jb))
		}
	}
	reps := c.Drv.AskBatch(reqs)
	for i := range reqs {
		f := strings.Fields(reps[i])
		r.Evals++
		if len(f) != 2 || f[1] != "true" || unhx(f[0]) != want[i] {
			r.violate(Violation{Kind: "correspondence", Key: "C10:model-mismatch:nested-json",
				What:  "MapExp.MarshalJSON of a nested literal differs from the Lean nested emitter (sorted keys at every depth)",
				Input: map[string]interface{}{"request": reqs[i]}, Impl: want[i], Model: reps[i],
				Broken: "correspondence C10.nested (Martian.Determinism.JTree.emit)"})
		}
	}
	r.hist("nested-literal-maps")
}

func c10Literals(c *Ctx, n int) {
	r := c.Res
	type lit struct {
		m       *syntax.MapExp
		prefix  string
		goText  string
		goJSON  string
		entries []string // in Go's iteration order
		jent    []string
	}
	var lits []lit
	var reqs [][]string
	for i := 0; i < n; i++ {
		m := c10GenMap(c.Rng, 2)
		prefix := strings.Repeat(" ", 4*c.Rng.Intn(3))
		l := lit{m: m, prefix: prefix, goText: syntax.VerifFormatExp(m, prefix)}
		jb, err := m.MarshalJSON()
		if err != nil {
			continue
		}
		l.goJSON = string(jb)
		vindent := prefix + syntax.VerifIndent
		for k, v := range m.Value {
			kt := k
			if m.Kind != syntax.KindStruct {
				kt = syntax.VerifQuoteString(k)
			}
			l.entries = append(l.entries, strings.Join([]string{hx(k), hx(kt), b01(syntax.VerifSingleLineFormat(v)), hx(syntax.VerifFormatExp(v, vindent))}, ":"))
			vj, _ := v.MarshalJSON()
			l.jent = append(l.jent, strings.Join([]string{hx(k), hx(syntax.VerifQuoteString(k)), hx(string(vj))}, ":"))
		}
		join := func(xs []string, rev bool) string {
			if len(xs) == 0 {
				return "."
			}
			ys := append([]string{}, xs...)
			if rev {
				for a, b := 0, len(ys)-1; a < b; a, b = a+1, b-1 {
					ys[a], ys[b] = ys[b], ys[a]
				}
			}
			return strings.Join(ys, ",")
		}
		st := b01(m.Kind == syntax.KindStruct)
		reqs = append(reqs,
			[]string{"C10.mapformat", st, hx(prefix), hx(vindent), join(l.entries, false)},
			[]string{"C10.mapformat", st, hx(prefix), hx(vindent), join(l.entries, true)},
			[]string{"C10.json", join(l.jent, false)},
			[]string{"C10.json", join(l.jent, true)})
		lits = append(lits, l)
	}
	reps := c.Drv.AskBatch(reqs)
	for i, l := range lits {
		keys := make([]string, 0, len(l.m.Value))
		for k := range l.m.Value {
			keys = append(keys, k)
		}
		sort.Strings(keys)
		r.count("lit\x00"+l.goText, len(keys) >= 3)
		r.hist("literal-maps")
		for j := 0; j < 4; j++ {
			f := strings.Fields(reps[4*i+j])
			want, what := l.goText, "MapExp.format"
			if j >= 2 {
				want, what = l.goJSON, "MapExp.MarshalJSON"
				if len(keys) == 0 {
					continue
				}
			}
			if len(f) != 2 || f[1] != "true" || unhx(f[0]) != want {
				r.violate(Violation{Kind: "correspondence", Key: "C10:model-mismatch:" + what,
					What:  what + " differs from the Lean sort-then-emit model",
					Input: map[string]interface{}{"request": reqs[4*i+j]}, Impl: want, Model: reps[4*i+j],
					Broken: "correspondence C10.mapformat / C10.json (Martian.Determinism)"})
			}
		}
	}
}

// core.LazyArgumentMap / core.MarshalerMap (the _args / _outs / per-fork argument encoders) marshalled
// repeatedly with >= 8 keys, nested
func c10CoreMaps(c *Ctx, boosted bool) {
	r := c.Res
	n, reps := 20, 30
	if c.Thorough {
		n = 300
	}
	if boosted {
		reps *= 5
	}
	for i := 0; i < n; i++ {
		ks := c10Keys(c.Rng, 8+c.Rng.Intn(8))
		lazy := core.LazyArgumentMap{}
		mm := core.MarshalerMap{}
		inner := core.LazyArgumentMap{}
		for j, k := range ks {
			lazy[k] = json.RawMessage(fmt.Sprintf("%d", j))
			inner[k+"_in"] = json.RawMessage(fmt.Sprintf("\"v%d\"", j))
		}
		for j, k := range ks {
			switch j % 3 {
			case 0:
				mm[k] = json.RawMessage(fmt.Sprintf("[%d]", j))
			case 1:
				mm[k] = inner
			default:
				mm[k] = lazy
			}
		}
		var first [2]string
		for k := 0; k < reps; k++ {
			b1, e1 := json.Marshal(lazy)
			b2, e2 := json.Marshal(mm)
			got := [2]string{string(b1) + fmt.Sprint(e1), string(b2) + fmt.Sprint(e2)}
			if k == 0 {
				first = got
				continue
			}
			for w, name := range []string{"LazyArgumentMap", "MarshalerMap"} {
				if got[w] != first[w] {
					da, db := c10FirstDiff(first[w], got[w])
					r.violate(Violation{Kind: "property", Key: "C10:nondeterministic:core-argument-maps:" + name,
						What:  "json.Marshal of the same core." + name + " differs between repetitions",
						Input: map[string]interface{}{"keys": ks}, Impl: map[string]string{"first": da, "later": db}, Expect: "byte-identical output"})
					k = reps
					break
				}
			}
		}
		r.count("coremap\x00"+strings.Join(ks, ","), true)
		r.Evals += reps - 1
	}
	r.hist("core-argument-maps")
}
