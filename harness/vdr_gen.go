package main

// Focused program generator for C04 / C14: pipelines that pass files between
// stages directly, inside structs / arrays / typed maps, as strings and
// untyped maps containing paths, through sub-pipeline boundaries, to several
// consumers, across mapped calls, to consumers far downstream; with
// volatile / strict / retain annotations and splitting stages.

import (
	"fmt"
	"math/rand"
	"strings"
)

type vgSrc struct {
	Expr string
	Ty   string
	File bool // may name files
}

type vgStage struct {
	Name   string
	Ins    []vgSrc // Expr = param name
	Outs   []vgSrc
	Split  bool
	Vol    string // "", "strict", "false"
	Retain []string
}

type vdrGen struct {
	rng    *rand.Rand
	mode   string
	stages []*vgStage
	n      int
	Stats  map[string]int
	decls  strings.Builder
}

var vgOutTypes = []string{"txt", "txt", "txt[]", "map<txt>", "BAG", "BAG[]", "map<BAG>", "path", "string", "string[]", "map", "BOX", "int", "txt[][]"}

func vgIsFile(t string) bool { return t != "int" && t != "int[]" && t != "map<int>" }

// projections of a source through struct members (arrays and typed maps lift).
func vgProjections(s vgSrc) []vgSrc {
	out := []vgSrc{s}
	switch s.Ty {
	case "BAG":
		out = append(out, vgSrc{s.Expr + ".f", "txt", true}, vgSrc{s.Expr + ".s", "string", true}, vgSrc{s.Expr + ".n", "int", false})
	case "BAG[]":
		out = append(out, vgSrc{s.Expr + ".f", "txt[]", true}, vgSrc{s.Expr + ".n", "int[]", false})
	case "map<BAG>":
		out = append(out, vgSrc{s.Expr + ".f", "map<txt>", true}, vgSrc{s.Expr + ".s", "map<string>", true})
	case "BOX":
		out = append(out, vgSrc{s.Expr + ".bag", "BAG", true}, vgSrc{s.Expr + ".bag.f", "txt", true},
			vgSrc{s.Expr + ".fs", "txt[]", true}, vgSrc{s.Expr + ".mb.f", "map<txt>", true})
	}
	return out
}

func vgLiftArray(t string) (string, bool) {
	switch t {
	case "txt", "txt[]", "BAG", "string", "int", "path":
		return t + "[]", true
	case "map<txt>":
		return "map<txt>[]", true
	}
	return "", false
}

func vgLiftMap(t string) (string, bool) {
	switch t {
	case "txt", "BAG", "string", "int":
		return "map<" + t + ">", true
	case "txt[]":
		return "map<txt[]>", true
	}
	return "", false
}

func (g *vdrGen) name(p string) string { g.n++; return fmt.Sprintf("%s%d", p, g.n) }

func (g *vdrGen) newStage(ins []vgSrc, nOuts int, forceFileOut bool, noMaps ...bool) *vgStage {
	st := &vgStage{Name: g.name("ST")}
	for i, in := range ins {
		st.Ins = append(st.Ins, vgSrc{fmt.Sprintf("i%d", i), in.Ty, in.File})
	}
	for i := 0; i < nOuts; i++ {
		t := vgOutTypes[g.rng.Intn(len(vgOutTypes))]
		if i == 0 && forceFileOut {
			t = []string{"txt", "txt[]", "BAG", "map<txt>", "BAG[]", "map<BAG>"}[g.rng.Intn(6)]
		}
		for len(noMaps) > 0 && noMaps[0] && (strings.Contains(t, "map") || t == "BOX") {
			t = vgOutTypes[g.rng.Intn(len(vgOutTypes))]
		}
		st.Outs = append(st.Outs, vgSrc{fmt.Sprintf("o%d", i), t, vgIsFile(t)})
	}
	st.Split = g.rng.Intn(4) == 0
	switch r := g.rng.Intn(10); {
	case r < 5:
		st.Vol = "strict"
	case r == 5:
		st.Vol = "false"
	}
	if g.rng.Intn(5) == 0 && len(st.Outs) > 0 {
		o := st.Outs[g.rng.Intn(len(st.Outs))]
		if o.File {
			st.Retain = append(st.Retain, o.Expr)
			g.Stats["stage-retain"]++
		}
	}
	if st.Split {
		g.Stats["split-stage"]++
	}
	g.Stats["stage-vol-"+st.Vol]++
	g.stages = append(g.stages, st)
	var b strings.Builder
	fmt.Fprintf(&b, "stage %s(\n", st.Name)
	for _, in := range st.Ins {
		fmt.Fprintf(&b, "    in  %s %s,\n", in.Ty, in.Expr)
	}
	for _, o := range st.Outs {
		fmt.Fprintf(&b, "    out %s %s,\n", o.Ty, o.Expr)
	}
	b.WriteString("    src comp \"x\",\n)")
	if st.Split {
		b.WriteString(" split (\n    in  int c,\n    out txt co,\n    out string cs,\n)")
	}
	if st.Vol != "" {
		fmt.Fprintf(&b, " using (\n    volatile = %s,\n)", st.Vol)
	}
	if len(st.Retain) > 0 {
		fmt.Fprintf(&b, " retain (\n    %s,\n)", strings.Join(st.Retain, ",\n    "))
	}
	b.WriteString("\n\n")
	g.decls.WriteString(b.String())
	return st
}

// pick chooses up to n distinct sources, preferring file-bearing ones.
func (g *vdrGen) pick(scope []vgSrc, n int, wantFile bool) []vgSrc {
	var cand []vgSrc
	for _, s := range scope {
		for _, p := range vgProjections(s) {
			if !wantFile || p.File {
				cand = append(cand, p)
			}
		}
	}
	if len(cand) == 0 {
		return nil
	}
	var out []vgSrc
	seen := map[string]bool{}
	for i := 0; i < n*3 && len(out) < n; i++ {
		c := cand[g.rng.Intn(len(cand))]
		if !seen[c.Expr] {
			seen[c.Expr] = true
			out = append(out, c)
		}
	}
	return out
}

// body generates the calls of one pipeline. scope: what its calls may bind
// (pipeline inputs as self.x).  Returns the call text and the sources the
// calls produced.
func (g *vdrGen) body(scope []vgSrc, depth int, nCalls int, used map[string]bool) (string, []vgSrc) {
	var b strings.Builder
	var produced []vgSrc
	all := append([]vgSrc(nil), scope...)
	intSrc := func() vgSrc {
		var c []vgSrc
		for _, s := range all {
			if s.Ty == "int" {
				c = append(c, s)
			}
		}
		return c[g.rng.Intn(len(c))]
	}
	bindArgs := func(st *vgStage, args []vgSrc, splitIdx int) string {
		var a strings.Builder
		for i, in := range st.Ins {
			e := args[i].Expr
			used[e] = true
			if i == splitIdx {
				e = "split " + e
			}
			fmt.Fprintf(&a, "        %s = %s,\n", in.Expr, e)
		}
		return a.String()
	}
	for c := 0; c < nCalls; c++ {
		kind := g.rng.Intn(10)
		switch {
		case kind < 3 || c == 0: // producer
			x := intSrc()
			st := g.newStage([]vgSrc{x}, 1+g.rng.Intn(3), true)
			mods := ""
			if g.rng.Intn(6) == 0 {
				mods = " using (\n        volatile = true,\n    )"
				g.Stats["call-volatile"]++
			}
			if g.rng.Intn(4) == 0 { // statically mapped producer
				k := 1 + g.rng.Intn(3)
				lits := make([]string, k)
				for i := range lits {
					lits[i] = fmt.Sprint(g.rng.Intn(9))
				}
				fmt.Fprintf(&b, "    map call %s(\n        i0 = split [%s],\n    )%s\n", st.Name, strings.Join(lits, ", "), mods)
				for _, o := range st.Outs {
					if lt, ok := vgLiftArray(o.Ty); ok {
						s := vgSrc{st.Name + "." + o.Expr, lt, o.File}
						produced, all = append(produced, s), append(all, s)
					}
				}
				g.Stats["static-map-producer"]++
			} else {
				fmt.Fprintf(&b, "    call %s(\n%s    )%s\n", st.Name, bindArgs(st, []vgSrc{x}, -1), mods)
				for _, o := range st.Outs {
					s := vgSrc{st.Name + "." + o.Expr, o.Ty, o.File}
					produced, all = append(produced, s), append(all, s)
				}
			}
		case kind < 4: // slow chain: ints only; its end feeds a late consumer
			x := intSrc()
			n := 2 + g.rng.Intn(3)
			for i := 0; i < n; i++ {
				st := &vgStage{Name: g.name("SLOW")}
				fmt.Fprintf(&g.decls, "stage %s(\n    in  int i0,\n    out int o0,\n    src comp \"x\",\n)\n\n", st.Name)
				used[x.Expr] = true
				fmt.Fprintf(&b, "    call %s(\n        i0 = %s,\n    )\n", st.Name, x.Expr)
				x = vgSrc{st.Name + ".o0", "int", false}
				all = append(all, x)
			}
			g.Stats["slow-chain"]++
		case kind < 5 && depth < 2: // sub-pipeline taking files in and handing files out
			ins := g.pick(all, 1+g.rng.Intn(2), true)
			if len(ins) == 0 {
				continue
			}
			ins = append(ins, intSrc())
			pname := g.name("SUB")
			var subScope []vgSrc
			for i, in := range ins {
				subScope = append(subScope, vgSrc{fmt.Sprintf("self.p%d", i), in.Ty, in.File})
			}
			subUsed := map[string]bool{}
			text, prod := g.body(subScope, depth+1, 2+g.rng.Intn(2), subUsed)
			// every pipeline input must be used
			for i, in := range ins {
				e := fmt.Sprintf("self.p%d", i)
				if !subUsed[e] {
					st := g.newStage([]vgSrc{in}, 1, false)
					text += fmt.Sprintf("    call %s(\n        i0 = %s,\n    )\n", st.Name, e)
					for _, o := range st.Outs {
						prod = append(prod, vgSrc{st.Name + "." + o.Expr, o.Ty, o.File})
					}
				}
			}
			var outs []vgSrc
			for _, p := range g.pick(prod, 1+g.rng.Intn(2), false) {
				outs = append(outs, p)
			}
			if len(outs) == 0 {
				continue
			}
			var d strings.Builder
			fmt.Fprintf(&d, "pipeline %s(\n", pname)
			for i, in := range ins {
				fmt.Fprintf(&d, "    in  %s p%d,\n", in.Ty, i)
			}
			for i, o := range outs {
				fmt.Fprintf(&d, "    out %s q%d,\n", o.Ty, i)
			}
			d.WriteString(")\n{\n" + text + "    return (\n")
			for i, o := range outs {
				fmt.Fprintf(&d, "        q%d = %s,\n", i, o.Expr)
			}
			d.WriteString("    )\n")
			if g.rng.Intn(4) == 0 {
				if r := g.retainable(prod); r != "" {
					fmt.Fprintf(&d, "    retain (\n        %s,\n    )\n", r)
					g.Stats["pipeline-retain"]++
				}
			}
			d.WriteString("}\n\n")
			g.decls.WriteString(d.String())
			// the sub-pipeline may be called with a `disabled` modifier bound to a
			// run-time flag: what it hands out reaches its consumers behind that boundary
			flag := ""
			if g.rng.Intn(3) == 0 {
				flag = g.name("FLAG")
				fx := intSrc()
				used[fx.Expr] = true
				fmt.Fprintf(&g.decls, "stage %s(\n    in  int i0,\n    out bool o0,\n    src comp \"x\",\n)\n\n", flag)
				fmt.Fprintf(&b, "    call %s(\n        i0 = %s,\n    )\n", flag, fx.Expr)
				g.Stats["disabled-sub-pipeline"]++
			}
			fmt.Fprintf(&b, "    call %s(\n", pname)
			for i, in := range ins {
				used[in.Expr] = true
				fmt.Fprintf(&b, "        p%d = %s,\n", i, in.Expr)
			}
			if flag != "" {
				fmt.Fprintf(&b, "    ) using (\n        disabled = %s.o0,\n    )\n", flag)
			} else {
				b.WriteString("    )\n")
			}
			for i, o := range outs {
				s := vgSrc{fmt.Sprintf("%s.q%d", pname, i), o.Ty, o.File}
				produced, all = append(produced, s), append(all, s)
			}
			g.Stats["sub-pipeline"]++
		case kind < 7: // consumer mapped over a collection of files
			var cand []vgSrc
			for _, s := range all {
				for _, p := range vgProjections(s) {
					if p.Ty == "txt[]" || p.Ty == "map<txt>" || p.Ty == "BAG[]" || p.Ty == "map<BAG>" {
						cand = append(cand, p)
					}
				}
			}
			if len(cand) == 0 {
				continue
			}
			src := cand[g.rng.Intn(len(cand))]
			elem := strings.TrimSuffix(src.Ty, "[]")
			isMap := strings.HasPrefix(src.Ty, "map<")
			if isMap {
				elem = strings.TrimSuffix(strings.TrimPrefix(src.Ty, "map<"), ">")
			}
			x := intSrc()
			st := g.newStage([]vgSrc{{"", elem, true}, x}, 1+g.rng.Intn(2), true, isMap)
			fmt.Fprintf(&b, "    map call %s(\n%s    )\n", st.Name, bindArgs(st, []vgSrc{src, x}, 0))
			for _, o := range st.Outs {
				var lt string
				var ok bool
				if isMap {
					lt, ok = vgLiftMap(o.Ty)
				} else {
					lt, ok = vgLiftArray(o.Ty)
				}
				if ok {
					s := vgSrc{st.Name + "." + o.Expr, lt, o.File}
					produced, all = append(produced, s), append(all, s)
				}
			}
			g.Stats["dynamic-map-consumer"]++
		default: // plain consumer of 1..3 file-bearing sources (+ an int, maybe from a slow chain)
			ins := g.pick(all, 1+g.rng.Intn(3), true)
			if len(ins) == 0 {
				continue
			}
			ins = append(ins, intSrc())
			st := g.newStage(ins, 1+g.rng.Intn(2), g.rng.Intn(2) == 0)
			fmt.Fprintf(&b, "    call %s(\n%s    )\n", st.Name, bindArgs(st, ins, -1))
			for _, o := range st.Outs {
				s := vgSrc{st.Name + "." + o.Expr, o.Ty, o.File}
				produced, all = append(produced, s), append(all, s)
			}
			for _, in := range ins {
				if strings.Contains(in.Expr, ".") && strings.Count(in.Expr, ".") > 1 {
					g.Stats["projection-binding"]++
				}
				g.Stats["consumer-in-"+in.Ty]++
			}
		}
	}
	return b.String(), produced
}

func (g *vdrGen) retainable(prod []vgSrc) string {
	var c []string
	for _, p := range prod {
		if p.File && strings.HasPrefix(p.Expr, "ST") && strings.Count(p.Expr, ".") == 1 {
			c = append(c, p.Expr)
		}
	}
	if len(c) == 0 {
		return ""
	}
	return c[g.rng.Intn(len(c))]
}

// GenVdrProgram returns the program text and shape statistics.
func GenVdrProgram(rng *rand.Rand, mode string) (string, map[string]int) {
	for {
		if src, st, ok := genVdrProgram(rng, mode); ok {
			return src, st
		}
	}
}

func genVdrProgram(rng *rand.Rand, mode string) (string, map[string]int, bool) {
	g := &vdrGen{rng: rng, mode: mode, Stats: map[string]int{}}
	used := map[string]bool{}
	text, prod := g.body([]vgSrc{{"self.x", "int", false}}, 0, 3+rng.Intn(5), used)
	var sb strings.Builder
	sb.WriteString("filetype txt;\n\nstruct BAG(\n    txt    f,\n    int    n,\n    string s,\n)\n\nstruct BOX(\n    BAG      bag,\n    txt[]    fs,\n    map<BAG> mb,\n)\n\n")
	if !used["self.x"] {
		fmt.Fprintf(&g.decls, "stage USEX(\n    in  int i0,\n    out int o0,\n    src comp \"x\",\n)\n\n")
		text += "    call USEX(\n        i0 = self.x,\n    )\n"
	}
	if len(prod) == 0 {
		return "", nil, false
	}
	outs := g.pick(prod, 1+rng.Intn(3), false)
	if len(outs) == 0 {
		outs = []vgSrc{prod[0]}
	}
	sb.WriteString(g.decls.String())
	sb.WriteString("pipeline TOP(\n    in  int x,\n")
	for i, o := range outs {
		fmt.Fprintf(&sb, "    out %s r%d,\n", o.Ty, i)
	}
	sb.WriteString(")\n{\n" + text + "    return (\n")
	for i, o := range outs {
		fmt.Fprintf(&sb, "        r%d = %s,\n", i, o.Expr)
		if o.File {
			g.Stats["top-file-out"]++
		}
	}
	sb.WriteString("    )\n")
	if rng.Intn(3) == 0 {
		if r := g.retainable(prod); r != "" {
			fmt.Fprintf(&sb, "    retain (\n        %s,\n    )\n", r)
			g.Stats["pipeline-retain"]++
		}
	}
	sb.WriteString("}\n\ncall TOP(\n    x = 1,\n)\n")
	g.Stats["stages"] = len(g.stages)
	return sb.String(), g.Stats, true
}
