package main

// C12: the float layer between GetSystemReqs and Enqueue (audit pass 2, LOW-2).
//
// GetSystemReqs stores Threads = float64(centi)/100 and Enqueue re-derives
// int64(math.Ceil(res.Threads*100)); for some centi (7, 14, 28, 55, … — about 4.5 % of 1..6399)
// the product is a hair above the integer and the ceil gives centi+1, which the integer model
// (acquireAmounts: centi) does not say; Enqueue applies GetSystemReqs once more to the result of
// Node.getJobReqs before its own ceil, so there are two such round trips: the real Acquire amount
// is centi, centi+1 or centi+2 (observed: 9.205 threads -> 921 -> 922 -> 923).  The bound is unaffected: the cap is a
// multiple of 100, and every multiple of 100 survives the round trip, so centi+1 <= cap.
// This stream runs real jobs with PRNG centi values alone through the real Enqueue, reads the
// reservation off the core semaphore and COUNTS centi vs centi+1; anything else — below centi,
// above centi+1, above the cap — is a violation.

import (
	"fmt"
	"math"
	"os"
	"path/filepath"
	"time"

	"github.com/martian-lang/martian/martian/core"
)

func runC12Float(c *Ctx) {
	r := c.Res
	if _, err := os.Stat("/bin/sh"); err != nil {
		return
	}
	n := 60
	if c.Thorough {
		n = 600
	}
	g := c12Cfg{MaxCores: 64, MaxMemGB: 2, TPJ: 1, MPJ: 1}
	ljm := g.manager()
	sems := ljm.VerifSemaphores()
	dir := filepath.Join(c.Scratch, "float")
	os.MkdirAll(dir, 0o755)
	limit := sems[0].VerifMaxSize()
	t0 := time.Now()
	for i := 0; i < n; i++ {
		if time.Since(t0) > c12Scaled(4*time.Second) {
			r.note("float-layer stream: time budget used up after %d of %d jobs", i, n)
			break
		}
		want := int64(1 + c.Rng.Intn(6400))
		if i%2 == 1 {
			// every second job: a value whose float round trip does not come back to the integer
			for t := 0; t < 400 && int64(math.Ceil(float64(want)/100*100)) == want; t++ {
				want = int64(1 + c.Rng.Intn(6400))
			}
		}
		// half a centi-core below: GetSystemReqs' own ceil(threads*100) then lands on `want`
		jobDef := core.JobResources{Threads: (float64(want) - 0.5) / 100, MemGB: 0.25}
		fq := fmt.Sprintf("ID.c12.PIPE.FL%d", i)
		res := core.VerifNodeJobReqs(ljm, ljm, nil, fq, true, nil, &jobDef, core.STAGE_TYPE_CHUNK)
		// the integer GetSystemReqs arrived at (it stores exactly float64(centi)/100)
		centi := int64(math.Round(res.Threads * 100))
		jdir := filepath.Join(dir, fmt.Sprintf("j%d", i))
		md := core.NewMetadata(fmt.Sprintf("ID.c12.FL%d", i), jdir)
		if core.VerifMkdirs(md) != nil {
			return
		}
		log := filepath.Join(jdir, "log")
		script := fmt.Sprintf("echo S 0 >> %s; while [ ! -e %s/go ]; do sleep 0.01; done; echo E 0 >> %s", log, jdir, log)
		ljm.Enqueue("/bin/sh", []string{"-c", script}, map[string]string{}, md, &res, fq, 0, 0, false)
		started := false
		for dl := time.Now().Add(c12Wait); !started && time.Now().Before(dl); {
			st, _ := readLog(log)
			if started = st[0]; !started {
				time.Sleep(time.Millisecond)
			}
		}
		got := sems[0].Reserved()
		os.WriteFile(filepath.Join(jdir, "go"), nil, 0o644)
		for dl := time.Now().Add(c12Wait); time.Now().Before(dl); {
			if sems[0].Reserved() == 0 && sems[1].Reserved() == 0 {
				break
			}
			time.Sleep(time.Millisecond)
		}
		if !started {
			r.note("float-layer stream: job %d (threads %g) did not start; stream ended", i, jobDef.Threads)
			return
		}
		r.count(fmt.Sprintf("float|%d", centi), got != centi)
		switch {
		case got == centi:
			r.hist("enqueue_cores_amount_equals_centi")
		case got == centi+1 && got <= limit:
			r.hist("enqueue_cores_amount_is_centi_plus_1_(float_round_trip)")
		case got == centi+2 && got <= limit:
			// two round trips: Enqueue applies GetSystemReqs once more to the result (ceil of
			// float64(centi)/100*100 -> centi+1, stored as (centi+1)/100) and then takes the ceil again
			r.hist("enqueue_cores_amount_is_centi_plus_2_(two_float_round_trips)")
		default:
			r.violate(Violation{Kind: "property", Key: "C12:local:cores-amount-off",
				What: fmt.Sprintf("a job asking for %g threads: GetSystemReqs returned %g threads (= %d centi-cores), Enqueue reserved %d on the core semaphore (limit %d): not within centi .. centi+2, or above the limit",
					jobDef.Threads, res.Threads, centi, got, limit),
				Input:  map[string]interface{}{"threads_requested": jobDef.Threads, "localcores": g.MaxCores, "GetSystemReqs_threads": res.Threads},
				Expect: "centi <= reserved <= centi+2 and reserved <= limit (the integer model's amount, plus at most one per float round trip ceil(float64(centi)/100*100); GetSystemReqs is applied again inside Enqueue)"})
			return
		}
	}
}
