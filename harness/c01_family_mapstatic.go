package main

// C01 program family map-static: map calls of STAGES over collections of statically
// known size (array and typed-map literals whose elements mix constants, pipeline
// inputs and upstream outputs; written at the call, or handed down as a pipeline
// input and split inside), consumed whole, projected (`W.q.a`) and narrowed
// (WIDE[] -> PAIR[]) by plain stages, returned by pipelines.  This is the fragment
// of map calls that the two-phase resolver model covers (the compiler unrolls the
// merge over such a call into an array / typed map of references with known fork
// indices), so every program here goes through the static-phase tie as well.

import (
	"fmt"
	"math/rand"
	"strings"
)

const c01MapStaticDecls = `struct PAIR(
    int    a,
    string b,
)

struct WIDE(
    int    a,
    string b,
    float  c,
)

stage GEN(
    in  int  n,
    out WIDE w,
    out int  x,
    src comp "fake",
)

stage WORK(
    in  int  x,
    in  PAIR p,
    in  int  k,
    out int  y,
    out WIDE q,
    src comp "fake",
)

stage USE(
    in  int[]  ys,
    in  PAIR[] qs,
    in  int[]  qa,
    in  int    one,
    out int    r,
    src comp   "fake",
)

stage USEM(
    in  map<int>  ys,
    in  map<PAIR> qs,
    in  map<int>  qa,
    out int       r,
    src comp      "fake",
)

`

func c01IntElem(rng *rand.Rand, self bool) string {
	switch rng.Intn(3) {
	case 0:
		return fmt.Sprint(rng.Intn(50))
	case 1:
		if self {
			return "self.v"
		}
		return fmt.Sprint(rng.Intn(50))
	}
	return "GEN.x"
}

func c01PairElem(rng *rand.Rand) string {
	if rng.Intn(2) == 0 {
		return "GEN.w"
	}
	return fmt.Sprintf(`{a: %d, b: "p%d"}`, rng.Intn(50), rng.Intn(9))
}

func c01MapStaticProgram(rng *rand.Rand) string {
	var sb strings.Builder
	sb.WriteString(c01MapStaticDecls)
	n := 1 + rng.Intn(4)
	viaPipe := rng.Intn(2) == 0
	if viaPipe {
		sb.WriteString("pipeline INNER(\n    in  int[]  xs,\n    in  PAIR[] ps,\n    in  int    k,\n    out int[]  ys,\n    out PAIR[] qs,\n    out int[]  qa,\n)\n{\n")
		if rng.Intn(2) == 0 {
			sb.WriteString("    map call WORK(\n        x = split self.xs,\n        p = split self.ps,\n        k = self.k,\n    )\n\n")
		} else {
			sb.WriteString("    map call WORK(\n        x = split self.xs,\n        p = {a: 1, b: \"c\"},\n        k = self.k,\n    )\n\n    call USE as U0(\n        ys  = WORK.y,\n        qs  = self.ps,\n        qa  = self.xs,\n        one = self.k,\n    )\n\n")
		}
		sb.WriteString("    return (\n        ys = WORK.y,\n        qs = WORK.q,\n        qa = WORK.q.a,\n    )\n}\n\n")
	}
	sb.WriteString("pipeline TOP(\n    in  int    v,\n    out int[]  ys,\n    out PAIR[] qs,\n    out map<int> ms,\n    out int    r,\n    out int    r2,\n)\n{\n")
	sb.WriteString("    call GEN(\n        n = self.v,\n    )\n\n")
	var xs, ps []string
	for i := 0; i < n; i++ {
		xs = append(xs, c01IntElem(rng, true))
		ps = append(ps, c01PairElem(rng))
	}
	src := "W1"
	if viaPipe {
		fmt.Fprintf(&sb, "    call INNER as W1(\n        xs = [%s],\n        ps = [%s],\n        k  = %s,\n    )\n\n", strings.Join(xs, ", "), strings.Join(ps, ", "), c01IntElem(rng, true))
		fmt.Fprintf(&sb, "    call USE(\n        ys  = W1.ys,\n        qs  = W1.qs,\n        qa  = W1.qa,\n        one = self.v,\n    )\n\n")
	} else {
		p := "GEN.w"
		if rng.Intn(2) == 0 {
			p = "split [" + strings.Join(ps, ", ") + "]"
		}
		fmt.Fprintf(&sb, "    map call WORK as W1(\n        x = split [%s],\n        p = %s,\n        k = %s,\n    )\n\n", strings.Join(xs, ", "), p, c01IntElem(rng, true))
		fmt.Fprintf(&sb, "    call USE(\n        ys  = W1.y,\n        qs  = W1.q,\n        qa  = W1.q.a,\n        one = self.v,\n    )\n\n")
	}
	// a map call over a typed-map literal
	var mx, mp []string
	for i, m := 0, 1+rng.Intn(3); i < m; i++ {
		mx = append(mx, fmt.Sprintf(`"k%d": %s`, i, c01IntElem(rng, true)))
		mp = append(mp, fmt.Sprintf(`"k%d": %s`, i, c01PairElem(rng)))
	}
	p2 := "GEN.w"
	if rng.Intn(2) == 0 {
		p2 = "split {" + strings.Join(mp, ", ") + "}"
	}
	fmt.Fprintf(&sb, "    map call WORK as W2(\n        x = split {%s},\n        p = %s,\n        k = 7,\n    )\n\n", strings.Join(mx, ", "), p2)
	sb.WriteString("    call USEM(\n        ys = W2.y,\n        qs = W2.q,\n        qa = W2.q.a,\n    )\n\n")
	if viaPipe {
		sb.WriteString("    return (\n        ys = W1.ys,\n        qs = W1.qs,\n        ms = W2.y,\n        r  = USE.r,\n        r2 = USEM.r,\n    )\n}\n\n")
	} else {
		fmt.Fprintf(&sb, "    return (\n        ys = %s.y,\n        qs = %s.q,\n        ms = W2.y,\n        r  = USE.r,\n        r2 = USEM.r,\n    )\n}\n\n", src, src)
	}
	fmt.Fprintf(&sb, "call TOP(\n    v = %d,\n)\n", rng.Intn(20))
	return sb.String()
}

// mapped PIPELINES and nested map calls over literals: a pipeline mapped over an array / typed-map
// literal whose body has a stage that depends on the split value, one that does not, a nested map
// call over a literal that mixes the split value with constants, and pass-through returns.
func c01MapPipeProgram(rng *rand.Rand) string {
	var sb strings.Builder
	sb.WriteString(c01MapStaticDecls)
	sb.WriteString("stage CONST(\n    in  int k,\n    out int c,\n    src comp \"fake\",\n)\n\n")
	sb.WriteString("stage USE2(\n    in  int[]   ys,\n    in  int[][] zs,\n    in  PAIR[]  qs,\n    in  int[]   cs,\n    in  int[]   xs,\n    out int     r,\n    src comp    \"fake\",\n)\n\n")
	sb.WriteString("stage USEM2(\n    in  map<int>   ys,\n    in  map<int[]> zs,\n    in  map<PAIR>  qs,\n    out int        r,\n    src comp       \"fake\",\n)\n\n")
	nested := rng.Intn(3) != 0
	sb.WriteString("pipeline INNER(\n    in  int   x,\n    in  PAIR  p,\n    in  int   k,\n    out int   y,\n    out int[] zs,\n    out PAIR  q,\n    out int   c,\n    out int   x2,\n)\n{\n")
	sb.WriteString("    call WORK(\n        x = self.x,\n        p = self.p,\n        k = self.k,\n    )\n\n")
	sb.WriteString("    call CONST(\n        k = self.k,\n    )\n\n")
	if nested {
		var es []string
		for i, m := 0, 1+rng.Intn(3); i < m; i++ {
			es = append(es, []string{"self.x", "WORK.y", fmt.Sprint(rng.Intn(30)), "self.k"}[rng.Intn(4)])
		}
		fmt.Fprintf(&sb, "    map call WORK as W2(\n        x = split [%s],\n        p = self.p,\n        k = WORK.y,\n    )\n\n", strings.Join(es, ", "))
		sb.WriteString("    return (\n        y  = WORK.y,\n        zs = W2.y,\n        q  = WORK.q,\n        c  = CONST.c,\n        x2 = self.x,\n    )\n}\n\n")
	} else {
		sb.WriteString("    return (\n        y  = WORK.y,\n        zs = [WORK.y, self.x],\n        q  = WORK.q,\n        c  = CONST.c,\n        x2 = self.x,\n    )\n}\n\n")
	}
	sb.WriteString("pipeline TOP(\n    in  int    v,\n    out int[]  ys,\n    out int    r,\n    out int    r2,\n)\n{\n")
	sb.WriteString("    call GEN(\n        n = self.v,\n    )\n\n")
	n := 1 + rng.Intn(3)
	var xs, ps, mx []string
	for i := 0; i < n; i++ {
		xs = append(xs, c01IntElem(rng, true))
		ps = append(ps, c01PairElem(rng))
		mx = append(mx, fmt.Sprintf(`"k%d": %s`, i, c01IntElem(rng, true)))
	}
	p := "GEN.w"
	if rng.Intn(2) == 0 {
		p = "split [" + strings.Join(ps, ", ") + "]"
	}
	fmt.Fprintf(&sb, "    map call INNER as M1(\n        x = split [%s],\n        p = %s,\n        k = %s,\n    )\n\n", strings.Join(xs, ", "), p, c01IntElem(rng, true))
	sb.WriteString("    call USE2(\n        ys = M1.y,\n        zs = M1.zs,\n        qs = M1.q,\n        cs = M1.c,\n        xs = M1.x2,\n    )\n\n")
	if rng.Intn(2) == 0 {
		// the same pipeline in typed-map mode
		fmt.Fprintf(&sb, "    map call INNER as M2(\n        x = split {%s},\n        p = GEN.w,\n        k = 3,\n    )\n\n", strings.Join(mx, ", "))
		sb.WriteString("    call USEM2(\n        ys = M2.y,\n        zs = M2.zs,\n        qs = M2.q,\n    )\n\n")
		fmt.Fprintf(&sb, "    return (\n        ys = M1.y,\n        r  = USE2.r,\n        r2 = USEM2.r,\n    )\n}\n\ncall TOP(\n    v = %d,\n)\n", rng.Intn(20))
	} else {
		fmt.Fprintf(&sb, "    return (\n        ys = M1.y,\n        r  = USE2.r,\n        r2 = USE2.r,\n    )\n}\n\ncall TOP(\n    v = %d,\n)\n", rng.Intn(20))
	}
	return sb.String()
}

func c01MapStaticFamily(rng *rand.Rand, thorough bool) []c01Case {
	n, m := 10, 8
	if thorough {
		n, m = 50, 40
	}
	var cases []c01Case
	for i := 0; i < n; i++ {
		cases = append(cases, c01Case{name: fmt.Sprintf("family/map-static-%d", i), src: c01MapStaticProgram(rng)})
	}
	for i := 0; i < m; i++ {
		cases = append(cases, c01Case{name: fmt.Sprintf("family/map-pipe-%d", i), src: c01MapPipeProgram(rng)})
	}
	return cases
}
