package main

// C11, tier A stream: generator of mapped programs over adversarial key sets
// and the oracle (see c11_ta.go for the worker).

import (
	"encoding/json"
	"fmt"
	"os"
	"path"
	"sort"
	"strconv"
	"strings"

	"github.com/martian-lang/martian/martian/core"
)

type c11TACase struct {
	name   string
	shape  string // stage | split-stage | subpipe | map-in-map | array-over-map
	outer  []string
	inner  []string // map-in-map: keys of the inner call
	narr   int      // array-over-map: length of the outer array
	class  string   // key-set class
	src    string
	expect interface{} // expected top-level outs
}

func c11taPayload(k string, i int) string { return fmt.Sprintf("p%d:%x", i, hash64(k)&0xffffff) }

func c11taMapLit(keys []string, val func(k string, i int) string) string {
	xs := make([]string, len(keys))
	for i, k := range keys {
		xs[i] = "        " + c11MroString(k) + ": " + val(k, i) + ","
	}
	return "{\n" + strings.Join(xs, "\n") + "\n    }"
}

const c11taStages = `
stage ECHO(
    in  string v,
    out string w,
    src comp "x",
)

stage ECHO2(
    in  string v,
    in  string t,
    out string w,
    src comp "x",
)

stage ECHOS(
    in  string v,
    out string w,
    src comp "x",
) split (
    in  int z,
)
`

func c11taBuild(cs *c11TACase) {
	strLit := func(k string, i int) string { return c11MroString(c11taPayload(k, i)) }
	want := map[string]interface{}{}
	for i, k := range cs.outer {
		want[k] = c11taPayload(k, i)
	}
	switch cs.shape {
	case "stage", "split-stage":
		st := "ECHO"
		if cs.shape == "split-stage" {
			st = "ECHOS"
		}
		cs.src = c11taStages + fmt.Sprintf(`
pipeline TOP(
    in  map<string> vs,
    out map<string> ws,
)
{
    map call %[1]s(
        v = split self.vs,
    )
    return (
        ws = %[1]s.w,
    )
}

call TOP(
    vs = %[2]s,
)
`, st, c11taMapLit(cs.outer, strLit))
		cs.expect = map[string]interface{}{"ws": want}
	case "subpipe":
		cs.src = c11taStages + fmt.Sprintf(`
pipeline INNER(
    in  string v,
    out string w,
)
{
    call ECHO(
        v = self.v,
    )
    return (
        w = ECHO.w,
    )
}

pipeline TOP(
    in  map<string> vs,
    out map<string> ws,
)
{
    map call INNER(
        v = split self.vs,
    )
    return (
        ws = INNER.w,
    )
}

call TOP(
    vs = %s,
)
`, c11taMapLit(cs.outer, strLit))
		cs.expect = map[string]interface{}{"ws": want}
	case "map-in-map":
		// the outer call maps MID over `tags`; MID maps ECHO over the (shared) inner map; the result
		// is collected through the struct of MID's outputs (map<map<..>> is not an MRO type)
		inner := map[string]interface{}{}
		for i, k := range cs.inner {
			inner[k] = c11taPayload(k, i)
		}
		res := map[string]interface{}{}
		for i, k := range cs.outer {
			res[k] = map[string]interface{}{"ws": inner, "t": c11taPayload(k, i)}
		}
		cs.src = c11taStages + fmt.Sprintf(`
pipeline MID(
    in  string      tag,
    in  map<string> vs,
    out map<string> ws,
    out string      t,
)
{
    map call ECHO2(
        v = split self.vs,
        t = self.tag,
    )
    return (
        ws = ECHO2.w,
        t  = self.tag,
    )
}

pipeline TOP(
    in  map<string> tags,
    in  map<string> vs,
    out map<MID>    res,
)
{
    map call MID(
        tag = split self.tags,
        vs  = self.vs,
    )
    return (
        res = MID,
    )
}

call TOP(
    tags = %s,
    vs   = %s,
)
`, c11taMapLit(cs.outer, strLit), c11taMapLit(cs.inner, strLit))
		cs.expect = map[string]interface{}{"res": res}
	case "array-over-map":
		var arr []interface{}
		var lits []string
		for a := 0; a < cs.narr; a++ {
			arr = append(arr, map[string]interface{}{"ws": want})
			lits = append(lits, strconv.Quote(strconv.Itoa(a)))
		}
		cs.src = c11taStages + fmt.Sprintf(`
pipeline MID(
    in  string      i,
    in  map<string> vs,
    out map<string> ws,
)
{
    map call ECHO2(
        v = split self.vs,
        t = self.i,
    )
    return (
        ws = ECHO2.w,
    )
}

pipeline TOP(
    in  string[]    is,
    in  map<string> vs,
    out MID[]       res,
)
{
    map call MID(
        i  = split self.is,
        vs = self.vs,
    )
    return (
        res = MID,
    )
}

call TOP(
    is = [%s],
    vs = %s,
)
`, strings.Join(lits, ", "), c11taMapLit(cs.outer, strLit))
		cs.expect = map[string]interface{}{"res": arr}
	}
}

func c11taRep(s string, n int) string { return strings.Repeat(s, n) }

type c11taSet struct {
	class string
	keys  []string
}

func c11taKeySets(c *Ctx) []c11taSet {
	mid := func(x string) string { return c11taRep("a", 40) + x + c11taRep("a", 40) }
	sets := []c11taSet{
		{"dots-slashes-percents", []string{".", "..", "/", "%", "%2E", "%2F", "a.b", "a/b", "a%2Fb", "a%252Fb"}},
		{"fork-like", []string{"fork_a", "fork0", "fork_0", "0", "fork", "a/fork_b", "fork_a/fork_b"}},
		{"spaces-non-ascii", []string{" ", "a b", " a", "a ", "é", "日本語", "\U0001F600", "é"}},
		{"affixes-digits", []string{"k", "k_", "_k", "k_1", "k1", "k10", "k01", "1", "10", "01"}},
		{"metadata-like", []string{"_outs", "_args", "files", "split", "join", "chnk0", "journal", "_complete", "chnk0.u0123456789"}},
		{"middle-differs", []string{mid("X"), mid("Y"), mid("."), mid("/"), mid("")}},
		{"middle-differs-long", []string{c11taRep("a", 110) + "X" + c11taRep("b", 60), c11taRep("a", 110) + "Y" + c11taRep("b", 60), c11taRep("a", 110) + c11taRep("b", 60),
			c11taRep("a", 85) + "X" + c11taRep("a", 85), c11taRep("a", 85) + "Y" + c11taRep("a", 85), c11taRep("é", 8) + "X" + c11taRep("é", 8), c11taRep("é", 8) + "Y" + c11taRep("é", 8)}},
		{"suffix-sorts-first", []string{"matched_normal", "normal", "a_b", "b", "xb", "0_1", "1", "_1"}},
		{"near-equal-siblings", c11taNoDollar(c11NearEqualFamily(c11NearBases[0]))},
		{"near-equal-siblings-prng", c11taNoDollar(c11NearSubset(c, c11NearBase(c), 8))},
		{"empty-key", []string{"", "a"}},
		{"quote-backslash", []string{"\"", "\\", "a\"b", "a\\b", "'", "`", "*", "?", "~", "#", "&", ";", "|", "<", ">", "(", "{"}},
	}
	// PRNG sets from the adversarial token pool of the key stream (valid UTF-8, no controls)
	for i := 0; i < 3; i++ {
		seen := map[string]bool{}
		var ks []string
		for len(ks) < 3+c.Rng.Intn(4) {
			k := strings.ToValidUTF8(c11GenKey(c), "?")
			k = strings.Map(func(r rune) rune {
				if r < 0x20 || r == 0x7f || r == '$' { // '$': InvokePipeline expands environment variables in the source text
					return '_'
				}
				return r
			}, k)
			if !seen[k] && len(k) < 60 {
				seen[k] = true
				ks = append(ks, k)
			}
		}
		sets = append(sets, c11taSet{"prng", ks})
	}
	return sets
}

// key sets around and beyond NAME_MAX
func c11taLongSets() []c11taSet {
	return []c11taSet{
		{"long-fits-83-nonascii-bytes", []string{c11taRep("é", 41), "a"}},               // 82 bytes, all escaped: dir 5+246
		{"long-dir-fits-journal-not", []string{c11taRep("é", 30), "a"}},                  // dir 185, journal part 305
		{"long-unreserved-dir-255", []string{c11taRep("a", 250), "a"}},                   // dir exactly 255, journal longer
		{"long-unreserved-200", []string{c11taRep("a", 200), c11taRep("a", 199) + "b"}}, // everything fits
		{"long-dir-exceeds-escaped", []string{c11taRep("é", 100), "a"}},                  // 200 bytes raw, 600 escaped
		{"long-dir-exceeds-raw", []string{c11taRep("a", 260), "b"}},                      // > 255 raw
		{"long-dir-256", []string{c11taRep("a", 251), "b"}},
	}
}

func c11TierA(c *Ctx) {
	r := c.Res
	var cases []*c11TACase
	shapes := []string{"stage", "split-stage", "subpipe", "map-in-map", "array-over-map"}
	sets := c11taKeySets(c)
	add := func(shape string, s c11taSet, inner []string) {
		cs := &c11TACase{shape: shape, outer: s.keys, inner: inner, class: s.class, narr: 2 + c.Rng.Intn(2)}
		cs.name = fmt.Sprintf("%s/%s", shape, s.class)
		c11taBuild(cs)
		cases = append(cases, cs)
	}
	for i, s := range sets {
		// every class through the plain mapped stage; the other shapes rotate (thorough: all)
		add("stage", s, nil)
		for j, sh := range shapes[1:] {
			if c.Thorough || (i+j)%4 == 0 {
				inner := sets[(i+1)%len(sets)].keys
				if len(inner) > 4 {
					inner = inner[:4]
				}
				add(sh, s, inner)
			}
		}
	}
	for i, s := range c11taLongSets() {
		add("stage", s, nil)
		if c.Thorough || i%3 == 0 {
			add("subpipe", s, nil)
			add("split-stage", s, nil)
		}
	}
	specs := make([]*TASpec, len(cases))
	for i, cs := range cases {
		specs[i] = &TASpec{Name: cs.name, Src: cs.src, Seed: c.Rng.Int63(), StepBias: 0.4, StartSeparate: 0.3,
			InlineFinish: []float64{0, 0.2}[c.Rng.Intn(2)], Adversarial: c.Rng.Intn(2) == 0, TimeoutS: 25}
	}
	results := c11TARunSpecs(specs, 6)
	for i, cs := range cases {
		c11taCheck(c, cs, results[i])
	}
	_ = r
}

// fork ids the model expects below each node, per shape: node path -> parts encodings
func c11taKeyPart(k string, keys []string) string {
	return fmt.Sprintf("k:%s:%s:1", hx(k), hxList(keys))
}

func c11taCheck(c *Ctx, cs *c11TACase, res *c11TARes) {
	r := c.Res
	r.hist("ta_pipestances")
	r.hist("ta_shape_" + cs.shape)
	nontrivial := false
	for _, k := range cs.outer {
		if c11KeyNontrivial(k) || len(k) > 60 || k == "" {
			nontrivial = true
		}
	}
	r.count("ta:"+cs.name+":"+strings.Join(cs.outer, "\x00"), nontrivial)
	input := map[string]interface{}{"shape": cs.shape, "key_set_class": cs.class, "keys": cs.outer, "program": cs.src}
	if cs.inner != nil && cs.shape == "map-in-map" {
		input["inner_keys"] = cs.inner
	}
	if res == nil {
		r.note("tier A %s: no result", cs.name)
		return
	}
	if res.Final == "compile-error" {
		// the language rejects the key set (e.g. an empty key): not a run
		r.hist("ta_compile_error_" + cs.class)
		r.note("tier A %s: not accepted by the compiler: %s", cs.name, c01Trunc(res.Compile, 160))
		return
	}
	// ---- model: directory and journal lengths of every key ----
	var reqs [][]string
	allKeys := append([]string{}, cs.outer...)
	if cs.shape == "map-in-map" {
		allKeys = append(allKeys, cs.inner...)
	}
	for _, k := range allKeys {
		reqs = append(reqs, []string{"C11.keylen", hx(k)})
	}
	lens := c.Drv.AskBatch(reqs)
	maxDir := 0
	for _, l := range lens {
		f := strings.Fields(l)
		if len(f) == 2 {
			if d, _ := strconv.Atoi(f[0]); d > maxDir {
				maxDir = d
			}
		}
	}
	// the stage nodes of the program and the fork ids the model expects below each
	type nodeForks struct {
		rel   string // directory of the node relative to the pipestance
		parts [][]string
		ids   []string // model fork ids
		jencs map[string]bool
	}
	var nodes []*nodeForks
	single := func(keys []string) [][]string {
		var out [][]string
		for _, k := range keys {
			out = append(out, []string{c11taKeyPart(k, keys)})
		}
		return out
	}
	switch cs.shape {
	case "stage":
		nodes = []*nodeForks{{rel: "TOP/ECHO", parts: single(cs.outer)}}
	case "split-stage":
		nodes = []*nodeForks{{rel: "TOP/ECHOS", parts: single(cs.outer)}}
	case "subpipe":
		nodes = []*nodeForks{{rel: "TOP/INNER/ECHO", parts: single(cs.outer)}}
	case "map-in-map":
		var nested [][]string
		for _, o := range cs.outer {
			for _, i := range cs.inner {
				nested = append(nested, []string{c11taKeyPart(o, cs.outer), c11taKeyPart(i, cs.inner)})
			}
		}
		nodes = []*nodeForks{{rel: "TOP/MID/ECHO2", parts: nested}}
	case "array-over-map":
		var nested [][]string
		for a := 0; a < cs.narr; a++ {
			for _, k := range cs.outer {
				nested = append(nested, []string{fmt.Sprintf("a:%d:%d:1", a, cs.narr), c11taKeyPart(k, cs.outer)})
			}
		}
		nodes = []*nodeForks{{rel: "TOP/MID/ECHO2", parts: nested}}
	}
	// journal file names, from the model: <node path>.<journalEnc id>[.chnk<digits>].u<10 hex>.<split_|join_><file>;
	// Node.runJob refuses a job whose longest notification (split_stage_defs, 17 bytes with the dot) would not fit.
	// lo = the shortest job prefix of the program, hi = the longest one (a chunk of up to 10 chunks: .chnkNN)
	maxJournalLo, maxJournalHi := 0, 0
	for _, n := range nodes {
		var freqs [][]string
		for _, ps := range n.parts {
			freqs = append(freqs, []string{"C11.forkid", strings.Join(ps, ";")})
		}
		var jreqs [][]string
		for _, rep := range c.Drv.AskBatch(freqs) {
			if strings.HasPrefix(rep, "some ") {
				id := unhx(strings.TrimPrefix(rep, "some "))
				n.ids = append(n.ids, id)
				jreqs = append(jreqs, []string{"C11.jenc", hx(id)})
			}
		}
		n.jencs = map[string]bool{}
		for _, rep := range c.Drv.AskBatch(jreqs) {
			je := unhx(rep)
			n.jencs[je] = true
			base := len(strings.ReplaceAll(n.rel, "/", ".")) + 1 + len(je) + 12 + 17
			lo, hi := base+len(".chnk0"), base+len(".chnk0")
			if cs.shape == "split-stage" {
				lo, hi = base, base+len(".chnk00")
			}
			if lo > maxJournalLo {
				maxJournalLo = lo
			}
			if hi > maxJournalHi {
				maxJournalHi = hi
			}
		}
	}
	maxJournal := maxJournalHi
	borderline := maxDir <= 255 && maxJournalHi > 255 && maxJournalLo <= 255
	fits := maxDir <= 255 && maxJournal <= 255
	bad := func(key, what string, impl, expect interface{}) {
		r.violate(Violation{Kind: "property", Key: key, What: what, Input: input, Impl: impl, Expect: expect,
			Broken: "C11 property text: a mapped call over any legal key set completes and returns a map with exactly those keys"})
	}
	switch {
	case res.Final == "hang" || res.Crashed || strings.HasPrefix(res.Final, "panic") || strings.HasPrefix(res.Final, "error"):
		cls := "within-name-max"
		if !fits {
			cls = "beyond-name-max"
		}
		bad("C11:ta-abnormal-end:"+cls, "a mapped pipestance over a legal key set neither completed nor failed: "+res.Final,
			map[string]interface{}{"final": res.Final, "errmsg": c01Trunc(res.ErrMsg, 1200)}, "complete (or, beyond NAME_MAX, a clean failure)")
		return
	}
	if borderline {
		// the split job fits, chunk jobs may not (depends on the number of chunks): either outcome, but a clean one
		r.hist("ta_borderline_" + res.Final)
		if res.Final == "failed" {
			return
		}
		fits = true
	}
	if !fits {
		which := "dir"
		if maxDir <= 255 {
			which = "journal"
		}
		r.hist(fmt.Sprintf("ta_beyond_name_max_%s_%s", which, res.Final))
		if len(r.Samples) < 16 {
			r.sample(map[string]interface{}{"stream": "tierA-beyond-NAME_MAX", "case": cs.name, "max_dir_name": maxDir, "max_journal_name": maxJournal,
				"final": res.Final, "error": c01Trunc(c11taSqueeze(strings.Join(res.FailMsgs, " | ")), 400)})
		}
		switch res.Final {
		case "complete":
			// then it must be right
		case "failed":
			// a prompt failure.  journal name too long: Node.runJob refuses to launch the job and the
			// error names the problem.  directory name too long: mkdir fails, the fork's _errors cannot
			// be written either (it would live in that directory), so the fatal error text is empty and
			// the reason ("file name too long") is in the runtime log only -- a documented limit.
			msg := c11taSqueeze(strings.Join(res.FailMsgs, " | ") + res.ErrMsg)
			if which == "journal" && !strings.Contains(msg, "name too long") {
				bad("C11:ta-name-too-long:journal:unclear-error", "the pipestance failed because a journal file name exceeds NAME_MAX but the error does not name the problem", c01Trunc(msg, 600), "an error containing 'file name too long'")
			}
			if which == "dir" && !strings.Contains(msg, "name too long") {
				r.hist("ta_beyond_name_max_dir_failed_error_text_only_in_log")
			}
			return
		default: // stall: mrp waits for a notification that cannot arrive
			bad("C11:ta-name-too-long:"+which+":"+res.Final,
				"a legal map key whose "+which+" name exceeds NAME_MAX (255): the pipestance neither completes nor fails (the job's notification is lost / the fork cannot be created) — it waits until the heartbeat timeout",
				map[string]interface{}{"final": res.Final, "max_dir_name": maxDir, "max_journal_name": maxJournal, "fail_msgs": res.FailMsgs}, "complete, or a failure naming the key")
			return
		}
	}
	if res.Final != "complete" {
		bad("C11:ta-not-complete:"+cs.class, "a mapped pipestance over a legal key set did not complete: "+res.Final,
			map[string]interface{}{"final": res.Final, "errmsg": c01Trunc(res.ErrMsg, 800), "fail_msgs": res.FailMsgs}, "complete")
		return
	}
	r.hist("ta_complete")
	// ---- exactly those keys, each with its own value ----
	wantB, _ := json.Marshal(cs.expect)
	if !jsonEqual(res.TopOuts, wantB) {
		bad("C11:ta-wrong-outs:"+cs.shape, "the top-level outputs of a mapped call are not exactly {key: value computed for that key}",
			string(res.TopOuts), string(canonicalJSON(wantB)))
	}
	// ---- fork directories = the model's fork ids, pairwise distinct ----
	onDisk := map[string][]string{} // node dir -> fork dirs (relative to the node)
	for _, d := range res.ForkDirs {
		for _, n := range nodes {
			if strings.HasPrefix(d, n.rel+"/fork") {
				rest := strings.TrimPrefix(d, n.rel+"/")
				// a nested id is a path of several fork components: keep leaf directories only (checked below)
				onDisk[n.rel] = append(onDisk[n.rel], rest)
			}
		}
	}
	for _, n := range nodes {
		want := map[string]bool{}
		for _, id := range n.ids {
			want[id] = true
		}
		got := map[string]bool{}
		for _, d := range onDisk[n.rel] {
			// directories that are proper prefixes of a nested id are not forks themselves
			isPrefix := false
			for id := range want {
				if strings.HasPrefix(id, d+"/") {
					isPrefix = true
				}
			}
			if !isPrefix {
				got[d] = true
			}
		}
		if len(want) != len(n.parts) || fmt.Sprint(sortedSet(got)) != fmt.Sprint(sortedSet(want)) {
			bad("C11:ta-fork-dirs:"+cs.shape, "the fork directories on disk are not exactly the model's fork ids for the key set (one distinct directory per fork)",
				map[string]interface{}{"node": n.rel, "on_disk": sortedSet(got)}, map[string]interface{}{"forks": len(n.parts), "model_fork_ids": sortedSet(want)})
		}
		// ---- journal names the jobs of this node were given = <node path>.<journalEnc id>… (model parse) ----
		jencs := n.jencs
		nodePath := strings.ReplaceAll(n.rel, "/", ".")
		var preqs [][]string
		var pjobs []c11TAJob
		for _, j := range res.Jobs {
			if strings.HasPrefix(j.Journal, nodePath+".fork") {
				preqs = append(preqs, []string{"C11.parse", hx(j.Journal + ".complete")})
				pjobs = append(pjobs, j)
			}
		}
		usedBy := map[string]string{}
		for i, rep := range c.Drv.AskBatch(preqs) {
			f := strings.Fields(rep)
			r.hist("ta_journal_names")
			if len(f) != 6 || unhx(f[1]) != nodePath || !jencs["fork"+unhx(f[2])] {
				r.violate(Violation{Kind: "correspondence", Key: "C11:ta-journal-name-model-mismatch",
					What:  "the journal name a job of a mapped call was given is not <node path>.<journalEnc(fork id)>[.chnkN][.u…] for a fork id of the model",
					Input: input, Impl: pjobs[i], Model: rep, Broken: "forkJournalName_injective / parse_render"})
				continue
			}
			// distinct forks never share a journal fork part
			fq := pjobs[i].Fqname
			if k := strings.Index(fq, ".chnk"); k >= 0 {
				fq = fq[:k]
			}
			if prev, ok := usedBy[f[2]]; ok && prev != fq {
				bad("C11:ta-journal-collision", "two forks of one call were given the same journal name", []string{prev, fq}, "distinct journal names")
			}
			usedBy[f[2]] = fq
		}
	}
}

func sortedSet(m map[string]bool) []string {
	var out []string
	for k := range m {
		out = append(out, k)
	}
	sort.Strings(out)
	return out
}

// c11taSqueeze shortens the runs a long key produces in a message (aaaa…, %C3%A9%C3%A9…)
func c11taSqueeze(s string) string {
	var sb strings.Builder
	for i := 0; i < len(s); {
		// a run of one repeated unit of 1 or 6 bytes
		done := false
		for _, u := range []int{6, 1} {
			if i+u > len(s) {
				continue
			}
			unit := s[i : i+u]
			n := 1
			for i+(n+1)*u <= len(s) && s[i+n*u:i+(n+1)*u] == unit {
				n++
			}
			if n >= 12 {
				fmt.Fprintf(&sb, "%s{x%d}", unit, n)
				i += n * u
				done = true
				break
			}
		}
		if !done {
			sb.WriteByte(s[i])
			i++
		}
	}
	return sb.String()
}

// c11KeyLens: the model's name lengths (mapForkDir_length_exact, journal_forkpart_length) against the real
// makeKeySafe / encodeJournalName, and NAME_MAX = 255 against the file system the pipestances run on:
// mkdir of the fork directory name succeeds iff the model says it fits.
func c11KeyLens(c *Ctx) {
	r := c.Res
	keys := []string{"", "a", c11taRep("a", 250), c11taRep("a", 251), c11taRep("\xff", 83), c11taRep("\xff", 84), c11taRep("é", 41), c11taRep("é", 42),
		c11taRep(".", 250), c11taRep("%", 83), c11taRep("/", 84), c11taRep("a", 300), c11taRep("日", 28), c11taRep("日", 27) + "ab"}
	n := 150
	if c.Thorough {
		n = 3000
	}
	for i := 0; i < n; i++ {
		k := c11GenKey(c)
		if c.Rng.Intn(3) == 0 { // around the limits
			unit := []string{"a", "é", "%", ".", "\xff", "a/", "日本"}[c.Rng.Intn(7)]
			k = c11taRep(unit, (70+c.Rng.Intn(200))/len(unit)) + k
		}
		keys = append(keys, k)
	}
	var reqs [][]string
	for _, k := range keys {
		reqs = append(reqs, []string{"C11.keylen", hx(k)})
	}
	dir := path.Join(c.Scratch, "keylens")
	os.MkdirAll(dir, 0o755)
	defer os.RemoveAll(dir)
	for i, rep := range c.Drv.AskBatch(reqs) {
		k := keys[i]
		name := "fork_" + core.VerifMakeKeySafe(k)
		jn := core.VerifEncodeJournalName(name)
		r.count("keylen:"+k, len(k) > 60)
		r.hist("keylen_keys")
		if rep != fmt.Sprintf("%d %d", len(name), len(jn)) || len(name) > 5+3*len(k) || len(jn) > 5+5*len(k) {
			r.violate(Violation{Kind: "correspondence", Key: "C11:keylen-model-mismatch", What: "length of the fork directory name / journal fork part differs from the model (mapForkDir, journalEnc) or exceeds the proved bounds 5+3|k| / 5+5|k|",
				Input: k, Impl: fmt.Sprintf("%d %d", len(name), len(jn)), Model: rep, Broken: "mapForkDir_length_exact / journal_forkpart_length"})
			continue
		}
		err := os.Mkdir(path.Join(dir, name), 0o755)
		fitsModel := len(name) <= 255
		if (err == nil) != fitsModel {
			r.violate(Violation{Kind: "correspondence", Key: "C11:name-max-mismatch", What: "mkdir of a fork directory name succeeds / fails differently from the model's NAME_MAX = 255",
				Input: map[string]interface{}{"key": k, "dir_name_len": len(name)}, Impl: fmt.Sprint(err), Model: fmt.Sprintf("fits=%v", fitsModel), Broken: "mapForkDir_fits / mapForkDir_exceeds_name_max"})
		}
		if err == nil {
			os.Remove(path.Join(dir, name))
			r.hist("keylen_dir_fits")
		} else {
			r.hist("keylen_dir_too_long")
		}
	}
}

// c11LongKeys: families of LONG map keys (100-400 bytes) with equal prefixes and suffixes that differ only
// in the middle, ASCII and non-ASCII: the real makeKeySafe / fork id / journal name against the model
// (the model is injective at every length: pathEscape_injective, forkName_injective), and the forks of
// one family must get pairwise distinct directories and journal names on the real code.
func c11LongKeys(c *Ctx) {
	r := c.Res
	nfam := 12
	if c.Thorough {
		nfam = 200
	}
	units := []string{"a", "ab", "é", "日本", "/", ".", "%", " ", "x_", "\xff"}
	for fi := 0; fi < nfam; fi++ {
		u1, u2 := units[c.Rng.Intn(len(units))], units[c.Rng.Intn(len(units))]
		pre := c11taRep(u1, (40+c.Rng.Intn(160))/len(u1))
		suf := c11taRep(u2, (20+c.Rng.Intn(120))/len(u2))
		mids := []string{"", "X", "Y", "XY", "YX", ".", "/", "%", "~", "é", u1, u2, c11taRep("m", 1+c.Rng.Intn(40)), c11taRep("m", 41+c.Rng.Intn(40)), "_", "1", "0"}
		seen := map[string]bool{}
		var keys []string
		for _, m := range mids {
			k := pre + m + suf
			if !seen[k] {
				seen[k] = true
				keys = append(keys, k)
			}
		}
		var reqs [][]string
		var forks []c11Fork
		for _, k := range keys {
			ps := []c11Part{{Kind: "map", Key: k, Keys: keys, Static: c.Rng.Intn(2) == 0}}
			reqs = append(reqs, []string{"C11.esc", hx(k)}, []string{"C11.forkid", c11EncodeParts(ps)})
			id, ok, e := c11ForkId(ps)
			if !ok {
				r.note("long keys: ForkIdString failed: %s", e)
				continue
			}
			forks = append(forks, c11Fork{ps, id})
		}
		reps := c.Drv.AskBatch(reqs)
		for i, k := range keys {
			r.count("longkey:"+k, true)
			r.hist("long_keys")
			safe := core.VerifMakeKeySafe(k)
			id, _, _ := c11ForkId([]c11Part{{Kind: "map", Key: k, Keys: keys, Static: true}})
			if hx(safe) != reps[2*i] || "some "+hx(id) != reps[2*i+1] {
				r.violate(Violation{Kind: "correspondence", Key: "C11:long-key-model-mismatch", What: "makeKeySafe / the fork id of a long map key differs from the model (pathEscape, forkIdString)",
					Input: map[string]interface{}{"key": k, "key_len": len(k)}, Impl: map[string]string{"safe": safe, "fork_id": id},
					Model: map[string]string{"safe": unhx(reps[2*i]), "fork_id": unhx(strings.TrimPrefix(reps[2*i+1], "some "))}, Broken: "correspondence C11.esc / C11.forkid (pathEscape_injective, forkName_injective)"})
			}
		}
		c11CheckDistinct(c, forks, "long-keys")
	}
}

func c11taNoDollar(ks []string) []string {
	var out []string
	for _, k := range ks {
		if !strings.Contains(k, "$") {
			out = append(out, k)
		}
	}
	return out
}
