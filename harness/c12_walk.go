package main

// C12 — "threshold walk" stream for the real ResourceSemaphore.
//
// The PRNG sequences of c12.go use limits 1..40 and absolute amounts.  This
// stream draws the limit from a wide range (small, 10^3..10^6, around powers
// of two and multiples of 64), draws amounts relative to the limit, and chooses
// the next op from the REAL semaphore's state (CurrentSize / Reserved / the
// blocked callers) so that availability updates through all three entry points
// (UpdateActual / UpdateSize / UpdateFreeUsed, both branches) land just below,
// exactly at and just above the point where the oldest waiter starts to fit,
// move by small deltas (+-1, +-2, +-limit/1000, +-limit/64 -+ 1), shrink and
// grow back to the same value, and repeat identical observations.  Every call is
// followed by quiescence, the monitors of semRunner.do and — at the end — the
// comparison of every intermediate state with Martian.Semaphore.step.
//
// The calls actually made (semExec.Eff) form a plain op sequence: anything
// reportable is re-executed from that fixed sequence alone and shrunk by
// reportSem like a sequence of the other streams.

import (
	"fmt"
	"math/rand"
	"strconv"
	"time"
)

// c12WalkSize: the limit of a walk sequence.
func c12WalkSize(rng *rand.Rand) (int64, string) {
	switch rng.Intn(10) {
	case 0:
		return int64(1 + rng.Intn(70)), "small(1..70)"
	case 1:
		return int64(64 * (1 + rng.Intn(40))), "multiple-of-64"
	case 2:
		return int64(64*(1+rng.Intn(300))) + int64(rng.Intn(5)-2), "multiple-of-64+-2"
	case 3, 4:
		p := int64(1) << uint(6+rng.Intn(15)) // 64 .. 2^20
		return p + int64(rng.Intn(5)-2), "power-of-two+-2"
	case 5:
		return int64(1000 * (1 + rng.Intn(1000))), "k*1000"
	case 6:
		// what the job manager uses: centi-cores, MB of memory
		if rng.Intn(2) == 0 {
			return int64(100 * (1 + rng.Intn(128))), "centicores"
		}
		return int64(1024 * (1 + rng.Intn(512))), "memory-MB"
	default:
		lo := []int64{100, 1000, 10000, 100000}[rng.Intn(4)]
		return lo + rng.Int63n(9*lo+1), "10^2..10^6"
	}
}

// c12SmallDelta: a small step relative to the limit (always >= 1).
func c12SmallDelta(rng *rand.Rand, size int64) int64 {
	var d int64
	switch rng.Intn(12) {
	case 0, 1, 2:
		d = 1
	case 3:
		d = 2
	case 4:
		d = 3
	case 5:
		d = size / 1000
	case 6:
		d = size/64 - 1
	case 7:
		d = size / 64
	case 8:
		d = size/64 + 1
	case 9:
		d = size / 128
	case 10:
		d = size / 100
	default:
		d = 1 + rng.Int63n(size/16+1)
	}
	if d < 1 {
		d = 1
	}
	return d
}

type semWalker struct {
	run    *semRunner
	rng    *rand.Rand
	size   int64
	client bool
	maxOps int
	nextId int
	last   *semOp // the last availability update made
	hist   map[string]int
}

func (w *semWalker) full() bool { return len(w.run.ex.Eff) >= w.maxOps || w.run.ex.Stalled }

func (w *semWalker) do(op semOp) {
	if w.full() {
		return
	}
	if op.Kind == "ua" || op.Kind == "us" || op.Kind == "uf" {
		o := op
		w.last = &o
		w.hist["walk_update_"+op.Kind]++
	}
	w.run.do(op)
}

// setCur makes an availability update, through a PRNG-chosen entry point, that
// asks the semaphore for the current size `target` (given the reservations of
// this moment).
func (w *semWalker) setCur(target int64) {
	sem, rng := w.run.sem, w.rng
	res := sem.Reserved()
	max := w.size
	if w.client && target > max {
		target = max
	}
	surplus := int64(0) // observations above the limit are clamped to it
	if target == max && rng.Intn(2) == 0 {
		surplus = c12SmallDelta(rng, w.size)
	}
	for try := 0; try < 4; try++ {
		switch rng.Intn(4) {
		case 0:
			w.do(semOp{Kind: "us", N: target})
			return
		case 1:
			if target <= max {
				w.do(semOp{Kind: "ua", N: target - res + surplus})
				return
			}
		case 2:
			if target <= max && res >= 0 {
				used := rng.Int63n(res + 1)
				if rng.Intn(3) == 0 {
					used = res
				}
				w.do(semOp{Kind: "uf", N: target - used + surplus, M: used})
				return
			}
		case 3:
			// more in use than reserved (adjust = used - reserved >= 1):
			// cur = max-adjust when free+used > max-adjust, else free+used-adjust
			room := max - target
			if room >= 2 && rng.Intn(2) == 0 {
				// below the cap: cur = free + reserved; needs target+adj <= max-adj
				adj := 1 + rng.Int63n(room/2)
				if rng.Intn(2) == 0 {
					adj = c12Min(adj, c12SmallDelta(rng, w.size))
				}
				w.do(semOp{Kind: "uf", N: target - res, M: res + adj})
				return
			} else if room >= 1 {
				// at the cap: adjust = max - target, any free+used above the cap
				free := target - res - room + 1
				if rng.Intn(2) == 0 {
					free += c12SmallDelta(rng, w.size)
				}
				w.do(semOp{Kind: "uf", N: free, M: res + room})
				return
			}
		}
	}
	w.do(semOp{Kind: "us", N: target})
}

func (w *semWalker) acquire(n int64) {
	if w.client && n < 0 {
		n = 0
	}
	w.do(semOp{Kind: "a", Id: w.nextId, N: n})
	w.nextId++
}

func (w *semWalker) amount() int64 {
	rng, size := w.rng, w.size
	avail := w.run.sem.Available()
	switch rng.Intn(14) {
	case 0:
		return 0
	case 1:
		return size
	case 2:
		return size - c12SmallDelta(rng, size)
	case 3:
		return size + c12SmallDelta(rng, size) // refused, or granted when the raw stream raised the size
	case 4:
		return size / 2
	case 5:
		return size/2 + 1
	case 6:
		return c12SmallDelta(rng, size)
	case 7:
		return avail
	case 8:
		return avail + c12SmallDelta(rng, size)
	case 9:
		return avail - c12SmallDelta(rng, size)
	case 10:
		return size / 3
	default:
		return rng.Int63n(size + 1)
	}
}

func (w *semWalker) release() {
	rng := w.rng
	if w.client {
		if len(w.run.held) == 0 {
			return
		}
		// choose among holders in id order (map order must not matter)
		ids := make([]int, 0, len(w.run.held))
		for id := 1; id < w.nextId; id++ {
			if _, ok := w.run.held[id]; ok {
				ids = append(ids, id)
			}
		}
		w.do(semOp{Kind: "r", Id: ids[rng.Intn(len(ids))]})
		return
	}
	res := w.run.sem.Reserved()
	switch rng.Intn(4) {
	case 0:
		w.do(semOp{Kind: "r", N: c12SmallDelta(rng, w.size)})
	case 1:
		w.do(semOp{Kind: "r", N: res})
	default:
		if res > 0 {
			w.do(semOp{Kind: "r", N: 1 + rng.Int63n(res)})
		} else {
			w.do(semOp{Kind: "r", N: 0})
		}
	}
}

func (w *semWalker) repeatLast() {
	if w.last != nil {
		w.hist["walk_repeated_observation"]++
		w.run.do(*w.last) // the same observation again (not recorded as a new `last`)
	}
}

// makeWaiter: lower the availability a little and ask for a bit more than is left.
func (w *semWalker) makeWaiter() {
	sem, rng := w.run.sem, w.rng
	cur, res := sem.CurrentSize(), sem.Reserved()
	if len(w.run.pending) > 0 {
		return
	}
	if rng.Intn(3) != 0 {
		d := c12SmallDelta(rng, w.size)
		if rng.Intn(4) == 0 {
			d = 1 + rng.Int63n(w.size)
		}
		t := cur - d
		if w.client && t < 0 {
			t = 0
		}
		w.setCur(t)
		cur = sem.CurrentSize()
	}
	avail := cur - res
	if avail < 0 {
		avail = 0
	}
	n := avail + c12SmallDelta(rng, w.size)
	if rng.Intn(3) == 0 && w.size > avail {
		n = w.size // needs the whole limit (clamped / adaptive request)
	}
	if n > w.size {
		n = w.size
	}
	w.acquire(n)
}

// thresholdWalk: move the availability in small steps from below the point
// where the oldest waiter fits to above it.
func (w *semWalker) thresholdWalk() {
	sem, rng := w.run.sem, w.rng
	if len(w.run.pending) == 0 {
		w.makeWaiter()
	}
	if len(w.run.pending) == 0 || w.full() {
		return
	}
	w.hist["walk_threshold_walks"]++
	head := w.run.pending[0]
	for try := 0; try < 2 && sem.Reserved()+head.n > w.size && !w.full(); try++ {
		w.release() // the head cannot fit whatever the environment reports: somebody has to finish
		if len(w.run.pending) == 0 || w.run.pending[0].id != head.id {
			return
		}
	}
	T := sem.Reserved() + head.n // smallest size with which the head fits
	off := -c12SmallDelta(rng, w.size)
	if rng.Intn(3) == 0 {
		off = -1
	}
	if rng.Intn(6) == 0 {
		// start wherever the size is now
		off = sem.CurrentSize() - T
		if off > 0 {
			off = -1
		}
	}
	for steps := 0; steps < 8 && !w.full(); steps++ {
		granted := len(w.run.pending) == 0 || w.run.pending[0].id != head.id
		if !granted {
			// the reservations may have moved
			T = sem.Reserved() + head.n
		}
		w.setCur(T + off)
		switch {
		case off < 0:
			w.hist["walk_update_just_below_fit"]++
		case off == 0:
			w.hist["walk_update_exactly_fit"]++
		default:
			w.hist["walk_update_above_fit"]++
		}
		if rng.Intn(4) == 0 {
			w.repeatLast()
		}
		if granted || off > 0 {
			break
		}
		step := int64(1)
		switch rng.Intn(5) {
		case 0:
			step = 2
		case 1:
			step = c12SmallDelta(rng, w.size)
		case 2:
			step = -off // straight to the exact fit
		}
		if off < 0 && off+step > 0 && rng.Intn(2) == 0 {
			step = -off
		}
		off += step
	}
}

// dipAndRecover: shrink by a small amount, perhaps queue something that needs
// what was taken away, grow back to the same value (possibly in two steps).
func (w *semWalker) dipAndRecover() {
	sem, rng := w.run.sem, w.rng
	w.hist["walk_dip_and_recover"]++
	c0 := sem.CurrentSize()
	if rng.Intn(3) == 0 && c0 != w.size {
		w.setCur(w.size)
		c0 = sem.CurrentSize()
	}
	d := c12SmallDelta(rng, w.size)
	t := c0 - d
	if w.client && t < 0 {
		t = 0
	}
	w.setCur(t)
	if rng.Intn(4) != 0 {
		a0 := sem.Available()
		if a0 < 0 {
			a0 = 0
		}
		// something in (available now, available before the dip]
		n := a0 + 1 + rng.Int63n(d)
		if rng.Intn(3) == 0 {
			n = a0 + d
		}
		if n > w.size {
			n = w.size
		}
		w.acquire(n)
	}
	if rng.Intn(4) == 0 {
		w.repeatLast()
	}
	if rng.Intn(3) == 0 && d > 1 {
		w.setCur(c0 - d + d/2)
	}
	w.setCur(c0)
	for rng.Intn(3) == 0 && !w.full() {
		w.repeatLast()
	}
}

// c12Walk generates and executes one sequence.
func c12Walk(rng *rand.Rand, size int64, maxOps int, client bool, hist map[string]int) semExec {
	w := &semWalker{run: newSemRunner(size, client, maxOps+8), rng: rng, size: size, client: client,
		maxOps: maxOps, nextId: 1, hist: hist}
	for !w.full() {
		switch k := rng.Intn(100); {
		case k < 22:
			w.acquire(w.amount())
		case k < 40:
			w.release()
		case k < 65:
			w.thresholdWalk()
		case k < 82:
			w.dipAndRecover()
		case k < 88:
			w.repeatLast()
		case k < 94:
			// back to the limit (the environment recovered)
			w.setCur(w.size)
		default:
			// an arbitrary observation
			t := rng.Int63n(size + 1)
			if !client && rng.Intn(3) == 0 {
				t = size + c12SmallDelta(rng, size)
			}
			w.setCur(t)
		}
	}
	return w.run.finish()
}

// runC12Walk: the stream. n sequences; the first third of the run is spent on
// generation+execution, the model is asked in batches.
func runC12Walk(c *Ctx, n int, budget time.Duration, reported map[string]int) {
	r := c.Res
	if msg := c12WalkSelfTest(); msg != "" {
		r.note("threshold-walk generator self-test (every generated update asks for the size it aims at): %s", msg)
	}
	t0 := time.Now()
	const chunk = 250
	done := 0
	for lo := 0; lo < n; lo += chunk {
		if time.Since(t0) > budget {
			r.note("ResourceSemaphore threshold-walk stream: time budget %v used up after %d of %d sequences", budget, lo, n)
			break
		}
		hi := lo + chunk
		if hi > n {
			hi = n
		}
		var cases []semCase
		var exs []semExec
		var reqs [][]string
		for i := lo; i < hi; i++ {
			size, class := c12WalkSize(c.Rng)
			client := c.Rng.Intn(5) != 0
			ln := 8 + c.Rng.Intn(33)
			ex := c12Walk(c.Rng, size, ln, client, r.Histogram)
			r.hist("walk_limit_" + class)
			if client {
				r.hist("walk_client_sequences")
			} else {
				r.hist("walk_raw_sequences")
			}
			cases = append(cases, semCase{size, ex.Eff, client})
			exs = append(exs, ex)
			reqs = append(reqs, []string{"C12.sem", strconv.FormatInt(size, 10), semOpsString(ex.Eff)})
		}
		reps := c.Drv.AskBatch(reqs)
		for i, sc := range cases {
			c12Account(c, sc, exs[i], reps[i], lo+i, 397, reported)
			done++
		}
	}
	r.Histogram["walk_sequences"] += done
}

func c12WalkSelfTest() string {
	// the generator's entry-point arithmetic: every setCur must produce the size it was asked for
	rng := rand.New(rand.NewSource(7))
	for i := 0; i < 400; i++ {
		size, _ := c12WalkSize(rng)
		w := &semWalker{run: newSemRunner(size, true, 64), rng: rng, size: size, client: true, maxOps: 40, nextId: 1, hist: map[string]int{}}
		w.acquire(rng.Int63n(size + 1))
		for k := 0; k < 6; k++ {
			t := rng.Int63n(size + 1)
			w.setCur(t)
			if got := w.run.sem.CurrentSize(); got != t {
				ex := w.run.finish()
				return fmt.Sprintf("setCur(%d) on limit %d gave CurrentSize()=%d after %s", t, size, got, semOpsString(ex.Eff))
			}
		}
		w.run.finish()
	}
	return ""
}
