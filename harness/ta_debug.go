package main

import (
	"encoding/json"
	"fmt"
	"os"
	"strconv"
	"strings"
	"time"
)

// TA: debugging entry point: run one MRO file (env TA_MRO) under Tier A and dump the history.
// TA_CRASH=comma separated event numbers; TA_FAULT=jobkey:kind; TA_VDR=mode; TA_TRACE=file to write the Sched trace.
func init() {
	register("TA", func(c *Ctx) {
		src, err := os.ReadFile(os.Getenv("TA_MRO"))
		if err != nil {
			fatal("%v", err)
		}
		opts := TAOpts{VdrMode: os.Getenv("TA_VDR"), StepBias: 0.4, StartSeparate: 0.3, CrashSurvive: 0.3,
			MroPaths: []string{os.Getenv("TA_MROPATH")}}
		if s := os.Getenv("TA_CRASH"); s != "" {
			opts.CrashAt = map[int]bool{}
			for _, x := range strings.Split(s, ",") {
				n, _ := strconv.Atoi(x)
				opts.CrashAt[n] = true
			}
		}
		if s := os.Getenv("TA_FAULT"); s != "" {
			i := strings.LastIndex(s, ":")
			opts.Faults = []*Fault{{JobKey: s[:i], Kind: s[i+1:]}}
		}
		run, err := NewTARun(string(src), c.Scratch, c.Seed, opts)
		if err != nil {
			fatal("%v", err)
		}
		defer run.Close()
		run.Run()
		if os.Getenv("TA_QUIET") == "" {
			for _, e := range run.Events {
				b, _ := json.Marshal(e)
				fmt.Fprintln(os.Stderr, string(b))
			}
		}
		if f := os.Getenv("TA_TRACE"); f != "" {
			os.WriteFile(f, []byte(strings.Join(run.Tracer.Lines, "\n")+"\n"), 0o644)
		}
		if run.Final != "complete" {
			fmt.Fprintln(os.Stderr, "class:", classifyRuntimeError(run.Final, run.ErrMsg))
		}
		outs, err := run.TopOuts()
		fmt.Fprintln(os.Stderr, "final:", run.Final, run.ErrMsg, "outs:", string(outs), err, "events:", len(run.Events), "trace lines:", len(run.Tracer.Lines))
	})
}

// GEN: generator statistics: compile acceptance, error categories, Tier-A outcomes.
func init() {
	register("GEN", func(c *Ctx) {
		n := 200
		if s := os.Getenv("GEN_N"); s != "" {
			n, _ = strconv.Atoi(s)
		}
		accepted, finals, errs := 0, map[string]int{}, map[string]int{}
		stats := map[string]int{}
		for i := 0; i < n; i++ {
			src, st := GenProgram(c.Rng, GenOpts{Files: os.Getenv("GEN_FILES") != ""})
			if only := os.Getenv("GEN_ONLY"); only != "" && only != fmt.Sprint(i) {
				continue
			}
			os.WriteFile("/tmp/gen_last.mro", []byte(src), 0o644)
			if os.Getenv("GEN_PROGRESS") != "" {
				fmt.Fprintln(os.Stderr, "program", i)
			}
			run, err := NewTARun(src, c.Scratch, c.Seed+int64(i), TAOpts{StepBias: 0.4, StartSeparate: 0.3, VdrMode: os.Getenv("TA_VDR")})
			if err != nil {
				msg := err.Error()
				if len(msg) > 160 {
					msg = msg[:160]
				}
				errs[msg]++
				if os.Getenv("GEN_SHOW") != "" && errs[msg] == 1 {
					fmt.Fprintln(os.Stderr, "=====", msg, "\n", src)
				}
				continue
			}
			accepted++
			for k, v := range st {
				stats[k] += v
			}
			run.RunTimed(20 * time.Second)
			finals[strings.SplitN(run.Final, " goroutine", 2)[0]]++
			if run.Final == "hang" {
				os.WriteFile(fmt.Sprintf("/tmp/hang_%d.mro", i), []byte(src), 0o644)
				os.WriteFile(fmt.Sprintf("/tmp/hang_%d.txt", i), []byte(run.ErrMsg), 0o644)
				continue
			}
			if strings.HasPrefix(run.Final, "panic") || run.Final == "stall" {
				os.WriteFile(fmt.Sprintf("/tmp/bad_%s_%d.mro", run.Final[:5], i), []byte(src), 0o644)
			}
			if run.Final != "complete" && os.Getenv("GEN_SHOWFAIL") != "" && finals[run.Final] <= 2 {
				fmt.Fprintln(os.Stderr, "===== final", run.Final, run.ErrMsg, "\n", src)
			}
			run.Close()
		}
		fmt.Fprintln(os.Stderr, "accepted", accepted, "of", n, "finals", finals)
		fmt.Fprintln(os.Stderr, "stats", stats)
		for k, v := range errs {
			fmt.Fprintln(os.Stderr, v, k)
		}
	})
}

// SHRINK: minimise TA_MRO keeping the final outcome's prefix TA_KEEP (e.g. "panic").
func init() {
	register("SHRINK", func(c *Ctx) {
		src, err := os.ReadFile(os.Getenv("TA_MRO"))
		if err != nil {
			fatal("%v", err)
		}
		keep := os.Getenv("TA_KEEP")
		pred := func(s string) bool {
			run, err := NewTARun(s, c.Scratch, c.Seed, TAOpts{StepBias: 0.4, StartSeparate: 0.3, VdrMode: os.Getenv("TA_VDR")})
			if err != nil {
				return false
			}
			defer run.Close()
			run.Run()
			return strings.HasPrefix(run.Final, keep)
		}
		if !pred(string(src)) {
			fatal("original does not satisfy predicate")
		}
		out := shrinkLines(string(src), pred, 3000)
		fmt.Fprintln(os.Stderr, out)
	})
}

// GENP: like GEN but through isolated parallel workers.
func init() {
	register("GENP", func(c *Ctx) {
		n := 200
		if s := os.Getenv("GEN_N"); s != "" {
			n, _ = strconv.Atoi(s)
		}
		var specs []*TASpec
		for i := 0; i < n; i++ {
			src, _ := GenProgram(c.Rng, GenOpts{Files: os.Getenv("GEN_FILES") != ""})
			spec := &TASpec{Name: fmt.Sprint("gen", i), Src: src, Seed: c.Seed + int64(i), StepBias: 0.4, StartSeparate: 0.3,
				VdrMode: os.Getenv("TA_VDR"), TimeoutS: 20}
			if os.Getenv("GEN_CRASH") != "" {
				spec.CrashAt = []int{5 + c.Rng.Intn(30), 40 + c.Rng.Intn(40)}
				spec.CrashSurvive = 0.3
			}
			specs = append(specs, spec)
		}
		finals := map[string]int{}
		os.MkdirAll("/tmp/genp", 0o755)
		for _, r := range RunSpecs(specs, 12) {
			f := strings.SplitN(r.Final, " goroutine", 2)[0]
			if r.Final == "compile-error" {
				f = "compile-error"
			}
			finals[f]++
			if f != "complete" && f != "compile-error" && f != "failed" {
				tag := strings.Map(func(r rune) rune {
					if r >= 'a' && r <= 'z' || r >= '0' && r <= '9' {
						return r
					}
					return '_'
				}, f)
				if len(tag) > 30 {
					tag = tag[:30]
				}
				os.WriteFile(fmt.Sprintf("/tmp/genp/%s_%d_%d.mro", tag, c.Seed, r.Index), []byte(specs[r.Index].Src), 0o644)
			}
			if f == "failed" && os.Getenv("GEN_SHOWFAIL") != "" {
				fmt.Fprintln(os.Stderr, "failed:", r.ErrMsg)
			}
		}
		fmt.Fprintln(os.Stderr, "finals", finals)
	})
}

// TB: debugging entry point for Tier B: run TA_MRO (with `src comp "fake"` stages) under real mrp/mrjob.
// TB_SIGNALS=INT@300,KILL@200  TB_FAULT=jobkey:kind  TA_VDR=mode
func init() {
	register("TB", func(c *Ctx) {
		src, err := os.ReadFile(os.Getenv("TA_MRO"))
		if err != nil {
			fatal("%v", err)
		}
		env, err := tbSetup(c)
		if err != nil {
			fatal("%v", err)
		}
		spec := &TBSpec{Name: "dbg", Src: string(src), Cores: 4, MemGB: 4, Vdr: os.Getenv("TA_VDR"), Strict: "error"}
		spec.Control.SleepMs = [2]int{20, 120}
		for _, s := range strings.Split(os.Getenv("TB_SIGNALS"), ",") {
			if i := strings.Index(s, "@"); i > 0 {
				ms, _ := strconv.Atoi(s[i+1:])
				spec.Signals = append(spec.Signals, TBSignal{AfterMs: ms, Sig: s[:i]})
			}
		}
		if s := os.Getenv("TB_FAULT"); s != "" {
			i := strings.LastIndex(s, ":")
			spec.Control.Faults = map[string]tbFault{s[:i]: {Kind: s[i+1:], Once: true}}
		}
		res := env.Run(spec, c.Rng)
		for i, inc := range res.Incs {
			fmt.Fprintf(os.Stderr, "incarnation %d: exit=%d signal=%s lock_left=%v timeout=%v\n", i, inc.ExitCode, inc.Signal, inc.LockLeft, inc.TimedOut)
			if os.Getenv("TA_QUIET") == "" {
				fmt.Fprintln(os.Stderr, inc.Output)
			}
		}
		for _, iv := range tbIntervals(res.Log) {
			fmt.Fprintf(os.Stderr, "%s %d..%d thr=%g mem=%g %s\n", iv.Job, iv.Start%1e10/1e6, iv.End%1e10/1e6, iv.Threads, iv.MemGB, iv.Outcome)
		}
		fmt.Fprintln(os.Stderr, "final:", res.Final, "outs:", string(res.TopOuts))
	})
}

// TBC: run the Tier-B checks (C05, C06, C12 parts) once.
func init() {
	register("TBC", func(c *Ctx) {
		c.Res.Histogram = map[string]int{}
		env, err := tbSetup(c)
		if err != nil {
			fatal("%v", err)
		}
		which := os.Getenv("TBC")
		if which == "" || strings.Contains(which, "12") {
			tbC12(c, env, 4)
		}
		if which == "" || strings.Contains(which, "05") {
			tbC05(c, env, 2)
		}
		if which == "" || strings.Contains(which, "06") {
			tbC06(c, env, 2)
		}
	})
}

// C01R: re-run the spec of a C01 replay file (env C01_REPLAY) and print the recorded jobs.
func init() {
	register("C01R", func(c *Ctx) {
		b, err := os.ReadFile(os.Getenv("C01_REPLAY"))
		if err != nil {
			fatal("%v", err)
		}
		var d struct {
			Violation struct {
				Input struct {
					Spec TASpec `json:"spec"`
				} `json:"input"`
			} `json:"violation"`
		}
		if err := json.Unmarshal(b, &d); err != nil {
			fatal("%v", err)
		}
		res := c01RunSpec(&d.Violation.Input.Spec, c.Scratch)
		for _, j := range res.Jobs {
			fmt.Fprintln(os.Stderr, j.Fqname, j.Shell, j.Outcome, len(j.Outs))
		}
		obs, an := c01Obs(res)
		fmt.Fprintln(os.Stderr, "final:", res.Final, "anomalies:", an, "obs bytes:", len(obs))
	})
}
