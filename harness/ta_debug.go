package main

import (
	"encoding/json"
	"fmt"
	"os"
	"strconv"
	"strings"
)

// TA: debugging entry point: run one MRO file (env TA_MRO) under Tier A and dump the history.
// TA_CRASH=comma separated event numbers; TA_FAULT=jobkey:kind; TA_VDR=mode; TA_TRACE=file to write the Sched trace.
func init() {
	register("TA", func(c *Ctx) {
		src, err := os.ReadFile(os.Getenv("TA_MRO"))
		if err != nil {
			fatal("%v", err)
		}
		opts := TAOpts{VdrMode: os.Getenv("TA_VDR"), StepBias: 0.4, StartSeparate: 0.3, CrashSurvive: 0.3,
			MroPaths: []string{os.Getenv("TA_MROPATH")}}
		if s := os.Getenv("TA_CRASH"); s != "" {
			opts.CrashAt = map[int]bool{}
			for _, x := range strings.Split(s, ",") {
				n, _ := strconv.Atoi(x)
				opts.CrashAt[n] = true
			}
		}
		if s := os.Getenv("TA_FAULT"); s != "" {
			i := strings.LastIndex(s, ":")
			opts.Faults = []*Fault{{JobKey: s[:i], Kind: s[i+1:]}}
		}
		run, err := NewTARun(string(src), c.Scratch, c.Seed, opts)
		if err != nil {
			fatal("%v", err)
		}
		defer run.Close()
		run.Run()
		if os.Getenv("TA_QUIET") == "" {
			for _, e := range run.Events {
				b, _ := json.Marshal(e)
				fmt.Fprintln(os.Stderr, string(b))
			}
		}
		if f := os.Getenv("TA_TRACE"); f != "" {
			os.WriteFile(f, []byte(strings.Join(run.Tracer.Lines, "\n")+"\n"), 0o644)
		}
		outs, err := run.TopOuts()
		fmt.Fprintln(os.Stderr, "final:", run.Final, run.ErrMsg, "outs:", string(outs), err, "events:", len(run.Events), "trace lines:", len(run.Tracer.Lines))
	})
}
