package main

// C13, top-level calls mapped over a typed map with ADVERSARIAL fork keys.
//
// The step from a fork key to its directory under outs/ happens inside
// Fork.postProcess (not inside moveOutFiles), so this stream runs the real
// Fork.postProcess (verif hook VerifInstantiateTop / PostProcess) of a freshly
// instantiated `map call TOP(x = split {<keys>})` on a per-key `_outs` record
// built here, and compares the rewritten record and the complete file tree
// with the Lean model (postMap, joinKey), in the order in which the real code
// visited the keys (read off its console log: Go map iteration order).
//
// Independent of the model, the monitor checks per key and file leaf:
//   * strict: the leaf is readable at outs/<key>/<derived name> with the
//     content produced FOR THAT KEY and the recorded value points at it
//     (c13Mon.walk, as for every other stream);
//   * own location: the recorded value of a moved file is a path strictly
//     below outs/, not a symlink, holding that key's content, and no two
//     (key, leaf) pairs are recorded at the same location.
// A failure on a key set whose directories are separable (pairwise
// incomparable, all below outs/, representable as directory names) is a
// violation (C13:mapped-materialise); on the other key sets it is the known
// finding C13:mapped-key-dirs-overlap.

import (
	"encoding/json"
	"fmt"
	"math/rand"
	"os"
	"path"
	"path/filepath"
	"sort"
	"strings"
	"unicode/utf8"

	"github.com/martian-lang/martian/martian/core"
	"github.com/martian-lang/martian/martian/syntax"
	"github.com/martian-lang/martian/martian/util"
)

type c13CapLog struct{ sb strings.Builder }

func (c *c13CapLog) Write(b []byte) (int, error)       { return c.sb.Write(b) }
func (c *c13CapLog) WriteString(s string) (int, error) { return c.sb.WriteString(s) }

// c13ForkOrder: the keys in the order of the `Fork "<key>":` lines of the console log.
func c13ForkOrder(log string, keys []string) ([]string, bool) {
	want := map[string]bool{}
	for _, k := range keys {
		want[k] = true
	}
	var order []string
	seen := map[string]bool{}
	for _, l := range strings.Split(log, "\n") {
		if strings.HasPrefix(l, "Fork \"") && strings.HasSuffix(l, "\":") {
			k := l[len("Fork \"") : len(l)-2]
			if want[k] && !seen[k] {
				seen[k] = true
				order = append(order, k)
			}
		}
	}
	return order, len(order) == len(keys)
}

// ---- key sets ----

var c13KeyAtoms = []string{"a", "b", "A", "lib", "x", "k1", "outs", "é", "x y", "s1", "0", "00"}
var c13KeyPunct = []string{"/", "_", ".", "-", "%2F", " "}

// c13LegalKey: the harness's own reading of "usable as ONE directory name".
func c13LegalKey(k string) bool {
	return k != "" && k != "." && k != ".." && len(k) <= 255 && !strings.ContainsAny(k, "/\x00")
}

// c13GenKeySet draws 1–5 distinct fork keys.  outNames: output file names of the
// signature (keys equal to them / containing them provoke collisions between a
// key's directory and another key's output).
func c13GenKeySet(rng *rand.Rand, outNames []string, mroSafe bool) ([]string, []string) {
	tags := map[string]bool{}
	atom := func() string {
		if len(outNames) > 0 && rng.Intn(5) == 0 {
			tags["key-is-output-name"] = true
			return outNames[rng.Intn(len(outNames))]
		}
		return c13KeyAtoms[rng.Intn(len(c13KeyAtoms))]
	}
	legal := func() string {
		a := atom()
		switch rng.Intn(12) {
		case 0:
			tags["dot-affix"] = true
			return a + "."
		case 1:
			tags["dot-affix"] = true
			return "." + a
		case 2:
			tags["dot-affix"] = true
			return ".." + a
		case 3:
			return a + "_" + atom()
		case 4:
			tags["case-variant"] = true
			if strings.ToUpper(a) != a {
				return strings.ToUpper(a)
			}
			return strings.ToLower(a)
		case 5:
			tags["long-legal"] = true
			return a + strings.Repeat("x", 180+rng.Intn(70))
		case 6:
			tags["non-ascii"] = true
			return a + "ü€"
		}
		return a
	}
	unclean := func() string {
		a := atom()
		switch rng.Intn(16) {
		case 0:
			return a + "/" + atom()
		case 1:
			return a + "/"
		case 2:
			return "/" + a
		case 3:
			return a + "//" + atom()
		case 4:
			return "./" + a
		case 5:
			return a + "/."
		case 6:
			return atom() + "/../" + a
		case 7:
			return ""
		case 8:
			return "."
		case 9:
			return ".."
		case 10:
			return "../" + a
		case 11:
			return a + "/" + atom() + "/" + atom()
		case 12:
			if !mroSafe {
				tags["nul"] = true
				return a + "\x00" + atom()
			}
			return a + "/" + atom()
		case 13:
			tags["too-long"] = true
			return a + strings.Repeat("y", 260+rng.Intn(40))
		case 14:
			return "../outs/" + a
		}
		return a + "/" + atom()
	}
	// a sibling that differs from k in one punctuation mark (confusable under any
	// character-replacing / prefixing normalisation of keys)
	sibling := func(k string) string {
		var pos []int
		var at []string
		for _, p := range c13KeyPunct {
			for i := 0; i+len(p) <= len(k); i++ {
				if k[i:i+len(p)] == p {
					pos = append(pos, i)
					at = append(at, p)
				}
			}
		}
		if len(pos) == 0 || rng.Intn(4) == 0 {
			switch rng.Intn(4) {
			case 0:
				return "_" + k
			case 1:
				return k + "_"
			case 2:
				return k + "/"
			}
			return "_." + k
		}
		i := rng.Intn(len(pos))
		q := c13KeyPunct[rng.Intn(len(c13KeyPunct))]
		return k[:pos[i]] + q + k[pos[i]+len(at[i]):]
	}
	n := 1 + rng.Intn(5)
	mode := rng.Intn(10)
	var keys []string
	have := map[string]bool{}
	add := func(k string) {
		if !have[k] && utf8.ValidString(k) {
			have[k] = true
			keys = append(keys, k)
		}
	}
	for tries := 0; len(keys) < n && tries < 40; tries++ {
		switch {
		case mode < 3: // legal names only
			add(legal())
		case mode < 6: // keys with punctuation and their one-mark siblings
			var k string
			if rng.Intn(2) == 0 {
				k = unclean()
			} else {
				k = legal()
			}
			add(k)
			if len(keys) < n {
				tags["sibling"] = true
				add(sibling(k))
			}
		case mode < 8: // prefixes of each other
			a, b, c := atom(), atom(), atom()
			tags["prefix-chain"] = true
			for _, k := range []string{a, a + "/" + b, a + "_" + b, a + "/" + b + "/" + c, a + b} {
				if len(keys) < n {
					add(k)
				}
			}
		default:
			if rng.Intn(2) == 0 {
				add(unclean())
			} else {
				add(legal())
			}
		}
	}
	if len(keys) == 0 {
		keys = []string{"k"}
	}
	for _, k := range keys {
		if !c13LegalKey(k) {
			tags["not-a-file-name"] = true
		}
		if strings.Contains(k, "/") {
			tags["slash"] = true
		}
	}
	var ts []string
	for t := range tags {
		ts = append(ts, t)
	}
	sort.Strings(ts)
	return keys, ts
}

// c13KeyDirsGo: path.Join(outs, key) per key, and the class of the key set:
// "separable" | "overlap" (two keys share a directory or one is nested in another's) |
// "escape" (a directory not at or below outs/) | "unrepresentable" (NUL, a component over 255 bytes).
func c13KeyDirsGo(outsRoot string, keys []string) ([]string, string) {
	dirs := make([]string, len(keys))
	class := "separable"
	for i, k := range keys {
		dirs[i] = path.Join(outsRoot, k)
	}
	for i, k := range keys {
		if strings.Contains(k, "\x00") {
			return dirs, "unrepresentable"
		}
		for _, comp := range strings.Split(k, "/") {
			if len(comp) > 255 {
				return dirs, "unrepresentable"
			}
		}
		if dirs[i] != outsRoot && !strings.HasPrefix(dirs[i], outsRoot+"/") {
			class = "escape"
		}
	}
	if class != "separable" {
		return dirs, class
	}
	for i := range dirs {
		for j := range dirs {
			if i != j && (dirs[i] == dirs[j] || strings.HasPrefix(dirs[j], dirs[i]+"/")) {
				return dirs, "overlap"
			}
		}
	}
	return dirs, class
}

// c13CheckKeyDirs: the model's joinKey / keysSeparable / legalName against path.Join and the
// harness's own classification.
func c13CheckKeyDirs(c *Ctx, r *Result, outsRoot string, keys []string, dirs []string, class string) bool {
	var sb strings.Builder
	fmt.Fprintf(&sb, "%d", len(keys))
	for _, k := range keys {
		sb.WriteString(" " + hx(k))
	}
	reply := c.Drv.Ask("C13.keydirs", hx(outsRoot), sb.String())
	parts := strings.Split(reply, "\t")
	if len(parts) != 2 {
		r.violate(Violation{Kind: "correspondence", Key: "C13:driver", What: "keydirs reply: " + c13Short(reply), Input: keys, Broken: "driver"})
		return false
	}
	c.Res.hist("hyp:keysSeparable:" + parts[0])
	ents := strings.Split(parts[1], ",")
	ok := len(ents) == len(keys)
	var md []string
	for i := range ents {
		f := strings.SplitN(ents[i], ":", 2)
		d := unhx(f[0])
		md = append(md, d)
		if !ok || len(f) != 2 || d != dirs[i] || (f[1] == "true") != c13LegalKey(keys[i]) {
			ok = false
		}
	}
	// the model knows nothing of NUL / NAME_MAX: compare separability only on representable sets
	if ok && class != "unrepresentable" && (parts[0] == "true") != (class == "separable") {
		ok = false
	}
	if !ok {
		r.violate(Violation{Kind: "correspondence", Key: "C13:keydirs", Broken: "mapped_key_dir_legal / joinKey = path.Join / keysSeparable",
			What:  "the model's per-key directories, legality or separability differ from path.Join / the harness's classification",
			Input: map[string]interface{}{"keys": keys, "outs": outsRoot}, Impl: map[string]interface{}{"dirs": dirs, "class": class}, Model: map[string]interface{}{"dirs": md, "separable": parts[0]}})
	}
	return ok
}

// c13MappedOwnLocation: the model-free "location of its own" check over all forks of a mapped call.
func c13MappedOwnLocation(params []c13Member, mon *c13Mon, preJ, postJ *c13J, psDir string) {
	outsRoot := filepath.Join(psDir, "outs")
	at := map[string]string{}
	if preJ.K != 'O' || postJ == nil || postJ.K != 'O' {
		return
	}
	for i, k := range preJ.Keys {
		post := postJ.get(k)
		if post == nil {
			mon.failf("fork %q: record missing from the rewritten outputs", k)
			continue
		}
		c13OwnLocationRecord(fmt.Sprintf("fork %q ", k), params, mon, preJ.Vals[i], post, outsRoot, at)
	}
}

// c13OwnLocationRecord: for one record - every file leaf that was a regular file / directory
// inside the pipestance, named by exactly one leaf, is recorded at a path strictly below outs/
// which is not a symlink, holds the content that leaf had, and is shared with no other leaf
// (`at`: locations taken so far).  Does not prescribe WHICH path.
func c13OwnLocationRecord(label string, params []c13Member, mon *c13Mon, pre, post *c13J, outsRoot string, at map[string]string) {
	psDir := mon.psDir
	for _, p := range params {
		var walk func(where string, mem c13Member, a, b *c13J)
		walk = func(where string, mem c13Member, a, b *c13J) {
			if a == nil || b == nil || a.K == 'n' || !mem.Ty.hasFile() {
				return
			}
			switch mem.Ty.Kind {
			case "f":
				if a.K != 'q' || mon.pre[a.S] == "" || mon.kind[a.S] != "reg" || mon.occ[a.S] != 1 ||
					!strings.Contains(filepath.Clean(a.S), psDir) {
					return
				}
				if b.K != 'q' {
					return // reported by the strict walk
				}
				who := label + where
				if !strings.HasPrefix(b.S, outsRoot+"/") {
					mon.failf("%s: not materialised under outs/: recorded at %s", who, b.S)
					return
				}
				if other, dup := at[b.S]; dup {
					mon.failf("%s: recorded at the same location as %s: %s", who, other, b.S)
				}
				at[b.S] = who
				if info, err := os.Lstat(b.S); err != nil {
					mon.failf("%s: nothing at the recorded location %s", who, b.S)
				} else if info.Mode()&os.ModeSymlink != 0 {
					mon.failf("%s: the recorded location %s is a symlink, not the file", who, b.S)
				} else if got := c13SigOf(b.S, 0); got != mon.pre[a.S] {
					mon.failf("%s: %s holds %q, not the content this leaf had (%s)", who, b.S, c13Short(got), c13Short(mon.pre[a.S]))
				}
			case "a":
				if a.K != 'A' || b.K != 'A' || len(a.Arr) != len(b.Arr) {
					return
				}
				et := mem.Ty.Elem
				if mem.Ty.Extra > 0 {
					et = &c13Ty{Kind: "a", Elem: mem.Ty.Elem, Extra: mem.Ty.Extra - 1}
				}
				for i := range a.Arr {
					walk(fmt.Sprintf("%s[%d]", where, i), c13Member{Id: c13Pad(i, len(a.Arr)), Ty: et}, a.Arr[i], b.Arr[i])
				}
			case "m":
				if a.K != 'O' || b.K != 'O' {
					return
				}
				for i, kk := range a.Keys {
					walk(where+"."+kk, c13Member{Id: kk, Ty: mem.Ty.Elem}, a.Vals[i], b.get(kk))
				}
			case "t":
				if a.K != 'O' || b.K != 'O' {
					return
				}
				for _, mm := range mem.Ty.Ms {
					walk(where+"."+mm.Id, mm, a.get(mm.Id), b.get(mm.Id))
				}
			}
		}
		walk(p.Id, p, pre.get(p.Id), post.get(p.Id))
	}
}

// c13ForkDirThroughSymlink: after post-processing, is a fork directory or one of its ancestors
// below outs/ a symlink (an aliased / symlinked output of a fork whose directory contains this
// one)?  The real code then writes THROUGH that link; resolution of symlinked intermediate
// directories is not modelled.
func c13ForkDirThroughSymlink(after c13Tree, outsRoot string, dirs []string) bool {
	for _, d := range dirs {
		for p := d; len(p) > len(outsRoot) && strings.HasPrefix(p, outsRoot+"/"); p = filepath.Dir(p) {
			if v := after[p]; strings.HasPrefix(v, "L") {
				return true
			}
		}
	}
	return false
}

// c13BelowSymlink: does one of the trees hold an entry strictly below a path that is a symlink in
// either of them (the real code wrote through a symlinked output of an overlapping fork; the
// model, which does not resolve intermediate links, put the entries below the link itself)?
func c13BelowSymlink(real, model c13Tree) bool {
	isLink := func(p string) bool {
		return strings.HasPrefix(real[p], "L") || strings.HasPrefix(model[p], "L")
	}
	for _, t := range []c13Tree{real, model} {
		for p := range t {
			for a := filepath.Dir(p); a != "/" && a != "."; a = filepath.Dir(a) {
				if isLink(a) {
					return true
				}
			}
		}
	}
	return false
}

// c13CheckRefused: the model's refusedKeys (and the regenerated "the key check is there") against
// the harness's own reading of "not a legal file name".
func c13CheckRefused(c *Ctx, r *Result, keys, illegal []string) {
	var sb strings.Builder
	fmt.Fprintf(&sb, "%d", len(keys))
	for _, k := range keys {
		sb.WriteString(" " + hx(k))
	}
	parts := strings.Split(c.Drv.Ask("C13.refused", sb.String()), "\t")
	want := "."
	if len(illegal) > 0 {
		hs := make([]string, len(illegal))
		for i, k := range illegal {
			hs[i] = hx(k)
		}
		want = strings.Join(hs, ",")
	}
	got := ""
	if len(parts) == 2 {
		got = parts[1]
		if got == "" {
			got = "."
		}
	}
	if len(parts) != 2 || got != want {
		r.violate(Violation{Kind: "correspondence", Key: "C13:refused-keys", Broken: "mapped_illegal_key_is_refused (refusedKeys / legalName)",
			What: "the model's refused fork keys differ from the harness's reading of IsLegalUnixFilename", Input: keys, Model: got, Expect: want})
	}
}

func c13MappedKey(class string) string {
	if class == "separable" {
		return "C13:mapped-materialise"
	}
	return "C13:mapped-key-dirs-overlap"
}

// mroKeys: the program of mro("map", viaInner) with the given fork keys in the split literal.
func (s *c13Sig) mroKeys(viaInner bool, keys []string) string {
	src := s.mro("map", viaInner)
	var lit strings.Builder
	for i, k := range keys {
		var kb strings.Builder
		enc := json.NewEncoder(&kb)
		enc.SetEscapeHTML(false)
		enc.Encode(k)
		fmt.Fprintf(&lit, "        %s: %d,\n", strings.TrimSpace(kb.String()), i+1)
	}
	return strings.Replace(src, c13DefaultKeyLit, lit.String(), 1)
}

const c13DefaultKeyLit = "        \"k1\": 1,\n        \"b\": 2,\n"

// c13ReplaceKeys: the split literal of a program generated with mapped = "map", with other fork keys.
func c13ReplaceKeys(src string, keys []string) string {
	var lit strings.Builder
	for i, k := range keys {
		var kb strings.Builder
		enc := json.NewEncoder(&kb)
		enc.SetEscapeHTML(false)
		enc.Encode(k)
		fmt.Fprintf(&lit, "        %s: %d,\n", strings.TrimSpace(kb.String()), i+1)
	}
	return strings.Replace(src, c13DefaultKeyLit, lit.String(), 1)
}

// c13OutNamesOfSrc: output file names of TOP's file-typed parameters.
func c13OutNamesOfSrc(src string) []string {
	_, _, ast, err := syntax.ParseSourceBytes([]byte(src), "c13.mro", nil, false)
	if err != nil || ast.Callables.Table["TOP"] == nil {
		return nil
	}
	var names []string
	for _, p := range c13ParamsFromSyntax(&ast.TypeTable, ast.Callables.Table["TOP"].GetOutParams()) {
		if p.Ty.hasFile() {
			names = append(names, p.expectName())
		}
	}
	return names
}

type c13MappedCase struct {
	Name   string      `json:"name"`
	Keys   []string    `json:"keys"`
	Order  []string    `json:"visited_in_order"`
	Class  string      `json:"key_class"`
	Dirs   []string    `json:"path_join_dirs"`
	Mro    string      `json:"mro"`
	Params []c13Member `json:"params"`
	Outs   string      `json:"outs_json"`
	Tags   []string    `json:"tags"`
	Seed   int64       `json:"mapped_seed"`
	Fixed  bool        `json:"fixed_case,omitempty"`
}

// c13DirectMapped runs one case.  fixedKeys/fixedSig: a replay of a named witness.
func c13DirectMapped(c *Ctx, r *Result, idx int, seed int64, fixedKeys []string, fixedSig *c13Sig, name string) {
	c13DirectMappedX(c, r, idx, seed, fixedKeys, fixedSig, name, false)
}

// shrinking: this is a re-execution with a subset of the keys of a failing case (same signature).
func c13DirectMappedX(c *Ctx, r *Result, idx int, seed int64, fixedKeys []string, fixedSig *c13Sig, name string, shrinking bool) {
	rng := rand.New(rand.NewSource(seed))
	var sig *c13Sig
	if fixedSig != nil {
		sig = fixedSig
	} else if idx%3 == 0 {
		sig = c13GenSmallSig(rng, 9)
	} else {
		sig = c13GenSig(rng, false)
	}
	var outNames []string
	for _, p := range sig.Params {
		if p.Ty.hasFile() {
			outNames = append(outNames, p.expectName())
		}
	}
	keys, ktags := fixedKeys, []string{"fixed"}
	if keys == nil || shrinking {
		// (when shrinking, the key set is drawn as in the original run to keep the value stream aligned)
		keys, ktags = c13GenKeySet(rng, outNames, false)
		if shrinking {
			keys, ktags = fixedKeys, append(ktags, "shrunk")
		}
	}
	root := filepath.Join(c13Scratch(c), fmt.Sprintf("m%d", idx))
	ps := filepath.Join(root, "ps")
	outsRoot := filepath.Join(ps, "outs")
	os.MkdirAll(ps, 0o755)
	defer os.RemoveAll(root)
	dirs, class := c13KeyDirsGo(outsRoot, keys)
	r.hist("mapped:class:" + class)
	for _, t := range ktags {
		r.hist("mapped:keys:" + t)
	}
	c13CheckKeyDirs(c, r, outsRoot, keys, dirs, class)
	// Since the F24 repair a fork key that is not a legal file name is REFUSED (error, record entry
	// unchanged, nothing moved); distinct legal keys are always separable.
	var illegal []string
	for _, k := range keys {
		if !c13LegalKey(k) {
			illegal = append(illegal, k)
		}
	}
	if len(illegal) > 0 {
		r.hist("mapped:has-illegal-key")
	}
	c13CheckRefused(c, r, keys, illegal)
	class = "separable"

	src := sig.mroKeys(idx%4 == 1, keys)
	top, err := core.VerifInstantiateTop([]byte(src), ps)
	if err != nil {
		// keys the MRO front end does not take as a literal: the call over placeholder keys
		// (Fork.postProcess reads the keys from the record, not from the call)
		ph := make([]string, len(keys))
		for i := range ph {
			ph[i] = fmt.Sprintf("p%d", i)
		}
		src = sig.mroKeys(idx%4 == 1, ph)
		os.RemoveAll(ps)
		os.MkdirAll(ps, 0o755)
		top, err = core.VerifInstantiateTop([]byte(src), ps)
		r.hist("mapped:placeholder-keys-in-call")
		if err != nil {
			r.hist("mapped:instantiate-error")
			r.note("mapped: instantiate: %s", c13Short(err.Error()))
			return
		}
	}
	_, _, ast, aerr := syntax.ParseSourceBytes([]byte(src), "c13.mro", nil, false)
	if aerr != nil || ast.Callables.Table["TOP"] == nil {
		r.note("mapped: the compiler rejects what the runtime instantiated: %v", aerr)
		return
	}
	params := c13ParamsFromSyntax(&ast.TypeTable, ast.Callables.Table["TOP"].GetOutParams())
	g := &c13ValGen{rng: rng, root: root, ext: filepath.Join(root, "ext"), tags: map[string]bool{}, budget: 18, plainOnly: fixedKeys != nil && !shrinking}
	os.MkdirAll(g.ext, 0o755)
	outs := &c13J{K: 'O'}
	for i, k := range keys {
		g.files = filepath.Join(ps, "TOP", "MK", fmt.Sprintf("fork%d", i), "files")
		os.MkdirAll(g.files, 0o755)
		g.leaves, g.dirs = nil, nil
		if g.budget < 4 {
			g.budget = 4
		}
		rec := &c13J{K: 'O'}
		for _, p := range params {
			rec.Keys = append(rec.Keys, p.Id)
			rec.Vals = append(rec.Vals, g.value(p.Ty, p.Id))
		}
		outs.Keys = append(outs.Keys, k)
		outs.Vals = append(outs.Vals, rec)
	}
	if wf, _, ok := c13Hyp(c, ps, outsRoot, params, outs.Vals[0], "0"); ok {
		r.hist(fmt.Sprintf("mapped:hyp:wfParams:%v", wf))
		if !wf {
			r.violate(Violation{Kind: "correspondence", Key: "C13:hypothesis-fails-on-covered-run", Broken: "dest_injective_mapped (hypothesis wfParams)",
				What: "wfParams is false for a signature the compiler accepted", Input: src})
		}
	}
	cs := &c13Contents{}
	mon := newC13Mon(ps)
	c13RecordLeaves("map", outs, params, mon)
	if err := top.WriteOuts([]byte(outs.String())); err != nil {
		r.note("mapped: writing _outs: %v", err)
		return
	}
	extBefore := c13Snapshot([]string{g.ext}, cs, nil)
	before := c13Snapshot([]string{root}, cs, c13SkipMeta)
	lg := &c13CapLog{}
	util.SetPrintLogger(lg)
	panicked := ""
	var perr error
	func() {
		defer func() {
			if e := recover(); e != nil {
				panicked = fmt.Sprint(e)
			}
		}()
		perr = top.PostProcess()
	}()
	util.SetPrintLogger(devNullLogger{})
	if dbg := os.Getenv("C13_MAPPED_CASE"); dbg != "" && dbg != "all" {
		fmt.Fprintf(os.Stderr, "keys %q\nerr: %v\nlog:\n%s\n", keys, perr, lg.sb.String())
	}
	after := c13Snapshot([]string{root}, cs, c13SkipMeta)
	raw, _ := top.ReadOuts()
	order, orderOk := c13ForkOrder(lg.sb.String(), keys)
	var tags []string
	for t := range g.tags {
		tags = append(tags, t)
	}
	sort.Strings(tags)
	strip := func(s string) string { return strings.ReplaceAll(s, root, "$ROOT") }
	cas := c13MappedCase{Name: fmt.Sprintf("mapped-%d", idx), Keys: keys, Order: order, Class: class, Mro: src, Params: params,
		Outs: strip(outs.String()), Tags: append(tags, ktags...), Seed: seed, Fixed: fixedKeys != nil}
	for _, d := range dirs {
		cas.Dirs = append(cas.Dirs, strip(d))
	}
	if name != "" {
		cas.Name = name
	}
	r.count("mapped:"+strings.Join(keys, "\x01")+"|"+src+"|"+cas.Outs, len(mon.pre) > 0)
	if panicked != "" {
		r.violate(Violation{Kind: "property", Key: "C13:panic", What: "Fork.postProcess panicked: " + panicked, Input: cas})
		return
	}
	if perr != nil {
		r.hist("mapped:go-returned-error:" + class)
	}
	// ---- monitor ----
	post, jerr := c13ParseJSON(raw)
	if jerr != nil {
		r.violate(Violation{Kind: "property", Key: "C13:invalid-json", What: "top-level _outs is not valid JSON after Fork.postProcess: " + jerr.Error(),
			Input: cas, Impl: strip(string(raw))})
		return
	}
	if d := c13TreeDiff(extBefore, c13Snapshot([]string{g.ext}, cs, nil), []string{g.ext}); len(d) > 0 {
		for i := range d {
			d[i] = strip(d[i]) + " (model = after)"
		}
		key, what := "C13:outside-touched", "something outside the pipestance was modified by post-processing"
		if class != "separable" {
			// a fork directory nested in another fork's output that is a symlink to an external directory
			key, what = c13MappedKey(class), "fork directories overlap and one fork's outputs were written THROUGH another fork's symlinked output into a directory outside the pipestance"
		}
		r.violate(Violation{Kind: "property", Key: key, What: what, Input: cas, Impl: d})
	}
	legalPre, legalPost := &c13J{K: 'O'}, &c13J{K: 'O'}
	for i, k := range outs.Keys {
		if c13LegalKey(k) {
			legalPre.Keys, legalPre.Vals = append(legalPre.Keys, k), append(legalPre.Vals, outs.Vals[i])
			if pv := post.get(k); pv != nil {
				legalPost.Keys, legalPost.Vals = append(legalPost.Keys, k), append(legalPost.Vals, pv)
			}
		}
	}
	c13WalkRecords("map", params, mon, legalPre, legalPost, ps)
	own := newC13Mon(ps)
	own.pre, own.kind, own.occ = mon.pre, mon.kind, mon.occ
	c13MappedOwnLocation(params, own, legalPre, legalPost, ps)
	// ---- refused keys: never silent, entry unchanged, nothing moved, nothing outside outs/ ----
	onlyKeyErrs := perr != nil
	if perr != nil {
		for _, l := range strings.Split(perr.Error(), "\n") {
			if strings.TrimSpace(l) != "" && !strings.Contains(l, "cannot create out directory for fork") {
				onlyKeyErrs = false
			}
		}
	}
	{
		var ifails []string
		for _, k := range illegal {
			if perr == nil || !strings.Contains(perr.Error(), fmt.Sprintf("%q", k)) {
				ifails = append(ifails, fmt.Sprintf("fork key %q is not a legal file name but no error naming it was returned", k))
			}
			if pv := post.get(k); pv == nil || pv.canon() != outs.get(k).canon() {
				ifails = append(ifails, fmt.Sprintf("fork key %q: the record entry of a refused fork was changed or dropped", k))
			}
			for _, p := range params {
				c13Leaves(p, outs.get(k).get(p.Id), func(_ c13Member, v *c13J) {
					if v.K == 'q' && mon.pre[v.S] != "" && mon.occ[v.S] == 1 {
						if info, err := os.Lstat(v.S); err != nil || (mon.kind[v.S] == "reg" && info.Mode()&os.ModeSymlink != 0) || c13SigOf(v.S, 0) != mon.pre[v.S] {
							ifails = append(ifails, fmt.Sprintf("fork key %q: the file %s of a refused fork was moved or changed", k, strip(v.S)))
						}
					}
				})
			}
		}
		for p := range after {
			if _, was := before[p]; !was && p != outsRoot && !strings.HasPrefix(p, outsRoot+"/") {
				ifails = append(ifails, "created outside outs/: "+strip(p))
			}
		}
		if len(ifails) > 0 {
			if len(ifails) > 6 {
				ifails = ifails[:6]
			}
			r.violate(Violation{Kind: "property", Key: "C13:mapped-illegal-key", What: "top-level call mapped over a typed map, fork keys that are not legal file names: " + strings.Join(ifails, "; "),
				Input: cas, Impl: strip(string(compactJSON(raw))),
				Expect: "an error naming every such key; its record entry unchanged; its files left in place; nothing created outside outs/ (mapped_illegal_key_is_refused, mapped_nothing_outside_outs)"})
		}
	}
	if len(mon.fails)+len(own.fails) > 0 {
		key := c13MappedKey(class)
		if class == "separable" && len(own.fails) > 0 {
			// the model-free reading fails: a fork's file was not moved below outs/ or shares its location
			key = "C13:mapped-fork-not-at-own-location"
		}
		fails := append(append([]string{}, own.fails...), mon.fails...)
		for i := range fails {
			fails[i] = strip(fails[i])
		}
		what := "outputs of a top-level call mapped over a typed map not materialised faithfully"
		if perr != nil {
			what += " (Fork.postProcess returned an error: " + c13Short(strip(perr.Error())) + ")"
		} else {
			what += " (no error was reported)"
		}
		v := Violation{Kind: "property", Key: key, What: what + ": " + strings.Join(fails, "; "),
			Input: cas, Impl: strip(string(compactJSON(raw))),
			Expect: "every non-null file leaf of every fork key readable under outs/<key>/<derived name>, recorded at a location of its own below outs/ with the content produced for that key"}
		if class == "separable" && !shrinking && fixedKeys == nil && len(keys) > 1 {
			// shrink: the same signature with one key or one pair of keys
			var subsets [][]string
			for _, k := range keys {
				subsets = append(subsets, []string{k})
			}
			for i := range keys {
				for j := i + 1; j < len(keys); j++ {
					subsets = append(subsets, []string{keys[i], keys[j]})
				}
			}
			for j, sub := range subsets {
				if _, cl := c13KeyDirsGo(outsRoot, sub); cl != "separable" {
					continue
				}
				tmp := &Result{}
				c13DirectMappedX(c, tmp, 2000000+idx*100+j, seed, sub, sig, fmt.Sprintf("mapped-%d-shrunk", idx), true)
				shrunk := false
				for _, tv := range tmp.Violations {
					if tv.Key == key {
						v = tv
						shrunk = true
						r.hist("mapped:shrunk-to-" + fmt.Sprint(len(sub)) + "-keys")
						break
					}
				}
				if shrunk {
					break
				}
			}
		}
		r.violate(v)
	}
	if len(mon.alias) > 0 {
		r.hist("mapped:alias-value-points-at-other-output")
	}
	// ---- model ----
	if perr != nil && class != "separable" {
		// mkdir failures (ENOTDIR below another key's file, EINVAL, ENAMETOOLONG) are not modelled
		r.hist("mapped:model-skipped-syscall-error")
		return
	}
	if class != "separable" && c13ForkDirThroughSymlink(after, outsRoot, dirs) {
		r.hist("mapped:model-skipped-symlinked-fork-dir")
		return
	}
	if !orderOk {
		r.hist("mapped:visit-order-unreadable")
		if class != "separable" {
			return
		}
		order = keys
	}
	ordered := &c13J{K: 'O'}
	for _, k := range order {
		ordered.Keys = append(ordered.Keys, k)
		ordered.Vals = append(ordered.Vals, outs.get(k))
	}
	reply := c.Drv.Ask("C13.run", "m", "g", hx(ps), hx(outsRoot), c13EncParams(params), ordered.encStr(), before.enc(c13Ancestors(root)))
	parts := strings.Split(reply, "\t")
	if len(parts) != 2 {
		r.violate(Violation{Kind: "correspondence", Key: "C13:driver", What: "driver reply: " + c13Short(reply), Input: cas, Broken: "driver"})
		return
	}
	if class != "separable" && c13BelowSymlink(after, c13ParseTree(parts[1])) {
		r.hist("mapped:model-skipped-symlinked-fork-dir")
		return
	}
	mj, merr := c13ParseJSON([]byte(unhx(parts[0])))
	if perr != nil && !onlyKeyErrs {
		// the record is not rewritten when an element could not be serialised; the tree is still compared
	} else if merr != nil || mj.canon() != post.canon() {
		r.violate(Violation{Kind: "correspondence", Key: "C13:model-json-mapped", Broken: "correspondence postMap / joinKey (rewritten _outs)",
			What: "rewritten top-level _outs of a call mapped over a typed map differs between the real Fork.postProcess and the model", Input: cas,
			Impl: strip(string(compactJSON(raw))), Model: strip(unhx(parts[0]))})
	}
	if d := c13TreeDiff(after, c13ParseTree(parts[1]), []string{root}); len(d) > 0 && (perr == nil || onlyKeyErrs) {
		if len(d) > 8 {
			d = d[:8]
		}
		for i := range d {
			d[i] = strip(d[i])
		}
		r.violate(Violation{Kind: "correspondence", Key: "C13:model-tree-mapped", Broken: "correspondence postMap / joinKey (file tree)",
			What: "file tree after Fork.postProcess of a call mapped over a typed map differs between the real code and the model", Input: cas, Impl: d})
	}
	// ---- content_preserved_mapped: hypotheses evaluated by the driver; where they hold the real
	// record must be the promised one (the tree is compared with the model above) ----
	{
		fsEnc := before.enc(c13Ancestors(root))
		var w, nd, cl string
		var nl int
		reply := c.Drv.Ask("C13.hypm", hx(ps), hx(outsRoot), c13EncParams(params), outs.encStr(), fsEnc)
		if _, err := fmt.Sscanf(reply, "wf=%s nodup=%s clean=%s leaves=%d", &w, &nd, &cl, &nl); err != nil {
			r.violate(Violation{Kind: "correspondence", Key: "C13:driver", What: "hypm reply: " + c13Short(reply), Input: cas, Broken: "driver"})
		} else {
			r.hist("mapped:hyp:cleanMapped:" + cl)
			covered := true
			for t := range g.tags {
				if !c13CoveredTags[t] {
					covered = false
				}
			}
			if covered {
				r.hist("mapped:hyp:covered-run:clean=" + cl)
			}
			if w != "true" || nd != "true" || (covered && cl != "true") {
				r.violate(Violation{Kind: "correspondence", Key: "C13:hypothesis-fails-on-covered-run", Broken: "content_preserved_mapped (hypotheses wfParams, distinct keys, Clean over the legal forks)",
					What:  fmt.Sprintf("a hypothesis of content_preserved_mapped fails on a run it is said to cover: %s", reply),
					Input: cas})
			}
			if w == "true" && nd == "true" && cl == "true" && (perr == nil || onlyKeyErrs) {
				r.hist("mapped:content-preserved-mapped:checked")
				xr := strings.Split(c.Drv.Ask("C13.run", "mx", "g", hx(ps), hx(outsRoot), c13EncParams(params), outs.encStr(), fsEnc), "\t")
				xj, xerr := c13ParseJSON([]byte(unhx(xr[0])))
				if len(xr) != 2 || xerr != nil || xj.canon() != post.canon() {
					r.violate(Violation{Kind: "correspondence", Key: "C13:model-record-half-mapped", Broken: "content_preserved_mapped (expectedMapped)",
						What:  "the hypotheses of content_preserved_mapped hold, but the real rewritten record is not the promised one",
						Input: cas, Impl: strip(string(compactJSON(raw))), Model: strip(unhx(xr[0]))})
				}
			}
		}
	}
	if idx%150 == 0 {
		r.sample(map[string]interface{}{"mapped": cas.Keys, "class": class, "order": order, "result": strip(string(compactJSON(raw)))})
	}
}

// c13MappedWitnesses runs the key sets of the negative-witness theorems of Props.C13 (code before
// the F24 repair) on the real code: with the repair the keys `a/`, `..`, `a/b`, `` must be refused
// with an error (monitor C13:mapped-illegal-key inside c13DirectMapped), `a`, `b`, `x` materialised.
func c13MappedWitnesses(c *Ctx, r *Result) {
	sig := &c13Sig{Filetypes: c13UserTypes, Params: []c13Member{{Id: "r", Ty: &c13Ty{Kind: "f", Mro: "file"}}}}
	for i, ks := range [][]string{{"a", "a/"}, {".."}, {"a", "a/b", "b"}, {"", "x"}} {
		c13DirectMapped(c, r, 900000+i, int64(7+i), ks, sig, "witness-"+strings.Join(ks, ","))
		r.hist("mapped:witness-keys-run")
	}
}

func c13MappedStream(c *Ctx, r *Result) {
	if dbg := os.Getenv("C13_MAPPED_CASE"); dbg != "" && dbg != "all" {
		// replay of one case: C13_MAPPED_CASE=<idx>:<mapped_seed>
		var idx int
		var seed int64
		fmt.Sscanf(dbg, "%d:%d", &idx, &seed)
		c13DirectMapped(c, r, idx, seed, nil, nil, "")
		return
	}
	c13MappedWitnesses(c, r)
	n := 500
	if c.Thorough {
		n = 6000
	}
	for i := 0; i < n; i++ {
		c13DirectMapped(c, r, i, c.Rng.Int63(), nil, nil, "")
	}
}

// mroCollect: stage MK with the signature's outputs, called once per key of a map input; the
// struct of its outputs, per key, is the single top-level output `res : map<COLLECTED>`.
func (s *c13Sig) mroCollect(keys []string) string {
	var sb strings.Builder
	for _, f := range s.Filetypes {
		sb.WriteString("filetype " + f + ";\n")
	}
	sb.WriteString("\n")
	for _, st := range s.Structs {
		sb.WriteString("struct " + st.Mro + "(\n")
		for _, m := range st.Ms {
			sb.WriteString(c13MroMember(m, ""))
		}
		sb.WriteString(")\n\n")
	}
	sb.WriteString("struct COLLECTED(\n")
	for _, p := range s.Params {
		sb.WriteString(c13MroMember(p, ""))
	}
	sb.WriteString(")\n\nstage MK(\n    in int x,\n")
	for _, p := range s.Params {
		sb.WriteString(c13MroMember(p, "out "))
	}
	sb.WriteString("    src comp \"x\",\n)\n\npipeline TOP(\n    in map<int> xs,\n    out map<COLLECTED> res,\n)\n{\n    map call MK(\n        x = split self.xs,\n    )\n\n    return (\n        res = MK,\n    )\n}\n\ncall TOP(\n    xs = {\n")
	for i, k := range keys {
		var kb strings.Builder
		enc := json.NewEncoder(&kb)
		enc.SetEscapeHTML(false)
		enc.Encode(k)
		fmt.Fprintf(&sb, "        %s: %d,\n", strings.TrimSpace(kb.String()), i+1)
	}
	sb.WriteString("    },\n)\n")
	return sb.String()
}
