package main

// C01 program family: nested run-time-disabled pipelines around sibling calls
// that have their own, different, run-time `disabled` flags.
//
//	TOP { F0; call P1 using (disabled = F0.flag) }
//	P1  { F1; call P2 using (disabled = F1.flag) } … (depth 1..8)
//	Pd  { G1..Gk; call/map call WORK as Sj(…) using (disabled = Gj.flag), j = 1..k }
//
// The flags are produced at run time by ECHO stages (their first output is
// their first input: see the OutsHook in c01_worker.go), so every combination
// of true / false is reachable on purpose instead of by luck of the fake
// stage outputs.  Variants: plain sibling calls, sibling map calls over a
// static array, the innermost pipeline mapped over a run-time array, and one
// enclosing level disabled.  The random generator (gen_mro.go) never nests
// more than two run-time-disabled pipelines around such siblings.

import (
	"fmt"
	"math/rand"
	"strings"
)

const c01FamilyStages = `stage ECHOFLAG(
    in  bool want,
    out bool flag,
    src comp "fake",
)

stage ECHOINTS(
    in  int[] want,
    out int[] vals,
    src comp  "fake",
)

stage WORK(
    in  int  x,
    out int  y,
    src comp "fake",
)

stage ECHOMAP(
    in  map<int> want,
    out map<int> vals,
    src comp     "fake",
)

stage ECHOINTSS(
    in  int[][] want,
    out int[][] vals,
    src comp    "fake",
)

stage ECHOMAPS(
    in  map<int[]> want,
    out map<int[]> vals,
    src comp       "fake",
)

stage ECHOMAPARR(
    in  map<int>[] want,
    out map<int>[] vals,
    src comp       "fake",
)

stage ECHOFLAGS(
    in  bool[] want,
    out bool[] flags,
    src comp   "fake",
)

stage ECHOFLAGMAP(
    in  map<bool> want,
    out map<bool> flags,
    src comp      "fake",
)

`

// variant: 0 plain siblings, 1 sibling map calls (static array), 2 innermost
// pipeline mapped over a run-time array
func c01DisableProgram(depth, k int, mask uint, variant int, trueLevel int) string {
	var sb strings.Builder
	sb.WriteString(c01FamilyStages)
	inner := "int"
	if variant == 1 {
		inner = "int[]"
	}
	outer := inner // type of o_j above the innermost pipeline
	if variant == 2 {
		outer = inner + "[]"
	}
	outs := func(t string) string {
		var o strings.Builder
		for j := 1; j <= k; j++ {
			fmt.Fprintf(&o, "    out %s o%d,\n", t, j)
		}
		return o.String()
	}
	// innermost pipeline P<depth>
	// variant 3: the siblings' own flags are produced at the top level and handed down as pipeline
	// inputs, so a sibling's own condition and the enclosing conditions come from unrelated producers
	gins := func() string {
		if variant != 3 {
			return ""
		}
		var o strings.Builder
		for j := 1; j <= k; j++ {
			fmt.Fprintf(&o, "    in  bool g%d,\n", j)
		}
		return o.String()
	}
	gpass := func(top bool) string {
		if variant != 3 {
			return ""
		}
		var o strings.Builder
		for j := 1; j <= k; j++ {
			if top {
				fmt.Fprintf(&o, "        g%d = G%d.flag,\n", j, j)
			} else {
				fmt.Fprintf(&o, "        g%d = self.g%d,\n", j, j)
			}
		}
		return o.String()
	}
	fmt.Fprintf(&sb, "pipeline P%d(\n    in  int v,\n%s%s)\n{\n", depth, gins(), outs(inner))
	for j := 1; j <= k && variant != 3; j++ {
		fmt.Fprintf(&sb, "    call ECHOFLAG as G%d(\n        want = %v,\n    )\n\n", j, mask&(1<<uint(j-1)) != 0)
	}
	for j := 1; j <= k; j++ {
		if variant == 3 {
			fmt.Fprintf(&sb, "    call WORK as S%d(\n        x = self.v,\n    ) using (\n        disabled = self.g%d,\n    )\n\n", j, j)
		} else if variant == 1 {
			fmt.Fprintf(&sb, "    map call WORK as S%d(\n        x = split [self.v, %d],\n    ) using (\n        disabled = G%d.flag,\n    )\n\n", j, 10+j, j)
		} else {
			fmt.Fprintf(&sb, "    call WORK as S%d(\n        x = self.v,\n    ) using (\n        disabled = G%d.flag,\n    )\n\n", j, j)
		}
	}
	sb.WriteString("    return (\n")
	for j := 1; j <= k; j++ {
		fmt.Fprintf(&sb, "        o%d = S%d.y,\n", j, j)
	}
	sb.WriteString("    )\n}\n\n")
	// enclosing levels P<depth-1> … P1, then TOP (= level 0)
	for lvl := depth - 1; lvl >= 0; lvl-- {
		name := fmt.Sprintf("P%d", lvl)
		if lvl == 0 {
			name = "TOP"
		}
		if lvl == 0 {
			fmt.Fprintf(&sb, "pipeline %s(\n    in  int v,\n%s)\n{\n", name, outs(outer))
			for j := 1; j <= k && variant == 3; j++ {
				fmt.Fprintf(&sb, "    call ECHOFLAG as G%d(\n        want = %v,\n    )\n\n", j, mask&(1<<uint(j-1)) != 0)
			}
		} else {
			fmt.Fprintf(&sb, "pipeline %s(\n    in  int v,\n%s%s)\n{\n", name, gins(), outs(outer))
		}
		fmt.Fprintf(&sb, "    call ECHOFLAG as F%d(\n        want = %v,\n    )\n\n", lvl, lvl == trueLevel)
		if variant == 2 && lvl == depth-1 {
			fmt.Fprintf(&sb, "    call ECHOINTS as VS(\n        want = [self.v, 5],\n    )\n\n")
			fmt.Fprintf(&sb, "    map call P%d(\n        v = split VS.vals,\n    ) using (\n        disabled = F%d.flag,\n    )\n\n", lvl+1, lvl)
		} else {
			fmt.Fprintf(&sb, "    call P%d(\n        v = self.v,\n%s    ) using (\n        disabled = F%d.flag,\n    )\n\n", lvl+1, gpass(lvl == 0), lvl)
		}
		sb.WriteString("    return (\n")
		for j := 1; j <= k; j++ {
			fmt.Fprintf(&sb, "        o%d = P%d.o%d,\n", j, lvl+1, j)
		}
		sb.WriteString("    )\n}\n\n")
	}
	sb.WriteString("call TOP(\n    v = 3,\n)\n")
	return sb.String()
}

// c01DisableFamily: every nesting depth 1..8, with random sibling counts, flag
// masks and variants; plus the all-false / mixed masks for the plain variant.
func c01DisableFamily(rng *rand.Rand, thorough bool) []c01Case {
	var out []c01Case
	add := func(depth, k int, mask uint, variant, trueLevel int) {
		out = append(out, c01Case{
			name:  fmt.Sprintf("family/disabled-nest-d%d-k%d-m%d-v%d-t%d", depth, k, mask, variant, trueLevel),
			src:   c01DisableProgram(depth, k, mask, variant, trueLevel),
			stats: map[string]int{"family_disabled_nesting": 1},
		})
	}
	per := 2
	if thorough {
		per = 6
	}
	for depth := 1; depth <= 8; depth++ {
		// the first sibling enabled, the last disabled (and the reverse): a flag that
		// leaks from one sibling to another is visible in both directions
		add(depth, 2, 0b10, 0, -1)
		add(depth, 2, 0b01, 0, -1)
		add(depth, 2, 0b01, 3, -1)
		for i := 0; i < per; i++ {
			k := 2 + rng.Intn(3)
			mask := uint(rng.Intn(1 << uint(k)))
			trueLevel := -1
			if rng.Intn(5) == 0 {
				trueLevel = rng.Intn(depth)
			}
			add(depth, k, mask, rng.Intn(4), trueLevel)
		}
	}
	return out
}

// ---- family 2: run-time split sources whose elements / values include null ----

func c01IntLit(rng *rand.Rand) string {
	if rng.Intn(3) == 0 {
		return "null"
	}
	return fmt.Sprint(rng.Intn(9) + 1)
}

// an int[] literal chosen on purpose: null / empty / single / nulls inside
func c01IntsLit(rng *rand.Rand) string {
	switch rng.Intn(7) {
	case 0:
		return "null"
	case 1:
		return "[]"
	case 2:
		return "[null]"
	case 3:
		return "[" + fmt.Sprint(rng.Intn(9)+1) + "]"
	case 4:
		return "[null, null]"
	}
	n := 2 + rng.Intn(3)
	parts := make([]string, n)
	for i := range parts {
		parts[i] = c01IntLit(rng)
	}
	return "[" + strings.Join(parts, ", ") + "]"
}

var c01FamKeys = []string{"a", "b", "c", "k1"}

// a map<int> literal: single key, null values, all null (MRO has no empty map literal)
func c01MapLit(rng *rand.Rand, elem func(*rand.Rand) string, allowNull bool) string {
	if allowNull && rng.Intn(7) == 0 {
		return "null"
	}
	n := 1 + rng.Intn(3)
	keys := append([]string(nil), c01FamKeys...)
	rng.Shuffle(len(keys), func(i, j int) { keys[i], keys[j] = keys[j], keys[i] })
	ks := keys[:n]
	sortStrings(ks)
	parts := make([]string, n)
	allNull := rng.Intn(5) == 0
	for i, k := range ks {
		v := elem(rng)
		if allNull {
			v = "null"
		}
		parts[i] = fmt.Sprintf("%q: %s", k, v)
	}
	return "{" + strings.Join(parts, ", ") + "}"
}

func sortStrings(a []string) {
	for i := 1; i < len(a); i++ {
		for j := i; j > 0 && a[j] < a[j-1]; j-- {
			a[j], a[j-1] = a[j-1], a[j]
		}
	}
}

// shape: 0 flat array, 1 flat map, 2 inner array under a mapped pipeline with a
// STATIC outer array, 3 … with a RUN-TIME outer array, 4 … with a RUN-TIME outer
// map, 5 inner map under a run-time outer array
func c01NullSplitProgram(rng *rand.Rand, shape int) string {
	var sb strings.Builder
	sb.WriteString(c01FamilyStages)
	innerArr := `pipeline INNER(
    in  int[] xs,
    out int[] ys,
)
{
    call ECHOINTS as SRC(
        want = self.xs,
    )

    map call WORK(
        x = split SRC.vals,
    )

    return (
        ys = WORK.y,
    )
}

`
	innerMap := `pipeline INNER(
    in  map<int> xs,
    out map<int> ys,
)
{
    call ECHOMAP as SRC(
        want = self.xs,
    )

    map call WORK(
        x = split SRC.vals,
    )

    return (
        ys = WORK.y,
    )
}

`
	outerList := func(elem func() string) string {
		n := 1 + rng.Intn(4)
		parts := make([]string, n)
		for i := range parts {
			parts[i] = elem()
		}
		return "[" + strings.Join(parts, ", ") + "]"
	}
	switch shape {
	case 0:
		fmt.Fprintf(&sb, "pipeline TOP(\n    out int[] ys,\n)\n{\n    call ECHOINTS as SRC(\n        want = %s,\n    )\n\n    map call WORK(\n        x = split SRC.vals,\n    )\n\n    return (\n        ys = WORK.y,\n    )\n}\n\ncall TOP()\n", c01IntsLit(rng))
	case 1:
		fmt.Fprintf(&sb, "pipeline TOP(\n    out map<int> ys,\n)\n{\n    call ECHOMAP as SRC(\n        want = %s,\n    )\n\n    map call WORK(\n        x = split SRC.vals,\n    )\n\n    return (\n        ys = WORK.y,\n    )\n}\n\ncall TOP()\n", c01MapLit(rng, c01IntLit, true))
	case 2:
		sb.WriteString(innerArr)
		fmt.Fprintf(&sb, "pipeline TOP(\n    out int[][] ys,\n)\n{\n    map call INNER(\n        xs = split %s,\n    )\n\n    return (\n        ys = INNER.ys,\n    )\n}\n\ncall TOP()\n", outerList(func() string { return c01IntsLit(rng) }))
	case 3:
		sb.WriteString(innerArr)
		fmt.Fprintf(&sb, "pipeline TOP(\n    out int[][] ys,\n)\n{\n    call ECHOINTSS as OUTER(\n        want = %s,\n    )\n\n    map call INNER(\n        xs = split OUTER.vals,\n    )\n\n    return (\n        ys = INNER.ys,\n    )\n}\n\ncall TOP()\n", outerList(func() string { return c01IntsLit(rng) }))
	case 4:
		sb.WriteString(innerArr)
		fmt.Fprintf(&sb, "pipeline TOP(\n    out map<int[]> ys,\n)\n{\n    call ECHOMAPS as OUTER(\n        want = %s,\n    )\n\n    map call INNER(\n        xs = split OUTER.vals,\n    )\n\n    return (\n        ys = INNER.ys,\n    )\n}\n\ncall TOP()\n", c01MapLit(rng, c01IntsLit, false))
	default:
		sb.WriteString(innerMap)
		fmt.Fprintf(&sb, "pipeline TOP(\n    out map<int>[] ys,\n)\n{\n    call ECHOMAPARR as OUTER(\n        want = %s,\n    )\n\n    map call INNER(\n        xs = split OUTER.vals,\n    )\n\n    return (\n        ys = INNER.ys,\n    )\n}\n\ncall TOP()\n", outerList(func() string { return c01MapLit(rng, c01IntLit, true) }))
	}
	return sb.String()
}

// ---- family 3: a mapped pipeline whose calls are disabled by a sibling FLAG stage of the same fork ----

// outer: 0 static literal, 1 run-time array, 2 run-time map; two = a second
// flag stage (negated pattern) disabling a second call
func c01ForkFlagProgram(flags []bool, outer int, two bool) string {
	var sb strings.Builder
	sb.WriteString(c01FamilyStages)
	sb.WriteString("pipeline MP(\n    in  bool f,\n    in  int  v,\n    out int  a,\n    out int  b,\n)\n{\n")
	sb.WriteString("    call ECHOFLAG as FLAG(\n        want = self.f,\n    )\n\n")
	sb.WriteString("    call WORK as A(\n        x = self.v,\n    ) using (\n        disabled = FLAG.flag,\n    )\n\n")
	if two {
		sb.WriteString("    call WORK as NEG(\n        x = self.v,\n    ) using (\n        disabled = FLAG.flag,\n    )\n\n")
		sb.WriteString("    call WORK as B(\n        x = A.y,\n    )\n\n")
	} else {
		sb.WriteString("    call WORK as B(\n        x = self.v,\n    )\n\n")
	}
	sb.WriteString("    return (\n        a = A.y,\n        b = B.y,\n    )\n}\n\n")
	fl := make([]string, len(flags))
	vs := make([]string, len(flags))
	fm := make([]string, len(flags))
	vm := make([]string, len(flags))
	for i, f := range flags {
		fl[i] = fmt.Sprint(f)
		vs[i] = fmt.Sprint(i + 1)
		k := fmt.Sprintf("k%d", i)
		fm[i] = fmt.Sprintf("%q: %v", k, f)
		vm[i] = fmt.Sprintf("%q: %d", k, i+1)
	}
	switch outer {
	case 0:
		fmt.Fprintf(&sb, "pipeline TOP(\n    out int[] a,\n    out int[] b,\n)\n{\n    map call MP(\n        f = split [%s],\n        v = split [%s],\n    )\n\n", strings.Join(fl, ", "), strings.Join(vs, ", "))
	case 1:
		fmt.Fprintf(&sb, "pipeline TOP(\n    out int[] a,\n    out int[] b,\n)\n{\n    call ECHOFLAGS as FL(\n        want = [%s],\n    )\n\n    call ECHOINTS as VS(\n        want = [%s],\n    )\n\n    map call MP(\n        f = split FL.flags,\n        v = split VS.vals,\n    )\n\n", strings.Join(fl, ", "), strings.Join(vs, ", "))
	default:
		fmt.Fprintf(&sb, "pipeline TOP(\n    out map<int> a,\n    out map<int> b,\n)\n{\n    call ECHOFLAGMAP as FL(\n        want = {%s},\n    )\n\n    call ECHOMAP as VS(\n        want = {%s},\n    )\n\n    map call MP(\n        f = split FL.flags,\n        v = split VS.vals,\n    )\n\n", strings.Join(fm, ", "), strings.Join(vm, ", "))
	}
	sb.WriteString("    return (\n        a = MP.a,\n        b = MP.b,\n    )\n}\n\ncall TOP()\n")
	return sb.String()
}

func c01NullSplitFamily(rng *rand.Rand, thorough bool) []c01Case {
	var out []c01Case
	per := 4
	if thorough {
		per = 30
	}
	for shape := 0; shape <= 5; shape++ {
		for i := 0; i < per; i++ {
			out = append(out, c01Case{
				name:  fmt.Sprintf("family/null-split-s%d-%d", shape, i),
				src:   c01NullSplitProgram(rng, shape),
				stats: map[string]int{"family_null_split": 1},
			})
		}
	}
	return out
}

func c01ForkFlagFamily(rng *rand.Rand, thorough bool) []c01Case {
	var out []c01Case
	add := func(flags []bool, outer int, two bool) {
		bits := ""
		for _, f := range flags {
			if f {
				bits += "1"
			} else {
				bits += "0"
			}
		}
		out = append(out, c01Case{
			name:  fmt.Sprintf("family/fork-flag-%s-o%d-two%v", bits, outer, two),
			src:   c01ForkFlagProgram(flags, outer, two),
			stats: map[string]int{"family_fork_flag": 1},
		})
	}
	for outer := 0; outer <= 2; outer++ {
		// fork 0 enabled, a later one disabled — and the reverse
		add([]bool{false, true}, outer, false)
		add([]bool{true, false}, outer, false)
		add([]bool{false, false, true}, outer, true)
		add([]bool{true, true, false}, outer, true)
		extra := 1
		if thorough {
			extra = 8
		}
		for i := 0; i < extra; i++ {
			n := 2 + rng.Intn(4)
			flags := make([]bool, n)
			for j := range flags {
				flags[j] = rng.Intn(2) == 0
			}
			add(flags, outer, rng.Intn(2) == 0)
		}
	}
	return out
}

// ---- family 4: `disabled` split over a LITERAL collection mixing literal flags and run-time flags ----

// elems: 0 literal false, 1 reference that is true at run time, 2 reference that
// is false at run time, 3 literal true.  form: 0 array literal of structs
// (`disabled = self.item.skip`), 1 typed-map literal of structs, 2 array literal
// of flags bound to a bool input (`skip = split [F0.flag, false]`), 3 map literal of flags
func c01LitFlagProgram(elems []int, form int) string {
	var sb strings.Builder
	sb.WriteString(c01FamilyStages)
	structForm := form <= 1
	if structForm {
		sb.WriteString("struct ITEM(\n    int  v,\n    bool skip,\n)\n\n")
		sb.WriteString("pipeline MP(\n    in  ITEM item,\n    out int  a,\n    out int  b,\n)\n{\n")
		sb.WriteString("    call WORK as A(\n        x = self.item.v,\n    ) using (\n        disabled = self.item.skip,\n    )\n\n")
		sb.WriteString("    call WORK as B(\n        x = A.y,\n    )\n\n")
	} else {
		sb.WriteString("pipeline MP(\n    in  int  v,\n    in  bool skip,\n    out int  a,\n    out int  b,\n)\n{\n")
		sb.WriteString("    call WORK as A(\n        x = self.v,\n    ) using (\n        disabled = self.skip,\n    )\n\n")
		sb.WriteString("    call WORK as B(\n        x = A.y,\n    )\n\n")
	}
	sb.WriteString("    return (\n        a = A.y,\n        b = B.y,\n    )\n}\n\n")
	isMap := form == 1 || form == 3
	outT := "int[]"
	if isMap {
		outT = "map<int>"
	}
	fmt.Fprintf(&sb, "pipeline TOP(\n    out %s a,\n    out %s b,\n)\n{\n", outT, outT)
	flags := make([]string, len(elems))
	for i, e := range elems {
		switch e {
		case 0:
			flags[i] = "false"
		case 3:
			flags[i] = "true"
		default:
			fmt.Fprintf(&sb, "    call ECHOFLAG as F%d(\n        want = %v,\n    )\n\n", i, e == 1)
			flags[i] = fmt.Sprintf("F%d.flag", i)
		}
	}
	items := make([]string, len(elems))
	vals := make([]string, len(elems))
	for i := range elems {
		key := ""
		if isMap {
			key = fmt.Sprintf("\"k%d\": ", i)
		}
		items[i] = fmt.Sprintf("%s{v: %d, skip: %s}", key, i+1, flags[i])
		vals[i] = fmt.Sprintf("%s%d", key, i+1)
		flags[i] = key + flags[i]
	}
	open, close := "[", "]"
	if isMap {
		open, close = "{", "}"
	}
	if structForm {
		fmt.Fprintf(&sb, "    map call MP(\n        item = split %s%s%s,\n    )\n\n", open, strings.Join(items, ", "), close)
	} else {
		fmt.Fprintf(&sb, "    map call MP(\n        v    = split %s%s%s,\n        skip = split %s%s%s,\n    )\n\n", open, strings.Join(vals, ", "), close, open, strings.Join(flags, ", "), close)
	}
	sb.WriteString("    return (\n        a = MP.a,\n        b = MP.b,\n    )\n}\n\ncall TOP()\n")
	return sb.String()
}

func c01LitFlagFamily(rng *rand.Rand, thorough bool) []c01Case {
	var out []c01Case
	add := func(elems []int, form int) {
		out = append(out, c01Case{
			name:  fmt.Sprintf("family/lit-flag-%s-f%d", strings.Trim(strings.ReplaceAll(fmt.Sprint(elems), " ", ""), "[]"), form),
			src:   c01LitFlagProgram(elems, form),
			stats: map[string]int{"family_lit_flag": 1},
		})
	}
	for form := 0; form <= 3; form++ {
		// a single run-time-true flag; literal false + run-time true (both orders); references only
		add([]int{1}, form)
		add([]int{0, 1}, form)
		add([]int{1, 0, 2}, form)
		add([]int{2, 1}, form)
		extra := 1
		if thorough {
			extra = 8
		}
		for i := 0; i < extra; i++ {
			n := 1 + rng.Intn(4)
			e := make([]int, n)
			for j := range e {
				e[j] = rng.Intn(4)
			}
			add(e, form)
		}
	}
	return out
}

// ---- family 5: splitting stages with chunk-level outs only / stage-level outs only ----

func c01ChunkOutsProgram(n int, mapped bool) string {
	var sb strings.Builder
	sb.WriteString(`stage CHUNKONLY(
    in  int  x,
    src comp "fake",
) split (
    in  int    ci,
    out int    y,
    out string s,
)

stage STAGEONLY(
    in  int  x,
    out int  z,
    src comp "fake",
) split (
    in  int ci,
)

stage BOTH(
    in  int   x,
    out int   z,
    src comp  "fake",
) split (
    in  int   ci,
    out int[] ys,
)

`)
	zt := "int"
	if mapped {
		zt = "int[]"
	}
	fmt.Fprintf(&sb, "pipeline TOP(\n    in  int v,\n")
	for i := 0; i < n; i++ {
		fmt.Fprintf(&sb, "    out %s z%d,\n    out %s w%d,\n", zt, i, zt, i)
	}
	sb.WriteString(")\n{\n")
	for i := 0; i < n; i++ {
		bind := fmt.Sprintf("x = %d,", 10*i+1)
		word := "call"
		if mapped {
			bind = fmt.Sprintf("x = split [self.v, %d],", 10*i+1)
			word = "map call"
		} else if i == 0 {
			bind = "x = self.v,"
		}
		fmt.Fprintf(&sb, "    %s CHUNKONLY as C%d(\n        %s\n    )\n\n", word, i, bind)
		fmt.Fprintf(&sb, "    %s STAGEONLY as S%d(\n        %s\n    )\n\n", word, i, bind)
		fmt.Fprintf(&sb, "    %s BOTH as B%d(\n        %s\n    )\n\n", word, i, bind)
	}
	sb.WriteString("    return (\n")
	for i := 0; i < n; i++ {
		fmt.Fprintf(&sb, "        z%d = S%d.z,\n        w%d = B%d.z,\n", i, i, i, i)
	}
	sb.WriteString("    )\n}\n\ncall TOP(\n    v = 4,\n)\n")
	return sb.String()
}

func c01ChunkOutsFamily(rng *rand.Rand, thorough bool) []c01Case {
	var out []c01Case
	for _, mapped := range []bool{false, true} {
		// several calls with different arguments: the fake split chooses 0..3 chunks per call
		out = append(out, c01Case{
			name:  fmt.Sprintf("family/chunk-outs-mapped%v", mapped),
			src:   c01ChunkOutsProgram(4, mapped),
			stats: map[string]int{"family_chunk_outs": 1},
		})
	}
	return out
}

// c01Families: all program families of the C01 supply
func c01Families(rng *rand.Rand, thorough bool) []c01Case {
	cases := c01DisableFamily(rng, thorough)
	cases = append(cases, c01NullSplitFamily(rng, thorough)...)
	cases = append(cases, c01ForkFlagFamily(rng, thorough)...)
	cases = append(cases, c01LitFlagFamily(rng, thorough)...)
	cases = append(cases, c01ChunkOutsFamily(rng, thorough)...)
	return cases
}

func c01FamilyClass(name string) string {
	name = strings.TrimPrefix(name, "family/")
	for _, p := range []string{"disabled-nest", "null-split", "fork-flag", "lit-flag", "chunk-outs"} {
		if strings.HasPrefix(name, p) {
			return p
		}
	}
	return "other"
}

// c01InstanceViolations runs the program families under two schedules each and
// compares, per run, the stage instances that actually ran with the instances
// the dataflow semantics `den` denotes (exactly one instance per index / key of
// every mapped call, none below a disabled call).  Reusable by C03: the keys
// are `<prefix>:instances:missing:<class>` / `…:unexpected:<class>` (and
// `…:other:<class>` for value differences).
func c01InstanceViolations(c *Ctx, prefix string) []Violation {
	cases := c01Families(c.Rng, c.Thorough)
	var specs []*TASpec
	owner := []int{}
	for ci := range cases {
		for si, s := range c01Schedules(c.Seed, ci)[:2] {
			sp := s
			sp.Name = fmt.Sprintf("%s#%d", cases[ci].name, si)
			sp.Src = cases[ci].src
			sp.TimeoutS = 12
			specs = append(specs, &sp)
			owner = append(owner, ci)
		}
	}
	results := c01RunSpecs(specs, 14)
	var out []Violation
	per := map[string]int{}
	for i, res := range results {
		cs := cases[owner[i]]
		class := c01FamilyClass(cs.name)
		c.Res.hist("instances:" + class + ":" + strings.SplitN(res.Final, ":", 2)[0])
		if res.Final != "complete" || res.Unsupp != "" || res.Relaunch > 0 {
			continue
		}
		ok, ds, anomalies, bad := c01Check(c, res)
		c.Res.count("instances|"+cs.src+fmt.Sprint(res.SchedHash), true)
		if ok || strings.HasPrefix(bad, "skip ") {
			continue
		}
		kind, what, expect, observed := "other", "", "", ""
		switch {
		case bad != "":
			what = "driver could not evaluate the run: " + c01Trunc(bad, 200)
		case len(anomalies) > 0:
			kind, what = "unexpected", strings.Join(anomalies, "; ")
		default:
			d := ds[0]
			switch d.Class {
			case "missing-instance":
				kind = "missing"
			case "unexpected-instance", "forks-under-empty-map", "ambiguous-instance":
				kind = "unexpected"
			}
			what = fmt.Sprintf("%s: %s %s", d.Class, d.Where, d.Param)
			expect, observed = d.Expected, d.Observed
		}
		key := fmt.Sprintf("%s:instances:%s:%s", prefix, kind, class)
		if per[key] >= 2 {
			continue
		}
		per[key]++
		sp := *specs[i]
		sp.Src = ""
		out = append(out, Violation{Kind: "property", Key: key,
			What:   "the stage instances that ran differ from the instances the dataflow semantics denotes (one per index / key of every mapped call, none below a disabled call): " + what,
			Input:  map[string]interface{}{"program": cs.src, "name": specs[i].Name, "schedule": sp},
			Impl:   map[string]interface{}{"observed": observed, "top_outs": string(res.TopOuts), "all_differences": ds},
			Expect: expect,
			Broken: "den instances (Martian.Dataflow) vs real fork expansion"})
	}
	return out
}
