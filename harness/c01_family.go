package main

// C01 program family: nested run-time-disabled pipelines around sibling calls
// that have their own, different, run-time `disabled` flags.
//
//	TOP { F0; call P1 using (disabled = F0.flag) }
//	P1  { F1; call P2 using (disabled = F1.flag) } … (depth 1..8)
//	Pd  { G1..Gk; call/map call WORK as Sj(…) using (disabled = Gj.flag), j = 1..k }
//
// The flags are produced at run time by ECHO stages (their first output is
// their first input: see the OutsHook in c01_worker.go), so every combination
// of true / false is reachable on purpose instead of by luck of the fake
// stage outputs.  Variants: plain sibling calls, sibling map calls over a
// static array, the innermost pipeline mapped over a run-time array, and one
// enclosing level disabled.  The random generator (gen_mro.go) never nests
// more than two run-time-disabled pipelines around such siblings.

import (
	"fmt"
	"math/rand"
	"strings"
)

const c01FamilyStages = `stage ECHOFLAG(
    in  bool want,
    out bool flag,
    src comp "fake",
)

stage ECHOINTS(
    in  int[] want,
    out int[] vals,
    src comp  "fake",
)

stage WORK(
    in  int  x,
    out int  y,
    src comp "fake",
)

`

// variant: 0 plain siblings, 1 sibling map calls (static array), 2 innermost
// pipeline mapped over a run-time array
func c01DisableProgram(depth, k int, mask uint, variant int, trueLevel int) string {
	var sb strings.Builder
	sb.WriteString(c01FamilyStages)
	inner := "int"
	if variant == 1 {
		inner = "int[]"
	}
	outer := inner // type of o_j above the innermost pipeline
	if variant == 2 {
		outer = inner + "[]"
	}
	outs := func(t string) string {
		var o strings.Builder
		for j := 1; j <= k; j++ {
			fmt.Fprintf(&o, "    out %s o%d,\n", t, j)
		}
		return o.String()
	}
	// innermost pipeline P<depth>
	fmt.Fprintf(&sb, "pipeline P%d(\n    in  int v,\n%s)\n{\n", depth, outs(inner))
	for j := 1; j <= k; j++ {
		fmt.Fprintf(&sb, "    call ECHOFLAG as G%d(\n        want = %v,\n    )\n\n", j, mask&(1<<uint(j-1)) != 0)
	}
	for j := 1; j <= k; j++ {
		if variant == 1 {
			fmt.Fprintf(&sb, "    map call WORK as S%d(\n        x = split [self.v, %d],\n    ) using (\n        disabled = G%d.flag,\n    )\n\n", j, 10+j, j)
		} else {
			fmt.Fprintf(&sb, "    call WORK as S%d(\n        x = self.v,\n    ) using (\n        disabled = G%d.flag,\n    )\n\n", j, j)
		}
	}
	sb.WriteString("    return (\n")
	for j := 1; j <= k; j++ {
		fmt.Fprintf(&sb, "        o%d = S%d.y,\n", j, j)
	}
	sb.WriteString("    )\n}\n\n")
	// enclosing levels P<depth-1> … P1, then TOP (= level 0)
	for lvl := depth - 1; lvl >= 0; lvl-- {
		name := fmt.Sprintf("P%d", lvl)
		if lvl == 0 {
			name = "TOP"
		}
		fmt.Fprintf(&sb, "pipeline %s(\n    in  int v,\n%s)\n{\n", name, outs(outer))
		fmt.Fprintf(&sb, "    call ECHOFLAG as F%d(\n        want = %v,\n    )\n\n", lvl, lvl == trueLevel)
		if variant == 2 && lvl == depth-1 {
			fmt.Fprintf(&sb, "    call ECHOINTS as VS(\n        want = [self.v, 5],\n    )\n\n")
			fmt.Fprintf(&sb, "    map call P%d(\n        v = split VS.vals,\n    ) using (\n        disabled = F%d.flag,\n    )\n\n", lvl+1, lvl)
		} else {
			fmt.Fprintf(&sb, "    call P%d(\n        v = self.v,\n    ) using (\n        disabled = F%d.flag,\n    )\n\n", lvl+1, lvl)
		}
		sb.WriteString("    return (\n")
		for j := 1; j <= k; j++ {
			fmt.Fprintf(&sb, "        o%d = P%d.o%d,\n", j, lvl+1, j)
		}
		sb.WriteString("    )\n}\n\n")
	}
	sb.WriteString("call TOP(\n    v = 3,\n)\n")
	return sb.String()
}

// c01DisableFamily: every nesting depth 1..8, with random sibling counts, flag
// masks and variants; plus the all-false / mixed masks for the plain variant.
func c01DisableFamily(rng *rand.Rand, thorough bool) []c01Case {
	var out []c01Case
	add := func(depth, k int, mask uint, variant, trueLevel int) {
		out = append(out, c01Case{
			name:  fmt.Sprintf("family/disabled-nest-d%d-k%d-m%d-v%d-t%d", depth, k, mask, variant, trueLevel),
			src:   c01DisableProgram(depth, k, mask, variant, trueLevel),
			stats: map[string]int{"family_disabled_nesting": 1},
		})
	}
	per := 2
	if thorough {
		per = 6
	}
	for depth := 1; depth <= 8; depth++ {
		// the first sibling enabled, the last disabled (and the reverse): a flag that
		// leaks from one sibling to another is visible in both directions
		add(depth, 2, 0b10, 0, -1)
		add(depth, 2, 0b01, 0, -1)
		for i := 0; i < per; i++ {
			k := 2 + rng.Intn(3)
			mask := uint(rng.Intn(1 << uint(k)))
			trueLevel := -1
			if rng.Intn(5) == 0 {
				trueLevel = rng.Intn(depth)
			}
			add(depth, k, mask, rng.Intn(3), trueLevel)
		}
	}
	return out
}
