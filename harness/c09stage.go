package main

// C09, whole `stage` declarations: the model Martian.FormatStage (fmtStage /
// parseStage / wfStage; driver ops C09.fmtstagedecl, parsestagedecl,
// wfstagedecl) against the real formatter and parser.
//
// Every generated stage is handed to the model, which prints it
// (fmtstagedecl).  On that text and on a respelling of the same stage (random
// white space and line breaks, `split using (`, the resource entries in random
// order with `memgb`/`vmemgb` and respelled values such as `1e0`, `0.50`, an
// earlier entry that is overridden, `""` for a missing help text, blanks of
// every kind between the fields of the command):
//   (a) C09:stage-format-mismatch — FormatSrcBytes of the model's text must be
//       that text, byte for byte, for a well-formed stage; FormatSrcBytes of any
//       text the parser accepts must be fmtstagedecl of the stage it read;
//   (b) C09:stage-parse-mismatch — every field of the syntax.Stage that
//       UncheckedParse returns (Id; InParams/OutParams/ChunkIns/ChunkOuts with
//       Tname.{Tname,ArrayDim,MapDim}, Id, Help, OutName; Src.{Lang,Path,Args};
//       Split; Resources.{MemGB,VMemGB,Threads,Special,StrictVolatile} and which
//       of the five nodes are set, or nil; the ids of Retain.Params, or nil)
//       must equal the model's parsestagedecl of the same text (both reject, or
//       the same stage), and for a well-formed stage both must be the stage;
//   (c) C09:stage-ast-changed (Kind "property", the real code only) — the real
//       parse of the real formatter's output has the same dump as the real parse
//       of the input, and the output is a fixed point.
// Near misses (hand-written list, single-byte edits and line edits — delete,
// duplicate, swap — of printed texts): (b), and (a)/(c) on those of the list
// that parse.
//
// Values are kept clear of the known findings of the Res part: |mem_gb| below
// 256 GB (F29), threads texts that float32 holds exactly (F30), valid UTF-8
// for the property monitor (F6b).

import (
	"fmt"
	"math/big"
	"math/rand"
	"strconv"
	"strings"
	"time"
	"unicode/utf8"

	"github.com/martian-lang/martian/martian/syntax"
)

type c09sRes struct {
	mem, vmem        *int64 // MB
	special, threads *string
	volatile         *bool
}

type c09sStage struct {
	id          string
	ins, outs   []c09dParam
	lang, path  string
	args        []string
	split       bool
	cins, couts []c09dParam
	res         *c09sRes
	retain      []string
	hasRetain   bool
}

func (r *c09sRes) enc() string {
	if r == nil {
		return "none"
	}
	w := []string{".", ".", ".", ".", "."}
	if r.mem != nil {
		w[0] = strconv.FormatInt(*r.mem, 10)
	}
	if r.special != nil {
		w[1] = "s" + hx(*r.special)
	}
	if r.threads != nil {
		w[2] = "s" + hx(*r.threads)
	}
	if r.vmem != nil {
		w[3] = strconv.FormatInt(*r.vmem, 10)
	}
	if r.volatile != nil {
		if *r.volatile {
			w[4] = "strict"
		} else {
			w[4] = "false"
		}
	}
	return strings.Join(w, " ")
}

func (s *c09sStage) enc() string {
	sp, ret := "0", "none"
	if s.split {
		sp = "1"
	}
	if s.hasRetain {
		ret = "r" + hxList(s.retain)
	}
	return strings.Join([]string{hx(s.id), c09dEncParams(s.ins), c09dEncParams(s.outs),
		s.lang + " " + hx(s.path) + " " + hxList(s.args), sp, c09dEncParams(s.cins), c09dEncParams(s.couts),
		s.res.enc(), ret}, "|")
}

// ---- the real AST in the driver's encoding ----

// gb*1024 as an exact decimal integer (`inexact:` prefix: not an integer)
func c09sMBOf(gb float32) string {
	f := new(big.Float).SetPrec(200).SetFloat64(float64(gb))
	f.Mul(f, big.NewFloat(1024))
	i, acc := f.Int(nil)
	if acc != big.Exact {
		return "inexact:" + i.String()
	}
	return i.String()
}

// c09sDump: "none" (rejected), "panic: …", "other" (not exactly one stage) or "some <Stage>"
func c09sDump(text string) string {
	ast, err, pan := c09Parse([]byte(text), "stage.mro")
	if pan != "" {
		return "panic: " + pan
	}
	if err != nil || ast == nil {
		return "none"
	}
	if !c09dOnly(ast, 0, 0, 1) {
		return "other"
	}
	st, ok := ast.Callables.List[0].(*syntax.Stage)
	if !ok || st.Src == nil {
		return "other"
	}
	sp := "0"
	if st.Split {
		sp = "1"
	}
	res := "none"
	if r := st.Resources; r != nil {
		w := []string{".", ".", ".", ".", "."}
		if r.MemNode != nil {
			w[0] = c09sMBOf(r.MemGB)
		}
		if r.SpecialNode != nil {
			w[1] = "s" + hx(r.Special)
		}
		if r.ThreadNode != nil {
			w[2] = "s" + hx(fmt.Sprintf("%g", r.Threads))
		}
		if r.VMemNode != nil {
			w[3] = c09sMBOf(r.VMemGB)
		}
		if r.VolatileNode != nil {
			if r.StrictVolatile {
				w[4] = "strict"
			} else {
				w[4] = "false"
			}
		}
		res = strings.Join(w, " ")
	}
	ret := "none"
	if st.Retain != nil {
		var ids []string
		for _, p := range st.Retain.Params {
			ids = append(ids, p.Id)
		}
		ret = "r" + hxList(ids)
	}
	insOnly := func(p *syntax.InParams) string { return c09dEncParams(c09dParamsOf(p, nil)) }
	outsOnly := func(p *syntax.OutParams) string { return c09dEncParams(c09dParamsOf(nil, p)) }
	return "some " + strings.Join([]string{hx(st.Id), insOnly(st.InParams), outsOnly(st.OutParams),
		string(st.Src.Lang) + " " + hx(st.Src.Path) + " " + hxList(st.Src.Args), sp,
		insOnly(st.ChunkIns), outsOnly(st.ChunkOuts), res, ret}, "|")
}

// the model keeps the text of the `threads` token, the parser stores roundUpTo(float32, 100) and
// the formatter prints it with %g: the REAL conversion is the oracle (harness/c09.go c09RealThreads)
func c09sCanonThreads(raw string) string { return c09RealThreads(raw) }

// c09sCanon rewrites the threads word of the model's `some <Stage>` reply
func c09sCanon(rep string) string {
	if !strings.HasPrefix(rep, "some ") {
		return rep
	}
	f := strings.Split(strings.TrimPrefix(rep, "some "), "|")
	if len(f) != 9 || f[7] == "none" {
		return rep
	}
	w := strings.Split(f[7], " ")
	if len(w) == 5 && strings.HasPrefix(w[2], "s") {
		w[2] = "s" + hx(c09sCanonThreads(unhx(w[2][1:])))
		f[7] = strings.Join(w, " ")
	}
	return "some " + strings.Join(f, "|")
}

// c09sAllUTF8: are all strings of a `some <Stage>` dump valid UTF-8?  (F6b: others are not
// preserved by the formatter)
func c09sAllUTF8(dump string) bool {
	f := strings.Split(strings.TrimPrefix(dump, "some "), "|")
	if len(f) != 9 {
		return true
	}
	ok := func(h string) bool {
		for _, x := range strings.Split(h, ",") {
			if x != "." && !utf8.ValidString(unhx(x)) {
				return false
			}
		}
		return true
	}
	all := ok(f[0])
	for _, ps := range []string{f[1], f[2], f[5], f[6]} {
		w := strings.Split(ps, " ")
		for j := 1; j+4 < len(w); j += 5 {
			all = all && ok(strings.SplitN(w[j+1], ":", 2)[0]) && ok(w[j+2]) && ok(w[j+3]) && ok(w[j+4])
		}
	}
	if w := strings.Split(f[3], " "); len(w) == 3 {
		all = all && ok(w[1]) && ok(w[2])
	}
	if w := strings.Split(f[7], " "); len(w) == 5 {
		all = all && ok(strings.TrimPrefix(w[1], "s")) && ok(strings.TrimPrefix(w[2], "s"))
	}
	if strings.HasPrefix(f[8], "r") {
		all = all && ok(f[8][1:])
	}
	return all
}

// ---- generators ----

const c09sLetters = "abcdefghijklmnopqrstuvwxyzABCDEFGHIJKLMNOPQRSTUVWXYZ"

func c09sWord(c *Ctx, n int) string {
	const word = c09sLetters + "0123456789_"
	var b strings.Builder
	b.WriteByte(c09sLetters[c.Rng.Intn(len(c09sLetters))])
	for b.Len() < n {
		b.WriteByte(word[c.Rng.Intn(len(word))])
	}
	return b.String()
}

// ids around the thresholds: 30 (Stage.format quirk) and 35 (getWidths)
func c09sId(c *Ctx, long int) string {
	if c.Rng.Intn(10) < long {
		return c09sWord(c, 29+c.Rng.Intn(8))
	}
	if c.Rng.Intn(3) == 0 {
		return c09sWord(c, 1+c.Rng.Intn(8))
	}
	return c09dIdent(c)
}

// help texts around the thresholds: 20 (Stage.format quirk) and 25 (getWidths)
func c09sHelp(c *Ctx, long int) string {
	if c.Rng.Intn(10) < long {
		n := 19 + c.Rng.Intn(8)
		if c.Rng.Intn(3) == 0 {
			return strings.Repeat("h", n/2) + " " + strings.Repeat("p", n-n/2-1)
		}
		return strings.Repeat("h", n)
	}
	if c.Rng.Intn(2) == 0 {
		return ""
	}
	return c09dHelp(c)
}

func c09sParams(c *Ctx, nIn, nOut, long int) (ins, outs []c09dParam) {
	for i := 0; i < nIn; i++ {
		m := c09dMember{t: c09dGenType(c), id: c09sId(c, long), help: c09sHelp(c, long)}
		if c.Rng.Intn(80) == 0 {
			m.out = "o" // outside wf: an InParam has no out name
		}
		ins = append(ins, c09dParam{m, false})
	}
	for i := 0; i < nOut; i++ {
		m := c09dMember{t: c09dGenType(c), id: c09sId(c, long)}
		if c.Rng.Intn(3) == 0 {
			m.id = "default"
		}
		switch c.Rng.Intn(6) {
		case 0, 1:
			m.help = c09sHelp(c, long)
		case 2:
			m.help = c09sHelp(c, long)
			m.out = c09dHelp(c)
		case 3:
			m.out = c09dHelp(c)
		}
		outs = append(outs, c09dParam{m, true})
	}
	return
}

var c09sPaths = []string{"x", "a/b.py", "/usr/bin/env", "bin/tool", "été.py", "a\"b", "c\\d", "stage.exe", "#x", "a,b", "src", ")"}
var c09sArgs = []string{"-x", "--flag=1", "y", "été", "a,b", "\"q\"", "1", "[]", "src", "split", "(", "#"}
var c09sSpecials = []string{"", "highmem", "a b", "q\"uote", "été", "x\ty", "coffee\\", "line\nbreak", "using"}

// canonical %g texts of values float32 holds exactly, and other spellings of the same value
var c09sThreads = [][]string{
	{"1", "1.0", "1e0", "1.00", "01"}, {"2", "2.0", "2e0", "0.2e1"}, {"4", "4.00"}, {"16", "16.0", "1.6e1"}, {"64", "64"},
	{"0.5", "0.50", "5e-1", "0.05e1"}, {"0.25", "0.250", "25e-2"}, {"1.5", "1.50", "15e-1"}, {"2.75", "2.750"}, {"12.5", "12.50", "1.25e1"},
	{"1e+06", "1e6", "1000000", "1E+06"}, {"100", "1e2", "100.0"}, {"0", "0.0", "0e0"}, {"-1", "-1.0", "-1e0"}, {"3", "3.0"},
}

// MB values of generated stages: the whole range of the model's wfMB, |mb| < 2^18 = 256 GB, the range
// where the exact reading of the model and the float32 reading of the real parser agree on every
// text formatGB prints (Props.C09.readGB32_inverts_formatGB), with the boundary itself; values from
// 256 GB on (finding F29) are exercised by the mem_gb stream of harness/c09res.go (up to 2^24 and
// 2^62 MB, classified gb-float32-rounding).
func c09sMB(c *Ctx) int64 {
	if c.Rng.Intn(12) == 0 {
		return []int64{262143, -262143, 262142, 261121, -261121, 262143 - 1024, 131072, -131073}[c.Rng.Intn(8)]
	}
	switch c.Rng.Intn(7) {
	case 0, 1:
		return -int64(1 + c.Rng.Intn(1023)) // negative, below 1 GB
	case 2:
		return int64(c.Rng.Intn(64)) * 1024
	case 3:
		return int64(c.Rng.Intn(1 << 18))
	case 4:
		return -int64(c.Rng.Intn(1 << 18))
	case 5:
		return int64(1 + c.Rng.Intn(1023))
	}
	return int64(c.Rng.Intn(1<<14)) - 4096
}

func c09sGenRes(c *Ctx) (*c09sRes, []int) {
	r := &c09sRes{}
	mask := c.Rng.Intn(32)
	tix := []int{-1}
	if mask&1 != 0 {
		v := c09sMB(c)
		r.mem = &v
	}
	if mask&2 != 0 {
		s := c09sSpecials[c.Rng.Intn(len(c09sSpecials))]
		r.special = &s
	}
	if mask&4 != 0 {
		tix[0] = c.Rng.Intn(len(c09sThreads))
		s := c09sThreads[tix[0]][0]
		if c.Rng.Intn(60) == 0 {
			s = "007" // outside wf: not what %g prints
			tix[0] = -1
		}
		r.threads = &s
	}
	if mask&8 != 0 {
		v := c09sMB(c)
		r.vmem = &v
	}
	if mask&16 != 0 {
		b := c.Rng.Intn(2) == 0
		r.volatile = &b
	}
	return r, tix
}

type c09sCase struct {
	st   *c09sStage
	tix  int // index into c09sThreads (-1: none)
	enc  string
	text string // the model's fmtStage
	re   string // a respelling
	wf   bool
}

func c09sGen(c *Ctx) *c09sCase {
	s := &c09sStage{lang: []string{"py", "exec", "comp"}[c.Rng.Intn(3)]}
	switch c.Rng.Intn(12) {
	case 0:
		s.id = c09sId(c, 10)
	case 1:
		s.id = c09callId(c, 12) // now and then a word the grammar's `id` rejects
	default:
		s.id = c09dSafeId(c)
	}
	// how often ids and help texts sit around the thresholds, separately for the
	// main and the chunk lists: the quirk of Stage.format is exercised both ways
	prof := []int{0, 0, 3, 6}
	s.ins, s.outs = c09sParams(c, c.Rng.Intn(5), c.Rng.Intn(4), prof[c.Rng.Intn(4)])
	s.path = c09sPaths[c.Rng.Intn(len(c09sPaths))]
	for k := c.Rng.Intn(4); k > 0 && c.Rng.Intn(3) != 0; k-- {
		s.args = append(s.args, c09sArgs[c.Rng.Intn(len(c09sArgs))])
	}
	if c.Rng.Intn(2) == 0 {
		s.split = true
		if c.Rng.Intn(8) != 0 {
			s.cins, s.couts = c09sParams(c, c.Rng.Intn(4), c.Rng.Intn(3), prof[c.Rng.Intn(4)])
		}
	} else if c.Rng.Intn(60) == 0 {
		s.cins, _ = c09sParams(c, 1, 0, 0) // outside wf: chunk parameters without split
	}
	k := &c09sCase{st: s, tix: -1}
	if c.Rng.Intn(4) != 0 {
		var t []int
		s.res, t = c09sGenRes(c)
		k.tix = t[0]
	}
	if c.Rng.Intn(2) == 0 {
		s.hasRetain = true
		for n := c.Rng.Intn(4); n > 0; n-- {
			s.retain = append(s.retain, c09callId(c, 10))
		}
	}
	k.enc = s.enc()
	return k
}

// ---- respelling ----

func c09sExactGB(mb int64) string {
	r := new(big.Rat).SetFrac(big.NewInt(mb), big.NewInt(1024))
	s := r.FloatString(10)
	if strings.Contains(s, ".") {
		s = strings.TrimRight(s, "0")
		s = strings.TrimSuffix(s, ".")
	}
	return s
}

func c09sSpellGB(c *Ctx, mb int64) string {
	s := c09sExactGB(mb)
	switch c.Rng.Intn(5) {
	case 0:
		if strings.Contains(s, ".") {
			return s + "0"
		}
		return s + ".0"
	case 1:
		return s + "e0"
	case 2:
		if strings.Contains(s, ".") {
			return s + "00E+0"
		}
		return s + ".00"
	}
	return s
}

func c09sSpellable(s string) bool {
	if !utf8.ValidString(s) {
		return false
	}
	for i := 0; i < len(s); i++ {
		if (s[i] < 0x20 && s[i] != '\n' && s[i] != '\t') || s[i] == 0x7f {
			return false
		}
	}
	return true
}

func c09sSpellParams(sp *c09dSpeller, ps []c09dParam) {
	for _, p := range ps {
		if p.isOut {
			sp.tok("out")
		} else {
			sp.tok("in")
		}
		sp.typ(p.t)
		if !(p.isOut && p.id == "default") {
			sp.tok(p.id)
		}
		if p.isOut {
			sp.tail(p.help, p.out)
		} else {
			sp.tail(p.help, "")
		}
	}
}

// c09sSpell: another spelling of the same stage ("" = no respelling for this stage)
func c09sSpell(c *Ctx, k *c09sCase) string {
	s := k.st
	for _, ps := range [][]c09dParam{s.ins, s.outs, s.cins, s.couts} {
		for _, p := range ps {
			if !c09sSpellable(p.help) || !c09sSpellable(p.out) || (!p.isOut && p.out != "") {
				return ""
			}
		}
	}
	if !s.split && len(s.cins)+len(s.couts) > 0 {
		return ""
	}
	if s.res != nil && s.res.threads != nil && k.tix < 0 {
		return ""
	}
	sp := &c09dSpeller{c: c}
	sp.tok("stage")
	sp.tok(s.id)
	sp.tok("(")
	c09sSpellParams(sp, s.ins)
	c09sSpellParams(sp, s.outs)
	sp.tok("src")
	sp.tok(s.lang)
	blank := func() string {
		return []string{" ", " ", " ", "  ", "\t", " \t ", " ", "\n", "  "}[c.Rng.Intn(9)]
	}
	var cmd strings.Builder
	if c.Rng.Intn(5) == 0 {
		cmd.WriteString(blank())
	}
	cmd.WriteString(s.path)
	for _, a := range s.args {
		cmd.WriteString(blank())
		cmd.WriteString(a)
	}
	if c.Rng.Intn(5) == 0 {
		cmd.WriteString(blank())
	}
	sp.tok(c09callQuote(cmd.String()))
	sp.tok(",")
	sp.tok(")")
	if s.split {
		sp.tok("split")
		if c.Rng.Intn(2) == 0 {
			sp.tok("using")
		}
		sp.tok("(")
		c09sSpellParams(sp, s.cins)
		c09sSpellParams(sp, s.couts)
		sp.tok(")")
	}
	if r := s.res; r != nil {
		sp.tok("using")
		sp.tok("(")
		type entry struct{ key, val string }
		var es []entry
		if r.mem != nil {
			es = append(es, entry{[]string{"mem_gb", "memgb"}[c.Rng.Intn(2)], c09sSpellGB(c, *r.mem)})
		}
		if r.special != nil {
			es = append(es, entry{"special", c09callQuote(*r.special)})
		}
		if r.threads != nil {
			alt := c09sThreads[k.tix]
			es = append(es, entry{"threads", alt[c.Rng.Intn(len(alt))]})
		}
		if r.vmem != nil {
			es = append(es, entry{[]string{"vmem_gb", "vmemgb"}[c.Rng.Intn(2)], c09sSpellGB(c, *r.vmem)})
		}
		if r.volatile != nil {
			es = append(es, entry{"volatile", map[bool]string{true: "strict", false: "false"}[*r.volatile]})
		}
		c.Rng.Shuffle(len(es), func(i, j int) { es[i], es[j] = es[j], es[i] })
		if len(es) > 0 && c.Rng.Intn(5) == 0 {
			// an earlier entry for a key that comes again: the last one wins
			e := es[c.Rng.Intn(len(es))]
			switch e.key {
			case "mem_gb", "memgb", "vmem_gb", "vmemgb":
				e.val = "7.5"
			case "threads":
				e.val = "9"
			case "special":
				e.val = "\"earlier\""
			default:
				e.val = map[string]string{"strict": "false", "false": "strict"}[e.val]
			}
			es = append([]entry{e}, es...)
		}
		for _, e := range es {
			sp.tok(e.key)
			sp.tok("=")
			sp.tok(e.val)
			sp.tok(",")
		}
		sp.tok(")")
	}
	if s.hasRetain {
		sp.tok("retain")
		sp.tok("(")
		for _, id := range s.retain {
			sp.tok(id)
			sp.tok(",")
		}
		sp.tok(")")
	}
	if c.Rng.Intn(2) == 0 {
		sp.b.WriteString("\n")
	}
	return sp.b.String()
}

// ---- near misses ----

var c09sNearMisses = []string{
	"stage S(in int a,)", "stage S()", "stage S(in int a, out int b,)", // missing src
	"stage S(src py \"x\", src py \"y\",)", "stage S(src py \"x\",\n    src py \"x\",\n)", // two src lines
	"stage S(in int a, src py \"x\", out int b,)", "stage S(src py \"x\", in int a,)",
	"stage S(src py \"x\",) split ()", "stage S(src py \"x\",) split using ()", "stage S(src py \"x\",) split using using ()",
	"stage S(src py \"x\",) split", "stage S(src py \"x\",) split using", "stage S(src py \"x\",) split (in int c,)",
	"stage S(src py \"x\",) split using (in int c, out int d,)", "stage S(src py \"x\",) split (out int d,)",
	"stage S(src py \"x\",) split (out int d, in int c,)", // in param in chunk outs
	"stage S(out int b, in int a, src py \"x\",)",         // out param before in param
	"stage S(in int a, out int b, in int c, src py \"x\",)",
	"stage S(src py \"x\",) using (threads = 1,) split (in int c,)", // wrong order
	"stage S(src py \"x\",) split (in int c,) using (threads = 1,)",
	"stage S(src py \"x\",) retain (a,) using (threads = 1,)", // retain before using
	"stage S(src py \"x\",) using (threads = 1,) retain (a,)",
	"stage S(src py \"x\",) split (in int c,) retain (a,)", "stage S(src py \"x\",) retain (a,) split (in int c,)",
	"stage S(src py \"x\",) split (in int c,) split (in int d,)", "stage S(src py \"x\",) split (src py \"y\",)",
	"stage S(src py \"x\",) split (in int c, src py \"y\",)", "stage S(in int a, src py \"x\", ) split (in int a,)",
	"stage S(src py \"x\",) split (in int c,) using () retain ()", "stage S(src py \"x\",) split () using () retain ()",
	"stage S(src py \"x\",) using split (in int c,)", "stage S(src py \"x\",) (in int c,)", "stage S(src py \"x\",) split in int c,)",
	"stage S(src py \"x\",) split (in int c,", "stage S(src py \"x\",) split (in int c)", "stage S(src py \"x\",))",
	"stage S(src py \"x\",", "stage S src py \"x\",)", "stage S(src py \"x\",) split (in int c,))",
	"stage split(src py \"x\",) split (in int split,) retain (split,)",
	"stage using(in int using, src py \"using\",) using (special = \"using\",) retain (using,)",
	"stage using(src py \"x\",) split using (in int using,) using (threads = 1,)",
	"stage retain(src py \"x\",) retain (retain,)", "stage S(in int src, src py \"x\",)", "stage S(in int stage, src py \"x\",)",
	"stage S(in int in, src py \"x\",)", "stage stage(src py \"x\",)", "stage S(in src a, src py \"x\",)", "stage S(in split a, src py \"x\",)",
	"stage S(src py \"x\",) stage T(src py \"y\",)", "pipeline S(src py \"x\",)", "Stage S(src py \"x\",)",
	"stage S(in int a \"h\", out int \"h\" \"o\", src exec \"a b\",) split using (in int c, out int,) using (mem_gb = -0.5, vmemgb = 1e0, threads = 2, special = \"s\", volatile = strict,) retain (a,)",
	"stage S(src py \"x\",) using (mem_gb = -0.5,)", "stage S(src py \"x\",) using (mem_gb = -0.0009765625, vmem_gb = -1023.9990234375,)",
	"stage S(src py \"x\",) using (vmem_gb = -0.25, mem_gb = -0.001,)", "stage S(src py \"x\",) using (mem_gb = -1.5, vmem_gb = -0.75,)",
	"stage\nS\n(\nsrc\npy\n\"x\"\n,\n)\nsplit\nusing\n(\n)\n", "stage S(src py \"x\",)split(in int c,)using(threads=1,)retain(c,)",
	"stage S(in int a_234567890123456789012345678901, src py \"x\",) split (in int c \"h\",)",
	"stage S(in int a_23456789012345678901234567890, src py \"x\",) split (in int c \"h\",)",
	"stage S(in int a \"h2345678901234567890\", src py \"x\",) split (out int \"h\" \"o\",)",
	"stage S(in int a \"h23456789012345678901\", src py \"x\",) split (out int \"h\" \"o\",)",
	"stage S(in int a \"h23456789012345678901\", src py \"x\",) split (out int \"h23456789012345678901234\" \"o\", out int c,)",
	"stage S(in map<int[]>[] a_2345678901234567890123456789012345, src comp \"x\",) split (out float b_23456789012345678901234567890 \"\" \"o\",)",
}

func c09sASCII(s string) bool {
	for i := 0; i < len(s); i++ {
		if s[i] >= 0x80 {
			return false
		}
	}
	return true
}

// c09sLineEdit: delete, duplicate or swap lines of a printed declaration
func c09sLineEdit(c *Ctx, text string) string {
	l := strings.SplitAfter(text, "\n")
	if len(l) < 3 {
		return text
	}
	i := c.Rng.Intn(len(l) - 1)
	switch c.Rng.Intn(4) {
	case 0:
		l = append(l[:i:i], l[i+1:]...)
	case 1:
		l = append(l[:i+1:i+1], l[i:]...)
	case 2:
		l[i], l[i+1] = l[i+1], l[i]
	default:
		j := c.Rng.Intn(len(l) - 1)
		l[i], l[j] = l[j], l[i]
	}
	return strings.Join(l, "")
}

// ---- main ----

func c09Stage(c0 *Ctx) {
	// a generator of its own (seeded from VERIF_SEED), so that this part does not shift the random
	// stream of the monitors that run after it
	cc := *c0
	cc.Rng = rand.New(rand.NewSource(c0.Seed*1000003 + 0x57a6e))
	c := &cc
	r := c.Res
	mismatch := func(key, what, broken string, in map[string]interface{}, impl, model string) {
		r.violate(Violation{Kind: "correspondence", Key: key, What: what, Input: in, Impl: impl, Model: model, Broken: broken})
	}
	const kFmt, kParse, kAst = "C09:stage-format-mismatch", "C09:stage-parse-mismatch", "C09:stage-ast-changed"
	const bFmt = "correspondence C09.fmtstagedecl (Martian.FormatStage.fmtStage vs Stage.format)"
	const bParse = "correspondence C09.parsestagedecl (Martian.FormatStage.parseStage vs the grammar's stage production)"

	// the property itself on the real code
	property := func(src, d0, origin string) {
		if !strings.HasPrefix(d0, "some ") {
			return
		}
		if !c09sAllUTF8(d0) {
			r.hist("stagedecl:property:invalid-utf8(F6b)")
			return
		}
		in := map[string]interface{}{"source": src, "origin": origin}
		const expect = "the formatter's output parses to the same stage (every field) and is a fixed point"
		out, err, pan := c09Format([]byte(src), "stage.mro")
		if pan != "" || err != nil {
			r.violate(Violation{Kind: "property", Key: kAst, What: "the formatter fails on a stage the parser accepts",
				Input: in, Impl: fmt.Sprint(pan, err), Expect: expect})
			return
		}
		in["output"] = out
		if d1 := c09sDump(out); d1 != d0 {
			r.violate(Violation{Kind: "property", Key: kAst, What: "the stage read from the formatter's output differs from the stage read from the source",
				Input: in, Impl: d1, Expect: d0})
			return
		}
		out2, err2, pan2 := c09Format([]byte(out), "stage.mro")
		if pan2 != "" || err2 != nil || out2 != out {
			r.violate(Violation{Kind: "property", Key: "C09:stage-not-idempotent", What: "formatting the formatter's output changes it",
				Input: in, Impl: out2 + fmt.Sprint(err2, pan2), Expect: out})
		}
	}

	// every text the REAL parser accepted, with its dump (section AcceptedDeclTexts: the range theorem
	// parse_produces_wf_stage_partial evaluated on the real parser's ASTs at the end of this function)
	type accText struct{ dump, text string }
	var accepted []accText
	accept := func(dump, text string) {
		if strings.HasPrefix(dump, "some ") {
			accepted = append(accepted, accText{strings.TrimPrefix(dump, "some "), text})
		}
	}

	n := 1500
	if c.Thorough {
		n *= 8
	}
	cases := make([]*c09sCase, n)
	var reqs [][]string
	for i := range cases {
		cases[i] = c09sGen(c)
		reqs = append(reqs, []string{"C09.fmtstagedecl", cases[i].enc}, []string{"C09.wfstagedecl", cases[i].enc},
			[]string{"C09.stagewidths", cases[i].enc})
	}
	t0 := time.Now()
	reps := c.Drv.AskBatch(reqs)
	r.note("stagedecl: model fmt/wf/widths of %d stages: %v", n, time.Since(t0).Round(time.Millisecond))
	reqs = nil
	for i, k := range cases {
		k.text = unhx(reps[3*i])
		k.wf = reps[3*i+1] == "wf=true"
		k.re = c09sSpell(c, k)
		reqs = append(reqs, []string{"C09.parsestagedecl", hx(k.text)})
		if k.re != "" {
			reqs = append(reqs, []string{"C09.parsestagedecl", hx(k.re)})
		} else {
			reqs = append(reqs, []string{"C09.parsestagedecl", hx(k.text)})
		}
	}
	t0 = time.Now()
	reps2 := c.Drv.AskBatch(reqs)
	r.note("stagedecl: model parse of %d texts: %v", len(reqs), time.Since(t0).Round(time.Millisecond))
	// what the real parser reads from the respellings, to be printed by the model
	reqs = nil
	var idx []int
	dRe := make([]string, n)
	for i, k := range cases {
		if k.re == "" {
			continue
		}
		dRe[i] = c09sDump(k.re)
		if strings.HasPrefix(dRe[i], "some ") {
			reqs = append(reqs, []string{"C09.fmtstagedecl", strings.TrimPrefix(dRe[i], "some ")})
			idx = append(idx, i)
		}
	}
	t0 = time.Now()
	reps3 := c.Drv.AskBatch(reqs)
	r.note("stagedecl: model fmt of %d parsed respellings: %v", len(reqs), time.Since(t0).Round(time.Millisecond))
	fmtOfRe := map[int]string{}
	t0 = time.Now()
	for j, i := range idx {
		fmtOfRe[i] = unhx(reps3[j])
	}
	var pool []string // printed texts for the mutations
	for i, k := range cases {
		s := k.st
		in := map[string]interface{}{"stage": k.enc, "text": k.text}
		w := strings.Fields(reps[3*i+2])
		quirk := len(w) == 6 && (w[2] != w[4] || w[3] != w[5])
		over := false
		if len(w) == 6 {
			iw, _ := strconv.Atoi(w[2])
			hw, _ := strconv.Atoi(w[3])
			over = iw > 30 || hw > 20
		}
		r.hist(fmt.Sprintf("stagedecl:wf=%v,split=%v,chunk-params=%v,over-30/20=%v,columns-differ=%v", k.wf, s.split,
			len(s.cins)+len(s.couts) > 0, over, quirk))
		if s.res != nil {
			neg := (s.res.mem != nil && *s.res.mem < 0 && *s.res.mem > -1024) || (s.res.vmem != nil && *s.res.vmem < 0 && *s.res.vmem > -1024)
			r.hist(fmt.Sprintf("stagedecl:resources:negative-below-1GB=%v", neg))
		}
		r.count("stagedecl:"+k.enc, s.split || s.res != nil || s.hasRetain || len(s.ins)+len(s.outs) > 0)
		if i%373 == 0 {
			r.sample(map[string]string{"stage_declaration": k.text})
		}
		mp := c09sCanon(reps2[2*i])
		d0 := c09sDump(k.text)
		accept(d0, k.text)
		if d0 != mp {
			mismatch(kParse, "the syntax.Stage read from the model's text differs from the model's parseStage of it", bParse, in, d0, mp)
		}
		if k.wf {
			if reps2[2*i] != "some "+k.enc {
				mismatch("C09:stage-roundtrip-model", "the model's parseStage (fmtStage s) is not s for a well-formed stage (theorem parse_format_stage evaluated)",
					"Props.C09.parse_format_stage", in, "", reps2[2*i])
			}
			if d0 != "some "+k.enc {
				mismatch(kParse, "the real parser does not read the model's text of a well-formed stage as that stage", bParse, in, d0, "some "+k.enc)
			}
			out, err, pan := c09Format([]byte(k.text), "stage.mro")
			if pan != "" || err != nil || out != k.text {
				mismatch(kFmt, "the real formatter does not reproduce the model's text of a well-formed stage", bFmt, in, c09dImpl(out, err, pan), k.text)
			}
			property(k.text, d0, "model text")
			whole := func(p *int64) bool { return p == nil || *p%1024 == 0 }
			if c09sASCII(k.text) && (s.res == nil || (whole(s.res.mem) && whole(s.res.vmem))) {
				pool = append(pool, k.text)
			}
		} else {
			r.hist("stagedecl:not-wf:real=" + strings.SplitN(d0, " ", 2)[0])
		}
		if k.re == "" {
			r.hist("stagedecl:no-respelling")
			continue
		}
		inRe := map[string]interface{}{"stage": k.enc, "text": k.re}
		mpRe := c09sCanon(reps2[2*i+1])
		accept(dRe[i], k.re)
		if dRe[i] != mpRe {
			mismatch(kParse, "the syntax.Stage read from a respelled stage differs from the model's parseStage of it", bParse, inRe, dRe[i], mpRe)
		}
		if k.wf && dRe[i] != "some "+k.enc {
			mismatch(kParse, "a respelling of a well-formed stage does not read as the stage", bParse, inRe, dRe[i], "some "+k.enc)
		}
		if want, ok := fmtOfRe[i]; ok {
			out, err, pan := c09Format([]byte(k.re), "stage.mro")
			if pan != "" || err != nil || out != want {
				mismatch(kFmt, "the real formatter on a respelled stage differs from the model's fmtStage of the stage it read", bFmt, inRe, c09dImpl(out, err, pan), want)
			}
			if k.wf && want != k.text {
				mismatch(kFmt, "the model's fmtStage of a respelled well-formed stage is not the text of the stage", bFmt, inRe, want, k.text)
			}
			property(k.re, dRe[i], "respelling")
		}
	}

	r.note("stagedecl: real parser/formatter on the texts: %v", time.Since(t0).Round(time.Millisecond))

	// ================= near misses =================
	t0 = time.Now()
	type nm struct {
		text string
		list bool
	}
	var nms []nm
	for _, t := range c09sNearMisses {
		nms = append(nms, nm{t, true})
	}
	nMut := 900
	if c.Thorough {
		nMut *= 8
	}
	for j := 0; j < nMut && len(pool) > 0; j++ {
		t := pool[c.Rng.Intn(len(pool))]
		if j%3 == 0 {
			nms = append(nms, nm{c09dMutate(c, t), false})
		} else {
			nms = append(nms, nm{c09sLineEdit(c, t), false})
		}
	}
	reqs = nil
	for _, x := range nms {
		reqs = append(reqs, []string{"C09.parsestagedecl", hx(x.text)})
	}
	reps = c.Drv.AskBatch(reqs)
	reqs = nil
	idx = nil
	dNm := make([]string, len(nms))
	for i, x := range nms {
		dNm[i] = c09sDump(x.text)
		r.hist(fmt.Sprintf("stagedecl:near-miss:list=%v:real=%s", x.list, strings.SplitN(dNm[i], " ", 2)[0]))
		r.count("stagedeclnm:"+x.text, true)
		if dNm[i] == "other" {
			continue
		}
		in := map[string]interface{}{"text": x.text}
		if strings.HasPrefix(dNm[i], "panic:") {
			r.violate(Violation{Kind: "property", Key: "C09:stage-parser-panic", What: "the parser panics", Input: in, Impl: dNm[i], Expect: "an error or an AST"})
			continue
		}
		accept(dNm[i], x.text)
		if mp := c09sCanon(reps[i]); dNm[i] != mp {
			mismatch(kParse, "near-miss text: real parser and model reader disagree", bParse, in, dNm[i], mp)
		}
		if x.list && strings.HasPrefix(dNm[i], "some ") {
			reqs = append(reqs, []string{"C09.fmtstagedecl", strings.TrimPrefix(dNm[i], "some ")})
			idx = append(idx, i)
		}
	}
	reps = c.Drv.AskBatch(reqs)
	for j, i := range idx {
		in := map[string]interface{}{"text": nms[i].text, "stage": dNm[i]}
		out, err, pan := c09Format([]byte(nms[i].text), "stage.mro")
		if want := unhx(reps[j]); pan != "" || err != nil || out != want {
			mismatch(kFmt, "the real formatter on a hand-written stage differs from the model's fmtStage of the stage it read", bFmt, in, c09dImpl(out, err, pan), want)
		}
		property(nms[i].text, dNm[i], "near-miss list")
	}
	r.note("stagedecl: %d near misses: %v", len(nms), time.Since(t0).Round(time.Millisecond))

	// ================= accepted texts: the range of the REAL parser =================
	// Props.C09.parse_produces_wf_stage_partial (section AcceptedDeclTexts) evaluated on the real
	// parser's dump (threads as Go holds it: %g of roundUpTo(float32, 100), the `h` of the theorem) of
	// every accepted printed, respelled and near-miss text: hypotheses stageStrsValid (F6b) and
	// stageMBValid (F25) => wfStage.
	// the recorded exceptions (F6b, F25) and a non-canonical threads numeral on hand-written texts, so
	// that the filter is exercised on every run
	for _, t := range []string{
		"stage S(src py \"x\",) using (mem_gb = 9007199254740992,)",
		"stage S(src py \"x\",) using (vmem_gb = -1e30, threads = 007,)",
		"stage S(src py \"x\",) using (special = \"\\xff\",)",
		"stage S(src py \"x\\xff y\",)",
		"stage S(in int a \"\\200\", src py \"x\",) using (threads = 007, memgb = 0.50,)",
		"stage S(src py \"x\",) using (threads = 0.065, mem_gb = 255.999,)",
		"stage S(src py \"x\",) using (threads = -0.0,)", // roundUpTo maps the negative zero to 0 (clause `range` of HOK)
		"stage S(src py \"x\",) using (threads = 1e6, vmem_gb = 1e-9,)",
		"stage S(src py \"x\",) using (mem_gb = 0.5000000001,)",                     // float32: 512 MB, exactly: 513 MB
		"stage S(src py \"x\",) using (mem_gb = 256.04296875, vmem_gb = -256.042,)", // F29: beyond stageMB32Valid
	} {
		accept(c09sDump(t), t)
	}
	t0 = time.Now()
	reqs = nil
	for _, a := range accepted {
		reqs = append(reqs, []string{"C09.stagestrsvalid", a.dump}, []string{"C09.wfstagedecl", a.dump},
			[]string{"C09.parsestagedecl32", hx(a.text)})
	}
	reps = c.Drv.AskBatch(reqs)
	for i, a := range accepted {
		hyp, wf := reps[3*i], reps[3*i+1]
		// parseStage32 (mem_gb / vmem_gb through the float32 rounding of the literal) is the real parser
		if mp32 := c09sCanon(reps[3*i+2]); mp32 != "some "+a.dump {
			mismatch(kParse, "the syntax.Stage the real parser reads from an accepted text differs from the model's parseStage32 (the reader with the float32 reading of mem_gb/vmem_gb)",
				"correspondence C09.parsestagedecl32 (Martian.FormatStage.parseStage32 vs the grammar's stage production)",
				map[string]interface{}{"text": a.text}, "some "+a.dump, mp32)
		}
		if !strings.HasPrefix(hyp, "strs=") || !strings.HasPrefix(wf, "wf=") {
			r.hist("stagedecl:accepted:dump-not-decoded") // e.g. a resource value that is not a whole number of MB
			continue
		}
		r.hist("stagedecl:accepted:" + strings.ReplaceAll(hyp, " ", ",") + "," + wf)
		r.count("stagedeclacc:"+a.dump, true)
		if strings.HasPrefix(hyp, "strs=true mb=true mb32=true") && wf != "wf=true" { // hypothesis stageMB32Valid (F29's range = wfMB; F25 subsumed)
			r.violate(Violation{Kind: "correspondence", Key: "C09:accepted-decl-not-wf",
				What:  "the real parser accepts a stage text whose AST satisfies the exception hypotheses (stageStrsValid, stageMB32Valid) but not wfStage (the range theorem evaluated on the real parser's result)",
				Input: map[string]interface{}{"text": a.text, "kind": "stage"}, Impl: a.dump, Model: hyp + " " + wf,
				Broken: "Props.C09.parse_produces_wf_stage_partial (AcceptedDeclTexts)"})
		}
	}
	r.note("stagedecl: hypotheses and wfStage of %d accepted texts: %v", len(accepted), time.Since(t0).Round(time.Millisecond))
}
