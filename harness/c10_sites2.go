package main

// C10, site programme round 2: loops over a Go map whose effect is not an error list
// (SplitExp.CallMode, SplitExp.InnerMapSource, RefExp.FindRefs over fork indices, the
// all-true branch of resolveDisableMap, findSplitCalls / resolveForks, printer.DumpComments,
// findMissingIncludes).
//   * provocations (run repeatedly by c10RunProvocations; byte-identical text required);
//   * differentials: findSplitCalls on generated expressions vs the Lean walk (insert +
//     conditional delete) with the entries of every collection in the order given, reversed
//     and shuffled; SplitExp.CallMode on generated map / array literals vs the Lean fold.

import (
	"encoding/json"
	"fmt"
	"path/filepath"
	"sort"
	"strings"

	"github.com/martian-lang/martian/martian/core"
	"github.com/martian-lang/martian/martian/syntax"
)

func c10IntArray(vs ...int64) *syntax.ArrayExp {
	a := &syntax.ArrayExp{}
	for _, v := range vs {
		a.Value = append(a.Value, &syntax.IntExp{Value: v})
	}
	return a
}

func c10Site2Provocations(c *Ctx, out map[string]func() string) {
	c10RuntimeProvocations(c, out)
	n := 11
	ref := func(i int) *syntax.RefExp {
		return &syntax.RefExp{Kind: syntax.KindCall, Id: "S", OutputId: fmt.Sprint("o", i)}
	}
	mode := func(elems map[string]syntax.Exp) string {
		m := &syntax.MapExp{Kind: syntax.KindMap, Value: elems}
		return (&syntax.SplitExp{Value: m, Source: m}).CallMode().String()
	}
	out["SplitExp.CallMode(null and unknown elements)"] = func() string {
		e := map[string]syntax.Exp{}
		for i := 0; i < n; i++ {
			if i%2 == 0 {
				e[fmt.Sprintf("k%02d", (i*7)%n)] = &syntax.NullExp{}
			} else {
				e[fmt.Sprintf("k%02d", (i*7)%n)] = ref(i)
			}
		}
		return mode(e)
	}
	out["SplitExp.CallMode(null and plain elements)"] = func() string {
		return mode(map[string]syntax.Exp{"a": &syntax.NullExp{}, "b": &syntax.IntExp{Value: 1}, "c": &syntax.NullExp{}})
	}
	out["SplitExp.CallMode(null, array and unknown elements)"] = func() string {
		return mode(map[string]syntax.Exp{"a": &syntax.NullExp{}, "b": c10IntArray(1, 2), "c": ref(1), "d": &syntax.NullExp{}, "e": ref(2)})
	}
	inner := func(elems map[string]syntax.Exp) string {
		m := &syntax.MapExp{Kind: syntax.KindMap, Value: elems}
		s := (&syntax.SplitExp{Value: m, Source: m}).InnerMapSource()
		if s == nil {
			return "<nil>"
		}
		return fmt.Sprintf("%T %s known=%v len=%d mode=%s", s, s.GoString(), s.KnownLength(), s.ArrayLength(), s.CallMode())
	}
	out["SplitExp.InnerMapSource(arrays of equal length)"] = func() string {
		e := map[string]syntax.Exp{}
		for i := 0; i < n; i++ {
			e[fmt.Sprintf("k%02d", (i*7)%n)] = c10IntArray(int64(i), int64(i+100))
		}
		return inner(e)
	}
	out["SplitExp.InnerMapSource(maps with equal keys)"] = func() string {
		e := map[string]syntax.Exp{}
		for i := 0; i < n; i++ {
			e[fmt.Sprintf("k%02d", (i*7)%n)] = &syntax.MapExp{Kind: syntax.KindMap,
				Value: map[string]syntax.Exp{"x": &syntax.IntExp{Value: int64(i)}, "y": &syntax.IntExp{Value: int64(i + 100)}}}
		}
		return inner(e)
	}
	out["SplitExp.InnerMapSource(arrays of different lengths)"] = func() string {
		e := map[string]syntax.Exp{}
		for i := 0; i < n; i++ {
			e[fmt.Sprintf("k%02d", (i*7)%n)] = c10IntArray(make([]int64, 1+i%3)...)
		}
		return inner(e)
	}
	out["RefExp.FindRefs(fork index sources)"] = func() string { return syntax.VerifC10RefWithForkSources(n) }
	out["resolveDisableMap(all entries true)"] = func() string { return syntax.VerifC10DisableAllTrue(n) }
	// printer.DumpComments: a compiled AST of many files, each ending with a comment and holding a
	// comment before and after its declaration; Ast.Format prints what is left at the end in map order
	{
		dir := filepath.Join(c.Scratch, "c10dump")
		files := map[string]string{}
		var incs []string
		for i := 0; i < n; i++ {
			fn := fmt.Sprintf("inc%02d.mro", (i*7)%n)
			files[fn] = fmt.Sprintf("# head of %d\nfiletype f%d;\n\n# before stage %d\nstage S%d(\n    in  int x,\n    out f%d r,\n    src comp \"bin/x\",\n)\n\n# trailing comment of file %d\n", i, i, i, i, i, i)
			incs = append(incs, fmt.Sprintf("@include %q", fn))
		}
		top := strings.Join(incs, "\n") + "\n\n# about P\npipeline P(\n    in  int x,\n    out f0  r,\n)\n{\n    call S0(\n        x = self.x,\n    )\n\n    return (\n        r = S0.r,\n    )\n}\n\n# trailing comment of the top file\n"
		out["printer.DumpComments(trailing comments in every file)"] = func() string {
			if err := c15Write(dir, files); err != nil {
				return "WRITE-ERR " + err.Error()
			}
			_, _, ast, err := syntax.ParseSourceBytes([]byte(top), filepath.Join(dir, "top.mro"), []string{dir}, false)
			if err != nil {
				return "ERR " + strings.ReplaceAll(err.Error(), dir, "$D")
			}
			return strings.ReplaceAll(ast.Format(), dir, "$D")
		}
	}
	// findMissingIncludes / fixIncludes: a file that uses file types and struct types declared in files
	// it does not include: the missing types are collected from a map and appended to the file
	{
		dir := filepath.Join(c.Scratch, "c10types")
		files := map[string]string{}
		var ins []string
		for i := 0; i < n; i++ {
			if i%2 == 0 {
				files[fmt.Sprintf("types%02d.mro", i)] = fmt.Sprintf("filetype ft%02d;\n\nstage DEF%02d(\n    in  ft%02d x,\n    out int   r,\n    src comp  \"bin/d\",\n)\n", (i*7)%n, i, (i*7)%n)
				ins = append(ins, fmt.Sprintf("    in  ft%02d a%02d,", (i*7)%n, i))
			} else {
				files[fmt.Sprintf("types%02d.mro", i)] = fmt.Sprintf("struct ST%02d(\n    int x,\n)\n\nstage DEF%02d(\n    in  ST%02d x,\n    out int  r,\n    src comp \"bin/d\",\n)\n", (i*7)%n, i, (i*7)%n)
				ins = append(ins, fmt.Sprintf("    in  ST%02d a%02d,", (i*7)%n, i))
			}
		}
		files["user.mro"] = "stage USER(\n" + strings.Join(ins, "\n") + "\n    out int  r,\n    src comp \"bin/u\",\n)\n"
		out["Parser.findMissingIncludes(missing types)"] = func() string {
			if err := c15Write(dir, files); err != nil {
				return "WRITE-ERR " + err.Error()
			}
			txt, err := syntax.FormatFile(filepath.Join(dir, "user.mro"), true, []string{dir})
			return strings.ReplaceAll(txt+fmt.Sprint(" / ", err), dir, "$D")
		}
	}
}

// ---- findSplitCalls differential ---------------------------------------------------------------

type c10SNode struct {
	kind  byte // L S M N A
	c     string
	known bool
	cs    []string
	kids  []*c10SNode
}

func c10GenSTree(c *Ctx, depth int) *c10SNode {
	call := func() string { return fmt.Sprintf("c%d", c.Rng.Intn(5)) }
	k := c.Rng.Intn(10)
	if depth <= 0 {
		k = 0
	}
	switch {
	case k <= 1:
		n := &c10SNode{kind: 'L'}
		seen := map[string]bool{}
		for i := c.Rng.Intn(3); i > 0; i-- {
			if x := call(); !seen[x] {
				seen[x] = true
				n.cs = append(n.cs, x)
			}
		}
		return n
	case k <= 3:
		return &c10SNode{kind: 'S', c: call(), known: c.Rng.Intn(2) == 0, kids: []*c10SNode{c10GenSTree(c, depth-1)}}
	case k <= 5:
		return &c10SNode{kind: 'M', c: call(), kids: []*c10SNode{c10GenSTree(c, depth-1)}}
	default:
		n := &c10SNode{kind: 'N'}
		if k == 9 {
			n.kind = 'A'
		}
		for i := c.Rng.Intn(5); i > 0; i-- {
			n.kids = append(n.kids, c10GenSTree(c, depth-1))
		}
		return n
	}
}

func (n *c10SNode) goDesc(sb *strings.Builder) {
	switch n.kind {
	case 'L':
		cs := "."
		if len(n.cs) > 0 {
			cs = strings.Join(n.cs, ",")
		}
		fmt.Fprintf(sb, "L %s ", cs)
	case 'S':
		fmt.Fprintf(sb, "S %s %s ", n.c, b01(n.known))
		n.kids[0].goDesc(sb)
	case 'M':
		fmt.Fprintf(sb, "M %s ", n.c)
		n.kids[0].goDesc(sb)
	default:
		fmt.Fprintf(sb, "%c %d ", n.kind, len(n.kids))
		for _, k := range n.kids {
			k.goDesc(sb)
		}
	}
}

// leanDesc writes the tree for the driver; order: 0 as given, 1 reversed, 2 shuffled (every collection).
func (n *c10SNode) leanDesc(c *Ctx, sb *strings.Builder, onlyUnknown bool, order int) {
	switch n.kind {
	case 'L':
		fmt.Fprintf(sb, "L %s ", hxList(n.cs))
	case 'S':
		fmt.Fprintf(sb, "S %s %s ", hx(n.c), b01(!onlyUnknown || !n.known))
		n.kids[0].leanDesc(c, sb, onlyUnknown, order)
	case 'M':
		fmt.Fprintf(sb, "M %s ", hx(n.c))
		n.kids[0].leanDesc(c, sb, onlyUnknown, order)
	default:
		fmt.Fprintf(sb, "N %d ", len(n.kids))
		for _, j := range c10Orders(c, len(n.kids))[order] {
			n.kids[j].leanDesc(c, sb, onlyUnknown, order)
		}
	}
}

func c10FindSplitCallsDifferential(c *Ctx, n int) {
	r := c.Res
	type kase struct {
		desc        string
		initial     []string
		onlyUnknown bool
		want        string
	}
	var cases []kase
	var reqs [][]string
	for i := 0; i < n; i++ {
		t := c10GenSTree(c, 4)
		if t.kind != 'N' { // the interesting root: a map literal / the inputs of a call
			t = &c10SNode{kind: 'N', kids: []*c10SNode{t, c10GenSTree(c, 3), c10GenSTree(c, 3)}}
		}
		var sb strings.Builder
		t.goDesc(&sb)
		k := kase{desc: strings.TrimSpace(sb.String()), onlyUnknown: c.Rng.Intn(3) == 0}
		for j := 0; j < 5; j++ {
			if c.Rng.Intn(4) == 0 {
				k.initial = append(k.initial, fmt.Sprintf("c%d", j))
			}
		}
		ids, err := syntax.VerifC10FindSplitCalls(k.desc, k.initial, k.onlyUnknown)
		if err != nil {
			r.note("findSplitCalls differential: real code failed on %q: %v", k.desc, err)
			continue
		}
		sort.Strings(ids)
		k.want = hxList(ids)
		for order := 0; order < 3; order++ {
			var lb strings.Builder
			t.leanDesc(c, &lb, k.onlyUnknown, order)
			reqs = append(reqs, []string{"C10.fsc", strings.TrimSpace(lb.String()), hxList(k.initial)})
		}
		cases = append(cases, k)
	}
	reps := c.Drv.AskBatch(reqs)
	for i, k := range cases {
		r.count("fsc\x00"+k.desc+"\x00"+strings.Join(k.initial, ",")+b01(k.onlyUnknown), strings.Contains(k.desc, "M "))
		r.hist("findSplitCalls-differential")
		for j := 0; j < 3; j++ {
			r.Evals++
			f := strings.Fields(reps[3*i+j])
			if len(f) != 2 || f[0] != k.want || f[1] != k.want {
				r.violate(Violation{Kind: "correspondence", Key: "C10:model-mismatch:findSplitCalls",
					What: fmt.Sprintf("findSplitCalls on a generated expression leaves a different set of calls than the Lean walk (insert + conditional "+
						"delete) or its closed form S ∪ free, with the entries of every collection in order %d of: as given, reversed, shuffled", j),
					Input: map[string]interface{}{"expression": k.desc, "initial": k.initial, "onlyUnknown": k.onlyUnknown, "request": reqs[3*i+j]},
					Impl:  k.want, Model: reps[3*i+j],
					Broken: "correspondence C10.fsc (Martian.Determinism.STree.walk; theorems findSplitCalls_closed_form, findSplitCalls_order_independent)"})
				break
			}
		}
	}
}

// ---- SplitExp.CallMode differential ------------------------------------------------------------

func c10CallModeDifferential(c *Ctx, n int) {
	r := c.Res
	kinds := []byte("xamnu")
	mk := func(kind byte, i int) syntax.Exp {
		var e syntax.Exp
		switch kind {
		case 'x':
			e = &syntax.IntExp{Value: int64(i)}
		case 'a':
			e = c10IntArray(int64(i))
		case 'm':
			e = &syntax.MapExp{Kind: syntax.KindMap, Value: map[string]syntax.Exp{"q": &syntax.IntExp{Value: int64(i)}}}
		case 'n':
			e = &syntax.NullExp{}
		default:
			e = &syntax.RefExp{Kind: syntax.KindCall, Id: "S", OutputId: fmt.Sprint("o", i)}
		}
		if c.Rng.Intn(5) == 0 { // the fold looks through conditionally disabled elements
			e = &syntax.DisabledExp{Disabled: &syntax.RefExp{Kind: syntax.KindCall, Id: "D", OutputId: "off"}, Value: e}
		}
		return e
	}
	type kase struct {
		text    string
		mapMode string
		arrMode string
	}
	var cases []kase
	var reqs [][]string
	for i := 0; i < n; i++ {
		nk := c.Rng.Intn(7)
		keys := c10Keys(c.Rng, nk)
		ks := make([]byte, nk)
		m := &syntax.MapExp{Kind: syntax.KindMap, Value: map[string]syntax.Exp{}}
		a := &syntax.ArrayExp{}
		var fs []string
		for j, k := range keys {
			ks[j] = kinds[c.Rng.Intn(len(kinds))]
			if c.Rng.Intn(2) == 0 { // bias towards the asymmetric kinds
				ks[j] = "nux"[c.Rng.Intn(3)]
			}
			m.Value[k] = mk(ks[j], j)
			a.Value = append(a.Value, mk(ks[j], j))
			fs = append(fs, hx(k)+":"+string(ks[j]))
		}
		k := kase{text: fmt.Sprintf("%q %s", keys, ks),
			mapMode: (&syntax.SplitExp{Value: m, Source: m}).CallMode().String(),
			arrMode: (&syntax.SplitExp{Value: a, Source: a}).CallMode().String()}
		for _, ord := range c10Orders(c, nk) {
			var g []string
			for _, j := range ord {
				g = append(g, fs[j])
			}
			req := "."
			if len(g) > 0 {
				req = strings.Join(g, ",")
			}
			reqs = append(reqs, []string{"C10.callmode", req})
		}
		cases = append(cases, k)
	}
	reps := c.Drv.AskBatch(reqs)
	for i, k := range cases {
		r.count("callmode\x00"+k.text, strings.ContainsAny(k.text[strings.LastIndex(k.text, " "):], "nu"))
		r.hist("SplitExp.CallMode-differential")
		for j := 0; j < 3; j++ {
			r.Evals++
			f := strings.Fields(reps[3*i+j])
			// f[0] = fold over the sorted keys (MapExp branch); f[1] = fold in the order given (order 0 = the
			// order of the array literal: the ArrayExp branch of the real function)
			if len(f) != 3 || f[2] != "true" || f[0] != k.mapMode || (j == 0 && f[1] != k.arrMode) {
				r.violate(Violation{Kind: "correspondence", Key: "C10:model-mismatch:SplitExp.CallMode",
					What: fmt.Sprintf("SplitExp.CallMode of a generated literal (map: %s, array in the same order: %s) differs from the Lean fold of the element "+
						"modes (callMode over the sorted keys / callModeIn in the order given), entries in order %d of: as given, reversed, shuffled", k.mapMode, k.arrMode, j),
					Input: map[string]interface{}{"keys and kinds (x plain, a array, m map, n null, u reference)": k.text, "request": reqs[3*i+j]},
					Impl:  map[string]string{"map": k.mapMode, "array": k.arrMode}, Model: reps[3*i+j],
					Broken: "correspondence C10.callmode (Martian.Determinism.callMode; theorem callMode_order_independent)"})
				break
			}
		}
	}
}

// ---- core run-time sites -------------------------------------------------------------------------

func c10RuntimeSrc(n int) string {
	var calls []string
	for i := 0; i < n; i++ {
		calls = append(calls, fmt.Sprintf("    call S as S%02d(\n        x = self.x,\n    )\n", (i*7)%n))
	}
	return "struct Pt(\n    int x,\n    int y,\n    string label,\n)\n\nstage S(\n    in  int x,\n    out int r,\n    src comp \"bin/s\",\n)\n\npipeline P(\n    in  int x,\n    out int r,\n    out map<Pt> pts,\n)\n{\n" +
		strings.Join(calls, "\n") + "\n    return (\n        r = S00.r,\n        pts = {},\n    )\n}\n\ncall P(\n    x = 1,\n)\n"
}

func c10RuntimeProvocations(c *Ctx, out map[string]func() string) {
	n := 11
	dir := filepath.Join(c.Scratch, "c10runtime")
	src := c10RuntimeSrc(n)
	world := func() (*core.VerifWorld, string) {
		w, err := core.VerifNewWorld(src, "ps", dir)
		if err != nil {
			return nil, "WORLD-ERR " + err.Error()
		}
		if err := w.VerifC10AddForks(); err != nil {
			return nil, "FORK-ERR " + err.Error()
		}
		return w, ""
	}
	out["Fork.getStages(11 subnodes)"] = func() string {
		w, e := world()
		if w == nil {
			return e
		}
		return w.VerifC10Stages("ID.ps.P")
	}
	out["Fork.serializePerf(11 subnodes)"] = func() string {
		w, e := world()
		if w == nil {
			return e
		}
		// every sub-fork has a VDR kill report naming its own paths and errors
		for i := 0; i < n; i++ {
			if err := w.VerifC10WriteVdrKill(fmt.Sprintf("ID.ps.P.S%02d", i),
				[]string{fmt.Sprintf("/p/S%02d/a", i), fmt.Sprintf("/p/S%02d/b", i)},
				[]string{fmt.Sprintf("could not remove /p/S%02d/c", i)}); err != nil {
				return "WRITE-ERR " + strings.ReplaceAll(err.Error(), dir, "$D")
			}
		}
		return strings.ReplaceAll(w.VerifC10SerializePerf("ID.ps.P"), dir, "$D")
	}
	out["Fork.verifyPipelineOutput(invalid entries)"] = func() string {
		w, e := world()
		if w == nil {
			return e
		}
		outs := core.MarshalerMap{}
		for i := 0; i < n; i++ {
			st := core.MarshalerMap{"x": json.RawMessage("1"), "y": json.RawMessage("2"), "label": json.RawMessage("\"l\"")}
			st[[]string{"x", "y", "label"}[i%3]] = json.RawMessage(fmt.Sprintf("[%d]", i))
			outs[fmt.Sprintf("k%02d", (i*7)%n)] = st
		}
		ok, msg := w.VerifC10VerifyPipelineOutput("ID.ps.P", outs, syntax.TypeId{Tname: "Pt", MapDim: 1})
		return fmt.Sprint(ok, " ", msg)
	}
}

// c10UnknownKeysDifferential: getUnknownKeys on every form of run-time map; what its consumers do with the
// keys (sort them, count them) must not depend on the order it returned them in.
func c10UnknownKeysDifferential(c *Ctx, n int) {
	r := c.Res
	type kase struct {
		form string
		keys []string
		want string
	}
	var cases []kase
	var reqs [][]string
	for i := 0; i < n; i++ {
		keys := c10Keys(c.Rng, c.Rng.Intn(14))
		var v json.Marshaler
		form := []string{"MapExp", "MarshalerMap", "LazyArgumentMap", "RawMessage", "reflect"}[i%5]
		switch form {
		case "MapExp":
			m := &syntax.MapExp{Kind: syntax.KindMap, Value: map[string]syntax.Exp{}}
			for _, k := range keys {
				m.Value[k] = &syntax.IntExp{Value: 1}
			}
			v = m
		case "MarshalerMap":
			m := core.MarshalerMap{}
			for _, k := range keys {
				m[k] = json.RawMessage("1")
			}
			v = m
		case "LazyArgumentMap":
			m := core.LazyArgumentMap{}
			for _, k := range keys {
				m[k] = json.RawMessage("1")
			}
			v = m
		case "RawMessage":
			m := map[string]int{}
			for _, k := range keys {
				m[k] = 1
			}
			b, _ := json.Marshal(m)
			v = json.RawMessage(b)
		default:
			m := core.VerifC10RawMap{}
			for _, k := range keys {
				m[k] = 1
			}
			v = m
		}
		got, err := core.VerifC10UnknownKeys(v)
		if err != nil {
			r.note("getUnknownKeys(%s) failed on %q: %v", form, keys, err)
			continue
		}
		sorted := append([]string(nil), keys...)
		sort.Strings(sorted)
		if len(got) != len(keys) {
			r.violate(Violation{Kind: "correspondence", Key: "C10:model-mismatch:getUnknownKeys",
				What:  "getUnknownKeys returns a different number of keys than the map has",
				Input: map[string]interface{}{"form": form, "keys": keys}, Impl: got, Broken: "unknownKeys_order_independent"})
			continue
		}
		cases = append(cases, kase{form: form, keys: got, want: hxList(sorted)})
		reqs = append(reqs, []string{"C10.sortkeys", hxList(got)})
	}
	reps := c.Drv.AskBatch(reqs)
	for i, k := range cases {
		r.count("unknownkeys\x00"+k.form+"\x00"+k.want, len(k.keys) >= 3)
		r.hist("getUnknownKeys-differential")
		r.Evals++
		if strings.TrimSpace(reps[i]) != k.want {
			r.violate(Violation{Kind: "correspondence", Key: "C10:model-mismatch:getUnknownKeys",
				What:  "the keys returned by getUnknownKeys, sorted by the Lean model of its consumers, are not the sorted keys of the map",
				Input: map[string]interface{}{"form": k.form, "returned": k.keys}, Impl: k.want, Model: reps[i],
				Broken: "correspondence C10.sortkeys (theorem unknownKeys_order_independent)"})
		}
	}
}

func c10Site2Differentials(c *Ctx) {
	nfsc, nmode := 150, 200
	if c.Thorough {
		nfsc, nmode = 3000, 4000
	}
	c10FindSplitCallsDifferential(c, nfsc)
	c10CallModeDifferential(c, nmode)
	c10UnknownKeysDifferential(c, nmode)
}
