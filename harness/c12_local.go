package main

func runC12Local(c *Ctx) {}
