package main

// C12, part 3: the local job manager.
//  (a) GetSystemReqs vs Martian.Semaphore.normalize on dyadic-rational
//      requests (exactly representable, so the float arithmetic is exact).
//  (b) real jobs through LocalJobManager.Enqueue: every job is a /bin/sh
//      process that logs its start, waits until the harness lets it finish
//      (a file), logs its end.  The schedule is chosen by the PRNG (which
//      running job finishes next); at every quiescent point the reservations
//      of the four semaphores are checked against the limits and against the
//      amounts the model says each running job holds; "nothing runs although
//      jobs are waiting" is reported as a stall.

import (
	"fmt"
	"math"
	"os"
	"path/filepath"
	"strconv"
	"strings"
	"time"

	"github.com/martian-lang/martian/martian/core"
)

type c12Cfg struct {
	MaxCores, MaxMemGB int
	MaxVmemMB          int64
	TPJ, MPJ, EV       int
	Procs              int64
}

func (g c12Cfg) String() string {
	return fmt.Sprintf("%d,%d,%d,%d,%d,%d", g.MaxCores, g.MaxMemGB, g.MaxVmemMB, g.TPJ, g.MPJ, g.EV)
}

func (g c12Cfg) manager() *core.LocalJobManager {
	return core.VerifNewLocalJobManager(g.MaxCores, g.MaxMemGB, g.MaxVmemMB,
		&core.JobManagerSettings{ThreadsPerJob: g.TPJ, MemGBPerJob: g.MPJ, ExtraVmemGB: g.EV}, g.Procs)
}

// a request in exact units: threads in 1/64, memory in MB (1/1024 GB)
type c12Req struct{ T64, MemMb, VmemMb int64 }

func (q c12Req) resources() core.JobResources {
	return core.JobResources{Threads: float64(q.T64) / 64, MemGB: float64(q.MemMb) / 1024, VMemGB: float64(q.VmemMb) / 1024}
}

// centi-cores exactly as ceil/floor(T*100) on the rational k/64, in integers
func (q c12Req) centi() int64 {
	if q.T64 >= 0 {
		return (q.T64*100 + 63) / 64
	}
	return -((-q.T64*100 + 63) / 64)
}

func genC12Req(c *Ctx, g c12Cfg) c12Req {
	pick := func(max int64) int64 {
		switch c.Rng.Intn(12) {
		case 0, 1:
			return 0
		case 2:
			return -(1 + c.Rng.Int63n(max+max/2+2))
		case 3:
			return max
		case 4:
			return max + 1 + c.Rng.Int63n(max+1)
		case 5:
			return -1
		default:
			return 1 + c.Rng.Int63n(max)
		}
	}
	q := c12Req{T64: pick(int64(g.MaxCores) * 64), MemMb: pick(int64(g.MaxMemGB) * 1024)}
	vmax := g.MaxVmemMB
	if vmax <= 0 {
		vmax = int64(g.MaxMemGB) * 2048
	}
	q.VmemMb = pick(vmax)
	if c.Rng.Intn(3) == 0 {
		q.VmemMb = 0
	}
	return q
}

func genC12Cfg(c *Ctx) c12Cfg {
	g := c12Cfg{MaxCores: 1 + c.Rng.Intn(16), MaxMemGB: 1 + c.Rng.Intn(32),
		TPJ: 1 + c.Rng.Intn(3), MPJ: 1 + c.Rng.Intn(6), EV: c.Rng.Intn(4)}
	if c.Rng.Intn(8) == 0 {
		g.TPJ = g.MaxCores + 1 + c.Rng.Intn(3) // default above the limit: clamped
	}
	switch c.Rng.Intn(4) {
	case 0:
		g.MaxVmemMB = 0
	case 1:
		g.MaxVmemMB = int64(g.MaxMemGB)*1024 + int64(c.Rng.Intn(8))*512
	case 2:
		g.MaxVmemMB = int64(g.MaxMemGB+g.EV+1+c.Rng.Intn(8)) * 1024
	default:
		g.MaxVmemMB = 512 + int64(c.Rng.Intn(g.MaxMemGB*1024)) // may be below the memory limit
	}
	return g
}

func f2i(x float64) (int64, bool) {
	r := math.Round(x)
	return int64(r), math.Abs(x-r) < 1e-6
}

func runC12Reqs(c *Ctx) {
	r := c.Res
	ncfg, nreq := 30, 120
	if c.Thorough {
		ncfg, nreq = 300, 400
	}
	reported := 0
	for ci := 0; ci < ncfg; ci++ {
		g := genC12Cfg(c)
		ljm := g.manager()
		sems := ljm.VerifSemaphores()
		// the semaphores setupSemaphores made
		okSizes := sems[0] != nil && sems[1] != nil && sems[0].VerifMaxSize() == int64(g.MaxCores)*100 &&
			sems[1].VerifMaxSize() == int64(g.MaxMemGB)*1024 &&
			((g.MaxVmemMB <= 0 && sems[2] == nil) || (g.MaxVmemMB > 0 && sems[2] != nil && sems[2].VerifMaxSize() == g.MaxVmemMB))
		if !okSizes {
			r.violate(Violation{Kind: "correspondence", Key: "C12:local:semaphore-sizes",
				What:  "setupSemaphores does not create semaphores of size maxCores*100 / maxMemGB*1024 / maxVmemMB",
				Input: g.String(), Broken: "correspondence C12.norm (semaphore sizes assumed by cores_mem_never_rejected)"})
			continue
		}
		var reqs [][]string
		type cs struct {
			q          c12Req
			memCur, vc int64
			out, out2  core.JobResources
		}
		var cases []cs
		for i := 0; i < nreq; i++ {
			q := genC12Req(c, g)
			// vary the current size the adaptive requests look at
			if c.Rng.Intn(3) == 0 {
				sems[1].UpdateSize(c.Rng.Int63n(int64(g.MaxMemGB)*1024 + 1))
				if sems[2] != nil {
					sems[2].UpdateSize(c.Rng.Int63n(g.MaxVmemMB + 1))
				}
			}
			k := cs{q: q, memCur: sems[1].CurrentSize()}
			if sems[2] != nil {
				k.vc = sems[2].CurrentSize()
			}
			in := q.resources()
			k.out = ljm.GetSystemReqs(&in)
			o := k.out
			k.out2 = ljm.GetSystemReqs(&o)
			cases = append(cases, k)
			reqs = append(reqs, []string{"C12.norm", g.String(), strconv.FormatInt(k.memCur, 10), strconv.FormatInt(k.vc, 10),
				fmt.Sprintf("%d,%d,%d", q.centi(), q.MemMb, q.VmemMb)})
		}
		reps := c.Drv.AskBatch(reqs)
		for i, k := range cases {
			special := k.q.T64 <= 0 || k.q.MemMb <= 0 || k.q.VmemMb <= 0 || k.q.T64 > int64(g.MaxCores)*64 || k.q.MemMb > int64(g.MaxMemGB)*1024
			r.count(fmt.Sprintf("norm|%s|%d|%d|%v", g, k.memCur, k.vc, k.q), special)
			r.hist("norm_requests")
			if k.q.MemMb < 0 || k.q.VmemMb < 0 {
				r.hist("norm_adaptive_requests")
			}
			cc, ok1 := f2i(k.out.Threads * 100)
			mm, ok2 := f2i(k.out.MemGB * 1024)
			vv, ok3 := f2i(k.out.VMemGB * 1024)
			got := fmt.Sprintf("%d,%d,%d", cc, mm, vv)
			model := strings.SplitN(reps[i], "|", 2)
			in := map[string]interface{}{"maxCores,maxMemGB,maxVmemMB,threadsPerJob,memGBPerJob,extraVmemGB": g.String(),
				"request": k.q.resources(), "memCurrentSize": k.memCur, "vmemCurrentSize": k.vc,
				"request_centi,memMb,vmemMb": fmt.Sprintf("%d,%d,%d", k.q.centi(), k.q.MemMb, k.q.VmemMb)}
			if i == 0 && ci%7 == 0 {
				r.sample(map[string]interface{}{"GetSystemReqs": in, "result": k.out, "model": reps[i]})
			}
			// direct property monitor: clamped to the limits
			if ok1 && ok2 && (cc > int64(g.MaxCores)*100 || mm > int64(g.MaxMemGB)*1024 || cc <= 0 || mm <= 0) {
				r.violate(Violation{Kind: "property", Key: "C12:local:not-clamped",
					What:  fmt.Sprintf("GetSystemReqs returned %g threads / %g GB for limits %d cores / %d GB", k.out.Threads, k.out.MemGB, g.MaxCores, g.MaxMemGB),
					Input: in, Expect: "0 < threads <= maxCores, 0 < mem <= maxMemGB"})
			}
			if !(ok1 && ok2 && ok3) || len(model) != 2 || model[0] != got {
				if reported < 4 {
					reported++
					r.violate(Violation{Kind: "correspondence", Key: "C12:local:getsystemreqs-model-mismatch",
						What: "LocalJobManager.GetSystemReqs differs from Martian.Semaphore.normalize", Input: in,
						Impl: map[string]interface{}{"result": k.out, "centi,memMb,vmemMb": got}, Model: reps[i],
						Broken: "correspondence C12.norm"})
				}
				continue
			}
			// second application (getJobReqs then Enqueue): exact when threads*100 is a multiple of 25
			if cc%25 == 0 {
				if k.out2 != k.out {
					r.violate(Violation{Kind: "property", Key: "C12:local:not-idempotent",
						What:  "GetSystemReqs applied to its own result changes it (it is applied twice on the way to Acquire)",
						Input: in, Impl: k.out2, Expect: k.out, Broken: "theorem Props.C12.normalize_idempotent (instance)"})
				}
			} else if k.out2.Threads != k.out.Threads {
				r.hist("norm_ieee_ceil_bump_outside_model_domain")
			}
		}
	}
}

// ---- real jobs ----

type c12Job struct {
	id    int
	req   c12Req
	amts  [4]int64 // model: what the job holds on cores, mem, vmem, procs while it runs
	md    *core.Metadata
	dir   string
	state string // "", running, done, failed
}

func readLog(path string) (started, ended map[int]bool) {
	started, ended = map[int]bool{}, map[int]bool{}
	b, _ := os.ReadFile(path)
	for _, l := range strings.Split(string(b), "\n") {
		f := strings.Fields(l)
		if len(f) != 2 {
			continue
		}
		id, err := strconv.Atoi(f[1])
		if err != nil {
			continue
		}
		if f[0] == "S" {
			started[id] = true
		} else if f[0] == "E" {
			ended[id] = true
		}
	}
	return
}

// runLocalRound runs one round; anything it would report is first re-executed
// alone with doubled waits (machine load), and only what shows up again is kept.
func runLocalRound(c *Ctx, round int, g c12Cfg, reqs []c12Req, ovrs []*c12Ovr) {
	r := c.Res
	before := len(r.Violations)
	runLocalRoundOnce(c, round, g, reqs, ovrs)
	if len(r.Violations) == before {
		return
	}
	first := append([]Violation{}, r.Violations[before:]...)
	r.Violations = r.Violations[:before]
	saved := c12Wait
	c12Wait = 2 * saved
	runLocalRoundOnce(c, round+100000, g, reqs, ovrs)
	c12Wait = saved
	r.hist("local_rounds_reexecuted_alone")
	second := append([]Violation{}, r.Violations[before:]...)
	r.Violations = r.Violations[:before]
	seen := map[string]bool{}
	for _, v := range second {
		seen[v.Key] = true
	}
	reported := map[string]bool{}
	for _, v := range first {
		if seen[v.Key] {
			reported[v.Key] = true
		} else {
			r.note("local round %d: %s (%s) did not reproduce when the round was re-executed alone; not reported", round, v.Key, v.What)
		}
	}
	for _, v := range second {
		if reported[v.Key] {
			r.violate(v)
		}
	}
}

// c12Ovr: a per-stage --overrides entry for the chunk phase (fields present when has[i])
type c12Ovr struct {
	has [3]bool // threads, mem_gb, vmem_gb
	val c12Req
}

func (o *c12Ovr) apply(q c12Req) c12Req {
	if o == nil {
		return q
	}
	if o.has[0] {
		q.T64 = o.val.T64
	}
	if o.has[1] {
		q.MemMb = o.val.MemMb
	}
	if o.has[2] {
		q.VmemMb = o.val.VmemMb
	}
	return q
}

func (o *c12Ovr) json() string {
	var f []string
	v := o.val.resources()
	if o.has[0] {
		f = append(f, fmt.Sprintf("%q: %s", "chunk.threads", strconv.FormatFloat(v.Threads, 'g', -1, 64)))
	}
	if o.has[1] {
		f = append(f, fmt.Sprintf("%q: %s", "chunk.mem_gb", strconv.FormatFloat(v.MemGB, 'g', -1, 64)))
	}
	if o.has[2] {
		f = append(f, fmt.Sprintf("%q: %s", "chunk.vmem_gb", strconv.FormatFloat(v.VMemGB, 'g', -1, 64)))
	}
	return "{" + strings.Join(f, ", ") + "}"
}

// Every job's request takes the production path: Node.setChunkJobReqs (stage
// request, --overrides, GetSystemReqs) and then LocalJobManager.Enqueue, as
// Node.runJob does.
func runLocalRoundOnce(c *Ctx, round int, g c12Cfg, reqs []c12Req, ovrs []*c12Ovr) {
	r := c.Res
	dir := filepath.Join(c.Scratch, fmt.Sprintf("local%d", round))
	os.MkdirAll(dir, 0o755)
	logPath := filepath.Join(dir, "log")
	ljm := g.manager()
	sems := ljm.VerifSemaphores()
	limits := [4]int64{}
	for k, s := range sems {
		if s != nil {
			limits[k] = s.VerifMaxSize()
		}
	}
	jobs := make([]*c12Job, len(reqs))
	var nreqs [][]string
	ovr := func(i int) *c12Ovr {
		if i < len(ovrs) {
			return ovrs[i]
		}
		return nil
	}
	for i, q := range reqs {
		q = ovr(i).apply(q)
		nreqs = append(nreqs, []string{"C12.norm", g.String(), strconv.FormatInt(sems[1].CurrentSize(), 10),
			strconv.FormatInt(limits[2], 10), fmt.Sprintf("%d,%d,%d", q.centi(), q.MemMb, q.VmemMb)})
	}
	reps := c.Drv.AskBatch(nreqs)
	input := map[string]interface{}{"maxCores,maxMemGB,maxVmemMB,threadsPerJob,memGBPerJob,extraVmemGB": g.String(),
		"process_semaphore_size": g.Procs, "seed": c.Seed, "round": round}
	var reqDesc []string
	for i, q := range reqs {
		j := &c12Job{id: i, req: q, dir: filepath.Join(dir, fmt.Sprintf("job%d", i))}
		p := strings.SplitN(reps[i], "|", 2)
		if len(p) != 2 {
			r.note("local round %d: driver reply %q", round, reps[i])
			return
		}
		for k, a := range strings.Split(p[1], ",") {
			j.amts[k], _ = strconv.ParseInt(a, 10, 64)
		}
		j.md = core.NewMetadata(fmt.Sprintf("ID.c12.J%d", i), j.dir)
		if err := core.VerifMkdirs(j.md); err != nil {
			r.note("local round %d: mkdirs: %v", round, err)
			return
		}
		jobs[i] = j
		res := q.resources()
		d := fmt.Sprintf("job%d{threads:%g mem_gb:%g vmem_gb:%g", i, res.Threads, res.MemGB, res.VMemGB)
		if o := ovr(i); o != nil {
			d += fmt.Sprintf(" overrides[PIPE.ST%d]=%s", i, o.json())
		}
		reqDesc = append(reqDesc, d+fmt.Sprintf(" => holds %v}", j.amts))
	}
	input["jobs"] = reqDesc
	// the --overrides file
	var ov *core.PipestanceOverrides
	{
		var ents []string
		for i := range reqs {
			if o := ovr(i); o != nil {
				ents = append(ents, fmt.Sprintf("%q: %s", fmt.Sprintf("PIPE.ST%d", i), o.json()))
			}
		}
		ovPath := filepath.Join(dir, "overrides.json")
		content := "{" + strings.Join(ents, ", ") + "}"
		os.WriteFile(ovPath, []byte(content), 0o644)
		input["overrides_file"] = content
		var err error
		if ov, err = core.ReadOverrides(ovPath); err != nil {
			r.note("local round %d: overrides file rejected: %v", round, err)
			return
		}
	}
	// ---- solo phase: every job with an --overrides entry first runs alone, so that what Enqueue
	// reserves for it can be read off the semaphores exactly (and a wrong — e.g. negative — amount
	// is found before it can meet other jobs and corrupt the counters)
	for _, j := range jobs {
		if ovr(j.id) == nil {
			continue
		}
		sdir := filepath.Join(dir, fmt.Sprintf("solo%d", j.id))
		smd := core.NewMetadata(fmt.Sprintf("ID.c12.SOLO%d", j.id), sdir)
		if err := core.VerifMkdirs(smd); err != nil {
			return
		}
		slog := filepath.Join(sdir, "log")
		script := fmt.Sprintf("echo S %d >> %s; while [ ! -e %s/go ]; do sleep 0.01; done; echo E %d >> %s", j.id, slog, sdir, j.id, slog)
		jobDef := j.req.resources()
		fq := fmt.Sprintf("ID.c12.PIPE.ST%d", j.id)
		res := core.VerifNodeJobReqs(ljm, ljm, ov, fq, true, nil, &jobDef, core.STAGE_TYPE_CHUNK)
		ljm.Enqueue("/bin/sh", []string{"-c", script}, map[string]string{}, smd, &res, fq, 0, 0, false)
		refusedExpected := false
		for k, sm := range sems {
			if sm != nil && j.amts[k] > limits[k] {
				refusedExpected = true
			}
		}
		dl := time.Now().Add(c12Wait)
		started, refused := false, false
		for !started && !refused && time.Now().Before(dl) {
			st, _ := readLog(slog)
			started = st[j.id]
			_, err := os.Stat(smd.MetadataFilePath(core.Errors))
			refused = err == nil
			if !started && !refused {
				time.Sleep(2 * time.Millisecond)
			}
		}
		var bad string
		var got [4]int64
		for k, sm := range sems {
			if sm != nil {
				got[k] = sm.Reserved()
			}
		}
		switch {
		case refused && !refusedExpected:
			var msg []byte
			for t := 0; t < 200 && len(msg) == 0; t++ {
				msg, _ = os.ReadFile(smd.MetadataFilePath(core.Errors))
				if len(msg) == 0 {
					time.Sleep(2 * time.Millisecond)
				}
			}
			bad = "C12:local:job-refused|job " + strconv.Itoa(j.id) + " running alone was refused: " + strings.TrimSpace(string(msg))
		case !started && !refused:
			bad = "C12:local:stall|job " + strconv.Itoa(j.id) + " running alone neither started nor was refused"
		case started:
			for k, sm := range sems {
				if sm == nil {
					continue
				}
				name := []string{"cores(centi)", "memory(MB)", "vmem(MB)", "processes"}[k]
				switch {
				case got[k] < 0:
					bad = fmt.Sprintf("C12:local:negative-reservation|%s: job %d alone holds a negative reservation %d (model: %d)", name, j.id, got[k], j.amts[k])
				case got[k] > limits[k]:
					bad = fmt.Sprintf("C12:local:over-limit|%s: job %d alone holds %d > limit %d", name, j.id, got[k], limits[k])
				case got[k] != j.amts[k]:
					bad = fmt.Sprintf("C12:local:amount-mismatch|%s: job %d alone holds %d, the model says %d", name, j.id, got[k], j.amts[k])
				}
				if bad != "" {
					break
				}
			}
		}
		os.WriteFile(filepath.Join(sdir, "go"), nil, 0o644)
		dl = time.Now().Add(c12Wait)
		for time.Now().Before(dl) {
			busy := false
			for _, sm := range sems {
				if sm != nil && (sm.Reserved() != 0 || sm.QueueLength() != 0) {
					busy = true
				}
			}
			if !busy {
				break
			}
			time.Sleep(2 * time.Millisecond)
		}
		r.hist("local_solo_jobs_with_overrides")
		if bad != "" {
			kv := strings.SplitN(bad, "|", 2)
			in2 := map[string]interface{}{}
			for k2, v2 := range input {
				in2[k2] = v2
			}
			in2["job"] = reqDesc[j.id]
			in2["resources_handed_to_Enqueue"] = res
			r.violate(Violation{Kind: "property", Key: kv[0], What: kv[1] + " (request through Node.setChunkJobReqs with --overrides, then LocalJobManager.Enqueue)",
				Input: in2, Impl: map[string]interface{}{"reserved cores,mem,vmem,procs": got, "limits": limits}})
			return // do not let it meet other jobs
		}
	}
	// What Enqueue will be handed must not be negative (Props.C12.normalized_amounts_fit): a
	// negative Acquire corrupts the semaphore's books and the next Release of anybody panics
	// inside the job manager's own goroutine, which would take the whole run down with it.
	for _, j := range jobs {
		jobDef := j.req.resources()
		fq := fmt.Sprintf("ID.c12.PIPE.ST%d", j.id)
		res := core.VerifNodeJobReqs(ljm, ljm, ov, fq, true, nil, &jobDef, core.STAGE_TYPE_CHUNK)
		if res.Threads < 0 || res.MemGB < 0 || (res.VMemGB < 0 && limits[2] > 0) {
			in2 := map[string]interface{}{}
			for k2, v2 := range input {
				in2[k2] = v2
			}
			in2["job"] = reqDesc[j.id]
			in2["resources_handed_to_Enqueue"] = res
			r.violate(Violation{Kind: "property", Key: "C12:local:negative-reservation",
				What:   fmt.Sprintf("job %d: Node.setChunkJobReqs / GetSystemReqs hand Enqueue a negative amount (threads %g, mem %g GB, vmem %g GB): the job would hold a negative reservation", j.id, res.Threads, res.MemGB, res.VMemGB),
				Input:  in2,
				Expect: "0 <= every amount <= its limit (Props.C12.normalized_amounts_fit)"})
			return // do not let it meet other jobs
		}
	}
	for _, j := range jobs {
		script := fmt.Sprintf("echo S %d >> %s; while [ ! -e %s/go ]; do sleep 0.01; done; echo E %d >> %s", j.id, logPath, j.dir, j.id, logPath)
		jobDef := j.req.resources()
		fq := fmt.Sprintf("ID.c12.PIPE.ST%d", j.id)
		res := core.VerifNodeJobReqs(ljm, ljm, ov, fq, true, nil, &jobDef, core.STAGE_TYPE_CHUNK)
		ljm.Enqueue("/bin/sh", []string{"-c", script}, map[string]string{}, j.md, &res, fq, 0, 0, false)
	}
	release := func(j *c12Job) { os.WriteFile(filepath.Join(j.dir, "go"), nil, 0o644) }
	defer func() {
		for _, j := range jobs {
			release(j)
		}
		// let the shells exit
		dl := time.Now().Add(5 * time.Second)
		for time.Now().Before(dl) {
			busy := false
			for _, s := range sems {
				if s != nil && (s.Reserved() != 0 || s.QueueLength() != 0) {
					busy = true
				}
			}
			if !busy {
				break
			}
			time.Sleep(5 * time.Millisecond)
		}
	}()
	violate := func(key, what string, extra interface{}) {
		r.violate(Violation{Kind: "property", Key: key, What: what, Input: input, Impl: extra})
	}
	observe := func() (running, done, failed []*c12Job, queued int) {
		started, ended := readLog(logPath)
		for _, j := range jobs {
			switch {
			case ended[j.id]:
				done = append(done, j)
			case started[j.id]:
				running = append(running, j)
			default:
				if _, err := os.Stat(j.md.MetadataFilePath(core.Errors)); err == nil {
					failed = append(failed, j)
				}
			}
		}
		for _, s := range sems {
			if s != nil {
				queued += s.QueueLength()
			}
		}
		return
	}
	steps := 0
	for {
		// wait for a quiescent point with something running (or everything over)
		var running, done, failed []*c12Job
		var queued int
		deadline := time.Now().Add(c12Wait)
		ok := false
		deadlocked := 0
		for {
			running, done, failed, queued = observe()
			transit := len(jobs) - len(running) - len(done) - len(failed) - queued
			if transit == 0 && (len(running) > 0 || len(done)+len(failed) == len(jobs)) {
				ok = true
				break
			}
			// a deadlock needs no waiting: nothing runs, nobody is in transit, every job that is
			// not over is blocked in ResourceSemaphore.Acquire (goroutine dump: every goroutine
			// that is inside Enqueue is in `chan receive` there) — nobody is left to release
			if transit == 0 && len(running) == 0 && queued > 0 && queued == len(jobs)-len(done)-len(failed) {
				if tot, pk := c12rEnqueueGoroutines(); tot == pk && pk >= queued {
					if deadlocked++; deadlocked >= 3 {
						break
					}
				} else {
					deadlocked = 0
				}
			} else {
				deadlocked = 0
			}
			if time.Now().After(deadline) {
				break
			}
			time.Sleep(2 * time.Millisecond)
		}
		state := func() map[string]interface{} {
			m := map[string]interface{}{"running": len(running), "finished": len(done), "failed": len(failed), "queued_on_semaphores": queued}
			for k, s := range sems {
				if s != nil {
					m[fmt.Sprintf("sem%d_reserved/limit/queue", k)] = fmt.Sprintf("%d/%d/%v", s.Reserved(), limits[k], s.VerifWaiting())
				}
			}
			return m
		}
		if !ok {
			violate("C12:local:stall", fmt.Sprintf("local jobs stalled: %d running, %d finished, %d failed, %d waiting on semaphores, of %d — nothing runs although every job fits the limits",
				len(running), len(done), len(failed), queued, len(jobs)), state())
			return
		}
		// rejected jobs: only when the model says an amount exceeds its semaphore
		for _, j := range failed {
			if j.state == "failed" {
				continue
			}
			j.state = "failed"
			over := -1
			for k := range sems {
				if sems[k] != nil && j.amts[k] > limits[k] {
					over = k
				}
			}
			msg, _ := os.ReadFile(j.md.MetadataFilePath(core.Errors))
			res := j.req.resources()
			switch {
			case over == 2 && j.amts[2] == j.amts[1]/1024*1024 && j.amts[1] > limits[2]:
				violate("C12:local:vmem-floor-above-limit",
					fmt.Sprintf("job asking for %g GB of memory (<= --localmem %d) is refused instead of clamped when --localvmem (%d MB) is below its memory request: %s",
						res.MemGB, g.MaxMemGB, g.MaxVmemMB, strings.TrimSpace(string(msg))), state())
			case over == 3:
				r.hist("local_jobs_refused_by_process_semaphore")
			case strings.Contains(string(msg), "Tried to acquire"):
				violate("C12:local:job-refused", fmt.Sprintf("job %d (threads %g, mem %g GB, vmem %g GB) was refused: %s",
					j.id, res.Threads, res.MemGB, res.VMemGB, strings.TrimSpace(string(msg))), state())
			default:
				// not a semaphore decision (the shell could not be started, was signalled, …)
				r.note("local round %d: job %d failed outside the semaphores: %s", round, j.id, strings.TrimSpace(string(msg)))
			}
		}
		if len(done)+len(failed) == len(jobs) {
			break
		}
		// limits and bookkeeping at this instant
		allEmpty := queued == 0
		for k, s := range sems {
			if s == nil {
				continue
			}
			var sum int64
			for _, j := range running {
				sum += j.amts[k]
			}
			name := []string{"cores(centi)", "memory(MB)", "vmem(MB)", "processes"}[k]
			res := s.Reserved()
			if sum > limits[k] {
				violate("C12:local:over-limit", fmt.Sprintf("%s: concurrently running jobs hold %d > limit %d", name, sum, limits[k]), state())
				return
			}
			if res > limits[k] {
				violate("C12:local:over-limit", fmt.Sprintf("%s: Reserved()=%d > limit %d", name, res, limits[k]), state())
				return
			}
			if res < sum {
				violate("C12:local:under-reserved", fmt.Sprintf("%s: running jobs should hold %d (model amounts) but only %d is reserved", name, sum, res), state())
				return
			}
			if allEmpty && res != sum {
				// a finished job may still be releasing: wait for equality
				dl := time.Now().Add(c12Wait)
				for s.Reserved() != sum && time.Now().Before(dl) {
					time.Sleep(time.Millisecond)
				}
				if s.Reserved() != sum {
					violate("C12:local:amount-mismatch", fmt.Sprintf("%s: nobody waits, running jobs hold %d by the model but Reserved()=%d", name, sum, s.Reserved()), state())
					return
				}
			}
		}
		// the PRNG picks the job that finishes next
		j := running[c.Rng.Intn(len(running))]
		release(j)
		dl := time.Now().Add(c12Wait)
		for {
			_, ended := readLog(logPath)
			if ended[j.id] {
				break
			}
			if time.Now().After(dl) {
				violate("C12:local:job-did-not-end", fmt.Sprintf("job %d did not end", j.id), state())
				return
			}
			time.Sleep(2 * time.Millisecond)
		}
		steps++
		r.hist("local_job_completions")
	}
	// everything released
	dl := time.Now().Add(c12Wait)
	for {
		left := false
		for _, s := range sems {
			if s != nil && (s.Reserved() != 0 || s.QueueLength() != 0) {
				left = true
			}
		}
		if !left {
			break
		}
		if time.Now().After(dl) {
			violate("C12:local:leftover", "all jobs ended but reservations remain", map[string]interface{}{
				"reserved": fmt.Sprint(sems[0].Reserved(), sems[1].Reserved())})
			break
		}
		time.Sleep(time.Millisecond)
	}
	// outcome vs the system model (Martian.SemaphoreSys): by Props.C12.local_every_schedule_finishes
	// the outcome does not depend on the interleaving, so any model schedule must agree
	{
		var sizes, js []string
		for k, s := range sems {
			if s != nil {
				sizes = append(sizes, strconv.FormatInt(limits[k], 10))
			}
		}
		for _, j := range jobs {
			var am []string
			for k, s := range sems {
				if s != nil {
					am = append(am, strconv.FormatInt(j.amts[k], 10))
				}
			}
			js = append(js, fmt.Sprintf("%d:%s", j.id, strings.Join(am, ",")))
		}
		// the hypothesis `Sane c` of the clamping theorems, and the model's own account of which
		// semaphores exist with which sizes / which amounts a job acquires on them
		// (Martian.Semaphore.localSizes / localAmounts, Props.C12.normalized_amounts_fit_every_configuration);
		// here the process semaphore is the hook's fresh one: everything is left for jobs
		{
			procs := "-"
			if sems[3] != nil {
				procs = strconv.FormatInt(limits[3], 10)
			}
			var reqs [][]string
			for _, j := range jobs {
				reqs = append(reqs, []string{"C12.cfgsizes", g.String(), procs,
					fmt.Sprintf("%d,%d,%d,%d", j.amts[0], j.amts[1], j.amts[2], j.amts[3])})
			}
			for i, rep := range c.Drv.AskBatch(reqs) {
				f := strings.Split(rep, "|")
				if len(f) != 3 {
					r.violate(Violation{Kind: "correspondence", Key: "C12:local:driver-bad-op", What: "C12.cfgsizes: " + rep, Input: input,
						Broken: "correspondence C12.cfgsizes"})
					break
				}
				if f[0] == "1" {
					r.hist("local_cfg_Sane_holds")
				} else {
					r.hist("local_cfg_Sane_fails")
					r.violate(Violation{Kind: "correspondence", Key: "C12:local:cfg-not-sane",
						What:  "a generated configuration does not satisfy `Sane` (hypothesis of clamp_le_limits / normalized_amounts_fit_every_configuration): the round is not covered by the theorems",
						Input: input, Broken: "hypothesis Sane of Props.C12.clamp_le_limits"})
					break
				}
				am := js[i][strings.IndexByte(js[i], ':')+1:]
				if f[1] != strings.Join(sizes, ",") || f[2] != am {
					r.violate(Violation{Kind: "correspondence", Key: "C12:local:sizes-model-mismatch",
						What:  fmt.Sprintf("semaphores that exist / amounts acquired on them: real sizes %s amounts %s, model localSizes %s localAmounts %s", strings.Join(sizes, ","), am, f[1], f[2]),
						Input: input, Broken: "correspondence C12.cfgsizes (localSizes / localAmounts vs setupSemaphores / Enqueue)"})
					break
				}
			}
		}
		rep := c.Drv.Ask("C12.sys", strings.Join(sizes, ","), strings.Join(js, ";"))
		_, ended := readLog(logPath)
		var real []string
		for _, j := range jobs {
			ran, failed := "0", "0"
			if ended[j.id] {
				ran = "1"
			}
			if j.state == "failed" {
				failed = "1"
			}
			real = append(real, fmt.Sprintf("%d:1:%s:%s", j.id, ran, failed))
		}
		model := strings.SplitN(rep, "|", 2)[0]
		if model != strings.Join(real, ";") {
			r.violate(Violation{Kind: "correspondence", Key: "C12:local:system-model-mismatch",
				What:  "outcome of the real local jobs (id:over:ran:refused) differs from the nested-semaphore system model",
				Input: input, Impl: strings.Join(real, ";"), Model: rep,
				Broken: "correspondence C12.sys (Martian.Semaphore.Sys.act vs LocalJobManager.Enqueue)"})
		}
		r.hist("local_system_model_comparisons")
	}
	r.count(fmt.Sprintf("local|%s|%v", g, reqs), true)
	r.hist("local_rounds")
}

func runC12Local(c *Ctx) {
	r := c.Res
	runC12Reqs(c)

	if _, err := os.Stat("/bin/sh"); err != nil {
		r.note("no /bin/sh: real local jobs skipped")
		return
	}
	rounds := 6
	if c.Thorough {
		rounds = 60
	}
	for round := 0; round < rounds; round++ {
		g := c12Cfg{MaxCores: 1 + c.Rng.Intn(4), MaxMemGB: 1 + c.Rng.Intn(4), TPJ: 1, MPJ: 1, EV: c.Rng.Intn(2)}
		switch c.Rng.Intn(3) {
		case 0:
			g.MaxVmemMB = 0
		case 1:
			g.MaxVmemMB = int64(g.MaxMemGB+g.EV) * 1024
		default:
			g.MaxVmemMB = int64(g.MaxMemGB+g.EV+2) * 1024
		}
		if c.Rng.Intn(2) == 0 {
			g.Procs = int64(16+g.MaxCores) + int64(c.Rng.Intn(40))
		}
		n := 6 + c.Rng.Intn(9)
		var reqs []c12Req
		for i := 0; i < n; i++ {
			q := c12Req{}
			switch c.Rng.Intn(6) {
			case 0:
				q.T64 = 0
			case 1:
				q.T64 = -64
			case 2:
				q.T64 = int64(g.MaxCores+1) * 64
			default:
				q.T64 = 16 * (1 + c.Rng.Int63n(int64(g.MaxCores)*4)) // quarter threads
			}
			switch c.Rng.Intn(6) {
			case 0:
				q.MemMb = 0
			case 1:
				q.MemMb = -(256 + 256*c.Rng.Int63n(4))
			case 2:
				q.MemMb = int64(g.MaxMemGB)*1024 + 512
			default:
				q.MemMb = 256 * (1 + c.Rng.Int63n(int64(g.MaxMemGB)*4))
			}
			if c.Rng.Intn(3) == 0 {
				q.VmemMb = 512 * (1 + c.Rng.Int63n(8))
			}
			reqs = append(reqs, q)
		}
		// --overrides entries for about half of the jobs: in range, zero, negative (adaptive), above the limit
		ovrs := make([]*c12Ovr, len(reqs))
		for i := range reqs {
			if c.Rng.Intn(2) == 0 {
				continue
			}
			o := &c12Ovr{}
			pick := func(unit, max int64) int64 {
				switch c.Rng.Intn(5) {
				case 0:
					return 0
				case 1:
					return -unit * (1 + c.Rng.Int63n(2))
				case 2:
					return (max + 2) * unit * 4
				default:
					return unit * (1 + c.Rng.Int63n(max*4))
				}
			}
			for f := 0; f < 3; f++ {
				o.has[f] = c.Rng.Intn(3) != 0
			}
			o.val = c12Req{T64: pick(16, int64(g.MaxCores)), MemMb: pick(256, int64(g.MaxMemGB)), VmemMb: pick(512, int64(g.MaxMemGB))}
			if !o.has[0] && !o.has[1] && !o.has[2] {
				o.has[c.Rng.Intn(2)] = true
			}
			ovrs[i] = o
			r.hist("local_jobs_with_overrides")
		}
		nv0 := len(r.Violations)
		runLocalRound(c, round, g, reqs, ovrs)
		stalled := false
		for _, v := range r.Violations {
			if v.Key == "C12:local:stall" || v.Key == "C12:local:job-did-not-end" {
				stalled = true
			}
		}
		// one confirmed violation of this stream is enough: every further round would be
		// re-executed alone with doubled waits as well (the recorded finding F18 does not count)
		confirmed := false
		for _, v := range r.Violations[nv0:] {
			if v.Key != "C12:local:vmem-floor-above-limit" {
				confirmed = true
			}
		}
		if confirmed && !stalled {
			r.note("local job rounds stopped after the first confirmed violation")
			break
		}
		if stalled {
			r.note("local job rounds stopped after the first stall")
			break
		}
	}
	// replay of the negative witness Props.C12.vmem_floor_exceeds_limit on the real job manager
	runLocalRound(c, 1000, c12Cfg{MaxCores: 4, MaxMemGB: 4, MaxVmemMB: 2048, TPJ: 1, MPJ: 1, EV: 0},
		[]c12Req{{T64: 64, MemMb: 3072, VmemMb: 0}}, nil)
}
